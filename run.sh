#!/bin/bash
# Wrapper for every MANIFEST command: pins the toolchain, builds the checker if needed, runs it.
set -u
DIR="$(cd "$(dirname "${BASH_SOURCE[0]}")" && pwd)"
export PATH=/opt/veriftools/go1.26.8/bin:$PATH
export GOTOOLCHAIN=local GOFLAGS=-mod=mod GOPROXY=off GOSUMDB=off
unset GOWORK
export KVERIF_DIR="$DIR"
export KVERIF_REPO="${KVERIF_REPO:-/repo}"
build() {
  mkdir -p "$DIR/bin"
  (cd "$DIR/checker" && go build -o "$DIR/bin/kverif" .) || { echo "checker build failed" >&2; exit 2; }
}
need_build() { [ ! -x "$DIR/bin/kverif" ] || [ -n "$(find "$DIR/checker" -name '*.go' -newer "$DIR/bin/kverif" -print -quit 2>/dev/null)" ]; }
case "${1:-}" in
  build) build ;;
  thorough)
    # thorough tier of one property: the full rule table on /repo, then the both-ways sensitivity run of every rule
    # instance (the analysis re-run on single-site variants of the current tree in scratch copies under $TMPDIR)
    id="${2:?property id}"
    if need_build; then build; fi
    "$DIR/bin/kverif" check "$id" thorough; rc=$?
    [ $rc -ne 0 ] && exit $rc
    python3 "$DIR/selftest/run_mutants.py" --prop "$id" -j "${KVERIF_JOBS:-12}" --sensitivity "$DIR/evidence/$id.json" | tail -3
    exit ${PIPESTATUS[0]}
    ;;
  *)
    # rebuild when the binary is missing or any checker source is newer
    if [ ! -x "$DIR/bin/kverif" ] || [ -n "$(find "$DIR/checker" -name '*.go' -newer "$DIR/bin/kverif" -print -quit 2>/dev/null)" ]; then
      build
    fi
    exec "$DIR/bin/kverif" "$@"
    ;;
esac
