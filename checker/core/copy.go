package core

import (
	"fmt"
	"go/token"
	"go/types"
	"regexp"
	"sort"
	"strings"

	"golang.org/x/tools/go/ssa"
)

var typeArgsRe = regexp.MustCompile(`\[[^\]]*\]$`)

// structName returns the short name of the named struct a value's type points to ("utils/ringbuffer.RingBuffer"
// for *RingBuffer[bool]), or "".
func structName(t types.Type) string {
	n := NamedOf(t)
	if n == nil || n.Obj().Pkg() == nil {
		return ""
	}
	return typeArgsRe.ReplaceAllString(Short(n.Obj().Pkg().Path()+"."+n.Obj().Name()), "")
}

// FieldsReadVia computes which fields of struct type typ are read from memory reachable from root (a pointer or
// struct value) inside fn and inside the karpenter callees root-derived values are passed to (depth bound).
// A whole-struct load counts as reading every field (whole=true).
func (w *World) FieldsReadVia(fn *ssa.Function, root ssa.Value, typ string, depth int) (map[string]bool, bool) {
	reads := map[string]bool{}
	whole := false
	type key struct {
		fn *ssa.Function
		v  ssa.Value
	}
	seen := map[key]bool{}
	var visit func(fn *ssa.Function, v ssa.Value, d int)
	visit = func(fn *ssa.Function, v ssa.Value, d int) {
		if v == nil || seen[key{fn, v}] {
			return
		}
		seen[key{fn, v}] = true
		refs := v.Referrers()
		if refs == nil {
			return
		}
		for _, r := range *refs {
			switch x := r.(type) {
			case *ssa.FieldAddr:
				if x.X != v {
					continue
				}
				if structName(x.X.Type()) == typ {
					// read if loaded or escaping; a pure store target is not a read
					for _, u := range *x.Referrers() {
						if st, ok := u.(*ssa.Store); ok && st.Addr == ssa.Value(x) {
							continue
						}
						reads[fieldNameOf(x.X.Type(), x.Field)] = true
					}
				}
				visit(fn, x, d)
			case *ssa.Field:
				if x.X == v && structName(x.X.Type()) == typ {
					reads[fieldNameOf(x.X.Type(), x.Field)] = true
				}
				visit(fn, x, d)
			case *ssa.UnOp:
				if x.Op == token.MUL && x.X == v {
					if _, isStruct := x.Type().Underlying().(*types.Struct); isStruct && structName(x.Type()) == typ {
						whole = true
					}
					visit(fn, x, d)
				}
			case *ssa.IndexAddr:
				if x.X == v {
					visit(fn, x, d)
				}
			case *ssa.Index:
				if x.X == v {
					visit(fn, x, d)
				}
			case *ssa.Phi, *ssa.ChangeType, *ssa.MakeInterface, *ssa.Slice, *ssa.Extract, *ssa.Lookup, *ssa.Range, *ssa.Next, *ssa.TypeAssert:
				visit(fn, r.(ssa.Value), d)
			case ssa.CallInstruction:
				c := x.Common()
				callee := c.StaticCallee()
				if callee == nil || !IsKarpenterFn(callee) || len(callee.Blocks) == 0 || d <= 0 {
					continue
				}
				for i, a := range c.Args {
					if a == v && i < len(callee.Params) {
						visit(callee, callee.Params[i], d-1)
					}
				}
				if cv, ok := x.(ssa.Value); ok {
					_ = cv
				}
			}
		}
	}
	visit(fn, root, depth)
	return reads, whole
}

// AllocFieldStores lists, for an Alloc of a struct in fn, the values stored into each of its fields
// (composite literal initialisation and later assignments in the same function).
func (w *World) AllocFieldStores(a *ssa.Alloc) map[string][]ssa.Value {
	return w.ValueFieldStores(a)
}

// ValueFieldStores: the same for any pointer-to-struct value (an Alloc, or the result of a constructor call).
func (w *World) ValueFieldStores(a ssa.Value) map[string][]ssa.Value {
	out := map[string][]ssa.Value{}
	refs := a.Referrers()
	if refs == nil {
		return out
	}
	for _, r := range *refs {
		fa, ok := r.(*ssa.FieldAddr)
		if !ok || fa.X != a {
			continue
		}
		name := fieldNameOf(a.Type(), fa.Field)
		for _, u := range *fa.Referrers() {
			if st, ok := u.(*ssa.Store); ok && st.Addr == ssa.Value(fa) {
				out[name] = append(out[name], st.Val)
			}
		}
	}
	return out
}

// CopySpec describes a function that builds a new T from a source T.
type CopySpec struct {
	Fn     string            // function
	Type   string            // short struct name
	Source string            // rendering prefix of the source object ("$0", "phi($1…"); matched as regexp on the stored value / read
	Exempt map[string]string // field -> reason it legitimately is not carried (audited)
	// Rebuilt: fields that may be left zero in the literal because the function rebuilds them afterwards;
	// value = regexp of an instruction that must be present (the rebuild call)
	Rebuilt map[string]string
	// Only: when set, only these fields are obligations (a property that depends on part of the carried state)
	Only []string
}

// freshConstructor: callee of c is a source function all of whose returns are one Alloc of the struct (a constructor
// returning a fresh object); returns that Alloc.
func freshConstructor(c *ssa.Call) *ssa.Alloc {
	callee := c.Call.StaticCallee()
	if callee == nil || len(callee.Blocks) == 0 {
		return nil
	}
	var a *ssa.Alloc
	for _, b := range callee.Blocks {
		for _, in := range b.Instrs {
			r, ok := in.(*ssa.Return)
			if !ok {
				continue
			}
			if len(r.Results) != 1 {
				return nil
			}
			x, ok := r.Results[0].(*ssa.Alloc)
			if !ok || (a != nil && a != x) {
				return nil
			}
			a = x
		}
	}
	return a
}

// CopyCoverage (COPY): every field of T is stored in the destination literal with a value derived from the
// same field of the source (its rendering mentions `<Source>.<field>`), or is exempt / rebuilt.
func CopyCoverage(w *World, id string, spec CopySpec) []Result {
	fn := w.Fn(spec.Fn)
	if fn == nil {
		return anchorMissing(id, "COPY", spec.Fn)
	}
	fields, _ := w.StructFields(spec.Type)
	if len(fields) == 0 {
		return []Result{Anchor(id, "COPY", "type "+spec.Type)}
	}
	construct := "COPY:" + spec.Fn + ":" + spec.Type
	// the destination: the one T literal of the function, or — when the object is obtained from a constructor and then
	// filled in — the one constructor result whose fields the function stores
	var dest ssa.Value
	var inCtor map[string][]ssa.Value
	n := 0
	for _, b := range fn.Blocks {
		for _, in := range b.Instrs {
			if a, ok := in.(*ssa.Alloc); ok && structName(a.Type()) == spec.Type {
				if _, isStruct := a.Type().Underlying().(*types.Pointer).Elem().Underlying().(*types.Struct); isStruct {
					dest = a
					n++
				}
			}
		}
	}
	if n == 0 {
		for _, b := range fn.Blocks {
			for _, in := range b.Instrs {
				c, ok := in.(*ssa.Call)
				if !ok || structName(c.Type()) != spec.Type {
					continue
				}
				if _, isPtr := c.Type().Underlying().(*types.Pointer); !isPtr {
					continue
				}
				a := freshConstructor(c)
				if a == nil || len(w.ValueFieldStores(c)) == 0 {
					continue
				}
				dest = c
				inCtor = w.ValueFieldStores(a)
				n++
			}
		}
	}
	if dest == nil || n != 1 {
		return []Result{one(id, "COPY", construct, Violated, n, w.Pos(fn.Pos()), fmt.Sprintf("expected exactly one %s literal in %s, found %d (idiom not recognised)", spec.Type, spec.Fn, n))}
	}
	stores := w.ValueFieldStores(dest)
	for f, vs := range inCtor {
		if len(stores[f]) == 0 {
			stores[f] = vs
		}
	}
	if len(spec.Only) > 0 {
		keep := map[string]bool{}
		for _, f := range spec.Only {
			keep[f] = true
		}
		var fs []string
		for _, f := range fields {
			if keep[f] {
				fs = append(fs, f)
			}
		}
		if len(fs) != len(spec.Only) {
			return []Result{Anchor(id, "COPY", "fields "+strings.Join(spec.Only, ",")+" of "+spec.Type)}
		}
		fields = fs
	}
	var out []Result
	var carried []string
	for _, f := range fields {
		if _, ok := spec.Exempt[f]; ok {
			continue
		}
		srcRe := regexp.MustCompile(spec.Source + `\.` + regexp.QuoteMeta(f) + `\b`)
		ok := false
		for _, v := range stores[f] {
			if srcRe.MatchString(w.RenderD(v, 6)) {
				ok = true
			}
		}
		if ok {
			carried = append(carried, f)
			continue
		}
		if re, isRebuilt := spec.Rebuilt[f]; isRebuilt {
			if len(w.Sites(fn, regexp.MustCompile(re), true)) > 0 {
				continue
			}
			out = append(out, one(id, "COPY", construct+"."+f, Violated, 0, w.Pos(dest.Pos()), fmt.Sprintf("%s: field %s is neither carried from the source nor rebuilt (expected `%s`)", spec.Fn, f, re)))
			continue
		}
		what := "is never set in the new " + spec.Type
		if len(stores[f]) > 0 {
			what = "is set to `" + clip(w.RenderD(stores[f][0], 5), 80) + "`, not to the source's value"
		}
		out = append(out, one(id, "COPY", construct+"."+f, Violated, 0, w.Pos(dest.Pos()),
			fmt.Sprintf("%s: field %s.%s %s — state kept in it is lost by this copy/carry-over", spec.Fn, spec.Type, f, what)))
	}
	if len(out) == 0 {
		sort.Strings(carried)
		out = append(out, one(id, "COPY", construct, Discharged, len(fields), w.Pos(dest.Pos()), fmt.Sprintf("%d fields, carried: %s", len(fields), strings.Join(carried, ","))))
	}
	return out
}
