package core

import (
	"go/types"
	"strings"

	"golang.org/x/tools/go/ssa"
)

// Additive helpers for "who may store into a map of a named map type" rules (group F, C12.WMC1). Nothing here changes the
// behaviour of an existing engine function.

// NamedType resolves a package-level named type of the karpenter module by short name ("scheduling.Requirements").
func (w *World) NamedType(short string) types.Type {
	for path, sp := range w.SSAPkg {
		if !strings.HasPrefix(path, ModPath) {
			continue
		}
		for _, m := range sp.Members {
			if t, ok := m.(*ssa.Type); ok && Short(t.Type().String()) == short {
				return t.Type()
			}
		}
	}
	return nil
}

// TypedMapStore is one way entries get into a map of the named map type T other than through T's own API.
type TypedMapStore struct {
	Fn     *ssa.Function   // the karpenter function containing the site
	Instr  ssa.Instruction // the map update, the call of the library generic, or the conversion
	Update *ssa.MapUpdate  // the store itself when it is in Fn (nil for Via != "")
	Via    string          // "": a direct `m[k] = v`; otherwise what stores on Fn's behalf (library generic instance, conversion)
}

// TypedMapStores lists, over all karpenter functions (test support packages included — the caller filters):
//   - every `m[k] = v` whose m has static type T, or is T converted to its unnamed underlying map type;
//   - every direct call of an instance of a library generic (maps.Copy, lo.Assign, …) whose body stores into a map of
//     type T (when only export data is loaded: maps.Copy / maps.Insert called with a T);
//   - every conversion of a map of another type to T (its entries were stored without T's API).
func (w *World) TypedMapStores(T types.Type) []TypedMapStore {
	isT := func(t types.Type) bool { return types.Identical(types.Unalias(t), T) }
	var out []TypedMapStore
	instStores := map[*ssa.Function]bool{}
	var storesIntoT func(f *ssa.Function, depth int) bool
	storesIntoT = func(f *ssa.Function, depth int) bool {
		if v, ok := instStores[f]; ok {
			return v
		}
		instStores[f] = false
		r := false
		for _, g := range WithClosures(f) {
			for _, b := range g.Blocks {
				for _, in := range b.Instrs {
					switch x := in.(type) {
					case *ssa.MapUpdate:
						if isT(x.Map.Type()) {
							r = true
						}
					case ssa.CallInstruction:
						if c := x.Common().StaticCallee(); c != nil && depth < 3 && len(c.TypeArgs()) > 0 && !IsKarpenterFn(c) && storesIntoT(c, depth+1) {
							r = true
						}
					}
				}
			}
		}
		instStores[f] = r
		return r
	}
	for _, fn := range w.Fns {
		if fn.Synthetic != "" && !strings.Contains(fn.Synthetic, "instance") && fn.Parent() == nil {
			continue // wrappers and thunks repeat the sites of the wrapped function
		}
		for _, b := range fn.Blocks {
			for _, in := range b.Instrs {
				switch x := in.(type) {
				case *ssa.MapUpdate:
					if isT(x.Map.Type()) {
						out = append(out, TypedMapStore{Fn: fn, Instr: in, Update: x})
					} else if ct, ok := x.Map.(*ssa.ChangeType); ok && isT(ct.X.Type()) {
						out = append(out, TypedMapStore{Fn: fn, Instr: in, Update: x})
					}
				case *ssa.ChangeType:
					if isT(x.Type()) && !isT(x.X.Type()) {
						if c, ok := x.X.(*ssa.Const); ok && c.IsNil() {
							continue
						}
						out = append(out, TypedMapStore{Fn: fn, Instr: in, Via: "conversion of a " + Short(x.X.Type().String())})
					}
				case ssa.CallInstruction:
					c := x.Common()
					callee := c.StaticCallee()
					if callee == nil || c.IsInvoke() || IsKarpenterFn(callee) || len(callee.TypeArgs()) == 0 {
						continue
					}
					mentions := false
					for _, ta := range callee.TypeArgs() {
						if isT(ta) {
							mentions = true
						}
					}
					if !mentions {
						continue
					}
					name := w.CalleeName(c)
					if len(callee.Blocks) > 0 {
						if storesIntoT(callee, 0) {
							out = append(out, TypedMapStore{Fn: fn, Instr: in, Via: name})
						}
					} else if len(c.Args) > 0 && isT(c.Args[0].Type()) && (strings.HasPrefix(name, "maps.Copy") || strings.HasPrefix(name, "maps.Insert")) {
						out = append(out, TypedMapStore{Fn: fn, Instr: in, Via: name})
					}
				}
			}
		}
	}
	return out
}

// PrivateHelperOwners: h is an unexported function all of whose callers (transitively, through unexported helpers) are
// among the allowed functions — the effect was extracted, not given to somebody else. Returns those callers, or nil.
// Same contract as the WMC rule's privateHelperOf, except that a promoted-method wrapper nobody calls (the compiler
// generates `(*disr.Replacement).m` for every method m of an embedded *sched.NodeClaim, also for unexported ones that
// the embedding package cannot even name) does not count as a caller.
func (w *World) PrivateHelperOwners(h *ssa.Function, allowed []string) []string {
	m := map[string]bool{}
	for _, a := range allowed {
		m[a] = true
	}
	return w.privateHelperOwners(RootFn(h), m, 0)
}

func (w *World) privateHelperOwners(h *ssa.Function, allowed map[string]bool, depth int) []string {
	if depth > 3 || h.Object() == nil || h.Object().Exported() {
		return nil
	}
	var owners []string
	n := 0
	for _, c := range w.CG().CallersOf(h) {
		if IsTestSupport(c) {
			continue
		}
		root := RootFn(c)
		if root == h {
			continue
		}
		if strings.HasPrefix(root.Synthetic, "wrapper for ") && len(w.CG().CallersOf(root)) == 0 {
			continue
		}
		n++
		name := FnName(root)
		if allowed[name] {
			owners = append(owners, name)
			continue
		}
		sub := w.privateHelperOwners(root, allowed, depth+1)
		if len(sub) == 0 {
			return nil
		}
		owners = append(owners, sub...)
	}
	if n == 0 {
		return nil
	}
	return owners
}

// RangeKeySource: v is the key of a `for k := range m` over a map (the #1 component of next(range(m))); returns m.
func RangeKeySource(v ssa.Value) (ssa.Value, bool) {
	for {
		ct, ok := v.(*ssa.ChangeType)
		if !ok {
			break
		}
		v = ct.X
	}
	ex, ok := v.(*ssa.Extract)
	if !ok || ex.Index != 1 {
		return nil, false
	}
	nx, ok := ex.Tuple.(*ssa.Next)
	if !ok || nx.IsString {
		return nil, false
	}
	rg, ok := nx.Iter.(*ssa.Range)
	if !ok {
		return nil, false
	}
	if _, isMap := rg.X.Type().Underlying().(*types.Map); !isMap {
		return nil, false
	}
	return rg.X, true
}

// MapMadeHere: the map written by mu was created by a make / composite literal of the same function that dominates the
// store: either the made value itself, or a load of a place (`*p`, a field) into which a dominating instruction of the
// function stored a made map and nothing else is stored by the function.
func (w *World) MapMadeHere(mu *ssa.MapUpdate) bool {
	switch m := mu.Map.(type) {
	case *ssa.MakeMap:
		return true
	case *ssa.UnOp:
		place := w.Render(m.X)
		fn := mu.Parent()
		dom, n := false, 0
		for _, b := range fn.Blocks {
			for i, in := range b.Instrs {
				st, ok := in.(*ssa.Store)
				if !ok || w.Render(st.Addr) != place {
					continue
				}
				n++
				if _, made := st.Val.(*ssa.MakeMap); !made {
					return false
				}
				if b == mu.Block() {
					if i < instrIndex(mu) {
						dom = true
					}
				} else if b.Dominates(mu.Block()) {
					dom = true
				}
			}
		}
		return n > 0 && dom
	}
	return false
}
