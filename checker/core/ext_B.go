package core

import "golang.org/x/tools/go/ssa"

// PrivateHelperCall: `in` is a static call of a karpenter helper that is private to owner (privateTo: unexported, all of
// its callers work on owner's behalf) and small enough to be looked into; it returns the helper and the call's arguments
// (receiver first). This is the exported form of helperCallee + privateTo, for hand-written rules that follow SSA *values*
// (not renderings) into an extracted helper. Purely additive: no existing engine function changes behaviour.
func (w *World) PrivateHelperCall(owner *ssa.Function, in ssa.Instruction) (*ssa.Function, []ssa.Value, bool) {
	if in == nil || in.Parent() == nil {
		return nil, nil, false
	}
	f, args, ok := w.helperCallee(in.Parent(), in)
	if !ok || !w.privateTo(f, owner) || len(args) != len(f.Params) {
		return nil, nil, false
	}
	return f, args, true
}
