package core

// ext_D.go — additive engine helpers (round 4, group D). Nothing here changes the behaviour of an existing function.
//
//   ConeMapAccesses   every direct access (lookup / range / update / delete) of a map inside a function and the private
//                     helpers and closures it runs, rendered in the root's terms;
//   EventOrder        "no event of class A is followed by an event of class B within one execution of root": the pairs
//                     (a, b) of instructions of one function of the cone — the event itself, or the call / closure that
//                     performs it — with b reachable after a.
//
// Together they decide ordering facts of the shape "the old entry is read before it is overwritten" without caring in
// which function of the cone either end sits (the read may be extracted into a helper, the write may be inlined).

import (
	"regexp"

	"golang.org/x/tools/go/ssa"
)

// MapAccess is one direct access of a map.
type MapAccess struct {
	In    ssa.Instruction
	Fn    *ssa.Function
	Map   string // rendering of the map operand, in the root's terms
	Key   string // rendering of the key, in the root's terms; "*" for a range over the map
	Write bool   // MapUpdate or delete(m, k); false: Lookup / Range
	Del   bool   // delete(m, k)
}

// coneCallee: the helper (or closure) whose body runs on behalf of root when `in` executes, if it is looked into.
func (w *World) coneCallee(root, f *ssa.Function, in ssa.Instruction) (*ssa.Function, []ssa.Value) {
	if mc, ok := in.(*ssa.MakeClosure); ok {
		if cf, ok := mc.Fn.(*ssa.Function); ok {
			return cf, nil
		}
		return nil, nil
	}
	callee, args, ok := w.helperCallee(f, in)
	if !ok || !w.privateTo(callee, root) {
		return nil, nil
	}
	return callee, args
}

// HelperCone lists root and the functions that run on its behalf: its closures and the private helpers it calls
// (transitively, at most maxDepth calls deep). visit is called once per function with the helper's parameters rendered
// as the arguments of the (first) call that reaches it.
func (w *World) HelperCone(root *ssa.Function, maxDepth int, visit func(f *ssa.Function)) map[*ssa.Function]bool {
	done := map[*ssa.Function]bool{root: true}
	var walk func(f *ssa.Function, depth int)
	walk = func(f *ssa.Function, depth int) {
		if visit != nil {
			visit(f)
		}
		for _, b := range f.Blocks {
			for _, in := range b.Instrs {
				callee, args := w.coneCallee(root, f, in)
				if callee == nil || done[callee] {
					continue
				}
				if args == nil { // closure: same frame of reference
					done[callee] = true
					walk(callee, depth)
					continue
				}
				if depth >= maxDepth {
					continue
				}
				done[callee] = true
				m := map[*ssa.Parameter]string{}
				for j, p := range callee.Params {
					m[p] = w.Render(args[j])
				}
				w.subst = append(w.subst, m)
				seeThrough++
				walk(callee, depth+1)
				w.subst = w.subst[:len(w.subst)-1]
				seeThrough--
			}
		}
	}
	walk(root, 0)
	return done
}

// ConeMapAccesses: the direct accesses of maps whose operand renders (in root's terms) like mapRe, in the cone of root.
func (w *World) ConeMapAccesses(root *ssa.Function, mapRe *regexp.Regexp, maxDepth int) ([]MapAccess, map[*ssa.Function]bool) {
	var out []MapAccess
	cone := w.HelperCone(root, maxDepth, func(f *ssa.Function) {
		for _, b := range f.Blocks {
			for _, in := range b.Instrs {
				var m, k ssa.Value
				a := MapAccess{In: in, Fn: f}
				switch x := in.(type) {
				case *ssa.Lookup:
					m, k = x.X, x.Index
				case *ssa.Range:
					m = x.X
				case *ssa.MapUpdate:
					m, k, a.Write = x.Map, x.Key, true
				case *ssa.Call:
					if bi, ok := x.Call.Value.(*ssa.Builtin); ok && bi.Name() == "delete" && len(x.Call.Args) == 2 {
						m, k, a.Write, a.Del = x.Call.Args[0], x.Call.Args[1], true, true
					}
				}
				if m == nil {
					continue
				}
				a.Map = w.Render(m)
				if !MatchRe(mapRe, a.Map) {
					continue
				}
				a.Key = "*"
				if k != nil {
					a.Key = w.Render(k)
				}
				out = append(out, a)
			}
		}
	})
	return out, cone
}

// OrderPair: in function In, instruction First (an A event, or the call / closure that performs one) can be followed
// by instruction Then (a B event, or the call / closure that performs one).
type OrderPair struct {
	In          *ssa.Function
	First, Then ssa.Instruction
}

// EventOrder decides, for the cone computed by HelperCone / ConeMapAccesses, whether an A event can be followed by a B event
// within one execution of root. Each function of the cone is examined once at its own level: an instruction counts as
// an A (B) event when it is one, or when it calls a helper / creates a closure of the cone that may perform one.
// Plain CFG reachability (no path feasibility): a reported pair may be infeasible, an unreported one does not exist.
// A deferred call performs its events when the function returns: it never precedes anything in its own function.
func (w *World) EventOrder(root *ssa.Function, cone map[*ssa.Function]bool, isA, isB map[ssa.Instruction]bool) []OrderPair {
	type sum struct{ a, b bool }
	type ev struct {
		in   ssa.Instruction
		a, b bool
	}
	sums := map[*ssa.Function]*sum{}
	evs := map[*ssa.Function][]ev{}
	var order []*ssa.Function
	var summarise func(f *ssa.Function) *sum
	summarise = func(f *ssa.Function) *sum {
		if s, ok := sums[f]; ok {
			return s // also: recursion in progress → what is known so far
		}
		s := &sum{}
		sums[f] = s
		for _, b := range f.Blocks {
			for _, in := range b.Instrs {
				e := ev{in: in, a: isA[in], b: isB[in]}
				if callee, _ := w.coneCallee(root, f, in); callee != nil && cone[callee] {
					cs := summarise(callee)
					e.a, e.b = e.a || cs.a, e.b || cs.b
				}
				if e.a || e.b {
					evs[f] = append(evs[f], e)
					s.a, s.b = s.a || e.a, s.b || e.b
				}
			}
		}
		order = append(order, f)
		return s
	}
	summarise(root)
	var out []OrderPair
	for _, f := range order {
		for _, x := range evs[f] {
			if !x.a {
				continue
			}
			if _, deferred := x.in.(*ssa.Defer); deferred {
				continue
			}
			after := plainReach(x.in.Block().Succs)
			for _, y := range evs[f] {
				if !y.b {
					continue
				}
				switch {
				case x.in == y.in:
					if !after[x.in.Block()] {
						continue // not in a loop: the order inside the callee is decided at the callee's level
					}
				case x.in.Block() == y.in.Block() && instrIndex(y.in) > instrIndex(x.in):
				case after[y.in.Block()]:
				default:
					continue
				}
				out = append(out, OrderPair{In: f, First: x.in, Then: y.in})
			}
		}
	}
	return out
}

func plainReach(starts []*ssa.BasicBlock) map[*ssa.BasicBlock]bool {
	seen := map[*ssa.BasicBlock]bool{}
	stack := append([]*ssa.BasicBlock{}, starts...)
	for len(stack) > 0 {
		b := stack[len(stack)-1]
		stack = stack[:len(stack)-1]
		if seen[b] {
			continue
		}
		seen[b] = true
		stack = append(stack, b.Succs...)
	}
	return seen
}

// RenderAccess renders a map access for a message.
func (w *World) RenderAccess(a MapAccess) string {
	switch {
	case a.Del:
		return "delete(" + a.Map + ", " + a.Key + ")"
	case a.Write:
		return a.Map + "[" + a.Key + "] = …"
	case a.Key == "*":
		return "range " + a.Map
	}
	return a.Map + "[" + a.Key + "]"
}
