package core

import (
	"go/constant"
	"go/token"
	"go/types"
	"regexp"
	"strings"

	"golang.org/x/tools/go/ssa"
)

// RetSpec selects the returns of a function that count as "the outcome of interest".
//
//	Index: result index (-1 = last).
//	Want:  "nil" (error result is nil: success), "nonnil", "true", "false", "any"
type RetSpec struct {
	Index int
	Want  string
	// Also, when set, further restricts the returns to those whose full rendering matches (e.g. `^return zero, nil$`
	// for the "proceed" outcome of a reconcile step: empty Result and nil error).
	Also string
}

var (
	RetOK    = RetSpec{Index: -1, Want: "nil"}
	RetTrue  = RetSpec{Index: -1, Want: "true"}
	RetFalse = RetSpec{Index: -1, Want: "false"}
	RetAny   = RetSpec{Index: -1, Want: "any"}
	// RetNilConst selects only returns whose error operand is the literal nil
	RetNilConst = RetSpec{Index: -1, Want: "nilconst"}
)

// RetSink is one way a function can return the outcome of interest.
type RetSink struct {
	Ret  *ssa.Return
	Pred *ssa.BasicBlock // when the outcome is selected by a phi edge: the predecessor; else nil
	// Chain: for nested phis (a && b || c) the sequence of blocks the path must traverse, farthest first,
	// ending with Pred; nil when Pred alone (or nothing) selects the value.
	Chain []*ssa.BasicBlock
	Lit   *Lit // extra condition under which this return has the outcome (value not constant)
	Desc  string
	Spec  RetSpec   // the outcome this sink was selected for
	Val   ssa.Value // the value returned for the selected result (nil for "any")
	// LitCond / LitWant: when Lit is "this condition has this truth value", the condition itself (for a second reading
	// with small helpers rendered as what they return)
	LitCond ssa.Value
	LitWant bool
}

var nonNilErrCallee = regexp.MustCompile(`^(fmt\.Errorf|errors\.New|.*serrors\.Wrap|.*\.New\w*Error|.*reconcile\.TerminalError|.*\.Errorf|.*errors\.New\w*|.*\.NewNotFound|.*\.NewConflict)$`)

// knownNonNil: the value certainly is a non-nil error/pointer.
func (w *World) knownNonNil(v ssa.Value, at *ssa.BasicBlock) bool {
	switch x := v.(type) {
	case *ssa.MakeInterface:
		switch x.X.(type) {
		case *ssa.Alloc:
			return true
		}
		if _, ok := x.X.Type().Underlying().(*types.Struct); ok {
			return true
		}
		if c, ok := x.X.(*ssa.Call); ok {
			return w.knownNonNil(c, at)
		}
		return false
	case *ssa.Call:
		if f := x.Call.StaticCallee(); f != nil && nonNilErrCallee.MatchString(FnName(f)) {
			return true
		}
	case *ssa.Alloc:
		return true
	}
	// guarded by a dominating "v != nil" edge
	fn := at.Parent()
	// edges on which v (possibly wrapped in Ignore* helpers, which map nil to nil) was tested non-nil
	want := Lit{false, w.Render(v) + " == nil"}
	c := newCut()
	for _, b := range fn.Blocks {
		if len(b.Instrs) == 0 {
			continue
		}
		if ifi, ok := b.Instrs[len(b.Instrs)-1].(*ssa.If); ok && len(b.Succs) == 2 && b.Succs[0] != b.Succs[1] {
			if x, errEdge, ok := errTest(ifi.Cond); ok {
				for {
					call, isCall := x.(*ssa.Call)
					if !isCall || call.Call.StaticCallee() == nil || len(call.Call.Args) != 1 || !strings.HasPrefix(call.Call.StaticCallee().Name(), "Ignore") {
						break
					}
					x = call.Call.Args[0]
				}
				if x == v {
					c.Edges[EdgeKey{b, errEdge}] = true
				}
			}
		}
		t, f, ok := w.BlockLits(b)
		if !ok {
			continue
		}
		if t == want {
			c.Edges[EdgeKey{b, 0}] = true
		}
		if f == want {
			c.Edges[EdgeKey{b, 1}] = true
		}
	}
	if len(c.Edges) == 0 {
		return false
	}
	r := Reach([]*ssa.BasicBlock{fn.Blocks[0]}, c)
	return !r[at]
}

// classify returns (isOutcome, isCertainlyNot, lit)
func (w *World) classifyRet(v ssa.Value, want string, at *ssa.BasicBlock) (yes bool, no bool, lit *Lit) {
	switch want {
	case "any":
		return true, false, nil
	case "nilconst":
		if isNilConst(v) {
			return true, false, nil
		}
		return false, true, nil
	case "nil", "nonnil":
		isNil := isNilConst(v)
		nonNil := !isNil && w.knownNonNil(v, at)
		if want == "nil" {
			if isNil {
				return true, false, nil
			}
			if nonNil {
				return false, true, nil
			}
			l := Lit{true, w.Render(v) + " == nil"}
			return false, false, &l
		}
		if nonNil {
			return true, false, nil
		}
		if isNil {
			return false, true, nil
		}
		l := Lit{false, w.Render(v) + " == nil"}
		return false, false, &l
	case "zero", "nonzero":
		if c, ok := v.(*ssa.Const); ok {
			isZero := c.Value == nil || (c.Value.Kind() == constant.String && constant.StringVal(c.Value) == "") ||
				((c.Value.Kind() == constant.Int || c.Value.Kind() == constant.Float) && constant.Sign(c.Value) == 0) ||
				(c.Value.Kind() == constant.Bool && !constant.BoolVal(c.Value))
			if isZero == (want == "zero") {
				return true, false, nil
			}
			return false, true, nil
		}
		return false, false, nil
	case "true", "false":
		wantTrue := want == "true"
		if bv, ok := boolConst(v); ok {
			if bv == wantTrue {
				return true, false, nil
			}
			return false, true, nil
		}
		l := w.NormLit(v, wantTrue)
		return false, false, &l
	}
	panic("bad RetSpec.Want " + want)
}

// ReturnSinks enumerates the ways fn returns the outcome selected by spec.
func (w *World) ReturnSinks(fn *ssa.Function, spec RetSpec) []RetSink {
	var out []RetSink
	for _, b := range fn.Blocks {
		if len(b.Instrs) == 0 {
			continue
		}
		ret, ok := b.Instrs[len(b.Instrs)-1].(*ssa.Return)
		if !ok {
			continue
		}
		if spec.Also != "" && !regexp.MustCompile(spec.Also).MatchString(w.RenderInstr(ret)) {
			continue
		}
		if spec.Want == "any" || len(ret.Results) == 0 {
			out = append(out, RetSink{Ret: ret, Desc: "return", Spec: spec})
			continue
		}
		idx := spec.Index
		if idx < 0 {
			idx = len(ret.Results) + idx
		}
		if idx < 0 || idx >= len(ret.Results) {
			continue
		}
		v := resolveSpilled(ret, ret.Results[idx])
		if phi, ok := v.(*ssa.Phi); ok && phi.Block() == b {
			var expand func(phi *ssa.Phi, chain []*ssa.BasicBlock, depth int)
			expand = func(phi *ssa.Phi, chain []*ssa.BasicBlock, depth int) {
				for i, e := range phi.Edges {
					pred := phi.Block().Preds[i]
					nchain := append([]*ssa.BasicBlock{pred}, chain...)
					if inner, ok := e.(*ssa.Phi); ok && inner.Block() == pred && depth < 5 {
						expand(inner, nchain, depth+1)
						continue
					}
					yes, no, lit := w.classifyRet(e, spec.Want, pred)
					if no {
						continue
					}
					_ = yes
					rs := RetSink{Ret: ret, Pred: nchain[len(nchain)-1], Lit: lit, Desc: "return(phi edge " + w.RenderD(e, 4) + ")", Spec: spec, Val: e}
					if len(nchain) > 1 {
						rs.Chain = nchain
					}
					out = append(out, rs)
				}
			}
			expand(phi, nil, 0)
			continue
		}
		// a value-level select: `return lo.Ternary(c, a, b)` returns a under c and b under ¬c
		if c, a, bb, ok := w.ternaryOf(v); ok {
			ya, na, la := w.classifyRet(a, spec.Want, b)
			yb, nb, lb := w.classifyRet(bb, spec.Want, b)
			if (ya || na) && (yb || nb) && la == nil && lb == nil {
				if ya {
					l := w.NormLit(c, true)
					out = append(out, RetSink{Ret: ret, Lit: &l, Desc: "return " + w.RenderD(a, 4) + " (select, condition true)", Spec: spec, Val: a, LitCond: c, LitWant: true})
				}
				if yb {
					l := w.NormLit(c, false)
					out = append(out, RetSink{Ret: ret, Lit: &l, Desc: "return " + w.RenderD(bb, 4) + " (select, condition false)", Spec: spec, Val: bb, LitCond: c, LitWant: false})
				}
				continue
			}
		}
		yes, no, lit := w.classifyRet(v, spec.Want, b)
		if no {
			continue
		}
		_ = yes
		out = append(out, RetSink{Ret: ret, Lit: lit, Desc: "return " + w.RenderD(v, 4), Spec: spec, Val: v})
	}
	return out
}

// ternaryOf recognises lo.Ternary(cond, a, b).
func (w *World) ternaryOf(v ssa.Value) (cond, a, b ssa.Value, ok bool) {
	c, isCall := v.(*ssa.Call)
	if !isCall || len(c.Call.Args) != 3 {
		return nil, nil, nil, false
	}
	if !strings.HasPrefix(w.CalleeName(c.Common()), "lo.Ternary[") {
		return nil, nil, nil, false
	}
	return c.Call.Args[0], c.Call.Args[1], c.Call.Args[2], true
}

// RetGuarded: is the return sink guarded by gate g (within its own function) — or does it hand back the outcome of a helper
// that only produces that outcome after passing g?
func (w *World) RetGuarded(s RetSink, g Gate) bool {
	if w.retGuardedHere(s, g) {
		return true
	}
	if s.Pred == nil && s.Spec.Want != "" {
		return w.returnsHelperOutcome(s.Ret.Parent(), s, s.Spec, g)
	}
	return false
}

func (w *World) retGuardedHere(s RetSink, g Gate) bool {
	if s.Lit != nil {
		for _, p := range g.Lits {
			if p.Match(*s.Lit) {
				return true
			}
		}
		if s.LitCond != nil && !w.inlineTrivial {
			w.inlineTrivial = true
			l2 := w.NormLit(s.LitCond, s.LitWant)
			w.inlineTrivial = false
			for _, p := range g.Lits {
				if p.Match(l2) {
					return true
				}
			}
		}
	}
	c := w.GateCut(s.Ret.Parent(), g)
	if len(s.Chain) > 1 {
		// every hop of the chain must be traversable
		blocks := append(append([]*ssa.BasicBlock{}, s.Chain...), s.Ret.Block())
		if !EdgeReachable(blocks[0], blocks[1], c) {
			return true
		}
		for i := 1; i+1 < len(blocks); i++ {
			if blockHasCutInstr(blocks[i], c, nil) {
				return true
			}
			ok := false
			for j, su := range blocks[i].Succs {
				if su == blocks[i+1] && !c.Edges[EdgeKey{blocks[i], j}] {
					ok = true
				}
			}
			if !ok {
				return true
			}
		}
		return false
	}
	if s.Pred != nil {
		return !EdgeReachable(s.Pred, s.Ret.Block(), c)
	}
	return !InstrReachable(s.Ret, c)
}

// resolveSpilled sees through "defer-spilled" named results: `store &r = v; return *&r`.
// The last store to the result slot in the returning block (or, failing that, in the chain of
// single predecessors) is the returned value.
func resolveSpilled(ret *ssa.Return, v ssa.Value) ssa.Value {
	ld, ok := v.(*ssa.UnOp)
	if !ok || ld.Op != token.MUL {
		return v
	}
	a, ok := ld.X.(*ssa.Alloc)
	if !ok {
		return v
	}
	b := ret.Block()
	for hops := 0; b != nil && hops < 8; hops++ {
		for i := len(b.Instrs) - 1; i >= 0; i-- {
			if st, ok := b.Instrs[i].(*ssa.Store); ok && st.Addr == ssa.Value(a) {
				return st.Val
			}
		}
		if len(b.Preds) != 1 {
			break
		}
		b = b.Preds[0]
	}
	return v
}

// ResolveRet returns result #idx of a return, seeing through defer-spilled named results.
func ResolveRet(ret *ssa.Return, idx int) ssa.Value {
	if idx < 0 {
		idx = len(ret.Results) + idx
	}
	if idx < 0 || idx >= len(ret.Results) {
		return nil
	}
	return resolveSpilled(ret, ret.Results[idx])
}
