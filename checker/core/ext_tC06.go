package core

// Purely additive helper (triage of C06): where do the ELEMENTS of a slice value come from?
//
// A rule of the shape "the list handed to X contains the pods of Y" must not depend on how the list is put together:
// `a = append(a, b...)` in one order or the other, a temporary, an accumulator filled in a loop, a concatenation moved
// into an unexported helper. SliceSources walks back from the slice value through everything that only concatenates,
// re-slices, selects (phi) or passes a list on, and returns the leaves — the expressions whose elements end up in the
// list. No existing engine function calls it.

import (
	"go/token"
	"go/types"

	"golang.org/x/tools/go/ssa"
)

// SliceLeaf is one origin of the elements of a slice value.
type SliceLeaf struct {
	Val  ssa.Value
	Elem bool   // Val is a single element (operand of `append(s, x)`), not a list
	Text string // canonical rendering (depth 9) in the terms of the function the walk started in
}

// SliceSources: the leaves of v (a slice typed value of owner or of one of its closures). Walked through: phis, the
// append builtin (the variadic operand `append(s, x, y)` is read element by element), re-slicing of a slice, type
// changes, loads of a local kept in memory (every value stored into it), calls of a private helper of owner (every
// return of the helper, its parameters continued at the call's arguments; two levels). A nil constant contributes
// nothing. Everything else is a leaf.
func (w *World) SliceSources(owner *ssa.Function, v ssa.Value) []SliceLeaf {
	var out []SliceLeaf
	seen := map[ssa.Value]bool{}
	type frame struct {
		fn   *ssa.Function
		args map[*ssa.Parameter]ssa.Value
		up   *frame
	}
	leaf := func(v ssa.Value, elem bool) {
		out = append(out, SliceLeaf{Val: v, Elem: elem, Text: w.RenderD(v, 9)})
	}
	var walk func(fr *frame, v ssa.Value, depth int)
	walk = func(fr *frame, v ssa.Value, depth int) {
		if v == nil || seen[v] {
			return
		}
		seen[v] = true
		switch x := v.(type) {
		case *ssa.Phi:
			for _, e := range x.Edges {
				walk(fr, e, depth)
			}
			return
		case *ssa.ChangeType:
			walk(fr, x.X, depth)
			return
		case *ssa.Const:
			if x.IsNil() {
				return
			}
		case *ssa.Parameter:
			if fr.args != nil {
				if a, ok := fr.args[x]; ok && fr.up != nil {
					walk(fr.up, a, depth)
					return
				}
			}
		case *ssa.Slice:
			if _, isSlice := x.X.Type().Underlying().(*types.Slice); isSlice {
				walk(fr, x.X, depth)
				return
			}
			// `append(s, x, y)`: the operands were spilled into a fresh array
			if a, ok := x.X.(*ssa.Alloc); ok && x.Low == nil && x.High == nil {
				n := 0
				for _, r := range *a.Referrers() {
					ia, ok := r.(*ssa.IndexAddr)
					if !ok {
						continue
					}
					for _, u := range *ia.Referrers() {
						if st, ok := u.(*ssa.Store); ok && st.Addr == ssa.Value(ia) {
							leaf(st.Val, true)
							n++
						}
					}
				}
				if n > 0 {
					return
				}
			}
		case *ssa.UnOp:
			if a, ok := x.X.(*ssa.Alloc); ok && x.Op == token.MUL {
				n := 0
				for _, r := range *a.Referrers() {
					if st, ok := r.(*ssa.Store); ok && st.Addr == ssa.Value(a) {
						walk(fr, st.Val, depth)
						n++
					}
				}
				if n > 0 {
					return
				}
			}
		case *ssa.Call, *ssa.Extract:
			if c, ok := x.(*ssa.Call); ok {
				if b, isB := c.Call.Value.(*ssa.Builtin); isB && b.Name() == "append" {
					for _, a := range c.Call.Args {
						walk(fr, a, depth)
					}
					return
				}
			}
			if depth < 2 {
				var call *ssa.Call
				if c, ok := x.(*ssa.Call); ok {
					call = c
				} else if c, ok := x.(*ssa.Extract).Tuple.(*ssa.Call); ok {
					call = c
				}
				if call != nil {
					if h, args, ok := w.PrivateHelperCall(fr.fn, call); ok {
						if _, rets, leave, ok := w.EnterHelperAll(fr.fn, v); ok {
							m := map[*ssa.Parameter]ssa.Value{}
							for j, p := range h.Params {
								m[p] = args[j]
							}
							nf := &frame{fn: h, args: m, up: fr}
							for _, r := range rets {
								walk(nf, r.Val, depth+1)
							}
							leave()
							return
						}
					}
				}
			}
		}
		leaf(v, false)
	}
	walk(&frame{fn: owner}, v, 0)
	return out
}
