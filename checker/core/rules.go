package core

import (
	"fmt"
	"go/token"
	"go/types"
	"regexp"
	"sort"
	"strings"

	"golang.org/x/tools/go/ssa"
)

type Status string

const (
	Discharged Status = "discharged"
	Violated   Status = "violated"
	Undecided  Status = "undecided"
)

// Result is the verdict on one obligation (or one instance of it).
type Result struct {
	ID        string   `json:"id"`        // stable obligation id, e.g. C03.DOM1
	Kind      string   `json:"kind"`      // rule kind
	Construct string   `json:"construct"` // rule+construct key (no line numbers)
	Status    Status   `json:"status"`
	Msg       string   `json:"msg,omitempty"`
	Pos       string   `json:"pos,omitempty"`
	Sites     int      `json:"sites"` // instances bound
	Facts     []string `json:"facts,omitempty"`
	Known     string   `json:"known_finding,omitempty"`
}

// Rule is one row of a property's obligation table.
type Rule interface {
	RuleID() string
	Check(w *World) []Result
}

func one(id, kind, construct string, st Status, sites int, pos, msg string, facts ...string) Result {
	return Result{ID: id, Kind: kind, Construct: construct, Status: st, Msg: msg, Pos: pos, Sites: sites, Facts: facts}
}

func anchorMissing(id, kind, fn string) []Result {
	return []Result{one(id, kind, "anchor:"+fn, Violated, 0, "", "anchor not found: function "+fn+" does not exist (renamed or removed mechanism)")}
}

// ---------------------------------------------------------------------------
// DOM — guarded effect

// DOM: every site of Sink in Fn (closures included) is guarded by every gate in Gates.
type DOM struct {
	ID      string
	Fn      string
	Sink    string // regexp over RenderInstr
	Gates   []Gate
	Min     int  // minimum number of sink sites confirmed by hand (default 1)
	Max     int  // 0 = unbounded
	Shallow bool // do not look inside closures
	// Stable lists (audited) canonical expressions that are pure over SSA registers; a path may not take
	// both polarities of such an expression (removes infeasible paths of the `if ok {a}; …; if !ok {return}` shape).
	Stable []string
	Note   string
}

func (r DOM) RuleID() string { return r.ID }

func (r DOM) Check(w *World) []Result {
	fn := w.Fn(r.Fn)
	if fn == nil {
		return anchorMissing(r.ID, "DOM", r.Fn)
	}
	re := regexp.MustCompile(r.Sink)
	min := r.Min
	if min == 0 {
		min = 1
	}
	sites := w.SitesOr(fn, re, !r.Shallow, min)
	construct := "DOM:" + r.Fn + "▸" + r.Sink
	if len(sites) < min {
		return []Result{one(r.ID, "DOM", construct, Violated, len(sites), w.Pos(fn.Pos()),
			fmt.Sprintf("vacuous: %d site(s) of the guarded effect found, %d confirmed by hand — the effect moved or the anchor changed", len(sites), min))}
	}
	if r.Max > 0 && len(sites) > r.Max {
		return []Result{one(r.ID, "DOM", construct, Violated, len(sites), w.Pos(fn.Pos()),
			fmt.Sprintf("%d sites of the effect found, at most %d classified", len(sites), r.Max))}
	}
	var out []Result
	for _, s := range sites {
		for _, g := range r.Gates {
			if !w.GuardedByConsistent(s, g, compileAll(r.Stable)) {
				// the effect may sit in an extracted helper together with (part of) its guard: then every occurrence
				// inside the helper must be guarded there, in this function's terms
				if w.guardedInsideHelper(s, re, g) {
					continue
				}
				out = append(out, one(r.ID, "DOM", construct+"⇐"+g.Text, Violated, len(sites), w.InstrPos(s),
					fmt.Sprintf("effect `%s` in %s is reachable without passing guard {%s}", clip(w.RenderInstr(s), 160), FnName(s.Parent()), g.Text),
					w.DominatingLits(s)...))
			}
		}
	}
	if len(out) == 0 {
		var facts []string
		for _, s := range sites {
			facts = append(facts, w.InstrPos(s)+" "+clip(w.RenderInstr(s), 120))
		}
		out = append(out, one(r.ID, "DOM", construct, Discharged, len(sites), w.InstrPos(sites[0]),
			fmt.Sprintf("%d site(s) × %d gate(s) guarded", len(sites), len(r.Gates)), facts...))
	}
	return out
}

func clip(s string, n int) string {
	if len(s) <= n {
		return s
	}
	r := []rune(s)
	if len(r) <= n {
		return s
	}
	return string(r[:n]) + "…"
}

// ---------------------------------------------------------------------------
// MPT — must pass on success

// MPT: every return of Fn with outcome Ret is guarded by every gate.
type MPT struct {
	ID    string
	Fn    string
	Ret   RetSpec
	Gates []Gate
	Min   int // minimum number of outcome returns (default 1)
	Note  string
}

func (r MPT) RuleID() string { return r.ID }

func (r MPT) Check(w *World) []Result {
	fn := w.Fn(r.Fn)
	if fn == nil {
		return anchorMissing(r.ID, "MPT", r.Fn)
	}
	spec := r.Ret
	if spec.Want == "" {
		spec = RetOK
	}
	sinks := w.ReturnSinks(fn, spec)
	construct := "MPT:" + r.Fn + "⇒" + spec.Want
	min := r.Min
	if min == 0 {
		min = 1
	}
	if len(sinks) < min {
		return []Result{one(r.ID, "MPT", construct, Violated, len(sinks), w.Pos(fn.Pos()),
			fmt.Sprintf("vacuous: %d return(s) with outcome %q, expected at least %d", len(sinks), spec.Want, min))}
	}
	var out []Result
	for _, s := range sinks {
		for _, g := range r.Gates {
			if !w.RetGuarded(s, g) {
				out = append(out, one(r.ID, "MPT", construct+"⇐"+g.Text, Violated, len(sinks), w.InstrPos(s.Ret),
					fmt.Sprintf("%s can return outcome %q (%s) without passing check {%s}", r.Fn, spec.Want, s.Desc, g.Text),
					w.DominatingLits(s.Ret)...))
			}
		}
	}
	if len(out) == 0 {
		out = append(out, one(r.ID, "MPT", construct, Discharged, len(sinks), w.InstrPos(sinks[0].Ret),
			fmt.Sprintf("%d outcome return(s) × %d check(s)", len(sinks), len(r.Gates))))
	}
	return out
}

// ---------------------------------------------------------------------------
// POST — must follow

// POST: after every site of From in Fn, every path to an exit selected by To executes an
// instruction matching one of Must — unless it crosses an Excuse edge first.
// From == "" means the function entry. To: "return" (any normal return), "ok" (error result nil), or a RetSpec via ToSpec.
type POST struct {
	ID      string
	Fn      string
	From    string
	FromLit string   // alternatively: start from every CFG edge on which this literal holds
	Must    []string // alternatives
	To      RetSpec  // default RetAny
	Excuse  []string // literal patterns: paths crossing such an edge are not obliged
	Min     int
	Shallow bool // search From only in Fn itself (closures excluded)
	Note    string
}

func (r POST) RuleID() string { return r.ID }

func (r POST) Check(w *World) []Result {
	fn := w.Fn(r.Fn)
	if fn == nil {
		return anchorMissing(r.ID, "POST", r.Fn)
	}
	construct := "POST:" + r.Fn + "▸" + r.From + r.FromLit + "→" + strings.Join(r.Must, "|")
	var musts []*regexp.Regexp
	for _, m := range r.Must {
		musts = append(musts, regexp.MustCompile(m))
	}
	spec := r.To
	if spec.Want == "" {
		spec = RetAny
	}
	excuse := Gate{}
	for _, e := range r.Excuse {
		excuse.Lits = append(excuse.Lits, MustLitPat(e))
	}
	type start struct {
		in   ssa.Instruction
		fn   *ssa.Function
		edge *ssa.BasicBlock // FromLit: start at the entry of this block
		from *ssa.BasicBlock // …entered from this block (matters when edge is a boolean join)
	}
	var starts []start
	if r.FromLit != "" {
		pat := MustLitPat(r.FromLit)
		for _, f := range WithClosures(fn) {
			for _, b := range f.Blocks {
				t, fl, ok := w.BlockLits(b)
				if !ok {
					continue
				}
				for i, l := range []Lit{t, fl} {
					if pat.Match(l) && len(b.Succs[i].Instrs) > 0 {
						starts = append(starts, start{nil, f, b.Succs[i], b})
					}
				}
				// a materialised boolean: the literal may be one predecessor's operand of the join
				if phi := boolJoin(b); phi != nil {
					for k := range phi.Edges {
						truth, jt, jf := w.joinOperand(b, phi, k)
						if truth >= 0 {
							continue
						}
						for i, l := range []Lit{jt, jf} {
							if pat.Match(l) && len(b.Succs[i].Instrs) > 0 {
								starts = append(starts, start{nil, f, b.Succs[i], b})
							}
						}
					}
				}
			}
		}
		if len(starts) == 0 {
			// the condition may have been extracted into a helper: start from the caller's edges on which the helper
			// reports an outcome that the literal forces
			for _, f := range WithClosures(fn) {
				for _, b := range f.Blocks {
					if len(b.Instrs) == 0 || len(b.Succs) != 2 {
						continue
					}
					ifi, ok := b.Instrs[len(b.Instrs)-1].(*ssa.If)
					if !ok {
						continue
					}
					call, idx, wantT, wantF, ok := condCallOutcome(ifi.Cond)
					if !ok {
						continue
					}
					for e, want := range []string{wantT, wantF} {
						if w.helperImplies(f, call, idx, want, pat) && len(b.Succs[e].Instrs) > 0 {
							starts = append(starts, start{nil, f, b.Succs[e], b})
						}
					}
				}
			}
		}
	} else if r.From == "" {
		starts = append(starts, start{nil, fn, nil, nil})
	} else {
		m := r.Min
		if m == 0 {
			m = 1
		}
		for _, s := range w.SitesOr(fn, regexp.MustCompile(r.From), !r.Shallow, m) {
			starts = append(starts, start{s, s.Parent(), nil, nil})
		}
	}
	min := r.Min
	if min == 0 {
		min = 1
	}
	if len(starts) < min {
		return []Result{one(r.ID, "POST", construct, Violated, len(starts), w.Pos(fn.Pos()),
			fmt.Sprintf("vacuous: %d site(s) of `%s` found, %d confirmed by hand", len(starts), r.From, min))}
	}
	var out []Result
	for _, st := range starts {
		var bad bool
		var why string
		if st.edge != nil {
			bad, why = w.postSearchFrom(st.fn, st.edge, st.from, 0, musts, spec, excuse)
		} else {
			bad, why = w.postViolated(st.fn, st.in, musts, spec, excuse)
			if bad && st.in != nil && r.From != "" && w.postInsideHelper(st.in, regexp.MustCompile(r.From), musts) {
				bad = false // From and Must were extracted together: the obligation holds inside the helper
			}
		}
		if bad {
			pos := w.Pos(st.fn.Pos())
			if st.edge != nil {
				pos = w.InstrPos(st.edge.Instrs[0])
			} else if st.in != nil {
				pos = w.InstrPos(st.in)
			}
			out = append(out, one(r.ID, "POST", construct, Violated, len(starts), pos,
				fmt.Sprintf("in %s a path from `%s` reaches %s without executing {%s}", FnName(st.fn), clip(r.From+r.FromLit, 80), why, strings.Join(r.Must, " | "))))
		}
	}
	if len(out) == 0 {
		out = append(out, one(r.ID, "POST", construct, Discharged, len(starts), w.Pos(fn.Pos()), fmt.Sprintf("%d start site(s)", len(starts))))
	}
	return out
}

func (w *World) matchAny(in ssa.Instruction, res []*regexp.Regexp) bool {
	if !interestingInstr(in) {
		return false
	}
	s := w.RenderInstr(in)
	for _, re := range res {
		if MatchRe(re, s) {
			return true
		}
	}
	if !w.inlineTrivial {
		w.inlineTrivial = true
		s2 := w.RenderInstr(in)
		w.inlineTrivial = false
		if s2 != s {
			for _, re := range res {
				if MatchRe(re, s2) {
					return true
				}
			}
		}
	}
	// a helper that executes a Must on every one of its paths counts as the Must
	return w.calleeContains(in.Parent(), in, res, true)
}

// postViolated searches forward from `from` (exclusive; nil = entry) for an exit not preceded by a Must.
func (w *World) postViolated(fn *ssa.Function, from ssa.Instruction, musts []*regexp.Regexp, spec RetSpec, excuse Gate) (bool, string) {
	// a dominating defer of a Must instruction satisfies every exit
	if from != nil {
		for _, b := range fn.Blocks {
			for _, in := range b.Instrs {
				if d, ok := in.(*ssa.Defer); ok && w.matchAny(d, musts) {
					if b == from.Block() && instrIndex(d) < instrIndex(from) || b != from.Block() && b.Dominates(from.Block()) {
						return false, ""
					}
				}
			}
		}
	}
	var startBlock *ssa.BasicBlock
	startIdx := 0
	if from == nil {
		startBlock = fn.Blocks[0]
	} else {
		startBlock = from.Block()
		startIdx = instrIndex(from) + 1
	}
	return w.postSearch(fn, startBlock, startIdx, musts, spec, excuse)
}

func (w *World) postSearch(fn *ssa.Function, startBlock *ssa.BasicBlock, startIdx int, musts []*regexp.Regexp, spec RetSpec, excuse Gate) (bool, string) {
	return w.postSearchFrom(fn, startBlock, nil, startIdx, musts, spec, excuse)
}

func (w *World) postSearchFrom(fn *ssa.Function, startBlock, startFrom *ssa.BasicBlock, startIdx int, musts []*regexp.Regexp, spec RetSpec, excuse Gate) (bool, string) {
	cut := w.GateCut(fn, excuse)
	// edges on which a helper's outcome implies that the helper executed a Must (the Must was extracted together with
	// its error check: `if err := helper(); err != nil { return err }`)
	mcut := w.GateCut(fn, Gate{Instrs: musts, Text: "must"})
	sinks := map[*ssa.BasicBlock][]RetSink{}
	for _, s := range w.ReturnSinks(fn, spec) {
		sinks[s.Ret.Block()] = append(sinks[s.Ret.Block()], s)
	}
	type item struct {
		b    *ssa.BasicBlock
		idx  int
		pred *ssa.BasicBlock
	}
	seen := map[*ssa.BasicBlock]bool{}
	type jk struct{ b, from *ssa.BasicBlock }
	seenJ := map[jk]bool{}
	stack := []item{{startBlock, startIdx, startFrom}}
	for len(stack) > 0 {
		it := stack[len(stack)-1]
		stack = stack[:len(stack)-1]
		satisfied := false
		for i := it.idx; i < len(it.b.Instrs); i++ {
			if w.matchAny(it.b.Instrs[i], musts) {
				satisfied = true
				break
			}
		}
		if satisfied {
			continue
		}
		for _, s := range sinks[it.b] {
			if s.Pred != nil && it.pred != nil && s.Pred != it.pred {
				continue
			}
			// `return helper(...)`: the outcome is the helper's, and the helper only produces it after a Must
			if w.returnsHelperOutcome(fn, s, spec, Gate{Instrs: musts, Text: "must"}) {
				continue
			}
			return true, s.Desc + " @" + w.InstrPos(s.Ret)
		}
		var idxs []int
		if phi := boolJoin(it.b); phi != nil && it.pred != nil {
			idxs = joinSuccs(it.b, phi, it.pred, cut)
		} else {
			for i := range it.b.Succs {
				idxs = append(idxs, i)
			}
		}
		for _, i := range idxs {
			succ := it.b.Succs[i]
			if cut.Edges[EdgeKey{it.b, i}] || mcut.Edges[EdgeKey{it.b, i}] {
				continue
			}
			if boolJoin(succ) != nil {
				if !seenJ[jk{succ, it.b}] {
					seenJ[jk{succ, it.b}] = true
					stack = append(stack, item{succ, 0, it.b})
				}
				continue
			}
			if seen[succ] {
				continue
			}
			seen[succ] = true
			stack = append(stack, item{succ, 0, it.b})
		}
	}
	return false, ""
}

// returnsHelperOutcome: the return sink hands back the result of a helper call, and every return of the helper with the
// outcome of interest is guarded (inside the helper, in the caller's terms) by g.
func (w *World) returnsHelperOutcome(fn *ssa.Function, s RetSink, spec RetSpec, g Gate) bool {
	if spec.Want == "any" || spec.Want == "nilconst" || len(s.Ret.Results) == 0 {
		return false
	}
	idx := spec.Index
	if idx < 0 {
		idx = len(s.Ret.Results) + idx
	}
	if idx < 0 || idx >= len(s.Ret.Results) {
		return false
	}
	v := resolveSpilled(s.Ret, s.Ret.Results[idx])
	switch x := v.(type) {
	case *ssa.Call:
		return w.calleeEstablishes(fn, x, -1, spec.Want, g)
	case *ssa.Extract:
		if c, ok := x.Tuple.(*ssa.Call); ok {
			return w.calleeEstablishes(fn, c, x.Index, spec.Want, g)
		}
	}
	return false
}

// postInsideHelper: `site` is a call to a private helper that contains the From instruction(s); inside the helper every
// path from each of them to any return executes a Must (read in the caller's terms).
func (w *World) postInsideHelper(site ssa.Instruction, from *regexp.Regexp, musts []*regexp.Regexp) bool {
	caller := site.Parent()
	f, args, ok := w.helperCallee(caller, site)
	if !ok || w.seeDepth >= maxSeeDepth || !w.privateTo(f, caller) {
		return false
	}
	m := map[*ssa.Parameter]string{}
	for j, p := range f.Params {
		m[p] = w.Render(args[j])
	}
	w.subst = append(w.subst, m)
	w.seeDepth++
	seeThrough++
	defer func() {
		w.subst = w.subst[:len(w.subst)-1]
		w.seeDepth--
		seeThrough--
	}()
	inner := w.Sites(f, from, false)
	if len(inner) == 0 {
		return false
	}
	for _, in := range inner {
		if bad, _ := w.postViolated(f, in, musts, RetAny, Gate{}); bad {
			return false
		}
	}
	return true
}

// helperImplies: inside the private helper called by `call`, the literal occurs, and from every edge on which it holds only
// returns with outcome `want` are reachable: literal ⇒ the helper reports `want`.
func (w *World) helperImplies(caller *ssa.Function, call *ssa.Call, idx int, want string, pat LitPat) bool {
	f, args, ok := w.helperCallee(caller, call)
	if !ok || w.seeDepth >= maxSeeDepth || !w.privateTo(f, caller) {
		return false
	}
	opposite := map[string]string{"true": "false", "false": "true", "nil": "nonnil", "nonnil": "nil"}[want]
	if opposite == "" {
		return false
	}
	m := map[*ssa.Parameter]string{}
	for j, p := range f.Params {
		m[p] = w.Render(args[j])
	}
	w.subst = append(w.subst, m)
	w.seeDepth++
	seeThrough++
	defer func() {
		w.subst = w.subst[:len(w.subst)-1]
		w.seeDepth--
		seeThrough--
	}()
	others := w.ReturnSinks(f, RetSpec{Index: idx, Want: opposite})
	n := 0
	// the literal may be returned as a value rather than branched on: `return a || b()` yields `want` exactly when b() does
	for _, s := range w.ReturnSinks(f, RetSpec{Index: idx, Want: want}) {
		if s.Lit != nil && pat.Match(*s.Lit) {
			n++
		}
	}
	for _, b := range f.Blocks {
		t, fl, ok := w.BlockLits(b)
		if !ok {
			continue
		}
		for i, l := range []Lit{t, fl} {
			if !pat.Match(l) {
				continue
			}
			n++
			reach := Reach([]*ssa.BasicBlock{b.Succs[i]}, nil)
			for _, s := range others {
				if s.Pred != nil {
					if reach[s.Pred] || (s.Pred == b && b.Succs[i] == s.Ret.Block()) {
						return false
					}
				} else if reach[s.Ret.Block()] {
					return false
				}
			}
		}
	}
	return n > 0
}

func instrIndex(in ssa.Instruction) int {
	for i, x := range in.Block().Instrs {
		if x == in {
			return i
		}
	}
	return -1
}

// ---------------------------------------------------------------------------
// WMC — who may

// WMC: the root functions containing a site of Sink (outside test support packages) are exactly within Allowed.
type WMC struct {
	ID       string
	Sink     string
	Allowed  []string // root function names
	Required []string // root functions that must contain at least one site (vacuity guard)
	InclTest bool
	Note     string
}

func (r WMC) RuleID() string { return r.ID }

func (r WMC) Check(w *World) []Result {
	re := regexp.MustCompile(r.Sink)
	allowed := map[string]bool{}
	for _, a := range r.Allowed {
		allowed[a] = true
	}
	found := map[string]int{}
	construct := "WMC:" + r.Sink
	var out []Result
	total := 0
	for _, fn := range w.Fns {
		if !r.InclTest && IsTestSupport(fn) {
			continue
		}
		if fn.Synthetic != "" && !strings.Contains(fn.Synthetic, "instance") && fn.Parent() == nil {
			continue // wrappers and thunks repeat the sites of the wrapped function
		}
		for _, s := range w.Sites(fn, re, false) {
			root := FnName(RootFn(fn))
			found[root]++
			total++
			if !allowed[root] {
				// an unexported helper whose only (transitive) callers are allowed functions acts on their behalf:
				// the effect was extracted, not given to somebody else
				if owners := w.privateHelperOf(RootFn(fn), allowed, 0); len(owners) > 0 {
					for _, o := range owners {
						found[o]++
					}
					continue
				}
				out = append(out, one(r.ID, "WMC", construct+"@"+root, Violated, 0, w.InstrPos(s),
					fmt.Sprintf("unclassified site of `%s` in %s: `%s` — only {%s} may do this", r.Sink, root, clip(w.RenderInstr(s), 140), strings.Join(r.Allowed, ", "))))
			}
		}
	}
	for _, req := range r.Required {
		if found[req] == 0 {
			out = append(out, one(r.ID, "WMC", construct+"@"+req, Violated, 0, "",
				fmt.Sprintf("vacuous: expected a site of `%s` in %s, found none", r.Sink, req)))
		}
	}
	if len(out) == 0 {
		var facts []string
		for k, v := range found {
			facts = append(facts, fmt.Sprintf("%s ×%d", k, v))
		}
		sort.Strings(facts)
		out = append(out, one(r.ID, "WMC", construct, Discharged, total, "", fmt.Sprintf("%d site(s) in %d function(s), all classified", total, len(found)), facts...))
	}
	return out
}

// privateHelperOf: h is an unexported function all of whose callers (transitively, through unexported helpers) are allowed
// functions; returns those allowed functions, or nil.
func (w *World) privateHelperOf(h *ssa.Function, allowed map[string]bool, depth int) []string {
	if depth > 3 || h.Object() == nil || h.Object().Exported() {
		return nil
	}
	var owners []string
	callers := w.CG().CallersOf(h)
	n := 0
	for _, c := range callers {
		if IsTestSupport(c) {
			continue
		}
		root := RootFn(c)
		if root == h {
			continue
		}
		// promoted-method wrappers of embedding types that nobody calls are not callers
		if strings.HasPrefix(root.Synthetic, "wrapper for ") && len(w.CG().CallersOf(root)) == 0 {
			continue
		}
		n++
		name := FnName(root)
		if allowed[name] {
			owners = append(owners, name)
			continue
		}
		sub := w.privateHelperOf(root, allowed, depth+1)
		if len(sub) == 0 {
			return nil
		}
		owners = append(owners, sub...)
	}
	if n == 0 {
		return nil
	}
	return owners
}

// ---------------------------------------------------------------------------
// Custom — rule implemented directly in Go (REG/TT/PROV/COPY/… helpers)

type Custom struct {
	ID   string
	Kind string
	Run  func(w *World, id string) []Result
}

func (r Custom) RuleID() string          { return r.ID }
func (r Custom) Check(w *World) []Result { return r.Run(w, r.ID) }

// Helpers for custom rules
func OK(id, kind, construct string, sites int, msg string, facts ...string) Result {
	return one(id, kind, construct, Discharged, sites, "", msg, facts...)
}
func Bad(id, kind, construct, pos, msg string, facts ...string) Result {
	return one(id, kind, construct, Violated, 0, pos, msg, facts...)
}
func Anchor(id, kind, what string) Result {
	return one(id, kind, "anchor:"+what, Violated, 0, "", "anchor not found: "+what)
}

// ---------------------------------------------------------------------------
// IMPL — a literal excludes an outcome

// IMPL: from every CFG edge of Fn on which literal Lit holds, no return with outcome Not is reachable
// (e.g. "+providerID == \"\"" ⇒ Synced never returns true afterwards; "+Nominated()" ⇒ never returns nil).
type IMPL struct {
	ID   string
	Fn   string
	Lit  string  // literal pattern
	Not  RetSpec // outcome that must be unreachable
	Min  int     // minimum number of matching edges (default 1)
	Note string
}

func (r IMPL) RuleID() string { return r.ID }

func (r IMPL) Check(w *World) []Result {
	fn := w.Fn(r.Fn)
	if fn == nil {
		return anchorMissing(r.ID, "IMPL", r.Fn)
	}
	pat := MustLitPat(r.Lit)
	construct := "IMPL:" + r.Fn + ":" + r.Lit + "⇒¬" + r.Not.Want
	sinks := w.ReturnSinks(fn, r.Not)
	type edge struct {
		b   *ssa.BasicBlock
		i   int
		lit Lit
		via string
	}
	var edges []edge
	for _, b := range fn.Blocks {
		t, f, ok := w.BlockLits(b)
		if !ok {
			continue
		}
		for i, l := range []Lit{t, f} {
			if pat.Match(l) {
				edges = append(edges, edge{b, i, l, ""})
			}
		}
		// a materialised boolean / value join: the literal is one predecessor's operand
		if phi := boolJoin(b); phi != nil {
			for k := range phi.Edges {
				truth, jt, jf := w.joinOperand(b, phi, k)
				if truth >= 0 {
					continue
				}
				for i, l := range []Lit{jt, jf} {
					if pat.Match(l) {
						edges = append(edges, edge{b, i, l, " (operand)"})
					}
				}
			}
		}
	}
	if len(edges) == 0 {
		// the condition was extracted into a private helper: the caller's edges on which the helper reports an outcome
		// that the literal forces stand for the literal's edge
		for _, b := range fn.Blocks {
			if len(b.Instrs) == 0 || len(b.Succs) != 2 {
				continue
			}
			ifi, ok := b.Instrs[len(b.Instrs)-1].(*ssa.If)
			if !ok {
				continue
			}
			call, idx, wantT, wantF, ok := condCallOutcome(ifi.Cond)
			if !ok {
				continue
			}
			for e, want := range []string{wantT, wantF} {
				if w.helperImplies(fn, call, idx, want, pat) {
					edges = append(edges, edge{b, e, Lit{true, "(" + w.CalleeName(call.Common()) + " ⇒ " + want + ")"}, " (via helper)"})
				}
			}
		}
	}
	n := 0
	var out []Result
	for _, e := range edges {
		b, i, l := e.b, e.i, e.lit
		n++
		reach := Reach([]*ssa.BasicBlock{b.Succs[i]}, nil)
		for _, s := range sinks {
			bad := false
			if s.Pred != nil {
				bad = reach[s.Pred] || s.Pred == b && b.Succs[i] == s.Ret.Block()
			} else {
				bad = reach[s.Ret.Block()]
			}
			// a value-dependent outcome that is the negation of the literal itself is excluded
			if bad && s.Lit != nil && s.Lit.Expr == l.Expr && s.Lit.Pol != l.Pol {
				bad = false
			}
			if bad {
				out = append(out, one(r.ID, "IMPL", construct, Violated, n, w.InstrPos(b.Instrs[len(b.Instrs)-1]),
					fmt.Sprintf("in %s, after `%s`%s holds the function can still return outcome %q (%s @%s)", r.Fn, l, e.via, r.Not.Want, s.Desc, w.InstrPos(s.Ret))))
			}
		}
	}
	min := r.Min
	if min == 0 {
		min = 1
	}
	if n < min {
		return []Result{one(r.ID, "IMPL", construct, Violated, n, w.Pos(fn.Pos()), fmt.Sprintf("vacuous: %d branch(es) on `%s` in %s, %d confirmed by hand — the check was removed or rewritten", n, r.Lit, r.Fn, min))}
	}
	if len(out) == 0 {
		out = append(out, one(r.ID, "IMPL", construct, Discharged, n, w.Pos(fn.Pos()), fmt.Sprintf("%d branch(es); outcome %q unreachable after each", n, r.Not.Want)))
	}
	return out
}

// ---------------------------------------------------------------------------
// FLAG — loop flag pattern:  ok := true; for … { if bad { ok = false } }; if ok { effect }

// FLAG: every site of Sink in Fn is guarded by "+<bool phi>" and every edge on which Lit holds forces that
// phi to false (all paths from the edge enter the phi's block through a false-valued phi edge).
type FLAG struct {
	ID   string
	Fn   string
	Sink string
	Lit  string
	Min  int
	Note string
}

func (r FLAG) RuleID() string { return r.ID }

func (r FLAG) Check(w *World) []Result {
	fn := w.Fn(r.Fn)
	if fn == nil {
		return anchorMissing(r.ID, "FLAG", r.Fn)
	}
	construct := "FLAG:" + r.Fn + "▸" + r.Sink + "⇐¬" + r.Lit
	sites := w.SitesOr(fn, regexp.MustCompile(r.Sink), false, 1)
	if len(sites) == 0 {
		return []Result{one(r.ID, "FLAG", construct, Violated, 0, w.Pos(fn.Pos()), "vacuous: effect site not found")}
	}
	g := G("+none:" + r.Lit)
	var out []Result
	for _, s := range sites {
		if !w.GuardedBy(s, g) {
			out = append(out, one(r.ID, "FLAG", construct, Violated, len(sites), w.InstrPos(s),
				fmt.Sprintf("in %s the effect `%s` is not guarded by a flag that is true only when no element took `%s` (a loop flag forced to false on that branch, or a private helper returning false on it)", r.Fn, clip(w.RenderInstr(s), 80), r.Lit)))
		}
	}
	if len(out) == 0 {
		out = append(out, one(r.ID, "FLAG", construct, Discharged, len(sites), w.InstrPos(sites[0]), "flag forced false on every matching branch and only there; effect requires the flag"))
	}
	return out
}

// ---------------------------------------------------------------------------
// ERRFLOW — fail closed

// ERRFLOW: in Fn (closures included), for every branch that tests an error value `X == nil` / `X != nil`,
// the edge on which the error is non-nil must not reach a site of Sink — unless the path first passes a
// *classification* of that same error (a literal `+Is…(X)` such as IsNotFound / IsNodeClaimNotFoundError:
// reacting to a recognised error is the intended behaviour), or X matches an audited Exempt pattern.
type ERRFLOW struct {
	ID     string
	Fn     string
	Sink   string
	Exempt []string // regexps on the rendering of the tested error value, one reason each in Note
	Min    int      // minimum number of error tests examined (default 1)
	Note   string
}

func (r ERRFLOW) RuleID() string { return r.ID }

var classifyRe = regexp.MustCompile(`(^|[./)])(Is[A-Z]\w*|IsNotFound|IsConflict)\(`)

func isErrorType(t types.Type) bool {
	n, ok := t.(*types.Named)
	return ok && n.Obj().Pkg() == nil && n.Obj().Name() == "error"
}

func (r ERRFLOW) Check(w *World) []Result {
	fn := w.Fn(r.Fn)
	if fn == nil {
		return anchorMissing(r.ID, "ERRFLOW", r.Fn)
	}
	construct := "ERRFLOW:" + r.Fn + "▸" + r.Sink
	sinkRe := regexp.MustCompile(r.Sink)
	sinks := w.Sites(fn, sinkRe, true)
	if len(sinks) == 0 {
		return []Result{one(r.ID, "ERRFLOW", construct, Violated, 0, w.Pos(fn.Pos()), "vacuous: sink not found in "+r.Fn)}
	}
	exempt := compileAll(r.Exempt)
	var out []Result
	tests := 0
	for _, s := range sinks {
		// examine the function containing the sink and, for closures, every enclosing function with the closure site as proxy sink
		var target ssa.Instruction = s
		for f := s.Parent(); f != nil; {
			for _, b := range f.Blocks {
				if len(b.Instrs) == 0 {
					continue
				}
				ifi, ok := b.Instrs[len(b.Instrs)-1].(*ssa.If)
				if !ok || len(b.Succs) != 2 || b.Succs[0] == b.Succs[1] {
					continue
				}
				x, errEdge, ok := errTest(ifi.Cond)
				if !ok {
					continue
				}
				tests++
				xr := w.Render(x)
				if matchAnyStr(xr, exempt) {
					continue
				}
				// cut: classification of the same error taken positively
				c := newCut()
				for _, b2 := range f.Blocks {
					t, fl, ok := w.BlockLits(b2)
					if !ok {
						continue
					}
					for i, l := range []Lit{t, fl} {
						if l.Pol && classifyRe.MatchString(l.Expr) && errRoot(xr, l.Expr) {
							c.Edges[EdgeKey{b2, i}] = true
						}
					}
				}
				reach := Reach([]*ssa.BasicBlock{b.Succs[errEdge]}, c)
				tb := target.Block()
				bad := false
				if reach[tb] {
					bad = true
					// same block: only if target is after the start — start is a block entry, so any instr counts
				}
				if bad {
					out = append(out, one(r.ID, "ERRFLOW", construct+"⇐"+clip(xr, 80), Violated, len(sinks), w.InstrPos(ifi),
						fmt.Sprintf("fail-open: in %s the branch on which `%s` is non-nil can still reach `%s` (@%s)", FnName(f), clip(xr, 120), clip(w.RenderInstr(s), 100), w.InstrPos(s))))
				}
			}
			mc := w.ClosureSite[f]
			if mc == nil {
				break
			}
			target = mc
			f = mc.Parent()
		}
	}
	min := r.Min
	if min == 0 {
		min = 1
	}
	if tests < min {
		return []Result{one(r.ID, "ERRFLOW", construct, Violated, tests, w.Pos(fn.Pos()), fmt.Sprintf("vacuous: %d error tests examined, %d confirmed by hand", tests, min))}
	}
	if len(out) == 0 {
		out = append(out, one(r.ID, "ERRFLOW", construct, Discharged, tests, w.InstrPos(sinks[0]), fmt.Sprintf("%d error test(s) × %d sink site(s): no error edge reaches the sink", tests, len(sinks))))
	}
	return out
}

// errTest recognises `x == nil` / `x != nil` on an error-typed x (through ! as well) and returns the successor index of the non-nil edge.
func errTest(cond ssa.Value) (ssa.Value, int, bool) {
	neg := false
	for {
		u, ok := cond.(*ssa.UnOp)
		if !ok || u.Op != token.NOT {
			break
		}
		neg = !neg
		cond = u.X
	}
	bo, ok := cond.(*ssa.BinOp)
	if !ok || bo.Op != token.EQL && bo.Op != token.NEQ {
		return nil, 0, false
	}
	x := bo.X
	if isNilConst(bo.X) {
		x = bo.Y
	} else if !isNilConst(bo.Y) {
		return nil, 0, false
	}
	if !isErrorType(x.Type()) {
		return nil, 0, false
	}
	nonNilOnTrue := bo.Op == token.NEQ
	if neg {
		nonNilOnTrue = !nonNilOnTrue
	}
	if nonNilOnTrue {
		return x, 0, true
	}
	return x, 1, true
}

// errRoot: does the classification literal talk about the same error value (its innermost call) as xr?
func errRoot(xr, litExpr string) bool {
	if strings.Contains(litExpr, xr) {
		return true
	}
	// wrapper(err): compare on the wrapped operand
	if i := strings.LastIndex(xr, "("); i >= 0 {
		inner := strings.TrimSuffix(xr[i+1:], ")")
		for strings.HasSuffix(inner, ")") && strings.Count(inner, "(") < strings.Count(inner, ")") {
			inner = strings.TrimSuffix(inner, ")")
		}
		if len(inner) > 8 && strings.Contains(litExpr, inner) {
			return true
		}
	}
	return false
}

// ---------------------------------------------------------------------------
// NOREACH — a literal excludes an effect

// NOREACH: from every CFG edge of Fn (closures included) on which literal FromLit holds, no site of Sink
// is reachable inside that function (e.g. a step loop must not run the next step after a non-empty result).
type NOREACH struct {
	ID      string
	Fn      string
	From    string // alternatively: start right after every instruction matching this pattern
	FromLit string
	Sink    string
	Min     int
	Note    string
}

func (r NOREACH) RuleID() string { return r.ID }

func (r NOREACH) Check(w *World) []Result {
	fn := w.Fn(r.Fn)
	if fn == nil {
		return anchorMissing(r.ID, "NOREACH", r.Fn)
	}
	sinkRe := regexp.MustCompile(r.Sink)
	construct := "NOREACH:" + r.Fn + ":" + r.From + r.FromLit + "↛" + r.Sink
	n := 0
	var out []Result
	if r.From != "" {
		for _, st := range w.Sites(fn, regexp.MustCompile(r.From), true) {
			n++
			f := st.Parent()
			sinks := w.Sites(f, sinkRe, false)
			b := st.Block()
			// rest of the block, then everything reachable from the successors
			reach := Reach(b.Succs, nil)
			for _, s := range sinks {
				if s.Block() == b && instrIndex(s) > instrIndex(st) || reach[s.Block()] {
					out = append(out, one(r.ID, "NOREACH", construct, Violated, n, w.InstrPos(st),
						fmt.Sprintf("in %s, after `%s` the effect `%s` (@%s) is still reachable", FnName(f), clip(w.RenderInstr(st), 100), clip(w.RenderInstr(s), 100), w.InstrPos(s))))
				}
			}
		}
		if n == 0 {
			return []Result{one(r.ID, "NOREACH", construct, Violated, 0, w.Pos(fn.Pos()), "vacuous: start instruction not found")}
		}
		if len(out) == 0 {
			out = append(out, one(r.ID, "NOREACH", construct, Discharged, n, w.Pos(fn.Pos()), fmt.Sprintf("%d start site(s); effect unreachable after each", n)))
		}
		return out
	}
	pat := MustLitPat(r.FromLit)
	for _, f := range WithClosures(fn) {
		sinks := w.Sites(f, sinkRe, false)
		// closures created in f that contain the sink count as sink sites at their creation point
		for _, b := range f.Blocks {
			for _, in := range b.Instrs {
				if mc, ok := in.(*ssa.MakeClosure); ok {
					if cf, ok := mc.Fn.(*ssa.Function); ok && len(w.Sites(cf, sinkRe, true)) > 0 {
						sinks = append(sinks, mc)
					}
				}
			}
		}
		for _, b := range f.Blocks {
			t, fl, ok := w.BlockLits(b)
			if !ok {
				continue
			}
			for i, l := range []Lit{t, fl} {
				if !pat.Match(l) {
					continue
				}
				n++
				reach := Reach([]*ssa.BasicBlock{b.Succs[i]}, nil)
				for _, s := range sinks {
					if reach[s.Block()] {
						out = append(out, one(r.ID, "NOREACH", construct, Violated, n, w.InstrPos(b.Instrs[len(b.Instrs)-1]),
							fmt.Sprintf("in %s, after `%s` holds the effect `%s` (@%s) is still reachable", FnName(f), clip(l.String(), 120), clip(w.RenderInstr(s), 100), w.InstrPos(s))))
					}
				}
			}
		}
	}
	min := r.Min
	if min == 0 {
		min = 1
	}
	if n < min {
		return []Result{one(r.ID, "NOREACH", construct, Violated, n, w.Pos(fn.Pos()), fmt.Sprintf("vacuous: %d branch(es) on `%s` in %s, %d confirmed by hand", n, r.FromLit, r.Fn, min))}
	}
	if len(out) == 0 {
		out = append(out, one(r.ID, "NOREACH", construct, Discharged, n, w.Pos(fn.Pos()), fmt.Sprintf("%d branch(es); effect unreachable after each", n)))
	}
	return out
}

// ---------------------------------------------------------------------------
// TABLE — truth table of a small loop-free function

// TABLE: enumerate every entry→return path of the loop-free function Fn; the set of literals on the path plus the
// returned value (rendered) must equal one of Rows, and every row must be realised by some path.
// A row is written {"+lit", "-lit", …, "=> returned"}; literal order is irrelevant.
type TABLE struct {
	ID   string
	Fn   string
	Rows [][]string
	Note string
}

func (r TABLE) RuleID() string { return r.ID }

type cfgPath struct {
	lits []string
	ret  string
	pos  string
}

// Paths enumerates acyclic paths of fn (nil, false when the function has a loop or too many paths).
func (w *World) Paths(fn *ssa.Function, limit int) ([]cfgPath, bool) {
	var out []cfgPath
	ok := true
	var walk func(b *ssa.BasicBlock, pred *ssa.BasicBlock, lits []string, on map[*ssa.BasicBlock]bool)
	walk = func(b *ssa.BasicBlock, pred *ssa.BasicBlock, lits []string, on map[*ssa.BasicBlock]bool) {
		if !ok {
			return
		}
		if on[b] {
			ok = false
			return
		}
		if len(out) > limit {
			ok = false
			return
		}
		on[b] = true
		defer delete(on, b)
		if len(b.Instrs) == 0 {
			return
		}
		switch last := b.Instrs[len(b.Instrs)-1].(type) {
		case *ssa.Return:
			var rs []string
			for _, v := range last.Results {
				v = resolveSpilled(last, v)
				if phi, isPhi := v.(*ssa.Phi); isPhi && phi.Block() == b && pred != nil {
					for i, p := range b.Preds {
						if p == pred {
							v = phi.Edges[i]
						}
					}
				}
				rs = append(rs, w.RenderD(v, 6))
			}
			out = append(out, cfgPath{lits: append([]string{}, lits...), ret: strings.Join(rs, ", "), pos: w.InstrPos(last)})
		case *ssa.If:
			t, f, isIf := w.BlockLits(b)
			if !isIf {
				walk(b.Succs[0], b, lits, on)
				return
			}
			walk(b.Succs[0], b, append(lits, t.String()), on)
			walk(b.Succs[1], b, append(lits[:len(lits):len(lits)], f.String()), on)
		case *ssa.Jump:
			walk(b.Succs[0], b, lits, on)
		case *ssa.Panic:
			out = append(out, cfgPath{lits: append([]string{}, lits...), ret: "panic", pos: w.InstrPos(last)})
		}
	}
	if len(fn.Blocks) == 0 {
		return nil, false
	}
	walk(fn.Blocks[0], nil, nil, map[*ssa.BasicBlock]bool{})
	return out, ok
}

func normRow(lits []string, ret string) string {
	l := append([]string{}, lits...)
	sort.Strings(l)
	// duplicates collapse
	var u []string
	for i, x := range l {
		if i == 0 || x != l[i-1] {
			u = append(u, x)
		}
	}
	return strings.Join(u, " ∧ ") + " => " + ret
}

func (r TABLE) Check(w *World) []Result {
	fn := w.Fn(r.Fn)
	if fn == nil {
		return anchorMissing(r.ID, "TT", r.Fn)
	}
	construct := "TT:" + r.Fn
	paths, ok := w.Paths(fn, 512)
	if !ok {
		return []Result{one(r.ID, "TT", construct, Undecided, 0, w.Pos(fn.Pos()), r.Fn+" is no longer a small loop-free predicate: truth table cannot be enumerated")}
	}
	want := map[string]bool{}
	for _, row := range r.Rows {
		var lits []string
		ret := ""
		for _, x := range row {
			if strings.HasPrefix(x, "=> ") {
				ret = strings.TrimPrefix(x, "=> ")
			} else {
				lits = append(lits, x)
			}
		}
		want[normRow(lits, ret)] = false
	}
	var out []Result
	for _, p := range paths {
		k := normRow(p.lits, p.ret)
		if _, ok := want[k]; !ok {
			out = append(out, one(r.ID, "TT", construct, Violated, len(paths), p.pos, fmt.Sprintf("%s has a path not in its specified truth table: %s", r.Fn, k)))
			continue
		}
		want[k] = true
	}
	for k, seen := range want {
		if !seen {
			out = append(out, one(r.ID, "TT", construct, Violated, len(paths), w.Pos(fn.Pos()), fmt.Sprintf("%s no longer has the specified case: %s", r.Fn, k)))
		}
	}
	sort.Slice(out, func(i, j int) bool { return out[i].Msg < out[j].Msg })
	if len(out) == 0 {
		out = append(out, one(r.ID, "TT", construct, Discharged, len(paths), w.Pos(fn.Pos()), fmt.Sprintf("%d paths, all equal to the specified table", len(paths))))
	}
	return out
}

// PrintPaths prints the path table of fn in the row syntax of TABLE (authoring aid).
func (w *World) PrintPaths(fn *ssa.Function) {
	paths, ok := w.Paths(fn, 512)
	if !ok {
		fmt.Println("  (loops or too many paths)")
		return
	}
	for _, p := range paths {
		var q []string
		for _, l := range p.lits {
			q = append(q, "`"+l+"`")
		}
		q = append(q, "`=> "+p.ret+"`")
		fmt.Println("\t\t\t{" + strings.Join(q, ", ") + "},")
	}
}

// ---------------------------------------------------------------------------
// ITER — every completed loop iteration passes the gates

// ITER: in Fn, for the loop whose body is entered on the CFG edge carrying literal Loop, every path from the body entry
// back to the loop header (a completed iteration that goes on to the next element) passes each gate. Gates are cut sets
// as elsewhere, so G(instr:X, -c) reads "X was executed or c was false".
type ITER struct {
	ID    string
	Fn    string
	Loop  string // literal pattern of the loop-continues edge, e.g. `+^next\(range\(\$0\)\)#0$`
	Gates []Gate
	Min   int
	Note  string
}

func (r ITER) RuleID() string { return r.ID }

func (r ITER) Check(w *World) []Result {
	fn := w.Fn(r.Fn)
	if fn == nil {
		return anchorMissing(r.ID, "ITER", r.Fn)
	}
	construct := "ITER:" + r.Fn + "▸" + r.Loop
	pat := MustLitPat(r.Loop)
	type loop struct{ header, body *ssa.BasicBlock }
	var loops []loop
	for _, f := range WithClosures(fn) {
		for _, b := range f.Blocks {
			t, fl, ok := w.BlockLits(b)
			if !ok || len(b.Succs) != 2 {
				continue
			}
			if pat.Match(t) {
				loops = append(loops, loop{b, b.Succs[0]})
			}
			if pat.Match(fl) {
				loops = append(loops, loop{b, b.Succs[1]})
			}
		}
	}
	min := r.Min
	if min == 0 {
		min = 1
	}
	if len(loops) < min {
		return []Result{one(r.ID, "ITER", construct, Violated, len(loops), w.Pos(fn.Pos()), fmt.Sprintf("loop edge not found (%d, expected ≥%d): %s", len(loops), min, r.Loop))}
	}
	var out []Result
	for _, l := range loops {
		for _, g := range r.Gates {
			cut := w.GateCut(l.header.Parent(), g)
			reach := Reach([]*ssa.BasicBlock{l.body}, cut)
			// the header is re-entered if some reached block (not stopped by a cut instruction) has an uncut edge to it
			back := false
			for b := range reach {
				if blockHasCutInstr(b, cut, nil) {
					continue
				}
				for i, s := range b.Succs {
					if s == l.header && !cut.Edges[EdgeKey{b, i}] && !(b == l.header) {
						back = true
					}
				}
			}
			if back {
				out = append(out, one(r.ID, "ITER", construct+"⇐"+g.Text, Violated, 1, w.InstrPos(l.body.Instrs[0]),
					fmt.Sprintf("an iteration of the loop in %s can complete without passing {%s}", r.Fn, g.Text)))
			}
		}
	}
	if len(out) == 0 {
		out = append(out, one(r.ID, "ITER", construct, Discharged, len(loops), w.Pos(fn.Pos()), fmt.Sprintf("%d loop(s) × %d gate(s): every completed iteration passes", len(loops), len(r.Gates))))
	}
	return out
}
