package core

import (
	"fmt"
	"regexp"

	"golang.org/x/tools/go/ssa"
)

// Purely additive helpers (triage of C16): reading the *elements* of an in-place slice literal / variadic argument list
// and the *entries* of an in-place map literal as SSA values, so that a rule can state "the options this List call is
// given contain a selector {key: value}" by data flow instead of by three unrelated text matches.

// stripConv removes interface conversions and (named ↔ unnamed) type changes.
func stripConv(v ssa.Value) ssa.Value {
	for {
		switch x := v.(type) {
		case *ssa.MakeInterface:
			v = x.X
		case *ssa.ChangeType:
			v = x.X
		case *ssa.ChangeInterface:
			v = x.X
		default:
			return v
		}
	}
}

// SliceLitElems: v is `arr[:]` of a local array that is only written element-wise (a composite literal `[]T{a, b}` or the
// implicit argument array of a variadic call `f(a, b)`): the values stored into it, conversions stripped. A nil slice
// constant (variadic call without arguments) yields (nil, true). ok=false when v is anything else (a parameter, an append,
// a call result …).
func (w *World) SliceLitElems(v ssa.Value) (elems []ssa.Value, ok bool) {
	v = stripConv(v)
	if isNilConst(v) {
		return nil, true
	}
	sl, isSlice := v.(*ssa.Slice)
	if !isSlice {
		return nil, false
	}
	arr, isAlloc := sl.X.(*ssa.Alloc)
	if !isAlloc || arr.Referrers() == nil {
		return nil, false
	}
	for _, r := range *arr.Referrers() {
		switch x := r.(type) {
		case *ssa.IndexAddr:
			if x.Referrers() == nil {
				return nil, false
			}
			for _, rr := range *x.Referrers() {
				st, isStore := rr.(*ssa.Store)
				if !isStore || st.Addr != x {
					return nil, false
				}
				elems = append(elems, stripConv(st.Val))
			}
		case *ssa.Slice, *ssa.DebugRef:
		default:
			return nil, false
		}
	}
	return elems, true
}

// MapLitEntries: v (conversions stripped) is a map made in place whose only uses besides being read are `m[k] = x`
// updates: the rendered key → the value stored (the last one wins is irrelevant: a key stored twice makes ok=false).
func (w *World) MapLitEntries(v ssa.Value) (entries map[string]ssa.Value, ok bool) {
	mk, isMake := stripConv(v).(*ssa.MakeMap)
	if !isMake || mk.Referrers() == nil {
		return nil, false
	}
	entries = map[string]ssa.Value{}
	var visit func(x ssa.Value) bool
	visit = func(x ssa.Value) bool {
		if x.Referrers() == nil {
			return true
		}
		for _, r := range *x.Referrers() {
			switch u := r.(type) {
			case *ssa.MapUpdate:
				if stripConv(u.Map) != ssa.Value(mk) {
					continue
				}
				k := w.Render(u.Key)
				if _, dup := entries[k]; dup {
					return false
				}
				entries[k] = u.Value
			case *ssa.ChangeType:
				if !visit(u) {
					return false
				}
			}
		}
		return true
	}
	if !visit(mk) {
		return nil, false
	}
	return entries, true
}

// SelectorArg (PROV): at every site of callRe in fnName (its closures and the private helpers it calls included, in
// fnName's terms) the variadic / slice-literal argument argIdx (receiver first, context included) contains a map literal
// with an entry whose rendered key matches keyRe and whose value renders to something matching valRe. Fails closed: a
// site whose argument is not an in-place literal (or whose literal has no such entry) is a violation; fewer than min
// sites is a violation.
func SelectorArg(w *World, id, fnName, callRe string, argIdx int, keyRe, valRe string, min int, what string) []Result {
	fn := w.Fn(fnName)
	if fn == nil {
		return anchorMissing(id, "PROV", fnName)
	}
	construct := "PROV:" + fnName + "▸" + callRe + fmt.Sprintf("#arg%d{%s}", argIdx, keyRe)
	cre, kre, vre := regexp.MustCompile(callRe), regexp.MustCompile(keyRe), regexp.MustCompile(valRe)
	n := 0
	var out []Result
	firstPos := w.Pos(fn.Pos())
	w.WithHelpers(fn, func(f *ssa.Function, via ssa.Instruction) {
		for _, s := range w.Sites(f, cre, true) {
			ci, isCall := s.(ssa.CallInstruction)
			if !isCall {
				continue
			}
			n++
			if n == 1 {
				firstPos = w.InstrPos(s)
			}
			args := CallArgs(ci.Common())
			if argIdx >= len(args) {
				out = append(out, one(id, "PROV", construct, Violated, n, w.InstrPos(s), fmt.Sprintf("%s: call has %d args, need index %d", what, len(args), argIdx)))
				continue
			}
			elems, ok := w.SliceLitElems(args[argIdx])
			if !ok {
				out = append(out, one(id, "PROV", construct, Violated, n, w.InstrPos(s),
					fmt.Sprintf("%s: argument %d of `%s` is `%s`, not an in-place option list — the selector it carries cannot be read", what, argIdx, clip(w.RenderInstr(s), 100), clip(w.Render(args[argIdx]), 120))))
				continue
			}
			found := false
			var seen []string
			for _, e := range elems {
				ents, isMap := w.MapLitEntries(e)
				if !isMap {
					continue
				}
				for k, val := range ents {
					r := w.RenderD(val, 9)
					seen = append(seen, k+": "+clip(r, 80))
					if MatchRe(kre, k) && MatchRe(vre, r) {
						found = true
					}
				}
			}
			if !found {
				out = append(out, one(id, "PROV", construct, Violated, n, w.InstrPos(s),
					fmt.Sprintf("%s: `%s` is not given a selector {%s: %s} (selector entries found: %v)", what, clip(w.RenderInstr(s), 100), keyRe, valRe, seen)))
			}
		}
	})
	if n < min {
		return []Result{one(id, "PROV", construct, Violated, n, w.Pos(fn.Pos()), fmt.Sprintf("vacuous: %d call site(s) matching `%s` in %s (helpers included), expected ≥%d", n, callRe, fnName, min))}
	}
	if len(out) == 0 {
		out = append(out, one(id, "PROV", construct, Discharged, n, firstPos, what))
	}
	return out
}

// FnArgOf: the function (closure or plain function value) passed as argument argIdx at the single site of callRe in
// fnName — looked for in fnName, its closures, and (when not found there) the private helpers it calls, in fnName's terms.
// nil when there is no such site or more than one.
func (w *World) FnArgOf(fnName, callRe string, argIdx int) *ssa.Function {
	fn := w.Fn(fnName)
	if fn == nil {
		return nil
	}
	re := regexp.MustCompile(callRe)
	var found []*ssa.Function
	w.WithHelpers(fn, func(f *ssa.Function, via ssa.Instruction) {
		for _, s := range w.Sites(f, re, true) {
			ci, isCall := s.(ssa.CallInstruction)
			if !isCall {
				continue
			}
			args := CallArgs(ci.Common())
			if argIdx >= len(args) {
				continue
			}
			switch x := args[argIdx].(type) {
			case *ssa.MakeClosure:
				if g, isFn := x.Fn.(*ssa.Function); isFn {
					found = append(found, g)
				}
			case *ssa.Function:
				found = append(found, x)
			}
		}
	})
	if len(found) != 1 {
		return nil
	}
	return found[0]
}
