package core

import "golang.org/x/tools/go/ssa"

// HelperRet is one return of a helper entered with EnterHelperAll: the return instruction and the value it hands back
// for the result the caller looks at.
type HelperRet struct {
	Ret *ssa.Return
	Val ssa.Value
}

// EnterHelperAll is EnterHelper without the single-return restriction: v is a result of a call to a private helper of
// owner (the call itself for a single-result helper, or an Extract of it). It yields every reachable return of the helper
// with the value returned for that result; until leave is called the helper's parameters render as the call's arguments,
// so a hand-written rule can judge each return (its value and its guards) in the caller's terms. ok=false (and a no-op
// leave) when v is not such a call, the helper may not be looked into, or the see-through depth is exhausted.
// Purely additive: no existing engine function calls it.
func (w *World) EnterHelperAll(owner *ssa.Function, v ssa.Value) (h *ssa.Function, rets []HelperRet, leave func(), ok bool) {
	leave = func() {}
	k := 0
	call, isCall := v.(*ssa.Call)
	if ex, isEx := v.(*ssa.Extract); isEx {
		call, isCall = ex.Tuple.(*ssa.Call)
		k = ex.Index
	}
	if !isCall || w.seeDepth >= maxSeeDepth {
		return nil, nil, leave, false
	}
	callee, args, good := w.helperCallee(owner, call)
	if !good || !w.privateTo(callee, owner) || len(args) != len(callee.Params) || k >= callee.Signature.Results().Len() {
		return nil, nil, leave, false
	}
	if _, isEx := v.(*ssa.Extract); !isEx && callee.Signature.Results().Len() != 1 {
		return nil, nil, leave, false
	}
	for _, b := range callee.Blocks {
		if len(b.Instrs) == 0 || (len(b.Preds) == 0 && b.Index != 0) {
			continue
		}
		if x, isRet := b.Instrs[len(b.Instrs)-1].(*ssa.Return); isRet && k < len(x.Results) {
			rets = append(rets, HelperRet{Ret: x, Val: resolveSpilled(x, x.Results[k])})
		}
	}
	if len(rets) == 0 {
		return nil, nil, leave, false
	}
	m := map[*ssa.Parameter]string{}
	for j, p := range callee.Params {
		m[p] = w.Render(args[j])
	}
	w.subst = append(w.subst, m)
	w.seeDepth++
	seeThrough++
	return callee, rets, func() {
		w.subst = w.subst[:len(w.subst)-1]
		w.seeDepth--
		seeThrough--
	}, true
}
