package core

import (
	"encoding/json"
	"fmt"
	"os"
	"path/filepath"
	"sort"
	"strings"
	"time"
)

// Property is the obligation table of one property.
type Property struct {
	ID          string
	Title       string
	Explanation string   // what structural part is decided, and what is not
	NotCovered  []string // clauses declared not applicable to static analysis
	Rules       func(tier string) []Rule
}

var Registry = map[string]*Property{}

func Register(p *Property) { Registry[p.ID] = p }

// KnownFinding is one committed entry of /verif/known_findings.json.
type KnownFinding struct {
	Property  string `json:"property"`
	Rule      string `json:"rule"`      // obligation id
	Construct string `json:"construct"` // substring that must occur in the violation's construct or message
	What      string `json:"what"`
	Status    string `json:"status"` // "open" (suppresses, prints KNOWN-FINDING) or "fixed" (suppresses nothing)
	Commit    string `json:"commit,omitempty"`
}

type KnownFile struct {
	Findings []KnownFinding `json:"findings"`
}

func LoadKnown(path string) ([]KnownFinding, error) {
	b, err := os.ReadFile(path)
	if err != nil {
		if os.IsNotExist(err) {
			return nil, nil
		}
		return nil, err
	}
	var kf KnownFile
	if err := json.Unmarshal(b, &kf); err != nil {
		return nil, err
	}
	return kf.Findings, nil
}

type Evidence struct {
	PropertyID  string         `json:"property_id"`
	Tier        string         `json:"tier"`
	Seed        int            `json:"seed"`
	Level       string         `json:"level"`
	Coverage    map[string]any `json:"coverage"`
	Assumptions []string       `json:"assumptions"`
	WallS       float64        `json:"wall_s"`
	Violations  int            `json:"violations"`
}

// RunProperty evaluates one property and writes evidence + violation replays. Returns the exit code.
func RunProperty(w *World, p *Property, tier string, verifDir string, seed int, loadErr error, t0 time.Time) int {
	evDir := filepath.Join(verifDir, "evidence")
	os.MkdirAll(evDir, 0o755)
	violDir := filepath.Join(evDir, p.ID+".violations")
	os.RemoveAll(violDir)

	known, kerr := LoadKnown(filepath.Join(verifDir, "known_findings.json"))

	var results []Result
	if loadErr != nil {
		results = append(results, one(p.ID+".LOAD", "LOAD", "load:"+p.ID, Violated, 0, "", "the repository could not be loaded/type-checked: "+loadErr.Error()))
	} else if kerr != nil {
		results = append(results, one(p.ID+".KNOWN", "LOAD", "known_findings", Violated, 0, "", "known_findings.json unreadable: "+kerr.Error()))
	} else {
		for _, r := range p.Rules(tier) {
			func() {
				defer func() {
					if e := recover(); e != nil {
						results = append(results, one(r.RuleID(), "PANIC", "panic:"+r.RuleID(), Undecided, 0, "", fmt.Sprintf("analyzer panic: %v", e)))
					}
				}()
				rs := r.Check(w)
				if len(rs) == 0 {
					rs = []Result{one(r.RuleID(), "?", "empty:"+r.RuleID(), Undecided, 0, "", "rule produced no verdict")}
				}
				results = append(results, rs...)
			}()
		}
	}

	// classify
	var viol []Result
	knownHit := 0
	discharged := 0
	kinds := map[string]int{}
	obligationIDs := map[string]bool{}
	for i := range results {
		r := &results[i]
		obligationIDs[r.ID] = true
		kinds[r.Kind]++
		if r.Status == Discharged {
			discharged++
			continue
		}
		matched := false
		for _, k := range known {
			if k.Status != "open" || k.Property != p.ID || k.Rule != r.ID {
				continue
			}
			if k.Construct == "" || strings.Contains(r.Construct, k.Construct) || strings.Contains(r.Msg, k.Construct) {
				r.Known = k.What
				fmt.Printf("KNOWN-FINDING: property=%s rule=%s %s\n", p.ID, r.ID, k.What)
				matched = true
				knownHit++
				break
			}
		}
		if !matched {
			viol = append(viol, *r)
		}
	}

	exit := 0
	if len(viol) > 0 {
		exit = 1
		os.MkdirAll(violDir, 0o755)
		for i, v := range viol {
			path := filepath.Join(violDir, fmt.Sprintf("%d.json", i+1))
			b, _ := json.MarshalIndent(map[string]any{
				"property": p.ID, "obligation": v.ID, "kind": v.Kind, "construct": v.Construct, "status": v.Status,
				"position": v.Pos, "message": v.Msg, "facts": v.Facts,
				"explain": fmt.Sprintf("./run.sh check %s %s   # see also: ./run.sh dump '<function>'", p.ID, tier),
			}, "", " ")
			os.WriteFile(path, b, 0o644)
			fmt.Printf("VIOLATION property=%s replay=%s\n", p.ID, path)
			fmt.Printf("  [%s %s] %s: %s\n", v.ID, v.Status, v.Pos, v.Msg)
		}
	}

	// evidence
	var samples []any
	for i, r := range results {
		if i >= 40 {
			break
		}
		samples = append(samples, r)
	}
	sort.SliceStable(results, func(i, j int) bool { return results[i].ID < results[j].ID })
	sites := 0
	for _, r := range results {
		sites += r.Sites
	}
	cov := map[string]any{
		"explanation":            p.Explanation,
		"not_covered":            p.NotCovered,
		"rule":                   "obligations are rows of the property's table (checker/props/" + p.ID + ".go): each binds a rule kind (DOM/MPT/POST/WMC/CONE/COPY/TT/REG/LOCK/…) to resolved functions and call sites of /repo's current SSA; a row is non-trivial when it bound at least one site",
		"obligations":            len(obligationIDs),
		"verdicts":               len(results),
		"discharged":             discharged,
		"violated_or_undecided":  len(results) - discharged,
		"known_findings_matched": knownHit,
		"sites_bound":            sites,
		"verdicts_by_kind":       kinds,
		"evaluations":            len(results),
		"distinct_nontrivial":    len(obligationIDs),
		"samples":                samples,
		"checker_cmd":            fmt.Sprintf("./run.sh check %s %s", p.ID, tier),
		"trusted_base":           []string{"go/types, go/ssa (golang.org/x/tools v0.50.0)", "hand-audited exception rows in checker/props", "lo.* helpers are order-preserving and non-mutating"},
		"exhaustive":             false,
	}
	if w != nil {
		cov["packages_analysed"] = w.NumPkgs
		cov["functions_analysed"] = w.NumFns
		cov["load_seconds"] = w.LoadSeconds
	}
	ev := Evidence{PropertyID: p.ID, Tier: tier, Seed: seed, Level: "other", Coverage: cov,
		Assumptions: []string{
			"source is analysed, not executed: only the structural necessary conditions listed in coverage.explanation are decided",
			"reflection-free code; interface calls resolved by type (CHA over karpenter types)",
			"callee contracts of dependencies (controller-runtime client, lo, multierr, workqueue) as documented",
		},
		WallS: time.Since(t0).Seconds(), Violations: len(viol)}
	b, _ := json.MarshalIndent(ev, "", " ")
	if err := os.WriteFile(filepath.Join(evDir, p.ID+".json"), b, 0o644); err != nil {
		fmt.Fprintln(os.Stderr, "cannot write evidence:", err)
		return 2
	}
	fmt.Printf("%s %s: %d obligations, %d verdicts, %d discharged, %d known, %d violations (%.1fs)\n", p.ID, tier, len(obligationIDs), len(results), discharged, knownHit, len(viol), time.Since(t0).Seconds())
	return exit
}
