package core

import (
	"fmt"
	"go/token"
	"go/types"
	"sort"
	"strings"

	"golang.org/x/tools/go/ssa"
)

// LockSpec describes a struct whose fields are documented (or inferred, then confirmed by reading) to be
// guarded by one of its mutex fields.
type LockSpec struct {
	Type        string            // short type name, e.g. "state.NodePoolState"
	Mutex       string            // mutex field name ("mu"; "Mutex"/"RWMutex" when embedded)
	Fields      []string          // guarded fields
	Constructor []string          // functions building a fresh object (exempt)
	ReadNoLock  map[string]string // field -> reason: reads allowed without the lock (audited)
	ExemptFn    map[string]string // function -> reason (audited)
	MinAccesses int
}

type lockState int

const (
	lsUnknown lockState = iota // not yet computed (top)
	lsUnlocked
	lsRLocked
	lsLocked
)

func (s lockState) String() string {
	return [...]string{"?", "unlocked", "rlocked", "locked"}[s]
}

func meet(a, b lockState) lockState {
	if a == lsUnknown {
		return b
	}
	if b == lsUnknown {
		return a
	}
	if a < b {
		return a
	}
	return b
}

// lockEffect classifies a call as a lock operation on the mutex rendered `mu`.
func (w *World) lockEffect(in ssa.Instruction, mu string) (lockState, bool) {
	c, ok := in.(*ssa.Call)
	if !ok {
		return 0, false
	}
	f := c.Call.StaticCallee()
	if f == nil || len(c.Call.Args) == 0 {
		return 0, false
	}
	name := f.String()
	var st lockState
	switch name {
	case "(*sync.Mutex).Lock", "(*sync.RWMutex).Lock":
		st = lsLocked
	case "(*sync.RWMutex).RLock":
		st = lsRLocked
	case "(*sync.Mutex).Unlock", "(*sync.RWMutex).Unlock", "(*sync.RWMutex).RUnlock":
		st = lsUnlocked
	default:
		return 0, false
	}
	if w.Render(c.Call.Args[0]) != mu {
		return 0, false
	}
	return st, true
}

// lockStates computes the lock state before every instruction of fn for mutex `mu`, given the entry state.
func (w *World) lockStates(fn *ssa.Function, mu string, entry lockState) map[ssa.Instruction]lockState {
	in := map[*ssa.BasicBlock]lockState{}
	out := map[ssa.Instruction]lockState{}
	if len(fn.Blocks) == 0 {
		return out
	}
	in[fn.Blocks[0]] = entry
	work := []*ssa.BasicBlock{fn.Blocks[0]}
	iter := 0
	for len(work) > 0 && iter < 10000 {
		iter++
		b := work[0]
		work = work[1:]
		st := in[b]
		for _, i := range b.Instrs {
			out[i] = st
			if e, ok := w.lockEffect(i, mu); ok {
				st = e
			}
		}
		for _, s := range b.Succs {
			n := meet(in[s], st)
			if n != in[s] {
				in[s] = n
				work = append(work, s)
			}
		}
	}
	return out
}

type fieldAccess struct {
	in    ssa.Instruction
	fn    *ssa.Function
	field string
	write bool
	root  string // rendering of the struct pointer
}

func isWriteAccess(fa *ssa.FieldAddr) bool {
	refs := fa.Referrers()
	if refs == nil {
		return false
	}
	for _, r := range *refs {
		switch x := r.(type) {
		case *ssa.Store:
			if x.Addr == ssa.Value(fa) {
				return true
			}
		case *ssa.UnOp:
			if x.Op != token.MUL {
				continue
			}
			// loaded map/slice used as target of an update
			lr := x.Referrers()
			if lr == nil {
				continue
			}
			for _, u := range *lr {
				switch y := u.(type) {
				case *ssa.MapUpdate:
					if y.Map == ssa.Value(x) {
						return true
					}
				case *ssa.Call:
					if b, ok := y.Call.Value.(*ssa.Builtin); ok && b.Name() == "delete" && len(y.Call.Args) > 0 && y.Call.Args[0] == ssa.Value(x) {
						return true
					}
				case *ssa.IndexAddr:
					if ir := y.Referrers(); ir != nil {
						for _, z := range *ir {
							if st, ok := z.(*ssa.Store); ok && st.Addr == ssa.Value(y) {
								return true
							}
						}
					}
				}
			}
		}
	}
	return false
}

// LockDiscipline checks that every access to a guarded field happens with the mutex held
// (exclusively for writes), in the accessing function itself or — for helpers — at every call site.
func LockDiscipline(w *World, id string, spec LockSpec) []Result {
	construct := "LOCK:" + spec.Type + "." + spec.Mutex
	guarded := map[string]bool{}
	for _, f := range spec.Fields {
		guarded[f] = true
	}
	ctor := map[string]bool{}
	for _, c := range spec.Constructor {
		ctor[c] = true
	}
	// locate the type
	var accesses []fieldAccess
	typeSeen := false
	fieldSeen := map[string]bool{}
	for _, fn := range w.Fns {
		if IsTestSupport(fn) {
			continue
		}
		for _, b := range fn.Blocks {
			for _, in := range b.Instrs {
				fa, ok := in.(*ssa.FieldAddr)
				if !ok {
					continue
				}
				n := NamedOf(fa.X.Type())
				if n == nil || n.Obj().Pkg() == nil {
					continue
				}
				if Short(n.Obj().Pkg().Path()+"."+n.Obj().Name()) != spec.Type {
					continue
				}
				typeSeen = true
				fname := fieldNameOf(fa.X.Type(), fa.Field)
				if fname == spec.Mutex {
					fieldSeen[fname] = true
				}
				if !guarded[fname] {
					continue
				}
				fieldSeen[fname] = true
				accesses = append(accesses, fieldAccess{in: fa, fn: fn, field: fname, write: isWriteAccess(fa), root: w.Render(fa.X)})
			}
		}
	}
	if !typeSeen {
		return []Result{Anchor(id, "LOCK", "type "+spec.Type)}
	}
	var out []Result
	for _, f := range append([]string{spec.Mutex}, spec.Fields...) {
		if !fieldSeen[f] {
			out = append(out, Anchor(id, "LOCK", "field "+spec.Type+"."+f))
		}
	}
	if len(out) > 0 {
		return out
	}
	if len(accesses) < spec.MinAccesses {
		return []Result{one(id, "LOCK", construct, Violated, len(accesses), "", fmt.Sprintf("vacuous: %d accesses to guarded fields found, %d confirmed by hand", len(accesses), spec.MinAccesses))}
	}
	// callers index
	callers := map[*ssa.Function][]ssa.CallInstruction{}
	for _, fn := range w.Fns {
		for _, b := range fn.Blocks {
			for _, in := range b.Instrs {
				if ci, ok := in.(ssa.CallInstruction); ok {
					if f := ci.Common().StaticCallee(); f != nil {
						callers[f] = append(callers[f], ci)
					}
				}
			}
		}
	}
	stateCache := map[string]map[ssa.Instruction]lockState{}
	statesOf := func(fn *ssa.Function, mu string, entry lockState) map[ssa.Instruction]lockState {
		k := fmt.Sprintf("%p|%s|%d", fn, mu, entry)
		if s, ok := stateCache[k]; ok {
			return s
		}
		s := w.lockStates(fn, mu, entry)
		stateCache[k] = s
		return s
	}
	// heldAt: lock state at instruction `in` of fn for an object rendered `root` in fn's frame.
	var heldAt func(fn *ssa.Function, in ssa.Instruction, root string, depth int, stack map[*ssa.Function]bool) (lockState, string)
	heldAt = func(fn *ssa.Function, in ssa.Instruction, root string, depth int, stack map[*ssa.Function]bool) (lockState, string) {
		mu := root + "." + spec.Mutex
		st := statesOf(fn, mu, lsUnlocked)[in]
		if st >= lsRLocked {
			return st, ""
		}
		if ctor[FnName(RootFn(fn))] {
			return lsLocked, ""
		}
		// the object is freshly allocated in this function
		if strings.HasPrefix(root, "&local<") {
			return lsLocked, ""
		}
		if depth <= 0 || stack[fn] {
			return lsUnlocked, "call depth bound reached at " + FnName(fn)
		}
		// closure: state at the creation site, object as bound there
		if mc := w.ClosureSite[fn]; mc != nil {
			if strings.HasPrefix(root, "^") {
				if _, isGo := closureUse(mc).(*ssa.Go); isGo {
					return lsUnlocked, "closure runs in a new goroutine (" + FnName(fn) + ")"
				}
				return heldAt(mc.Parent(), mc, strings.TrimPrefix(root, "^"), depth, stack)
			}
			return lsUnlocked, "object " + root + " is not a captured variable in closure " + FnName(fn)
		}
		// helper: every caller must hold the lock on the receiver argument
		pi := -1
		if strings.HasPrefix(root, "$") {
			fmt.Sscanf(root, "$%d", &pi)
		}
		if pi < 0 || root != fmt.Sprintf("$%d", pi) {
			return lsUnlocked, "object " + root + " is not a parameter of " + FnName(fn)
		}
		cs := callers[fn]
		if len(cs) == 0 {
			return lsUnlocked, FnName(fn) + " accesses the field without locking and has no static callers to inherit a lock from"
		}
		stack[fn] = true
		defer delete(stack, fn)
		worst := lsLocked
		why := ""
		for _, ci := range cs {
			if IsTestSupport(ci.Parent()) {
				continue
			}
			args := ci.Common().Args
			if pi >= len(args) {
				return lsUnlocked, "caller arity mismatch"
			}
			if _, isGo := ci.(*ssa.Go); isGo {
				return lsUnlocked, "called in a new goroutine from " + FnName(ci.Parent())
			}
			s, y := heldAt(ci.Parent(), ci, w.Render(args[pi]), depth-1, stack)
			if s < worst {
				worst = s
				why = "caller " + FnName(ci.Parent()) + " @" + w.InstrPos(ci) + ": " + lo(y, "lock not held at the call")
			}
		}
		return worst, why
	}
	nviol := 0
	for _, a := range accesses {
		name := FnName(RootFn(a.fn))
		if _, ok := spec.ExemptFn[name]; ok {
			continue
		}
		if _, ok := spec.ReadNoLock[a.field]; ok && !a.write {
			continue
		}
		st, why := heldAt(a.fn, a.in, a.root, 4, map[*ssa.Function]bool{})
		need := lsRLocked
		kind := "read"
		if a.write {
			need = lsLocked
			kind = "write"
		}
		if st < need {
			nviol++
			out = append(out, one(id, "LOCK", construct+"@"+FnName(a.fn)+"."+a.field, Violated, len(accesses), w.InstrPos(a.in),
				fmt.Sprintf("%s of %s.%s in %s with mutex %s %s (needs %s)%s", kind, spec.Type, a.field, FnName(a.fn), spec.Mutex, st, need, lo2(why))))
		}
	}
	if nviol == 0 {
		byField := map[string]int{}
		for _, a := range accesses {
			byField[a.field]++
		}
		var facts []string
		for k, v := range byField {
			facts = append(facts, fmt.Sprintf("%s ×%d", k, v))
		}
		sort.Strings(facts)
		out = append(out, one(id, "LOCK", construct, Discharged, len(accesses), "", fmt.Sprintf("%d accesses to %d guarded fields, all under %s", len(accesses), len(spec.Fields), spec.Mutex), facts...))
	}
	return out
}

func lo(s, d string) string {
	if s == "" {
		return d
	}
	return s
}

func lo2(s string) string {
	if s == "" {
		return ""
	}
	return " — " + s
}

// closureUse returns the instruction that consumes a closure directly as its callee (go/defer/call), if any.
func closureUse(mc *ssa.MakeClosure) ssa.Instruction {
	refs := mc.Referrers()
	if refs == nil {
		return nil
	}
	for _, r := range *refs {
		if ci, ok := r.(ssa.CallInstruction); ok && ci.Common().Value == ssa.Value(mc) {
			return ci
		}
	}
	return nil
}

var _ = types.Typ
