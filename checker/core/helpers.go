package core

import (
	"fmt"
	"go/token"
	"go/types"
	"regexp"
	"sort"
	"strings"

	"golang.org/x/tools/go/ssa"
)

// ArgProvenance (PROV): at every site of callRe in fn (closures included), argument argIdx
// (receiver first, context included) renders to something matching valueRe.
func ArgProvenance(w *World, id, fnName, callRe string, argIdx int, valueRe, what string) []Result {
	return ArgProvenanceN(w, id, fnName, callRe, argIdx, valueRe, what, 1)
}

func ArgProvenanceN(w *World, id, fnName, callRe string, argIdx int, valueRe, what string, min int) []Result {
	fn := w.Fn(fnName)
	if fn == nil {
		return anchorMissing(id, "PROV", fnName)
	}
	construct := "PROV:" + fnName + "▸" + callRe + fmt.Sprintf("#arg%d", argIdx)
	sites := w.Sites(fn, regexp.MustCompile(callRe), true)
	re := regexp.MustCompile(valueRe)
	var out []Result
	if len(sites) < min {
		// the call may have been extracted into a helper: look for it there, in this function's terms
		n, bad := w.argProvenanceInHelpers(fn, regexp.MustCompile(callRe), argIdx, re)
		if len(sites)+n < min {
			return []Result{one(id, "PROV", construct, Violated, len(sites), w.Pos(fn.Pos()), fmt.Sprintf("vacuous: %d call site(s) matching `%s` in %s, expected ≥%d", len(sites)+n, callRe, fnName, min))}
		}
		for _, b := range bad {
			out = append(out, one(id, "PROV", construct, Violated, len(sites)+n, w.Pos(fn.Pos()), fmt.Sprintf("%s: %s", what, b)))
		}
		if len(sites) == 0 {
			if len(out) == 0 {
				out = append(out, one(id, "PROV", construct, Discharged, n, w.Pos(fn.Pos()), what+" (call found in an extracted helper)"))
			}
			return out
		}
	}
	for _, s := range sites {
		ci, ok := s.(ssa.CallInstruction)
		if !ok {
			continue
		}
		args := CallArgs(ci.Common())
		if argIdx >= len(args) {
			out = append(out, one(id, "PROV", construct, Violated, len(sites), w.InstrPos(s), fmt.Sprintf("call has %d args, need index %d", len(args), argIdx)))
			continue
		}
		r := w.RenderD(args[argIdx], 9)
		if !re.MatchString(r) {
			// the value may be produced by a trivial extracted helper (`return <expr>`): read through it
			w.inlineTrivial = true
			r2 := w.RenderD(args[argIdx], 9)
			w.inlineTrivial = false
			if re.MatchString(r2) {
				continue
			}
		}
		if !re.MatchString(r) {
			out = append(out, one(id, "PROV", construct, Violated, len(sites), w.InstrPos(s),
				fmt.Sprintf("%s: argument %d of `%s` is `%s`, which does not derive from the required source (%s)", what, argIdx, clip(w.RenderInstr(s), 80), clip(r, 200), valueRe)))
		}
	}
	if len(out) == 0 {
		out = append(out, one(id, "PROV", construct, Discharged, len(sites), w.InstrPos(sites[0]), what))
	}
	return out
}

// argProvenanceInHelpers evaluates an ArgProvenance row inside the helpers fn calls, with the helpers' parameters rendered as
// the arguments fn passes. Returns the number of call sites found there and a description of every mismatch.
func (w *World) argProvenanceInHelpers(fn *ssa.Function, callRe *regexp.Regexp, argIdx int, valueRe *regexp.Regexp) (int, []string) {
	n := 0
	var bad []string
	var walk func(f *ssa.Function)
	walk = func(f *ssa.Function) {
		for _, g := range WithClosures(f) {
			for _, b := range g.Blocks {
				for _, in := range b.Instrs {
					callee, args, ok := w.helperCallee(g, in)
					if !ok || w.seeDepth >= maxSeeDepth || !w.privateTo(callee, fn) {
						continue
					}
					m := map[*ssa.Parameter]string{}
					for j, p := range callee.Params {
						m[p] = w.Render(args[j])
					}
					w.subst = append(w.subst, m)
					w.seeDepth++
					seeThrough++
					for _, s := range w.Sites(callee, callRe, true) {
						ci, ok := s.(ssa.CallInstruction)
						if !ok {
							continue
						}
						n++
						cargs := CallArgs(ci.Common())
						if argIdx >= len(cargs) {
							bad = append(bad, fmt.Sprintf("call has %d args, need index %d", len(cargs), argIdx))
							continue
						}
						if r := w.RenderD(cargs[argIdx], 9); !MatchRe(valueRe, r) {
							bad = append(bad, fmt.Sprintf("argument %d of `%s` (in helper %s) is `%s`, which does not derive from the required source (%s)", argIdx, clip(w.RenderInstr(s), 80), FnName(callee), clip(r, 160), valueRe))
						}
					}
					walk(callee)
					w.subst = w.subst[:len(w.subst)-1]
					w.seeDepth--
					seeThrough--
				}
			}
		}
	}
	walk(fn)
	return n, bad
}

// InstrPresent: at least min instructions of fn (closures included) match re.
func InstrPresent(w *World, id, kind, fnName, re string, min int, what string) []Result {
	fn := w.Fn(fnName)
	if fn == nil {
		return anchorMissing(id, kind, fnName)
	}
	construct := kind + ":" + fnName + "∋" + re
	sites := w.SitesOr(fn, regexp.MustCompile(re), true, min)
	if len(sites) < min {
		return []Result{one(id, kind, construct, Violated, len(sites), w.Pos(fn.Pos()), fmt.Sprintf("%s: expected ≥%d instruction(s) matching `%s` in %s, found %d", what, min, re, fnName, len(sites)))}
	}
	return []Result{one(id, kind, construct, Discharged, len(sites), w.InstrPos(sites[0]), what)}
}

// InstrAbsent: no instruction of fn (closures included) matches re.
func InstrAbsent(w *World, id, kind, fnName, re string, what string) []Result {
	fn := w.Fn(fnName)
	if fn == nil {
		return anchorMissing(id, kind, fnName)
	}
	construct := kind + ":" + fnName + "∌" + re
	sites := w.Sites(fn, regexp.MustCompile(re), true)
	var out []Result
	for _, s := range sites {
		out = append(out, one(id, kind, construct, Violated, len(sites), w.InstrPos(s), fmt.Sprintf("%s: forbidden `%s`", what, clip(w.RenderInstr(s), 160))))
	}
	if len(out) == 0 {
		out = append(out, one(id, kind, construct, Discharged, 1, w.Pos(fn.Pos()), what))
	}
	return out
}

// MapPtrDeref (SYM/PANIC): in functions matching fnRe, a non-comma-ok lookup in one of the listed map
// fields whose result is used (dereferenced, field-selected, method receiver) must be dominated by a call to
// the ensure function with the same key, or by a nil test of the result.
func MapPtrDeref(w *World, id, fnRe string, mapFields []string, ensureRe string, minSites int) []Result {
	fre := regexp.MustCompile(fnRe)
	ere := regexp.MustCompile(ensureRe)
	fields := map[string]bool{}
	for _, f := range mapFields {
		fields[f] = true
	}
	construct := "SYM:mapderef:" + strings.Join(mapFields, ",")
	var out []Result
	n := 0
	for _, fn := range w.Fns {
		if !fre.MatchString(FnName(fn)) || IsTestSupport(fn) {
			continue
		}
		for _, b := range fn.Blocks {
			for _, in := range b.Instrs {
				lk, ok := in.(*ssa.Lookup)
				if !ok || lk.CommaOk {
					continue
				}
				if _, isMap := lk.X.Type().Underlying().(*types.Map); !isMap {
					continue
				}
				ld, ok := lk.X.(*ssa.UnOp)
				if !ok || ld.Op != token.MUL {
					continue
				}
				fa, ok := ld.X.(*ssa.FieldAddr)
				if !ok || !fields[fieldNameOf(fa.X.Type(), fa.Field)] {
					continue
				}
				used := false
				if refs := lk.Referrers(); refs != nil {
					for _, r := range *refs {
						switch rr := r.(type) {
						case *ssa.BinOp:
							if rr.Op == token.EQL || rr.Op == token.NEQ {
								continue
							}
							used = true
						case *ssa.DebugRef:
						default:
							used = true
						}
					}
				}
				if !used {
					continue
				}
				n++
				key := w.Render(lk.Index)
				guarded := w.knownNonNil(lk, b)
				if !guarded {
					// dominating ensure(key)
					for _, b2 := range fn.Blocks {
						for _, in2 := range b2.Instrs {
							c, ok := in2.(*ssa.Call)
							if !ok {
								continue
							}
							cal := c.Call.StaticCallee()
							if cal == nil || !ere.MatchString(FnName(cal)) {
								continue
							}
							same := false
							for _, a := range c.Call.Args {
								if w.Render(a) == key {
									same = true
								}
							}
							if !same {
								continue
							}
							if b2 == b && instrIndex(c) < instrIndex(lk) || b2 != b && b2.Dominates(b) {
								guarded = true
							}
						}
					}
				}
				if !guarded {
					out = append(out, one(id, "SYM", construct+"@"+FnName(fn), Violated, 0, w.InstrPos(lk),
						fmt.Sprintf("%s uses the result of %s[%s] without a preceding %s(%s), comma-ok lookup or nil test — a missing entry yields nil/zero and the use panics or silently works on a throw-away value",
							FnName(fn), fieldNameOf(fa.X.Type(), fa.Field), key, ensureRe, key)))
				}
			}
		}
	}
	if n < minSites {
		return []Result{one(id, "SYM", construct, Violated, n, "", fmt.Sprintf("vacuous: %d lookup-then-use sites found, %d confirmed by hand", n, minSites))}
	}
	if len(out) == 0 {
		out = append(out, one(id, "SYM", construct, Discharged, n, "", fmt.Sprintf("%d lookup-then-use sites, all guarded", n)))
	}
	return out
}

// FieldsRead returns the names of fields of the named struct type (short name) whose value flows
// (backward slice over SSA operands, bounded) into v.
func (w *World) FieldsRead(v ssa.Value, typeName string, depth int) map[string]bool {
	out := map[string]bool{}
	seen := map[ssa.Value]bool{}
	var visit func(v ssa.Value, d int)
	visit = func(v ssa.Value, d int) {
		if v == nil || seen[v] || d < 0 {
			return
		}
		seen[v] = true
		switch x := v.(type) {
		case *ssa.FieldAddr:
			if n := NamedOf(x.X.Type()); n != nil && n.Obj().Pkg() != nil && Short(n.Obj().Pkg().Path()+"."+n.Obj().Name()) == typeName {
				out[fieldNameOf(x.X.Type(), x.Field)] = true
			}
		case *ssa.Field:
			if n := NamedOf(x.X.Type()); n != nil && n.Obj().Pkg() != nil && Short(n.Obj().Pkg().Path()+"."+n.Obj().Name()) == typeName {
				out[fieldNameOf(x.X.Type(), x.Field)] = true
			}
		}
		if in, ok := v.(ssa.Instruction); ok {
			for _, op := range in.Operands(nil) {
				if op != nil && *op != nil {
					visit(*op, d-1)
				}
			}
		}
		if a, ok := v.(*ssa.Alloc); ok {
			for _, st := range w.storesTo(a) {
				visit(st.Val, d-1)
			}
		}
	}
	visit(v, depth)
	return out
}

// CondsGuarding returns the condition values of the If instructions whose edges dominate instruction in.
func CondsGuarding(in ssa.Instruction) []ssa.Value {
	var out []ssa.Value
	b := in.Block()
	for b != nil {
		d := b.Idom()
		if d == nil {
			break
		}
		if len(d.Instrs) > 0 {
			if ifi, ok := d.Instrs[len(d.Instrs)-1].(*ssa.If); ok && len(b.Preds) == 1 && b.Preds[0] == d {
				out = append(out, ifi.Cond)
			}
		}
		b = d
	}
	return out
}

// SortedKeys is a small utility for deterministic messages.
func SortedKeys(m map[string]bool) []string {
	var out []string
	for k, v := range m {
		if v {
			out = append(out, k)
		}
	}
	sort.Strings(out)
	return out
}

// StructFields lists the field names of a named struct type given by short name (e.g. "state.StateNode").
func (w *World) StructFields(short string) ([]string, *types.Struct) {
	for path, sp := range w.SSAPkg {
		if !strings.HasPrefix(path, ModPath) {
			continue
		}
		for name, m := range sp.Members {
			if t, ok := m.(*ssa.Type); ok && Short(path+"."+name) == short {
				if st, ok := t.Type().Underlying().(*types.Struct); ok {
					var out []string
					for i := 0; i < st.NumFields(); i++ {
						out = append(out, st.Field(i).Name())
					}
					return out, st
				}
			}
		}
	}
	return nil, nil
}

// Linear normalises an integer expression built from + and − (conversions transparent) into a map
// leaf-rendering → coefficient, so that rearrangements (`a-(b+c)-d` vs `a-b-c-d`) compare equal.
func (w *World) Linear(v ssa.Value) map[string]int {
	out := map[string]int{}
	var walk func(v ssa.Value, sign int, depth int)
	walk = func(v ssa.Value, sign int, depth int) {
		switch x := v.(type) {
		case *ssa.Convert:
			walk(x.X, sign, depth)
			return
		case *ssa.ChangeType:
			walk(x.X, sign, depth)
			return
		case *ssa.BinOp:
			if depth > 0 && (x.Op == token.ADD || x.Op == token.SUB) {
				walk(x.X, sign, depth-1)
				if x.Op == token.ADD {
					walk(x.Y, sign, depth-1)
				} else {
					walk(x.Y, -sign, depth-1)
				}
				return
			}
		case *ssa.UnOp:
			if x.Op == token.SUB {
				walk(x.X, -sign, depth)
				return
			}
		case *ssa.Const:
			if k, ok := intConst(x); ok {
				out["#const"] += sign * int(k)
				return
			}
		}
		out[w.RenderD(v, 5)] += sign
	}
	walk(v, 1, 12)
	for k, c := range out {
		if c == 0 {
			delete(out, k)
		}
	}
	return out
}

// LinearString renders a linear form deterministically.
func LinearString(m map[string]int) string {
	var ks []string
	for k := range m {
		ks = append(ks, k)
	}
	sort.Strings(ks)
	var parts []string
	for _, k := range ks {
		parts = append(parts, fmt.Sprintf("%+d·%s", m[k], k))
	}
	return strings.Join(parts, " ")
}

// RetSourceGuarded: every non-nil/non-zero value that can flow (through phis) into result #idx of fn
// enters through a CFG edge that is guarded by gate g. Used for "a candidate is only produced when …" rows
// where the result is accumulated in a loop variable.
func RetSourceGuarded(w *World, id, kind, fnName string, idx int, g Gate, what string) []Result {
	fn := w.Fn(fnName)
	if fn == nil {
		return anchorMissing(id, kind, fnName)
	}
	construct := kind + ":" + fnName + fmt.Sprintf("#ret%d⇐", idx) + g.Text
	cut := w.GateCut(fn, g)
	var out []Result
	n := 0
	seen := map[ssa.Value]bool{}
	var visit func(v ssa.Value)
	visit = func(v ssa.Value) {
		if seen[v] {
			return
		}
		seen[v] = true
		phi, ok := v.(*ssa.Phi)
		if !ok {
			return
		}
		for i, e := range phi.Edges {
			if _, isPhi := e.(*ssa.Phi); isPhi {
				visit(e)
				continue
			}
			if c, ok := e.(*ssa.Const); ok && (c.Value == nil || c.IsNil()) {
				continue
			}
			n++
			pred := phi.Block().Preds[i]
			if EdgeReachable(pred, phi.Block(), cut) {
				out = append(out, one(id, kind, construct, Violated, n, w.InstrPos(phi),
					fmt.Sprintf("%s: value `%s` can become result #%d of %s without passing {%s}", what, clip(w.RenderD(e, 4), 100), idx, fnName, g.Text)))
			}
		}
	}
	for _, b := range fn.Blocks {
		if len(b.Instrs) == 0 {
			continue
		}
		ret, ok := b.Instrs[len(b.Instrs)-1].(*ssa.Return)
		if !ok || idx >= len(ret.Results) {
			continue
		}
		visit(resolveSpilled(ret, ret.Results[idx]))
	}
	if n == 0 {
		return []Result{one(id, kind, construct, Violated, 0, w.Pos(fn.Pos()), "vacuous: no loop-carried result source found (idiom not recognised)")}
	}
	if len(out) == 0 {
		out = append(out, one(id, kind, construct, Discharged, n, w.Pos(fn.Pos()), what))
	}
	return out
}

var mapMutator = regexp.MustCompile(`^(delete|clear|maps\.(Copy|DeleteFunc|Insert)(\[.*\])?|\(apim/util/sets\.Set\[.*\]\)\.(Insert|Delete|Clear|PopAny))$`)

// ParamWrites: indices of the parameters of f (receiver first, as in f.Params) whose referent f modifies in place when
// the parameter is a map, slice or set: a map update / delete / clear, an element store, one of the in-place library
// mutators, or handing the parameter on to a karpenter function that does so (transitively, depth-bounded, memoised).
// A parameter that is only re-assigned locally or copied first (lo.Assign, maps.Clone) is not written.
func (w *World) ParamWrites(f *ssa.Function) map[int]bool {
	if w.paramWrites == nil {
		w.paramWrites = map[*ssa.Function]map[int]bool{}
	}
	if r, ok := w.paramWrites[f]; ok {
		return r
	}
	out := map[int]bool{}
	w.paramWrites[f] = out // cycle guard (under-approximates recursion, which re-enters the same body)
	if f == nil || len(f.Blocks) == 0 {
		return out
	}
	idx := map[ssa.Value]int{}
	for i, p := range f.Params {
		switch p.Type().Underlying().(type) {
		case *types.Map, *types.Slice:
			idx[p] = i
		}
	}
	if len(idx) == 0 {
		return out
	}
	// the parameter a value denotes (through conversions, slicing and phis that merge only this parameter)
	var param func(v ssa.Value, depth int) (int, bool)
	param = func(v ssa.Value, depth int) (int, bool) {
		if depth > 6 {
			return 0, false
		}
		if i, ok := idx[v]; ok {
			return i, true
		}
		switch x := v.(type) {
		case *ssa.ChangeType:
			return param(x.X, depth+1)
		case *ssa.Slice:
			return param(x.X, depth+1)
		case *ssa.IndexAddr:
			return param(x.X, depth+1)
		case *ssa.Phi:
			for _, e := range x.Edges {
				if i, ok := param(e, depth+1); ok {
					return i, true
				}
			}
		}
		return 0, false
	}
	for _, g := range WithClosures(f) {
		for _, b := range g.Blocks {
			for _, in := range b.Instrs {
				switch x := in.(type) {
				case *ssa.MapUpdate:
					if i, ok := param(x.Map, 0); ok {
						out[i] = true
					}
				case *ssa.Store:
					if ia, ok := x.Addr.(*ssa.IndexAddr); ok {
						if i, ok := param(ia.X, 0); ok {
							out[i] = true
						}
					}
				case ssa.CallInstruction:
					c := x.Common()
					if len(c.Args) == 0 {
						continue
					}
					if mapMutator.MatchString(w.CalleeName(c)) {
						if i, ok := param(c.Args[0], 0); ok {
							out[i] = true
						}
						continue
					}
					callee := c.StaticCallee()
					if callee == nil || c.IsInvoke() || !IsKarpenterFn(callee) {
						continue
					}
					for j := range w.ParamWrites(callee) {
						if j < len(c.Args) {
							if i, ok := param(c.Args[j], 0); ok {
								out[i] = true
							}
						}
					}
				}
			}
		}
	}
	return out
}

// StructFieldStores lists, over the given functions, the stores (and map updates / deletes through a field) whose
// address chain passes through a field of one of the named struct types (short names).
func (w *World) StructFieldStores(fns []*ssa.Function, typs map[string]bool) []ssa.Instruction {
	var out []ssa.Instruction
	hits := func(v ssa.Value) bool {
		for i := 0; i < 32 && v != nil; i++ {
			switch x := v.(type) {
			case *ssa.FieldAddr:
				if typs[structName(x.X.Type())] {
					return true
				}
				v = x.X
			case *ssa.IndexAddr:
				v = x.X
			case *ssa.UnOp:
				if x.Op != token.MUL {
					return false
				}
				v = x.X
			case *ssa.Lookup:
				v = x.X
			case *ssa.Extract:
				if _, ok := x.Tuple.(*ssa.Lookup); !ok {
					return false
				}
				v = x.Tuple
			case *ssa.Field:
				if typs[structName(x.X.Type())] {
					return true
				}
				v = x.X
			default:
				return false
			}
		}
		return false
	}
	for _, fn := range fns {
		for _, b := range fn.Blocks {
			for _, in := range b.Instrs {
				switch x := in.(type) {
				case *ssa.Store:
					if _, isAlloc := x.Addr.(*ssa.Alloc); !isAlloc && hits(x.Addr) {
						// a store into a freshly allocated literal of the type is construction, not mutation
						if root, _ := w.AddrRoot(x.Addr); root != nil {
							if _, fresh := root.(*ssa.Alloc); fresh {
								continue
							}
						}
						out = append(out, in)
					}
				case *ssa.MapUpdate:
					if hits(x.Map) {
						if root, _ := w.AddrRoot(x.Map); root != nil {
							if _, fresh := root.(*ssa.Alloc); fresh {
								continue
							}
						}
						out = append(out, in)
					}
				case ssa.CallInstruction:
					// in-place mutators of a map/set held in such a field
					c := x.Common()
					if len(c.Args) == 0 {
						continue
					}
					if !mapMutator.MatchString(w.CalleeName(c)) {
						// a karpenter helper that modifies the map / slice it is handed
						if callee := c.StaticCallee(); callee != nil && !c.IsInvoke() && IsKarpenterFn(callee) {
							for j := range w.ParamWrites(callee) {
								if j >= len(c.Args) || !hits(c.Args[j]) {
									continue
								}
								if root, _ := w.AddrRoot(c.Args[j]); root != nil {
									if _, fresh := root.(*ssa.Alloc); fresh {
										continue
									}
								}
								out = append(out, in)
								break
							}
						}
						continue
					}
					if hits(c.Args[0]) {
						if root, _ := w.AddrRoot(c.Args[0]); root != nil {
							if _, fresh := root.(*ssa.Alloc); fresh {
								continue
							}
						}
						out = append(out, in)
					}
				}
			}
		}
	}
	return out
}

// RetLeavesGuarded: every value that can flow (through phis) into result #idx of fn and whose rendering does NOT match
// exceptRe enters under gate g: either the CFG edge through which it enters its phi, or the return itself, is
// unreachable once g's edges are cut. Used for "the raw X is only returned when …" rows of view functions.
func RetLeavesGuarded(w *World, id, kind, fnName string, idx int, exceptRe string, g Gate, min int, what string) []Result {
	fn := w.Fn(fnName)
	if fn == nil {
		return anchorMissing(id, kind, fnName)
	}
	construct := kind + ":" + fnName + fmt.Sprintf("#ret%d¬{%s}⇐", idx, exceptRe) + g.Text
	except := regexp.MustCompile(exceptRe)
	cut := w.GateCut(fn, g)
	var out []Result
	n := 0
	for _, b := range fn.Blocks {
		if len(b.Instrs) == 0 || (len(b.Preds) == 0 && b.Index != 0) {
			continue
		}
		ret, ok := b.Instrs[len(b.Instrs)-1].(*ssa.Return)
		if !ok {
			continue
		}
		i := idx
		if i < 0 {
			i = len(ret.Results) + i
		}
		if i < 0 || i >= len(ret.Results) {
			continue
		}
		retReach := InstrReachable(ret, cut)
		seen := map[ssa.Value]bool{}
		var visit func(v ssa.Value, edgeReach bool)
		visit = func(v ssa.Value, edgeReach bool) {
			if phi, ok := v.(*ssa.Phi); ok {
				if seen[v] {
					return
				}
				seen[v] = true
				for k, e := range phi.Edges {
					visit(e, edgeReach && EdgeReachable(phi.Block().Preds[k], phi.Block(), cut))
				}
				return
			}
			r := w.RenderD(v, 6)
			if except.MatchString(r) {
				return
			}
			n++
			if retReach && edgeReach {
				out = append(out, one(id, kind, construct, Violated, n, w.InstrPos(ret),
					fmt.Sprintf("%s: `%s` can be returned as result #%d of %s without passing {%s}", what, clip(r, 100), i, fnName, g.Text)))
			}
		}
		visit(resolveSpilled(ret, ret.Results[i]), true)
	}
	if n < min {
		return []Result{one(id, kind, construct, Violated, n, w.Pos(fn.Pos()), fmt.Sprintf("vacuous: %d guarded return values found, expected at least %d", n, min))}
	}
	if len(out) == 0 {
		out = append(out, one(id, kind, construct, Discharged, n, w.Pos(fn.Pos()), what))
	}
	return out
}

// ConstVal returns the exact value (as Go syntax) of the package-level constant name declared in the karpenter package
// whose import path ends in pkgSuffix.
func (w *World) ConstVal(pkgSuffix, name string) (string, bool) {
	for path, p := range w.PkgByPath {
		if !strings.HasSuffix(path, pkgSuffix) || p.Types == nil {
			continue
		}
		if c, ok := p.Types.Scope().Lookup(name).(*types.Const); ok {
			return c.Val().ExactString(), true
		}
	}
	return "", false
}

// ConstIs is a REG row: constant pkgSuffix.name has value want.
func ConstIs(w *World, id, pkgSuffix, name, want, what string) []Result {
	construct := "REG:const " + pkgSuffix + "." + name
	got, ok := w.ConstVal(pkgSuffix, name)
	if !ok {
		return []Result{Anchor(id, "REG", "const "+pkgSuffix+"."+name)}
	}
	if got != want {
		return []Result{Bad(id, "REG", construct, "", fmt.Sprintf("%s: constant is %s, the table's literals assume %s", what, got, want))}
	}
	return []Result{OK(id, "REG", construct, 1, what)}
}

// PhiCoUpdate: the loop-carried values returned as results idxs of fn (phis of one loop header) are replaced on exactly
// the same incoming edges — a "best so far" tuple is updated as a whole.
func PhiCoUpdate(w *World, id, kind, fnName string, idxs []int, what string) []Result {
	fn := w.Fn(fnName)
	if fn == nil {
		return anchorMissing(id, kind, fnName)
	}
	construct := kind + ":" + fnName + fmt.Sprintf(":co-update%v", idxs)
	var phis []*ssa.Phi
	for _, b := range fn.Blocks {
		if len(b.Instrs) == 0 || (len(b.Preds) == 0 && b.Index != 0) {
			continue
		}
		ret, ok := b.Instrs[len(b.Instrs)-1].(*ssa.Return)
		if !ok {
			continue
		}
		if len(phis) > 0 {
			return []Result{one(id, kind, construct, Undecided, 0, w.Pos(fn.Pos()), "more than one return: idiom not recognised")}
		}
		for _, i := range idxs {
			if i >= len(ret.Results) {
				return []Result{one(id, kind, construct, Undecided, 0, w.InstrPos(ret), "result index out of range")}
			}
			p, ok := resolveSpilled(ret, ret.Results[i]).(*ssa.Phi)
			if !ok {
				return []Result{one(id, kind, construct, Undecided, 0, w.InstrPos(ret), fmt.Sprintf("result #%d is not a loop-carried value (idiom not recognised)", i))}
			}
			phis = append(phis, p)
		}
	}
	if len(phis) < 2 {
		return []Result{one(id, kind, construct, Undecided, 0, w.Pos(fn.Pos()), "no returned loop-carried tuple found")}
	}
	blk := phis[0].Block()
	for _, p := range phis {
		if p.Block() != blk {
			return []Result{one(id, kind, construct, Undecided, 0, w.InstrPos(p), "the returned values are carried by different loops")}
		}
	}
	var out []Result
	n := 0
	for e := range blk.Preds {
		changed := 0
		for _, p := range phis {
			if p.Edges[e] != ssa.Value(p) {
				changed++
			}
		}
		if changed != 0 {
			n++
		}
		if changed != 0 && changed != len(phis) {
			last := blk.Preds[e].Instrs[len(blk.Preds[e].Instrs)-1]
			out = append(out, one(id, kind, construct, Violated, n, w.InstrPos(last),
				fmt.Sprintf("%s: on the loop edge from block %d only %d of the %d returned values are replaced — the tuple returned mixes values of different iterations", what, blk.Preds[e].Index, changed, len(phis))))
		}
	}
	if n < 2 {
		return []Result{one(id, kind, construct, Violated, n, w.Pos(fn.Pos()), "vacuous: the tuple is never updated inside the loop")}
	}
	if len(out) == 0 {
		out = append(out, one(id, kind, construct, Discharged, n, w.Pos(fn.Pos()), what))
	}
	return out
}

// FreshMapUpdates: every map update / delete in fn (closures included) goes to a map created in fn itself
// (make, composite literal, or the result of one of the copying helpers): fn never writes into a map it was handed.
func FreshMapUpdates(w *World, id, kind, fnName string, min int, what string) []Result {
	fn := w.Fn(fnName)
	if fn == nil {
		return anchorMissing(id, kind, fnName)
	}
	construct := kind + ":" + fnName + ":fresh-map-updates"
	copier := regexp.MustCompile(`^(lo\.Assign|maps\.Clone|lo\.OmitBy|lo\.PickBy|lo\.MapValues|lo\.MapKeys|lo\.MapEntries|lo\.SliceToMap|lo\.Associate)\b`)
	var fresh func(v ssa.Value, depth int) bool
	fresh = func(v ssa.Value, depth int) bool {
		if depth > 6 {
			return false
		}
		switch x := v.(type) {
		case *ssa.MakeMap:
			return true
		case *ssa.Call:
			return copier.MatchString(w.CalleeName(x.Common()))
		case *ssa.ChangeType:
			return fresh(x.X, depth+1)
		case *ssa.Phi:
			for _, e := range x.Edges {
				if e != v && !fresh(e, depth+1) {
					return false
				}
			}
			return true
		case *ssa.UnOp:
			if a, ok := x.X.(*ssa.Alloc); ok {
				k, ok2 := 0, true
				for _, r := range *a.Referrers() {
					if st, ok := r.(*ssa.Store); ok && st.Addr == a {
						k++
						ok2 = ok2 && fresh(st.Val, depth+1)
					}
				}
				return k > 0 && ok2
			}
		}
		return false
	}
	var out []Result
	n := 0
	for _, f := range WithClosures(fn) {
		for _, b := range f.Blocks {
			for _, in := range b.Instrs {
				var m ssa.Value
				switch x := in.(type) {
				case *ssa.MapUpdate:
					m = x.Map
				case *ssa.Call:
					if b, ok := x.Call.Value.(*ssa.Builtin); ok && (b.Name() == "delete" || b.Name() == "clear") && len(x.Call.Args) > 0 {
						if _, isMap := x.Call.Args[0].Type().Underlying().(*types.Map); isMap {
							m = x.Call.Args[0]
						}
					} else if len(x.Call.Args) > 0 && mapMutator.MatchString(w.CalleeName(x.Common())) {
						if _, isMap := x.Call.Args[0].Type().Underlying().(*types.Map); isMap {
							m = x.Call.Args[0]
						}
					} else if callee := x.Call.StaticCallee(); callee != nil && !x.Call.IsInvoke() && IsKarpenterFn(callee) {
						// a helper that writes into the map it is handed
						for j := range w.ParamWrites(callee) {
							if j == 0 && callee.Signature.Recv() != nil {
								continue // a named map type's own mutator methods (Requirements.Add …) are not label/annotation writes
							}
							if j < len(x.Call.Args) {
								if _, isMap := x.Call.Args[j].Type().Underlying().(*types.Map); isMap && !fresh(x.Call.Args[j], 0) {
									n++
									out = append(out, one(id, kind, construct, Violated, n, w.InstrPos(in), fmt.Sprintf("%s: `%s` hands a map that was not created here (`%s`) to a helper that writes into it", what, clip(w.RenderInstr(in), 100), clip(w.RenderD(x.Call.Args[j], 4), 60))))
								}
							}
						}
					}
				}
				if m == nil {
					continue
				}
				n++
				if !fresh(m, 0) {
					out = append(out, one(id, kind, construct, Violated, n, w.InstrPos(in), fmt.Sprintf("%s: `%s` writes into a map that was not created here (`%s`)", what, clip(w.RenderInstr(in), 100), clip(w.RenderD(m, 4), 60))))
				}
			}
		}
	}
	if n < min {
		return []Result{one(id, kind, construct, Violated, n, w.Pos(fn.Pos()), fmt.Sprintf("vacuous: %d map writes found, expected at least %d", n, min))}
	}
	if len(out) == 0 {
		out = append(out, one(id, kind, construct, Discharged, n, w.Pos(fn.Pos()), what))
	}
	return out
}

// FieldNameOf returns the name of the struct field a FieldAddr selects.
func FieldNameOf(fa *ssa.FieldAddr) string {
	t := fa.X.Type().Underlying()
	if p, ok := t.(*types.Pointer); ok {
		if st, ok := p.Elem().Underlying().(*types.Struct); ok && fa.Field < st.NumFields() {
			return st.Field(fa.Field).Name()
		}
	}
	return ""
}

// LookupInsertSameMap (memo idiom): `if v, ok := A[k]; !ok { B[k] = new }` — an entry inserted because a lookup of the
// same key missed must go into the map that was looked up. For every map update in fn whose key is (by SSA identity)
// the key of a comma-ok lookup and which sits on that lookup's miss edge, the updated map must render like the looked-up
// one. min: number of such idioms confirmed by hand.
func LookupInsertSameMap(w *World, id, kind, fnName string, min int, what string) []Result {
	fn := w.Fn(fnName)
	if fn == nil {
		return anchorMissing(id, kind, fnName)
	}
	construct := kind + ":" + fnName + ":lookup-insert"
	var out []Result
	n := 0
	for _, f := range WithClosures(fn) {
		for _, b := range f.Blocks {
			for _, in := range b.Instrs {
				mu, ok := in.(*ssa.MapUpdate)
				if !ok {
					continue
				}
				// comma-ok lookups with the same key value
				for _, b2 := range f.Blocks {
					if len(b2.Instrs) == 0 || len(b2.Succs) != 2 {
						continue
					}
					ifi, ok := b2.Instrs[len(b2.Instrs)-1].(*ssa.If)
					if !ok {
						continue
					}
					cond, neg := ifi.Cond, false
					for {
						u, isNot := cond.(*ssa.UnOp)
						if !isNot || u.Op != token.NOT {
							break
						}
						neg = !neg
						cond = u.X
					}
					ex, ok := cond.(*ssa.Extract)
					if !ok || ex.Index != 1 {
						continue
					}
					lk, ok := ex.Tuple.(*ssa.Lookup)
					if !ok || !lk.CommaOk || lk.Index != mu.Key {
						continue
					}
					miss := 1
					if neg {
						miss = 0
					}
					// is the update only reachable over the miss edge of this lookup?
					c := newCut()
					c.Edges[EdgeKey{b2, miss}] = true
					if InstrReachable(mu, c) {
						continue
					}
					n++
					if a, bb := w.Render(lk.X), w.Render(mu.Map); a != bb {
						out = append(out, one(id, kind, construct, Violated, n, w.InstrPos(mu), fmt.Sprintf("%s: a miss in `%s` inserts into `%s` — the next lookup misses again and the entry written shadows / is never found", what, clip(a, 60), clip(bb, 60))))
					}
				}
			}
		}
	}
	if n < min {
		return []Result{one(id, kind, construct, Violated, n, w.Pos(fn.Pos()), fmt.Sprintf("vacuous: %d lookup-or-insert idiom(s) found, %d confirmed by hand", n, min))}
	}
	if len(out) == 0 {
		out = append(out, one(id, kind, construct, Discharged, n, w.Pos(fn.Pos()), what))
	}
	return out
}

// SameIteration: def and use execute in the same iteration of every loop that contains use — def's block lies in the
// same strongly connected component of the flow graph as use's block, or use is in no loop at all. A value computed
// outside the loop and stored in each iteration is shared by all iterations.
func SameIteration(def, use ssa.Instruction) bool {
	ub, db := use.Block(), def.Block()
	if ub == nil || db == nil || ub.Parent() != db.Parent() {
		return false
	}
	// natural loops: header h, back edge p→h with h dominating p; body = h plus everything that reaches p avoiding h
	var inner map[*ssa.BasicBlock]bool
	for _, h := range ub.Parent().Blocks {
		var body map[*ssa.BasicBlock]bool
		for _, p := range h.Preds {
			if !h.Dominates(p) {
				continue
			}
			if body == nil {
				body = map[*ssa.BasicBlock]bool{h: true}
			}
			st := []*ssa.BasicBlock{p}
			for len(st) > 0 {
				x := st[len(st)-1]
				st = st[:len(st)-1]
				if body[x] {
					continue
				}
				body[x] = true
				st = append(st, x.Preds...)
			}
		}
		if body != nil && body[ub] && (inner == nil || len(body) < len(inner)) {
			inner = body
		}
	}
	if inner == nil {
		return true // use is not in a loop
	}
	return inner[db]
}
