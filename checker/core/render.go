package core

import (
	"fmt"
	"go/constant"
	"go/token"
	"go/types"
	"sort"
	"strings"

	"golang.org/x/tools/go/ssa"
)

// Render produces the canonical, name-independent (as far as possible) text of an SSA value:
// callees are resolved objects, loads are transparent, locals with one store are seen through,
// parameters are "$<index>", free variables resolve to their binding in the enclosing function.
func (w *World) Render(v ssa.Value) string { return w.render(v, 7, map[ssa.Value]bool{}) }

func (w *World) RenderD(v ssa.Value, depth int) string {
	return w.render(v, depth, map[ssa.Value]bool{})
}

func paramIndex(p *ssa.Parameter) int {
	for i, q := range p.Parent().Params {
		if q == p {
			// a pseudo receiver that follows the context is numbered like a receiver ($0), the context $1
			if r, ok := PseudoRecv(p.Parent()); ok && r == 1 && i <= 1 {
				return 1 - i
			}
			return i
		}
	}
	return -1
}

func fieldNameOf(t types.Type, i int) string {
	for {
		if p, ok := t.Underlying().(*types.Pointer); ok {
			t = p.Elem()
			continue
		}
		break
	}
	st, ok := t.Underlying().(*types.Struct)
	if !ok || i >= st.NumFields() {
		return fmt.Sprintf("f%d", i)
	}
	return st.Field(i).Name()
}

// storesTo lists the stores to an alloc in its function and in closures capturing it.
func (w *World) storesTo(a *ssa.Alloc) []*ssa.Store {
	var out []*ssa.Store
	var visit func(v ssa.Value)
	seen := map[ssa.Value]bool{}
	visit = func(v ssa.Value) {
		if seen[v] {
			return
		}
		seen[v] = true
		refs := v.Referrers()
		if refs == nil {
			return
		}
		for _, r := range *refs {
			switch x := r.(type) {
			case *ssa.Store:
				if x.Addr == v {
					out = append(out, x)
				}
			case *ssa.MakeClosure:
				if f, ok := x.Fn.(*ssa.Function); ok {
					for i, b := range x.Bindings {
						if b == v && i < len(f.FreeVars) {
							visit(f.FreeVars[i])
						}
					}
				}
			}
		}
	}
	visit(a)
	return out
}

// FreeVarBinding resolves a free variable to the value bound at the MakeClosure site.
func (w *World) FreeVarBinding(fv *ssa.FreeVar) ssa.Value {
	mc := w.ClosureSite[fv.Parent()]
	if mc == nil {
		return nil
	}
	for i, f := range fv.Parent().FreeVars {
		if f == fv && i < len(mc.Bindings) {
			return mc.Bindings[i]
		}
	}
	return nil
}

func isContext(t types.Type) bool {
	return strings.HasSuffix(t.String(), "context.Context")
}

func (w *World) render(v ssa.Value, depth int, seen map[ssa.Value]bool) string {
	if v == nil {
		return "<nil>"
	}
	if depth <= 0 {
		return "…"
	}
	switch x := v.(type) {
	case *ssa.Const:
		if x.Value == nil {
			if _, ok := x.Type().Underlying().(*types.Struct); ok {
				return "zero"
			}
			if b, ok := x.Type().Underlying().(*types.Basic); ok && b.Info()&types.IsString != 0 {
				return `""`
			}
			if b, ok := x.Type().Underlying().(*types.Basic); ok && b.Info()&types.IsNumeric != 0 {
				return "0"
			}
			return "nil"
		}
		if x.Value.Kind() == constant.String {
			return x.Value.ExactString()
		}
		return x.Value.String()
	case *ssa.Parameter:
		for i := len(w.subst) - 1; i >= 0; i-- {
			if r, ok := w.subst[i][x]; ok {
				return r
			}
		}
		return fmt.Sprintf("$%d", paramIndex(x))
	case *ssa.FreeVar:
		if b := w.FreeVarBinding(x); b != nil && !seen[x] {
			seen[x] = true
			s := w.render(b, depth, seen)
			delete(seen, x)
			return "^" + s
		}
		return "^fv"
	case *ssa.Global:
		return Short(x.String())
	case *ssa.Function:
		return "fn:" + FnName(x)
	case *ssa.Builtin:
		return x.Name()
	case *ssa.UnOp:
		if x.Op == token.MUL {
			return w.render(x.X, depth, seen) // loads are transparent
		}
		if x.Op == token.NOT {
			return "!" + w.render(x.X, depth-1, seen)
		}
		return x.Op.String() + w.render(x.X, depth-1, seen)
	case *ssa.BinOp:
		return "(" + w.render(x.X, depth-1, seen) + " " + x.Op.String() + " " + w.render(x.Y, depth-1, seen) + ")"
	case *ssa.FieldAddr:
		return w.render(x.X, depth, seen) + "." + fieldNameOf(x.X.Type(), x.Field)
	case *ssa.Field:
		return w.render(x.X, depth, seen) + "." + fieldNameOf(x.X.Type(), x.Field)
	case *ssa.Extract:
		if c, ok := x.Tuple.(*ssa.Call); ok {
			if r, ok := w.inlinedResult(c.Common(), x.Index, depth, seen); ok {
				return r
			}
		}
		return w.render(x.Tuple, depth, seen) + "#" + fmt.Sprint(x.Index)
	case *ssa.Call:
		return w.renderCall(x.Common(), depth, seen)
	case *ssa.Lookup:
		return w.render(x.X, depth-1, seen) + "[" + w.render(x.Index, depth-1, seen) + "]"
	case *ssa.IndexAddr:
		return w.render(x.X, depth-1, seen) + "[" + w.render(x.Index, depth-1, seen) + "]"
	case *ssa.Index:
		return w.render(x.X, depth-1, seen) + "[" + w.render(x.Index, depth-1, seen) + "]"
	case *ssa.Phi:
		if seen[x] {
			return "phi↺"
		}
		seen[x] = true
		var parts []string
		cls := map[string]int{}
		for _, e := range x.Edges {
			p := w.render(e, depth-2, seen)
			parts = append(parts, p)
			// the class of an operand is a property of the value, not of how deep it happens to be printed: an update of
			// a loop-carried value stays one when its text is elided
			c := phiClassText(p)
			if c == 1 && refsInProgress(e, seen, 0, new(int)) {
				c = 3
			}
			if old, ok := cls[p]; !ok || c > old {
				cls[p] = c
			}
		}
		delete(seen, x)
		return "phi(" + strings.Join(canonPhiClassed(parts, cls), "|") + ")"
	case *ssa.Alloc:
		if seen[x] {
			return "&local↺"
		}
		sts := w.storesTo(x)
		if len(sts) == 1 {
			seen[x] = true
			s := w.render(sts[0].Val, depth-1, seen)
			delete(seen, x)
			return s
		}
		return "&local<" + TypeStr(x.Type().Underlying().(*types.Pointer).Elem()) + ">"
	case *ssa.MakeInterface:
		return w.render(x.X, depth, seen)
	case *ssa.ChangeType:
		return w.render(x.X, depth, seen)
	case *ssa.Convert:
		return w.render(x.X, depth, seen)
	case *ssa.ChangeInterface:
		return w.render(x.X, depth, seen)
	case *ssa.MultiConvert:
		return w.render(x.X, depth, seen)
	case *ssa.SliceToArrayPointer:
		return w.render(x.X, depth, seen)
	case *ssa.TypeAssert:
		return w.render(x.X, depth, seen) + ".(" + TypeStr(x.AssertedType) + ")"
	case *ssa.MakeClosure:
		if f, ok := x.Fn.(*ssa.Function); ok {
			return "closure:" + FnName(f)
		}
		return "closure"
	case *ssa.Slice:
		lo, hi := "", ""
		if x.Low != nil {
			lo = w.render(x.Low, depth-1, seen)
		}
		if x.High != nil {
			hi = w.render(x.High, depth-1, seen)
		}
		return w.render(x.X, depth-1, seen) + "[" + lo + ":" + hi + "]"
	case *ssa.MakeMap:
		return "makemap<" + TypeStr(x.Type()) + ">"
	case *ssa.MakeSlice:
		return "makeslice<" + TypeStr(x.Type()) + ">"
	case *ssa.MakeChan:
		return "makechan"
	case *ssa.Next:
		return "next(" + w.render(x.Iter, depth-1, seen) + ")"
	case *ssa.Range:
		return "range(" + w.render(x.X, depth-1, seen) + ")"
	case *ssa.Select:
		return "select"
	}
	return fmt.Sprintf("%s:%T", v.Name(), v)
}

// CalleeName is the resolved name of the function or interface method a call targets.
// static:  "(*controllers/state.Cluster).Synced" or "lo.Filter[…]" (instantiations keep their type arguments)
// invoke:  "iface:(cr/client.Writer).Delete"
// builtin: "append"
// dynamic: "dyn:<rendering of the function value>"
func (w *World) CalleeName(c *ssa.CallCommon) string {
	if c.IsInvoke() {
		return "iface:" + Short(c.Method.FullName())
	}
	if f := c.StaticCallee(); f != nil {
		return FnName(f)
	}
	if b, ok := c.Value.(*ssa.Builtin); ok {
		return b.Name()
	}
	return "dyn:" + w.RenderD(c.Value, 4)
}

// CallArgs returns receiver-first arguments.
func CallArgs(c *ssa.CallCommon) []ssa.Value {
	if c.IsInvoke() {
		return append([]ssa.Value{c.Value}, c.Args...)
	}
	if f := c.StaticCallee(); f != nil {
		if r, ok := PseudoRecv(f); ok && r == 1 && len(c.Args) >= 2 {
			out := append([]ssa.Value{}, c.Args...)
			out[0], out[1] = out[1], out[0]
			return out
		}
	}
	return c.Args
}

func (w *World) renderCall(c *ssa.CallCommon, depth int, seen map[ssa.Value]bool) string {
	if r, ok := w.inlinedResult(c, -1, depth, seen); ok {
		return r
	}
	name := w.CalleeName(c)
	var as []string
	if depth > 1 {
		for _, a := range CallArgs(c) {
			if isContext(a.Type()) {
				continue
			}
			s := w.render(a, depth-2, seen)
			if mi, ok := a.(*ssa.MakeInterface); ok {
				// keep the dynamic type visible: client.Delete(ctx, <*v1.NodeClaim>…)
				s = "<" + TypeStr(mi.X.Type()) + ">" + s
			}
			as = append(as, s)
		}
	} else {
		as = []string{"…"}
	}
	// one spelling for strict time order: a.Before(b) is b.After(a)
	if name == "(time.Time).Before" && len(as) == 2 {
		return "(time.Time).After(" + as[1] + ", " + as[0] + ")"
	}
	// one spelling for "some element satisfies the predicate": lo.ContainsBy / lo.SomeBy are the found flag of lo.Find
	for _, alias := range [...]string{"lo.ContainsBy[", "lo.SomeBy["} {
		if strings.HasPrefix(name, alias) {
			return "lo.Find[" + strings.TrimPrefix(name, alias) + "(" + strings.Join(as, ", ") + ")#1"
		}
	}
	return name + "(" + strings.Join(as, ", ") + ")"
}

// RenderInstr gives the canonical text of an instruction; this is what site patterns match against.
func (w *World) RenderInstr(in ssa.Instruction) string {
	seen := map[ssa.Value]bool{}
	switch x := in.(type) {
	case *ssa.Call:
		return "call " + w.renderCall(x.Common(), 7, seen)
	case *ssa.Go:
		return "go " + w.renderCall(x.Common(), 7, seen)
	case *ssa.Defer:
		return "defer " + w.renderCall(x.Common(), 7, seen)
	case *ssa.Store:
		return "store " + w.render(x.Addr, 6, seen) + " = " + w.render(x.Val, 6, seen)
	case *ssa.MapUpdate:
		return "mapupdate " + w.render(x.Map, 6, seen) + "[" + w.render(x.Key, 5, seen) + "] = " + w.render(x.Value, 6, seen)
	case *ssa.Return:
		var rs []string
		for _, r := range x.Results {
			rs = append(rs, w.render(r, 6, seen))
		}
		return "return " + strings.Join(rs, ", ")
	case *ssa.Panic:
		return "panic " + w.render(x.X, 5, seen)
	case *ssa.Send:
		return "send " + w.render(x.Chan, 5, seen) + " <- " + w.render(x.X, 5, seen)
	case *ssa.If:
		return "if " + w.render(x.Cond, 7, seen)
	case *ssa.Jump:
		return "jump"
	case *ssa.RunDefers:
		return "rundefers"
	case ssa.Value:
		return x.Name() + " = " + w.render(x, 6, seen)
	}
	return fmt.Sprintf("%T", in)
}

// canonPhi puts the operands of a phi in an order that does not depend on the order of the predecessor blocks (so that
// swapping the branches of an if/else, or adding a second `continue`, does not change the rendering): duplicates are
// dropped; constants come first, then ordinary values, then the self reference, then updates of the self reference;
// ties are broken by text.
func canonPhi(parts []string) []string {
	return canonPhiClassed(parts, nil)
}

func phiClassText(s string) int {
	switch {
	case s == "phi↺":
		return 2
	case strings.Contains(s, "phi↺"):
		return 3
	case s == "nil" || s == "true" || s == "false" || s == "zero" || s == `""` || (len(s) > 0 && (s[0] == '"' || s[0] == '-' || (s[0] >= '0' && s[0] <= '9'))):
		return 0
	}
	return 1
}

// refsInProgress: v (transitively through its operands, bounded) refers to a phi that is currently being rendered.
func refsInProgress(v ssa.Value, seen map[ssa.Value]bool, depth int, budget *int) bool {
	if v == nil || depth > 10 || *budget > 300 {
		return false
	}
	*budget++
	if _, isPhi := v.(*ssa.Phi); isPhi && seen[v] {
		return true
	}
	in, ok := v.(ssa.Instruction)
	if !ok {
		return false
	}
	if _, isPhi := v.(*ssa.Phi); isPhi && depth > 0 {
		// another (finished or not yet started) phi: its own rendering decides; look through it all the same
	}
	var ops []*ssa.Value
	for _, op := range in.Operands(ops) {
		if op != nil && *op != nil && refsInProgress(*op, seen, depth+1, budget) {
			return true
		}
	}
	return false
}

func canonPhiClassed(parts []string, cls map[string]int) []string {
	class := func(s string) int {
		if c, ok := cls[s]; ok {
			return c
		}
		return phiClassText(s)
	}
	seen := map[string]bool{}
	var out []string
	for _, p := range parts {
		if !seen[p] {
			seen[p] = true
			out = append(out, p)
		}
	}
	sort.SliceStable(out, func(i, j int) bool {
		ci, cj := class(out[i]), class(out[j])
		if ci != cj {
			return ci < cj
		}
		return out[i] < out[j]
	})
	return out
}

// inlinedResult (second reading only, w.inlineTrivial): result idx (-1: the only one) of a call to a small unexported,
// loop-free karpenter helper rendered as what the helper returns, in the caller's terms: the returned expression, or the
// canonical phi of the returned expressions when the helper has several returns. This undoes an "extract function" on
// value level: `created, err := l.cachedOrLaunch(...)` reads again as phi(cache hit | launch result).
func (w *World) inlinedResult(c *ssa.CallCommon, idx int, depth int, seen map[ssa.Value]bool) (string, bool) {
	if !w.inlineTrivial || w.inlineDepth >= 2 || c.IsInvoke() {
		return "", false
	}
	f := c.StaticCallee()
	if f == nil || len(f.Blocks) == 0 || len(f.Blocks) > 12 || f.Synthetic != "" || !IsKarpenterFn(f) || f.Object() == nil || f.Object().Exported() || len(c.Args) != len(f.Params) {
		return "", false
	}
	var parts []string
	m := map[*ssa.Parameter]string{}
	for j, p := range f.Params {
		m[p] = w.render(c.Args[j], depth-1, seen)
	}
	w.subst = append(w.subst, m)
	w.inlineDepth++
	defer func() {
		w.inlineDepth--
		w.subst = w.subst[:len(w.subst)-1]
	}()
	nret := 0
	for _, b := range f.Blocks {
		if len(b.Instrs) > 0 && (len(b.Preds) > 0 || b.Index == 0) {
			if _, ok := b.Instrs[len(b.Instrs)-1].(*ssa.Return); ok {
				nret++
			}
		}
	}
	for _, b := range f.Blocks {
		if len(b.Instrs) == 0 || (len(b.Preds) == 0 && b.Index != 0) {
			continue
		}
		// loops make the returned expressions path-dependent in ways a phi of returns does not express — unless the
		// helper has a single return (the value computed by the loop, exactly as it would read inline)
		for _, su := range b.Succs {
			if nret > 1 && su.Index <= b.Index && su != b && len(su.Preds) > 1 && su.Comment != "" && strings.Contains(su.Comment, "loop") {
				return "", false
			}
		}
		ret, ok := b.Instrs[len(b.Instrs)-1].(*ssa.Return)
		if !ok {
			continue
		}
		k := idx
		if k < 0 {
			if len(ret.Results) != 1 {
				return "", false
			}
			k = 0
		}
		if k >= len(ret.Results) {
			return "", false
		}
		v := resolveSpilled(ret, ret.Results[k])
		if p, ok := v.(*ssa.Phi); ok && p.Block() == b {
			for _, e := range p.Edges {
				parts = append(parts, w.render(e, depth-1, seen))
			}
			continue
		}
		parts = append(parts, w.render(v, depth-1, seen))
	}
	parts = canonPhi(parts)
	switch len(parts) {
	case 0:
		return "", false
	case 1:
		return parts[0], true
	}
	return "phi(" + strings.Join(parts, "|") + ")", true
}
