package core

// ext_I.go — AccumulatingMerge: a structural reading of "merge a map of new quantities into stored state by ADDING".
//
// The arithmetic itself (is the sum right?) is a value-level question; WHICH operation combines the stored and the new
// quantity, that every entry of the new map takes part, and that a stored entry is replaced wholesale only when it was
// absent, are facts of the code's shape. The helper decides them on SSA (values by identity, maps by rendering) and walks
// into private helpers of the function, so the merge may live in the function itself or in an extracted helper.

import (
	"fmt"
	"go/token"
	"go/types"
	"regexp"
	"sort"
	"strings"

	"golang.org/x/tools/go/ssa"
)

// MergeSpec parameterises AccumulatingMerge.
type MergeSpec struct {
	State    string // regexp on the root of the maps the rule is about ("$0.field" of the function, "$k" for a parameter); "" = every map the function does not create itself
	Value    string // regexp on TypeStr of the accumulated value type (the element type of the innermost maps)
	Op       string // regexp on CalleeName of the accumulating method; its receiver (argument 0) is the cell
	ReadOnly string // regexp on CalleeName of methods that may take the cell's address without changing it
	Copy     string // regexp on CalleeName of value-preserving copies (x.DeepCopy() counts as x)
	MinMerge int    // merge sites confirmed by hand (read-modify-write whose operand is an element of the ranged map)
	MinTake  int    // "absent ⇒ take the new entry over / create it" sites confirmed by hand
	What     string // what is accumulated, for messages
}

type mergeLoop struct {
	header *ssa.BasicBlock
	body   map[*ssa.BasicBlock]bool
}

// mergeNaturalLoops: one loop per header (back edges p→h with h dominating p merged).
func mergeNaturalLoops(f *ssa.Function) []mergeLoop {
	var out []mergeLoop
	for _, h := range f.Blocks {
		var body map[*ssa.BasicBlock]bool
		for _, p := range h.Preds {
			if !h.Dominates(p) {
				continue
			}
			if body == nil {
				body = map[*ssa.BasicBlock]bool{h: true}
			}
			st := []*ssa.BasicBlock{p}
			for len(st) > 0 {
				x := st[len(st)-1]
				st = st[:len(st)-1]
				if body[x] {
					continue
				}
				body[x] = true
				st = append(st, x.Preds...)
			}
		}
		if body != nil {
			out = append(out, mergeLoop{h, body})
		}
	}
	return out
}

func mergeInstrDominates(a, b ssa.Instruction) bool {
	if a.Block() == b.Block() {
		return instrIndex(a) < instrIndex(b)
	}
	return a.Block().Dominates(b.Block())
}

type mergeResult struct {
	merge, take int
}

type mergeAnalysis struct {
	w                        *World
	root                     *ssa.Function
	id, kind, construct      string
	spec                     MergeSpec
	value, op, ronly, copyRe *regexp.Regexp
	out                      []Result
	state                    *regexp.Regexp
	memo                     map[string]*mergeResult
}

func (a *mergeAnalysis) bad(in ssa.Instruction, msg string) {
	a.out = append(a.out, Bad(a.id, a.kind, a.construct, a.w.InstrPos(in), a.spec.What+": "+msg))
}

// AccumulatingMerge decides, for fnName and the private helpers it calls (two levels), over every update of a map whose
// root (rootOf: the receiver field / parameter it is an entry of an entry of …) matches spec.State — or, without State, of
// every map the function does not create itself; the quantity may be the map's element or a field of a struct element:
//
//	(1) an update whose value has the accumulated type is a read-modify-write: the value written is a local cell that is
//	    assigned once, and the cell's initial value and the operands of the Op calls on it (≥1, all between the
//	    initialisation and the write, nothing else touching the cell) are the entry read from the SAME map under the
//	    SAME key — exactly one of them — and new quantities; or else the update sits on the "entry absent" edge of a
//	    lookup of that map and key;
//	(2) where a new quantity is the element of a ranged map (a merge site): the key written is that element's key, the
//	    range is the innermost loop around the update, every completed iteration of that loop passes the update;
//	(3) an update whose value is itself a map (a whole sub-entry put into the state) sits on the "entry absent" edge of a
//	    lookup of that map and key, or stores the result of a helper that merges;
//	(4) every loop around a merge site is left only at its head, each of its iterations passes a take-over (3), the head
//	    of the next inner loop, or the merge itself; the function returns only past the outermost loop or on the edge
//	    where the ranged map is empty.
func AccumulatingMerge(w *World, id, kind, fnName string, spec MergeSpec) []Result {
	fn := w.Fn(fnName)
	if fn == nil {
		return anchorMissing(id, kind, fnName)
	}
	a := &mergeAnalysis{w: w, root: fn, id: id, kind: kind, construct: kind + ":" + fnName + ":accumulate", spec: spec,
		value: regexp.MustCompile(spec.Value), op: regexp.MustCompile(spec.Op), ronly: regexp.MustCompile(spec.ReadOnly), copyRe: regexp.MustCompile(spec.Copy),
		memo: map[string]*mergeResult{}}
	if spec.State != "" {
		a.state = regexp.MustCompile(spec.State)
	}
	r := a.analyse(fn, 0, nil)
	if len(a.out) > 0 {
		return a.out
	}
	if r.merge < spec.MinMerge || r.take < spec.MinTake {
		return []Result{Bad(id, kind, a.construct, w.Pos(fn.Pos()), fmt.Sprintf("%s: vacuous — %d merge site(s) and %d take-over site(s) recognised, %d and %d confirmed by hand", spec.What, r.merge, r.take, spec.MinMerge, spec.MinTake))}
	}
	return []Result{OK(id, kind, a.construct, r.merge+r.take, fmt.Sprintf("%s: %d merge site(s) add to the stored entry of the same key, %d take-over(s) only when absent, no iteration skips", spec.What, r.merge, r.take))}
}

// rootOf names where a map lives: entries of entries are followed up to a field of the function's receiver / parameters
// ("$0.consumed", "$1"), "fresh" for a map the function creates itself (a result under construction, not state). Inside a
// helper a parameter reads as the root of the argument it was called with (env).
func (a *mergeAnalysis) rootOf(v ssa.Value, env map[*ssa.Parameter]string, seen map[ssa.Value]bool) string {
	if seen[v] {
		return "fresh"
	}
	seen[v] = true
	switch x := v.(type) {
	case *ssa.MakeMap:
		return "fresh"
	case *ssa.Lookup:
		return a.rootOf(x.X, env, seen)
	case *ssa.Extract:
		if lk, ok := x.Tuple.(*ssa.Lookup); ok {
			return a.rootOf(lk.X, env, seen)
		}
	case *ssa.ChangeType:
		return a.rootOf(x.X, env, seen)
	case *ssa.Phi:
		r := "fresh"
		for _, e := range x.Edges {
			switch q := a.rootOf(e, env, seen); {
			case q == "fresh" || q == r:
			case r == "fresh":
				r = q
			default:
				return "?"
			}
		}
		return r
	case *ssa.Parameter:
		if r, ok := env[x]; ok {
			return r
		}
		return fmt.Sprintf("$%d", paramIndex(x))
	case *ssa.UnOp:
		if fa, ok := x.X.(*ssa.FieldAddr); ok && x.Op == token.MUL {
			return a.rootOf(fa.X, env, seen) + "." + fieldNameOf(fa.X.Type(), fa.Field)
		}
	case *ssa.FieldAddr:
		return a.rootOf(x.X, env, seen) + "." + fieldNameOf(x.X.Type(), x.Field)
	case *ssa.Field:
		return a.rootOf(x.X, env, seen) + "." + fieldNameOf(x.X.Type(), x.Field)
	}
	return clip(a.w.RenderD(v, 4), 60)
}

func (a *mergeAnalysis) inScope(m ssa.Value, env map[*ssa.Parameter]string) bool {
	r := a.rootOf(m, env, map[ssa.Value]bool{})
	if a.state == nil {
		return r != "fresh"
	}
	return a.state.MatchString(r)
}

// unspill: a load of a local that is assigned exactly once reads as the assigned value (a range variable whose address is
// taken); copies named by spec.Copy read as their operand.
func (a *mergeAnalysis) unspill(v ssa.Value) ssa.Value {
	for i := 0; i < 6; i++ {
		switch x := v.(type) {
		case *ssa.UnOp:
			if x.Op != token.MUL {
				break
			}
			addr := x.X
			if fa, ok := addr.(*ssa.FieldAddr); ok { // a field of a struct-valued element reads as the element
				addr = fa.X
			}
			if al, ok := addr.(*ssa.Alloc); ok {
				if sts := a.w.storesTo(al); len(sts) == 1 && a.onlyRead(al) {
					v = sts[0].Val
					continue
				}
			}
		case *ssa.Field:
			v = x.X
			continue
		case *ssa.Call:
			if args := x.Common().Args; len(args) == 1 && !x.Common().IsInvoke() && a.copyRe.MatchString(a.w.CalleeName(x.Common())) {
				v = args[0]
				continue
			}
		case *ssa.ChangeType:
			v = x.X
			continue
		}
		break
	}
	return v
}

// onlyRead: apart from its single store, the local is only loaded or handed to read-only methods.
func (a *mergeAnalysis) onlyRead(al *ssa.Alloc) bool {
	for _, r := range *al.Referrers() {
		switch x := r.(type) {
		case *ssa.Store:
			if x.Addr != ssa.Value(al) {
				return false
			}
		case *ssa.UnOp, *ssa.DebugRef:
		case *ssa.Call:
			if !a.ronly.MatchString(a.w.CalleeName(x.Common())) {
				return false
			}
		case *ssa.FieldAddr:
			for _, rr := range *x.Referrers() {
				switch y := rr.(type) {
				case *ssa.UnOp, *ssa.DebugRef:
				case *ssa.Call:
					if !a.ronly.MatchString(a.w.CalleeName(y.Common())) {
						return false
					}
				default:
					return false
				}
			}
		default:
			return false
		}
	}
	return true
}

func (a *mergeAnalysis) sameEntry(v ssa.Value, mu *ssa.MapUpdate) bool {
	var lk *ssa.Lookup
	switch x := v.(type) {
	case *ssa.Lookup:
		if !x.CommaOk {
			lk = x
		}
	case *ssa.Extract:
		if l, ok := x.Tuple.(*ssa.Lookup); ok && l.CommaOk && x.Index == 0 {
			lk = l
		}
	}
	return lk != nil && a.sameMapKey(lk, mu)
}

func (a *mergeAnalysis) sameMapKey(lk *ssa.Lookup, mu *ssa.MapUpdate) bool {
	if _, isMap := lk.X.Type().Underlying().(*types.Map); !isMap {
		return false
	}
	if lk.X != mu.Map && a.w.RenderD(lk.X, 24) != a.w.RenderD(mu.Map, 24) {
		return false
	}
	return lk.Index == mu.Key || a.w.RenderD(a.unspill(lk.Index), 24) == a.w.RenderD(a.unspill(mu.Key), 24)
}

// guardedByAbsence: mu is reachable only over the edge on which a lookup of mu's map under mu's key found nothing
// (comma-ok false, or the entry compared equal to nil).
func (a *mergeAnalysis) guardedByAbsence(mu *ssa.MapUpdate) bool {
	for _, b := range mu.Parent().Blocks {
		if len(b.Instrs) == 0 || len(b.Succs) != 2 {
			continue
		}
		ifi, ok := b.Instrs[len(b.Instrs)-1].(*ssa.If)
		if !ok {
			continue
		}
		cond, neg := ifi.Cond, false
		for {
			u, isNot := cond.(*ssa.UnOp)
			if !isNot || u.Op != token.NOT {
				break
			}
			neg = !neg
			cond = u.X
		}
		var lk *ssa.Lookup
		absent := -1
		switch c := cond.(type) {
		case *ssa.Extract:
			if l, ok := c.Tuple.(*ssa.Lookup); ok && l.CommaOk && c.Index == 1 {
				lk, absent = l, 1
			}
		case *ssa.BinOp:
			if c.Op != token.EQL && c.Op != token.NEQ {
				break
			}
			v := c.X
			if isNilConst(c.X) {
				v = c.Y
			} else if !isNilConst(c.Y) {
				break
			}
			switch x := v.(type) {
			case *ssa.Lookup:
				if !x.CommaOk {
					lk = x
				}
			case *ssa.Extract:
				if l, ok := x.Tuple.(*ssa.Lookup); ok && l.CommaOk && x.Index == 0 {
					lk = l
				}
			}
			absent = 0
			if c.Op == token.NEQ {
				absent = 1
			}
		}
		if lk == nil || !a.sameMapKey(lk, mu) {
			continue
		}
		if neg {
			absent = 1 - absent
		}
		cut := NewCut()
		cut.Edges[EdgeKey{b, absent}] = true
		if !InstrReachable(mu, cut) {
			return true
		}
	}
	return false
}

// rmw reads mu as `cell := M[k]; cell.Op(new…); M[k] = cell` (or the mirrored `cell := new; cell.Op(M[k])`). It returns the
// operands that are not the stored entry, or a description of what is wrong.
func (a *mergeAnalysis) rmw(mu *ssa.MapUpdate) (news []ssa.Value, problem string) {
	w := a.w
	written := "`" + clip(w.RenderD(mu.Value, 5), 90) + "`"
	ld, ok := mu.Value.(*ssa.UnOp)
	if !ok || ld.Op != token.MUL {
		return nil, "the value written is " + written + ", not the stored entry with the new quantity added to it"
	}
	cell, ok := ld.X.(*ssa.Alloc)
	if !ok {
		return nil, "the value written is " + written + ", not the stored entry with the new quantity added to it"
	}
	var init *ssa.Store
	var ops []*ssa.Call
	// uses of the cell, or of the address of one of its fields (a struct-valued entry whose quantity is a field)
	var use func(addr ssa.Value, r ssa.Instruction, field bool) string
	use = func(addr ssa.Value, r ssa.Instruction, field bool) string {
		switch x := r.(type) {
		case *ssa.Store:
			if x.Addr != addr {
				return "the address of the quantity being accumulated is stored elsewhere"
			}
			if init != nil || field {
				return "the quantity written back is assigned more than once before it is written (the sum can be replaced)"
			}
			init = x
		case *ssa.UnOp, *ssa.DebugRef:
		case *ssa.FieldAddr:
			if field {
				return "the quantity written back escapes (`" + clip(w.RenderInstr(r), 80) + "`)"
			}
			for _, rr := range *x.Referrers() {
				if p := use(x, rr, true); p != "" {
					return p
				}
			}
		case *ssa.Call:
			name := w.CalleeName(x.Common())
			args := x.Common().Args
			switch {
			case !x.Common().IsInvoke() && len(args) >= 2 && args[0] == addr && a.op.MatchString(name):
				ops = append(ops, x)
			case a.ronly.MatchString(name):
			default:
				return "the quantity written back is also changed by `" + name + "`"
			}
		default:
			return "the quantity written back escapes (`" + clip(w.RenderInstr(r), 80) + "`)"
		}
		return ""
	}
	for _, r := range *cell.Referrers() {
		if p := use(cell, r, false); p != "" {
			return nil, p
		}
	}
	if init == nil {
		return nil, "the quantity written back is never initialised from the stored entry"
	}
	if len(ops) == 0 {
		return nil, "nothing is added to the quantity written back (" + written + "): the entry is overwritten, not accumulated"
	}
	if !mergeInstrDominates(init, mu) || !SameIteration(init, mu) {
		return nil, "the quantity written back is not read in the iteration that writes it"
	}
	operands := []ssa.Value{init.Val}
	for _, c := range ops {
		if !mergeInstrDominates(init, c) || !mergeInstrDominates(c, mu) {
			return nil, "the addition `" + clip(w.RenderInstr(c), 80) + "` does not happen on every path between reading and writing the entry"
		}
		operands = append(operands, c.Common().Args[1:]...)
	}
	old := 0
	for _, o := range operands {
		o = a.unspill(o)
		if a.sameEntry(o, mu) {
			old++
		} else {
			news = append(news, o)
		}
	}
	if old != 1 {
		return nil, fmt.Sprintf("the sum written to `%s` combines %d reads of that same entry (exactly one expected): it does not accumulate onto what was stored", clip(w.RenderD(mu.Map, 4), 60)+"["+clip(w.RenderD(mu.Key, 3), 30)+"]", old)
	}
	return news, ""
}

func (a *mergeAnalysis) analyse(f *ssa.Function, depth int, env map[*ssa.Parameter]string) *mergeResult {
	key := FnName(f)
	for _, p := range f.Params {
		key += "|" + env[p]
	}
	if r, ok := a.memo[key]; ok {
		return r
	}
	res := &mergeResult{}
	a.memo[key] = res
	w := a.w
	loops := mergeNaturalLoops(f)
	innermost := func(b *ssa.BasicBlock) *mergeLoop {
		var in *mergeLoop
		for i := range loops {
			if loops[i].body[b] && (in == nil || len(loops[i].body) < len(in.body)) {
				in = &loops[i]
			}
		}
		return in
	}
	sites := map[ssa.Instruction]bool{} // merge sites and calls of merging helpers
	takes := map[ssa.Instruction]bool{} // validated take-overs
	// calls of private helpers that merge
	if depth < maxSeeDepth {
		for _, b := range f.Blocks {
			for _, in := range b.Instrs {
				callee, args, ok := w.helperCallee(f, in)
				if !ok || !w.privateTo(callee, a.root) {
					continue
				}
				cenv := map[*ssa.Parameter]string{}
				for j, p := range callee.Params {
					cenv[p] = a.rootOf(args[j], env, map[ssa.Value]bool{})
				}
				if r := a.analyse(callee, depth+1, cenv); r.merge > 0 {
					sites[in] = true
					res.merge += r.merge
					res.take += r.take
				}
			}
		}
	}
	var quantityUpdates, mapUpdates []*ssa.MapUpdate
	for _, b := range f.Blocks {
		for _, in := range b.Instrs {
			mu, ok := in.(*ssa.MapUpdate)
			if !ok || !a.inScope(mu.Map, env) {
				continue
			}
			if _, isMap := mu.Map.Type().Underlying().(*types.Map); !isMap {
				continue
			}
			if a.value.MatchString(TypeStr(mu.Value.Type())) {
				quantityUpdates = append(quantityUpdates, mu)
			} else if _, isMap := mu.Value.Type().Underlying().(*types.Map); isMap {
				mapUpdates = append(mapUpdates, mu)
			}
		}
	}
	for _, mu := range quantityUpdates {
		news, problem := a.rmw(mu)
		if problem != "" {
			if a.guardedByAbsence(mu) {
				takes[mu] = true
				continue
			}
			a.bad(mu, problem)
			continue
		}
		var next *ssa.Next
		for _, n := range news {
			switch x := n.(type) {
			case *ssa.Extract: // for k, v := range new { … v … }
				if nx, ok := x.Tuple.(*ssa.Next); ok && !nx.IsString && x.Index == 2 {
					next = nx
				}
			case *ssa.Lookup: // for k := range new { … new[k] … }
				if k, ok := a.unspill(x.Index).(*ssa.Extract); ok && k.Index == 1 && !x.CommaOk {
					if nx, ok := k.Tuple.(*ssa.Next); ok && !nx.IsString {
						if r, ok := nx.Iter.(*ssa.Range); ok && (r.X == x.X || w.RenderD(r.X, 24) == w.RenderD(x.X, 24)) {
							next = nx
						}
					}
				}
			}
		}
		if next == nil {
			continue // a plain accumulation (a computed delta), not the merge of a map
		}
		if k, ok := a.unspill(mu.Key).(*ssa.Extract); !ok || k.Tuple != ssa.Value(next) || k.Index != 1 {
			a.bad(mu, "the entry added to (`"+clip(w.RenderD(mu.Key, 4), 60)+"`) is not the entry under the key of the quantity added (`"+clip(w.RenderD(next, 4), 60)+"#1`)")
			continue
		}
		if l := innermost(mu.Block()); l == nil || l.header != next.Block() {
			a.bad(mu, "the update does not run once per element of the map whose quantities it adds")
			continue
		}
		sites[mu] = true
		res.merge++
	}
	for _, mu := range mapUpdates {
		if c, ok := a.unspill(mu.Value).(*ssa.Call); ok && sites[c] {
			continue // M[k] = mergeInto(M[k], new)
		}
		if a.guardedByAbsence(mu) {
			takes[mu] = true
			res.take++
			continue
		}
		a.bad(mu, "`"+clip(w.RenderInstr(mu), 110)+"` replaces a whole entry although one may already be stored under that key: what earlier commits recorded there is dropped")
	}
	if len(sites) == 0 {
		return res
	}
	// (4) loops around the merge sites
	var around []*mergeLoop
	seenL := map[*ssa.BasicBlock]bool{}
	for s := range sites {
		for i := range loops {
			if loops[i].body[s.Block()] && !seenL[loops[i].header] {
				seenL[loops[i].header] = true
				around = append(around, &loops[i])
			}
		}
	}
	sort.Slice(around, func(i, j int) bool { return around[i].header.Index < around[j].header.Index })
	term := func(b *ssa.BasicBlock) ssa.Instruction { return b.Instrs[len(b.Instrs)-1] }
	// leaving a loop elsewhere than at its head counts when the program goes on from there (a fail-stop does not)
	goesOn := func(s *ssa.BasicBlock) bool {
		for b := range Reach([]*ssa.BasicBlock{s}, nil) {
			if _, isRet := term(b).(*ssa.Return); isRet || len(b.Succs) > 0 && seenL[b] {
				return true
			}
		}
		return false
	}
	for _, l := range around {
		for b := range l.body {
			if b == l.header {
				continue
			}
			for _, s := range b.Succs {
				if !l.body[s] && goesOn(s) {
					a.bad(term(b), "the loop over `"+clip(a.rangeText(l.header), 70)+"` that merges the new entries can be left before its end: the remaining entries are not merged")
				}
			}
		}
		cut := NewCut()
		for s := range sites {
			cut.Instrs[s] = true
		}
		for t := range takes {
			cut.Instrs[t] = true
		}
		for _, o := range around {
			if o != l {
				cut.Instrs[term(o.header)] = true
			}
		}
		var starts []*ssa.BasicBlock
		for _, s := range l.header.Succs {
			if l.body[s] && s != l.header {
				starts = append(starts, s)
			}
		}
		reach := Reach(starts, cut)
		for b := range reach {
			if b == l.header || blockHasCutInstr(b, cut, nil) {
				continue
			}
			for i, s := range b.Succs {
				if s == l.header && !cut.Edges[EdgeKey{b, i}] {
					a.bad(term(b), "an iteration of the loop over `"+clip(a.rangeText(l.header), 70)+"` can end without adding the new entry to the stored one, taking it over because none was stored, or descending into it")
				}
			}
		}
	}
	// the function returns only past the loops, or where the ranged map is empty
	cut := NewCut()
	for s := range sites {
		cut.Instrs[s] = true
	}
	for _, l := range around {
		cut.Instrs[term(l.header)] = true
	}
	for _, b := range f.Blocks {
		if len(b.Instrs) == 0 || len(b.Succs) != 2 {
			continue
		}
		ifi, ok := b.Instrs[len(b.Instrs)-1].(*ssa.If)
		if !ok {
			continue
		}
		t := w.NormLit(ifi.Cond, true)
		arg := mergeLenOperand(ifi.Cond)
		if arg == nil || !strings.HasPrefix(t.Expr, "len(") || !strings.HasSuffix(t.Expr, ")>=1") {
			continue
		}
		// the maps whose entries are merged: what the loops range over, and what is handed to a merging helper
		var merged []ssa.Value
		for _, l := range around {
			if x := a.rangeOperand(l.header); x != nil {
				merged = append(merged, x)
			}
		}
		for s := range sites {
			if c, ok := s.(*ssa.Call); ok {
				for _, x := range c.Common().Args {
					if _, isMap := x.Type().Underlying().(*types.Map); isMap {
						merged = append(merged, x)
					}
				}
			}
		}
		for _, x := range merged {
			if x == arg || w.RenderD(x, 24) == w.RenderD(arg, 24) {
				e := 1 // the edge on which the map is empty
				if !t.Pol {
					e = 0
				}
				cut.Edges[EdgeKey{b, e}] = true
			}
		}
	}
	for _, b := range f.Blocks {
		if len(b.Instrs) == 0 {
			continue
		}
		if ret, ok := term(b).(*ssa.Return); ok && InstrReachable(ret, cut) {
			a.bad(ret, FnName(f)+" can return without running the loop that merges the new entries")
		}
	}
	return res
}

// mergeLenOperand: cond compares len(x) with a constant (possibly negated); returns x.
func mergeLenOperand(cond ssa.Value) ssa.Value {
	for {
		u, isNot := cond.(*ssa.UnOp)
		if !isNot || u.Op != token.NOT {
			break
		}
		cond = u.X
	}
	bo, ok := cond.(*ssa.BinOp)
	if !ok {
		return nil
	}
	for _, v := range []ssa.Value{bo.X, bo.Y} {
		if !isLenCall(v) {
			continue
		}
		if cv, ok := v.(*ssa.Convert); ok {
			v = cv.X
		}
		if args := v.(*ssa.Call).Call.Args; len(args) == 1 {
			return args[0]
		}
	}
	return nil
}

func (a *mergeAnalysis) rangeOperand(header *ssa.BasicBlock) ssa.Value {
	for _, in := range header.Instrs {
		if nx, ok := in.(*ssa.Next); ok {
			if r, ok := nx.Iter.(*ssa.Range); ok {
				return r.X
			}
		}
	}
	return nil
}

func (a *mergeAnalysis) rangeText(header *ssa.BasicBlock) string {
	if x := a.rangeOperand(header); x != nil {
		return a.w.RenderD(x, 5)
	}
	return "block " + fmt.Sprint(header.Index)
}
