// Package core holds the analysis engine: loading /repo from its working tree,
// building SSA, canonical rendering of values, literal normalisation, cut-set
// reachability on the CFG and the generic rule kinds.
package core

import (
	"encoding/json"
	"path/filepath"
	"sync"
	"fmt"
	"go/token"
	"go/types"
	"os"
	"regexp"
	"sort"
	"strings"
	"time"

	"golang.org/x/tools/go/packages"
	"golang.org/x/tools/go/ssa"
	"golang.org/x/tools/go/ssa/ssautil"
)

const ModPath = "sigs.k8s.io/karpenter/"

// World is the resolved program all rules query.
type World struct {
	RepoDir   string
	Fset      *token.FileSet
	Pkgs      []*packages.Package // all karpenter packages loaded (roots)
	PkgByPath map[string]*packages.Package
	Prog      *ssa.Program
	SSAPkg    map[string]*ssa.Package

	// karpenter-rooted functions (named, methods, closures, instantiations whose origin is karpenter)
	Fns    []*ssa.Function
	ByName map[string][]*ssa.Function // short name -> functions
	// closure creation sites
	ClosureSite map[*ssa.Function]*ssa.MakeClosure

	LoadSeconds float64
	NumPkgs     int
	NumFns      int

	cg *CallGraph

	// see-through-helper state (reach.go): a stack of parameter substitutions used while a callee is examined in the
	// caller's terms, and the current inlining depth
	subst    []map[*ssa.Parameter]string
	seeDepth int
	// inlineTrivial: render a call to a trivial unexported helper (one block, `return <expr>`) as that expression
	inlineTrivial bool
	inlineDepth   int
	paramWrites map[*ssa.Function]map[int]bool
}

// Short strips well-known import path prefixes so that tables stay readable.
func Short(s string) string {
	s = strings.ReplaceAll(s, "sigs.k8s.io/karpenter/pkg/", "")
	// short aliases for the heavily used packages (longest first)
	s = strings.ReplaceAll(s, "controllers/provisioning/scheduling.", "sched.")
	s = strings.ReplaceAll(s, "controllers/provisioning.", "prov.")
	s = strings.ReplaceAll(s, "controllers/nodeclaim/lifecycle.", "life.")
	s = strings.ReplaceAll(s, "controllers/node/termination/terminator.", "tor.")
	s = strings.ReplaceAll(s, "controllers/node/termination.", "term.")
	s = strings.ReplaceAll(s, "controllers/disruption.", "disr.")
	s = strings.ReplaceAll(s, "controllers/state.", "state.")
	s = strings.ReplaceAll(s, "sigs.k8s.io/karpenter/", "")
	s = strings.ReplaceAll(s, "sigs.k8s.io/controller-runtime/pkg/", "cr/")
	s = strings.ReplaceAll(s, "k8s.io/api/core/v1", "corev1")
	s = strings.ReplaceAll(s, "k8s.io/apimachinery/pkg/apis/meta/v1", "metav1")
	s = strings.ReplaceAll(s, "k8s.io/apimachinery/pkg/", "apim/")
	s = strings.ReplaceAll(s, "github.com/samber/lo", "lo")
	s = strings.ReplaceAll(s, "github.com/awslabs/operatorpkg/", "opkg/")
	return s
}

// Load type-checks ./pkg/... and ./kwok/... of the repository working tree and builds SSA.
func Load(repo string, overlay map[string][]byte) (*World, error) {
	t0 := time.Now()
	os.Unsetenv("GOWORK")
	if overlay == nil {
		var oerr error
		if overlay, oerr = envOverlay(repo); oerr != nil {
			return nil, oerr
		}
	}
	mode := packages.LoadAllSyntax
	fast := os.Getenv("KVERIF_FASTLOAD") != ""
	if fast {
		// self-test sweeps only: dependencies from export data (types, no bodies). Never used by a registered check.
		mode = packages.LoadSyntax
	}
	cfg := &packages.Config{
		Mode:    mode,
		Dir:     repo,
		Tests:   false,
		Overlay: overlay,
		Env:     append(os.Environ(), "GOWORK=off", "GOFLAGS=-mod=mod", "GOPROXY=off", "GOSUMDB=off", "GOTOOLCHAIN=local"),
	}
	var pkgs []*packages.Package
	var errs []string
	for attempt := 0; attempt < 2; attempt++ {
		var err error
		pkgs, err = packages.Load(cfg, "./pkg/...", "./kwok/...")
		if err != nil {
			return nil, fmt.Errorf("packages.Load: %w", err)
		}
		if len(pkgs) == 0 {
			return nil, fmt.Errorf("no packages loaded from %s", repo)
		}
		errs = nil
		packages.Visit(pkgs, nil, func(p *packages.Package) {
			for _, e := range p.Errors {
				errs = append(errs, e.Error())
			}
		})
		// a trimmed Go build cache (entries of cgo-processed std packages evicted while their index survived) makes the
		// first `go list -compiled` fail and repairs itself doing so: this is not a fact about the repository, so load once more
		stale := false
		for _, e := range errs {
			if strings.Contains(e, "cache entry not found") || strings.Contains(e, "loading compiled Go files from cache") {
				stale = true
			}
		}
		if !stale {
			break
		}
	}
	if len(errs) > 0 {
		sort.Strings(errs)
		if len(errs) > 10 {
			errs = errs[:10]
		}
		return nil, fmt.Errorf("type/load errors (%d): %s", len(errs), strings.Join(errs, "; "))
	}
	w := &World{RepoDir: repo, Pkgs: pkgs, PkgByPath: map[string]*packages.Package{}, SSAPkg: map[string]*ssa.Package{},
		ByName: map[string][]*ssa.Function{}, ClosureSite: map[*ssa.Function]*ssa.MakeClosure{}}
	for _, p := range pkgs {
		w.PkgByPath[p.PkgPath] = p
	}
	w.Fset = pkgs[0].Fset
	var prog *ssa.Program
	var spkgs []*ssa.Package
	if fast {
		prog, spkgs = ssautil.Packages(pkgs, ssa.InstantiateGenerics)
	} else {
		prog, spkgs = ssautil.AllPackages(pkgs, ssa.InstantiateGenerics)
	}
	w.Prog = prog
	for i, sp := range spkgs {
		if sp == nil {
			return nil, fmt.Errorf("no SSA package for %s", pkgs[i].PkgPath)
		}
	}
	prog.Build()
	for _, sp := range prog.AllPackages() {
		w.SSAPkg[sp.Pkg.Path()] = sp
	}
	for fn := range ssautil.AllFunctions(prog) {
		if !IsKarpenterFn(fn) {
			continue
		}
		w.Fns = append(w.Fns, fn)
	}
	sort.Slice(w.Fns, func(i, j int) bool {
		if a, b := w.Fns[i].String(), w.Fns[j].String(); a != b {
			return a < b
		}
		return w.Fns[i].Pos() < w.Fns[j].Pos()
	})
	for _, fn := range w.Fns {
		n := FnName(fn)
		w.ByName[n] = append(w.ByName[n], fn)
		for _, b := range fn.Blocks {
			for _, in := range b.Instrs {
				if mc, ok := in.(*ssa.MakeClosure); ok {
					if f, ok := mc.Fn.(*ssa.Function); ok {
						w.ClosureSite[f] = mc
					}
				}
			}
		}
	}
	w.NumPkgs = len(pkgs)
	w.NumFns = len(w.Fns)
	w.LoadSeconds = time.Since(t0).Seconds()
	return w, nil
}

// envOverlay reads KVERIF_OVERLAY: a JSON object {"<path relative to the repository>": "<file holding the replacement text>"}.
// It lets the self-test analyse a single-site variant of the working tree without copying the tree (selftest/sweep.py).
func envOverlay(repo string) (map[string][]byte, error) {
	p := os.Getenv("KVERIF_OVERLAY")
	if p == "" {
		return nil, nil
	}
	b, err := os.ReadFile(p)
	if err != nil {
		return nil, fmt.Errorf("overlay: %w", err)
	}
	m := map[string]string{}
	if err := json.Unmarshal(b, &m); err != nil {
		return nil, fmt.Errorf("overlay: %w", err)
	}
	out := map[string][]byte{}
	for rel, src := range m {
		c, err := os.ReadFile(src)
		if err != nil {
			return nil, fmt.Errorf("overlay: %w", err)
		}
		out[filepath.Join(repo, rel)] = c
	}
	return out, nil
}

// RootFn returns the outermost enclosing named function of fn.
func RootFn(fn *ssa.Function) *ssa.Function {
	for fn.Parent() != nil {
		fn = fn.Parent()
	}
	return fn
}

func fnPkgPath(fn *ssa.Function) string {
	fn = RootFn(fn)
	if fn.Pkg != nil {
		return fn.Pkg.Pkg.Path()
	}
	if o := fn.Origin(); o != nil && o.Pkg != nil {
		return o.Pkg.Pkg.Path()
	}
	if fn.Object() != nil && fn.Object().Pkg() != nil {
		return fn.Object().Pkg().Path()
	}
	return ""
}

// IsKarpenterFn reports whether fn (or its generic origin / enclosing function) is declared in the karpenter module.
func IsKarpenterFn(fn *ssa.Function) bool {
	return strings.HasPrefix(fnPkgPath(fn), ModPath)
}

// FnPkg returns the short package path of the function's declaring package.
func FnPkg(fn *ssa.Function) string { return Short(fnPkgPath(fn)) }

// FnName is the short, stable name used in tables: e.g. "(*controllers/provisioning.Provisioner).Create", closures "…$1".
// FnName is the canonical short name of a function. An unexported plain function whose first parameter (after an optional
// context) is a struct, slice or map type declared in its own package — or a pointer to one — is named like the method it could equally be
// ("(*pkg.T).name"): turning an unexported helper method into a function taking the receiver as an argument (or back)
// is not a change of the program, and every table row quotes this name. Parameter numbering follows (PseudoRecv).
func FnName(fn *ssa.Function) string {
	if n, ok := fnNameCache.Load(fn); ok {
		return n.(string)
	}
	n := fnName(fn)
	fnNameCache.Store(fn, n)
	return n
}

var fnNameCache sync.Map

func fnName(fn *ssa.Function) string {
	if p := fn.Parent(); p != nil && strings.HasPrefix(fn.Name(), p.Name()) {
		return FnName(p) + fn.Name()[len(p.Name()):]
	}
	if i, ok := PseudoRecv(fn); ok {
		t := fn.Params[i].Type()
		return Short("(" + t.String() + ")." + fn.Name())
	}
	return Short(fn.String())
}

var pseudoRecvCache sync.Map

// PseudoRecv: the index of the parameter that plays the receiver in an unexported plain function (see FnName).
func PseudoRecv(fn *ssa.Function) (int, bool) {
	if v, ok := pseudoRecvCache.Load(fn); ok {
		i := v.(int)
		return i, i >= 0
	}
	i := pseudoRecv(fn)
	pseudoRecvCache.Store(fn, i)
	return i, i >= 0
}

func pseudoRecv(fn *ssa.Function) int {
	if fn == nil || fn.Signature == nil || fn.Signature.Recv() != nil || fn.Parent() != nil || fn.Pkg == nil || fn.Synthetic != "" ||
		len(fn.TypeArgs()) > 0 || fn.Signature.TypeParams().Len() > 0 || len(fn.Params) == 0 || len(fn.Blocks) == 0 {
		return -1
	}
	obj := fn.Object()
	if obj == nil || obj.Exported() || !IsKarpenterFn(fn) || fn.Name() == "init" || strings.HasPrefix(fn.Name(), "init#") {
		return -1
	}
	i := 0
	if isContext(fn.Params[0].Type()) {
		if len(fn.Params) < 2 {
			return -1
		}
		i = 1
	}
	t := fn.Params[i].Type()
	if p, ok := t.(*types.Pointer); ok {
		t = p.Elem()
	}
	named, ok := t.(*types.Named)
	if !ok || named.Obj().Pkg() == nil || named.Obj().Pkg() != fn.Pkg.Pkg || named.TypeArgs().Len() > 0 {
		return -1
	}
	switch named.Underlying().(type) {
	case *types.Struct, *types.Slice, *types.Map:
	default:
		return -1
	}
	// a real method of that name exists: keep both apart
	if ms := types.NewMethodSet(types.NewPointer(named)); ms.Lookup(fn.Pkg.Pkg, fn.Name()) != nil {
		return -1
	}
	return i
}

// IsTestSupport reports packages excluded from inventories (fakes, test helpers, kwok provider).
func IsTestSupport(fn *ssa.Function) bool {
	p := fnPkgPath(fn)
	return strings.Contains(p, "/pkg/test") || strings.Contains(p, "/fake") || strings.HasPrefix(p, ModPath+"kwok") ||
		strings.Contains(p, "/test/") || strings.HasSuffix(p, "/test")
}

// Fn resolves exactly one function by short name; nil if absent or ambiguous.
func (w *World) Fn(name string) *ssa.Function {
	if strings.HasPrefix(name, "@arg:") {
		return w.closureArg(name)
	}
	l := w.ByName[name]
	if len(l) == 1 {
		return l[0]
	}
	if len(l) > 1 {
		// prefer the non-synthetic one
		var real []*ssa.Function
		for _, f := range l {
			if f.Synthetic == "" {
				real = append(real, f)
			}
		}
		if len(real) == 1 {
			return real[0]
		}
	}
	return nil
}

// WithClosures returns fn followed by all its (transitively) nested anonymous functions.
func WithClosures(fn *ssa.Function) []*ssa.Function {
	out := []*ssa.Function{fn}
	for _, a := range fn.AnonFuncs {
		out = append(out, WithClosures(a)...)
	}
	return out
}

// Pos renders a position relative to the repository.
func (w *World) Pos(p token.Pos) string {
	if !p.IsValid() {
		return "?"
	}
	pos := w.Fset.Position(p)
	return strings.TrimPrefix(pos.Filename, w.RepoDir+"/") + ":" + fmt.Sprint(pos.Line)
}

// InstrPos finds a usable position for an instruction (some have NoPos).
func (w *World) InstrPos(in ssa.Instruction) string {
	if in == nil {
		return "?"
	}
	if in.Pos().IsValid() {
		return w.Pos(in.Pos())
	}
	// fall back: nearest instruction with a position in the same block, else the function
	if b := in.Block(); b != nil {
		for _, x := range b.Instrs {
			if x.Pos().IsValid() {
				return w.Pos(x.Pos()) + "~"
			}
		}
		return w.Pos(b.Parent().Pos()) + "~"
	}
	return "?"
}

// NamedOf unwraps pointers/aliases down to a named type.
func NamedOf(t types.Type) *types.Named {
	for {
		switch x := t.(type) {
		case *types.Pointer:
			t = x.Elem()
			continue
		case *types.Named:
			return x
		case *types.Alias:
			t = types.Unalias(x)
			continue
		}
		return nil
	}
}

// TypeStr is the short rendering of a type.
func TypeStr(t types.Type) string { return Short(types.TypeString(t, nil)) }

// closureArg resolves the locator "@arg:<function>|<call regexp>|<arg index>" to the function literal
// (or named function) passed as that argument — so that rows can follow `lo.Filter(xs, func…)` predicates
// without depending on the numbering of anonymous functions.
func (w *World) closureArg(loc string) *ssa.Function {
	parts := strings.SplitN(strings.TrimPrefix(loc, "@arg:"), "|", 3)
	if len(parts) != 3 {
		return nil
	}
	fn := w.Fn(parts[0])
	if fn == nil {
		return nil
	}
	re, err := regexp.Compile(parts[1])
	if err != nil {
		return nil
	}
	idx := 0
	fmt.Sscanf(parts[2], "%d", &idx)
	var found *ssa.Function
	n := 0
	for _, s := range w.Sites(fn, re, true) {
		ci, ok := s.(ssa.CallInstruction)
		if !ok {
			continue
		}
		args := CallArgs(ci.Common())
		if idx >= len(args) {
			continue
		}
		switch x := args[idx].(type) {
		case *ssa.MakeClosure:
			if f, ok := x.Fn.(*ssa.Function); ok {
				found = f
				n++
			}
		case *ssa.Function:
			found = x
			n++
		}
	}
	if n != 1 {
		return nil
	}
	return found
}
