package core

import (
	"regexp"
	"sort"
	"strings"

	"golang.org/x/tools/go/ssa"
)

type EdgeKey struct {
	From *ssa.BasicBlock
	Succ int
}

// Cut is a set of CFG edges and instructions removed from a function's flow graph.
type Cut struct {
	Edges  map[EdgeKey]bool
	Instrs map[ssa.Instruction]bool
	// bookkeeping for evidence / explain
	EdgeLits []string
}

func newCut() *Cut { return &Cut{Edges: map[EdgeKey]bool{}, Instrs: map[ssa.Instruction]bool{}} }

// BlockLits returns the literals holding on the true/false successor edges of a block ending in If.
func (w *World) BlockLits(b *ssa.BasicBlock) (t, f Lit, ok bool) {
	if len(b.Instrs) == 0 {
		return
	}
	ifi, isIf := b.Instrs[len(b.Instrs)-1].(*ssa.If)
	if !isIf || len(b.Succs) != 2 || b.Succs[0] == b.Succs[1] {
		return
	}
	return w.NormLit(ifi.Cond, true), w.NormLit(ifi.Cond, false), true
}

// GateCut computes the cut set of a gate inside one function.
func (w *World) GateCut(fn *ssa.Function, g Gate) *Cut {
	c := newCut()
	for _, b := range fn.Blocks {
		if len(g.Instrs) > 0 {
			for _, in := range b.Instrs {
				if _, isIf := in.(*ssa.If); isIf {
					continue
				}
				if !interestingInstr(in) {
					continue
				}
				s := w.RenderInstr(in)
				for _, re := range g.Instrs {
					if re.MatchString(s) {
						c.Instrs[in] = true
					}
				}
			}
		}
		t, f, ok := w.BlockLits(b)
		if !ok {
			continue
		}
		for _, p := range g.Lits {
			if p.Match(t) {
				c.Edges[EdgeKey{b, 0}] = true
				c.EdgeLits = append(c.EdgeLits, t.String()+" @"+w.InstrPos(b.Instrs[len(b.Instrs)-1]))
			}
			if p.Match(f) {
				c.Edges[EdgeKey{b, 1}] = true
				c.EdgeLits = append(c.EdgeLits, f.String()+" @"+w.InstrPos(b.Instrs[len(b.Instrs)-1]))
			}
		}
	}
	return c
}

// interestingInstr filters instructions that can be sites (effects), to keep rendering cheap.
func interestingInstr(in ssa.Instruction) bool {
	switch in.(type) {
	case *ssa.Call, *ssa.Go, *ssa.Defer, *ssa.Store, *ssa.MapUpdate, *ssa.Return, *ssa.Panic, *ssa.Send, *ssa.MakeClosure:
		return true
	}
	return false
}

func blockHasCutInstr(b *ssa.BasicBlock, c *Cut, before ssa.Instruction) bool {
	if len(c.Instrs) == 0 {
		return false
	}
	for _, in := range b.Instrs {
		if in == before {
			return false
		}
		if c.Instrs[in] {
			return true
		}
	}
	return false
}

// Reach computes blocks whose entry is reachable from the given start blocks without crossing the cut.
func Reach(starts []*ssa.BasicBlock, c *Cut) map[*ssa.BasicBlock]bool {
	seen := map[*ssa.BasicBlock]bool{}
	var stack []*ssa.BasicBlock
	for _, s := range starts {
		if !seen[s] {
			seen[s] = true
			stack = append(stack, s)
		}
	}
	for len(stack) > 0 {
		b := stack[len(stack)-1]
		stack = stack[:len(stack)-1]
		if c != nil && blockHasCutInstr(b, c, nil) {
			continue
		}
		for i, s := range b.Succs {
			if c != nil && c.Edges[EdgeKey{b, i}] {
				continue
			}
			if !seen[s] {
				seen[s] = true
				stack = append(stack, s)
			}
		}
	}
	return seen
}

// InstrReachable: is instruction `in` reachable from the function entry without crossing the cut?
func InstrReachable(in ssa.Instruction, c *Cut) bool {
	fn := in.Parent()
	if len(fn.Blocks) == 0 {
		return false
	}
	r := Reach([]*ssa.BasicBlock{fn.Blocks[0]}, c)
	b := in.Block()
	if !r[b] {
		return false
	}
	return !blockHasCutInstr(b, c, in)
}

// EdgeReachable: can control flow from entry traverse the edge pred->b without crossing the cut?
func EdgeReachable(pred, b *ssa.BasicBlock, c *Cut) bool {
	fn := pred.Parent()
	r := Reach([]*ssa.BasicBlock{fn.Blocks[0]}, c)
	if !r[pred] || blockHasCutInstr(pred, c, nil) {
		return false
	}
	for i, s := range pred.Succs {
		if s == b && !c.Edges[EdgeKey{pred, i}] {
			return true
		}
	}
	return false
}

// GuardedBy decides whether `in` (possibly inside a closure) is guarded by gate g:
// unreachable from its function's entry once the gate's cut is removed, or — for a closure —
// the closure's creation site is guarded in the enclosing function (recursively).
func (w *World) GuardedBy(in ssa.Instruction, g Gate) bool {
	fn := in.Parent()
	c := w.GateCut(fn, g)
	if !InstrReachable(in, c) {
		return true
	}
	if mc := w.ClosureSite[fn]; mc != nil {
		return w.GuardedBy(mc, g)
	}
	return false
}

// DominatingLits lists the literals that edge-dominate an instruction (for explain / evidence).
func (w *World) DominatingLits(in ssa.Instruction) []string {
	var out []string
	b := in.Block()
	fn := in.Parent()
	for b != nil {
		d := b.Idom()
		if d == nil {
			break
		}
		if t, f, ok := w.BlockLits(d); ok && len(b.Preds) == 1 && b.Preds[0] == d {
			if d.Succs[0] == b {
				out = append(out, t.String())
			} else {
				out = append(out, f.String())
			}
		}
		b = d
	}
	if mc := w.ClosureSite[fn]; mc != nil {
		out = append(out, "⟂closure-site")
		out = append(out, w.DominatingLits(mc)...)
	}
	return out
}

// Sites finds the instructions in fn (and nested closures when deep) whose rendering matches re.
func (w *World) Sites(fn *ssa.Function, re *regexp.Regexp, deep bool) []ssa.Instruction {
	var out []ssa.Instruction
	fns := []*ssa.Function{fn}
	if deep {
		fns = WithClosures(fn)
	}
	for _, f := range fns {
		for _, b := range f.Blocks {
			for _, in := range b.Instrs {
				if !interestingInstr(in) {
					continue
				}
				if re.MatchString(w.RenderInstr(in)) {
					out = append(out, in)
				}
			}
		}
	}
	return out
}

// ReachConsistent is Reach with a path-sensitive refinement: for If conditions whose canonical expression
// matches one of `stable` (audited: pure expressions over SSA registers, e.g. a call result tested twice),
// a path may not take the + edge at one test and the − edge at another. Returns whether `target`
// (instruction, or block entry when in == nil) is reachable from the function entry.
func (w *World) ReachConsistent(fn *ssa.Function, c *Cut, stable []*regexp.Regexp, target ssa.Instruction) bool {
	if len(fn.Blocks) == 0 {
		return false
	}
	type state struct {
		b   *ssa.BasicBlock
		key string
	}
	type item struct {
		b      *ssa.BasicBlock
		assign map[string]bool
	}
	keyOf := func(m map[string]bool) string {
		ks := make([]string, 0, len(m))
		for k, v := range m {
			if v {
				ks = append(ks, "+"+k)
			} else {
				ks = append(ks, "-"+k)
			}
		}
		sort.Strings(ks)
		return strings.Join(ks, ";")
	}
	seen := map[state]bool{}
	stack := []item{{fn.Blocks[0], map[string]bool{}}}
	tb := target.Block()
	for len(stack) > 0 {
		it := stack[len(stack)-1]
		stack = stack[:len(stack)-1]
		st := state{it.b, keyOf(it.assign)}
		if seen[st] {
			continue
		}
		seen[st] = true
		if it.b == tb && !blockHasCutInstr(it.b, c, target) {
			return true
		}
		if blockHasCutInstr(it.b, c, nil) {
			continue
		}
		t, f, isIf := w.BlockLits(it.b)
		for i, s := range it.b.Succs {
			if c.Edges[EdgeKey{it.b, i}] {
				continue
			}
			na := it.assign
			if isIf {
				l := t
				if i == 1 {
					l = f
				}
				if matchAnyStr(l.Expr, stable) {
					if v, ok := it.assign[l.Expr]; ok && v != l.Pol {
						continue // infeasible: contradicts an earlier test of the same stable expression
					}
					na = map[string]bool{}
					for k, v := range it.assign {
						na[k] = v
					}
					na[l.Expr] = l.Pol
				}
			}
			stack = append(stack, item{s, na})
		}
	}
	return false
}

// GuardedByConsistent is GuardedBy with the path-sensitive refinement of ReachConsistent.
func (w *World) GuardedByConsistent(in ssa.Instruction, g Gate, stable []*regexp.Regexp) bool {
	if len(stable) == 0 {
		return w.GuardedBy(in, g)
	}
	fn := in.Parent()
	c := w.GateCut(fn, g)
	if !w.ReachConsistent(fn, c, stable, in) {
		return true
	}
	if mc := w.ClosureSite[fn]; mc != nil {
		return w.GuardedByConsistent(mc, g, stable)
	}
	return false
}
