package core

import (
	"fmt"
	"go/token"
	"os"
	"go/types"
	"regexp"
	"sort"
	"strings"

	"golang.org/x/tools/go/ssa"
)

type EdgeKey struct {
	From *ssa.BasicBlock
	Succ int
}

// Cut is a set of CFG edges and instructions removed from a function's flow graph.
type Cut struct {
	Edges  map[EdgeKey]bool
	Instrs map[ssa.Instruction]bool
	// Via: for a boolean join block (see boolJoin) the edge J→Succ is cut only for flow that entered J from predecessor #Pred
	Via map[ViaKey]bool
	// bookkeeping for evidence / explain
	EdgeLits []string
}

type ViaKey struct {
	J    *ssa.BasicBlock
	Pred int
	Succ int
}

// NewCut returns an empty cut for rules that select edges by SSA identity rather than by rendering.
func NewCut() *Cut { return newCut() }

func newCut() *Cut {
	return &Cut{Edges: map[EdgeKey]bool{}, Instrs: map[ssa.Instruction]bool{}, Via: map[ViaKey]bool{}}
}

// boolJoin recognises the block the SSA builder produces for a materialised boolean (`x := a || b; if x {…}`, or a bool
// temporary): only phis followed by an If on one of them. Such a block is read per predecessor: a constant operand decides
// the branch, any other operand is the condition tested on that path. This makes `if a || b` and `x := a || b; if x`
// the same flow graph.
func boolJoin(b *ssa.BasicBlock) *ssa.Phi {
	n := len(b.Instrs)
	if n < 2 || len(b.Succs) != 2 || len(b.Preds) < 2 {
		return nil
	}
	ifi, ok := b.Instrs[n-1].(*ssa.If)
	if !ok {
		return nil
	}
	phi, ok := ifi.Cond.(*ssa.Phi)
	var cmp *ssa.BinOp
	if !ok {
		// value join: `v := a; if c { v = b }; if v != nil {…}` — the phi is compared with nil
		cmp, phi = nilCompareOfPhi(ifi.Cond)
		if phi == nil {
			return nil
		}
	}
	if phi.Block() != b {
		return nil
	}
	for _, in := range b.Instrs[:n-1] {
		if _, isPhi := in.(*ssa.Phi); !isPhi && in != ssa.Instruction(cmp) {
			return nil
		}
	}
	if cmp != nil && cmp.Block() != b {
		return nil
	}
	for _, p := range b.Preds {
		if p.Index >= b.Index && p != b {
			// a back edge: loop-carried flag, not a materialised condition
			for _, e := range phi.Edges {
				if e == ssa.Value(phi) {
					return nil
				}
			}
		}
	}
	for _, e := range phi.Edges {
		if q, isPhi := e.(*ssa.Phi); isPhi && q == phi {
			return nil
		}
	}
	return phi
}

// nilCompareOfPhi: cond is `phi == nil` or `phi != nil`.
func nilCompareOfPhi(cond ssa.Value) (*ssa.BinOp, *ssa.Phi) {
	bo, ok := cond.(*ssa.BinOp)
	if !ok || (bo.Op != token.EQL && bo.Op != token.NEQ) {
		return nil, nil
	}
	x, y := bo.X, bo.Y
	if k, isC := x.(*ssa.Const); isC && k.IsNil() {
		x, y = y, x
	}
	k, isC := y.(*ssa.Const)
	if !isC || !k.IsNil() {
		return nil, nil
	}
	phi, ok := x.(*ssa.Phi)
	if !ok {
		return nil, nil
	}
	return bo, phi
}

// joinOperand reads a join block for flow entering from predecessor #k: either the branch is decided (truth 1: true
// edge only, 0: false edge only) or the literals holding on the true / false edge are returned (truth -1).
func (w *World) joinOperand(b *ssa.BasicBlock, phi *ssa.Phi, k int) (truth int, lt, lf Lit) {
	ifi := b.Instrs[len(b.Instrs)-1].(*ssa.If)
	e := phi.Edges[k]
	if ifi.Cond == ssa.Value(phi) {
		if v, isBool := boolConst(e); isBool {
			if v {
				return 1, lt, lf
			}
			return 0, lt, lf
		}
		if w == nil {
			return -1, lt, lf
		}
		return -1, w.NormLit(e, true), w.NormLit(e, false)
	}
	cmp, _ := nilCompareOfPhi(ifi.Cond)
	eq := cmp.Op == token.EQL
	if c, isC := e.(*ssa.Const); isC && c.IsNil() {
		if eq {
			return 1, lt, lf
		}
		return 0, lt, lf
	}
	if w == nil {
		return -1, lt, lf
	}
	expr := w.Render(e) + " == nil"
	return -1, Lit{eq, expr}, Lit{!eq, expr}
}

func predIndex(b, pred *ssa.BasicBlock) int {
	for i, p := range b.Preds {
		if p == pred {
			return i
		}
	}
	return -1
}

// joinSuccs lists the successor indices of boolean join j that flow entering from pred can take under cut c.
func joinSuccs(j *ssa.BasicBlock, phi *ssa.Phi, pred *ssa.BasicBlock, c *Cut) []int {
	k := predIndex(j, pred)
	var out []int
	for i := 0; i < 2; i++ {
		if c != nil && c.Edges[EdgeKey{j, i}] {
			continue
		}
		if k >= 0 {
			if truth, _, _ := (*World)(nil).joinOperand(j, phi, k); truth >= 0 && (truth == 1) != (i == 0) {
				continue
			}
			if c != nil && c.Via[ViaKey{j, k, i}] {
				continue
			}
		}
		out = append(out, i)
	}
	return out
}


// BlockLits returns the literals holding on the true/false successor edges of a block ending in If.
func (w *World) BlockLits(b *ssa.BasicBlock) (t, f Lit, ok bool) {
	if len(b.Instrs) == 0 {
		return
	}
	ifi, isIf := b.Instrs[len(b.Instrs)-1].(*ssa.If)
	if !isIf || len(b.Succs) != 2 || b.Succs[0] == b.Succs[1] {
		return
	}
	return w.NormLit(ifi.Cond, true), w.NormLit(ifi.Cond, false), true
}

// GateCut computes the cut set of a gate inside one function.
func (w *World) GateCut(fn *ssa.Function, g Gate) *Cut {
	c := newCut()
	for _, b := range fn.Blocks {
		if len(g.Instrs) > 0 {
			for _, in := range b.Instrs {
				if _, isIf := in.(*ssa.If); isIf {
					continue
				}
				if !interestingInstr(in) {
					continue
				}
				s := w.RenderInstr(in)
				for _, re := range g.Instrs {
					if MatchRe(re, s) {
						c.Instrs[in] = true
					}
				}
				if !c.Instrs[in] && w.calleeContains(fn, in, g.Instrs, true) {
					c.Instrs[in] = true
				}
			}
		}
		t, f, ok := w.BlockLits(b)
		if !ok {
			continue
		}
		for _, p := range g.Lits {
			if p.Match(t) {
				c.Edges[EdgeKey{b, 0}] = true
				c.EdgeLits = append(c.EdgeLits, t.String()+" @"+w.InstrPos(b.Instrs[len(b.Instrs)-1]))
			}
			if p.Match(f) {
				c.Edges[EdgeKey{b, 1}] = true
				c.EdgeLits = append(c.EdgeLits, f.String()+" @"+w.InstrPos(b.Instrs[len(b.Instrs)-1]))
			}
		}
		// a none-flag tested here
		for _, fp := range g.Flags {
			ifi := b.Instrs[len(b.Instrs)-1].(*ssa.If)
			v, flip := ifi.Cond, false
			for {
				u, isNot := v.(*ssa.UnOp)
				if !isNot || u.Op != token.NOT {
					break
				}
				flip = !flip
				v = u.X
			}
			if w.isNoneFlag(fn, v, fp.Lit) {
				e := 0
				if fp.Pol == flip {
					e = 1
				}
				c.Edges[EdgeKey{b, e}] = true
				c.EdgeLits = append(c.EdgeLits, fmt.Sprintf("none-flag(%s)=%v @%s", fp.Lit.Text, fp.Pol, w.InstrPos(ifi)))
			}
		}
		// a materialised boolean: the condition tested on the path from each predecessor is that predecessor's operand
		if phi := boolJoin(b); phi != nil && len(g.Lits) > 0 {
			for k := range phi.Edges {
				truth, lt, lf := w.joinOperand(b, phi, k)
				if truth >= 0 {
					continue
				}
				for _, p := range g.Lits {
					if p.Match(lt) {
						c.Via[ViaKey{b, k, 0}] = true
						c.EdgeLits = append(c.EdgeLits, lt.String()+" (operand) @"+w.InstrPos(b.Instrs[len(b.Instrs)-1]))
					}
					if p.Match(lf) {
						c.Via[ViaKey{b, k, 1}] = true
						c.EdgeLits = append(c.EdgeLits, lf.String()+" (operand) @"+w.InstrPos(b.Instrs[len(b.Instrs)-1]))
					}
				}
			}
		}
		// second reading of the condition: small extracted helpers rendered as what they return
		if !c.Edges[EdgeKey{b, 0}] && !c.Edges[EdgeKey{b, 1}] && len(g.Lits) > 0 && !w.inlineTrivial {
			ifi := b.Instrs[len(b.Instrs)-1].(*ssa.If)
			w.inlineTrivial = true
			t2, f2 := w.NormLit(ifi.Cond, true), w.NormLit(ifi.Cond, false)
			w.inlineTrivial = false
			if os.Getenv("KVERIF_DEBUG2") != "" {
				fmt.Fprintf(os.Stderr, "DEBUG2 %s b%d: %s  ||  %s\n", FnName(fn), b.Index, t.Expr, t2.Expr)
			}
			if t2.Expr != t.Expr {
				for _, p := range g.Lits {
					if p.Match(t2) {
						c.Edges[EdgeKey{b, 0}] = true
						c.EdgeLits = append(c.EdgeLits, t2.String()+" (inlined) @"+w.InstrPos(ifi))
					}
					if p.Match(f2) {
						c.Edges[EdgeKey{b, 1}] = true
						c.EdgeLits = append(c.EdgeLits, f2.String()+" (inlined) @"+w.InstrPos(ifi))
					}
				}
			}
		}
		// see through a helper: the branch tests the result of a karpenter function that itself only produces that
		// outcome after passing the gate (the check was extracted into a helper)
		if !c.Edges[EdgeKey{b, 0}] && !c.Edges[EdgeKey{b, 1}] && w.seeDepth < maxSeeDepth {
			ifi := b.Instrs[len(b.Instrs)-1].(*ssa.If)
			if call, idx, wantT, wantF, ok := condCallOutcome(ifi.Cond); ok {
				for e, want := range []string{wantT, wantF} {
					if w.calleeEstablishes(fn, call, idx, want, g) {
						c.Edges[EdgeKey{b, e}] = true
						c.EdgeLits = append(c.EdgeLits, "(via "+w.CalleeName(call.Common())+" ⇒ "+want+") @"+w.InstrPos(ifi))
					}
				}
			}
		}
	}
	return c
}

const maxSeeDepth = 2

// isNoneFlag: v is true exactly when no element took the edge lit. Two realisations are recognised.
//
//	(a) a loop flag: a bool phi all of whose constant-false operands arrive from blocks guarded by lit, and which every
//	    edge matching lit forces to false (all paths from that edge enter the phi's block through a false operand);
//	(b) a call of a private helper whose returns are the constants true/false, where no edge matching lit (rendered in
//	    the caller's terms) can reach `return true` and every `return false` is guarded by lit.
func (w *World) isNoneFlag(fn *ssa.Function, v ssa.Value, lit LitPat) bool {
	only := Gate{Lits: []LitPat{lit}}
	switch x := v.(type) {
	case *ssa.Phi:
		if x.Parent() != fn {
			return false
		}
		falseEdge := map[*ssa.BasicBlock]bool{}
		for i, e := range x.Edges {
			bv, isC := boolConst(e)
			if isC && !bv {
				p := x.Block().Preds[i]
				falseEdge[p] = true
				if !w.GuardedBy(p.Instrs[len(p.Instrs)-1], only) {
					return false
				}
			}
		}
		if len(falseEdge) == 0 {
			return false
		}
		n := 0
		for _, blk := range fn.Blocks {
			t, f, ok := w.BlockLits(blk)
			if !ok {
				continue
			}
			for i, l := range []Lit{t, f} {
				if !lit.Match(l) {
					continue
				}
				n++
				start := blk.Succs[i]
				entered := map[*ssa.BasicBlock]bool{}
				if start == x.Block() {
					entered[blk] = true
				} else {
					seen := map[*ssa.BasicBlock]bool{start: true}
					st := []*ssa.BasicBlock{start}
					for len(st) > 0 {
						y := st[len(st)-1]
						st = st[:len(st)-1]
						for _, su := range y.Succs {
							if su == x.Block() {
								entered[y] = true
								continue
							}
							if !seen[su] {
								seen[su] = true
								st = append(st, su)
							}
						}
					}
				}
				for p := range entered {
					if !falseEdge[p] {
						return false
					}
				}
			}
		}
		return n > 0
	case *ssa.Call:
		h := x.Common().StaticCallee()
		if h == nil || x.Common().IsInvoke() || len(h.Blocks) == 0 || len(h.Blocks) > 40 || h.Synthetic != "" || !IsKarpenterFn(h) || !w.privateTo(h, fn) || w.seeDepth >= maxSeeDepth {
			return false
		}
		args := x.Common().Args
		if len(args) != len(h.Params) || h.Signature.Results().Len() != 1 {
			return false
		}
		m := map[*ssa.Parameter]string{}
		for j, p := range h.Params {
			m[p] = w.Render(args[j])
		}
		w.subst = append(w.subst, m)
		w.seeDepth++
		seeThrough++
		defer func() {
			w.subst = w.subst[:len(w.subst)-1]
			w.seeDepth--
			seeThrough--
		}()
		trueRet := map[*ssa.BasicBlock]bool{}
		nTrue := 0
		for _, b := range h.Blocks {
			r, ok := b.Instrs[len(b.Instrs)-1].(*ssa.Return)
			if !ok {
				continue
			}
			bv, isC := boolConst(r.Results[0])
			if !isC {
				return false
			}
			if bv {
				trueRet[b] = true
				nTrue++
			} else if !w.GuardedBy(r, only) {
				return false
			}
		}
		if nTrue == 0 {
			return false
		}
		n := 0
		for _, blk := range h.Blocks {
			t, f, ok := w.BlockLits(blk)
			if !ok {
				continue
			}
			for i, l := range []Lit{t, f} {
				if !lit.Match(l) {
					continue
				}
				n++
				for b := range Reach([]*ssa.BasicBlock{blk.Succs[i]}, nil) {
					if trueRet[b] {
						return false
					}
				}
			}
		}
		return n > 0
	}
	return false
}

// condCallOutcome decomposes a branch condition that tests the result of a call: c, !c, c == nil, c != nil, where c is a
// call or one component of a call's tuple. It returns the call, the result index (-1: last/only), and the outcome the
// callee must have produced on the true and on the false edge.
func condCallOutcome(cond ssa.Value) (call *ssa.Call, idx int, wantT, wantF string, ok bool) {
	flip := false
	for {
		u, isNot := cond.(*ssa.UnOp)
		if !isNot || u.Op != token.NOT {
			break
		}
		flip = !flip
		cond = u.X
	}
	asCall := func(v ssa.Value) (*ssa.Call, int, bool) {
		switch x := v.(type) {
		case *ssa.Call:
			return x, -1, true
		case *ssa.Extract:
			if c, ok := x.Tuple.(*ssa.Call); ok {
				return c, x.Index, true
			}
		}
		return nil, 0, false
	}
	if bo, isBin := cond.(*ssa.BinOp); isBin && (bo.Op == token.EQL || bo.Op == token.NEQ) {
		var other ssa.Value
		if k, isC := bo.Y.(*ssa.Const); isC && k.IsNil() {
			other = bo.X
		} else if k, isC := bo.X.(*ssa.Const); isC && k.IsNil() {
			other = bo.Y
		}
		if other == nil {
			return
		}
		c, i, isCall := asCall(other)
		if !isCall {
			return
		}
		wantT, wantF = "nil", "nonnil"
		if bo.Op == token.NEQ {
			wantT, wantF = wantF, wantT
		}
		if flip {
			wantT, wantF = wantF, wantT
		}
		return c, i, wantT, wantF, true
	}
	c, i, isCall := asCall(cond)
	if !isCall {
		return
	}
	if b, isBasic := cond.Type().Underlying().(*types.Basic); !isBasic || b.Kind() != types.Bool {
		return
	}
	wantT, wantF = "true", "false"
	if flip {
		wantT, wantF = wantF, wantT
	}
	return c, i, wantT, wantF, true
}

// calleeEstablishes: every return of the statically called karpenter function that yields outcome `want` (for result
// idx) is guarded, inside the callee and in the CALLER's terms (parameters replaced by the call's arguments), by gate g.
func (w *World) calleeEstablishes(caller *ssa.Function, call *ssa.Call, idx int, want string, g Gate) bool {
	f := call.Common().StaticCallee()
	if f == nil || f == caller || len(f.Blocks) == 0 || len(f.Blocks) > 60 || f.Synthetic != "" || !IsKarpenterFn(f) || call.Common().IsInvoke() {
		return false
	}
	args := call.Common().Args
	if len(args) != len(f.Params) {
		return false
	}
	m := map[*ssa.Parameter]string{}
	for j, p := range f.Params {
		m[p] = w.Render(args[j])
	}
	w.subst = append(w.subst, m)
	w.seeDepth++
	seeThrough++
	defer func() {
		w.subst = w.subst[:len(w.subst)-1]
		w.seeDepth--
		seeThrough--
	}()
	sinks := w.ReturnSinks(f, RetSpec{Index: idx, Want: want})
	if len(sinks) == 0 {
		return false
	}
	for _, s := range sinks {
		if !w.RetGuarded(s, g) {
			if os.Getenv("KVERIF_DEBUG") != "" {
				c := w.GateCut(f, g)
				fmt.Fprintf(os.Stderr, "DEBUG calleeEstablishes %s want=%s gate={%s}: sink %s not guarded; cut=%v\n", FnName(f), want, g.Text, s.Desc, c.EdgeLits)
				for _, b := range f.Blocks {
					if t, _, ok := w.BlockLits(b); ok {
						fmt.Fprintf(os.Stderr, "DEBUG    lit b%d: %s\n", b.Index, t.String())
					}
				}
			}
			return false
		}
	}
	return true
}

// interestingInstr filters instructions that can be sites (effects), to keep rendering cheap.
func interestingInstr(in ssa.Instruction) bool {
	switch in.(type) {
	case *ssa.Call, *ssa.Go, *ssa.Defer, *ssa.Store, *ssa.MapUpdate, *ssa.Return, *ssa.Panic, *ssa.Send, *ssa.MakeClosure:
		return true
	}
	return false
}

func blockHasCutInstr(b *ssa.BasicBlock, c *Cut, before ssa.Instruction) bool {
	if len(c.Instrs) == 0 {
		return false
	}
	for _, in := range b.Instrs {
		if in == before {
			return false
		}
		if c.Instrs[in] {
			return true
		}
	}
	return false
}

// Reach computes blocks whose entry is reachable from the given start blocks without crossing the cut.
func Reach(starts []*ssa.BasicBlock, c *Cut) map[*ssa.BasicBlock]bool {
	type state struct{ b, from *ssa.BasicBlock }
	seen := map[*ssa.BasicBlock]bool{}
	seenJ := map[state]bool{}
	var stack []state
	for _, s := range starts {
		if !seen[s] {
			seen[s] = true
			stack = append(stack, state{s, nil})
		}
	}
	for len(stack) > 0 {
		st := stack[len(stack)-1]
		stack = stack[:len(stack)-1]
		b := st.b
		if c != nil && blockHasCutInstr(b, c, nil) {
			continue
		}
		var idxs []int
		if phi := boolJoin(b); phi != nil && st.from != nil {
			idxs = joinSuccs(b, phi, st.from, c)
		} else {
			for i := range b.Succs {
				if c != nil && c.Edges[EdgeKey{b, i}] {
					continue
				}
				idxs = append(idxs, i)
			}
		}
		for _, i := range idxs {
			s := b.Succs[i]
			if boolJoin(s) != nil {
				// a join is explored once per predecessor
				if !seenJ[state{s, b}] {
					seenJ[state{s, b}] = true
					seen[s] = true
					stack = append(stack, state{s, b})
				}
				continue
			}
			if !seen[s] {
				seen[s] = true
				stack = append(stack, state{s, b})
			}
		}
	}
	return seen
}

// InstrReachable: is instruction `in` reachable from the function entry without crossing the cut?
func InstrReachable(in ssa.Instruction, c *Cut) bool {
	fn := in.Parent()
	if len(fn.Blocks) == 0 {
		return false
	}
	r := Reach([]*ssa.BasicBlock{fn.Blocks[0]}, c)
	b := in.Block()
	if !r[b] {
		return false
	}
	return !blockHasCutInstr(b, c, in)
}

// EdgeReachable: can control flow from entry traverse the edge pred->b without crossing the cut?
func EdgeReachable(pred, b *ssa.BasicBlock, c *Cut) bool {
	fn := pred.Parent()
	r := Reach([]*ssa.BasicBlock{fn.Blocks[0]}, c)
	if !r[pred] || blockHasCutInstr(pred, c, nil) {
		return false
	}
	for i, s := range pred.Succs {
		if s == b && !c.Edges[EdgeKey{pred, i}] {
			return true
		}
	}
	return false
}

// GuardedBy decides whether `in` (possibly inside a closure) is guarded by gate g:
// unreachable from its function's entry once the gate's cut is removed, or — for a closure —
// the closure's creation site is guarded in the enclosing function (recursively).
func (w *World) GuardedBy(in ssa.Instruction, g Gate) bool {
	fn := in.Parent()
	c := w.GateCut(fn, g)
	if !InstrReachable(in, c) {
		return true
	}
	if mc := w.ClosureSite[fn]; mc != nil {
		return w.GuardedBy(mc, g)
	}
	return false
}

// DominatingLits lists the literals that edge-dominate an instruction (for explain / evidence).
func (w *World) DominatingLits(in ssa.Instruction) []string {
	var out []string
	b := in.Block()
	fn := in.Parent()
	for b != nil {
		d := b.Idom()
		if d == nil {
			break
		}
		if t, f, ok := w.BlockLits(d); ok && len(b.Preds) == 1 && b.Preds[0] == d {
			if d.Succs[0] == b {
				out = append(out, t.String())
			} else {
				out = append(out, f.String())
			}
		}
		b = d
	}
	if mc := w.ClosureSite[fn]; mc != nil {
		out = append(out, "⟂closure-site")
		out = append(out, w.DominatingLits(mc)...)
	}
	return out
}

// Sites finds the instructions in fn (and nested closures when deep) whose rendering matches re.
func (w *World) Sites(fn *ssa.Function, re *regexp.Regexp, deep bool) []ssa.Instruction {
	var out []ssa.Instruction
	fns := []*ssa.Function{fn}
	if deep {
		fns = WithClosures(fn)
	}
	for _, f := range fns {
		for _, b := range f.Blocks {
			for _, in := range b.Instrs {
				if !interestingInstr(in) {
					continue
				}
				if MatchRe(re, w.RenderInstr(in)) {
					out = append(out, in)
				}
			}
		}
	}
	return out
}

// ReachConsistent is Reach with a path-sensitive refinement: for If conditions whose canonical expression
// matches one of `stable` (audited: pure expressions over SSA registers, e.g. a call result tested twice),
// a path may not take the + edge at one test and the − edge at another. Returns whether `target`
// (instruction, or block entry when in == nil) is reachable from the function entry.
func (w *World) ReachConsistent(fn *ssa.Function, c *Cut, stable []*regexp.Regexp, target ssa.Instruction) bool {
	if len(fn.Blocks) == 0 {
		return false
	}
	type state struct {
		b   *ssa.BasicBlock
		key string
	}
	type item struct {
		b      *ssa.BasicBlock
		assign map[string]bool
	}
	keyOf := func(m map[string]bool) string {
		ks := make([]string, 0, len(m))
		for k, v := range m {
			if v {
				ks = append(ks, "+"+k)
			} else {
				ks = append(ks, "-"+k)
			}
		}
		sort.Strings(ks)
		return strings.Join(ks, ";")
	}
	seen := map[state]bool{}
	stack := []item{{fn.Blocks[0], map[string]bool{}}}
	tb := target.Block()
	for len(stack) > 0 {
		it := stack[len(stack)-1]
		stack = stack[:len(stack)-1]
		st := state{it.b, keyOf(it.assign)}
		if seen[st] {
			continue
		}
		seen[st] = true
		if it.b == tb && !blockHasCutInstr(it.b, c, target) {
			return true
		}
		if blockHasCutInstr(it.b, c, nil) {
			continue
		}
		t, f, isIf := w.BlockLits(it.b)
		for i, s := range it.b.Succs {
			if c.Edges[EdgeKey{it.b, i}] {
				continue
			}
			na := it.assign
			if isIf {
				l := t
				if i == 1 {
					l = f
				}
				if matchAnyStr(l.Expr, stable) {
					if v, ok := it.assign[l.Expr]; ok && v != l.Pol {
						continue // infeasible: contradicts an earlier test of the same stable expression
					}
					na = map[string]bool{}
					for k, v := range it.assign {
						na[k] = v
					}
					na[l.Expr] = l.Pol
				}
			}
			stack = append(stack, item{s, na})
		}
	}
	return false
}

// GuardedByConsistent is GuardedBy with the path-sensitive refinement of ReachConsistent.
func (w *World) GuardedByConsistent(in ssa.Instruction, g Gate, stable []*regexp.Regexp) bool {
	if len(stable) == 0 {
		return w.GuardedBy(in, g)
	}
	fn := in.Parent()
	c := w.GateCut(fn, g)
	if !w.ReachConsistent(fn, c, stable, in) {
		return true
	}
	if mc := w.ClosureSite[fn]; mc != nil {
		return w.GuardedByConsistent(mc, g, stable)
	}
	return false
}

// ---------------------------------------------------------------------------
// seeing through extracted helpers for sites

// helperCallee returns the statically called karpenter helper of a call instruction, if it may be looked into.
func (w *World) helperCallee(caller *ssa.Function, in ssa.Instruction) (*ssa.Function, []ssa.Value, bool) {
	ci, ok := in.(ssa.CallInstruction)
	if !ok {
		return nil, nil, false
	}
	c := ci.Common()
	f := c.StaticCallee()
	if f == nil || c.IsInvoke() || RootFn(f) == RootFn(caller) || len(f.Blocks) == 0 || len(f.Blocks) > 60 || f.Synthetic != "" || !IsKarpenterFn(f) || IsTestSupport(f) {
		return nil, nil, false
	}
	if len(c.Args) != len(f.Params) {
		return nil, nil, false
	}
	return f, c.Args, true
}

// calleeContains: the helper called by `in` (in the caller's terms) contains an instruction matching one of res —
// on some path (must=false) or on every path from its entry to a return (must=true). Looks maxSeeDepth levels deep.
func (w *World) calleeContains(caller *ssa.Function, in ssa.Instruction, res []*regexp.Regexp, must bool) bool {
	if w.seeDepth >= maxSeeDepth {
		return false
	}
	f, args, ok := w.helperCallee(caller, in)
	if !ok {
		return false
	}
	m := map[*ssa.Parameter]string{}
	for j, p := range f.Params {
		m[p] = w.Render(args[j])
	}
	w.subst = append(w.subst, m)
	w.seeDepth++
	seeThrough++
	defer func() {
		w.subst = w.subst[:len(w.subst)-1]
		w.seeDepth--
		seeThrough--
	}()
	cut := newCut()
	found := false
	scan := func(g *ssa.Function, record bool) {
		for _, b := range g.Blocks {
			for _, x := range b.Instrs {
				if !interestingInstr(x) {
					continue
				}
				hit := false
				r := w.RenderInstr(x)
				for _, re := range res {
					if MatchRe(re, r) {
						hit = true
					}
				}
				if !hit && w.calleeContains(g, x, res, must) {
					hit = true
				}
				if hit {
					found = true
					if record {
						cut.Instrs[x] = true
					}
				}
			}
		}
	}
	scan(f, true)
	if !must {
		// may-flavour: the helper's own closures count too (retry wrappers, parallel workers)
		for _, cl := range WithClosures(f)[1:] {
			scan(cl, false)
		}
	}
	if !found || !must {
		return found
	}
	// every normal return must be cut off
	for _, b := range f.Blocks {
		if len(b.Instrs) == 0 {
			continue
		}
		if ret, ok := b.Instrs[len(b.Instrs)-1].(*ssa.Return); ok && InstrReachable(ret, cut) {
			return false
		}
	}
	return true
}

// HelperSites: call instructions of fn (closures included when deep) whose helper may execute an instruction matching re.
// Used only as a fallback when fewer direct sites than confirmed by hand are found: the effect was extracted into a helper.
func (w *World) HelperSites(fn *ssa.Function, re *regexp.Regexp, deep bool) []ssa.Instruction {
	var out []ssa.Instruction
	fns := []*ssa.Function{fn}
	if deep {
		fns = WithClosures(fn)
	}
	for _, f := range fns {
		for _, b := range f.Blocks {
			for _, in := range b.Instrs {
				callee, _, ok := w.helperCallee(f, in)
				if !ok || !w.privateTo(callee, fn) {
					continue
				}
				if w.calleeContains(f, in, []*regexp.Regexp{re}, false) {
					out = append(out, in)
				}
			}
		}
	}
	return out
}

// WithHelpers calls visit for fn and then for every private helper fn calls (transitively, bounded), with the helper's
// parameters rendered as the call's arguments while visit runs — so a structural scan written for fn's own blocks keeps
// working when part of fn was extracted into a helper. via is the call instruction in the caller (nil for fn itself).
func (w *World) WithHelpers(fn *ssa.Function, visit func(f *ssa.Function, via ssa.Instruction)) {
	visit(fn, nil)
	w.withHelpers(fn, fn, visit, map[*ssa.Function]bool{fn: true})
}

func (w *World) withHelpers(owner, fn *ssa.Function, visit func(f *ssa.Function, via ssa.Instruction), done map[*ssa.Function]bool) {
	if w.seeDepth >= maxSeeDepth {
		return
	}
	for _, f := range WithClosures(fn) {
		for _, b := range f.Blocks {
			for _, in := range b.Instrs {
				callee, args, ok := w.helperCallee(f, in)
				if !ok || done[callee] || !w.privateTo(callee, owner) || len(args) != len(callee.Params) {
					continue
				}
				done[callee] = true
				m := map[*ssa.Parameter]string{}
				for j, p := range callee.Params {
					m[p] = w.Render(args[j])
				}
				w.subst = append(w.subst, m)
				w.seeDepth++
				seeThrough++
				visit(callee, in)
				w.withHelpers(owner, callee, visit, done)
				w.subst = w.subst[:len(w.subst)-1]
				w.seeDepth--
				seeThrough--
			}
		}
	}
}

// EnterHelper: v is the (only) result of a call to a private helper of owner that has exactly one return. It returns the
// helper, the value it returns, and a function that must be called to leave; until then the helper's parameters render
// as the call's arguments. ok=false (and a no-op leave) otherwise.
func (w *World) EnterHelper(owner *ssa.Function, v ssa.Value) (h *ssa.Function, ret ssa.Value, leave func(), ok bool) {
	leave = func() {}
	k := 0
	call, isCall := v.(*ssa.Call)
	if ex, isEx := v.(*ssa.Extract); isEx {
		call, isCall = ex.Tuple.(*ssa.Call)
		k = ex.Index
	}
	if !isCall || w.seeDepth >= maxSeeDepth {
		return nil, nil, leave, false
	}
	callee, args, good := w.helperCallee(owner, call)
	if !good || !w.privateTo(callee, owner) || len(args) != len(callee.Params) || k >= callee.Signature.Results().Len() {
		return nil, nil, leave, false
	}
	if _, isEx := v.(*ssa.Extract); !isEx && callee.Signature.Results().Len() != 1 {
		return nil, nil, leave, false
	}
	var r *ssa.Return
	for _, b := range callee.Blocks {
		if len(b.Instrs) == 0 || (len(b.Preds) == 0 && b.Index != 0) {
			continue
		}
		if x, isRet := b.Instrs[len(b.Instrs)-1].(*ssa.Return); isRet {
			if r != nil {
				return nil, nil, leave, false
			}
			r = x
		}
	}
	if r == nil {
		return nil, nil, leave, false
	}
	m := map[*ssa.Parameter]string{}
	for j, p := range callee.Params {
		m[p] = w.Render(args[j])
	}
	w.subst = append(w.subst, m)
	w.seeDepth++
	seeThrough++
	return callee, resolveSpilled(r, r.Results[k]), func() {
		w.subst = w.subst[:len(w.subst)-1]
		w.seeDepth--
		seeThrough--
	}, true
}

// privateTo: h is an unexported helper all of whose (non-test) callers belong to owner (its closures included) or are
// themselves such helpers: what h does, it does on owner's behalf. This is what an "extract function" refactoring
// produces; a shared or exported function is not looked into for may-flavour matches.
func (w *World) privateTo(h, owner *ssa.Function) bool {
	return w.privateToDepth(h, RootFn(owner), 0)
}

func (w *World) privateToDepth(h, owner *ssa.Function, depth int) bool {
	if depth > 2 || h.Object() == nil || h.Object().Exported() {
		return false
	}
	// an unexported function of the owner's own package (helpers extracted from duplicated code have several callers)
	if fnPkgPath(h) == fnPkgPath(owner) {
		return true
	}
	n := 0
	for _, c := range w.CG().CallersOf(h) {
		if IsTestSupport(c) {
			continue
		}
		root := RootFn(c)
		if root == h {
			continue
		}
		if strings.HasPrefix(root.Synthetic, "wrapper for ") && len(w.CG().CallersOf(root)) == 0 {
			continue
		}
		n++
		if root == owner {
			continue
		}
		if !w.privateToDepth(root, owner, depth+1) {
			return false
		}
	}
	return n > 0
}

// guardedInsideHelper: site is a call to a private helper; every instruction matching re inside the helper (and its
// closures) is guarded there by g, with the helper's parameters read as the call's arguments.
func (w *World) guardedInsideHelper(site ssa.Instruction, re *regexp.Regexp, g Gate) bool {
	caller := site.Parent()
	f, args, ok := w.helperCallee(caller, site)
	if !ok || w.seeDepth >= maxSeeDepth || !w.privateTo(f, caller) {
		return false
	}
	m := map[*ssa.Parameter]string{}
	for j, p := range f.Params {
		m[p] = w.Render(args[j])
	}
	w.subst = append(w.subst, m)
	w.seeDepth++
	seeThrough++
	defer func() {
		w.subst = w.subst[:len(w.subst)-1]
		w.seeDepth--
		seeThrough--
	}()
	inner := w.Sites(f, re, true)
	if len(inner) == 0 {
		return false
	}
	for _, in := range inner {
		if !w.GuardedBy(in, g) {
			return false
		}
	}
	return true
}

// SitesOr: the direct sites, completed by helper call sites when fewer than min direct ones exist.
func (w *World) SitesOr(fn *ssa.Function, re *regexp.Regexp, deep bool, min int) []ssa.Instruction {
	sites := w.Sites(fn, re, deep)
	if len(sites) >= min {
		return sites
	}
	// second reading: trivial extracted helpers (`return <expr>`) rendered as their expression
	w.inlineTrivial = true
	inl := w.Sites(fn, re, deep)
	w.inlineTrivial = false
	if len(inl) >= min {
		return inl
	}
	return append(sites, w.HelperSites(fn, re, deep)...)
}
