package core

import (
	"fmt"
	"go/constant"
	"go/token"
	"go/types"
	"regexp"
	"strings"

	"golang.org/x/tools/go/ssa"
)

// Lit is a branch condition in canonical form: polarity + expression text.
// Canonicalisation removes syntactic variation that does not change meaning:
//
//	!x                 -> flip x
//	x != y             -> flip (x == y)
//	nil == x           -> x == nil
//	a > b              -> b < a ;  a >= b -> flip (a < b) ; a <= b -> flip (b < a)
//	len(x) ⋈ const     -> len(x)>=k with polarity
//	x == true/false    -> x / flip x
type Lit struct {
	Pol  bool
	Expr string
}

func (l Lit) String() string {
	if l.Pol {
		return "+" + l.Expr
	}
	return "-" + l.Expr
}

func isNilConst(v ssa.Value) bool {
	c, ok := v.(*ssa.Const)
	return ok && c.Value == nil && !isBasic(c.Type())
}

func isBasic(t types.Type) bool {
	_, ok := t.Underlying().(*types.Basic)
	return ok
}

func intConst(v ssa.Value) (int64, bool) {
	if cv, ok := v.(*ssa.Convert); ok {
		v = cv.X
	}
	c, ok := v.(*ssa.Const)
	if !ok || c.Value == nil || c.Value.Kind() != constant.Int {
		if ok && c.Value == nil && isBasic(c.Type()) {
			return 0, true
		}
		return 0, false
	}
	i, exact := constant.Int64Val(c.Value)
	return i, exact
}

func boolConst(v ssa.Value) (bool, bool) {
	c, ok := v.(*ssa.Const)
	if !ok || c.Value == nil || c.Value.Kind() != constant.Bool {
		return false, false
	}
	return constant.BoolVal(c.Value), true
}

func isLenCall(v ssa.Value) bool {
	if cv, ok := v.(*ssa.Convert); ok {
		v = cv.X
	}
	c, ok := v.(*ssa.Call)
	if !ok {
		return false
	}
	b, ok := c.Call.Value.(*ssa.Builtin)
	return ok && b.Name() == "len"
}

// NormLit canonicalises cond taken with polarity pol.
func (w *World) NormLit(cond ssa.Value, pol bool) Lit {
	switch x := cond.(type) {
	case *ssa.UnOp:
		if x.Op == token.NOT {
			return w.NormLit(x.X, !pol)
		}
	case *ssa.BinOp:
		switch x.Op {
		case token.EQL, token.NEQ:
			if x.Op == token.NEQ {
				pol = !pol
			}
			a, b := x.X, x.Y
			if bv, ok := boolConst(b); ok {
				if !bv {
					pol = !pol
				}
				return w.NormLit(a, pol)
			}
			if bv, ok := boolConst(a); ok {
				if !bv {
					pol = !pol
				}
				return w.NormLit(b, pol)
			}
			if isNilConst(a) {
				a, b = b, a
			}
			if isNilConst(b) {
				return Lit{pol, w.Render(a) + " == nil"}
			}
			// len(x) == k
			if isLenCall(b) {
				a, b = b, a
			}
			if k, ok := intConst(b); ok && isLenCall(a) {
				if k == 0 { // len == 0  <=> !(len >= 1)
					return Lit{!pol, w.Render(a) + ">=1"}
				}
				return Lit{pol, fmt.Sprintf("%s == %d", w.Render(a), k)}
			}
			ra, rb := w.Render(a), w.Render(b)
			if _, ok := a.(*ssa.Const); ok {
				ra, rb = rb, ra
			} else if _, ok := b.(*ssa.Const); !ok && rb < ra {
				ra, rb = rb, ra
			}
			return Lit{pol, ra + " == " + rb}
		case token.LSS, token.GTR, token.LEQ, token.GEQ:
			a, b := x.X, x.Y
			op := x.Op
			// bring to "<" : a > b => b < a ; a >= b => !(a < b) ; a <= b => !(b < a)
			switch op {
			case token.GTR:
				a, b = b, a
			case token.GEQ:
				pol = !pol
			case token.LEQ:
				a, b = b, a
				pol = !pol
			}
			// now literal is pol(a < b)
			if k, ok := intConst(a); ok && isLenCall(b) { // k < len  <=> len >= k+1
				return Lit{pol, fmt.Sprintf("%s>=%d", w.Render(b), k+1)}
			}
			if k, ok := intConst(b); ok && isLenCall(a) { // len < k <=> !(len >= k)
				return Lit{!pol, fmt.Sprintf("%s>=%d", w.Render(a), k)}
			}
			return Lit{pol, w.Render(a) + " < " + w.Render(b)}
		}
	}
	return Lit{pol, w.Render(cond)}
}

// LitPat is a pattern over literals: polarity plus regular expression on the expression text.
// Syntax in tables: "+regex" or "-regex"; a leading "?" polarity matches both.
type LitPat struct {
	Pol  byte // '+', '-', '?'
	Re   *regexp.Regexp
	Text string
}

func MustLitPat(s string) LitPat {
	if len(s) < 2 || !strings.ContainsRune("+-?", rune(s[0])) {
		panic("bad literal pattern (need +/-/? prefix): " + s)
	}
	return LitPat{Pol: s[0], Re: regexp.MustCompile(s[1:]), Text: s}
}

func (p LitPat) Match(l Lit) bool {
	if p.Pol == '+' && !l.Pol || p.Pol == '-' && l.Pol {
		return false
	}
	return MatchRe(p.Re, l.Expr)
}

// Gate is a disjunction of literal patterns and/or must-pass instructions ("call:<regex>" / "instr:<regex>").
// A sink is guarded by the gate when every path from the function entry to the sink crosses
// an edge on which one of the literals holds, or executes an instruction matching one of the instr patterns.
type Gate struct {
	Lits   []LitPat
	Instrs []*regexp.Regexp
	Flags  []FlagPat
	Text   string
}

// FlagPat: "+none:<lit>" / "-none:<lit>" — the edge on which a *none-flag* for <lit> is true / false. A none-flag is a
// boolean that is true exactly when no element of a loop took the edge <lit>; it may be realised as a loop flag
// (ok := true; for … { if bad { ok = false } }) or as a private helper that returns false on the first such element
// (World.isNoneFlag).
type FlagPat struct {
	Pol bool
	Lit LitPat
}

// G parses alternatives: G("+a == nil", "-b") is the disjunction (either edge gates).
func G(alts ...string) Gate {
	g := Gate{Text: strings.Join(alts, " | ")}
	for _, a := range alts {
		if strings.HasPrefix(a, "instr:") {
			g.Instrs = append(g.Instrs, regexp.MustCompile(a[len("instr:"):]))
			continue
		}
		if strings.HasPrefix(a, "+none:") || strings.HasPrefix(a, "-none:") {
			g.Flags = append(g.Flags, FlagPat{Pol: a[0] == '+', Lit: MustLitPat(a[len("+none:"):])})
			continue
		}
		g.Lits = append(g.Lits, MustLitPat(a))
	}
	return g
}

// seeThrough > 0 while a helper is being examined in its caller's terms (reach.go). In that mode the capture marker `^`
// is ignored on both sides of a match: extracting code into a helper changes how many closures a variable is captured
// through, which is not a property of the value.
var seeThrough int

var caretFree = map[*regexp.Regexp]*regexp.Regexp{}

// MatchRe is the one place where table patterns meet renderings.
func MatchRe(re *regexp.Regexp, s string) bool {
	if seeThrough == 0 {
		return re.MatchString(s)
	}
	cf, ok := caretFree[re]
	if !ok {
		cf = regexp.MustCompile(strings.ReplaceAll(re.String(), `\^`, ``))
		caretFree[re] = cf
	}
	return cf.MatchString(strings.ReplaceAll(s, "^", ""))
}
