package core

// ext_J.go — additive helpers (round 4, group J). Nothing here changes an existing engine function.
//
//   AddrRootC    AddrRoot that also sees through the cell of a captured variable (a receiver or parameter used inside a
//                closure is found as the root, not the cell it was spilled to).
//   AliasOrigins where a reference value (map, slice, pointer, address) may come from: a backward walk through loads,
//                field / index / lookup steps, conversions, phis (every edge), locals (every store), captured
//                variables, and — interprocedurally — through the results of karpenter functions (a callee's parameter
//                continues with the argument of the call the walk came through).
//   InPlaceWrites the instructions of a set of functions that modify memory in place (stores, map updates, delete /
//                clear, set / maps mutators, sync.Map and atomic mutators, in-place sorters, karpenter helpers that
//                write into a parameter, receiver-writing methods), each with the value whose referent is modified.
//   SharedWrites = InPlaceWrites filtered to those whose target may lie inside memory reached through a field of one
//                of the named struct types and is not wholly a local construction.

import (
	"fmt"
	"go/token"
	"go/types"
	"os"
	"regexp"
	"strings"

	"golang.org/x/tools/go/ssa"
)

// AddrRootC is AddrRoot, continued through captured variables: when AddrRoot ends at the cell (Alloc) of a variable
// that holds a reference and has exactly one store — which is what a receiver or parameter captured by a closure looks
// like from inside the closure — the walk continues from the stored value.
func (w *World) AddrRootC(v ssa.Value) (ssa.Value, int) {
	steps := 0
	for i := 0; i < 8; i++ {
		r, s := w.AddrRoot(v)
		steps += s
		a, ok := r.(*ssa.Alloc)
		if !ok || r == v || !isRefCell(a) {
			return r, steps
		}
		sts := w.storesTo(a)
		if len(sts) != 1 {
			return r, steps
		}
		v = sts[0].Val
	}
	return v, steps
}

// isRefCell: the Alloc is the storage of a variable holding a reference (pointer, map, slice, interface, func), as
// opposed to the storage of a composite literal / struct value.
func isRefCell(a *ssa.Alloc) bool {
	p, ok := a.Type().Underlying().(*types.Pointer)
	if !ok {
		return false
	}
	switch p.Elem().Underlying().(type) {
	case *types.Pointer, *types.Map, *types.Slice, *types.Interface, *types.Signature, *types.Chan:
		return true
	}
	return false
}

// FieldStep is one field selection crossed by an alias walk.
type FieldStep struct {
	Struct string   // short name of the struct type whose field is selected
	Field  string   // field name
	Calls  []string // karpenter functions whose result the walk had entered when it crossed the field (outermost first)
	Thru   []string // karpenter functions found to hand back a parameter on the way to this step ("f#1": parameter 1 of f)
}

// AliasLeaf is a terminal value of an alias walk.
type AliasLeaf struct {
	V     ssa.Value
	Calls []string
	Thru  []string // as FieldStep.Thru
	// Fresh: the value is memory created here (a local composite / make / new, nil, a constant) or the result of a call
	// the walk cannot enter (dependency code, interface or dynamic call) — by convention a fresh value.
	Fresh bool
	// Opaque: Fresh only by that convention (result of a call that was not entered)
	Opaque bool
}

// AliasResult is what AliasOrigins reports.
type AliasResult struct {
	Fields    []FieldStep
	Leaves    []AliasLeaf
	Exhausted bool // the step budget or depth bound was hit: the result is incomplete
}

// Through reports the first field step through one of the struct types.
func (r AliasResult) Through(typs map[string]bool) (FieldStep, bool) {
	for _, f := range r.Fields {
		if typs[f.Struct] {
			return f, true
		}
	}
	return FieldStep{}, false
}

// AllFresh: every origin is a fresh value.
func (r AliasResult) AllFresh() bool {
	for _, l := range r.Leaves {
		if !l.Fresh {
			return false
		}
	}
	return !r.Exhausted
}

// library functions that hand back (memory of) an argument
var aliasPassThrough = regexp.MustCompile(`^lo\.(Ternary|FromPtr|FromPtrOr|ToPtr|EmptyableToPtr|Must\d?|CoalesceOrEmpty|CoalesceMapOrEmpty|CoalesceSliceOrEmpty|ValueOr)(\[|$)|^\(\*sync\.Map\)\.(Load|LoadOrStore|LoadAndDelete|Swap)$|^\(\*sync/atomic\.(Pointer\[.*\]|Value)\)\.Load$`)

type aliasCtx struct {
	call   ssa.CallInstruction
	callee *ssa.Function
	up     *aliasCtx
	depth  int
}

func (c *aliasCtx) names() []string {
	var out []string
	for x := c; x != nil; x = x.up {
		out = append([]string{FnName(x.callee)}, out...)
	}
	return out
}

// AliasOrigins walks back from a reference value to where its referent may come from. See the file comment.
func (w *World) AliasOrigins(v ssa.Value) AliasResult {
	var res AliasResult
	type key struct {
		v   ssa.Value
		ctx *aliasCtx
	}
	seen := map[key]bool{}
	budget := 6000
	const maxDepth = 4
	var thru []string // DFS stack of "callee#param" hand-backs on the current path
	var walk func(v ssa.Value, ctx *aliasCtx)
	leaf := func(v ssa.Value, ctx *aliasCtx, fresh, opaque bool) {
		res.Leaves = append(res.Leaves, AliasLeaf{V: v, Calls: ctx.names(), Thru: append([]string{}, thru...), Fresh: fresh, Opaque: opaque})
	}
	field := func(t types.Type, idx int, ctx *aliasCtx) {
		name := ""
		u := t.Underlying()
		if p, ok := u.(*types.Pointer); ok {
			u = p.Elem().Underlying()
		}
		if st, ok := u.(*types.Struct); ok && idx < st.NumFields() {
			name = st.Field(idx).Name()
		}
		res.Fields = append(res.Fields, FieldStep{Struct: structName(t), Field: name, Calls: ctx.names(), Thru: append([]string{}, thru...)})
	}
	// cell: the values stored into a local variable's storage
	cell := func(a *ssa.Alloc, ctx *aliasCtx) {
		sts := w.storesTo(a)
		if len(sts) == 0 {
			leaf(a, ctx, true, false)
			return
		}
		for _, st := range sts {
			walk(st.Val, ctx)
		}
	}
	enter := func(call ssa.CallInstruction, resIdx int, ctx *aliasCtx) {
		c := call.Common()
		cv, _ := call.(ssa.Value)
		name := w.CalleeName(c)
		if aliasPassThrough.MatchString(name) {
			for i, a := range c.Args {
				if i == 0 && strings.HasPrefix(name, "lo.Ternary") {
					continue
				}
				walk(a, ctx)
			}
			return
		}
		callee := c.StaticCallee()
		if callee == nil || c.IsInvoke() || !IsKarpenterFn(callee) || len(callee.Blocks) == 0 {
			leaf(cv, ctx, true, true)
			return
		}
		depth := 1
		if ctx != nil {
			depth = ctx.depth + 1
		}
		for x := ctx; x != nil; x = x.up {
			if x.callee == callee {
				depth = maxDepth + 1 // recursion
			}
		}
		if depth > maxDepth {
			res.Exhausted = true
			return
		}
		nctx := &aliasCtx{call: call, callee: callee, up: ctx, depth: depth}
		// one context per (call, caller context): memoise through seen on the call value itself
		for _, b := range callee.Blocks {
			if len(b.Instrs) == 0 {
				continue
			}
			ret, ok := b.Instrs[len(b.Instrs)-1].(*ssa.Return)
			if !ok || resIdx >= len(ret.Results) {
				continue
			}
			walk(ResolveRet(ret, resIdx), nctx)
		}
	}
	walk = func(v ssa.Value, ctx *aliasCtx) {
		if v == nil {
			return
		}
		k := key{v, ctx}
		if seen[k] {
			return
		}
		seen[k] = true
		if budget--; budget < 0 {
			res.Exhausted = true
			return
		}
		switch x := v.(type) {
		case *ssa.FieldAddr:
			field(x.X.Type(), x.Field, ctx)
			walk(x.X, ctx)
		case *ssa.Field:
			field(x.X.Type(), x.Field, ctx)
			walk(x.X, ctx)
		case *ssa.IndexAddr:
			walk(x.X, ctx)
		case *ssa.Index:
			walk(x.X, ctx)
		case *ssa.Lookup:
			walk(x.X, ctx)
		case *ssa.UnOp:
			if x.Op != token.MUL {
				leaf(v, ctx, true, false)
				return
			}
			switch y := x.X.(type) {
			case *ssa.Alloc:
				if isRefCell(y) {
					cell(y, ctx)
					return
				}
				walk(y, ctx)
			case *ssa.FreeVar:
				if b, ok := w.FreeVarBinding(y).(*ssa.Alloc); ok && isRefCell(b) {
					cell(b, ctx)
					return
				}
				walk(y, ctx)
			default:
				walk(x.X, ctx)
			}
		case *ssa.FreeVar:
			b := w.FreeVarBinding(x)
			if b == nil {
				leaf(v, ctx, false, false)
				return
			}
			walk(b, ctx)
		case *ssa.Extract:
			switch t := x.Tuple.(type) {
			case *ssa.Lookup:
				walk(t.X, ctx)
			case *ssa.TypeAssert:
				walk(t.X, ctx)
			case *ssa.Next:
				if r, ok := t.Iter.(*ssa.Range); ok {
					walk(r.X, ctx)
				} else {
					leaf(v, ctx, false, false)
				}
			case *ssa.Call:
				enter(t, x.Index, ctx)
			default:
				leaf(v, ctx, false, false)
			}
		case *ssa.ChangeType:
			walk(x.X, ctx)
		case *ssa.Convert:
			walk(x.X, ctx)
		case *ssa.ChangeInterface:
			walk(x.X, ctx)
		case *ssa.MakeInterface:
			walk(x.X, ctx)
		case *ssa.TypeAssert:
			walk(x.X, ctx)
		case *ssa.Slice:
			walk(x.X, ctx)
		case *ssa.Phi:
			for _, e := range x.Edges {
				walk(e, ctx)
			}
		case *ssa.Call:
			enter(x, 0, ctx)
		case *ssa.Parameter:
			// inside an entered callee: continue with the argument of the call the walk came through
			for c := ctx; c != nil; c = c.up {
				if c.callee != x.Parent() {
					continue
				}
				for i, p := range c.callee.Params {
					if p == x && i < len(c.call.Common().Args) {
						thru = append(thru, fmt.Sprintf("%s#%d", FnName(c.callee), i))
						walk(c.call.Common().Args[i], c.up)
						thru = thru[:len(thru)-1]
						return
					}
				}
			}
			leaf(v, ctx, false, false)
		case *ssa.Alloc:
			// storage of a struct / array value: a whole-value store (`x := *p`, `x = y`) makes its reference-typed fields
			// alias the source's (shallow copy); without one it is a local construction
			whole := 0
			if !isRefCell(x) {
				for _, st := range w.storesTo(x) {
					whole++
					walk(st.Val, ctx)
				}
			}
			if whole == 0 {
				leaf(v, ctx, true, false)
			}
		case *ssa.MakeMap, *ssa.MakeSlice, *ssa.MakeChan, *ssa.Const, *ssa.MakeClosure, *ssa.Function:
			leaf(v, ctx, true, false)
		case *ssa.BinOp:
			leaf(v, ctx, true, false)
		default:
			// globals, builtins, select results, …: not fresh
			leaf(v, ctx, false, false)
		}
	}
	walk(v, nil)
	return res
}

// InPlaceWrite is one instruction that modifies memory it did not necessarily create.
type InPlaceWrite struct {
	Instr  ssa.Instruction
	Target ssa.Value // the address / map / slice / receiver whose referent is modified
	How    string
}

var syncMutator = regexp.MustCompile(`^\(\*sync\.Map\)\.(Store|Delete|LoadOrStore|LoadAndDelete|Swap|CompareAndSwap|CompareAndDelete|Clear)$|^\(\*sync/atomic\.\w+(\[.*\])?\)\.(Store|Add|And|Or|Swap|CompareAndSwap)$`)
var inPlaceSorter = regexp.MustCompile(`^(sort\.(Slice|SliceStable|Sort|Stable|Strings|Ints|Float64s)|slices\.(Sort|SortFunc|SortStableFunc|Reverse)(\[.*\])?)$`)

// InPlaceWrites lists the in-place modifications performed by the instructions of fns (each function's own
// instructions; pass closures explicitly, e.g. a call-graph cone, which attaches them lexically). recvWriters (optional)
// are methods known to write through their receiver (World.ReceiverWriters): a call of one is a write to argument 0.
func (w *World) InPlaceWrites(fns []*ssa.Function, recvWriters map[*ssa.Function]string) []InPlaceWrite {
	var out []InPlaceWrite
	for _, fn := range fns {
		for _, b := range fn.Blocks {
			for _, in := range b.Instrs {
				switch x := in.(type) {
				case *ssa.Store:
					if _, isAlloc := x.Addr.(*ssa.Alloc); isAlloc {
						continue
					}
					if fv, isFV := x.Addr.(*ssa.FreeVar); isFV {
						if _, cellOfLocal := w.FreeVarBinding(fv).(*ssa.Alloc); cellOfLocal {
							continue // assignment to a captured local variable
						}
					}
					out = append(out, InPlaceWrite{in, x.Addr, "store"})
				case *ssa.MapUpdate:
					out = append(out, InPlaceWrite{in, x.Map, "map update"})
				case ssa.CallInstruction:
					c := x.Common()
					if len(c.Args) == 0 {
						continue
					}
					name := w.CalleeName(c)
					switch {
					case mapMutator.MatchString(name):
						out = append(out, InPlaceWrite{in, c.Args[0], name})
					case syncMutator.MatchString(name):
						out = append(out, InPlaceWrite{in, c.Args[0], name})
					case inPlaceSorter.MatchString(name):
						out = append(out, InPlaceWrite{in, c.Args[0], name + " (in place)"})
					default:
						callee := c.StaticCallee()
						if callee == nil || c.IsInvoke() || !IsKarpenterFn(callee) {
							continue
						}
						for j := range w.ParamWrites(callee) {
							if j < len(c.Args) {
								out = append(out, InPlaceWrite{in, c.Args[j], fmt.Sprintf("%s modifies its parameter #%d in place", FnName(callee), j)})
							}
						}
						for j, why := range w.DerefWrites(callee) {
							if j < len(c.Args) {
								out = append(out, InPlaceWrite{in, c.Args[j], fmt.Sprintf("%s writes through its parameter #%d: %s", FnName(callee), j, why)})
							}
						}
						if why, ok := recvWriters[callee]; ok {
							out = append(out, InPlaceWrite{in, c.Args[0], fmt.Sprintf("%s writes through its receiver (%s)", FnName(callee), clip(why, 60))})
						}
					}
				}
			}
		}
	}
	return out
}

var derefWritesMemo = map[*ssa.Function]map[int]string{}

// DerefWrites: the pointer-typed parameters of f (index as in f.Params, receiver first) through which f — its closures,
// or a karpenter function it hands the parameter on to — modifies memory in place: the counterpart of ParamWrites (maps
// and slices) for `func gc(m *sync.Map, k string) { m.Delete(k) }` or `func mark(n *StateNode) { n.x = … }`.
// Memoised; recursion is under-approximated by the cycle guard.
func (w *World) DerefWrites(f *ssa.Function) map[int]string {
	if r, ok := derefWritesMemo[f]; ok {
		return r
	}
	out := map[int]string{}
	derefWritesMemo[f] = out
	if f == nil || len(f.Blocks) == 0 {
		return out
	}
	idx := map[*ssa.Parameter]int{}
	for i, p := range f.Params {
		switch p.Type().Underlying().(type) {
		case *types.Pointer, *types.Interface:
			if !isContext(p.Type()) {
				idx[p] = i
			}
		}
	}
	if len(idx) == 0 {
		return out
	}
	for _, iw := range w.InPlaceWrites(WithClosures(f), nil) {
		for _, l := range w.AliasOrigins(iw.Target).Leaves {
			if p, ok := l.V.(*ssa.Parameter); ok {
				if i, ok := idx[p]; ok {
					if _, dup := out[i]; !dup {
						out[i] = clip(w.RenderInstr(iw.Instr), 70)
					}
				}
			}
		}
	}
	return out
}

// SharedWrite is an in-place write whose target may lie in memory reached through a field of a watched struct type.
type SharedWrite struct {
	InPlaceWrite
	Via       FieldStep
	Exhausted bool
}

// SharedWrites filters InPlaceWrites: the target's origins pass through a field of one of typs (short struct names) and
// are not all local constructions (a store into a composite literal under construction is not a mutation). A walk that
// hit its bound is reported with Exhausted set (the caller fails closed). scanned = number of writes examined,
// viaCalls = number of them whose origins were traced through the result of at least one karpenter function.
func (w *World) SharedWrites(fns []*ssa.Function, typs map[string]bool, recvWriters map[*ssa.Function]string) (hits []SharedWrite, scanned, viaCalls int) {
	for _, iw := range w.InPlaceWrites(fns, recvWriters) {
		scanned++
		r := w.AliasOrigins(iw.Target)
		crossed := false
		for _, l := range r.Leaves {
			if len(l.Calls) > 0 || len(l.Thru) > 0 {
				crossed = true
			}
		}
		if crossed {
			viaCalls++
			if os.Getenv("KVERIF_DEBUG") != "" {
				fmt.Fprintf(os.Stderr, "SharedWrites: traced through a helper result: %s %s: %s\n", w.InstrPos(iw.Instr), FnName(iw.Instr.Parent()), clip(w.RenderInstr(iw.Instr), 110))
			}
		}
		via, ok := r.Through(typs)
		if !ok {
			if r.Exhausted && mentionsType(iw.Target, typs) {
				hits = append(hits, SharedWrite{InPlaceWrite: iw, Exhausted: true})
			}
			continue
		}
		// construction of a new object: every origin is local memory created here (not merely an un-entered call)
		local := !r.Exhausted
		for _, l := range r.Leaves {
			if !l.Fresh || l.Opaque {
				local = false
			}
		}
		if local {
			continue
		}
		hits = append(hits, SharedWrite{InPlaceWrite: iw, Via: via, Exhausted: r.Exhausted})
	}
	return hits, scanned, viaCalls
}

func mentionsType(v ssa.Value, typs map[string]bool) bool {
	for i := 0; i < 8 && v != nil; i++ {
		if typs[structName(v.Type())] {
			return true
		}
		switch x := v.(type) {
		case *ssa.FieldAddr:
			v = x.X
		case *ssa.UnOp:
			v = x.X
		case *ssa.IndexAddr:
			v = x.X
		case *ssa.Lookup:
			v = x.X
		default:
			return false
		}
	}
	return false
}
