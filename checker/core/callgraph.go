package core

import (
	"fmt"
	"go/token"
	"go/types"
	"regexp"
	"sort"
	"strings"

	"golang.org/x/tools/go/ssa"
)

// CallGraph over karpenter functions only. Edges:
//   - static callees (karpenter functions, including instantiations of karpenter generics)
//   - interface invocations resolved by CHA over karpenter types (all named types declared in the module)
//   - dynamic calls of function values: every karpenter function whose address is taken
//     (named function used as a value, bound method) with an identical signature
//   - lexical closure attachment: a function "calls" each anonymous function it creates
//
// Edges out of dependency code are not followed: a closure handed to lo.Filter is reached through
// the lexical edge from its creator, which over-approximates the real call and needs no library body.
type CallGraph struct {
	Out map[*ssa.Function][]*ssa.Function
	// address-taken functions by signature string
	addrTaken map[string][]*ssa.Function
	impls     map[string][]*ssa.Function // iface method full name + "|" + iface type string -> implementations
}

func (w *World) CG() *CallGraph {
	if w.cg != nil {
		return w.cg
	}
	cg := &CallGraph{Out: map[*ssa.Function][]*ssa.Function{}, addrTaken: map[string][]*ssa.Function{}, impls: map[string][]*ssa.Function{}}
	// address-taken named functions / bound methods
	for _, fn := range w.Fns {
		for _, b := range fn.Blocks {
			for _, in := range b.Instrs {
				ops := in.Operands(nil)
				for i, op := range ops {
					if op == nil || *op == nil {
						continue
					}
					f, ok := (*op).(*ssa.Function)
					if !ok {
						continue
					}
					// skip the callee position of a static call
					if ci, ok := in.(ssa.CallInstruction); ok && i == 0 && ci.Common().Value == ssa.Value(f) && !ci.Common().IsInvoke() {
						continue
					}
					if mc, ok := in.(*ssa.MakeClosure); ok && mc.Fn == ssa.Value(f) && f.Parent() != nil {
						continue // real closures are attached lexically
					}
					if !IsKarpenterFn(f) {
						continue
					}
					sig := f.Signature.String()
					if mc, ok := in.(*ssa.MakeClosure); ok && mc.Fn == ssa.Value(f) {
						// bound method closure: signature without receiver is the type of mc
						sig = mc.Type().Underlying().String()
					}
					cg.addrTaken[sig] = appendUniqueFn(cg.addrTaken[sig], f)
				}
			}
		}
	}
	// all named karpenter types (for CHA)
	var named []types.Type
	for path, sp := range w.SSAPkg {
		if !strings.HasPrefix(path, ModPath) {
			continue
		}
		for _, m := range sp.Members {
			if t, ok := m.(*ssa.Type); ok {
				if _, isIface := t.Type().Underlying().(*types.Interface); isIface {
					continue
				}
				named = append(named, t.Type(), types.NewPointer(t.Type()))
			}
		}
	}
	sort.Slice(named, func(i, j int) bool { return named[i].String() < named[j].String() })
	resolve := func(iface *types.Interface, m *types.Func, key string) []*ssa.Function {
		if r, ok := cg.impls[key]; ok {
			return r
		}
		var out []*ssa.Function
		for _, t := range named {
			if tn := NamedOf(t); tn != nil && tn.TypeParams().Len() > 0 {
				continue
			}
			if !types.Implements(t, iface) {
				continue
			}
			sel := w.Prog.MethodSets.MethodSet(t).Lookup(m.Pkg(), m.Name())
			if sel == nil {
				continue
			}
			if f := w.Prog.MethodValue(sel); f != nil {
				out = appendUniqueFn(out, f)
			}
		}
		cg.impls[key] = out
		return out
	}
	for _, fn := range w.Fns {
		var outs []*ssa.Function
		for _, a := range fn.AnonFuncs {
			outs = appendUniqueFn(outs, a)
		}
		for _, b := range fn.Blocks {
			for _, in := range b.Instrs {
				ci, ok := in.(ssa.CallInstruction)
				if !ok {
					continue
				}
				c := ci.Common()
				switch {
				case c.IsInvoke():
					iface, ok := c.Value.Type().Underlying().(*types.Interface)
					if !ok {
						continue
					}
					key := c.Method.FullName() + "|" + c.Value.Type().String()
					for _, f := range resolve(iface, c.Method, key) {
						outs = appendUniqueFn(outs, f)
					}
				case c.StaticCallee() != nil:
					f := c.StaticCallee()
					if IsKarpenterFn(f) {
						outs = appendUniqueFn(outs, f)
					}
				default:
					if _, isBuiltin := c.Value.(*ssa.Builtin); isBuiltin {
						continue
					}
					sig := c.Value.Type().Underlying().String()
					for _, f := range cg.addrTaken[sig] {
						outs = appendUniqueFn(outs, f)
					}
				}
			}
		}
		// functions passed as values are also potential callees of the dependency they are handed to
		for _, b := range fn.Blocks {
			for _, in := range b.Instrs {
				ci, ok := in.(ssa.CallInstruction)
				if !ok {
					continue
				}
				for _, a := range ci.Common().Args {
					switch x := a.(type) {
					case *ssa.Function:
						if IsKarpenterFn(x) {
							outs = appendUniqueFn(outs, x)
						}
					case *ssa.MakeClosure:
						if f, ok := x.Fn.(*ssa.Function); ok && IsKarpenterFn(f) {
							outs = appendUniqueFn(outs, f)
						}
					}
				}
			}
		}
		// function values created here (method values, functions stored in tables) are potential callees from here on
		for _, b := range fn.Blocks {
			for _, in := range b.Instrs {
				if mc, ok := in.(*ssa.MakeClosure); ok {
					if f, ok := mc.Fn.(*ssa.Function); ok && strings.HasPrefix(f.Synthetic, "bound method wrapper") {
						for _, wb := range f.Blocks {
							for _, wi := range wb.Instrs {
								if ci, ok := wi.(ssa.CallInstruction); ok {
									if callee := ci.Common().StaticCallee(); callee != nil && IsKarpenterFn(callee) {
										outs = appendUniqueFn(outs, callee)
									}
								}
							}
						}
					}
					continue
				}
				if _, isCall := in.(ssa.CallInstruction); isCall {
					continue
				}
				for _, op := range in.Operands(nil) {
					if op == nil || *op == nil {
						continue
					}
					if f, ok := (*op).(*ssa.Function); ok && IsKarpenterFn(f) && f.Synthetic == "" {
						outs = appendUniqueFn(outs, f)
					}
				}
			}
		}
		cg.Out[fn] = outs
	}
	w.cg = cg
	return cg
}

func appendUniqueFn(l []*ssa.Function, f *ssa.Function) []*ssa.Function {
	for _, x := range l {
		if x == f {
			return l
		}
	}
	return append(l, f)
}

// Cone returns the functions reachable from roots; `stop` functions are included but not expanded.
func (w *World) Cone(roots []*ssa.Function, stop func(*ssa.Function) bool) (map[*ssa.Function]*ssa.Function, []*ssa.Function) {
	cg := w.CG()
	parent := map[*ssa.Function]*ssa.Function{}
	var order []*ssa.Function
	var queue []*ssa.Function
	for _, r := range roots {
		if _, ok := parent[r]; !ok {
			parent[r] = nil
			queue = append(queue, r)
		}
	}
	for len(queue) > 0 {
		f := queue[0]
		queue = queue[1:]
		order = append(order, f)
		if stop != nil && stop(f) {
			continue
		}
		for _, g := range cg.Out[f] {
			if _, ok := parent[g]; !ok {
				parent[g] = f
				queue = append(queue, g)
			}
		}
	}
	return parent, order
}

// PathTo renders the call path root → … → fn recorded by Cone.
func PathTo(parent map[*ssa.Function]*ssa.Function, fn *ssa.Function) string {
	var parts []string
	for f := fn; f != nil; f = parent[f] {
		parts = append([]string{FnName(f)}, parts...)
		if len(parts) > 40 {
			break
		}
	}
	return strings.Join(parts, " → ")
}

// CONE: no instruction matching Forbidden is reachable from Roots (karpenter code only).
type CONE struct {
	ID        string
	Roots     []string
	Forbidden []string // regexps over RenderInstr
	Stop      []string // regexps over function names that are not expanded (audited, with reason in Note)
	SkipFn    []string // regexps over function names whose own instructions are exempt (audited)
	MinSize   int      // minimum cone size confirmed by hand
	Note      string
}

func (r CONE) RuleID() string { return r.ID }

func compileAll(l []string) []*regexp.Regexp {
	var out []*regexp.Regexp
	for _, s := range l {
		out = append(out, regexp.MustCompile(s))
	}
	return out
}

func matchAnyStr(s string, res []*regexp.Regexp) bool {
	for _, re := range res {
		if re.MatchString(s) {
			return true
		}
	}
	return false
}

func (r CONE) Check(w *World) []Result {
	var roots []*ssa.Function
	for _, n := range r.Roots {
		f := w.Fn(n)
		if f == nil {
			return anchorMissing(r.ID, "CONE", n)
		}
		roots = append(roots, f)
	}
	stops := compileAll(r.Stop)
	skips := compileAll(r.SkipFn)
	forb := compileAll(r.Forbidden)
	parent, order := w.Cone(roots, func(f *ssa.Function) bool { return matchAnyStr(FnName(f), stops) })
	construct := "CONE:" + strings.Join(r.Roots, ",")
	if len(order) < r.MinSize {
		return []Result{one(r.ID, "CONE", construct, Violated, len(order), "", fmt.Sprintf("vacuous: cone has %d functions, %d confirmed by hand", len(order), r.MinSize))}
	}
	var out []Result
	ninstr := 0
	for _, f := range order {
		name := FnName(f)
		if matchAnyStr(name, skips) || matchAnyStr(name, stops) {
			continue
		}
		for _, b := range f.Blocks {
			for _, in := range b.Instrs {
				if !interestingInstr(in) {
					continue
				}
				ninstr++
				s := w.RenderInstr(in)
				if matchAnyStr(s, forb) {
					out = append(out, one(r.ID, "CONE", construct+"↛"+name, Violated, 0, w.InstrPos(in),
						fmt.Sprintf("forbidden effect `%s` reachable: %s", clip(s, 140), PathTo(parent, f))))
				}
			}
		}
	}
	if len(out) == 0 {
		out = append(out, one(r.ID, "CONE", construct, Discharged, len(order), "", fmt.Sprintf("cone of %d functions, %d effect instructions scanned, none forbidden", len(order), ninstr)))
	}
	return out
}

// ReceiverWriters computes, for methods with a pointer receiver of the given named type (short name), the set that
// write memory reachable through the receiver's fields: a store / map update / delete on `$0.<field>…`, a mutating
// call on a sync.Map / atomic field of the receiver, or (transitively) a call of another writer method on `$0`.
func (w *World) ReceiverWriters(typeShorts ...string) map[*ssa.Function]string {
	var methods []*ssa.Function
	for _, fn := range w.Fns {
		for _, typeShort := range typeShorts {
			if strings.HasPrefix(FnName(fn), "(*"+typeShort+").") && fn.Parent() == nil && fn.Synthetic == "" {
				methods = append(methods, fn)
			}
		}
	}
	syncCall := regexp.MustCompile(`^call \(\*sync\.Map\)\.(Store|Delete|LoadOrStore|LoadAndDelete|Swap|CompareAndSwap|CompareAndDelete|Clear)\(|^call \(\*sync/atomic\.\w+\)\.(Store|Add|Swap|CompareAndSwap)\(`)
	writers := map[*ssa.Function]string{}
	for _, fn := range methods {
		for _, f := range WithClosures(fn) {
			for _, b := range f.Blocks {
				for _, in := range b.Instrs {
					var target ssa.Value
					switch x := in.(type) {
					case *ssa.Store:
						target = x.Addr
					case *ssa.MapUpdate:
						target = x.Map
					case *ssa.Call:
						if bi, ok := x.Call.Value.(*ssa.Builtin); ok && bi.Name() == "delete" && len(x.Call.Args) > 0 {
							target = x.Call.Args[0]
						} else if syncCall.MatchString(w.RenderInstr(in)) && len(x.Call.Args) > 0 {
							target = x.Call.Args[0]
						}
					}
					if target == nil {
						continue
					}
					if root, steps := w.AddrRoot(target); steps > 0 && isParam0(root) {
						if _, ok := writers[fn]; !ok {
							writers[fn] = clip(w.RenderInstr(in), 100) + " @" + w.InstrPos(in)
						}
					}
				}
			}
		}
	}
	for changed := true; changed; {
		changed = false
		for _, fn := range methods {
			if _, ok := writers[fn]; ok {
				continue
			}
			for _, f := range WithClosures(fn) {
				for _, b := range f.Blocks {
					for _, in := range b.Instrs {
						ci, ok := in.(ssa.CallInstruction)
						if !ok {
							continue
						}
						callee := ci.Common().StaticCallee()
						if callee == nil {
							continue
						}
						if why, isW := writers[callee]; isW && len(ci.Common().Args) > 0 {
							if root, _ := w.AddrRoot(ci.Common().Args[0]); isParam0(root) {
								writers[fn] = "calls " + FnName(callee) + " (" + clip(why, 80) + ")"
								changed = true
							}
						}
					}
				}
			}
		}
	}
	return writers
}

func isParam0(v ssa.Value) bool {
	p, ok := v.(*ssa.Parameter)
	return ok && paramIndex(p) == 0 && p.Parent().Signature.Recv() != nil
}

// AddrRoot follows an address/value back to the object it is derived from, counting the field/index/lookup
// steps taken. Loads, conversions, captured variables and single-store locals are transparent.
func (w *World) AddrRoot(v ssa.Value) (ssa.Value, int) {
	steps := 0
	for i := 0; i < 64; i++ {
		switch x := v.(type) {
		case *ssa.FieldAddr:
			v = x.X
			steps++
		case *ssa.Field:
			v = x.X
			steps++
		case *ssa.IndexAddr:
			v = x.X
			steps++
		case *ssa.Index:
			v = x.X
			steps++
		case *ssa.Lookup:
			v = x.X
			steps++
		case *ssa.UnOp:
			if x.Op != token.MUL {
				return v, steps
			}
			if a, ok := x.X.(*ssa.Alloc); ok {
				// a load of a local: see through it when it has exactly one store (spilled parameter, := once)
				sts := w.storesTo(a)
				if len(sts) != 1 {
					return a, steps
				}
				v = sts[0].Val
				continue
			}
			v = x.X
		case *ssa.Extract:
			v = x.Tuple
		case *ssa.ChangeType:
			v = x.X
		case *ssa.MakeInterface:
			v = x.X
		case *ssa.TypeAssert:
			v = x.X
		case *ssa.Slice:
			v = x.X
		case *ssa.FreeVar:
			b := w.FreeVarBinding(x)
			if b == nil {
				return v, steps
			}
			v = b
		default:
			return v, steps
		}
	}
	return v, steps
}

// CallersOf lists the functions with a call edge to f (in deterministic order).
func (g *CallGraph) CallersOf(f *ssa.Function) []*ssa.Function {
	var out []*ssa.Function
	for from, tos := range g.Out {
		for _, t := range tos {
			if t == f {
				out = append(out, from)
				break
			}
		}
	}
	sort.Slice(out, func(i, j int) bool { return out[i].String() < out[j].String() })
	return out
}
