// kverif — static verification of the Karpenter properties (see /verif/DESIGN.md).
package main

import (
	"flag"
	"fmt"
	"os"
	"regexp"
	"sort"
	"strconv"
	"strings"
	"time"

	"kverif/core"
	_ "kverif/props"

	"golang.org/x/tools/go/ssa"
)

func usage() {
	fmt.Fprintln(os.Stderr, `usage:
  kverif check <property|all> [quick|thorough]   evaluate obligations, write evidence/<id>.json
  kverif list                                     list properties and rule counts
  kverif dump <fn-regexp>                         canonical rendering of matching functions (blocks, literals, instructions)
  kverif sites <instr-regexp> [fn-regexp]         all instruction sites matching, with dominating literals
env: KVERIF_REPO (default /repo), KVERIF_DIR (default /verif), VERIF_SEED, VERIF_TIER`)
	os.Exit(2)
}

func env(k, d string) string {
	if v := os.Getenv(k); v != "" {
		return v
	}
	return d
}

func main() {
	flag.Usage = usage
	flag.Parse()
	args := flag.Args()
	if len(args) == 0 {
		usage()
	}
	repo := env("KVERIF_REPO", "/repo")
	vdir := env("KVERIF_DIR", "/verif")
	switch args[0] {
	case "list":
		ids := propIDs()
		for _, id := range ids {
			p := core.Registry[id]
			fmt.Printf("%s  quick=%d thorough=%d  %s\n", id, len(p.Rules("quick")), len(p.Rules("thorough")), p.Title)
		}
	case "check":
		if len(args) < 2 {
			usage()
		}
		tier := env("VERIF_TIER", "quick")
		if len(args) >= 3 {
			tier = args[2]
		}
		if tier != "quick" && tier != "thorough" {
			usage()
		}
		seed, _ := strconv.Atoi(env("VERIF_SEED", "0"))
		var props []*core.Property
		if args[1] == "all" {
			for _, id := range propIDs() {
				props = append(props, core.Registry[id])
			}
		} else {
			p := core.Registry[args[1]]
			if p == nil {
				fmt.Fprintln(os.Stderr, "unknown property", args[1])
				os.Exit(2)
			}
			props = append(props, p)
		}
		t0 := time.Now()
		w, err := core.Load(repo, nil)
		exit := 0
		for _, p := range props {
			tp := t0
			if len(props) > 1 {
				tp = time.Now()
			}
			if c := core.RunProperty(w, p, tier, vdir, seed, err, tp); c > exit {
				exit = c
			}
		}
		os.Exit(exit)
	case "dump":
		if len(args) < 2 {
			usage()
		}
		w := mustLoad(repo)
		re := regexp.MustCompile(args[1])
		for _, fn := range w.Fns {
			if re.MatchString(core.FnName(fn)) {
				dumpFn(w, fn)
			}
		}
	case "sites":
		if len(args) < 2 {
			usage()
		}
		w := mustLoad(repo)
		re := regexp.MustCompile(args[1])
		var fre *regexp.Regexp
		if len(args) > 2 {
			fre = regexp.MustCompile(args[2])
		}
		for _, fn := range w.Fns {
			if fre != nil && !fre.MatchString(core.FnName(fn)) {
				continue
			}
			for _, s := range w.Sites(fn, re, false) {
				fmt.Printf("%s  %s\n   %s\n", core.FnName(fn), w.InstrPos(s), w.RenderInstr(s))
				for _, l := range w.DominatingLits(s) {
					fmt.Println("      ", l)
				}
			}
		}
	default:
		usage()
	}
}

func propIDs() []string {
	var ids []string
	for id := range core.Registry {
		ids = append(ids, id)
	}
	sort.Strings(ids)
	return ids
}

func mustLoad(repo string) *core.World {
	w, err := core.Load(repo, nil)
	if err != nil {
		fmt.Fprintln(os.Stderr, err)
		os.Exit(2)
	}
	return w
}

func dumpFn(w *core.World, fn *ssa.Function) {
	fmt.Printf("\n=== %s  (%s) synthetic=%q\n", core.FnName(fn), w.Pos(fn.Pos()), fn.Synthetic)
	for _, b := range fn.Blocks {
		var preds, succs []string
		for _, p := range b.Preds {
			preds = append(preds, fmt.Sprint(p.Index))
		}
		for _, s := range b.Succs {
			succs = append(succs, fmt.Sprint(s.Index))
		}
		fmt.Printf(" b%d [%s] preds=%s succs=%s\n", b.Index, b.Comment, strings.Join(preds, ","), strings.Join(succs, ","))
		for _, in := range b.Instrs {
			switch in.(type) {
			case *ssa.Call, *ssa.Go, *ssa.Defer, *ssa.Store, *ssa.MapUpdate, *ssa.Return, *ssa.Panic, *ssa.Send, *ssa.MakeClosure, *ssa.Phi:
				fmt.Printf("     %-14s %s\n", w.InstrPos(in), w.RenderInstr(in))
			}
		}
		if t, f, ok := w.BlockLits(b); ok {
			fmt.Printf("     if  T→b%d: %s\n         F→b%d: %s\n", b.Succs[0].Index, t, b.Succs[1].Index, f)
		}
	}
}
