// kverif — static verification of the Karpenter properties (see /verif/DESIGN.md).
package main

import (
	"encoding/json"
	"flag"
	"fmt"
	"os"
	"regexp"
	"sort"
	"strconv"
	"strings"
	"time"

	"kverif/core"
	_ "kverif/props"

	"golang.org/x/tools/go/ssa"
)

func usage() {
	fmt.Fprintln(os.Stderr, `usage:
  kverif check <property|all> [quick|thorough]   evaluate obligations, write evidence/<id>.json
  kverif list                                     list properties and rule counts
  kverif dump <fn-regexp>                         canonical rendering of matching functions (blocks, literals, instructions)
  kverif sites <instr-regexp> [fn-regexp]         all instruction sites matching, with dominating literals
env: KVERIF_REPO (default /repo), KVERIF_DIR (default /verif), VERIF_SEED, VERIF_TIER`)
	os.Exit(2)
}

func env(k, d string) string {
	if v := os.Getenv(k); v != "" {
		return v
	}
	return d
}

func main() {
	flag.Usage = usage
	flag.Parse()
	args := flag.Args()
	if len(args) == 0 {
		usage()
	}
	repo := env("KVERIF_REPO", "/repo")
	vdir := env("KVERIF_DIR", "/verif")
	switch args[0] {
	case "list":
		ids := propIDs()
		for _, id := range ids {
			p := core.Registry[id]
			fmt.Printf("%s  quick=%d thorough=%d  %s\n", id, len(p.Rules("quick")), len(p.Rules("thorough")), p.Title)
		}
	case "check":
		if len(args) < 2 {
			usage()
		}
		tier := env("VERIF_TIER", "quick")
		if len(args) >= 3 {
			tier = args[2]
		}
		if tier != "quick" && tier != "thorough" {
			usage()
		}
		seed, _ := strconv.Atoi(env("VERIF_SEED", "0"))
		var props []*core.Property
		if args[1] == "all" {
			for _, id := range propIDs() {
				props = append(props, core.Registry[id])
			}
		} else {
			p := core.Registry[args[1]]
			if p == nil {
				fmt.Fprintln(os.Stderr, "unknown property", args[1])
				os.Exit(2)
			}
			props = append(props, p)
		}
		t0 := time.Now()
		w, err := core.Load(repo, nil)
		exit := 0
		for _, p := range props {
			tp := t0
			if len(props) > 1 {
				tp = time.Now()
			}
			if c := core.RunProperty(w, p, tier, vdir, seed, err, tp); c > exit {
				exit = c
			}
		}
		os.Exit(exit)
	case "manifest":
		writeManifest(vdir)
	case "mutgen":
		mutgen(repo, args[1:])
	case "dump":
		if len(args) < 2 {
			usage()
		}
		w := mustLoad(repo)
		re := regexp.MustCompile(args[1])
		for _, fn := range w.Fns {
			if re.MatchString(core.FnName(fn)) {
				dumpFn(w, fn)
			}
		}
	case "paths":
		if len(args) < 2 {
			usage()
		}
		w := mustLoad(repo)
		re := regexp.MustCompile(args[1])
		for _, fn := range w.Fns {
			if re.MatchString(core.FnName(fn)) {
				fmt.Println("===", core.FnName(fn))
				w.PrintPaths(fn)
			}
		}
	case "fieldstores":
		w := mustLoad(repo)
		typs := map[string]bool{}
		for _, t := range args[1:] {
			typs[t] = true
		}
		var fns []*ssa.Function
		for _, f := range w.Fns {
			if !core.IsTestSupport(f) {
				fns = append(fns, f)
			}
		}
		for _, in := range w.StructFieldStores(fns, typs) {
			fmt.Printf("%s  %s\n    %s\n", core.FnName(in.Parent()), w.InstrPos(in), w.RenderInstr(in))
		}
	case "writers":
		w := mustLoad(repo)
		ws := w.ReceiverWriters(args[1:]...)
		var names []string
		for f, why := range ws {
			names = append(names, core.FnName(f)+"   <- "+why)
		}
		sort.Strings(names)
		for _, n := range names {
			fmt.Println(n)
		}
	case "sites":
		if len(args) < 2 {
			usage()
		}
		w := mustLoad(repo)
		re := regexp.MustCompile(args[1])
		var fre *regexp.Regexp
		if len(args) > 2 {
			fre = regexp.MustCompile(args[2])
		}
		for _, fn := range w.Fns {
			if fre != nil && !fre.MatchString(core.FnName(fn)) {
				continue
			}
			for _, s := range w.Sites(fn, re, false) {
				fmt.Printf("%s  %s\n   %s\n", core.FnName(fn), w.InstrPos(s), w.RenderInstr(s))
				for _, l := range w.DominatingLits(s) {
					fmt.Println("      ", l)
				}
			}
		}
	default:
		usage()
	}
}

// customKind spells out what a hand-written rule of the given kind decides.
func customKind(k string) string {
	switch k {
	case "PROV":
		return "PROV value-provenance of an argument / stored value"
	case "REG":
		return "REG table / registry agreement"
	case "SYM":
		return "SYM sibling agreement"
	case "COPY":
		return "COPY field coverage and deep-copy freshness"
	case "WSET":
		return "WSET type-resolved write-set inventory"
	case "LOCK":
		return "LOCK lockset discipline"
	case "PHI":
		return "PHI loop-carried value flow"
	case "FCOV":
		return "FCOV field coverage"
	case "ORD":
		return "ORD comparator shape (linear forms)"
	case "RET":
		return "RET returned-view composition"
	case "CONE":
		return "CONE call-graph no-reach"
	case "TT":
		return "TT exact truth table of a small predicate"
	case "DOM":
		return "DOM guarded-effect (cut-set dominance)"
	case "MPT":
		return "MPT must-pass-on-success"
	case "POST":
		return "POST must-follow"
	case "WMC":
		return "WMC who-may-call inventory"
	}
	return k
}

func propIDs() []string {
	var ids []string
	for id := range core.Registry {
		ids = append(ids, id)
	}
	sort.Strings(ids)
	return ids
}

func mustLoad(repo string) *core.World {
	w, err := core.Load(repo, nil)
	if err != nil {
		fmt.Fprintln(os.Stderr, err)
		os.Exit(2)
	}
	return w
}

func dumpFn(w *core.World, fn *ssa.Function) {
	fmt.Printf("\n=== %s  (%s) synthetic=%q\n", core.FnName(fn), w.Pos(fn.Pos()), fn.Synthetic)
	for _, b := range fn.Blocks {
		var preds, succs []string
		for _, p := range b.Preds {
			preds = append(preds, fmt.Sprint(p.Index))
		}
		for _, s := range b.Succs {
			succs = append(succs, fmt.Sprint(s.Index))
		}
		fmt.Printf(" b%d [%s] preds=%s succs=%s\n", b.Index, b.Comment, strings.Join(preds, ","), strings.Join(succs, ","))
		for _, in := range b.Instrs {
			switch in.(type) {
			case *ssa.Call, *ssa.Go, *ssa.Defer, *ssa.Store, *ssa.MapUpdate, *ssa.Return, *ssa.Panic, *ssa.Send, *ssa.MakeClosure, *ssa.Phi:
				fmt.Printf("     %-14s %s\n", w.InstrPos(in), w.RenderInstr(in))
			}
		}
		if t, f, ok := w.BlockLits(b); ok {
			fmt.Printf("     if  T→b%d: %s\n         F→b%d: %s\n", b.Succs[0].Index, t, b.Succs[1].Index, f)
		}
	}
}

// notClaimed lists properties that have no table (yet) with the reason; kept next to the registry so MANIFEST.json is always regenerated consistently.
var notClaimed = func() map[string]string {
	m := map[string]string{}
	for i := 1; i <= 20; i++ {
		m[fmt.Sprintf("C%02d", i)] = "no obligation table is registered for this property in this revision; nothing is claimed"
	}
	return m
}()

func writeManifest(vdir string) {
	type level struct {
		Category  string `json:"category"`
		Text      string `json:"text"`
		DesignRef string `json:"design_ref"`
	}
	type check struct {
		PropertyID string `json:"property_id"`
		QuickCmd   string `json:"quick_cmd"`
		Thorough   string `json:"thorough_cmd"`
		Evidence   string `json:"evidence_file"`
		Replay     string `json:"replay_cmd_template"`
		Engine     string `json:"engine"`
		Level      level  `json:"level_claimed"`
		LevelNote  string `json:"level_note"`
		Technique  string `json:"technique"`
	}
	type na struct {
		PropertyID string `json:"property_id"`
		Reason     string `json:"reason"`
	}
	var checks []check
	var served []string
	for _, id := range propIDs() {
		p := core.Registry[id]
		served = append(served, id)
		kinds := map[string]bool{}
		for _, r := range p.Rules("thorough") {
			switch x := r.(type) {
			case core.DOM:
				kinds["DOM guarded-effect (cut-set dominance)"] = true
			case core.MPT:
				kinds["MPT must-pass-on-success"] = true
			case core.POST:
				kinds["POST must-follow"] = true
			case core.WMC:
				kinds["WMC who-may-call inventory"] = true
			case core.CONE:
				kinds["CONE call-graph no-reach"] = true
			case core.IMPL:
				kinds["IMPL literal-excludes-outcome"] = true
			case core.FLAG:
				kinds["FLAG loop-flag guard"] = true
			case core.NOREACH:
				kinds["NOREACH effect-unreachable-after"] = true
			case core.TABLE:
				kinds["TT exact truth table of a small predicate"] = true
			case core.ITER:
				kinds["ITER every-completed-iteration-passes"] = true
			case core.ERRFLOW:
				kinds["ERRFLOW failed-result-does-not-reach-effect"] = true
			case core.Custom:
				kinds[customKind(x.Kind)] = true
			}
		}
		var ks []string
		for k := range kinds {
			if !strings.Contains(k, " ") {
				dup := false
				for k2 := range kinds {
					if strings.HasPrefix(k2, k+" ") {
						dup = true
					}
				}
				if dup {
					continue
				}
			}
			ks = append(ks, k)
		}
		sort.Strings(ks)
		checks = append(checks, check{
			PropertyID: id,
			QuickCmd:   "./run.sh check " + id + " quick",
			Thorough:   "./run.sh thorough " + id,
			Evidence:   "/verif/evidence/" + id + ".json",
			Replay:     "cat {path}; ./run.sh check " + id + " quick",
			Engine:     "kverif",
			Level: level{Category: "other",
				Text:      "Static analysis of /repo's type-checked SSA: structural necessary conditions of the property are decided for all inputs/schedules at once; the behavioural remainder is listed as not covered (level_note). The thorough tier additionally re-runs the analysis on single-site variants of the current tree (mutants and confirmed seeded changes) to show every rule instance is sensitive. " + p.Explanation,
				DesignRef: "DESIGN.md §3 " + id},
			LevelNote: "Trusted: go/types + go/ssa (x/tools v0.50.0), the documented contracts of dependency calls, the audited exception rows in checker/props/" + id + "*.go. Not covered: " + strings.Join(p.NotCovered, "; "),
			Technique: "static analysis over go/ssa: " + strings.Join(ks, ", "),
		})
	}
	var nas []na
	var naIDs []string
	for id := range notClaimed {
		if core.Registry[id] == nil {
			naIDs = append(naIDs, id)
		}
	}
	sort.Strings(naIDs)
	for _, id := range naIDs {
		nas = append(nas, na{id, notClaimed[id]})
	}
	m := map[string]any{
		"version":   1,
		"setup_cmd": "./run.sh build",
		"hooks": map[string]any{
			"guard":            "verif",
			"enable":           "no hooks: the checks read /repo's working tree with the default build tags; nothing is compiled into the repository",
			"baseline_off_cmd": "cd /repo && PATH=/opt/veriftools/go1.26.8/bin:$PATH GOTOOLCHAIN=local GOFLAGS=-mod=mod GOPROXY=off GOSUMDB=off go test -vet=off -count=1 -timeout 25m ./...",
			"source_commits":   []string{},
			"add_only":         true,
		},
		"engines": []map[string]any{{
			"name": "kverif", "path": "/verif/checker", "serves_properties": served,
			"kind_free_text": "repository-specific static analyzer (go/packages → go/types → go/ssa): cut-set dominance, must-pass, post-dominance, who-may-call inventories, call-graph cones, copy/field coverage, lockset, truth-table and comparison-shape rules; decides from source, never runs /repo",
		}},
		"checks":         checks,
		"not_applicable": nas,
		"notes":          "All checks are static (family: static analysis). Each claims level `other`: named structural necessary conditions, see DESIGN.md. known_findings.json lists recorded defects (KNOWN-FINDING lines) and the fix: commits made in /repo.",
	}
	if nas == nil {
		m["not_applicable"] = []na{}
	}
	b, _ := json.MarshalIndent(m, "", " ")
	if err := os.WriteFile(vdir+"/MANIFEST.json", append(b, '\n'), 0o644); err != nil {
		fmt.Fprintln(os.Stderr, err)
		os.Exit(2)
	}
	fmt.Println("wrote", vdir+"/MANIFEST.json", len(checks), "checks,", len(nas), "not applicable")
}
