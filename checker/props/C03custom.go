package props

import (
	"fmt"
	"regexp"
	"strings"

	"kverif/core"

	"golang.org/x/tools/go/ssa"
)

// C03.SYM1b: both branches of Cluster.Synced return false as soon as one NodeClaim has an empty provider id.
func c03SyncedLoops(w *core.World, id string) []core.Result {
	r := IMPL{ID: id, Fn: "(*state.Cluster).Synced", Lit: `+^next\(range\(\$0\.nodeClaimNameToProviderID\)\)#2 == ""$`, Not: core.RetTrue, Min: 2}
	return r.Check(w)
}

// C03.PROV2: headroom is seeded from the NodePools' Spec.Limits.
func c03Seed(w *core.World, id string) []core.Result {
	rs := core.InstrPresent(w, id, "PROV", "sched.NewScheduler",
		`^store &local<sched\.Scheduler>\.remainingResources = lo\.SliceToMap\[\*apis/v1\.NodePool, string, corev1\.ResourceList\]\(\$2, (fn|closure):sched\.NewScheduler\$\d+\)$`, 1,
		"Scheduler.remainingResources is built from the NodePool list handed to NewScheduler")
	if rs[0].Status != core.Discharged {
		return rs
	}
	// the mapping closure returns (name, Spec.Limits)
	fn := w.Fn("sched.NewScheduler")
	re := regexp.MustCompile(`^return \$0\.ObjectMeta\.Name, \$0\.Spec\.Limits$`)
	n := 0
	for _, f := range core.WithClosures(fn) {
		if len(w.Sites(f, re, false)) > 0 {
			n++
		}
	}
	if n == 0 {
		return []core.Result{core.Bad(id, "PROV", "PROV:sched.NewScheduler:remainingResources", w.Pos(fn.Pos()),
			"no closure in NewScheduler maps a NodePool to (Name, Spec.Limits): the headroom is no longer seeded from the NodePool limits")}
	}
	return rs
}

// C03.CMP1: filterByRemainingResources keeps an instance type only if no resource of its capacity exceeds the headroom.
func c03FilterCmp(w *core.World, id string) []core.Result {
	r := FLAG{ID: id, Fn: "sched.filterByRemainingResources", Sink: `^call append\(`,
		Lit: `+^0 < utils/resources\.Cmp\(\$0\[.*\]\.Capacity\[next\(range\(\$1\)\)#1\], next\(range\(\$1\)\)#2\)$`}
	return r.Check(w)
}

// C03.SYM3: both writers of Scheduler.remainingResources account the `nodes` key. Existing nodes subtract
// StateNode.Capacity(), which adds resources.Node: 1 on each of its return paths; planned claims subtract
// subtractMax(...), which must therefore also charge one node (F10).
func c03NodeKey(w *core.World, id string) []core.Result {
	var out []core.Result
	capFn := w.Fn("(*state.StateNode).Capacity")
	if capFn == nil {
		return []core.Result{core.Anchor(id, "SYM", "(*state.StateNode).Capacity")}
	}
	nodeKey := regexp.MustCompile(`^mapupdate .*\[utils/resources\.Node\] = `)
	// every return of Capacity is preceded by a map update of the node key
	post := POST{ID: id, Fn: "(*state.StateNode).Capacity", From: "", Must: []string{nodeKey.String()}}
	out = append(out, post.Check(w)...)
	// planned claims
	sub := w.Fn("sched.subtractMax")
	add := w.Fn("(*sched.Scheduler).addToNewNodeClaim")
	if sub == nil || add == nil {
		return []core.Result{core.Anchor(id, "SYM", "sched.subtractMax / addToNewNodeClaim")}
	}
	mention := regexp.MustCompile(`utils/resources\.Node`)
	n := 0
	for _, f := range core.WithClosures(sub) {
		n += len(w.Sites(f, mention, false))
	}
	for _, s := range w.Sites(add, regexp.MustCompile(`^(mapupdate|call).*utils/resources\.Node`), false) {
		_ = s
		n++
	}
	// but the early exit reads the key: confirm the asymmetry is real (the scheduler does gate on it)
	gateReads := 0
	for _, f := range core.WithClosures(add) {
		for _, b := range f.Blocks {
			if t, _, ok := w.BlockLits(b); ok && strings.Contains(t.Expr, "utils/resources.Node") {
				gateReads++
			}
		}
	}
	if gateReads > 0 && n == 0 {
		out = append(out, core.Bad(id, "SYM", "SYM:remainingResources:nodes-key@sched.subtractMax", w.Pos(sub.Pos()),
			"addToNewNodeClaim gates on remaining[nodes] and existing nodes are charged one node each via StateNode.Capacity(), but subtractMax never decrements the nodes key for a planned NodeClaim: "+
				"with limits.nodes=N one pass can plan more than N NodeClaims"))
	} else {
		out = append(out, core.OK(id, "SYM", "SYM:remainingResources:nodes-key", n, fmt.Sprintf("planned claims charge the nodes key (%d site(s))", n)))
	}
	return out
}

// C03.FCOV1: the condition guarding the deletion of the pool entry in Cleanup reads all three NodeClaim sets.
func c03CleanupCoverage(w *core.World, id string) []core.Result {
	fn := w.Fn("(*state.NodePoolState).Cleanup")
	if fn == nil {
		return []core.Result{core.Anchor(id, "FCOV", "(*state.NodePoolState).Cleanup")}
	}
	sites := w.Sites(fn, regexp.MustCompile(`^call delete\(\$0\.nodePoolNameToNodeClaimState, `), false)
	construct := "FCOV:(*state.NodePoolState).Cleanup▸delete(nodePoolNameToNodeClaimState)"
	if len(sites) == 0 {
		return []core.Result{core.Bad(id, "FCOV", construct, w.Pos(fn.Pos()), "vacuous: garbage collection of the pool entry not found")}
	}
	fields, _ := w.StructFields("state.NodeClaimState")
	if len(fields) == 0 {
		return []core.Result{core.Anchor(id, "FCOV", "type state.NodeClaimState")}
	}
	var out []core.Result
	for _, s := range sites {
		read := map[string]bool{}
		for _, c := range core.CondsGuarding(s) {
			for k := range w.FieldsRead(c, "state.NodeClaimState", 8) {
				read[k] = true
			}
		}
		var missing []string
		for _, f := range fields {
			if !read[f] {
				missing = append(missing, f)
			}
		}
		if len(missing) > 0 {
			out = append(out, core.Bad(id, "FCOV", construct, w.InstrPos(s),
				fmt.Sprintf("the pool entry is deleted under a condition that does not read NodeClaimState.%s — NodeClaims recorded there are forgotten and node counts read 0", strings.Join(missing, ", "))))
		}
	}
	if len(out) == 0 {
		out = append(out, core.OK(id, "FCOV", construct, len(sites), fmt.Sprintf("guard reads all of %v", fields)))
	}
	return out
}

// C03.PROV4: the static provisioning loop builds exactly ReserveNodeCount(...) claims: the loop bound is the grant.
func c03StaticLoopBound(w *core.World, id string) []core.Result {
	const fnName = "(*controllers/static/provisioning.Controller).Reconcile"
	fn := w.Fn(fnName)
	if fn == nil {
		return []core.Result{core.Anchor(id, "PROV", fnName)}
	}
	construct := "PROV:" + fnName + ":loop-bound"
	appends := w.Sites(fn, regexp.MustCompile(`^call append\(.*sched\.NodeClaim`), false)
	if len(appends) == 0 {
		return []core.Result{core.Bad(id, "PROV", construct, w.Pos(fn.Pos()), "vacuous: append of a static NodeClaim not found")}
	}
	// the counting loop that contains the append is bounded by the grant: its back-edge test is `(i+1) < ReserveNodeCount(...)`
	loopTest := regexp.MustCompile(`^\(phi\(.*\) \+ 1\) < (.*)$`)
	grant := regexp.MustCompile(`^\(\*state\.NodePoolState\)\.ReserveNodeCount\(`)
	for _, a := range appends {
		found := false
		for _, b := range fn.Blocks {
			t, _, ok := w.BlockLits(b)
			if !ok || !t.Pol {
				continue
			}
			m := loopTest.FindStringSubmatch(t.Expr)
			if m == nil || b.Succs[0] != a.Block() {
				continue
			}
			found = true
			if !grant.MatchString(m[1]) {
				return []core.Result{core.Bad(id, "PROV", construct, w.InstrPos(a),
					"the loop that builds static NodeClaims is bounded by `"+m[1]+"`, not by the count granted by ReserveNodeCount")}
			}
		}
		if !found {
			return []core.Result{core.Bad(id, "PROV", construct, w.InstrPos(a), "the static NodeClaims are not built in a counting loop bounded by the ReserveNodeCount grant (idiom not recognised)")}
		}
	}
	// and CreateNodeClaims receives that slice
	return core.ArgProvenance(w, id, fnName, `^call \(\*prov\.Provisioner\)\.CreateNodeClaims\(`, 2, `append\(`, "CreateNodeClaims receives the slice built in the bounded loop")
}

// C03.PROV5: ReserveNodeCount in static provisioning is asked for (replicas − running) against the pool's node limit.
func c03ReserveArgs(w *core.World, id string) []core.Result {
	const fnName = "(*controllers/static/provisioning.Controller).Reconcile"
	rs := core.ArgProvenance(w, id, fnName, `^call \(\*state\.NodePoolState\)\.ReserveNodeCount\(`, 2,
		`^lo\.Ternary\[int64\]\(\$2\.Spec\.Limits\[utils/resources\.Node\]#1, \(\*apim/api/resource\.Quantity\)\.Value\(.*\), 9223372036854775807\)$`,
		"the limit passed to ReserveNodeCount is Spec.Limits[nodes] (or unlimited)")
	rs = append(rs, core.ArgProvenance(w, id, fnName, `^call \(\*state\.NodePoolState\)\.ReserveNodeCount\(`, 3,
		`^\(lo\.FromPtr\[int64\]\(\$2\.Spec\.Replicas\) - .*GetNodeCount\(.*\)#0\)$`,
		"the wanted count is replicas − running")...)
	rs = append(rs, core.ArgProvenance(w, id, fnName, `^call \(\*state\.NodePoolState\)\.ReserveNodeCount\(`, 1,
		`^\$2\.ObjectMeta\.Name$`, "reservation is taken on the reconciled NodePool")...)
	return rs
}

// C03.ORD2: shape of ReserveNodeCount: grant = min(wanted, limit − active − deleting − pending − reserved), 0 when negative,
// and the grant returned is the amount added to the reservation counter.
func c03ReserveShape(w *core.World, id string) []core.Result {
	const fnName = "(*state.NodePoolState).ReserveNodeCount"
	fn := w.Fn(fnName)
	if fn == nil {
		return []core.Result{core.Anchor(id, "ORD", fnName)}
	}
	construct := "ORD:" + fnName
	var out []core.Result
	want := map[string]int{
		"$2": 1, // limit
		"(*state.NodePoolState).nodeCounts($0, $1)#0":                   -1,
		"(*state.NodePoolState).nodeCounts($0, $1)#1":                   -1,
		"(*state.NodePoolState).nodeCounts($0, $1)#2":                   -1,
		"(*sync/atomic.Int64).Load($0.nodePoolNameToNodePoolLimit[$1])": -1,
	}
	// (a) find `remaining < 0` and check the linear form of remaining; its true edge returns the constant 0
	var remaining ssa.Value
	for _, b := range fn.Blocks {
		if len(b.Instrs) == 0 {
			continue
		}
		ifi, ok := b.Instrs[len(b.Instrs)-1].(*ssa.If)
		if !ok {
			continue
		}
		bo, ok := ifi.Cond.(*ssa.BinOp)
		if !ok {
			continue
		}
		l := w.NormLit(ifi.Cond, true)
		if !strings.HasSuffix(l.Expr, " < 0") {
			continue
		}
		x := bo.X
		if core.LinearString(w.Linear(x)) != core.LinearString(want) {
			continue
		}
		remaining = x
		idx := 0
		if !l.Pol {
			idx = 1
		}
		succ := b.Succs[idx]
		zero := false
		for _, in := range succ.Instrs {
			s := w.RenderInstr(in)
			if s == "store &local<int64> = 0" || s == "return 0" {
				zero = true
			}
		}
		if !zero || len(succ.Succs) != 0 {
			out = append(out, core.Bad(id, "ORD", construct+":negative", w.InstrPos(ifi), "when the remaining headroom is negative ReserveNodeCount must grant 0"))
		}
	}
	if remaining == nil {
		return []core.Result{core.Bad(id, "ORD", construct+":headroom", w.Pos(fn.Pos()),
			"no test `limit − active − deleting − pending − reserved < 0` found: the headroom must subtract all three NodeClaim sets and the current reservation (linear form "+core.LinearString(want)+")")}
	}
	// (b) grant = Ternary(wanted > remaining, remaining, wanted) or min(...)
	var grant ssa.Value
	for _, b := range fn.Blocks {
		for _, in := range b.Instrs {
			c, ok := in.(*ssa.Call)
			if !ok {
				continue
			}
			name := w.CalleeName(c.Common())
			args := c.Call.Args
			if name == "lo.Ternary[int64]" && len(args) == 3 {
				l := w.NormLit(args[0], true)
				rem, wanted := w.Render(remaining), "$3"
				// wanted > remaining  ==  remaining < wanted
				okCond := l.Pol && l.Expr == rem+" < "+wanted || !l.Pol && l.Expr == wanted+" < "+rem && false
				if okCond && args[1] == remaining && w.Render(args[2]) == wanted {
					grant = c
				}
				// mirrored: Ternary(wanted <= remaining, wanted, remaining)
				if !l.Pol && l.Expr == rem+" < "+wanted && w.Render(args[1]) == wanted && args[2] == remaining {
					grant = c
				}
			}
			if name == "min" && len(args) == 2 {
				if args[0] == remaining && w.Render(args[1]) == "$3" || args[1] == remaining && w.Render(args[0]) == "$3" {
					grant = c
				}
			}
		}
	}
	if grant == nil {
		out = append(out, core.Bad(id, "ORD", construct+":min", w.Pos(fn.Pos()), "the grant is not min(wanted, remaining headroom)"))
	} else {
		// (c) CAS(current, current+grant) and the grant is returned on the CAS-success edge
		okCas := false
		for _, b := range fn.Blocks {
			for _, in := range b.Instrs {
				c, ok := in.(*ssa.Call)
				if !ok || w.CalleeName(c.Common()) != "(*sync/atomic.Int64).CompareAndSwap" || len(c.Call.Args) != 3 {
					continue
				}
				lin := w.Linear(c.Call.Args[2])
				wantLin := map[string]int{w.RenderD(c.Call.Args[1], 5): 1, w.RenderD(grant, 5): 1}
				if core.LinearString(lin) == core.LinearString(wantLin) && strings.HasPrefix(w.Render(c.Call.Args[1]), "(*sync/atomic.Int64).Load($0.nodePoolNameToNodePoolLimit[$1])") {
					okCas = true
				}
			}
		}
		if !okCas {
			out = append(out, core.Bad(id, "ORD", construct+":cas", w.Pos(fn.Pos()), "the reservation counter is not advanced by exactly the grant (CompareAndSwap(current, current+grant))"))
		}
		for _, s := range w.ReturnSinks(fn, core.RetAny) {
			if len(s.Ret.Results) != 1 {
				continue
			}
			v := w.RenderInstr(s.Ret)
			_ = v
		}
	}
	mp := MPT{ID: id, Fn: fnName, Ret: core.RetSpec{Index: -1, Want: "any"}, Gates: gates(
		G(`+ < 0$`, `+^\(\*sync/atomic\.Int64\)\.CompareAndSwap\(`),
	)}
	for _, r := range mp.Check(w) {
		if r.Status != core.Discharged {
			out = append(out, r)
		}
	}
	if len(out) == 0 {
		out = append(out, core.OK(id, "ORD", construct, 3, "grant = min(wanted, limit − active − deleting − pending − reserved); 0 when negative; counter advanced by the grant under CAS"))
	}
	return out
}

func sitesDeep(w *core.World, fn *ssa.Function, re *regexp.Regexp) []ssa.Instruction {
	return w.Sites(fn, re, true)
}

// C03.PROV6: static drift reserves at most min(budget, candidates) and disrupts at most the grant.
func c03StaticDrift(w *core.World, id string) []core.Result {
	const fnName = "(*disr.StaticDrift).ComputeCommands"
	rs := core.ArgProvenance(w, id, fnName, `^call \(\*state\.NodePoolState\)\.ReserveNodeCount\(`, 3,
		`^lo\.Min\[int64\]\(`, "static drift asks for min(budget, #candidates) replacements")
	fn := w.Fn(fnName)
	if fn == nil {
		return rs
	}
	// the two operands of the min
	if len(w.SitesOr(fn, regexp.MustCompile(`^store &local<\[2\]int64>\[0\] = \$2\[.*\.ObjectMeta\.Name\]$`), false, 1)) == 0 ||
		len(w.SitesOr(fn, regexp.MustCompile(`^store &local<\[2\]int64>\[1\] = len\(next\(range\(lo\.GroupBy`), false, 1)) == 0 {
		rs = append(rs, core.Bad(id, "PROV", "PROV:"+fnName+":min-operands", w.Pos(fn.Pos()), "the operands of the min are no longer (budget[pool], len(candidates of the pool))"))
	}
	// the candidate slice is cut at the grant
	sl := regexp.MustCompile(`\[:\(\*state\.NodePoolState\)\.ReserveNodeCount\(`)
	found := false
	for _, b := range fn.Blocks {
		for _, in := range b.Instrs {
			if v, ok := in.(*ssa.Slice); ok && sl.MatchString(w.Render(v)) {
				found = true
			}
		}
	}
	if !found {
		rs = append(rs, core.Bad(id, "PROV", "PROV:"+fnName+":slice-bound", w.Pos(fn.Pos()), "the candidates disrupted are not bounded by the count granted by ReserveNodeCount (npCandidates[:grant])"))
	}
	d := DOM{ID: id, Fn: fnName, Sink: `^call \(\*state\.NodePoolState\)\.ReserveNodeCount\(`, Gates: gates(
		G(`-^\$2\[next\(range\(lo\.GroupBy.*#1\] == 0$`),
	)}
	rs = append(rs, d.Check(w)...)
	return rs
}
