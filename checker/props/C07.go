package props

import (
	"fmt"
	"regexp"
	"strings"

	"kverif/core"

	"golang.org/x/tools/go/ssa"
)

func init() {
	core.Register(&core.Property{
		ID:    "C07",
		Title: "Disruption never targets protected or ineligible nodes",
		Explanation: "Decides: (1) Candidate literals are built only in NewCandidate, called only from GetCandidatesWithTotals, and every method/validator obtains candidates through GetCandidates*; " +
			"(2) NewCandidate succeeds only after ¬queue.HasAny, ValidateNodeDisruptable==nil, pool and instance-type map found, and ValidatePodsDisruptable's error is nil — or a PodBlockEvictionError ignored only under TerminationGracePeriod≠nil ∧ class==Eventual; " +
			"(3) ValidateNodeDisruptable returns nil only under its seven literals (managed, has node, initialized, not marked/deleting, not nominated, annotation ≠ true, has nodepool label), ValidatePodsDisruptable only when every pod IsDisruptable and PDBs allow eviction; " +
			"(4) each method's ShouldDisrupt implies its documented literals (static/dynamic pool, ConsolidateAfter set, buffer pods, IsEmpty, policy ≠ WhenEmpty, Consolidatable / Drifted); only Drift and StaticDrift are Eventual; " +
			"(5) Consolidatable is set true only when consolidateAfter is set, the NodeClaim is Initialized and not under the consolidateAfter window, and that window compares clock.Since(lastPodEvent|initialized) with consolidateAfter; " +
			"(6) the nomination window is restarted by every nomination: StateNode.Nominate always stores now + nominationWindow, Cluster.NominateNodeForPod reaches it for every provider id it knows (no 'already nominated' shortcut), and Results.Record nominates every existing node that received a real pod; " +
			"(7) a node that became protected during the validation delay leaves the command: every validator's successful result carries exactly the candidates that passed its re-validation, and every method returns the validator's command (or its own when its wired validator returns its input) — VALID1/VALID2, shared with C05.",
		NotCovered: []string{"freshness of the state the predicates read (narrowed only by the re-validation rows of C05/C06)", "PDB arithmetic inside pdb.Limits", "values of duration annotations",
			"validators injected through WithValidator by callers other than the method constructors", "callers of Results.Record (that every scheduling pass whose results are acted upon is recorded)"},
		Rules:      c07Rules,
	})
}

func c07Rules(tier string) []Rule {
	rules := c07RulesBase(tier)
	rules = append(rules, nodePodsRules("C07")...)
	// a node that became protected during the validation delay is dropped by the validators' re-validation; that only helps
	// if the command that leaves the validation step is the one the validator returned: shared_A.go
	rules = append(rules, validatedCommandRules("C07")...)
	return rules
}

func c07RulesBase(tier string) []Rule {
	const (
		newc = "disr.NewCandidate"
		gcwt = "disr.GetCandidatesWithTotals"
		vnd  = "(*state.StateNode).ValidateNodeDisruptable"
		vpd  = "(*state.StateNode).ValidatePodsDisruptable"
		cons = "(*controllers/nodeclaim/disruption.Consolidation).Reconcile"
	)
	consolidatable := `\(\*opkg/status\.Condition\)\.IsTrue\(\(opkg/status\.ConditionSet\)\.Get\(\(\*apis/v1\.NodeClaim\)\.StatusConditions\(.*\), "Consolidatable"\)\)`
	static := `\(\*disr\.Candidate\)\.OwnedByStaticNodePool\(\$2\)`
	rules := []Rule{
		core.Custom{ID: "C07.WMC1", Kind: "WMC", Run: c07CandidateLiterals},
		WMC{ID: "C07.WMC2", Sink: `^(call|go|defer) disr\.NewCandidate\(`, Allowed: []string{gcwt}, Required: []string{gcwt}},
		WMC{ID: "C07.WMC3", Sink: `^(call|go|defer) disr\.GetCandidatesWithTotals\(`, Allowed: []string{"disr.GetCandidates", "(*disr.Controller).disrupt"}, Required: []string{"(*disr.Controller).disrupt"}},
		// the candidate list handed out is the NewCandidate results filtered by the method's predicate
		core.Custom{ID: "C07.PROV0", Kind: "PROV", Run: c07Filtered},

		MPT{ID: "C07.MPT1", Fn: newc, Ret: core.RetOK, Gates: gates(
			G(`-^\(\*disr\.Queue\)\.HasAny\(\$8, &local<\[1\]string>\[:\]\)$`),
			G(`+^\(\*state\.StateNode\)\.ValidateNodeDisruptable\(\$4, \$3\) == nil$`),
			G(`-^\$6\[\(\*state\.StateNode\)\.Labels\(\$4\)\["karpenter\.sh/nodepool"\]\] == nil$`),
			G(`-^\$7\[\(\*state\.StateNode\)\.Labels\(\$4\)\["karpenter\.sh/nodepool"\]\] == nil$`),
			G(`+^\(\*state\.StateNode\)\.ValidatePodsDisruptable\(\$4, \$1, \$5, \$3, \$2\)#1 == nil$`,
				`+^lo\.Ternary\[error\]\(phi\(false\|\(\$9 == "eventual"\)\), state\.IgnorePodBlockEvictionError\(\(\*state\.StateNode\)\.ValidatePodsDisruptable\(.*\)#1\), \(\*state\.StateNode\)\.ValidatePodsDisruptable\(.*\)#1\) == nil$`,
				`+^state\.IgnorePodBlockEvictionError\(\(\*state\.StateNode\)\.ValidatePodsDisruptable\(\$4, \$1, \$5, \$3, \$2\)#1\) == nil$`),
		)},
		core.Custom{ID: "C07.MPT1b", Kind: "MPT", Run: c07EventualOverride},
		core.Custom{ID: "C07.PROV1", Kind: "PROV", Run: func(w *core.World, id string) []core.Result {
			return core.InstrPresent(w, id, "PROV", newc, `^store &local<\[1\]string>\[0\] = \(\*state\.StateNode\)\.ProviderID\(\$4\)$`, 1, "queue membership is tested with the node's own provider id")
		}},
		MPT{ID: "C07.MPT1c", Fn: "state.IgnorePodBlockEvictionError", Ret: core.RetNilConst, Gates: gates(
			G(`+^state\.IsPodBlockEvictionError\(\$0\)$`),
		)},

		MPT{ID: "C07.TT1", Fn: vnd, Ret: core.RetNilConst, Gates: gates(
			G(`-^\$0\.NodeClaim == nil$`),
			G(`-^\$0\.Node == nil$`),
			G(`+^\(\*state\.StateNode\)\.Initialized\(\$0\)$`),
			G(`-^\(\*state\.StateNode\)\.MarkedForDeletion\(\$0\)$`),
			G(`-^\(\*state\.StateNode\)\.Nominated\(\$0, \$1\)$`),
			G(`-^\(\*state\.StateNode\)\.Annotations\(\$0\)\["karpenter\.sh/do-not-disrupt"\] == "true"$`),
			G(`+^\(\*state\.StateNode\)\.Labels\(\$0\)\["karpenter\.sh/nodepool"\]#1$`),
		)},
		MPT{ID: "C07.TT1b", Fn: "(*state.StateNode).MarkedForDeletion", Ret: core.RetFalse, Gates: gates(
			G(`-^\$0\.markedForDeletion$`),
			G(`-^\(\*state\.StateNode\)\.Deleted\(\$0\)$`),
		)},
		MPT{ID: "C07.TT1c", Fn: "(*state.StateNode).Deleted", Ret: core.RetFalse, Gates: gates(
			G(`+^\$0\.NodeClaim == nil$`, `+^\(\*metav1\.Time\)\.IsZero\(\$0\.NodeClaim\.ObjectMeta\.DeletionTimestamp\)$`),
			G(`+^\$0\.NodeClaim == nil$`, `-^\(\*opkg/status\.Condition\)\.IsTrue\(\(opkg/status\.ConditionSet\)\.Get\(\(\*apis/v1\.NodeClaim\)\.StatusConditions\(\$0\.NodeClaim, nil\), "InstanceTerminating"\)\)$`),
			G(`-^\$0\.NodeClaim == nil$`, `+^\$0\.Node == nil$`, `+^\(\*metav1\.Time\)\.IsZero\(\$0\.Node\.ObjectMeta\.DeletionTimestamp\)$`),
		)},
		MPT{ID: "C07.TT1d", Fn: "(*state.StateNode).Initialized", Ret: core.RetTrue, Gates: gates(
			G(`-^\(\*state\.StateNode\)\.Managed\(\$0\)$`, `-^\$0\.Node == nil$`),
			G(`-^\(\*state\.StateNode\)\.Managed\(\$0\)$`, `+^\$0\.Node\.ObjectMeta\.Labels\["karpenter\.sh/initialized"\] == "true"$`),
		)},
		// a nomination always (re)starts the window: the store is unconditional and is now + nominationWindow
		POST{ID: "C07.POST2", Fn: "(*state.StateNode).Nominate", From: "", Must: []string{`^store \$0\.nominatedUntil = &local<metav1\.Time>$`}, Note: "every call to Nominate moves nominatedUntil"},
		core.Custom{ID: "C07.PROV3", Kind: "PROV", Run: func(w *core.World, id string) []core.Result {
			return core.InstrPresent(w, id, "PROV", "(*state.StateNode).Nominate", `^store &local<metav1\.Time>\.Time = \(time\.Time\)\.Add\(iface:\(k8s\.io/utils/clock\.PassiveClock\)\.Now\(\$2\), state\.nominationWindow\(\)\)$`, 1, "nominatedUntil = now + nominationWindow")
		}},
		// …and the cluster-level entry point hands every nomination of a node it knows on to StateNode.Nominate: the only way
		// to leave NominateNodeForPod without (re)starting the window is that the provider id is not in the state. A shortcut
		// for "already nominated" would let the window run out while pods keep being placed on the node (ValidateNodeDisruptable
		// and the validators' IsNodeNominated read nominatedUntil as "time of the LAST nomination + window").
		POST{ID: "C07.POST3", Fn: "(*state.Cluster).NominateNodeForPod", From: "", Must: []string{`^call \(\*state\.StateNode\)\.Nominate\(\$0\.nodes\[\$2\](#0)?, \$0\.clock\)$`},
			Excuse: []string{`-^\$0\.nodes\[\$2\]#1$`, `+^\$0\.nodes\[\$2\] == nil$`}, Note: "a nomination of a known node always reaches StateNode.Nominate (no 'already nominated' shortcut)"},
		// …and the scheduling results nominate every existing node that received at least one real pod, whatever its current
		// nomination state (the same shortcut one level up)
		POST{ID: "C07.POST4", Fn: "(sched.Results).Record", FromLit: `+^len\(lo\.Filter\[\*corev1\.Pod, \[\]\*corev1\.Pod\]\(\$0\.ExistingNodes\[.*\]\.Pods, .*\)\)>=1$`,
			Must: []string{`^call \(\*state\.Cluster\)\.NominateNodeForPod\(\$3, \(\*state\.StateNode\)\.ProviderID\(\$0\.ExistingNodes\[.*\]\.StateNode\)\)$`},
			Note: "an existing node that received a real pod is nominated unconditionally"},
		MPT{ID: "C07.TT1e", Fn: "(*state.StateNode).Nominated", Ret: core.RetFalse, Gates: gates(
			G(`-^\(time\.Time\)\.After\(\$0\.nominatedUntil\.Time, iface:\(k8s\.io/utils/clock\.PassiveClock\)\.Now\(\$1\)\)$`, `-^\(\*metav1\.Time\)\.After\(`),
		)},

		// a pod covered by two or more PDBs is never evictable (the eviction API refuses it), whatever the PDBs' unhealthy-pod policy
		// which pods a PDB covers: exactly the selector the API object states (an empty selector covers the namespace)
		core.Custom{ID: "C07.PROV4", Kind: "PROV", Run: func(w *core.World, id string) []core.Result {
			rs := core.InstrPresent(w, id, "PROV", "utils/pdb.newPdb", `^store &local<utils/pdb\.pdbItem>\.selector = metav1\.LabelSelectorAsSelector\(\$0\.Spec\.Selector\)#0$`, 1, "the PDB's selector is LabelSelectorAsSelector(spec.selector)")
			if fn := w.Fn("utils/pdb.newPdb"); fn != nil {
				if n := len(w.Sites(fn, regexp.MustCompile(`^store &local<utils/pdb\.pdbItem>\.selector = `), true)); n != 1 {
					rs = append(rs, core.Bad(id, "PROV", "PROV:utils/pdb.newPdb:selector", w.Pos(fn.Pos()), fmt.Sprintf("the selector is assigned %d times (a second assignment replaces what the API object states)", n)))
				}
			}
			rs = append(rs, core.InstrPresent(w, id, "PROV", "@arg:(utils/pdb.Limits).isEvictable|^call lo\\.Filter\\[|1", `^return phi\(false\|iface:\(apim/labels\.Selector\)\.Matches\(\$0\.selector, <apim/labels\.Set>\^\$1\.ObjectMeta\.Labels\)\)$`, 1, "a PDB matches a pod of its namespace whose labels its selector matches")...)
			return rs
		}},
		MPT{ID: "C07.MPT6", Fn: "(utils/pdb.Limits).isEvictable", Ret: core.RetSpec{Index: 1, Want: "true"}, Gates: gates(
			G(`-^utils/pod\.IsEvictable\(\$1, \$2, \$3\)$`, `-^len\(lo\.Filter\[.*\]\(\$0, .*\)\)>=2$`),
		)},
		// the nomination window survives a Node update: the rebuilt StateNode carries nominatedUntil and markedForDeletion over
		core.Custom{ID: "C07.COPY1", Kind: "COPY", Run: func(w *core.World, id string) []core.Result {
			return fromNode(w, id, []string{"markedForDeletion", "nominatedUntil"})
		}},
		MPT{ID: "C07.MPT2", Fn: vpd, Ret: core.RetNilConst, Gates: gates(
			G(`+^\(\*state\.StateNode\)\.Pods\(\$0, \$2\)#1 == nil$`),
			G(`-^\(phi\(-1\|\(phi↺ \+ 1\)\) \+ 1\) < len\(\(\*state\.StateNode\)\.Pods\(\$0, \$2\)#0\)$`),
			G(`+^\(utils/pdb\.Limits\)\.CanEvictPods\(\$3, \(\*state\.StateNode\)\.Pods\(\$0, \$2\)#0, \$4, \$5\)#1$`),
		)},
		IMPL{ID: "C07.MPT2b", Fn: vpd, Lit: `-^utils/pod\.IsDisruptable\(\(\*state\.StateNode\)\.Pods\(\$0, \$2\)#0\[.*\], \$4, \$5\)$`, Not: core.RetOK},
		// every blocker is reported as a PodBlockEvictionError (the only error drift may override)
		core.Custom{ID: "C07.MPT2c", Kind: "REG", Run: c07BlockErrors},

		// ---- ShouldDisrupt per method
		MPT{ID: "C07.TT3", Fn: "(*disr.Emptiness).ShouldDisrupt", Ret: core.RetTrue, Gates: gates(
			G(`-^`+static+`$`),
			G(`-^\$2\.NodePool\.Spec\.Disruption\.ConsolidateAfter\.Duration == nil$`),
			G(`-^\(\*state\.Cluster\)\.HasBufferPods\(\$0\.consolidation\.cluster, \(\*state\.StateNode\)\.ProviderID\(\$2\.StateNode\)\)$`),
			G(`+^\(\*disr\.Candidate\)\.IsEmpty\(\$2\)$`),
			G(`+^`+consolidatable+`$`),
		)},
		MPT{ID: "C07.TT4", Fn: "(*disr.consolidation).ShouldDisrupt", Ret: core.RetTrue, Gates: gates(
			G(`-^`+static+`$`),
			G(`-^\$2\.instanceType == nil$`),
			G(`+^\(\*state\.StateNode\)\.Labels\(\$2\.StateNode\)\["karpenter\.sh/capacity-type"\]#1$`),
			G(`+^\(\*state\.StateNode\)\.Labels\(\$2\.StateNode\)\["topology\.kubernetes\.io/zone"\]#1$`),
			G(`-^\$2\.NodePool\.Spec\.Disruption\.ConsolidateAfter\.Duration == nil$`),
			G(`-^\(\*disr\.Candidate\)\.IsEmpty\(\$2\)$`),
			G(`-^\$2\.NodePool\.Spec\.Disruption\.ConsolidationPolicy == "WhenEmpty"$`),
			G(`+^`+consolidatable+`$`),
		)},
		MPT{ID: "C07.TT5", Fn: "(*disr.SingleNodeConsolidation).ShouldDisrupt", Ret: core.RetTrue, Gates: gates(G(`+^\(\*disr\.consolidation\)\.ShouldDisrupt\(\$0\.consolidation, \$2\)$`))},
		MPT{ID: "C07.TT6", Fn: "(*disr.MultiNodeConsolidation).ShouldDisrupt", Ret: core.RetTrue, Gates: gates(G(`+^\(\*disr\.consolidation\)\.ShouldDisrupt\(\$0\.consolidation, \$2\)$`))},
		MPT{ID: "C07.TT7", Fn: "(*disr.Drift).ShouldDisrupt", Ret: core.RetTrue, Gates: gates(
			G(`-^`+static+`$`),
			G(`+^\(\*opkg/status\.Condition\)\.IsTrue\(\(opkg/status\.ConditionSet\)\.Get\(\(\*apis/v1\.NodeClaim\)\.StatusConditions\(\$2\.StateNode\.NodeClaim, nil\), \(\*disr\.Drift\)\.Reason\(\$0\)\)\)$`),
		)},
		MPT{ID: "C07.TT8", Fn: "(*disr.StaticDrift).ShouldDisrupt", Ret: core.RetTrue, Gates: gates(
			G(`+^`+static+`$`),
			G(`+^\(\*opkg/status\.Condition\)\.IsTrue\(\(opkg/status\.ConditionSet\)\.Get\(\(\*apis/v1\.NodeClaim\)\.StatusConditions\(\$2\.StateNode\.NodeClaim, nil\), "Drifted"\)\)$`),
		)},
		MPT{ID: "C07.TT9", Fn: "(*disr.Candidate).OwnedByStaticNodePool", Ret: core.RetTrue, Gates: gates(G(`-^\$0\.NodePool\.Spec\.Replicas == nil$`))},
		MPT{ID: "C07.TT9b", Fn: "(*disr.Candidate).OwnedByStaticNodePool", Ret: core.RetFalse, Gates: gates(G(`+^\$0\.NodePool\.Spec\.Replicas == nil$`))},
		core.Custom{ID: "C07.REG1", Kind: "REG", Run: c07Classes},
		core.Custom{ID: "C07.REG2", Kind: "REG", Run: c07Reasons},

		// ---- Consolidatable maintenance
		DOM{ID: "C07.DOM1", Fn: cons, Sink: `^call \(opkg/status\.ConditionSet\)\.SetTrue\(\(\*apis/v1\.NodeClaim\)\.StatusConditions\(\$3, .*\), "Consolidatable"\)`, Gates: gates(
			G(`-^\$2\.Spec\.Disruption\.ConsolidateAfter\.Duration == nil$`),
			G(`+^\(\*opkg/status\.Condition\)\.IsTrue\(\(opkg/status\.ConditionSet\)\.Get\(\(\*apis/v1\.NodeClaim\)\.StatusConditions\(\$3, nil\), "Initialized"\)\)$`),
			G(`-^utils/disruption\.IsUnderConsolidateAfter\(\$2, \$3, \$0\.clock\)$`),
		)},
		WMC{ID: "C07.WMC4", Sink: `^call \(opkg/status\.ConditionSet\)\.SetTrue\(.*, "Consolidatable"\)`, Allowed: []string{cons}, Required: []string{cons}},
		// IsUnderConsolidateAfter false ⇒ (nil/disabled/zero/not initialized) ∨ since ≥ consolidateAfter
		MPT{ID: "C07.ORD2", Fn: "utils/disruption.IsUnderConsolidateAfter", Ret: core.RetFalse, Gates: gates(
			G(`+^\$0 == nil$`, `+^\$1 == nil$`, `+^\$0\.Spec\.Disruption\.ConsolidateAfter\.Duration == nil$`, `+^lo\.FromPtr\[time\.Duration\]\(\$0\.Spec\.Disruption\.ConsolidateAfter\.Duration\) == 0$`,
				`-^\(opkg/status\.ConditionSet\)\.IsTrue\(\(\*apis/v1\.NodeClaim\)\.StatusConditions\(\$1, nil\), `,
				`-^iface:\(k8s\.io/utils/clock\.PassiveClock\)\.Since\(\$2, lo\.Ternary\[time\.Time\]\(.*\) < lo\.FromPtr\[time\.Duration\]\(\$0\.Spec\.Disruption\.ConsolidateAfter\.Duration\)$`),
		)},
		core.Custom{ID: "C07.ORD2b", Kind: "PROV", Run: func(w *core.World, id string) []core.Result {
			return core.InstrPresent(w, id, "PROV", "utils/disruption.IsUnderConsolidateAfter",
				`^call lo\.Ternary\[time\.Time\]\(!\(\*metav1\.Time\)\.IsZero\(\$1\.Status\.LastPodEventTime\), \$1\.Status\.LastPodEventTime\.Time, \(opkg/status\.ConditionSet\)\.Get\(\(\*apis/v1\.NodeClaim\)\.StatusConditions\(\$1, nil\), "Initialized"\)\.LastTransitionTime\.Time\)$`, 1,
				"the window starts at the last pod event, or at initialization when there was none")
		}},
		// IsEmpty ⇔ RescheduleDisruptionCost ≤ base (1.0)
		MPT{ID: "C07.TT10", Fn: "(*disr.Candidate).IsEmpty", Ret: core.RetTrue, Gates: gates(G(`-^1 < \$0\.RescheduleDisruptionCost$`))},
		MPT{ID: "C07.TT10b", Fn: "(*disr.Candidate).IsEmpty", Ret: core.RetFalse, Gates: gates(G(`+^1 < \$0\.RescheduleDisruptionCost$`))},
	}
	rules = append(rules, podPredicateRules("C07")...)
	return rules
}

// C07.WMC1: composite literals of disr.Candidate exist only in NewCandidate (and copies are not forged elsewhere).
func c07CandidateLiterals(w *core.World, id string) []core.Result {
	var out []core.Result
	n := 0
	for _, fn := range w.Fns {
		if core.IsTestSupport(fn) {
			continue
		}
		for _, b := range fn.Blocks {
			for _, in := range b.Instrs {
				a, ok := in.(*ssa.Alloc)
				if !ok || fn.Synthetic != "" {
					continue
				}
				if core.TypeStr(a.Type()) != "*disr.Candidate" {
					continue
				}
				n++
				if core.FnName(core.RootFn(fn)) != "disr.NewCandidate" {
					out = append(out, core.Bad(id, "WMC", "WMC:disr.Candidate{}@"+core.FnName(core.RootFn(fn)), w.InstrPos(in),
						"a disr.Candidate is constructed outside NewCandidate in "+core.FnName(fn)+": it bypasses the node/pod eligibility checks"))
				}
			}
		}
	}
	if n == 0 {
		return []core.Result{core.Bad(id, "WMC", "WMC:disr.Candidate{}", "", "vacuous: no construction of disr.Candidate found")}
	}
	if len(out) == 0 {
		out = append(out, core.OK(id, "WMC", "WMC:disr.Candidate{}", n, "constructed only in NewCandidate"))
	}
	return out
}

// C07.PROV0: GetCandidatesWithTotals returns FilterMap(DeepCopyNodes, NewCandidate ok) filtered by shouldDisrupt.
func c07Filtered(w *core.World, id string) []core.Result {
	const gcwt = "disr.GetCandidatesWithTotals"
	fn := w.Fn(gcwt)
	if fn == nil {
		return []core.Result{core.Anchor(id, "PROV", gcwt)}
	}
	construct := "PROV:" + gcwt
	var out []core.Result
	okRet := false
	for _, s := range w.ReturnSinks(fn, core.RetOK) {
		r := w.RenderD(s.Ret.Results[0], 9)
		if regexp.MustCompile(`^lo\.Filter\[\*disr\.Candidate, \[\]\*disr\.Candidate\]\(lo\.FilterMap\[\*state\.StateNode, \*disr\.Candidate\]\(\(\*state\.Cluster\)\.DeepCopyNodes\(\$1\), closure:.*\), closure:`).MatchString(r) {
			okRet = true
		} else {
			out = append(out, core.Bad(id, "PROV", construct, w.InstrPos(s.Ret), "candidates returned are `"+clipStr(r, 160)+"`, expected Filter(FilterMap(DeepCopyNodes(), NewCandidate), shouldDisrupt)"))
		}
	}
	if !okRet && len(out) == 0 {
		out = append(out, core.Bad(id, "PROV", construct, w.Pos(fn.Pos()), "no success return found"))
	}
	// FilterMap closure keeps a candidate only when NewCandidate returned no error
	fm := w.Fn("@arg:" + gcwt + `|^call lo\.FilterMap\[\*state\.StateNode, \*disr\.Candidate\]\(|1`)
	if fm == nil {
		out = append(out, core.Bad(id, "PROV", construct+":filtermap", "", "FilterMap callback cannot be resolved"))
	} else {
		m := MPT{ID: id, Fn: "@arg:" + gcwt + `|^call lo\.FilterMap\[\*state\.StateNode, \*disr\.Candidate\]\(|1`, Ret: core.RetTrue, Gates: gates(G(`+^disr\.NewCandidate\(.*\)#1 == nil$`))}
		for _, r := range m.Check(w) {
			if r.Status != core.Discharged {
				out = append(out, r)
			}
		}
		if len(w.SitesOr(fm, regexp.MustCompile(`^call disr\.NewCandidate\(\^\$2, \^\$3, \^\$4, \$0, .*, \^\$8, \^\$7\)$`), false, 1)) == 0 {
			out = append(out, core.Bad(id, "PROV", construct+":args", w.Pos(fm.Pos()), "NewCandidate is no longer called with the node under iteration, the queue and the method's disruption class"))
		}
	}
	// Filter closure is exactly shouldDisrupt(ctx, c)
	fl := w.Fn("@arg:" + gcwt + `|^call lo\.Filter\[\*disr\.Candidate, \[\]\*disr\.Candidate\]\(|1`)
	if fl == nil || len(w.SitesOr(fl, regexp.MustCompile(`^return dyn:\^\$6\(\$0\)$`), false, 1)) == 0 {
		out = append(out, core.Bad(id, "PROV", construct+":filter", "", "the final filter is no longer the method's ShouldDisrupt predicate applied to each candidate"))
	}
	if len(out) == 0 {
		out = append(out, core.OK(id, "PROV", construct, 3, "Filter(FilterMap(DeepCopyNodes, NewCandidate ok), shouldDisrupt)"))
	}
	return out
}

func clipStr(s string, n int) string {
	r := []rune(s)
	if len(r) <= n {
		return s
	}
	return string(r[:n]) + "…"
}

// C07.MPT1b: the only way ValidatePodsDisruptable's error is tolerated is IgnorePodBlockEvictionError under
// TerminationGracePeriod ≠ nil ∧ class == Eventual.
func c07EventualOverride(w *core.World, id string) []core.Result {
	const newc = "disr.NewCandidate"
	fn := w.Fn(newc)
	if fn == nil {
		return []core.Result{core.Anchor(id, "MPT", newc)}
	}
	construct := "MPT:" + newc + ":eventual-override"
	var tern *ssa.Call
	for _, s := range w.Sites(fn, regexp.MustCompile(`^call lo\.Ternary\[error\]\(`), false) {
		tern = s.(*ssa.Call)
	}
	if tern == nil {
		// acceptable alternative: no override at all
		if len(w.SitesOr(fn, regexp.MustCompile(`IgnorePodBlockEvictionError`), true, 1)) == 0 {
			return []core.Result{core.OK(id, "MPT", construct, 0, "pod blockers are never overridden")}
		}
		// the override written as control flow (`e := err; if eventual { e = Ignore(err) }; if e != nil { return }`):
		// a candidate is returned despite a pod-blocker error only under TerminationGracePeriod ≠ nil ∧ class == eventual,
		// and the only error class ever ignored is PodBlockEvictionError of that validation
		vpdErr := `\(\*state\.StateNode\)\.ValidatePodsDisruptable\(\$4, \$1, \$5, \$3, \$2\)#1`
		var out []core.Result
		sinks := w.ReturnSinks(fn, core.RetOK)
		if len(sinks) == 0 {
			return []core.Result{core.Bad(id, "MPT", construct, w.Pos(fn.Pos()), "vacuous: no success return")}
		}
		for _, g := range []core.Gate{
			G(`+^`+vpdErr+` == nil$`, `-^\$4\.NodeClaim\.Spec\.TerminationGracePeriod == nil$`),
			G(`+^`+vpdErr+` == nil$`, `+^\$9 == "eventual"$`),
			G(`+^`+vpdErr+` == nil$`, `+^state\.IgnorePodBlockEvictionError\(`+vpdErr+`\) == nil$`),
		} {
			for _, sk := range sinks {
				if !w.RetGuarded(sk, g) {
					out = append(out, core.Bad(id, "MPT", construct+"⇐"+g.Text, w.InstrPos(sk.Ret), "a candidate is returned although its pods could not be validated, without {"+g.Text+"}"))
				}
			}
		}
		for _, st := range w.SitesOr(fn, regexp.MustCompile(`^call state\.Ignore`), true, 1) {
			if r := w.RenderInstr(st); !regexp.MustCompile(`^call state\.IgnorePodBlockEvictionError\(` + vpdErr + `\)$`).MatchString(r) {
				out = append(out, core.Bad(id, "MPT", construct, w.InstrPos(st), "an error class other than PodBlockEvictionError of the pod validation is ignored: "+clipStr(r, 100)))
			}
		}
		if len(out) == 0 {
			out = append(out, core.OK(id, "MPT", construct, len(sinks), "override ⇐ TerminationGracePeriod≠nil ∧ class==eventual, ignoring only PodBlockEvictionError (control-flow form)"))
		}
		return out
	}
	args := tern.Call.Args
	cond := w.RenderD(args[0], 8)
	want := `phi(false|($9 == "eventual"))`
	var out []core.Result
	if cond != want {
		out = append(out, core.Bad(id, "MPT", construct, w.InstrPos(tern), "the override condition is `"+cond+"`, expected TerminationGracePeriod != nil && disruptionClass == \"eventual\""))
	} else {
		// the phi's non-false edge comes from the TerminationGracePeriod != nil branch
		phi := args[0].(*ssa.Phi)
		okGuard := false
		for i, e := range phi.Edges {
			if _, isConst := e.(*ssa.Const); isConst {
				continue
			}
			pred := phi.Block().Preds[i]
			cut := w.GateCut(fn, G(`-^\$4\.NodeClaim\.Spec\.TerminationGracePeriod == nil$`))
			if !core.EdgeReachable(pred, phi.Block(), cut) {
				okGuard = true
			}
		}
		if !okGuard {
			out = append(out, core.Bad(id, "MPT", construct, w.InstrPos(tern), "the class test is no longer conjoined with NodeClaim.Spec.TerminationGracePeriod != nil"))
		}
	}
	if !strings.HasPrefix(w.Render(args[1]), "state.IgnorePodBlockEvictionError(") || strings.Contains(w.Render(args[2]), "Ignore") {
		out = append(out, core.Bad(id, "MPT", construct, w.InstrPos(tern), "the eventual branch must ignore only PodBlockEvictionError and the graceful branch nothing"))
	}
	// EventualDisruptionClass constant is "eventual"
	if len(out) == 0 {
		out = append(out, core.OK(id, "MPT", construct, 1, "override ⇐ TerminationGracePeriod≠nil ∧ class==eventual, ignoring only PodBlockEvictionError"))
	}
	return out
}

// C07.MPT2c: every error return of ValidatePodsDisruptable after the pod listing is a PodBlockEvictionError
// (so that the eventual override covers exactly do-not-disrupt and PDB blockers, and nothing else is silently widened).
func c07BlockErrors(w *core.World, id string) []core.Result {
	const vpd = "(*state.StateNode).ValidatePodsDisruptable"
	fn := w.Fn(vpd)
	if fn == nil {
		return []core.Result{core.Anchor(id, "REG", vpd)}
	}
	n := 0
	for _, s := range w.ReturnSinks(fn, core.RetSpec{Index: -1, Want: "nonnil"}) {
		r := w.RenderInstr(s.Ret)
		n++
		if strings.Contains(r, "state.NewPodBlockEvictionError(") || strings.HasPrefix(r, "return nil, fmt.Errorf(\"getting pods from node") {
			continue
		}
		return []core.Result{core.Bad(id, "REG", "REG:"+vpd+":errors", w.InstrPos(s.Ret), "unclassified error return `"+clipStr(r, 120)+"`")}
	}
	if n < 3 {
		return []core.Result{core.Bad(id, "REG", "REG:"+vpd+":errors", w.Pos(fn.Pos()), "vacuous: fewer error returns than the three blockers (do-not-disrupt, PDB, multiple PDBs)")}
	}
	return []core.Result{core.OK(id, "REG", "REG:"+vpd+":errors", n, "every blocker is a PodBlockEvictionError")}
}

// C07.REG1: Class() is "eventual" only for Drift and StaticDrift; validators use the graceful class.
func c07Classes(w *core.World, id string) []core.Result {
	want := map[string]string{
		"(*disr.Emptiness).Class":               `"graceful"`,
		"(*disr.SingleNodeConsolidation).Class": `"graceful"`,
		"(*disr.MultiNodeConsolidation).Class":  `"graceful"`,
		"(*disr.Drift).Class":                   `"eventual"`,
		"(*disr.StaticDrift).Class":             `"eventual"`,
	}
	var out []core.Result
	for name, cls := range want {
		fn := w.Fn(name)
		if fn == nil {
			out = append(out, core.Anchor(id, "REG", name))
			continue
		}
		for _, s := range w.ReturnSinks(fn, core.RetAny) {
			if r := w.RenderInstr(s.Ret); r != "return "+cls {
				out = append(out, core.Bad(id, "REG", "REG:Class@"+name, w.InstrPos(s.Ret), name+" returns `"+r+"`, expected "+cls+" (only drift may override pod-level blockers)"))
			}
		}
	}
	// any other implementer of Method must be classified
	for _, fn := range w.Fns {
		n := core.FnName(fn)
		if strings.HasPrefix(n, "(*disr.") && strings.HasSuffix(n, ").Class") && fn.Synthetic == "" {
			if _, ok := want[n]; !ok {
				out = append(out, core.Bad(id, "REG", "REG:Class@"+n, w.Pos(fn.Pos()), "unclassified disruption method "+n))
			}
		}
	}
	// validators re-fetch candidates with the graceful class
	for _, v := range []string{"(*disr.ConsolidationValidator).validateCandidates", "(*disr.EmptinessValidator).validateCandidates"} {
		rs := core.ArgProvenance(w, id, v, `^call disr\.GetCandidates\(`, 7, `^"graceful"$`, "validators re-validate with the graceful class")
		for _, r := range rs {
			if r.Status != core.Discharged {
				out = append(out, r)
			}
		}
	}
	if len(out) == 0 {
		out = append(out, core.OK(id, "REG", "REG:Class", len(want), "eventual only for Drift/StaticDrift"))
	}
	return out
}

// C07.REG2: Reason() per method (budgets are looked up by reason).
func c07Reasons(w *core.World, id string) []core.Result {
	want := map[string]string{
		"(*disr.Emptiness).Reason":               `"Empty"`,
		"(*disr.SingleNodeConsolidation).Reason": `"Underutilized"`,
		"(*disr.MultiNodeConsolidation).Reason":  `"Underutilized"`,
		"(*disr.Drift).Reason":                   `"Drifted"`,
		"(*disr.StaticDrift).Reason":             `"Drifted"`,
	}
	var out []core.Result
	for name, rsn := range want {
		fn := w.Fn(name)
		if fn == nil {
			out = append(out, core.Anchor(id, "REG", name))
			continue
		}
		for _, s := range w.ReturnSinks(fn, core.RetAny) {
			if r := w.RenderInstr(s.Ret); r != "return "+rsn {
				out = append(out, core.Bad(id, "REG", "REG:Reason@"+name, w.InstrPos(s.Ret), name+" returns `"+r+"`, expected "+rsn))
			}
		}
	}
	if len(out) == 0 {
		out = append(out, core.OK(id, "REG", "REG:Reason", len(want), "reasons as documented"))
	}
	return out
}
