// Package props holds one obligation table per property (C01…C20).
package props

import (
	"golang.org/x/tools/go/ssa"
	"strings"
	"fmt"
	"regexp"
	"kverif/core"
)

type (
	Rule = core.Rule
	DOM  = core.DOM
	MPT  = core.MPT
	POST = core.POST
	WMC  = core.WMC
	Gate = core.Gate
)

var G = core.G

func gates(g ...Gate) []Gate { return g }

type (
	IMPL = core.IMPL
	FLAG = core.FLAG
	CONE = core.CONE
)

type ERRFLOW = core.ERRFLOW

type NOREACH = core.NOREACH

type TABLE = core.TABLE

type ITER = core.ITER

// errClassifier: the provider-error classifier cloudprovider.Is<T>(err) answers true only for an error that wraps a *T
// (errors.As into a *T) and never for nil; the matching Ignore<T> maps exactly the classified errors to nil and passes
// every other error on. Callers treat "classified" as a fact about the instance ("it is gone", "no capacity"), so a
// classifier that also accepts other errors turns transient failures into those facts.
func errClassifier(idPrefix, typ string, withIgnore bool) []Rule {
	is := "cloudprovider.Is" + typ
	rules := []Rule{
		core.Custom{ID: idPrefix + "a", Kind: "TT", Run: func(w *core.World, id string) []core.Result {
			fn := w.Fn(is)
			if fn == nil {
				return []core.Result{core.Anchor(id, "TT", is)}
			}
			construct := "TT:" + is
			want := regexp.MustCompile(`^errors\.As\(\$0, <\*\*cloudprovider\.` + typ + `>&local<\*cloudprovider\.` + typ + `>\)$`)
			var out []core.Result
			n := 0
			for _, s := range w.ReturnSinks(fn, core.RetTrue) {
				n++
				if s.Lit == nil || !s.Lit.Pol || !want.MatchString(s.Lit.Expr) {
					out = append(out, core.Bad(id, "TT", construct, w.InstrPos(s.Ret), is+" can answer true by `"+s.Desc+"`: only an error wrapping *"+typ+" may be classified"))
				}
				if !w.RetGuarded(s, G(`-^\$0 == nil$`)) {
					out = append(out, core.Bad(id, "TT", construct, w.InstrPos(s.Ret), is+" can answer true for a nil error"))
				}
			}
			if n == 0 {
				out = append(out, core.Bad(id, "TT", construct, w.Pos(fn.Pos()), "vacuous: never true"))
			}
			if len(out) == 0 {
				out = append(out, core.OK(id, "TT", construct, n, "true ⇔ errors.As(err, **"+typ+")"))
			}
			return out
		}},
	}
	if withIgnore {
		ig := "cloudprovider.Ignore" + typ
		rules = append(rules,
			MPT{ID: idPrefix + "b", Fn: ig, Ret: core.RetNilConst, Gates: gates(G(`+^cloudprovider\.Is`+typ+`\(\$0\)$`))},
			core.Custom{ID: idPrefix + "c", Kind: "PROV", Run: func(w *core.World, id string) []core.Result {
				return core.InstrPresent(w, id, "PROV", ig, `^return \$0$`, 1, "any other error is passed on unchanged")
			}},
		)
	}
	return rules
}

// allocatableViewRules: what an in-flight node offers. StateNode.Allocatable() returns the Node's own allocatable only once
// the node is initialized (or unmanaged); before that, zero / missing quantities are taken from the launched NodeClaim's
// *allocatable* (not its capacity: kube-reserved and eviction thresholds are already subtracted there).
func allocatableViewRules(p string) []Rule {
	const sn = "(*state.StateNode)."
	return []Rule{
		core.Custom{ID: p + ".VIEWA1", Kind: "RET", Run: func(w *core.World, id string) []core.Result {
			rs := core.RetLeavesGuarded(w, id, "RET", sn+"Allocatable", 0, `^\$0\.NodeClaim\.Status\.Allocatable$|^lo\.Assign\[|^state\.\w+\(\$0\.Node\.Status\.Allocatable, \$0\.NodeClaim\.Status\.Allocatable\)$`,
				G(`+^\(\*state\.StateNode\)\.Initialized\(\$0\)$`, `+^\$0\.NodeClaim == nil$`), 1,
				"the raw Node allocatable is returned only when initialized or without NodeClaim")
			rs = append(rs, core.RetLeavesGuarded(w, id, "RET", sn+"Allocatable", 0, `^\$0\.Node\.Status\.Allocatable$|^lo\.Assign\[|^state\.\w+\(\$0\.Node\.Status\.Allocatable, \$0\.NodeClaim\.Status\.Allocatable\)$`,
				G(`+^\$0\.Node == nil$`), 1, "the NodeClaim's allocatable is used on its own only while there is no Node")...)
			return rs
		}},
		core.Custom{ID: p + ".VIEWA2", Kind: "POST", Run: func(w *core.World, id string) []core.Result {
			return postInHelpers(w, sn+"Allocatable", func(fnName string) POST {
				return POST{ID: id, Fn: fnName, FromLit: `+^utils/resources\.IsZero\(lo\.Assign\[.*\]\(&local<\[1\]corev1\.ResourceList>\[:\]\)\[next\(range\(\$0\.NodeClaim\.Status\.Allocatable\)\)#1\]\)$`,
					Must: []string{`^mapupdate lo\.Assign\[.*\]\(&local<\[1\]corev1\.ResourceList>\[:\]\)\[next\(range\(\$0\.NodeClaim\.Status\.Allocatable\)\)#1\] = next\(range\(\$0\.NodeClaim\.Status\.Allocatable\)\)#2$`},
					Note: "zero quantities reported by an uninitialized node are overridden by the NodeClaim's"}
			})
		}},
	}
}

// toleratesRules: Taints.Tolerates judges a taint tolerated iff some toleration tolerates it — every toleration is put to
// corev1.Toleration.ToleratesTaint (which knows about empty keys, Exists and effects) unless one already matched.
func toleratesRules(p string) []Rule {
	const tol = "(scheduling.Taints).Tolerates"
	return []Rule{core.Custom{ID: p + ".TOL1", Kind: "ITER", Run: func(w *core.World, id string) []core.Result {
		// combinator form: tolerates := lo.ContainsBy(tolerations, func(t) bool { return t.ToleratesTaint(NopLogger, &taint, true) })
		if fn := w.Fn(tol); fn != nil {
			if len(w.Sites(fn, regexp.MustCompile(`^call lo\.Find\[corev1\.Toleration\]\(\$1, closure:.*\)#1$`), true)) == 1 {
				pred := "@arg:" + tol + `|^call lo\.Find\[corev1\.Toleration\]\(\$1, |1`
				return core.InstrPresent(w, id, "ITER", pred, `^return \(\*corev1\.Toleration\)\.ToleratesTaint\(\$0, operator/logging\.NopLogger, \^\$0\[.*\], true\)$`, 1, "some toleration tolerates the taint (every toleration is put to ToleratesTaint until one matches)")
			}
		}
		r := ITER{ID: id, Fn: tol, Loop: `+^\(phi\(-1\|\(phi↺ \+ 1\)\) \+ 1\) < len\(\$1\)$`, Gates: gates(
			G(`+^phi\(false\|phi\(true\|\(\*corev1\.Toleration\)\.ToleratesTaint\(`, `instr:^call \(\*corev1\.Toleration\)\.ToleratesTaint\(\$1\[.*\], operator/logging\.NopLogger, \$0\[.*\], true\)$`),
		), Note: "no toleration is skipped"}
		return r.Check(w)
	}}}
}

// usageBookkeepingRules: what a bound pod adds to its node's aggregates — requests go to the request maps and limits to
// the limit maps, for ordinary and for daemonset pods alike (the scheduler nets DaemonSetRequests out of the expected
// daemon overhead of an existing node; a wrong quantity there is subtracted twice or not at all).
func usageBookkeepingRules(p string) []Rule {
	const up = "(*state.StateNode).updateForPod"
	key := `cr/client\.ObjectKeyFromObject\(<\*corev1\.Pod>\$3\)`
	row := func(field, fn string) string {
		return `^mapupdate \$0\.` + field + `\[` + key + `\] = utils/resources\.` + fn + `\(&local<\[1\]\*corev1\.Pod>\[:\]\)$`
	}
	return []Rule{core.Custom{ID: p + ".USE1", Kind: "PROV", Run: func(w *core.World, id string) []core.Result {
		var rs []core.Result
		for _, r := range [][2]string{{"podRequests", "RequestsForPods"}, {"podLimits", "LimitsForPods"}, {"daemonSetRequests", "RequestsForPods"}, {"daemonSetLimits", "LimitsForPods"}} {
			rs = append(rs, core.InstrPresent(w, id, "PROV", up, row(r[0], r[1]), 1, r[0]+" records "+r[1]+"(pod)")...)
			if fn := w.Fn(up); fn != nil {
				if n := len(w.SitesOr(fn, regexp.MustCompile(`^mapupdate \$0\.`+r[0]+`\[`), true, 1)); n != 1 {
					rs = append(rs, core.Bad(id, "PROV", "PROV:"+up+":"+r[0], w.Pos(fn.Pos()), fmt.Sprintf("%s is written at %d sites, 1 confirmed by hand", r[0], n)))
				}
			}
		}
		rs = append(rs, core.InstrPresent(w, id, "PROV", up, `^store &local<\[1\]\*corev1\.Pod>\[0\] = \$3$`, 2, "…of the pod being bound")...)
		return rs
	}}}
}

// nodePodsRules: the pods of a node are listed by the Node's name (spec.nodeName), not by its hostname label.
func nodePodsRules(p string) []Rule {
	const pods = "(*state.StateNode).Pods"
	return []Rule{core.Custom{ID: p + ".PODS1", Kind: "PROV", Run: func(w *core.World, id string) []core.Result {
		rs := core.InstrPresent(w, id, "PROV", pods, `^return utils/node\.GetPods\(\$2, &local<\[1\]string>\[:\]\)#0, utils/node\.GetPods\(\$2, &local<\[1\]string>\[:\]\)#1$`, 1, "the node's pods are what GetPods lists")
		return append(rs, core.InstrPresent(w, id, "PROV", pods, `^store &local<\[1\]string>\[0\] = \$0\.Node\.ObjectMeta\.Name$`, 1, "…for the Node's name")...)
	}}}
}

// syncedFreshRules: the provisioning pass runs on the cluster state it just found synced — nothing blocks between the
// Synced test and Schedule (the batching window comes first).
func syncedFreshRules(p string) []Rule {
	return []Rule{NOREACH{ID: p + ".FRESH1", Fn: "(*prov.Provisioner).Reconcile", FromLit: `+^\(\*state\.Cluster\)\.Synced\(\$0\.cluster\)$`,
		Sink: `^call \(\*prov\.Batcher\[.*\]\)\.Wait\(|^call time\.Sleep\(|^call iface:\(k8s\.io/utils/clock\.\w+\)\.(Sleep|After)\(`, Note: "no waiting after the Synced test"}}
}

// postInHelpers evaluates a POST row in fn and, when its starting literal is not found there, in the private helpers fn
// calls (with their parameters rendered as the call's arguments): the loop the row talks about may have been extracted.
func postInHelpers(w *core.World, fnName string, mk func(fnName string) POST) []core.Result {
	fn := w.Fn(fnName)
	if fn == nil {
		return mk(fnName).Check(w)
	}
	var first, good []core.Result
	w.WithHelpers(fn, func(f *ssa.Function, _ ssa.Instruction) {
		if good != nil {
			return
		}
		r := mk(core.FnName(f)).Check(w)
		if first == nil {
			first = r
		}
		vac := len(r) == 1 && r[0].Status != core.Discharged && strings.HasPrefix(r[0].Msg, "vacuous")
		if !vac {
			good = r
		}
	})
	if good != nil {
		return good
	}
	return first
}
