// Package props holds one obligation table per property (C01…C20).
package props

import (
	"regexp"
	"kverif/core"
)

type (
	Rule = core.Rule
	DOM  = core.DOM
	MPT  = core.MPT
	POST = core.POST
	WMC  = core.WMC
	Gate = core.Gate
)

var G = core.G

func gates(g ...Gate) []Gate { return g }

type (
	IMPL = core.IMPL
	FLAG = core.FLAG
	CONE = core.CONE
)

type ERRFLOW = core.ERRFLOW

type NOREACH = core.NOREACH

type TABLE = core.TABLE

type ITER = core.ITER

// errClassifier: the provider-error classifier cloudprovider.Is<T>(err) answers true only for an error that wraps a *T
// (errors.As into a *T) and never for nil; the matching Ignore<T> maps exactly the classified errors to nil and passes
// every other error on. Callers treat "classified" as a fact about the instance ("it is gone", "no capacity"), so a
// classifier that also accepts other errors turns transient failures into those facts.
func errClassifier(idPrefix, typ string, withIgnore bool) []Rule {
	is := "cloudprovider.Is" + typ
	rules := []Rule{
		core.Custom{ID: idPrefix + "a", Kind: "TT", Run: func(w *core.World, id string) []core.Result {
			fn := w.Fn(is)
			if fn == nil {
				return []core.Result{core.Anchor(id, "TT", is)}
			}
			construct := "TT:" + is
			want := regexp.MustCompile(`^errors\.As\(\$0, <\*\*cloudprovider\.` + typ + `>&local<\*cloudprovider\.` + typ + `>\)$`)
			var out []core.Result
			n := 0
			for _, s := range w.ReturnSinks(fn, core.RetTrue) {
				n++
				if s.Lit == nil || !s.Lit.Pol || !want.MatchString(s.Lit.Expr) {
					out = append(out, core.Bad(id, "TT", construct, w.InstrPos(s.Ret), is+" can answer true by `"+s.Desc+"`: only an error wrapping *"+typ+" may be classified"))
				}
				if !w.RetGuarded(s, G(`-^\$0 == nil$`)) {
					out = append(out, core.Bad(id, "TT", construct, w.InstrPos(s.Ret), is+" can answer true for a nil error"))
				}
			}
			if n == 0 {
				out = append(out, core.Bad(id, "TT", construct, w.Pos(fn.Pos()), "vacuous: never true"))
			}
			if len(out) == 0 {
				out = append(out, core.OK(id, "TT", construct, n, "true ⇔ errors.As(err, **"+typ+")"))
			}
			return out
		}},
	}
	if withIgnore {
		ig := "cloudprovider.Ignore" + typ
		rules = append(rules,
			MPT{ID: idPrefix + "b", Fn: ig, Ret: core.RetNilConst, Gates: gates(G(`+^cloudprovider\.Is`+typ+`\(\$0\)$`))},
			core.Custom{ID: idPrefix + "c", Kind: "PROV", Run: func(w *core.World, id string) []core.Result {
				return core.InstrPresent(w, id, "PROV", ig, `^return \$0$`, 1, "any other error is passed on unchanged")
			}},
		)
	}
	return rules
}
