// Package props holds one obligation table per property (C01…C20).
package props

import (
	"kverif/core"
)

type (
	Rule = core.Rule
	DOM  = core.DOM
	MPT  = core.MPT
	POST = core.POST
	WMC  = core.WMC
	Gate = core.Gate
)

var G = core.G

func gates(g ...Gate) []Gate { return g }

type (
	IMPL = core.IMPL
	FLAG = core.FLAG
	CONE = core.CONE
)

type ERRFLOW = core.ERRFLOW

type NOREACH = core.NOREACH

type TABLE = core.TABLE

type ITER = core.ITER
