package props

import (
	"fmt"
	"go/token"
	"go/types"
	"regexp"
	"sort"
	"strings"

	"kverif/core"

	"golang.org/x/tools/go/ssa"
)

func init() {
	core.Register(&core.Property{
		ID:    "C05",
		Title: "Disruption budgets are never exceeded",
		Explanation: "Decides: (1) Budget.GetAllowedDisruptions returns the constant 0 on every error edge, MaxInt32 only when inactive, and otherwise the value scaled from the node count with roundUp=true; IsActive compares schedule.Next(now−duration) with now; " +
			"GetAllowedDisruptionsByReason folds lo.Min over exactly the budgets with Reasons==nil or containing the reason, starting from MaxInt32; MustGetAllowedDisruptions returns 0 on error; " +
			"(2) BuildDisruptionBudgetMapping counts only managed ∧ initialized ∧ ¬InstanceTerminating nodes, counts a node as disrupting iff Ready≠True ∨ MarkedForDeletion, and stores max(allowed − disrupting, 0); " +
			"(3) the implementers of disruption.Method are exactly the five known ones and each selects candidates only under mapping[pool]≠0, decrementing per selected candidate where several per pool can be chosen (Emptiness, MultiNode; StaticDrift bounds by min(mapping, len)); " +
			"(4) both validators rebuild the mapping and apply zero-check + decrement + nomination check per candidate, and ConsolidationValidator.isValid validates candidates before and after the command; " +
			"(5) Controller.disrupt calls ComputeCommands only with a mapping built without error for the method's own reason; " +
			"(6) the budget re-check binds the command that is handed on: every implementer of disruption.Validator returns, on success, a command whose Candidates are the result of its own validateCandidates (tested for error) — or the command it was given when that re-validation is all-or-nothing (success only with len(result) == len(input)); " +
			"and every method that owns a Validator returns from ComputeCommands the command Validate returned — or the one it handed to Validate when the validator its constructor wires returns its input (VALID1/VALID2, shared with C07); " +
			"(7) the node census of BuildDisruptionBudgetMapping runs to exhaustion before any allowance is computed or the mapping is returned as good (LOOP1/LOOP1b: no early exit leaves NotReady / marked nodes uncounted); " +
			"(8) mapCandidates returns lo.Filter(_, pred) with pred true only for candidates whose name is in the set of the PROPOSED candidates' names (PROV3) — so what the validators budget-check are the command's own nodes; " +
			"(9) Controller.Reconcile calls disrupt only after cluster.Synced() and is its only caller (DOM9, WMC2); a managed StateNode is Initialized() only with a Node labelled karpenter.sh/initialized=true (MPT4); " +
			"(10) every write of Command.Candidates in the disruption package is classified: a single budget-checked candidate (Drift, StaticDrift), the budget-filtered accumulation (Emptiness), the candidates computeConsolidation was given — multi-node passes sub-slices of its budget-filtered input — or a narrowing by validateCandidates / markDisrupted (PROV4/PROV4b); " +
			"(11) commands in flight keep consuming the budget: StartCommand returns nil only after MarkForDeletion of lo.Map(cmd.Candidates, ProviderID) (MPT2), MarkForDeletion marks every known id of the batch (LOOP2, POST3), UnmarkForDeletion is called only by CompleteCommand and only when !Succeeded (WMC3, DOM10), Queue.Reconcile completes a command only after an unrecoverable failure or after recording Succeeded (DOM11), markedForDeletion=false is stored only by UnmarkForDeletion (WMC4), and StateNode.MarkedForDeletion() answers false only without mark and without deletion timestamp (MPT3/MPT3b).",
		NotCovered: []string{"cron arithmetic inside robfig/cron", "accumulation across rounds beyond 'marked nodes are subtracted'", "numeric values of percent rounding",
			"validators injected through WithValidator by callers other than the method constructors (only the constructors' own wiring is resolved)",
			"that the commands disrupt hands to Queue.StartCommand are the ones ComputeCommands returned (only writes of Command.Candidates are classified, PROV4)",
			"that firstNConsolidationOption returns a command computeConsolidation produced (only its inputs are pinned, PROV4b)",
			"propagation of a budget's evaluation error out of GetAllowedDisruptionsByReason: the failing budget contributes 0 to the reasons it applies to (DOM1 + PROV1); that it also blocks the other reasons (MustGetAllowedDisruptions) is stricter than the statement",
			"commands that fail for good after some of their NodeClaims were already deleted are unmarked as a whole (upstream behaviour)",
			"staleness of the cluster state beyond Synced() (an informer that lags behind a deletion)"},
		Rules:      c05Rules,
	})
}

func c05Rules(tier string) []Rule {
	rules := append(c05RulesBase(tier),
		// what counts as disrupting includes nodes marked for deletion by a command in flight: the mark survives Node updates
		core.Custom{ID: "C05.COPY1", Kind: "COPY", Run: func(w *core.World, id string) []core.Result {
			return fromNode(w, id, []string{"markedForDeletion"})
		}})
	// the budget re-check of the validators only binds if the command that leaves the validation step is the one the
	// validator returned (trimmed to what the rebuilt budget still allows): shared_A.go
	rules = append(rules, validatedCommandRules("C05")...)
	// sweep triage: census completeness, candidate re-mapping, synced state, marks of commands in flight
	rules = append(rules, c05TriageRules()...)
	return append(rules, disruptionMarkRules("C05")...)
}

// c05TriageRules: facts the statement relies on that the mutation sweep found undecided.
func c05TriageRules() []Rule {
	const (
		build = "disr.BuildDisruptionBudgetMapping"
		ctrl  = "(*disr.Controller).Reconcile"
		disr  = "(*disr.Controller).disrupt"
	)
	// the edge on which the range over the cluster's nodes is exhausted (range or index loop)
	census := G(`-^.*phi\(.*\).* < len\(\(\*state\.Cluster\)\.DeepCopyNodes\(\$1\)\)$`)
	return []Rule{
		// "plus the pool's nodes that are already not ready or being deleted": the subtraction is only right if the census
		// has looked at EVERY node of the cluster state — the allowance is computed, and the mapping returned, only after the
		// loop over the nodes ran to exhaustion (an early exit leaves later NotReady / marked nodes uncounted)
		DOM{ID: "C05.LOOP1", Fn: build, Sink: `^call \(\*apis/v1\.NodePool\)\.MustGetAllowedDisruptions\(`, Gates: gates(census),
			Note: "allowances are computed from the complete node census"},
		MPT{ID: "C05.LOOP1b", Fn: build, Ret: core.RetNilConst, Gates: gates(census), Note: "the mapping is returned as good only after the complete node census"},
		// the validators budget-check mapCandidates(proposed, current) and — all-or-nothing validators — then accept the
		// command they were given: what mapCandidates returns must be candidates named like the proposed ones
		core.Custom{ID: "C05.PROV3", Kind: "PROV", Run: c05MapCandidates},
		// budgets are computed from the cluster state; a state that does not yet hold every node misses NotReady / deleting
		// nodes: methods only run once the state is synced, and only Reconcile runs them
		DOM{ID: "C05.DOM9", Fn: ctrl, Sink: `^call \(\*disr\.Controller\)\.disrupt\(`, Gates: gates(
			G(`+^\(\*state\.Cluster\)\.Synced\(\$0\.cluster\)$`),
		), Note: "disruption methods run on a synced cluster state only"},
		WMC{ID: "C05.WMC2", Sink: `^(call|go|defer) \(\*disr\.Controller\)\.disrupt\(`, Allowed: []string{ctrl}, Required: []string{ctrl}},
		// "percentages are taken of the pool's initialized nodes": what TT1's `Initialized` gate means for a managed node
		MPT{ID: "C05.MPT4", Fn: "(*state.StateNode).Initialized", Ret: core.RetTrue, Gates: gates(
			G(`-^\(\*state\.StateNode\)\.Managed\(\$0\)$`, `-^\$0\.Node == nil$`),
			G(`-^\(\*state\.StateNode\)\.Managed\(\$0\)$`, `+^\$0\.Node\.ObjectMeta\.Labels\["karpenter\.sh/initialized"\] == "true"$`),
		), Note: "a managed node counts as initialized only with a Node carrying the initialized label"},
		// the per-method rows decide which candidates pass the budget; they bind the command only if a command's candidate
		// list is nowhere built from anything else (multi-node: computeConsolidation puts exactly the candidates it was given
		// — a prefix of the budget-filtered slice — into the command) and is later only narrowed
		core.Custom{ID: "C05.PROV4", Kind: "PROV", Run: c05CommandCandidates},
		core.Custom{ID: "C05.PROV4b", Kind: "PROV", Run: func(w *core.World, id string) []core.Result {
			return core.ArgProvenance(w, id, "(*disr.MultiNodeConsolidation).firstNConsolidationOption", `^call \(\*disr\.(MultiNodeConsolidation|consolidation)\)\.computeConsolidation\(`, 2, `^\$2(\[[^\]]*\])?$`,
				"the binary search evaluates sub-slices of the (budget-filtered) candidates it was given")
		}},
	}
}

// C05.PROV4: every write of Command.Candidates in the disruption package is one of the classified ones — the value written
// is what the function's budget rows (or its caller's) speak about.
func c05CommandCandidates(w *core.World, id string) []core.Result {
	single := `^&local<\[1\]\*disr\.Candidate>\[:\]$`
	given := `^\$2(\[[^\]]*\])?$`
	classes := []struct{ fn, val, why string }{
		{"(*disr.Drift).ComputeCommands", single, "one budget-checked candidate (C05.DOM6)"},
		{"(*disr.StaticDrift).ComputeCommands", single, "one candidate of the budget-bounded prefix (C05.DOM7, C03.PROV6)"},
		{"(*disr.Emptiness).ComputeCommands", `^phi\(makeslice<\[\]\*disr\.Candidate>\|`, "the budget-filtered accumulation (C05.DOM3, DOM3b)"},
		{"(*disr.consolidation).computeConsolidation", given, "the candidates the evaluation was asked about"},
		{"(*disr.consolidation).computeSpotToSpotConsolidation", given, "the candidates the evaluation was asked about"},
		{"(*disr.EmptinessValidator).Validate", `^\(\*disr\.EmptinessValidator\)\.validateCandidates\(\$0, \$2\.Candidates\)#0$`, "narrowed to the re-validated candidates (C05.MPT1f)"},
		{"(*disr.Queue).StartCommand", `^\(\*disr\.Queue\)\.markDisrupted\(\$0, \$2\)#0$`, "narrowed to the candidates that could be tainted"},
	}
	re := regexp.MustCompile(`^store .*\.Candidates = `)
	isCmdField := func(in ssa.Instruction) (*ssa.Store, bool) {
		st, ok := in.(*ssa.Store)
		if !ok {
			return nil, false
		}
		fa, ok := st.Addr.(*ssa.FieldAddr)
		if !ok || core.TypeStr(fa.X.Type()) != "*disr.Command" {
			return nil, false
		}
		return st, true
	}
	seen := map[ssa.Instruction]bool{}
	var out []core.Result
	n := 0
	for _, c := range classes {
		fn := w.Fn(c.fn)
		if fn == nil {
			out = append(out, core.Anchor(id, "PROV", c.fn))
			continue
		}
		vre := regexp.MustCompile(c.val)
		k := 0
		w.WithHelpers(fn, func(f *ssa.Function, via ssa.Instruction) {
			for _, s := range w.Sites(f, re, true) {
				st, ok := isCmdField(s)
				if !ok {
					continue
				}
				k++
				if seen[s] {
					continue // already judged as a helper of an earlier class, in that caller's terms
				}
				seen[s] = true
				n++
				if r := w.RenderD(st.Val, 6); !vre.MatchString(r) {
					out = append(out, core.Bad(id, "PROV", "PROV:"+c.fn+":Command.Candidates", w.InstrPos(s), "the command's candidates are `"+clipStr(r, 120)+"` here, expected "+c.why+" — the budget rows of this method no longer speak about the nodes the command disrupts"))
				}
			}
		})
		if k == 0 {
			out = append(out, core.Bad(id, "PROV", "PROV:"+c.fn+":Command.Candidates", w.Pos(fn.Pos()), "vacuous: "+c.fn+" no longer writes Command.Candidates (the command is built elsewhere: idiom not recognised)"))
		}
	}
	for _, fn := range w.Fns {
		if core.IsTestSupport(fn) || !strings.Contains(core.FnName(fn), "disr.") {
			continue
		}
		for _, s := range w.Sites(fn, re, false) {
			if _, ok := isCmdField(s); !ok || seen[s] {
				continue
			}
			out = append(out, core.Bad(id, "PROV", "PROV:"+core.FnName(fn)+":Command.Candidates", w.InstrPos(s), "unclassified write of a command's candidate list: `"+clipStr(w.RenderInstr(s), 140)+"` — no budget row speaks about these candidates"))
		}
	}
	if n < 9 && len(out) == 0 {
		out = append(out, core.Bad(id, "PROV", "PROV:disr:Command.Candidates", "", fmt.Sprintf("vacuous: %d writes of Command.Candidates found, 9 confirmed by hand", n)))
	}
	if len(out) == 0 {
		out = append(out, core.OK(id, "PROV", "PROV:disr:Command.Candidates", n, "every command's candidate list is built from budget-checked candidates and only narrowed afterwards"))
	}
	return out
}

// C05.PROV3: mapCandidates(proposed, current) returns lo.Filter(_, pred) where pred(c) holds only if c's name is in the set of
// the proposed candidates' names.
func c05MapCandidates(w *core.World, id string) []core.Result {
	const mc = "disr.mapCandidates"
	fn := w.Fn(mc)
	if fn == nil {
		return []core.Result{core.Anchor(id, "PROV", mc)}
	}
	construct := "PROV:" + mc
	var out []core.Result
	n := 0
	for _, s := range w.ReturnSinks(fn, core.RetAny) {
		if len(s.Ret.Results) != 1 {
			continue
		}
		n++
		v := s.Ret.Results[0]
		call, ok := v.(*ssa.Call)
		if !ok || !strings.HasPrefix(w.CalleeName(call.Common()), "lo.Filter[*disr.Candidate,") || len(call.Call.Args) != 2 {
			out = append(out, core.Bad(id, "PROV", construct, w.InstrPos(s.Ret), "mapCandidates returns `"+clipStr(w.Render(v), 120)+"`, not lo.Filter(candidates, name ∈ proposed) (idiom not recognised)"))
			continue
		}
		pred := fnValueOf(call.Call.Args[1])
		if pred == nil {
			out = append(out, core.Bad(id, "PROV", construct, w.InstrPos(s.Ret), "the predicate of mapCandidates' filter cannot be resolved"))
			continue
		}
		pn := core.FnName(pred)
		has := `\(apim/util/sets\.String\)\.Has\(`
		m := MPT{ID: id, Fn: pn, Ret: core.RetTrue, Gates: gates(
			G(`+^` + has + `\^apim/util/sets\.NewString\(lo\.Map\[\*disr\.Candidate, string\]\(.*\)\), \(\*state\.StateNode\)\.Name\(\$0\.StateNode\)\)$`),
		), Note: "a candidate is kept only if its name was proposed"}
		for _, r := range m.Check(w) {
			if r.Status != core.Discharged {
				out = append(out, r)
			}
		}
		// … and the set asked is the set of the PROPOSED candidates' names
		for _, r := range core.ArgProvenance(w, id, pn, `^call `+has, 0, `^\^apim/util/sets\.NewString\(lo\.Map\[\*disr\.Candidate, string\]\(\$0, [^,]*\)\)$`,
			"the name set asked by mapCandidates' predicate is built from the proposed candidates") {
			if r.Status != core.Discharged {
				out = append(out, r)
			}
		}
	}
	if n == 0 {
		out = append(out, core.Bad(id, "PROV", construct, w.Pos(fn.Pos()), "vacuous: mapCandidates has no return"))
	}
	for _, r := range mappedCandidates(w, id, "PROV", mc, `^call apim/util/sets\.NewString\(`, 0, `^\$0$`, `^return \(\*state\.StateNode\)\.Name\(\$0\.StateNode\)$`,
		"the proposed candidates are identified by their names", 1) {
		if r.Status != core.Discharged {
			out = append(out, r)
		}
	}
	if len(out) == 0 {
		out = append(out, core.OK(id, "PROV", construct, n, "mapCandidates = the candidates whose name is among the proposed candidates' names"))
	}
	return out
}

func c05RulesBase(tier string) []Rule {
	const (
		bgad  = "(*apis/v1.Budget).GetAllowedDisruptions"
		byr   = "(*apis/v1.NodePool).GetAllowedDisruptionsByReason"
		must  = "(*apis/v1.NodePool).MustGetAllowedDisruptions"
		build = "disr.BuildDisruptionBudgetMapping"
		disr  = "(*disr.Controller).disrupt"
		cvc   = "(*disr.ConsolidationValidator).validateCandidates"
		evc   = "(*disr.EmptinessValidator).validateCandidates"
		isv   = "(*disr.ConsolidationValidator).isValid"
	)
	zero := func(sorted string) string { return `\$2\[` + sorted + `\[.*\]\.NodePool\.ObjectMeta\.Name\] == 0$` }
	dec := `^mapupdate \$2\[.*\.NodePool\.ObjectMeta\.Name\] = \(\$2\[.*\.NodePool\.ObjectMeta\.Name\] - 1\)$`
	bmap := `disr\.BuildDisruptionBudgetMapping\(\$0\.validation\.cluster, \$0\.validation\.clock, \$0\.validation\.kubeClient, \$0\.validation\.cloudProvider, \$0\.validation\.recorder, \$0\.validation\.reason\)`
	return []Rule{
		core.Custom{ID: "C05.DOM1", Kind: "DOM", Run: c05BudgetReturns},
		MPT{ID: "C05.ORD1", Fn: "(*apis/v1.Budget).IsActive", Ret: core.RetSpec{Index: 0, Want: "true"}, Min: 2, Gates: gates(
			G(`+^\$0\.Schedule == nil$`, `+^github\.com/robfig/cron/v3\.ParseStandard\(.*\)#1 == nil$`),
			G(`+^\$0\.Duration == nil$`, `+^github\.com/robfig/cron/v3\.ParseStandard\(.*\)#1 == nil$`),
			G(`+^\$0\.Schedule == nil$`, `-^\(time\.Time\)\.After\(iface:\(github\.com/robfig/cron/v3\.Schedule\)\.Next\(`),
		)},
		core.Custom{ID: "C05.ORD1b", Kind: "PROV", Run: func(w *core.World, id string) []core.Result {
			// nextHit = schedule.Next(now.UTC() − duration); compared with now.UTC()
			rs := core.InstrPresent(w, id, "PROV", "(*apis/v1.Budget).IsActive",
				`^call \(time\.Time\)\.Add\(\(time\.Time\)\.UTC\(iface:\(k8s\.io/utils/clock\.PassiveClock\)\.Now\(\$1\)\), -lo\.FromPtr\[metav1\.Duration\]\(\$0\.Duration\)\.Duration\)$`, 1,
				"the look-back checkpoint is now − duration")
			rs = append(rs, core.InstrPresent(w, id, "PROV", "(*apis/v1.Budget).IsActive",
				`^call iface:\(github\.com/robfig/cron/v3\.Schedule\)\.Next\(github\.com/robfig/cron/v3\.ParseStandard\(.*\)#0, \(time\.Time\)\.Add\(\(time\.Time\)\.UTC\(`, 1, "next hit is computed from the checkpoint")...)
			rs = append(rs, core.InstrPresent(w, id, "PROV", "(*apis/v1.Budget).IsActive",
				`^call \(time\.Time\)\.After\(iface:\(github\.com/robfig/cron/v3\.Schedule\)\.Next\(.*\), \(time\.Time\)\.UTC\(iface:\(k8s\.io/utils/clock\.PassiveClock\)\.Now\(\$1\)\)\)$`, 1, "active ⇔ next hit is not after now")...)
			return rs
		}},
		core.Custom{ID: "C05.PROV1", Kind: "PROV", Run: c05MinFold},
		POST{ID: "C05.PROV1b", Fn: byr, FromLit: `+^\$0\.Spec\.Disruption\.Budgets\[.*\]\.Reasons == nil$`, Must: []string{`^call lo\.Min\[int\]\(`}, Note: "a budget without reasons is always folded in"},
		POST{ID: "C05.PROV1c", Fn: byr, FromLit: `+^lo\.Contains\[apis/v1\.DisruptionReason\]\(\$0\.Spec\.Disruption\.Budgets\[.*\]\.Reasons, \$3\)$`, Must: []string{`^call lo\.Min\[int\]\(`}, Note: "a budget listing the reason is folded in"},
		core.Custom{ID: "C05.DOM2", Kind: "DOM", Run: func(w *core.World, id string) []core.Result {
			fn := w.Fn(must)
			if fn == nil {
				return []core.Result{core.Anchor(id, "DOM", must)}
			}
			var out []core.Result
			for _, s := range w.ReturnSinks(fn, core.RetAny) {
				r := w.RenderInstr(s.Ret)
				switch r {
				case "return 0":
				case "return (*apis/v1.NodePool).GetAllowedDisruptionsByReason($0, $1, $2, $3)#0":
					if !w.RetGuarded(s, G(`+^\(\*apis/v1\.NodePool\)\.GetAllowedDisruptionsByReason\(\$0, \$1, \$2, \$3\)#1 == nil$`)) {
						out = append(out, core.Bad(id, "DOM", "DOM:"+must, w.InstrPos(s.Ret), "the computed allowance is returned although GetAllowedDisruptionsByReason failed (a malformed budget must allow zero)"))
					}
				default:
					out = append(out, core.Bad(id, "DOM", "DOM:"+must, w.InstrPos(s.Ret), "unexpected result `"+r+"`"))
				}
			}
			if len(out) == 0 {
				out = append(out, core.OK(id, "DOM", "DOM:"+must, 2, "0 on error, the fold otherwise"))
			}
			return out
		}},

		core.Custom{ID: "C05.TT1", Kind: "TT", Run: c05Mapping},
		core.Custom{ID: "C05.REG1", Kind: "REG", Run: c05Methods},

		// ---- per method
		DOM{ID: "C05.DOM3", Fn: "(*disr.Emptiness).ComputeCommands", Shallow: true, Sink: `^call append\(`, Gates: gates(
			G(`-^`+zero(`\(\*disr\.consolidation\)\.sortCandidates\(\$0\.consolidation, \$3\)`)),
			G(`+^\(\*disr\.Candidate\)\.IsEmpty\(`),
		)},
		POST{ID: "C05.DOM3b", Fn: "(*disr.Emptiness).ComputeCommands", Shallow: true, From: `^call append\(`, Must: []string{dec}},
		core.Custom{ID: "C05.DOM3c", Kind: "PROV", Run: func(w *core.World, id string) []core.Result {
			// the command's candidates are the budget-filtered slice
			return core.InstrPresent(w, id, "PROV", "(*disr.Emptiness).ComputeCommands", `^store &local<disr\.Command>\.Candidates = phi\(makeslice<\[\]\*disr\.Candidate>\|`, 1, "the emptiness command carries the budget-filtered candidates")
		}},
		DOM{ID: "C05.DOM4", Fn: "(*disr.MultiNodeConsolidation).ComputeCommands", Shallow: true, Sink: `^call append\(`, Gates: gates(
			G(`-^` + zero(`\(\*disr\.consolidation\)\.sortCandidates\(\$0\.consolidation, \$3\)`)),
		)},
		POST{ID: "C05.DOM4b", Fn: "(*disr.MultiNodeConsolidation).ComputeCommands", Shallow: true, From: `^call append\(`, Must: []string{dec}},
		core.Custom{ID: "C05.DOM4c", Kind: "PROV", Run: func(w *core.World, id string) []core.Result {
			return core.ArgProvenance(w, id, "(*disr.MultiNodeConsolidation).ComputeCommands", `^call \(\*disr\.MultiNodeConsolidation\)\.firstNConsolidationOption\(`, 2, `^phi\(makeslice<\[\]\*disr\.Candidate>\|`, "multi-node search runs on the budget-filtered candidates only")
		}},
		DOM{ID: "C05.DOM5", Fn: "(*disr.SingleNodeConsolidation).ComputeCommands", Sink: `^call \(\*disr\.consolidation\)\.computeConsolidation\(`, Gates: gates(
			G(`-^` + zero(`\(\*disr\.SingleNodeConsolidation\)\.SortCandidates\(\$0, \$3\)`)),
		)},
		core.Custom{ID: "C05.DOM5b", Kind: "PROV", Run: func(w *core.World, id string) []core.Result {
			// a single-node command has exactly the one candidate that was budget-checked
			return core.ArgProvenance(w, id, "(*disr.SingleNodeConsolidation).ComputeCommands", `^call \(\*disr\.consolidation\)\.computeConsolidation\(`, 2, `^&local<\[1\]\*disr\.Candidate>\[:\]$`, "single-node consolidation evaluates one candidate per command")
		}},
		DOM{ID: "C05.DOM6", Fn: "(*disr.Drift).ComputeCommands", Sink: `^call disr\.SimulateScheduling\(|^store &local<disr\.Command>\.Candidates = `, Min: 2, Gates: gates(
			G(`-^\$2\[slices\.Concat\[\[\]\*disr\.Candidate, \*disr\.Candidate\]\(.*\)\[.*\]\.NodePool\.ObjectMeta\.Name\] == 0$`),
		)},
		core.Custom{ID: "C05.DOM6b", Kind: "PROV", Run: func(w *core.World, id string) []core.Result {
			return core.InstrPresent(w, id, "PROV", "(*disr.Drift).ComputeCommands", `^store &local<disr\.Command>\.Candidates = &local<\[1\]\*disr\.Candidate>\[:\]$`, 1, "a drift command has exactly one candidate")
		}},
		// StaticDrift's budget rows live in C03.PROV6 (min(mapping, len) and slice bound); the zero check is repeated here
		DOM{ID: "C05.DOM7", Fn: "(*disr.StaticDrift).ComputeCommands", Sink: `^store &local<disr\.Command>\.Candidates = `, Gates: gates(
			G(`-^\$2\[next\(range\(lo\.GroupBy.*#1\] == 0$`),
			G(`-^\(\*state\.NodePoolState\)\.ReserveNodeCount\(.*lo\.Min\[int64\]\(.*\)\) == 0$`),
		)},

		// ---- validators
		MPT{ID: "C05.MPT1", Fn: cvc, Ret: core.RetNilConst, Gates: gates(
			G(`+^disr\.GetCandidates\(.*\)#1 == nil$`),
			G(`+^len\(\$2\) == len\(disr\.mapCandidates\(\$2, disr\.GetCandidates\(.*\)#0\)\)$`),
			G(`+^`+bmap+`#1 == nil$`),
			G(`-^\(phi\(-1\|\(phi↺ \+ 1\)\) \+ 1\) < len\(disr\.mapCandidates\(`),
		)},
		IMPL{ID: "C05.MPT1b", Fn: cvc, Lit: `+^` + bmap + `#0\[.*\.NodePool\.ObjectMeta\.Name\] == 0$`, Not: core.RetOK},
		IMPL{ID: "C05.MPT1c", Fn: cvc, Lit: `+^\(\*state\.Cluster\)\.IsNodeNominated\(`, Not: core.RetOK},
		POST{ID: "C05.MPT1d", Fn: cvc, FromLit: `-^` + bmap + `#0\[.*\.NodePool\.ObjectMeta\.Name\] == 0$`,
			Must: []string{`^mapupdate ` + bmap + `#0\[.*\.NodePool\.ObjectMeta\.Name\] = \(disr\.BuildDisruptionBudgetMapping\(.*\)#0\[.*\] - 1\)$`}},
		MPT{ID: "C05.MPT1e", Fn: evc, Ret: core.RetNilConst, Gates: gates(
			G(`+^disr\.GetCandidates\(.*\)#1 == nil$`),
			G(`+^`+bmap+`#1 == nil$`),
			G(`+^len\(lo\.Filter\[\*disr\.Candidate, \[\]\*disr\.Candidate\]\(disr\.mapCandidates\(\$2, disr\.GetCandidates\(.*\)#0\), closure:.*\)\)>=1$`),
		)},
		MPT{ID: "C05.MPT1f", Fn: "@arg:" + evc + `|^call lo\.Filter\[\*disr\.Candidate, \[\]\*disr\.Candidate\]\(|1`, Ret: core.RetTrue, Gates: gates(
			G(`-^\(\*state\.Cluster\)\.IsNodeNominated\(`),
			G(`-^\^`+bmap+`#0\[\$0\.NodePool\.ObjectMeta\.Name\] == 0$`),
			G(`instr:^mapupdate \^`+bmap+`#0\[\$0\.NodePool\.ObjectMeta\.Name\] = \(\^disr\.BuildDisruptionBudgetMapping\(.*\)#0\[\$0\.NodePool\.ObjectMeta\.Name\] - 1\)$`),
		)},
		core.Custom{ID: "C05.MPT1g", Kind: "PROV", Run: func(w *core.World, id string) []core.Result {
			// the validated slice returned is the filtered one
			rs := core.InstrPresent(w, id, "PROV", evc, `^return lo\.Filter\[\*disr\.Candidate, \[\]\*disr\.Candidate\]\(disr\.mapCandidates\(`, 1, "emptiness validation returns only the candidates that passed the budget filter")
			rs = append(rs, core.InstrPresent(w, id, "PROV", "(*disr.EmptinessValidator).Validate", `^store \$2\.Candidates = \(\*disr\.EmptinessValidator\)\.validateCandidates\(\$0, \$2\.Candidates\)#0$`, 1, "the validated command carries only validated candidates")...)
			return rs
		}},
		MPT{ID: "C05.POST1", Fn: isv, Ret: core.RetOK, Gates: gates(
			G(`+^\(\*disr\.ConsolidationValidator\)\.validateCandidates\(\$0, \$2\.Candidates\)#1 == nil$`),
			G(`+^\(\*disr\.validation\)\.validateCommand\(\$0\.validation, \$2, \(\*disr\.ConsolidationValidator\)\.validateCandidates\(\$0, \$2\.Candidates\)#0\) == nil$`),
			G(`+^\(\*disr\.ConsolidationValidator\)\.validateCandidates\(\$0, \(\*disr\.ConsolidationValidator\)\.validateCandidates\(\$0, \$2\.Candidates\)#0\)#1 == nil$`),
		)},
		MPT{ID: "C05.POST1b", Fn: "(*disr.ConsolidationValidator).Validate", Ret: core.RetNilConst, Gates: gates(
			G(`+^\(\*disr\.ConsolidationValidator\)\.isValid\(\$0, \$2, \$3\) == nil$`),
		)},
		// validation is not skipped: the methods return a command only after Validate succeeded
		MPT{ID: "C05.POST2a", Fn: "(*disr.Emptiness).ComputeCommands", Ret: core.RetSpec{Index: -1, Want: "nilconst", Also: `^return &local<\[1\]disr\.Command>\[:\], nil$`}, Gates: gates(
			G(`+^iface:\(disr\.Validator\)\.Validate\(\$0\.validator, .*\)#1 == nil$`))},
		MPT{ID: "C05.POST2b", Fn: "(*disr.MultiNodeConsolidation).ComputeCommands", Ret: core.RetSpec{Index: -1, Want: "nilconst", Also: `^return &local<\[1\]disr\.Command>\[:\], nil$`}, Gates: gates(
			G(`+^iface:\(disr\.Validator\)\.Validate\(\$0\.validator, .*\)#1 == nil$`))},
		MPT{ID: "C05.POST2c", Fn: "(*disr.SingleNodeConsolidation).ComputeCommands", Ret: core.RetSpec{Index: -1, Want: "nilconst", Also: `^return &local<\[1\]disr\.Command>\[:\], nil$`}, Gates: gates(
			G(`+^iface:\(disr\.Validator\)\.Validate\(\$0\.validator, .*\)#1 == nil$`))},

		// ---- controller
		DOM{ID: "C05.DOM8", Fn: disr, Sink: `^call iface:\(disr\.Method\)\.ComputeCommands\(\$2, disr\.BuildDisruptionBudgetMapping\(\$0\.cluster, \$0\.clock, \$0\.kubeClient, \$0\.cloudProvider, \$0\.recorder, iface:\(disr\.Method\)\.Reason\(.*\)\)#0, disr\.GetCandidatesWithTotals\(`, Gates: gates(
			G(`+^disr\.BuildDisruptionBudgetMapping\(\$0\.cluster, \$0\.clock, \$0\.kubeClient, \$0\.cloudProvider, \$0\.recorder, iface:\(disr\.Method\)\.Reason\(\$2\)\)#1 == nil$`),
			G(`+^disr\.GetCandidatesWithTotals\(.*\)#2 == nil$`),
		)},
		WMC{ID: "C05.WMC1", Sink: `^(call|go|defer) iface:\(disr\.Method\)\.ComputeCommands\(`, Allowed: []string{disr}, Required: []string{disr}},
		core.Custom{ID: "C05.PROV2", Kind: "PROV", Run: func(w *core.World, id string) []core.Result {
			return core.ArgProvenance(w, id, disr, `^call disr\.GetCandidatesWithTotals\(`, 6, `^closure:\(disr\.Method\)\.ShouldDisrupt\$bound$`, "candidates are filtered with the same method's ShouldDisrupt")
		}},
		// the re-validation after the delay charges the same reason's budgets as the method that produced the command
		core.Custom{ID: "C05.SYM1", Kind: "SYM", Run: c05ValidatorReasons},
	}
}

// C05.SYM1: every function that stores validation.reason stores the constant that the Reason() method of the method type
// whose ConsolidationType it records returns.
func c05ValidatorReasons(w *core.World, id string) []core.Result {
	reStore := regexp.MustCompile(`^store \S*<disr\.validation>\.reason = (".*")$`)
	reFilter := regexp.MustCompile(`^store \S*\.validationType = (\(\*disr\.\w+\))\.ConsolidationType\(&local<disr\.\w+>\)$`)
	reAny := regexp.MustCompile(`^store .*\.reason = `)
	var out []core.Result
	n := 0
	for _, fn := range w.Fns {
		if core.IsTestSupport(fn) || !strings.Contains(core.FnName(fn), "disr.") {
			continue
		}
		for _, st := range w.Sites(fn, reAny, false) {
			s, ok := st.(*ssa.Store)
			if !ok {
				continue
			}
			fa, ok := s.Addr.(*ssa.FieldAddr)
			if !ok || core.TypeStr(fa.X.Type()) != "*disr.validation" {
				continue
			}
			n++
			name := core.FnName(fn)
			construct := "SYM:validation.reason@" + name
			m := reStore.FindStringSubmatch(w.RenderInstr(st))
			if m == nil {
				out = append(out, core.Bad(id, "SYM", construct, w.InstrPos(st), "validation.reason is not a constant here: `"+clipStr(w.RenderInstr(st), 100)+"`"))
				continue
			}
			var method string
			for _, f := range w.Sites(fn, reFilter, false) {
				method = reFilter.FindStringSubmatch(w.RenderInstr(f))[1]
			}
			if method == "" {
				out = append(out, core.Bad(id, "SYM", construct, w.InstrPos(st), "the validator built here does not take its validationType from a method value; its budget reason cannot be matched to a method"))
				continue
			}
			rf := w.Fn(method + ".Reason")
			if rf == nil {
				out = append(out, core.Anchor(id, "SYM", method+".Reason"))
				continue
			}
			rets := w.Sites(rf, regexp.MustCompile(`^return `), false)
			if len(rets) != 1 || w.RenderInstr(rets[0]) != "return "+m[1] {
				got := "?"
				if len(rets) == 1 {
					got = w.RenderInstr(rets[0])
				}
				out = append(out, core.Bad(id, "SYM", construct, w.InstrPos(st), fmt.Sprintf("the validator re-checks budgets for reason %s but validates commands of %s, whose Reason() is `%s`: after the validation delay a different reason's budgets are charged", m[1], method, got)))
				continue
			}
			out = append(out, core.OK(id, "SYM", construct, 1, "reason "+m[1]+" = "+method+".Reason()"))
		}
	}
	if n < 3 {
		return []core.Result{core.Bad(id, "SYM", "SYM:validation.reason", "", fmt.Sprintf("vacuous: %d validator constructors found, 3 confirmed by hand", n))}
	}
	return out
}

// C05.DOM1: Budget.GetAllowedDisruptions result shapes.
func c05BudgetReturns(w *core.World, id string) []core.Result {
	const bgad = "(*apis/v1.Budget).GetAllowedDisruptions"
	fn := w.Fn(bgad)
	if fn == nil {
		return []core.Result{core.Anchor(id, "DOM", bgad)}
	}
	construct := "DOM:" + bgad
	scaled := `apim/util/intstr.GetScaledValueFromIntOrPercent(apis/v1.GetIntStrFromValue($0.Nodes), $2, true)`
	var out []core.Result
	n := 0
	for _, b := range fn.Blocks {
		ret, ok := b.Instrs[len(b.Instrs)-1].(*ssa.Return)
		if !ok || len(ret.Results) != 2 {
			continue
		}
		n++
		r0 := w.Render(ret.Results[0])
		errNil := w.Render(ret.Results[1]) == "nil"
		s := core.RetSink{Ret: ret}
		switch {
		case !errNil:
			if r0 != "0" {
				out = append(out, core.Bad(id, "DOM", construct, w.InstrPos(ret), "an error return carries allowance `"+r0+"` — a misconfigured budget must fail closed with 0"))
			}
		case r0 == "2147483647":
			if !w.RetGuarded(s, G(`-^\(\*apis/v1\.Budget\)\.IsActive\(\$0, \$1\)#0$`)) || !w.RetGuarded(s, G(`+^\(\*apis/v1\.Budget\)\.IsActive\(\$0, \$1\)#1 == nil$`)) {
				out = append(out, core.Bad(id, "DOM", construct, w.InstrPos(ret), "unlimited allowance (MaxInt32) is returned for a budget that is active or whose schedule failed to evaluate"))
			}
		case r0 == scaled+"#0":
			for _, g := range []core.Gate{G(`+^\(\*apis/v1\.Budget\)\.IsActive\(\$0, \$1\)#0$`), G(`+^\(\*apis/v1\.Budget\)\.IsActive\(\$0, \$1\)#1 == nil$`), G(`+^` + regexp.QuoteMeta(scaled) + `#1 == nil$`)} {
				if !w.RetGuarded(s, g) {
					out = append(out, core.Bad(id, "DOM", construct, w.InstrPos(ret), "the scaled allowance is returned without {"+g.Text+"}"))
				}
			}
		default:
			out = append(out, core.Bad(id, "DOM", construct, w.InstrPos(ret), "unclassified allowance `"+r0+"` (expected 0 on error, MaxInt32 when inactive, GetScaledValueFromIntOrPercent(nodes, numNodes, roundUp=true) otherwise)"))
		}
	}
	if n < 4 {
		out = append(out, core.Bad(id, "DOM", construct, w.Pos(fn.Pos()), fmt.Sprintf("vacuous: %d returns, 4 confirmed by hand", n)))
	}
	if len(out) == 0 {
		out = append(out, core.OK(id, "DOM", construct, n, "0 on error; MaxInt32 iff inactive; scaled(numNodes, roundUp) otherwise"))
	}
	return out
}

// C05.PROV1: GetAllowedDisruptionsByReason: allowed starts at MaxInt32 and is only updated by lo.Min([allowed, val]) on the
// edges where the budget applies to the reason.
func c05MinFold(w *core.World, id string) []core.Result {
	const byr = "(*apis/v1.NodePool).GetAllowedDisruptionsByReason"
	fn := w.Fn(byr)
	if fn == nil {
		return []core.Result{core.Anchor(id, "PROV", byr)}
	}
	construct := "PROV:" + byr
	var out []core.Result
	var retPhi *ssa.Phi
	for _, s := range w.ReturnSinks(fn, core.RetAny) {
		if p, ok := s.Ret.Results[0].(*ssa.Phi); ok {
			retPhi = p
		}
	}
	if retPhi == nil {
		return []core.Result{core.Bad(id, "PROV", construct, w.Pos(fn.Pos()), "the allowance is not accumulated in a loop variable (idiom not recognised)")}
	}
	applies := G(`+^\$0\.Spec\.Disruption\.Budgets\[.*\]\.Reasons == nil$`, `+^lo\.Contains\[apis/v1\.DisruptionReason\]\(\$0\.Spec\.Disruption\.Budgets\[.*\]\.Reasons, \$3\)$`)
	cut := w.GateCut(fn, applies)
	for i, e := range retPhi.Edges {
		r := w.Render(e)
		switch {
		case r == "2147483647":
		case e == ssa.Value(retPhi) || strings.HasPrefix(r, "phi"):
		case strings.HasPrefix(r, "lo.Min[int]("):
			if core.EdgeReachable(retPhi.Block().Preds[i], retPhi.Block(), cut) {
				out = append(out, core.Bad(id, "PROV", construct, w.InstrPos(retPhi), "a budget is folded into the allowance without the test `Reasons == nil || Contains(Reasons, reason)`"))
			}
			// operands of the min
			call := e.(*ssa.Call)
			ok0, ok1 := false, false
			if sl, ok := call.Call.Args[0].(*ssa.Slice); ok {
				if arr, ok := sl.X.(*ssa.Alloc); ok {
					for _, ref := range *arr.Referrers() {
						ia, ok := ref.(*ssa.IndexAddr)
						if !ok {
							continue
						}
						for _, u := range *ia.Referrers() {
							if st, ok := u.(*ssa.Store); ok {
								if st.Val == ssa.Value(retPhi) {
									ok0 = true
								}
								if strings.HasPrefix(w.Render(st.Val), "(*apis/v1.Budget).GetAllowedDisruptions(") && strings.HasSuffix(w.Render(st.Val), ", $1, $2)#0") {
									ok1 = true
								}
							}
						}
					}
				}
			}
			if !ok0 || !ok1 {
				out = append(out, core.Bad(id, "PROV", construct, w.InstrPos(call), "the fold is not lo.Min([allowed so far, this budget's GetAllowedDisruptions(clock, numNodes)])"))
			}
		default:
			out = append(out, core.Bad(id, "PROV", construct, w.InstrPos(retPhi), "unexpected source of the allowance: `"+r+"`"))
		}
	}
	if len(out) == 0 {
		out = append(out, core.OK(id, "PROV", construct, len(retPhi.Edges), "allowed = fold lo.Min over applicable budgets from MaxInt32"))
	}
	return out
}

// C05.TT1: BuildDisruptionBudgetMapping: who is counted, who is disrupting, what is stored.
func c05Mapping(w *core.World, id string) []core.Result {
	const build = "disr.BuildDisruptionBudgetMapping"
	fn := w.Fn(build)
	if fn == nil {
		return []core.Result{core.Anchor(id, "TT", build)}
	}
	construct := "TT:" + build
	// identify the three maps by role
	var mapping, numNodes, disrupting ssa.Value
	for _, s := range w.ReturnSinks(fn, core.RetNilConst) {
		mapping = s.Ret.Results[0]
	}
	var mustCall *ssa.Call
	for _, s := range w.Sites(fn, regexp.MustCompile(`^call \(\*apis/v1\.NodePool\)\.MustGetAllowedDisruptions\(`), false) {
		mustCall = s.(*ssa.Call)
	}
	if mapping == nil || mustCall == nil {
		return []core.Result{core.Bad(id, "TT", construct, w.Pos(fn.Pos()), "idiom not recognised: success return / MustGetAllowedDisruptions call not found")}
	}
	var out []core.Result
	// numNodes = map looked up in the 3rd argument; clock and reason are the function's parameters
	if lk, ok := mustCall.Call.Args[2].(*ssa.Lookup); ok {
		numNodes = lk.X
	}
	if w.Render(mustCall.Call.Args[1]) != "$2" || w.Render(mustCall.Call.Args[3]) != "$6" {
		out = append(out, core.Bad(id, "TT", construct+":args", w.InstrPos(mustCall), "MustGetAllowedDisruptions is not called with the clock and reason handed to BuildDisruptionBudgetMapping"))
	}
	// stored value: lo.Max([allowed − disrupting[pool], 0])
	var store *ssa.MapUpdate
	for _, b := range fn.Blocks {
		for _, in := range b.Instrs {
			if mu, ok := in.(*ssa.MapUpdate); ok && mu.Map == mapping {
				store = mu
			}
		}
	}
	if store == nil {
		return append(out, core.Bad(id, "TT", construct+":store", w.Pos(fn.Pos()), "the mapping returned is never written"))
	}
	okMax := false
	if c, ok := store.Value.(*ssa.Call); ok && w.CalleeName(c.Common()) == "lo.Max[int]" {
		if sl, ok := c.Call.Args[0].(*ssa.Slice); ok {
			if arr, ok := sl.X.(*ssa.Alloc); ok {
				var hasZero, hasDiff bool
				for _, ref := range *arr.Referrers() {
					ia, ok := ref.(*ssa.IndexAddr)
					if !ok {
						continue
					}
					for _, u := range *ia.Referrers() {
						st, ok := u.(*ssa.Store)
						if !ok {
							continue
						}
						if w.Render(st.Val) == "0" {
							hasZero = true
						}
						if bo, ok := st.Val.(*ssa.BinOp); ok && bo.Op == token.SUB && bo.X == ssa.Value(mustCall) {
							if lk, ok := bo.Y.(*ssa.Lookup); ok {
								disrupting = lk.X
								hasDiff = true
							}
						}
					}
				}
				okMax = hasZero && hasDiff
			}
		}
	}
	if !okMax {
		out = append(out, core.Bad(id, "TT", construct+":store", w.InstrPos(store), "the remaining budget is not stored as max(allowed − disrupting[pool], 0)"))
	}
	if numNodes == nil || disrupting == nil || numNodes == disrupting {
		return append(out, core.Bad(id, "TT", construct+":maps", w.Pos(fn.Pos()), "the node-count and disrupting-count maps cannot be told apart (idiom not recognised)"))
	}
	node := `\(\*state\.Cluster\)\.DeepCopyNodes\(\$1\)\[.*\]`
	counted := []core.Gate{
		G(`+^\(\*state\.StateNode\)\.Managed\(` + node + `\)$`),
		G(`+^\(\*state\.StateNode\)\.Initialized\(` + node + `\)$`),
		G(`-^\(\*opkg/status\.Condition\)\.IsTrue\(\(opkg/status\.ConditionSet\)\.Get\(\(\*apis/v1\.NodeClaim\)\.StatusConditions\(.*\.NodeClaim, nil\), "InstanceTerminating"\)\)$`),
	}
	nN, nD := 0, 0
	for _, b := range fn.Blocks {
		for _, in := range b.Instrs {
			mu, ok := in.(*ssa.MapUpdate)
			if !ok {
				continue
			}
			switch mu.Map {
			case numNodes:
				nN++
				for _, g := range counted {
					if !w.GuardedBy(mu, g) {
						out = append(out, core.Bad(id, "TT", construct+":counted", w.InstrPos(mu), "a node is counted towards the pool size without {"+g.Text+"} — percent budgets are then taken of nodes that cannot host pods"))
					}
				}
			case disrupting:
				nD++
				g := G(`-^utils/node\.GetCondition\(`+node+`\.Node, "Ready"\)\.Status == "True"$`, `+^\(\*state\.StateNode\)\.MarkedForDeletion\(`+node+`\)$`)
				if !w.GuardedBy(mu, g) {
					out = append(out, core.Bad(id, "TT", construct+":disrupting", w.InstrPos(mu), "a node is counted as disrupting without being NotReady or marked for deletion"))
				}
			}
		}
	}
	if nN != 1 || nD != 1 {
		out = append(out, core.Bad(id, "TT", construct+":sites", w.Pos(fn.Pos()), fmt.Sprintf("expected one increment of each counter, found numNodes×%d disrupting×%d", nN, nD)))
	}
	// conversely: a NotReady node and a marked node ARE counted as disrupting
	p1 := POST{ID: id, Fn: build, FromLit: `-^utils/node\.GetCondition\(.*\.Node, "Ready"\)\.Status == "True"$`, Must: []string{`^mapupdate makemap<map\[string\]int>\[.*"karpenter\.sh/nodepool"\]\] = \(makemap<map\[string\]int>\[.*\] \+ 1\)$`}}
	p2 := POST{ID: id, Fn: build, FromLit: `+^\(\*state\.StateNode\)\.MarkedForDeletion\(`, Must: []string{`^mapupdate makemap<map\[string\]int>\[.*"karpenter\.sh/nodepool"\]\] = \(makemap<map\[string\]int>\[.*\] \+ 1\)$`}}
	for _, r := range append(p1.Check(w), p2.Check(w)...) {
		if r.Status != core.Discharged {
			out = append(out, r)
		}
	}
	if len(out) == 0 {
		out = append(out, core.OK(id, "TT", construct, 5, "counted ⇐ managed ∧ initialized ∧ ¬InstanceTerminating; disrupting ⇔ ¬Ready ∨ marked; stored max(allowed − disrupting, 0)"))
	}
	return out
}

// C05.REG1: implementers of disruption.Method.
func c05Methods(w *core.World, id string) []core.Result {
	want := []string{"*disr.Drift", "*disr.Emptiness", "*disr.MultiNodeConsolidation", "*disr.SingleNodeConsolidation", "*disr.StaticDrift"}
	sp := w.SSAPkg[core.ModPath+"pkg/controllers/disruption"]
	if sp == nil {
		return []core.Result{core.Anchor(id, "REG", "package controllers/disruption")}
	}
	m, ok := sp.Members["Method"].(*ssa.Type)
	if !ok {
		return []core.Result{core.Anchor(id, "REG", "type disr.Method")}
	}
	iface, ok := m.Type().Underlying().(*types.Interface)
	if !ok {
		return []core.Result{core.Anchor(id, "REG", "interface disr.Method")}
	}
	var got []string
	for path, p := range w.SSAPkg {
		if !strings.HasPrefix(path, core.ModPath) || strings.Contains(path, "/test") || strings.Contains(path, "/fake") {
			continue
		}
		for _, mem := range p.Members {
			t, ok := mem.(*ssa.Type)
			if !ok {
				continue
			}
			if _, isIface := t.Type().Underlying().(*types.Interface); isIface {
				continue
			}
			if st, isStruct := t.Type().Underlying().(*types.Struct); isStruct {
				// a struct that merely embeds the Method interface (Command) is a carrier, not an implementer
				embedsIface := false
				for i := 0; i < st.NumFields(); i++ {
					if st.Field(i).Embedded() && types.Identical(st.Field(i).Type(), m.Type()) {
						embedsIface = true
					}
				}
				if embedsIface {
					continue
				}
			}
			for _, tt := range []types.Type{t.Type(), types.NewPointer(t.Type())} {
				if types.Implements(tt, iface) {
					got = append(got, core.TypeStr(tt))
					break
				}
			}
		}
	}
	sort.Strings(got)
	if strings.Join(got, ",") != strings.Join(want, ",") {
		return []core.Result{core.Bad(id, "REG", "REG:disr.Method", "", fmt.Sprintf("implementers of disruption.Method are %v, classified set is %v — a new method needs its budget rows", got, want))}
	}
	// NewMethods builds exactly these
	rs := core.InstrPresent(w, id, "REG", "disr.NewMethods", `^store &local<\[5\]disr\.Method>\[\d\] = `, 5, "NewMethods returns five methods")
	return rs
}
