package props

import (
	"fmt"
	"go/token"
	"regexp"
	"sort"
	"strings"

	"kverif/core"

	"golang.org/x/tools/go/ssa"
)

func init() {
	core.Register(&core.Property{
		ID:    "C13",
		Title: "The launch request carries the scheduler's decision faithfully",
		Explanation: "Decides which state of a requirement reaches the wire, not the values. (1) Requirements.NodeSelectorRequirements: every loop iteration emits the requirement's own serialization, " +
			"and whenever the requirement is a complement with excluded values and has a lower or an upper bound, a separate NotIn carrying exactly those values (key, values, MinValues from the same requirement); " +
			"Requirement.NodeSelectorRequirement / BoundedNodeSelectorRequirements emit only operators accepted by ValidateRequirement, each literal carries Key and MinValues of the receiver, bounds are formatted from gte/lte; " +
			"(2) the integer operand emitted for a bound can be negative (Lt 0 canonicalises to Lte -1) although ValidateRequirement rejects negative operands — recorded finding F4b; Requirement.Any guards rand.Intn against an empty range; " +
			"(3) NodeClaimTemplate.ToNodeClaim: the instance-type requirement lists the first MaxInstanceTypes of the price-ordered options and keeps the existing MinValues; simulation-only keys are filtered from the requirements; " +
			"Spec.Requirements is the serialization of that filtered set; labels, annotations, owner reference and Spec come from the template; NewNodeClaimTemplate stamps hash, hash version, nodepool and nodeclass labels from the NodePool; " +
			"(4) InstanceTypes.Truncate succeeds under a strict policy only if the truncated list itself satisfies minValues; TruncateInstanceTypes keeps a claim only if Truncate succeeded, otherwise every pod of it gets a PodError; " +
			"provisioning and simulation truncate before anything is created; (5) NodeClaim.Add merges the pod's requests into Spec.Resources.Requests, Solve finalizes every new claim and FinalizeScheduling adds daemon overhead; " +
			"Provisioner.Create writes exactly ToNodeClaim() of the scheduled claim; " +
			"(6) the first result of InstanceTypes.SatisfiesMinValues is a count: on the success return inside its walk it is the position of the instance type accumulated last plus a constant a, after the walk len plus a'; " +
			"success under minValues is only reported when no key is left unmet; every store to the replacement's InstanceTypeOptions in computeSpotToSpotConsolidation that follows the price/minValues validation either runs without minValues " +
			"or keeps a prefix lo.Slice(options, 0, n) of the claim's own list with n ≥ that count (taken for the same list under the claim's own requirements) + b, where a + b ≥ 1 and a' + b ≥ 0 — the instance type that completes the floors is never cut off.",
		NotCovered: []string{
			"round-trip equality of admitted value sets for every operator combination (value-level)",
			"that SatisfiesMinValues accumulates the right values per key and that OrderByPrice sorts by price (C19 decides the comparator); only the meaning of the returned count and its success guard are decided",
			"the daemon-overhead arithmetic (minimum over groups) and resource merging",
		},
		Rules: c13Rules,
	})
}

func c13Rules(tier string) []Rule {
	rules := c13RulesBase(tier)
	// adding a pod always replaces the held reservations by the list CanAdd computed for it — also by the empty list
	// (a pod that excludes every reserved offering must not leave the NodeClaim pinned to a reservation)
	rules = append(rules, POST{ID: "C13.POST3", Fn: "(*sched.NodeClaim).Add", From: "", Must: []string{`^store \$0\.reservedOfferings = \$6$`}, Note: "every path through Add stores the new reservation list"},
		POST{ID: "C13.POST3b", Fn: "(*sched.NodeClaim).Add", From: "", Must: []string{`^call \(\*sched\.NodeClaim\)\.releaseReservedOfferings\(\$0, \$0\.reservedOfferings, \$6\)$`}, Note: "…and releases what is no longer held"})
	// instance types are ranked / truncated under the NodeClaim's own (pod-narrowed) requirements
	rules = append(rules, core.Custom{ID: "C13.PROV8", Kind: "PROV", Run: func(w *core.World, id string) []core.Result {
		const f = "(sched.Results).TruncateInstanceTypes"
		fn := w.Fn(f)
		if fn == nil {
			return []core.Result{core.Anchor(id, "PROV", f)}
		}
		n := 0
		for _, s := range w.SitesOr(fn, regexp.MustCompile(`^call \(cloudprovider\.InstanceTypes\)\.Truncate\(`), true, 1) {
			c, ok := s.(*ssa.Call)
			if !ok || len(c.Call.Args) < 3 {
				continue
			}
			n++
			a0, a1 := w.RenderD(c.Call.Args[0], 9), w.RenderD(c.Call.Args[len(c.Call.Args)-2], 9)
			const suf = ".NodeClaimTemplate.InstanceTypeOptions"
			if !strings.HasSuffix(a0, suf) || a1 != strings.TrimSuffix(a0, suf)+".NodeClaimTemplate.Requirements" {
				return []core.Result{core.Bad(id, "PROV", "PROV:"+f+":truncate-requirements", w.InstrPos(s), "the options `"+clipStr(a0, 70)+"` are truncated under `"+clipStr(a1, 70)+"`, not under the same NodeClaim's requirements")}
			}
		}
		if n == 0 {
			return []core.Result{core.Bad(id, "PROV", "PROV:"+f+":truncate-requirements", w.Pos(fn.Pos()), "vacuous: no Truncate call")}
		}
		return []core.Result{core.OK(id, "PROV", "PROV:"+f+":truncate-requirements", n, "Truncate(nc.InstanceTypeOptions, nc.Requirements, max)")}
	}})
	// the count SatisfiesMinValues hands back is a number of leading instance types, and the one caller that cuts a
	// validated list with it (spot-to-spot consolidation, which writes its replacement through the same Create path)
	// keeps at least that many — otherwise the launch request carries minValues its own instance-type list cannot meet
	rules = append(rules, minValuesCountRules("C13")...)
	return rules
}

func c13RulesBase(tier string) []Rule {
	const (
		nsrs  = "(scheduling.Requirements).NodeSelectorRequirements"
		nsr   = "(*scheduling.Requirement).NodeSelectorRequirement"
		bnsr  = "(*scheduling.Requirement).BoundedNodeSelectorRequirements"
		tnc   = "(*sched.NodeClaimTemplate).ToNodeClaim"
		trunc = "(cloudprovider.InstanceTypes).Truncate"
		trit  = "(sched.Results).TruncateInstanceTypes"
		req   = `next\(range\(\$0\)\)#2`
	)
	notIn := `instr:^store &local<apis/v1\.NodeSelectorRequirementWithMinValues>\.Operator = "NotIn"$`
	truncated := `lo\.Slice\[\*cloudprovider\.InstanceType, cloudprovider\.InstanceTypes\]\(\(cloudprovider\.InstanceTypes\)\.OrderByPrice\(\$0, \$2\), 0, \$3\)`
	return []Rule{
		// ---- (1) the set serializer
		ITER{ID: "C13.ITER1", Fn: nsrs, Loop: `+^next\(range\(\$0\)\)#0$`, Gates: gates(
			G(`instr:^call \(\*scheduling\.Requirement\)\.BoundedNodeSelectorRequirements\(`+req+`\)$`, `instr:^call \(\*scheduling\.Requirement\)\.NodeSelectorRequirement\(`+req+`\)$`),
			// (gte≠nil → NotIn emitted) unless not a complement / nothing excluded
			G(notIn, `-^`+req+`\.complement$`, `-^len\(`+req+`\.values\)>=1$`, `+^`+req+`\.gte == nil$`),
			// (lte≠nil → NotIn emitted) unless …
			G(notIn, `-^`+req+`\.complement$`, `-^len\(`+req+`\.values\)>=1$`, `+^`+req+`\.lte == nil$`),
		), Note: "every requirement is serialized, and excluded values of a bounded complement are carried by a separate NotIn"},
		DOM{ID: "C13.DOM1", Fn: nsrs, Sink: `^call \(\*scheduling\.Requirement\)\.NodeSelectorRequirement\(`, Gates: gates(
			G(`+^`+req+`\.gte == nil$`, `+^`+req+`\.lte == nil$`),
		), Note: "the single-requirement form is only used when at most one bound exists (it serializes one bound)"},
		core.Custom{ID: "C13.PROV1", Kind: "PROV", Run: func(w *core.World, id string) []core.Result {
			rs := core.InstrPresent(w, id, "PROV", nsrs, `^store &local<apis/v1\.NodeSelectorRequirementWithMinValues>\.Values = apim/util/sets\.List\[string\]\(`+req+`\.values\)$`, 1, "the NotIn carries the requirement's excluded values")
			rs = append(rs, core.InstrPresent(w, id, "PROV", nsrs, `^store &local<apis/v1\.NodeSelectorRequirementWithMinValues>\.Key = `+req+`\.Key$`, 1, "…under the same key")...)
			rs = append(rs, core.InstrPresent(w, id, "PROV", nsrs, `^store &local<apis/v1\.NodeSelectorRequirementWithMinValues>\.MinValues = `+req+`\.MinValues$`, 1, "…with the same MinValues")...)
			rs = append(rs, core.InstrPresent(w, id, "PROV", nsrs, `^return phi\(makeslice<\[\]apis/v1\.NodeSelectorRequirementWithMinValues>\|append\(phi\(…\), &local<\[1\]apis/v1\.NodeSelectorRequirementWithMinValues>\[:\]\)\|phi\(append\(…, …\)\)\)$`, 1, "the accumulated slice is returned")...)
			return rs
		}},
		core.Custom{ID: "C13.REG1", Kind: "REG", Run: c13EmittedLiterals},
		// In / NotIn / Exists / DoesNotExist selection in the unbounded cases
		core.Custom{ID: "C13.TT1", Kind: "TT", Run: c13OperatorTable},

		// ---- (2) operand range and panics
		core.Custom{ID: "C13.REG2", Kind: "REG", Run: c13NegativeBound},
		DOM{ID: "C13.PANIC1", Fn: "(*scheduling.Requirement).Any", Sink: `^call math/rand\.Intn\(`, Gates: gates(
			G(`-^phi\(9223372036854775807\|\(\$0\.lte \+ 1\)\) <= phi\(0\|\$0\.gte\)$`, `+^phi\(0\|\$0\.gte\) < phi\(9223372036854775807\|\(\$0\.lte \+ 1\)\)$`),
		), Note: "rand.Intn is never called with a non-positive range"},
		DOM{ID: "C13.PANIC2", Fn: "(*scheduling.Requirement).Any", Sink: `^call \(apim/util/sets\.Set\[string\]\)\.UnsortedList\(`, Gates: gates(
			G(`+^\(\*scheduling\.Requirement\)\.Operator\(\$0\) == "In"$`),
		), Note: "UnsortedList()[0] only for a non-empty In"},

		// ---- (3) ToNodeClaim
		core.Custom{ID: "C13.PROV2", Kind: "PROV", Run: func(w *core.World, id string) []core.Result {
			its := `lo\.Slice\[\*cloudprovider\.Instanc`
			rs := core.InstrPresent(w, id, "PROV", tnc, `^call scheduling\.NewRequirementWithFlexibility\("node\.kubernetes\.io/instance-type", "In", \(scheduling\.Requirements\)\.Get\(\$0\.Requirements, "node\.kubernetes\.io/instance-type"\)\.MinValues, lo\.Map\[\*cloudprovider\.InstanceType, string\]\(`+its, 1,
				"instance-type requirement = names of the first MaxInstanceTypes price-ordered options, keeping the existing MinValues")
			rs = append(rs, core.InstrPresent(w, id, "PROV", tnc, `^call \(scheduling\.Requirements\)\.Add\(\$0\.Requirements, &local<\[1\]\*scheduling\.Requirement>\[:\]\)$`, 1, "…intersected into the template's requirements")...)
			rs = append(rs, core.InstrPresent(w, id, "PROV", tnc, `^store &local<apis/v1\.NodeClaim>\.Spec\.Requirements = \(scheduling\.Requirements\)\.NodeSelectorRequirements\(scheduling\.NewRequirements\(lo\.Filter\[\*scheduling\.Requirement, \[\]\*scheduling\.Requirement\]\(…, …\)\)\)$`, 1, "Spec.Requirements = serialization of the filtered requirement set")...)
			rs = append(rs, core.InstrPresent(w, id, "PROV", tnc, `^call lo\.Filter\[\*scheduling\.Requirement, \[\]\*scheduling\.Requirement\]\(\(scheduling\.Requirements\)\.Values\(\$0\.Requirements\), fn:`, 1, "the filter runs over all of the template's requirements")...)
			rs = append(rs, core.InstrPresent(w, id, "PROV", tnc, `^store &local<apis/v1\.NodeClaim>\.Spec = \$0\.NodeClaim\.Spec$`, 1, "Spec (taints, startup taints, nodeclass, resources) from the template")...)
			rs = append(rs, core.InstrPresent(w, id, "PROV", tnc, `^store &local<metav1\.ObjectMeta>\.Labels = \$0\.NodeClaim\.ObjectMeta\.Labels$`, 1, "labels from the template")...)
			rs = append(rs, core.InstrPresent(w, id, "PROV", tnc, `^store &local<metav1\.ObjectMeta>\.Annotations = \$0\.NodeClaim\.ObjectMeta\.Annotations$`, 1, "annotations (hash) from the template")...)
			rs = append(rs, core.InstrPresent(w, id, "PROV", tnc, `^store &local<metav1\.OwnerReference>\.(Name = \$0\.NodePoolName|UID = \$0\.NodePoolUUID)$`, 2, "owned by the NodePool")...)
			rs = append(rs, core.InstrPresent(w, id, "PROV", tnc, `^return &local<apis/v1\.NodeClaim>$`, 1, "that object is returned")...)
			return rs
		}},
		core.Custom{ID: "C13.PROV3", Kind: "PROV", Run: c13SimulationKeyFilter},
		core.Custom{ID: "C13.PROV4", Kind: "PROV", Run: func(w *core.World, id string) []core.Result {
			const nnt = "sched.NewNodeClaimTemplate"
			rs := core.InstrPresent(w, id, "PROV", nnt, `^mapupdate makemap<map\[string\]string>\["karpenter\.sh/nodepool-hash"\] = \(\*apis/v1\.NodePool\)\.Hash\(\$0\)$`, 1, "hash annotation = NodePool.Hash()")
			rs = append(rs, core.InstrPresent(w, id, "PROV", nnt, `^mapupdate makemap<map\[string\]string>\["karpenter\.sh/nodepool"\] = \$0\.ObjectMeta\.Name$`, 1, "nodepool label = NodePool name")...)
			rs = append(rs, core.InstrPresent(w, id, "PROV", nnt, `^store &local<sched\.NodeClaimTemplate>\.NodeClaim = \(\*apis/v1\.NodeClaimTemplate\)\.ToNodeClaim\(\$0\.Spec\.Template\)$`, 1, "labels, taints and spec start from the NodePool template")...)
			rs = append(rs, core.InstrPresent(w, id, "PROV", "(*apis/v1.NodeClaimTemplate).ToNodeClaim", `^store &local<apis/v1\.NodeClaimSpec>\.(Taints|StartupTaints|Requirements|NodeClassRef) = \$0\.Spec\.(Taints|StartupTaints|Requirements|NodeClassRef)$`, 4, "taints, startup taints, requirements and nodeclass are carried")...)
			return rs
		}},

		// ---- (4) truncation
		MPT{ID: "C13.MPT1", Fn: trunc, Ret: core.RetOK, Gates: gates(
			G(`-^\(scheduling\.Requirements\)\.HasMinValues\(\$2\)$`, `+^operator/options\.FromContext\(\)\.MinValuesPolicy == "BestEffort"$`,
				`+^\(cloudprovider\.InstanceTypes\)\.SatisfiesMinValues\(`+truncated+`, \$2\)#2 == nil$`),
		), Note: "strict policy: success ⇒ the truncated list satisfies minValues"},
		core.Custom{ID: "C13.PROV5", Kind: "PROV", Run: func(w *core.World, id string) []core.Result {
			rs := core.InstrPresent(w, id, "PROV", trunc, `^return `+truncated+`, nil$`, 1, "the list returned is the one that was validated")
			rs = append(rs, core.ArgProvenance(w, id, trit, `^call \(cloudprovider\.InstanceTypes\)\.Truncate\(`, 0, `^\$0\.NewNodeClaims\[.*\]\.NodeClaimTemplate\.InstanceTypeOptions$`, "each claim's own options are truncated")...)
			rs = append(rs, core.ArgProvenance(w, id, trit, `^call \(cloudprovider\.InstanceTypes\)\.Truncate\(`, 2, `^\$0\.NewNodeClaims\[.*\]\.NodeClaimTemplate\.Requirements$`, "…against its own requirements")...)
			rs = append(rs, core.InstrPresent(w, id, "PROV", trit, `^store \$0\.NewNodeClaims = phi\(nil\|phi↺\|append\(phi↺, &local<\[1\]\*sched\.NodeClaim>\[:\]\)\)$`, 1, "only the kept claims remain in the results")...)
			rs = append(rs, core.InstrPresent(w, id, "PROV", "(*prov.Provisioner).Schedule", `^store &local<sched\.Results> = \(sched\.Results\)\.TruncateInstanceTypes\(&local<sched\.Results>, sched\.MaxInstanceTypes\)$`, 1, "provisioning truncates its results")...)
			rs = append(rs, core.InstrPresent(w, id, "PROV", "disr.SimulateScheduling", `^store &local<sched\.Results> = \(sched\.Results\)\.TruncateInstanceTypes\(&local<sched\.Results>, sched\.MaxInstanceTypes\)$`, 1, "simulations truncate their results")...)
			return rs
		}},
		DOM{ID: "C13.DOM2", Fn: trit, Sink: `^call append\(phi\(nil\|phi↺\|append\(phi↺, …\[:\]\)\), &local<\[1\]\*sched\.NodeClaim>\[:\]\)$`, Gates: gates(
			G(`+^\(cloudprovider\.InstanceTypes\)\.Truncate\(.*\)#1 == nil$`),
		), Note: "a claim is kept only if its truncation succeeded"},
		POST{ID: "C13.POST1", Fn: trit, FromLit: `+^\(phi\(-1\|\(phi↺ \+ 1\)\) \+ 1\) < len\(\$0\.NewNodeClaims\[.*\]\.Pods\)$`,
			Must: []string{`^mapupdate \$0\.PodErrors\[\$0\.NewNodeClaims\[.*\]\.Pods\[.*\]\] = opkg/serrors\.Wrap\(`}, Note: "every pod of a dropped claim gets a PodError"},
		MPT{ID: "C13.MPT2", Fn: "(*prov.Provisioner).Schedule", Ret: core.RetOK, Gates: gates(
			G(`instr:^call \(sched\.Results\)\.TruncateInstanceTypes\(`, `-^len\(append\(\(\*prov\.Provisioner\)\.GetPendingPods\(\$0\)#0, .*\)\)>=1$`, `+^errors\.Is\(`),
		), Note: "no results leave Schedule untruncated (other than the empty / no-nodepool cases)"},

		// ---- (5) requests, finalization, the write
		core.Custom{ID: "C13.PROV6", Kind: "PROV", Run: func(w *core.World, id string) []core.Result {
			add := "(*sched.NodeClaim).Add"
			rs := core.InstrPresent(w, id, "PROV", add, `^store \$0\.NodeClaimTemplate\.NodeClaim\.Spec\.Resources\.Requests = utils/resources\.Merge\(&local<\[2\]corev1\.ResourceList>\[:\]\)$`, 1, "requests are re-computed on every Add")
			rs = append(rs, core.InstrPresent(w, id, "PROV", add, `^store &local<\[2\]corev1\.ResourceList>\[0\] = \$0\.NodeClaimTemplate\.NodeClaim\.Spec\.Resources\.Requests$`, 1, "…from the previous sum")...)
			rs = append(rs, core.InstrPresent(w, id, "PROV", add, `^store &local<\[2\]corev1\.ResourceList>\[1\] = \$3\.Requests$`, 1, "…plus the pod's requests")...)
			rs = append(rs, core.InstrPresent(w, id, "PROV", add, `^store \$0\.NodeClaimTemplate\.Requirements = \$4$`, 1, "the claim's requirements become the ones CanAdd computed")...)
			rs = append(rs, core.InstrPresent(w, id, "PROV", add, `^store \$0\.NodeClaimTemplate\.InstanceTypeOptions = \$5$`, 1, "…and its options the surviving instance types")...)
			fs := "(*sched.NodeClaim).FinalizeScheduling"
			rs = append(rs, core.InstrPresent(w, id, "PROV", "(*sched.NodeClaim).addDaemonRequests", `^store \$0\.NodeClaimTemplate\.NodeClaim\.Spec\.Resources\.Requests = utils/resources\.Merge\(&local<\[2\]corev1\.ResourceList>\[:\]\)$`, 1, "daemon overhead is merged into the requests")...)
			_ = fs
			return rs
		}},
		MPT{ID: "C13.MPT3", Fn: "(*sched.NodeClaim).FinalizeScheduling", Ret: core.RetAny, Gates: gates(G(`instr:^call \(\*sched\.NodeClaim\)\.addDaemonRequests\(\$0\)$`))},
		// the labels / annotations of one launch request never leak into the next: ToNodeClaim and NewNodeClaim write only
		// into maps they created (the template's maps are shared by every NodeClaim opened from the same NodePool)
		core.Custom{ID: "C13.WSET1", Kind: "WSET", Run: func(w *core.World, id string) []core.Result {
			return core.FreshMapUpdates(w, id, "WSET", "(*sched.NodeClaimTemplate).ToNodeClaim", 2, "ToNodeClaim writes labels and annotations into fresh maps only")
		}},
		POST{ID: "C13.POST2", Fn: "(*sched.Scheduler).Solve", FromLit: `+^\(phi\(-1\|\(phi↺ \+ 1\)\) \+ 1\) < len\(\$0\.newNodeClaims\)$`,
			Must: []string{`^call \(\*sched\.NodeClaim\)\.FinalizeScheduling\(\$0\.newNodeClaims\[`}, Note: "every new claim is finalized before results are returned"},
		core.Custom{ID: "C13.PROV7", Kind: "PROV", Run: func(w *core.World, id string) []core.Result {
			return core.InstrPresent(w, id, "PROV", "(*prov.Provisioner).Create", `^call iface:\(cr/client\.Writer\)\.Create\(\$0\.kubeClient, <\*apis/v1\.NodeClaim>\(\*sched\.NodeClaimTemplate\)\.ToNodeClaim\(\$2\.NodeClaimTemplate\), `, 1, "the object written is ToNodeClaim() of the scheduled claim")
		}},
	}
}

// C13.REG1: every NodeSelectorRequirementWithMinValues literal built by the two single-requirement serializers uses an
// operator accepted by ValidateRequirement, carries the receiver's Key and MinValues, and formats a bound from gte / lte.
func c13EmittedLiterals(w *core.World, id string) []core.Result {
	supported, ok := c13SupportedOps(w)
	if !ok {
		return []core.Result{core.Anchor(id, "REG", "apis/v1.SupportedNodeSelectorOps initialiser")}
	}
	var out []core.Result
	n := 0
	reOp := regexp.MustCompile(`^store (\S+)\.Operator = "(\w+)"$`)
	for _, fnName := range []string{"(*scheduling.Requirement).NodeSelectorRequirement", "(*scheduling.Requirement).BoundedNodeSelectorRequirements"} {
		fn := w.Fn(fnName)
		if fn == nil {
			out = append(out, core.Anchor(id, "REG", fnName))
			continue
		}
		// group stores by block: each literal is built in one block
		for _, b := range fn.Blocks {
			ops := map[string]string{}
			fields := map[string]map[string]string{}
			valStores := map[string]*ssa.Store{}
			for _, in := range b.Instrs {
				st, ok := in.(*ssa.Store)
				if !ok {
					continue
				}
				r := w.RenderInstr(in)
				if m := reOp.FindStringSubmatch(r); m != nil {
					ops[m[1]] = m[2]
				}
				if fa, ok := st.Addr.(*ssa.FieldAddr); ok {
					dst := w.Render(fa.X)
					if fields[dst] == nil {
						fields[dst] = map[string]string{}
					}
					parts := strings.SplitN(r, " = ", 2)
					fname := strings.TrimPrefix(parts[0], "store "+dst+".")
					fields[dst][fname] = parts[1]
					if fname == "Values" {
						valStores[dst] = st
					}
				}
			}
			for dst, op := range ops {
				n++
				construct := "REG:" + fnName + ":" + op
				f := fields[strings.TrimPrefix(dst, "store ")]
				if f == nil {
					f = fields[dst]
				}
				if !supported[op] {
					out = append(out, core.Bad(id, "REG", construct, w.Pos(fn.Pos()), fmt.Sprintf("operator %q is emitted but not in SupportedNodeSelectorOps: the NodeClaim would be rejected", op)))
				}
				if f["Key"] != "$0.Key" {
					out = append(out, core.Bad(id, "REG", construct, w.Pos(fn.Pos()), "the emitted requirement does not carry the receiver's Key (`"+f["Key"]+"`)"))
				}
				if f["MinValues"] != "$0.MinValues" {
					out = append(out, core.Bad(id, "REG", construct, w.Pos(fn.Pos()), "the emitted requirement does not carry the receiver's MinValues (`"+f["MinValues"]+"`)"))
				}
				switch op {
				case "In", "NotIn":
					if f["Values"] != "apim/util/sets.List[string]($0.values)" {
						out = append(out, core.Bad(id, "REG", construct, w.Pos(fn.Pos()), "values of an In/NotIn are not the requirement's value set (`"+f["Values"]+"`)"))
					}
				case "Gte", "Lte":
					want := "$0." + strings.ToLower(op)
					got := c13BoundOperand(w, valStores[dst])
					if !strings.Contains(got, want) || strings.Contains(got, "$0."+map[string]string{"Gte": "lte", "Lte": "gte"}[op]) {
						out = append(out, core.Bad(id, "REG", construct, w.Pos(fn.Pos()), fmt.Sprintf("the operand of the emitted %s is `%s`, not the requirement's %s bound", op, got, strings.ToLower(op))))
					}
				case "Exists", "DoesNotExist":
					if v, has := f["Values"]; has && v != "nil" {
						out = append(out, core.Bad(id, "REG", construct, w.Pos(fn.Pos()), "Exists/DoesNotExist emitted with values"))
					}
				}
			}
		}
		// bounds: the formatted integer is gte for Gte and lte for Lte
		for _, s := range w.Sites(fn, regexp.MustCompile(`^call strconv\.FormatInt\(`), false) {
			n++
			r := w.RenderInstr(s)
			if !regexp.MustCompile(`^call strconv\.FormatInt\((convert<int64>\()?(lo\.FromPtr\[int\]\()?\$0\.(gte|lte)\)*, 10\)$`).MatchString(r) {
				out = append(out, core.Bad(id, "REG", "REG:"+fnName+":bound", w.InstrPos(s), "a bound is not formatted from the receiver's gte/lte in base 10: `"+clipStr(r, 90)+"`"))
			}
		}
	}
	if n < 10 {
		return []core.Result{core.Bad(id, "REG", "REG:serializers", "", fmt.Sprintf("vacuous: %d emitted literals/bounds found, 12 confirmed by hand", n))}
	}
	if len(out) == 0 {
		var ops []string
		for k := range supported {
			ops = append(ops, k)
		}
		sort.Strings(ops)
		out = append(out, core.OK(id, "REG", "REG:serializers", n, fmt.Sprintf("%d literals/bounds: operators ⊆ %v, Key/MinValues/values from the receiver", n, ops)))
	}
	return out
}

// c13SupportedOps reads the string constants handed to sets.NewString in the initialiser of SupportedNodeSelectorOps.
func c13SupportedOps(w *core.World) (map[string]bool, bool) {
	initFn := w.Fn("apis/v1.init")
	if initFn == nil {
		return nil, false
	}
	out := map[string]bool{}
	for _, b := range initFn.Blocks {
		for _, in := range b.Instrs {
			st, ok := in.(*ssa.Store)
			if !ok {
				continue
			}
			g, ok := st.Addr.(*ssa.Global)
			if !ok || g.Name() != "SupportedNodeSelectorOps" {
				continue
			}
			call, ok := st.Val.(*ssa.Call)
			if !ok || len(call.Call.Args) != 1 {
				return nil, false
			}
			sl, ok := call.Call.Args[0].(*ssa.Slice)
			if !ok {
				return nil, false
			}
			arr, ok := sl.X.(*ssa.Alloc)
			if !ok {
				return nil, false
			}
			for _, r := range *arr.Referrers() {
				ia, ok := r.(*ssa.IndexAddr)
				if !ok {
					continue
				}
				for _, rr := range *ia.Referrers() {
					if s2, ok := rr.(*ssa.Store); ok {
						if c, ok := s2.Val.(*ssa.Const); ok && c.Value != nil {
							out[strings.Trim(c.Value.ExactString(), `"`)] = true
						}
					}
				}
			}
		}
	}
	return out, len(out) >= 6
}

// C13.REG2: the Lt canonicalisation (value-1) can produce a negative Lte operand, which ValidateRequirement rejects.
func c13NegativeBound(w *core.World, id string) []core.Result {
	const fnName = "scheduling.NewRequirementWithFlexibility"
	fn := w.Fn(fnName)
	if fn == nil {
		return []core.Result{core.Anchor(id, "REG", fnName)}
	}
	construct := "REG:negative-bound@" + fnName
	// the validator's range check
	if len(core.InstrPresent(w, id, "REG", "apis/v1.ValidateRequirement", `^call strconv\.Atoi\(\$1\.Values\[0\]\)$`, 1, "")) == 0 {
		return []core.Result{core.Anchor(id, "REG", "ValidateRequirement's integer check")}
	}
	var dec []*ssa.BinOp
	for _, b := range fn.Blocks {
		for _, in := range b.Instrs {
			if bo, ok := in.(*ssa.BinOp); ok && bo.Op == token.SUB {
				if c, ok := bo.Y.(*ssa.Const); ok && c.Value != nil && c.Value.ExactString() == "1" {
					dec = append(dec, bo)
				}
			}
		}
	}
	if len(dec) != 1 {
		return []core.Result{{ID: id, Kind: "REG", Construct: construct, Status: core.Undecided, Pos: w.Pos(fn.Pos()), Msg: fmt.Sprintf("expected one `value - 1` canonicalisation of Lt, found %d", len(dec))}}
	}
	// is the decrement dominated by a test that excludes value <= 0 ?
	lits := w.DominatingLits(dec[0])
	for _, l := range lits {
		if regexp.MustCompile(`^\+0 < strconv\.Atoi\(.*\)#0$|^-strconv\.Atoi\(.*\)#0 < 1$|^-strconv\.Atoi\(.*\)#0 <= 0$`).MatchString(l) {
			return []core.Result{core.OK(id, "REG", construct, 1, "Lt's operand is known positive before it is decremented")}
		}
	}
	return []core.Result{core.Bad(id, "REG", construct, w.InstrPos(dec[0]),
		"Lt N is canonicalised to Lte N-1 without excluding N = 0: a NodePool requirement `Lt 0` (accepted by ValidateRequirement, operand ≥ 0) is written to the NodeClaim as `Lte -1`, which the same validator rejects (operand must be a non-negative integer)")}
}

// C13.PROV3: the filter applied before serialization drops exactly the simulation-only keys.
func c13SimulationKeyFilter(w *core.World, id string) []core.Result {
	const tnc = "(*sched.NodeClaimTemplate).ToNodeClaim"
	fn := w.Fn("@arg:" + tnc + `|^call lo\.Filter\[\*scheduling\.Requirement, \[\]\*scheduling\.Requirement\]\(|1`)
	if fn == nil {
		return []core.Result{core.Anchor(id, "PROV", tnc+" requirement filter")}
	}
	rs := core.InstrPresent(w, id, "PROV", core.FnName(fn), `^return !\(apim/util/sets\.Set\[string\]\)\.Has\(sched\.schedulingSimulationKeys, \$0\.Key\)$`, 1, "a requirement is dropped iff its key is simulation-only")
	rs = append(rs, core.InstrPresent(w, id, "PROV", "(*sched.NodeClaimTemplate).resolveCustomLabelsFromRequirements", `^call \(apim/util/sets\.Set\[string\]\)\.Has\(sched\.schedulingSimulationKeys, next\(range\(\$0\.Requirements\)\)#1\)$`, 1, "simulation-only keys never become labels")...)
	return rs
}

// C13.TT1: which operator NodeSelectorRequirement emits under which state of the requirement.
func c13OperatorTable(w *core.World, id string) []core.Result {
	const fnName = "(*scheduling.Requirement).NodeSelectorRequirement"
	fn := w.Fn(fnName)
	if fn == nil {
		return []core.Result{core.Anchor(id, "TT", fnName)}
	}
	construct := "TT:" + fnName
	want := map[string]string{
		"-$0.gte == nil":                  "Gte",
		"+$0.gte == nil ∧ -$0.lte == nil": "Lte",
		"+$0.complement ∧ +$0.gte == nil ∧ +$0.lte == nil ∧ +len($0.values)>=1": "NotIn",
		"+$0.complement ∧ +$0.gte == nil ∧ +$0.lte == nil ∧ -len($0.values)>=1": "Exists",
		"+$0.gte == nil ∧ +$0.lte == nil ∧ +len($0.values)>=1 ∧ -$0.complement": "In",
		"+$0.gte == nil ∧ +$0.lte == nil ∧ -$0.complement ∧ -len($0.values)>=1": "DoesNotExist",
	}
	seen := map[string]bool{}
	var out []core.Result
	for _, b := range fn.Blocks {
		if len(b.Instrs) == 0 || (len(b.Preds) == 0 && b.Index != 0) {
			continue
		}
		ret, ok := b.Instrs[len(b.Instrs)-1].(*ssa.Return)
		if !ok {
			continue
		}
		op := ""
		if u, ok := ret.Results[0].(*ssa.UnOp); ok {
			if a, ok := u.X.(*ssa.Alloc); ok {
				for _, v := range w.AllocFieldStores(a)["Operator"] {
					op = strings.Trim(w.Render(v), `"`)
				}
			}
		}
		lits := w.DominatingLits(ret)
		sort.Strings(lits)
		key := strings.Join(lits, " ∧ ")
		seen[key] = true
		if want[key] != op || op == "" {
			out = append(out, core.Bad(id, "TT", construct, w.InstrPos(ret), fmt.Sprintf("under {%s} the serializer emits operator %q, the table says %q", key, op, want[key])))
		}
	}
	for k, op := range want {
		if !seen[k] {
			out = append(out, core.Bad(id, "TT", construct, w.Pos(fn.Pos()), fmt.Sprintf("the case {%s} ⇒ %s no longer exists", k, op)))
		}
	}
	if len(out) == 0 {
		out = append(out, core.OK(id, "TT", construct, len(want), "6 cases: Gte | Lte | NotIn | Exists | In | DoesNotExist as specified"))
	}
	return out
}

// c13BoundOperand renders what is formatted into the one-element Values slice of an emitted bound.
func c13BoundOperand(w *core.World, st *ssa.Store) string {
	if st == nil {
		return "?"
	}
	sl, ok := st.Val.(*ssa.Slice)
	if !ok {
		return w.Render(st.Val)
	}
	arr, ok := sl.X.(*ssa.Alloc)
	if !ok {
		return w.Render(st.Val)
	}
	var parts []string
	for _, r := range *arr.Referrers() {
		ia, ok := r.(*ssa.IndexAddr)
		if !ok {
			continue
		}
		for _, rr := range *ia.Referrers() {
			if s2, ok := rr.(*ssa.Store); ok && s2.Addr == ssa.Value(ia) {
				parts = append(parts, w.Render(s2.Val))
			}
		}
	}
	return strings.Join(parts, ", ")
}
