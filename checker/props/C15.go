package props

import (
	"fmt"
	"go/types"
	"reflect"
	"regexp"
	"sort"
	"strings"

	"kverif/core"

	"golang.org/x/tools/go/ssa"
)

func init() {
	core.Register(&core.Property{
		ID:    "C15",
		Title: "Drift is reported for drift-relevant changes and never self-inflicted",
		Explanation: "Decides: (1) NodePool.Hash hashes exactly in.Spec.Template with SlicesAsSets, IgnoreZeroValue and ZeroNil set, so budgets, limits, weight, replicas and consolidation settings (fields of NodePoolSpec outside Template) cannot influence it; " +
			"(2) walking the type tree hashed from NodeClaimTemplate, the fields carrying hash:\"ignore\"/\"-\" (or any other hash tag) are exactly {NodeClaimTemplateSpec.Requirements, NillableDuration.Raw}; " +
			"(3) every value stored under the nodepool-hash annotation key in the module is a (*NodePool).Hash() result and every value under the hash-version key is the constant NodePoolHashVersion; NodeClaim hashes are rewritten only on a version change and not for NodeClaims that already carry a Drifted condition; " +
			"(4) areStaticFieldsDrifted returns drift only when all four annotations exist, versions are equal and the hashes differ; areRequirementsDrifted tests the NodeClaim's labels against the NodePool's template requirements; " +
			"(5) PopulateNodeClaimDetails lets NodeClaim labels win over provider labels; " +
			"(6) instanceTypeNotFound reports drift only when no instance type carries the NodeClaim's instance-type label or Offerings.HasCompatible answers false for that instance type's FULL offering list (not an availability-filtered copy) " +
			"under the NodeClaim's label requirements, and isDrifted hands it the provider's instance types of the NodeClaim's NodePool; Offerings.HasCompatible answers false only after every offering of the list it is given was found " +
			"incompatible by reqs.IsCompatible(of.Requirements, AllowUndefinedWellKnownLabels) — no other attribute of an offering (Available, price) lets it pass one over — and true only for a compatible one; " +
			"the label requirements it judges by are modified only for a reserved NodeClaim, whose capacity type is widened to reserved|on-demand; " +
			"(7) from verdict to condition: Drift.Reconcile sets Drifted=True only for a Launched NodeClaim with a non-empty reason from isDrifted and always then, nobody else sets it; it clears Drifted only when the NodeClaim is not launched or not drifted, " +
			"and a NodeClaim found not drifted does not keep the condition; isDrifted answers with the first non-empty of (static, requirements) drift whenever there is one (nil error), every other answer requires both to be empty; " +
			"(8) persistence: nodeclaim.disruption fetches the NodePool named by the NodeClaim's nodepool label, runs its reconcilers (Drift among them, all of them, with that NodePool and NodeClaim) only after the fetch succeeded and after taking a DeepCopy, " +
			"and patches the status unless the NodeClaim equals that copy; nodepool.hash takes its DeepCopy before writing the NodePool's annotations and patches unless equal, does the same for each NodeClaim it re-stamps, and reports a failed NodeClaim patch to Reconcile; " +
			"(9) fresh NodeClaims: the scheduler's template requirements start from the NodePool's template requirements, the NodeClaim's spec requirements are those minus simulation-only keys only; every requirement key that is not well-known / restricted / simulation-only " +
			"and has a resolvable value becomes a label (whole map walked, the filled map returned, merged into the emitted NodeClaim's labels), well-known keys never get a guessed label; Launched=True is set only together with PopulateNodeClaimDetails(nodeClaim, created instance), " +
			"which never overwrites the NodeClaim's annotations without merging its own in.",
		NotCovered: []string{"hash sensitivity to every remaining template field value (hashstructure internals)", "end-to-end 'a freshly launched NodeClaim is not requirement-drifted' (needs label values chosen by the provider)",
			"that a provider keeps listing a temporarily unavailable offering (Available=false) instead of omitting it (provider contract, stated in the comment of instanceTypeNotFound)",
			"pacing of the instance-type check (1h after creation, 30min cache; API-call economy, not part of the statement) and the provider's own IsDrifted answer",
			"that unmanaged or deleting NodeClaims / unmanaged NodePools are skipped, what happens to the result after a failed status patch (requeue / error classification)",
			"that the provider returns labels inside the NodeClaim's spec requirements (provider contract); merging of provider annotations at launch (provider-side drift only)"},
		Rules: c15Rules,
	})
}

func c15Rules(tier string) []Rule {
	rules := c15RulesBase(tier)
	// the labels / annotations resolved at launch are persisted before Launched=True is: a requeue that already sees
	// Launched skips Launch and would never write them again (the NodeClaim then looks drifted from its NodePool)
	rules = append(rules, c15InstanceTypeNotFound()...)
	rules = append(rules, c15Verdict()...)
	rules = append(rules, c15Persisted()...)
	rules = append(rules, c15FreshLabels()...)
	rules = append(rules, NOREACH{ID: "C15.NR1", Fn: "(*life.Controller).Reconcile", From: `^call iface:\(cr/client\.SubResourceWriter\)\.Patch\(iface:\(cr/client\.StatusClient\)\.Status\(\$0\.kubeClient\), `,
		Sink: `^call iface:\(cr/client\.Writer\)\.Patch\(\$0\.kubeClient, `, Note: "no metadata patch after the status patch"})
	return rules
}

func c15RulesBase(tier string) []Rule {
	const (
		hash   = "(*apis/v1.NodePool).Hash"
		static = "controllers/nodeclaim/disruption.areStaticFieldsDrifted"
		reqd   = "controllers/nodeclaim/disruption.areRequirementsDrifted"
		hctl   = "(*controllers/nodepool/hash.Controller).Reconcile"
		uch    = "(*controllers/nodepool/hash.Controller).updateNodeClaimHash"
	)
	ann := func(obj, key string) string { return obj + `\.ObjectMeta\.Annotations\["` + key + `"\]` }
	return []Rule{
		// building a launch template never writes into the NodePool's own maps (ToNodeClaim shares the template's label and
		// annotation maps): a write there changes the object later hashed again
		core.Custom{ID: "C15.WSET1", Kind: "WSET", Run: func(w *core.World, id string) []core.Result {
			rs := core.FreshMapUpdates(w, id, "WSET", "sched.NewNodeClaimTemplate", 4, "NewNodeClaimTemplate adds hash annotations and pool labels to fresh maps only")
			rs = append(rs, core.FreshMapUpdates(w, id, "WSET", "(*sched.NodeClaimTemplate).ToNodeClaim", 2, "ToNodeClaim adds overlay annotations to fresh maps only")...)
			return rs
		}},
		core.Custom{ID: "C15.REG1", Kind: "REG", Run: c15Tags},
		core.Custom{ID: "C15.REG2", Kind: "REG", Run: func(w *core.World, id string) []core.Result {
			rs := core.InstrPresent(w, id, "REG", hash, `^call github\.com/mitchellh/hashstructure/v2\.Hash\(<apis/v1\.NodeClaimTemplate>\$0\.Spec\.Template, 2, &local<github\.com/mitchellh/hashstructure/v2\.HashOptions>\)$`, 1, "the hash input is exactly Spec.Template (format v2)")
			for _, f := range []string{"SlicesAsSets", "IgnoreZeroValue", "ZeroNil"} {
				rs = append(rs, core.InstrPresent(w, id, "REG", hash, `^store &local<github\.com/mitchellh/hashstructure/v2\.HashOptions>\.`+f+` = true$`, 1, "HashOptions."+f+" is true")...)
			}
			fn := w.Fn(hash)
			if fn != nil {
				n := len(w.Sites(fn, regexp.MustCompile(`^store &local<github\.com/mitchellh/hashstructure/v2\.HashOptions>\.`), false))
				if n != 3 {
					rs = append(rs, core.Bad(id, "REG", "REG:"+hash+":options", w.Pos(fn.Pos()), fmt.Sprintf("HashOptions sets %d fields, 3 classified (a new option such as TagName/Hasher/UseStringer changes what drifts)", n)))
				}
			}
			return rs
		}},
		core.Custom{ID: "C15.PROV1", Kind: "PROV", Run: c15Writers},
		// hash controller: NodeClaim hash rewritten only on version mismatch and only when not already drifted
		DOM{ID: "C15.DOM1", Fn: uch, Sink: `^mapupdate makemap<map\[string\]string>\["karpenter\.sh/nodepool-hash"\] = `, Gates: gates(
			G(`-^.*\.ObjectMeta\.Annotations\["karpenter\.sh/nodepool-hash-version"\] == "v3"$`),
			G(`+^\(opkg/status\.ConditionSet\)\.Get\(\(\*apis/v1\.NodeClaim\)\.StatusConditions\(.*\), "Drifted"\) == nil$`),
		)},
		DOM{ID: "C15.DOM1b", Fn: hctl, Sink: `^call \(\*controllers/nodepool/hash\.Controller\)\.updateNodeClaimHash\(`, Gates: gates(
			G(`-^\$2\.ObjectMeta\.Annotations\["karpenter\.sh/nodepool-hash-version"\] == "v3"$`),
		)},
		WMC{ID: "C15.WMC1", Sink: `^(call|go|defer) \(\*controllers/nodepool/hash\.Controller\)\.updateNodeClaimHash\(`, Allowed: []string{hctl}, Required: []string{hctl}},
		// NodeClaims are re-hashed before the NodePool annotation advertises the new version
		DOM{ID: "C15.DOM1c", Fn: hctl, Sink: `^mapupdate makemap<map\[string\]string>\["karpenter\.sh/nodepool-hash-version"\] = "v3"$`, Gates: gates(
			G(`+^\$2\.ObjectMeta\.Annotations\["karpenter\.sh/nodepool-hash-version"\] == "v3"$`, `+^\(\*controllers/nodepool/hash\.Controller\)\.updateNodeClaimHash\(\$0, \$2\) == nil$`),
		)},

		// ---- static drift detection
		core.Custom{ID: "C15.TT1", Kind: "TT", Run: func(w *core.World, id string) []core.Result {
			fn := w.Fn(static)
			if fn == nil {
				return []core.Result{core.Anchor(id, "TT", static)}
			}
			var out []core.Result
			gs := []core.Gate{
				G(`+^` + ann(`\$0`, "karpenter.sh/nodepool-hash") + `#1$`),
				G(`+^` + ann(`\$0`, "karpenter.sh/nodepool-hash-version") + `#1$`),
				G(`+^` + ann(`\$1`, "karpenter.sh/nodepool-hash") + `#1$`),
				G(`+^` + ann(`\$1`, "karpenter.sh/nodepool-hash-version") + `#1$`),
				G(`+^` + ann(`\$0`, "karpenter.sh/nodepool-hash-version") + `#0 == ` + ann(`\$1`, "karpenter.sh/nodepool-hash-version") + `#0$`),
			}
			// drift is reported (a non-empty reason, which must be NodePoolDrifted) only when the two hashes differ …
			gs = append(gs, G(`-^`+ann(`\$0`, "karpenter.sh/nodepool-hash")+`#0 == `+ann(`\$1`, "karpenter.sh/nodepool-hash")+`#0$`, `-^`+ann(`\$1`, "karpenter.sh/nodepool-hash")+`#0 == `+ann(`\$0`, "karpenter.sh/nodepool-hash")+`#0$`))
			n := 0
			for _, s := range w.ReturnSinks(fn, core.RetSpec{Index: -1, Want: "nonzero"}) {
				n++
				if s.Val == nil || w.Render(s.Val) != `"NodePoolDrifted"` {
					out = append(out, core.Bad(id, "TT", "TT:"+static, w.InstrPos(s.Ret), "static drift is reported by `"+w.RenderInstr(s.Ret)+"`, expected the reason NodePoolDrifted exactly when nodePoolHash != nodeClaimHash"))
				}
				for _, g := range gs {
					if !w.RetGuarded(s, g) {
						out = append(out, core.Bad(id, "TT", "TT:"+static+"⇐"+g.Text, w.InstrPos(s.Ret), "static drift can be reported without {"+g.Text+"} (missing annotation or different hash versions must not drift)"))
					}
				}
			}
			if n != 1 {
				out = append(out, core.Bad(id, "TT", "TT:"+static, w.Pos(fn.Pos()), fmt.Sprintf("expected one drift-reporting return, found %d", n)))
			}
			// … and conversely "no drift" is answered only when an annotation is missing, the versions differ or the hashes are equal
			h0, h1 := ann(`\$0`, "karpenter.sh/nodepool-hash"), ann(`\$1`, "karpenter.sh/nodepool-hash")
			v0, v1 := ann(`\$0`, "karpenter.sh/nodepool-hash-version"), ann(`\$1`, "karpenter.sh/nodepool-hash-version")
			none := G(`-^`+h0+`#1$`, `-^`+v0+`#1$`, `-^`+h1+`#1$`, `-^`+v1+`#1$`, `-^`+v0+`#0 == `+v1+`#0$`, `-^`+v1+`#0 == `+v0+`#0$`, `+^`+h0+`#0 == `+h1+`#0$`, `+^`+h1+`#0 == `+h0+`#0$`)
			nz := 0
			for _, s := range w.ReturnSinks(fn, core.RetSpec{Index: -1, Want: "zero"}) {
				nz++
				if !w.RetGuarded(s, none) {
					out = append(out, core.Bad(id, "TT", "TT:"+static+":no-drift", w.InstrPos(s.Ret), "\"no drift\" can be answered although all four annotations are present, the hash versions agree and the hashes differ"))
				}
			}
			if nz == 0 {
				out = append(out, core.Bad(id, "TT", "TT:"+static+":no-drift", w.Pos(fn.Pos()), "vacuous: no \"no drift\" return found"))
			}
			if len(out) == 0 {
				out = append(out, core.OK(id, "TT", "TT:"+static, 1, "drift ⇔ all annotations present ∧ versions equal ∧ hashes differ"))
			}
			return out
		}},
		core.Custom{ID: "C15.PROV3", Kind: "PROV", Run: func(w *core.World, id string) []core.Result {
			rs := core.InstrPresent(w, id, "PROV", reqd, `^call \(scheduling\.Requirements\)\.Compatible\(scheduling\.NewLabelRequirements\(\$1\.ObjectMeta\.Labels\), scheduling\.NewNodeSelectorRequirementsWithMinValues\(\$0\.Spec\.Template\.Spec\.Requirements\), nil\)$`, 1,
				"requirement drift = NodeClaim labels incompatible with the NodePool's template requirements")
			m := MPT{ID: id, Fn: reqd, Ret: core.RetSpec{Index: 0, Want: "any", Also: `^return "RequirementsDrifted"$`}, Gates: gates(G(`-^\(scheduling\.Requirements\)\.Compatible\(.*\) == nil$`))}
			return append(rs, m.Check(w)...)
		}},
		// isDrifted consults both
		core.Custom{ID: "C15.PROV4", Kind: "PROV", Run: func(w *core.World, id string) []core.Result {
			const isd = "(*controllers/nodeclaim/disruption.Drift).isDrifted"
			rs := core.InstrPresent(w, id, "PROV", isd, `^store &local<\[2\]cloudprovider\.DriftReason>\[0\] = controllers/nodeclaim/disruption\.areStaticFieldsDrifted\(\$2, \$3\)$`, 1, "static drift consulted for (nodePool, nodeClaim)")
			return append(rs, core.InstrPresent(w, id, "PROV", isd, `^store &local<\[2\]cloudprovider\.DriftReason>\[1\] = controllers/nodeclaim/disruption\.areRequirementsDrifted\(\$2, \$3\)$`, 1, "requirement drift consulted")...)
		}},
		// ---- labels at launch
		core.Custom{ID: "C15.PROV2", Kind: "PROV", Run: c15Populate},
	}
}

// C15.REG1: hash tags in the type tree of NodeClaimTemplate.
func c15Tags(w *core.World, id string) []core.Result {
	sp := w.SSAPkg[core.ModPath+"pkg/apis/v1"]
	if sp == nil {
		return []core.Result{core.Anchor(id, "REG", "package apis/v1")}
	}
	m, ok := sp.Members["NodeClaimTemplate"].(*ssa.Type)
	if !ok {
		return []core.Result{core.Anchor(id, "REG", "type apis/v1.NodeClaimTemplate")}
	}
	want := []string{"apis/v1.NillableDuration.Raw=ignore", "apis/v1.NodeClaimTemplateSpec.Requirements=ignore"}
	var got []string
	nfields := 0
	seen := map[string]bool{}
	var walk func(t types.Type)
	walk = func(t types.Type) {
		switch x := t.(type) {
		case *types.Pointer:
			walk(x.Elem())
		case *types.Slice:
			walk(x.Elem())
		case *types.Array:
			walk(x.Elem())
		case *types.Map:
			walk(x.Key())
			walk(x.Elem())
		case *types.Alias:
			walk(types.Unalias(x))
		case *types.Named:
			k := x.String()
			if seen[k] {
				return
			}
			seen[k] = true
			st, ok := x.Underlying().(*types.Struct)
			if !ok {
				return
			}
			for i := 0; i < st.NumFields(); i++ {
				nfields++
				f := st.Field(i)
				if tag, ok := reflect.StructTag(st.Tag(i)).Lookup("hash"); ok {
					got = append(got, core.Short(x.Obj().Pkg().Path()+"."+x.Obj().Name())+"."+f.Name()+"="+tag)
				}
				if f.Exported() || f.Embedded() {
					walk(f.Type())
				}
			}
		case *types.Struct:
			for i := 0; i < x.NumFields(); i++ {
				walk(x.Field(i).Type())
			}
		}
	}
	walk(m.Type())
	sort.Strings(got)
	if strings.Join(got, ",") != strings.Join(want, ",") {
		return []core.Result{core.Bad(id, "REG", "REG:hash-tags", "", fmt.Sprintf("hash tags in the NodeClaimTemplate type tree are %v, classified set is %v — a template field was added to or removed from the drift hash", got, want))}
	}
	if nfields < 20 {
		return []core.Result{core.Bad(id, "REG", "REG:hash-tags", "", fmt.Sprintf("vacuous: only %d fields walked", nfields))}
	}
	// the non-drifting knobs of the property live outside Spec.Template
	np, _ := sp.Members["NodePoolSpec"].(*ssa.Type)
	if np != nil {
		st := np.Type().Underlying().(*types.Struct)
		names := map[string]bool{}
		for i := 0; i < st.NumFields(); i++ {
			names[st.Field(i).Name()] = true
		}
		for _, f := range []string{"Template", "Disruption", "Limits", "Weight", "Replicas"} {
			if !names[f] {
				return []core.Result{core.Bad(id, "REG", "REG:hash-tags:NodePoolSpec", "", "NodePoolSpec no longer has field "+f+" next to Template (the non-drifting fields must stay outside the hashed subtree)")}
			}
		}
		// and Template's tree must not contain the non-drifting types
		for _, bad := range []string{"Disruption", "Budget", "Limits"} {
			for k := range seen {
				if strings.HasSuffix(k, "/pkg/apis/v1."+bad) {
					return []core.Result{core.Bad(id, "REG", "REG:hash-tags:subtree", "", "type "+bad+" became part of the hashed Spec.Template subtree")}
				}
			}
		}
	}
	return []core.Result{core.OK(id, "REG", "REG:hash-tags", nfields, fmt.Sprintf("%d fields walked; ignore-tagged: %v", nfields, got))}
}

// C15.PROV1: writers of the two annotation keys.
func c15Writers(w *core.World, id string) []core.Result {
	re := regexp.MustCompile(`^mapupdate .*\["karpenter\.sh/nodepool-hash(-version)?"\] = (.*)$`)
	var out []core.Result
	nh, nv := 0, 0
	for _, fn := range w.Fns {
		if core.IsTestSupport(fn) {
			continue
		}
		for _, s := range w.Sites(fn, re, false) {
			m := re.FindStringSubmatch(w.RenderInstr(s))
			if m[1] == "" {
				nh++
				if !regexp.MustCompile(`^\(\*apis/v1\.NodePool\)\.Hash\(\$\d\)$`).MatchString(m[2]) {
					out = append(out, core.Bad(id, "PROV", "PROV:hash-annotation@"+core.FnName(fn), w.InstrPos(s), "nodepool-hash is written as `"+m[2]+"`, not as the NodePool's Hash()"))
				}
			} else {
				nv++
				if m[2] != `"v3"` {
					out = append(out, core.Bad(id, "PROV", "PROV:hash-version@"+core.FnName(fn), w.InstrPos(s), "nodepool-hash-version is written as `"+m[2]+"`, not as NodePoolHashVersion"))
				}
			}
		}
	}
	if nh < 3 || nv < 3 {
		out = append(out, core.Bad(id, "PROV", "PROV:hash-annotation", "", fmt.Sprintf("vacuous: %d hash and %d version writers, 3 each confirmed by hand", nh, nv)))
	}
	// NodePoolHashVersion constant itself is what the readers compare against ("v3" folded): the NodeClaim template and the NodePool use the same function and constant by construction
	if len(out) == 0 {
		out = append(out, core.OK(id, "PROV", "PROV:hash-annotation", nh+nv, fmt.Sprintf("%d hash writers (all Hash()), %d version writers (all the constant)", nh, nv)))
	}
	return out
}

// C15.PROV2: PopulateNodeClaimDetails: labels = Assign(provider labels, NodeClaim labels) — later wins.
func c15Populate(w *core.World, id string) []core.Result {
	const pop = "life.PopulateNodeClaimDetails"
	fn := w.Fn(pop)
	if fn == nil {
		return []core.Result{core.Anchor(id, "PROV", pop)}
	}
	var out []core.Result
	ok := len(w.Sites(fn, regexp.MustCompile(`^store &local<\[2\]map\[string\]string>\[0\] = \$1\.ObjectMeta\.Labels$`), false)) > 0 &&
		len(w.Sites(fn, regexp.MustCompile(`^store &local<\[2\]map\[string\]string>\[1\] = \$0\.ObjectMeta\.Labels$`), false)) > 0 &&
		len(w.Sites(fn, regexp.MustCompile(`^store \$0\.ObjectMeta\.Labels = lo\.Assign\[string, string, map\[string\]string\]\(&local<\[2\]map\[string\]string>\[:\]\)$`), false)) > 0
	if !ok {
		out = append(out, core.Bad(id, "PROV", "PROV:"+pop+":labels", w.Pos(fn.Pos()), "labels are no longer lo.Assign(provider labels, NodeClaim labels): provider labels could override the scheduler's and make a fresh NodeClaim requirement-drifted"))
	}
	for _, f := range []string{"ProviderID", "ImageID", "Allocatable", "Capacity"} {
		if len(w.SitesOr(fn, regexp.MustCompile(`^store \$0\.Status\.`+f+` = \$1\.Status\.`+f+`$`), false, 1)) == 0 {
			out = append(out, core.Bad(id, "PROV", "PROV:"+pop+":"+f, w.Pos(fn.Pos()), "Status."+f+" is no longer taken from the instance the provider created"))
		}
	}
	if len(out) == 0 {
		out = append(out, core.OK(id, "PROV", "PROV:"+pop, 5, "NodeClaim labels win; status details from the created instance"))
	}
	return out
}

// c15InstanceTypeNotFound: an offering that is temporarily unavailable is still a permitted launch choice — the instance-type
// drift check must look at every offering the provider lists for the NodeClaim's instance type. Two facts carry that:
// the caller hands HasCompatible the unfiltered list, and HasCompatible (a lower-layer helper whose other callers filter
// availability themselves) skips nothing.
func c15InstanceTypeNotFound() []Rule {
	const (
		itnf = "controllers/nodeclaim/disruption.instanceTypeNotFound"
		isd  = "(*controllers/nodeclaim/disruption.Drift).isDrifted"
		find = `lo\.Find\[\*cloudprovider\.InstanceType\]\(\$0, [a-z]+:[^ ]*\)`
		hc   = `\(cloudprovider\.Offerings\)\.HasCompatible\(` + find + `#0\.Offerings, scheduling\.NewLabelRequirements\(\$1\.ObjectMeta\.Labels\)\)`
	)
	rules := []Rule{
		core.Custom{ID: "C15.PROV5", Kind: "PROV", Run: func(w *core.World, id string) []core.Result {
			call := `^call \(cloudprovider\.Offerings\)\.HasCompatible\(`
			rs := core.ArgProvenance(w, id, itnf, call, 0, `^`+find+`#0\.Offerings$`, "the offerings judged are ALL offerings of the instance type found for the NodeClaim (available or not)")
			rs = append(rs, core.ArgProvenance(w, id, itnf, call, 1, `^scheduling\.NewLabelRequirements\(\$1\.ObjectMeta\.Labels\)$`, "…against the requirements built from the NodeClaim's labels")...)
			rs = append(rs, core.InstrPresent(w, id, "PROV", "@arg:"+itnf+`|^call `+find+`$|1`, `^return \(\$0\.Name == \^\$1\.ObjectMeta\.Labels\["node\.kubernetes\.io/instance-type"\]\)$`, 1, "the instance type is looked up by the NodeClaim's instance-type label")...)
			rs = append(rs, core.ArgProvenance(w, id, isd, `^call controllers/nodeclaim/disruption\.instanceTypeNotFound\(`, 0, `^iface:\(cloudprovider\.CloudProvider\)\.GetInstanceTypes\(\$0\.cloudProvider, \$2\)#0$`, "the instance types searched are the provider's list for the NodeClaim's NodePool")...)
			rs = append(rs, core.ArgProvenance(w, id, isd, `^call controllers/nodeclaim/disruption\.instanceTypeNotFound\(`, 1, `^\$3$`, "…and the NodeClaim is the one being judged")...)
			return rs
		}},
		// drift is reported only for a missing instance type or when no offering at all is compatible
		MPT{ID: "C15.MPT2", Fn: itnf, Ret: core.RetSpec{Index: 0, Want: "nonzero"}, Min: 2, Gates: gates(
			G(`-^`+find+`#1$`, `-^`+hc+`$`),
		), Note: "InstanceTypeNotFound ⇒ instance type missing ∨ no compatible offering in the full list"},
	}
	return append(rules, offeringsHasCompatibleRules("C15")...)
}

// ---------------------------------------------------------------------------------------------------------------------
// Rules added by the triage of the C15 mutation sweep.

const (
	c15DriftRec = "(*controllers/nodeclaim/disruption.Drift).Reconcile"
	c15IsDrift  = "(*controllers/nodeclaim/disruption.Drift).isDrifted"
	c15ITNF     = "controllers/nodeclaim/disruption.instanceTypeNotFound"
	c15DisrCtl  = "(*controllers/nodeclaim/disruption.Controller).Reconcile"
	c15RunRec   = "(*controllers/nodeclaim/disruption.Controller).runReconcilers"
	c15HashCtl  = "(*controllers/nodepool/hash.Controller).Reconcile"
	c15HashNC   = "(*controllers/nodepool/hash.Controller).updateNodeClaimHash"
	c15DeepEq   = `\(k8s\.io/apimachinery/third_party/forked/golang/reflect\.Equalities\)\.DeepEqual\(apim/api/equality\.Semantic\.Equalities, `
)

// c15Verdict: from the three detectors to the Drifted condition. The detectors themselves are decided by TT1 / PROV3 /
// MPT2; these rows decide that their answer is what ends up on the NodeClaim:
//   - the condition is set only for a launched NodeClaim for which isDrifted succeeded with a non-empty reason, and is then
//     always set; nobody else sets it;
//   - it is cleared only for a NodeClaim that is not launched or not drifted, and a NodeClaim found not drifted does not
//     keep a stale condition;
//   - isDrifted hands back the static / requirements reason whenever one of the two is non-empty (the provider's answer is
//     consulted only when both are empty);
//   - the requirements instanceTypeNotFound judges offerings by are the NodeClaim's labels, changed only for a reserved
//     NodeClaim (whose capacity type is widened to reserved|on-demand).
func c15Verdict() []Rule {
	const (
		launched = `\(\*opkg/status\.Condition\)\.IsTrue\(\(opkg/status\.ConditionSet\)\.Get\(\(\*apis/v1\.NodeClaim\)\.StatusConditions\(\$3, nil\), "Launched"\)\)`
		launch2  = `\(opkg/status\.ConditionSet\)\.IsTrue\(\(\*apis/v1\.NodeClaim\)\.StatusConditions\(\$3, nil\), "Launched"\)`
		verdict  = `\(\*controllers/nodeclaim/disruption\.Drift\)\.isDrifted\(\$0, \$2, \$3\)`
		setD     = `^call \(opkg/status\.ConditionSet\)\.SetTrue\w*\(\(\*apis/v1\.NodeClaim\)\.StatusConditions\(\$3, .*\), "Drifted"`
		clearD   = `^call \(opkg/status\.ConditionSet\)\.Clear\(\(\*apis/v1\.NodeClaim\)\.StatusConditions\(\$3, .*\), "Drifted"\)$`
		hasD     = `\(opkg/status\.ConditionSet\)\.Get\(\(\*apis/v1\.NodeClaim\)\.StatusConditions\(\$3, nil\), "Drifted"\) == nil`
		first    = `lo\.FindOrElse\[cloudprovider\.DriftReason\]\(&local<\[2\]cloudprovider\.DriftReason>\[:\], "", [a-z]+:[^ ]*\)`
		reqs     = `scheduling\.NewLabelRequirements\(\$1\.ObjectMeta\.Labels\)`
	)
	return []Rule{
		// a NodeClaim that is not launched yet carries none of the provider-resolved labels: judged against the NodePool's
		// requirements it would always look drifted; an empty reason or a failed evaluation is not drift
		DOM{ID: "C15.DOM2", Fn: c15DriftRec, Sink: setD, Gates: gates(
			G(`+^`+launched+`$`, `+^`+launch2+`$`),
			G(c15NonEmpty(verdict+`#0`)...),
		), Note: "Drifted=True ⇐ Launched ∧ reason ≠ \"\""},
		WMC{ID: "C15.WMC2", Sink: `^(call|go|defer) \(opkg/status\.ConditionSet\)\.SetTrue\w*\(.*, "Drifted"`, Allowed: []string{c15DriftRec}, Required: []string{c15DriftRec}},
		c15PostFromAny("C15.POST1", c15NonEmpty(verdict+`#0`), func(lit string) POST {
			return POST{Fn: c15DriftRec, FromLit: lit, Must: []string{setD}, Note: "a non-empty drift reason is always recorded as Drifted=True"}
		}),
		DOM{ID: "C15.DOM3", Fn: c15DriftRec, Sink: clearD, Gates: gates(
			G(append([]string{`-^` + launched + `$`, `-^` + launch2 + `$`}, c15Empty(verdict+`#0`)...)...),
		), Note: "Drifted is cleared only for a NodeClaim that is not launched or was found not drifted"},
		c15PostFromAny("C15.POST2", c15Empty(verdict+`#0`), func(lit string) POST {
			return POST{Fn: c15DriftRec, FromLit: lit, Must: []string{clearD}, Excuse: []string{`+^` + hasD + `$`}, Note: "a NodeClaim found not drifted does not keep a Drifted condition"}
		}),

		// isDrifted: the first non-empty of (static, requirements) is the answer
		core.Custom{ID: "C15.MPT3", Kind: "MPT", Run: func(w *core.World, id string) []core.Result {
			fn := w.Fn(c15IsDrift)
			if fn == nil {
				return []core.Result{core.Anchor(id, "MPT", c15IsDrift)}
			}
			construct := "MPT:" + c15IsDrift + ":static|requirements"
			g := G(c15Empty(first)...)
			val := regexp.MustCompile(`^` + first + `$`)
			var out []core.Result
			carried := 0
			for _, s := range w.ReturnSinks(fn, core.RetAny) {
				v, e := core.ResolveRet(s.Ret, 0), core.ResolveRet(s.Ret, 1)
				if v != nil && val.MatchString(w.Render(v)) {
					if e == nil || w.Render(e) != "nil" {
						out = append(out, core.Bad(id, "MPT", construct, w.InstrPos(s.Ret), "the static / requirements drift reason is returned together with a non-nil error (Drift.Reconcile drops the reason then)"))
					}
					carried++
					continue
				}
				if !w.RetGuarded(s, g) {
					out = append(out, core.Bad(id, "MPT", construct, w.InstrPos(s.Ret), "isDrifted can answer `"+clipStr(w.RenderInstr(s.Ret), 120)+"` although areStaticFieldsDrifted or areRequirementsDrifted reported a reason: that reason is lost"))
				}
			}
			if carried == 0 {
				out = append(out, core.Bad(id, "MPT", construct, w.Pos(fn.Pos()), "no return of isDrifted hands back the first non-empty of (static, requirements) drift (idiom lo.FindOrElse over the two reasons not recognised)"))
			}
			if len(out) == 0 {
				out = append(out, core.OK(id, "MPT", construct, carried, "every other answer of isDrifted requires both reasons to be empty"))
			}
			// the predicate that picks the reason: true exactly for a non-empty reason
			pred := "@arg:" + c15IsDrift + `|^call lo\.FindOrElse\[cloudprovider\.DriftReason\]\(|2`
			out = append(out, MPT{ID: id, Fn: pred, Ret: core.RetTrue, Gates: gates(G(`-^\$0 == ""$`, `+^len\(\$0\)>=1$`))}.Check(w)...)
			out = append(out, MPT{ID: id, Fn: pred, Ret: core.RetFalse, Gates: gates(G(`+^\$0 == ""$`, `-^len\(\$0\)>=1$`))}.Check(w)...)
			return out
		}},

		// instanceTypeNotFound: offerings are judged by the NodeClaim's own labels; the only adjustment is for reserved
		DOM{ID: "C15.DOM4", Fn: c15ITNF, Sink: `^(mapupdate ` + reqs + `\[|call delete\(` + reqs + `, |call \(scheduling\.Requirements\)\.Add\(` + reqs + `, )`, Gates: gates(
			G(`+^\$1\.ObjectMeta\.Labels\["karpenter\.sh/capacity-type"\] == "reserved"$`),
		), Note: "the label requirements are modified only for a reserved NodeClaim"},
		core.Custom{ID: "C15.PROV6", Kind: "PROV", Run: func(w *core.World, id string) []core.Result {
			rs := core.InstrPresent(w, id, "PROV", c15ITNF, `^mapupdate `+reqs+`\["karpenter\.sh/capacity-type"\] = scheduling\.NewRequirement\("karpenter\.sh/capacity-type", "In", &local<\[\d+\]string>\[:\]\)$`, 1,
				"a reserved NodeClaim's capacity-type requirement is replaced by an In-requirement (it may have been demoted to on-demand before its label is updated)")
			rs = append(rs, core.InstrPresent(w, id, "PROV", c15ITNF, `^store &local<\[\d+\]string>\[\d+\] = "on-demand"$`, 1, "…that admits on-demand")...)
			return append(rs, core.InstrPresent(w, id, "PROV", c15ITNF, `^store &local<\[\d+\]string>\[\d+\] = "reserved"$`, 1, "…and reserved")...)
		}},
	}
}

// c15Persisted: a verdict / a fingerprint that only exists in memory is never observed. The nodeclaim.disruption controller
// judges the NodeClaim against the NodePool named by its nodepool label (fetched successfully), runs the Drift reconciler
// and patches the status unless nothing changed relative to a copy taken BEFORE the reconcilers ran; the nodepool.hash
// controller does the same for the NodePool's annotations and for every NodeClaim it re-stamps.
func c15Persisted() []Rule {
	const (
		ncT     = `<\*apis/v1\.NodeClaim>`
		npT     = `<\*apis/v1\.NodePool>`
		ncCopy  = ncT + `\(\*apis/v1\.NodeClaim\)\.DeepCopy\(\$2\)`
		npCopy  = npT + `\(\*apis/v1\.NodePool\)\.DeepCopy\(\$2\)`
		getPool = `iface:\(cr/client\.Reader\)\.Get\(\$0\.kubeClient, &local<apim/types\.NamespacedName>, ` + npT + `&local<apis/v1\.NodePool>, nil\)`
		run     = `^call \(\*controllers/nodeclaim/disruption\.Controller\)\.runReconcilers\(`
		npStore = `^store \$2\.ObjectMeta\.Annotations = `
		elem    = `utils/nodeclaim\.ListManaged\(.*\)#0\[[^\]]*\]`
		ncStore = `^store ` + elem + `\.ObjectMeta\.Annotations = `
	)
	same := func(a, b string) string { return `+^` + c15DeepEq + `(` + a + `, ` + b + `|` + b + `, ` + a + `)\)$` }
	return []Rule{
		// ---- nodeclaim.disruption controller
		DOM{ID: "C15.DOM5", Fn: c15DisrCtl, Sink: run, Gates: gates(
			G(`+^`+getPool+` == nil$`),
			G(`instr:^call \(\*apis/v1\.NodeClaim\)\.DeepCopy\(\$2\)$`),
		), Note: "reconcilers run only with a NodePool that was fetched, and after the reference copy was taken"},
		core.Custom{ID: "C15.PROV7", Kind: "PROV", Run: func(w *core.World, id string) []core.Result {
			rs := core.InstrPresent(w, id, "PROV", c15DisrCtl, `^store &local<apim/types\.NamespacedName>\.Name = \$2\.ObjectMeta\.Labels\["karpenter\.sh/nodepool"\]#0$`, 1, "the NodePool fetched is the one named by the NodeClaim's nodepool label")
			rs = append(rs, core.ArgProvenance(w, id, c15DisrCtl, run, 2, `^&local<apis/v1\.NodePool>$`, "the NodePool judged against is the fetched one")...)
			rs = append(rs, core.ArgProvenance(w, id, c15DisrCtl, run, 3, `^\$2$`, "the NodeClaim judged is the reconciled one")...)
			// runReconcilers: Drift is among the reconcilers, every reconciler is invoked with (nodePool, nodeClaim)
			rs = append(rs, core.InstrPresent(w, id, "PROV", c15RunRec, `^(store &local<\[\d+\]controllers/nodeclaim/disruption\.nodeClaimReconciler>\[\d+\] = \$0\.drift|call \(\*controllers/nodeclaim/disruption\.Drift\)\.Reconcile\(\$0\.drift, \$2, \$3\))$`, 1, "the Drift sub-reconciler is one of the reconcilers run")...)
			rs = append(rs, core.InstrPresent(w, id, "PROV", c15RunRec, `^call (iface:\(controllers/nodeclaim/disruption\.nodeClaimReconciler\)\.Reconcile\(.*\[.*\]|\(\*controllers/nodeclaim/disruption\.Drift\)\.Reconcile\(\$0\.drift), \$2, \$3\)$`, 1, "each reconciler is invoked for (nodePool, nodeClaim)")...)
			return rs
		}},
		DOM{ID: "C15.LOOP1", Fn: c15RunRec, Sink: `^return`, Shallow: true, Gates: gates(G(`-^\(phi\(-1\|\(phi↺ \+ 1\)\) \+ 1\) < len\(`, `instr:^call \(\*controllers/nodeclaim/disruption\.Drift\)\.Reconcile\(\$0\.drift, \$2, \$3\)$`)),
			Note: "runReconcilers returns only after every reconciler ran (an error of one does not skip the others)"},
		POST{ID: "C15.POST3", Fn: c15DisrCtl, From: run,
			Must:   []string{`^call iface:\(cr/client\.SubResourceWriter\)\.(Patch|Update)\(iface:\(cr/client\.StatusClient\)\.Status\(\$0\.kubeClient\), ` + ncT + `\$2, `},
			Excuse: []string{same(ncCopy, ncT+`\$2`)},
			Note:   "after the reconcilers ran the status is patched unless the NodeClaim equals the copy taken before"},

		// ---- nodepool.hash controller: the NodePool's own annotations
		DOM{ID: "C15.DOM6", Fn: c15HashCtl, Sink: npStore, Gates: gates(G(`instr:^call \(\*apis/v1\.NodePool\)\.DeepCopy\(\$2\)$`)),
			Note: "the reference copy is taken before the hash annotations are written"},
		POST{ID: "C15.POST4", Fn: c15HashCtl, From: npStore,
			Must:   []string{`^call iface:\(cr/client\.Writer\)\.(Patch|Update)\(\$0\.kubeClient, ` + npT + `\$2, `},
			Excuse: []string{same(npCopy, npT+`\$2`)},
			Note:   "the NodePool is patched unless it equals the copy taken before the annotations were written"},

		// ---- …and the NodeClaims it re-stamps on a hash-version change
		DOM{ID: "C15.DOM7", Fn: c15HashNC, Sink: ncStore, Min: 2, Gates: gates(G(`instr:^call \(\*apis/v1\.NodeClaim\)\.DeepCopy\(` + elem + `\)$`))},
		POST{ID: "C15.POST5", Fn: c15HashNC, From: ncStore, Min: 2,
			Must:   []string{`^call iface:\(cr/client\.Writer\)\.(Patch|Update)\(\$0\.kubeClient, ` + ncT + elem + `, `},
			Excuse: []string{`+^` + c15DeepEq + ncT + `\(\*apis/v1\.NodeClaim\)\.DeepCopy\(.*\), ` + ncT + elem + `\)$`, `+^` + c15DeepEq + ncT + elem + `, ` + ncT + `\(\*apis/v1\.NodeClaim\)\.DeepCopy\(.*\)\)$`},
			Note:   "a re-stamped NodeClaim is patched unless it equals the copy taken before"},
		// a failed NodeClaim patch is reported to Reconcile, which then does not advertise the new version (DOM1c)
		core.Custom{ID: "C15.ERR1", Kind: "ERRFLOW", Run: func(w *core.World, id string) []core.Result {
			patch := `iface:\(cr/client\.Writer\)\.Patch\(\$0\.kubeClient, ` + ncT + `utils/nodeclaim\.ListManaged\(`
			p := POST{ID: id, Fn: c15HashNC, FromLit: `-^` + patch + `.* == nil$`, Must: []string{
				`^store makeslice<\[\]error>\[.*\] = (cr/client\.IgnoreNotFound\()?` + patch,
				`^call go\.uber\.org/multierr\.Append\(.*` + patch,
				`^call append\(.*` + patch,
				`^return (cr/client\.IgnoreNotFound\()?` + patch,
			}, Note: "a failed patch is recorded"}
			rs := p.Check(w)
			fn := w.Fn(c15HashNC)
			if fn != nil {
				if n := len(w.ReturnSinks(fn, core.RetNilConst)); n > 0 {
					rs = append(rs, core.Bad(id, "ERRFLOW", "ERRFLOW:"+c15HashNC+":return", w.Pos(fn.Pos()), fmt.Sprintf("updateNodeClaimHash has %d return(s) of the constant nil: the recorded patch errors are dropped and the NodePool advertises a hash version its NodeClaims were not re-stamped for", n)))
				}
			}
			return rs
		}},
	}
}

// c15FreshLabels: what a fresh NodeClaim must carry in order not to look requirement-drifted to areRequirementsDrifted
// (which demands that every key the NodePool requires with In / Exists / Gt / Lt is DEFINED on the NodeClaim's labels):
//   - the scheduler's template starts from the NodePool's template requirements, and the NodeClaim's spec requirements are
//     the template's requirements minus the simulation-only keys (the provider chooses within them);
//   - every user-defined (not well-known) requirement key with a resolvable value becomes a label of the NodeClaim;
//   - Launched=True is only set after the instance's labels were merged into the NodeClaim (PROV2 decides how).
func c15FreshLabels() []Rule {
	const (
		nnt  = "sched.NewNodeClaimTemplate"
		tnc  = "(*sched.NodeClaimTemplate).ToNodeClaim"
		rcl  = "(*sched.NodeClaimTemplate).resolveCustomLabelsFromRequirements"
		v1t  = "(*apis/v1.NodeClaimTemplate).ToNodeClaim"
		lrec = "(*life.Launch).Reconcile"
		nct  = `&local<sched\.NodeClaimTemplate>`
		key  = `next\(range\(\$0\.Requirements\)\)#1`
		anyV = `\(\*scheduling\.Requirement\)\.Any\(next\(range\(\$0\.Requirements\)\)#2\)`
		has  = `\(apim/util/sets\.Set\[string\]\)\.Has\(`
		put  = `^mapupdate makemap<map\[string\]string>\[` + key + `\] = ` + anyV + `$`
		pop  = `^call life\.PopulateNodeClaimDetails\(\$2, `
	)
	filterPred := "@arg:" + tnc + `|^call lo\.Filter\[\*scheduling\.Requirement, \[\]\*scheduling\.Requirement\]\(|1`
	return []Rule{
		core.Custom{ID: "C15.PROV8", Kind: "PROV", Run: func(w *core.World, id string) []core.Result {
			rs := core.InstrPresent(w, id, "PROV", v1t, `^store &local<apis/v1\.NodeClaim(Spec)?>\.(Spec\.)?Requirements = \$0\.Spec\.Requirements$`, 1, "the template NodeClaim carries the NodePool template's requirements")
			rs = append(rs, core.InstrPresent(w, id, "PROV", nnt, `^store `+nct+`\.NodeClaim = \(\*apis/v1\.NodeClaimTemplate\)\.ToNodeClaim\(\$0\.Spec\.Template\)$`, 1, "…of this NodePool")...)
			rs = append(rs, core.InstrPresent(w, id, "PROV", nnt, `^call \(scheduling\.Requirements\)\.Add\(`+nct+`\.Requirements, \(scheduling\.Requirements\)\.Values\(scheduling\.NewNodeSelectorRequirementsWithMinValues\((`+nct+`\.NodeClaim\.Spec\.Requirements|\$0\.Spec\.Template\.Spec\.Requirements)\)\)\)$`, 1,
				"the scheduling requirements of a template start from the NodePool's template requirements")...)
			// ToNodeClaim: spec requirements = the template's requirements, filtered
			rs = append(rs, core.InstrPresent(w, id, "PROV", tnc, `^call lo\.Filter\[\*scheduling\.Requirement, \[\]\*scheduling\.Requirement\]\(\(scheduling\.Requirements\)\.Values\(\$0\.Requirements\), [a-z]+:`, 1, "the NodeClaim's requirements are selected from all of the template's requirements")...)
			rs = append(rs, core.InstrPresent(w, id, "PROV", tnc, `^store &local<apis/v1\.NodeClaim>\.Spec\.Requirements = \(scheduling\.Requirements\)\.NodeSelectorRequirements\(scheduling\.NewRequirements\(lo\.Filter\[\*scheduling\.Requirement, \[\]\*scheduling\.Requirement\]\(`, 1, "…and serialised into Spec.Requirements")...)
			return rs
		}},
		MPT{ID: "C15.MPT4", Fn: filterPred, Ret: core.RetFalse, Gates: gates(G(`+^` + has + `sched\.schedulingSimulationKeys, \$0\.Key\)$`)),
			Note: "a requirement is left out of the NodeClaim only when its key is simulation-only (a NodePool requirement never is)"},

		// ---- user-defined requirement keys become labels
		core.Custom{ID: "C15.PROV9", Kind: "PROV", Run: func(w *core.World, id string) []core.Result {
			fn := w.Fn(tnc)
			if fn == nil {
				return []core.Result{core.Anchor(id, "PROV", tnc)}
			}
			construct := "PROV:" + tnc + ":labels"
			merged := regexp.MustCompile(`^store \$0\.NodeClaim\.ObjectMeta\.Labels = lo\.Assign\[string, string, map\[string\]string\]\(&local<\[\d+\]map\[string\]string>\[:\]\)$`)
			var out []core.Result
			n := 0
			for _, s := range w.SitesOr(fn, regexp.MustCompile(`^store &local<metav1\.ObjectMeta>\.Labels = `), false, 1) {
				n++
				r := w.RenderInstr(s)
				switch {
				case strings.HasSuffix(r, `= $0.NodeClaim.ObjectMeta.Labels`):
					if !w.GuardedBy(s, core.Gate{Instrs: []*regexp.Regexp{merged}, Text: "labels merged"}) {
						out = append(out, core.Bad(id, "PROV", construct, w.InstrPos(s), "the NodeClaim is built from the template's labels before (or without) the labels resolved from the user-defined requirements were merged into them"))
					}
				case strings.Contains(r, `= lo.Assign[string, string, map[string]string](&local<`):
				default:
					out = append(out, core.Bad(id, "PROV", construct, w.InstrPos(s), "the NodeClaim's labels are `"+clipStr(r, 120)+"`, not the template's labels merged with the labels resolved from the user-defined requirements"))
				}
			}
			if n == 0 {
				out = append(out, core.Bad(id, "PROV", construct, w.Pos(fn.Pos()), "vacuous: the store of the emitted NodeClaim's labels was not found"))
			}
			for _, must := range []string{
				`^store &local<\[\d+\]map\[string\]string>\[\d+\] = \(\*sched\.NodeClaimTemplate\)\.resolveCustomLabelsFromRequirements\(\$0\)$`,
				`^store &local<\[\d+\]map\[string\]string>\[\d+\] = \$0\.NodeClaim\.ObjectMeta\.Labels$`,
			} {
				if len(w.SitesOr(fn, regexp.MustCompile(must), false, 1)) == 0 {
					out = append(out, core.Bad(id, "PROV", construct, w.Pos(fn.Pos()), "the labels of the emitted NodeClaim no longer merge `"+must+"` (a user-defined NodePool requirement key without a label makes the fresh NodeClaim RequirementsDrifted)"))
				}
			}
			if len(out) == 0 {
				out = append(out, core.OK(id, "PROV", construct, n, "labels = Assign(template labels, labels resolved from user-defined requirements)"))
			}
			return append(out, c15ReturnsFilledMap(w, id, rcl, put)...)
		}},
		ITER{ID: "C15.ITER1", Fn: rcl, Loop: `+^next\(range\(\$0\.Requirements\)\)#0$`, Gates: gates(
			G(`+^`+has+`apis/v1\.WellKnownLabels, `+key+`\)$`, `+^`+has+`apis/v1\.RestrictedLabels, `+key+`\)$`, `+^`+has+`sched\.schedulingSimulationKeys, `+key+`\)$`,
				`+^`+anyV+` == ""$`, `-^len\(`+anyV+`\)>=1$`, `instr:`+put),
		), Note: "every requirement key is either well-known / restricted / simulation-only / without a resolvable value, or becomes a label with the resolved value"},
		DOM{ID: "C15.LOOP2", Fn: rcl, Sink: `^return`, Shallow: true, Gates: gates(G(`-^next\(range\(\$0\.Requirements\)\)#0$`)), Note: "the labels are returned only after every requirement was looked at"},
		// a well-known key (instance type, zone, capacity type …) gets its label from the provider at launch; a value guessed
		// here would win over the provider's (PROV2) and no longer describe the instance the drift checks look up
		DOM{ID: "C15.DOM8", Fn: rcl, Sink: `^mapupdate makemap<map\[string\]string>\[`, Gates: gates(G(`-^` + has + `apis/v1\.WellKnownLabels, ` + key + `\)$`))},

		// ---- launch
		// (both happen in memory within one reconcile, so either order is fine; NR1 decides the order of the two patches)
		core.Custom{ID: "C15.POST6", Kind: "POST", Run: func(w *core.World, id string) []core.Result {
			const setL = `^call \(opkg/status\.ConditionSet\)\.SetTrue\w*\(.*, "Launched"`
			before := DOM{ID: id, Fn: lrec, Sink: setL, Gates: gates(G(`instr:` + pop))}.Check(w)
			if len(before) == 1 && before[0].Status == core.Discharged {
				return before
			}
			after := POST{ID: id, Fn: lrec, From: setL, Must: []string{pop}}.Check(w)
			if len(after) == 1 && after[0].Status == core.Discharged {
				return after
			}
			for i := range before {
				before[i].Msg = "Launched=True can be set without the created instance's labels / details being merged into the NodeClaim (PopulateNodeClaimDetails neither before nor after): " + before[i].Msg
			}
			return before
		}},
		core.Custom{ID: "C15.PROV10", Kind: "PROV", Run: func(w *core.World, id string) []core.Result {
			rs := core.ArgProvenance(w, id, lrec, pop, 1, `\(\*life\.Launch\)\.launchNodeClaim\(\$0, \$2\)#0`, "the details merged are those of the instance created for this NodeClaim (or its cached copy)")
			// the NodeClaim's own annotations (the hash fingerprint) survive the merge
			const popFn = "life.PopulateNodeClaimDetails"
			fn := w.Fn(popFn)
			if fn == nil {
				return append(rs, core.Anchor(id, "PROV", popFn))
			}
			n := 0
			for _, s := range w.SitesOr(fn, regexp.MustCompile(`^store \$0\.ObjectMeta\.Annotations = `), false, 0) {
				n++
				if !regexp.MustCompile(`= lo\.Assign\[string, string, map\[string\]string\]\(&local<\[\d+\]map\[string\]string>\[:\]\)$`).MatchString(w.RenderInstr(s)) ||
					len(w.SitesOr(fn, regexp.MustCompile(`^store &local<\[\d+\]map\[string\]string>\[\d+\] = \$0\.ObjectMeta\.Annotations$`), false, 1)) == 0 {
					rs = append(rs, core.Bad(id, "PROV", "PROV:"+popFn+":annotations", w.InstrPos(s), "the NodeClaim's annotations are overwritten at launch by `"+clipStr(w.RenderInstr(s), 120)+"` without merging its own in: the nodepool-hash fingerprint is lost and static drift is never detected"))
				}
			}
			if len(rs) == 1 && rs[0].Status == core.Discharged {
				rs = append(rs, core.OK(id, "PROV", "PROV:"+popFn+":annotations", n, "annotation writes at launch merge the NodeClaim's own annotations in"))
			}
			return rs
		}},
	}
}

// c15ReturnsFilledMap: every return of fn hands back the very map the instructions matching putRe store into (two map
// literals of one type render alike, so this compares the values, not their renderings).
func c15ReturnsFilledMap(w *core.World, id, fnName, putRe string) []core.Result {
	fn := w.Fn(fnName)
	if fn == nil {
		return []core.Result{core.Anchor(id, "PROV", fnName)}
	}
	construct := "PROV:" + fnName + ":returns-filled-map"
	filled := map[ssa.Value]bool{}
	for _, s := range w.SitesOr(fn, regexp.MustCompile(putRe), false, 1) {
		if mu, ok := s.(*ssa.MapUpdate); ok && s.Parent() == fn {
			filled[mu.Map] = true
		}
	}
	if len(filled) == 0 {
		// the store sits in a helper (or is gone: ITER1 reports that) — the helper is handed the map, nothing to compare here
		return core.InstrPresent(w, id, "PROV", fnName, `^return (makemap<map\[string\]string>|phi\(.*makemap<map\[string\]string>.*\))$`, 1, "the resolved labels are returned")
	}
	var out []core.Result
	n := 0
	for _, s := range w.ReturnSinks(fn, core.RetAny) {
		n++
		if v := core.ResolveRet(s.Ret, 0); v == nil || !filled[v] {
			out = append(out, core.Bad(id, "PROV", construct, w.InstrPos(s.Ret), "`"+clipStr(w.RenderInstr(s.Ret), 100)+"` does not return the map the resolved labels were stored into: user-defined requirement keys get no label"))
		}
	}
	if n == 0 {
		out = append(out, core.Bad(id, "PROV", construct, w.Pos(fn.Pos()), "vacuous: no return found"))
	}
	if len(out) == 0 {
		out = append(out, core.OK(id, "PROV", construct, n, "the map that was filled is the map returned"))
	}
	return out
}

// c15Empty / c15NonEmpty: the two spellings of "the string x is (not) empty" as literal patterns (x == "" | len(x) == 0).
func c15Empty(x string) []string {
	return []string{`+^` + x + ` == ""$`, `-^len\(` + x + `\)>=1$`}
}
func c15NonEmpty(x string) []string {
	return []string{`-^` + x + ` == ""$`, `+^len\(` + x + `\)>=1$`}
}

// c15PostFromAny: a POST row whose start edge may be spelled by any of several literals: the spellings that occur are
// all evaluated; when none occurs the row fails as vacuous.
func c15PostFromAny(id string, lits []string, mk func(lit string) POST) Rule {
	return core.Custom{ID: id, Kind: "POST", Run: func(w *core.World, _ string) []core.Result {
		var bound, vacuous []core.Result
		for _, l := range lits {
			p := mk(l)
			p.ID = id
			rs := p.Check(w)
			if len(rs) == 1 && rs[0].Status == core.Violated && strings.HasPrefix(rs[0].Msg, "vacuous") {
				vacuous = append(vacuous, rs...)
				continue
			}
			bound = append(bound, rs...)
		}
		if len(bound) == 0 && len(vacuous) > 0 {
			return vacuous[:1]
		}
		return bound
	}}
}
