package props

import (
	"fmt"
	"go/types"
	"reflect"
	"regexp"
	"sort"
	"strings"

	"kverif/core"

	"golang.org/x/tools/go/ssa"
)

func init() {
	core.Register(&core.Property{
		ID:    "C15",
		Title: "Drift is reported for drift-relevant changes and never self-inflicted",
		Explanation: "Decides: (1) NodePool.Hash hashes exactly in.Spec.Template with SlicesAsSets, IgnoreZeroValue and ZeroNil set, so budgets, limits, weight, replicas and consolidation settings (fields of NodePoolSpec outside Template) cannot influence it; " +
			"(2) walking the type tree hashed from NodeClaimTemplate, the fields carrying hash:\"ignore\"/\"-\" (or any other hash tag) are exactly {NodeClaimTemplateSpec.Requirements, NillableDuration.Raw}; " +
			"(3) every value stored under the nodepool-hash annotation key in the module is a (*NodePool).Hash() result and every value under the hash-version key is the constant NodePoolHashVersion; NodeClaim hashes are rewritten only on a version change and not for NodeClaims that already carry a Drifted condition; " +
			"(4) areStaticFieldsDrifted returns drift only when all four annotations exist, versions are equal and the hashes differ; areRequirementsDrifted tests the NodeClaim's labels against the NodePool's template requirements; " +
			"(5) PopulateNodeClaimDetails lets NodeClaim labels win over provider labels; " +
			"(6) instanceTypeNotFound reports drift only when no instance type carries the NodeClaim's instance-type label or Offerings.HasCompatible answers false for that instance type's FULL offering list (not an availability-filtered copy) " +
			"under the NodeClaim's label requirements, and isDrifted hands it the provider's instance types of the NodeClaim's NodePool; Offerings.HasCompatible answers false only after every offering of the list it is given was found " +
			"incompatible by reqs.IsCompatible(of.Requirements, AllowUndefinedWellKnownLabels) — no other attribute of an offering (Available, price) lets it pass one over — and true only for a compatible one.",
		NotCovered: []string{"hash sensitivity to every remaining template field value (hashstructure internals)", "end-to-end 'a freshly launched NodeClaim is not requirement-drifted' (needs label values chosen by the provider)",
			"that a provider keeps listing a temporarily unavailable offering (Available=false) instead of omitting it (provider contract, stated in the comment of instanceTypeNotFound)"},
		Rules: c15Rules,
	})
}

func c15Rules(tier string) []Rule {
	rules := c15RulesBase(tier)
	// the labels / annotations resolved at launch are persisted before Launched=True is: a requeue that already sees
	// Launched skips Launch and would never write them again (the NodeClaim then looks drifted from its NodePool)
	rules = append(rules, c15InstanceTypeNotFound()...)
	rules = append(rules, NOREACH{ID: "C15.NR1", Fn: "(*life.Controller).Reconcile", From: `^call iface:\(cr/client\.SubResourceWriter\)\.Patch\(iface:\(cr/client\.StatusClient\)\.Status\(\$0\.kubeClient\), `,
		Sink: `^call iface:\(cr/client\.Writer\)\.Patch\(\$0\.kubeClient, `, Note: "no metadata patch after the status patch"})
	return rules
}

func c15RulesBase(tier string) []Rule {
	const (
		hash   = "(*apis/v1.NodePool).Hash"
		static = "controllers/nodeclaim/disruption.areStaticFieldsDrifted"
		reqd   = "controllers/nodeclaim/disruption.areRequirementsDrifted"
		hctl   = "(*controllers/nodepool/hash.Controller).Reconcile"
		uch    = "(*controllers/nodepool/hash.Controller).updateNodeClaimHash"
	)
	ann := func(obj, key string) string { return obj + `\.ObjectMeta\.Annotations\["` + key + `"\]` }
	return []Rule{
		// building a launch template never writes into the NodePool's own maps (ToNodeClaim shares the template's label and
		// annotation maps): a write there changes the object later hashed again
		core.Custom{ID: "C15.WSET1", Kind: "WSET", Run: func(w *core.World, id string) []core.Result {
			rs := core.FreshMapUpdates(w, id, "WSET", "sched.NewNodeClaimTemplate", 4, "NewNodeClaimTemplate adds hash annotations and pool labels to fresh maps only")
			rs = append(rs, core.FreshMapUpdates(w, id, "WSET", "(*sched.NodeClaimTemplate).ToNodeClaim", 2, "ToNodeClaim adds overlay annotations to fresh maps only")...)
			return rs
		}},
		core.Custom{ID: "C15.REG1", Kind: "REG", Run: c15Tags},
		core.Custom{ID: "C15.REG2", Kind: "REG", Run: func(w *core.World, id string) []core.Result {
			rs := core.InstrPresent(w, id, "REG", hash, `^call github\.com/mitchellh/hashstructure/v2\.Hash\(<apis/v1\.NodeClaimTemplate>\$0\.Spec\.Template, 2, &local<github\.com/mitchellh/hashstructure/v2\.HashOptions>\)$`, 1, "the hash input is exactly Spec.Template (format v2)")
			for _, f := range []string{"SlicesAsSets", "IgnoreZeroValue", "ZeroNil"} {
				rs = append(rs, core.InstrPresent(w, id, "REG", hash, `^store &local<github\.com/mitchellh/hashstructure/v2\.HashOptions>\.`+f+` = true$`, 1, "HashOptions."+f+" is true")...)
			}
			fn := w.Fn(hash)
			if fn != nil {
				n := len(w.Sites(fn, regexp.MustCompile(`^store &local<github\.com/mitchellh/hashstructure/v2\.HashOptions>\.`), false))
				if n != 3 {
					rs = append(rs, core.Bad(id, "REG", "REG:"+hash+":options", w.Pos(fn.Pos()), fmt.Sprintf("HashOptions sets %d fields, 3 classified (a new option such as TagName/Hasher/UseStringer changes what drifts)", n)))
				}
			}
			return rs
		}},
		core.Custom{ID: "C15.PROV1", Kind: "PROV", Run: c15Writers},
		// hash controller: NodeClaim hash rewritten only on version mismatch and only when not already drifted
		DOM{ID: "C15.DOM1", Fn: uch, Sink: `^mapupdate makemap<map\[string\]string>\["karpenter\.sh/nodepool-hash"\] = `, Gates: gates(
			G(`-^.*\.ObjectMeta\.Annotations\["karpenter\.sh/nodepool-hash-version"\] == "v3"$`),
			G(`+^\(opkg/status\.ConditionSet\)\.Get\(\(\*apis/v1\.NodeClaim\)\.StatusConditions\(.*\), "Drifted"\) == nil$`),
		)},
		DOM{ID: "C15.DOM1b", Fn: hctl, Sink: `^call \(\*controllers/nodepool/hash\.Controller\)\.updateNodeClaimHash\(`, Gates: gates(
			G(`-^\$2\.ObjectMeta\.Annotations\["karpenter\.sh/nodepool-hash-version"\] == "v3"$`),
		)},
		WMC{ID: "C15.WMC1", Sink: `^(call|go|defer) \(\*controllers/nodepool/hash\.Controller\)\.updateNodeClaimHash\(`, Allowed: []string{hctl}, Required: []string{hctl}},
		// NodeClaims are re-hashed before the NodePool annotation advertises the new version
		DOM{ID: "C15.DOM1c", Fn: hctl, Sink: `^mapupdate makemap<map\[string\]string>\["karpenter\.sh/nodepool-hash-version"\] = "v3"$`, Gates: gates(
			G(`+^\$2\.ObjectMeta\.Annotations\["karpenter\.sh/nodepool-hash-version"\] == "v3"$`, `+^\(\*controllers/nodepool/hash\.Controller\)\.updateNodeClaimHash\(\$0, \$2\) == nil$`),
		)},

		// ---- static drift detection
		core.Custom{ID: "C15.TT1", Kind: "TT", Run: func(w *core.World, id string) []core.Result {
			fn := w.Fn(static)
			if fn == nil {
				return []core.Result{core.Anchor(id, "TT", static)}
			}
			var out []core.Result
			gs := []core.Gate{
				G(`+^` + ann(`\$0`, "karpenter.sh/nodepool-hash") + `#1$`),
				G(`+^` + ann(`\$0`, "karpenter.sh/nodepool-hash-version") + `#1$`),
				G(`+^` + ann(`\$1`, "karpenter.sh/nodepool-hash") + `#1$`),
				G(`+^` + ann(`\$1`, "karpenter.sh/nodepool-hash-version") + `#1$`),
				G(`+^` + ann(`\$0`, "karpenter.sh/nodepool-hash-version") + `#0 == ` + ann(`\$1`, "karpenter.sh/nodepool-hash-version") + `#0$`),
			}
			// drift is reported (a non-empty reason, which must be NodePoolDrifted) only when the two hashes differ …
			gs = append(gs, G(`-^`+ann(`\$0`, "karpenter.sh/nodepool-hash")+`#0 == `+ann(`\$1`, "karpenter.sh/nodepool-hash")+`#0$`, `-^`+ann(`\$1`, "karpenter.sh/nodepool-hash")+`#0 == `+ann(`\$0`, "karpenter.sh/nodepool-hash")+`#0$`))
			n := 0
			for _, s := range w.ReturnSinks(fn, core.RetSpec{Index: -1, Want: "nonzero"}) {
				n++
				if s.Val == nil || w.Render(s.Val) != `"NodePoolDrifted"` {
					out = append(out, core.Bad(id, "TT", "TT:"+static, w.InstrPos(s.Ret), "static drift is reported by `"+w.RenderInstr(s.Ret)+"`, expected the reason NodePoolDrifted exactly when nodePoolHash != nodeClaimHash"))
				}
				for _, g := range gs {
					if !w.RetGuarded(s, g) {
						out = append(out, core.Bad(id, "TT", "TT:"+static+"⇐"+g.Text, w.InstrPos(s.Ret), "static drift can be reported without {"+g.Text+"} (missing annotation or different hash versions must not drift)"))
					}
				}
			}
			if n != 1 {
				out = append(out, core.Bad(id, "TT", "TT:"+static, w.Pos(fn.Pos()), fmt.Sprintf("expected one drift-reporting return, found %d", n)))
			}
			// … and conversely "no drift" is answered only when an annotation is missing, the versions differ or the hashes are equal
			h0, h1 := ann(`\$0`, "karpenter.sh/nodepool-hash"), ann(`\$1`, "karpenter.sh/nodepool-hash")
			v0, v1 := ann(`\$0`, "karpenter.sh/nodepool-hash-version"), ann(`\$1`, "karpenter.sh/nodepool-hash-version")
			none := G(`-^`+h0+`#1$`, `-^`+v0+`#1$`, `-^`+h1+`#1$`, `-^`+v1+`#1$`, `-^`+v0+`#0 == `+v1+`#0$`, `-^`+v1+`#0 == `+v0+`#0$`, `+^`+h0+`#0 == `+h1+`#0$`, `+^`+h1+`#0 == `+h0+`#0$`)
			nz := 0
			for _, s := range w.ReturnSinks(fn, core.RetSpec{Index: -1, Want: "zero"}) {
				nz++
				if !w.RetGuarded(s, none) {
					out = append(out, core.Bad(id, "TT", "TT:"+static+":no-drift", w.InstrPos(s.Ret), "\"no drift\" can be answered although all four annotations are present, the hash versions agree and the hashes differ"))
				}
			}
			if nz == 0 {
				out = append(out, core.Bad(id, "TT", "TT:"+static+":no-drift", w.Pos(fn.Pos()), "vacuous: no \"no drift\" return found"))
			}
			if len(out) == 0 {
				out = append(out, core.OK(id, "TT", "TT:"+static, 1, "drift ⇔ all annotations present ∧ versions equal ∧ hashes differ"))
			}
			return out
		}},
		core.Custom{ID: "C15.PROV3", Kind: "PROV", Run: func(w *core.World, id string) []core.Result {
			rs := core.InstrPresent(w, id, "PROV", reqd, `^call \(scheduling\.Requirements\)\.Compatible\(scheduling\.NewLabelRequirements\(\$1\.ObjectMeta\.Labels\), scheduling\.NewNodeSelectorRequirementsWithMinValues\(\$0\.Spec\.Template\.Spec\.Requirements\), nil\)$`, 1,
				"requirement drift = NodeClaim labels incompatible with the NodePool's template requirements")
			m := MPT{ID: id, Fn: reqd, Ret: core.RetSpec{Index: 0, Want: "any", Also: `^return "RequirementsDrifted"$`}, Gates: gates(G(`-^\(scheduling\.Requirements\)\.Compatible\(.*\) == nil$`))}
			return append(rs, m.Check(w)...)
		}},
		// isDrifted consults both
		core.Custom{ID: "C15.PROV4", Kind: "PROV", Run: func(w *core.World, id string) []core.Result {
			const isd = "(*controllers/nodeclaim/disruption.Drift).isDrifted"
			rs := core.InstrPresent(w, id, "PROV", isd, `^store &local<\[2\]cloudprovider\.DriftReason>\[0\] = controllers/nodeclaim/disruption\.areStaticFieldsDrifted\(\$2, \$3\)$`, 1, "static drift consulted for (nodePool, nodeClaim)")
			return append(rs, core.InstrPresent(w, id, "PROV", isd, `^store &local<\[2\]cloudprovider\.DriftReason>\[1\] = controllers/nodeclaim/disruption\.areRequirementsDrifted\(\$2, \$3\)$`, 1, "requirement drift consulted")...)
		}},
		// ---- labels at launch
		core.Custom{ID: "C15.PROV2", Kind: "PROV", Run: c15Populate},
	}
}

// C15.REG1: hash tags in the type tree of NodeClaimTemplate.
func c15Tags(w *core.World, id string) []core.Result {
	sp := w.SSAPkg[core.ModPath+"pkg/apis/v1"]
	if sp == nil {
		return []core.Result{core.Anchor(id, "REG", "package apis/v1")}
	}
	m, ok := sp.Members["NodeClaimTemplate"].(*ssa.Type)
	if !ok {
		return []core.Result{core.Anchor(id, "REG", "type apis/v1.NodeClaimTemplate")}
	}
	want := []string{"apis/v1.NillableDuration.Raw=ignore", "apis/v1.NodeClaimTemplateSpec.Requirements=ignore"}
	var got []string
	nfields := 0
	seen := map[string]bool{}
	var walk func(t types.Type)
	walk = func(t types.Type) {
		switch x := t.(type) {
		case *types.Pointer:
			walk(x.Elem())
		case *types.Slice:
			walk(x.Elem())
		case *types.Array:
			walk(x.Elem())
		case *types.Map:
			walk(x.Key())
			walk(x.Elem())
		case *types.Alias:
			walk(types.Unalias(x))
		case *types.Named:
			k := x.String()
			if seen[k] {
				return
			}
			seen[k] = true
			st, ok := x.Underlying().(*types.Struct)
			if !ok {
				return
			}
			for i := 0; i < st.NumFields(); i++ {
				nfields++
				f := st.Field(i)
				if tag, ok := reflect.StructTag(st.Tag(i)).Lookup("hash"); ok {
					got = append(got, core.Short(x.Obj().Pkg().Path()+"."+x.Obj().Name())+"."+f.Name()+"="+tag)
				}
				if f.Exported() || f.Embedded() {
					walk(f.Type())
				}
			}
		case *types.Struct:
			for i := 0; i < x.NumFields(); i++ {
				walk(x.Field(i).Type())
			}
		}
	}
	walk(m.Type())
	sort.Strings(got)
	if strings.Join(got, ",") != strings.Join(want, ",") {
		return []core.Result{core.Bad(id, "REG", "REG:hash-tags", "", fmt.Sprintf("hash tags in the NodeClaimTemplate type tree are %v, classified set is %v — a template field was added to or removed from the drift hash", got, want))}
	}
	if nfields < 20 {
		return []core.Result{core.Bad(id, "REG", "REG:hash-tags", "", fmt.Sprintf("vacuous: only %d fields walked", nfields))}
	}
	// the non-drifting knobs of the property live outside Spec.Template
	np, _ := sp.Members["NodePoolSpec"].(*ssa.Type)
	if np != nil {
		st := np.Type().Underlying().(*types.Struct)
		names := map[string]bool{}
		for i := 0; i < st.NumFields(); i++ {
			names[st.Field(i).Name()] = true
		}
		for _, f := range []string{"Template", "Disruption", "Limits", "Weight", "Replicas"} {
			if !names[f] {
				return []core.Result{core.Bad(id, "REG", "REG:hash-tags:NodePoolSpec", "", "NodePoolSpec no longer has field "+f+" next to Template (the non-drifting fields must stay outside the hashed subtree)")}
			}
		}
		// and Template's tree must not contain the non-drifting types
		for _, bad := range []string{"Disruption", "Budget", "Limits"} {
			for k := range seen {
				if strings.HasSuffix(k, "/pkg/apis/v1."+bad) {
					return []core.Result{core.Bad(id, "REG", "REG:hash-tags:subtree", "", "type "+bad+" became part of the hashed Spec.Template subtree")}
				}
			}
		}
	}
	return []core.Result{core.OK(id, "REG", "REG:hash-tags", nfields, fmt.Sprintf("%d fields walked; ignore-tagged: %v", nfields, got))}
}

// C15.PROV1: writers of the two annotation keys.
func c15Writers(w *core.World, id string) []core.Result {
	re := regexp.MustCompile(`^mapupdate .*\["karpenter\.sh/nodepool-hash(-version)?"\] = (.*)$`)
	var out []core.Result
	nh, nv := 0, 0
	for _, fn := range w.Fns {
		if core.IsTestSupport(fn) {
			continue
		}
		for _, s := range w.Sites(fn, re, false) {
			m := re.FindStringSubmatch(w.RenderInstr(s))
			if m[1] == "" {
				nh++
				if !regexp.MustCompile(`^\(\*apis/v1\.NodePool\)\.Hash\(\$\d\)$`).MatchString(m[2]) {
					out = append(out, core.Bad(id, "PROV", "PROV:hash-annotation@"+core.FnName(fn), w.InstrPos(s), "nodepool-hash is written as `"+m[2]+"`, not as the NodePool's Hash()"))
				}
			} else {
				nv++
				if m[2] != `"v3"` {
					out = append(out, core.Bad(id, "PROV", "PROV:hash-version@"+core.FnName(fn), w.InstrPos(s), "nodepool-hash-version is written as `"+m[2]+"`, not as NodePoolHashVersion"))
				}
			}
		}
	}
	if nh < 3 || nv < 3 {
		out = append(out, core.Bad(id, "PROV", "PROV:hash-annotation", "", fmt.Sprintf("vacuous: %d hash and %d version writers, 3 each confirmed by hand", nh, nv)))
	}
	// NodePoolHashVersion constant itself is what the readers compare against ("v3" folded): the NodeClaim template and the NodePool use the same function and constant by construction
	if len(out) == 0 {
		out = append(out, core.OK(id, "PROV", "PROV:hash-annotation", nh+nv, fmt.Sprintf("%d hash writers (all Hash()), %d version writers (all the constant)", nh, nv)))
	}
	return out
}

// C15.PROV2: PopulateNodeClaimDetails: labels = Assign(provider labels, NodeClaim labels) — later wins.
func c15Populate(w *core.World, id string) []core.Result {
	const pop = "life.PopulateNodeClaimDetails"
	fn := w.Fn(pop)
	if fn == nil {
		return []core.Result{core.Anchor(id, "PROV", pop)}
	}
	var out []core.Result
	ok := len(w.Sites(fn, regexp.MustCompile(`^store &local<\[2\]map\[string\]string>\[0\] = \$1\.ObjectMeta\.Labels$`), false)) > 0 &&
		len(w.Sites(fn, regexp.MustCompile(`^store &local<\[2\]map\[string\]string>\[1\] = \$0\.ObjectMeta\.Labels$`), false)) > 0 &&
		len(w.Sites(fn, regexp.MustCompile(`^store \$0\.ObjectMeta\.Labels = lo\.Assign\[string, string, map\[string\]string\]\(&local<\[2\]map\[string\]string>\[:\]\)$`), false)) > 0
	if !ok {
		out = append(out, core.Bad(id, "PROV", "PROV:"+pop+":labels", w.Pos(fn.Pos()), "labels are no longer lo.Assign(provider labels, NodeClaim labels): provider labels could override the scheduler's and make a fresh NodeClaim requirement-drifted"))
	}
	for _, f := range []string{"ProviderID", "ImageID", "Allocatable", "Capacity"} {
		if len(w.SitesOr(fn, regexp.MustCompile(`^store \$0\.Status\.`+f+` = \$1\.Status\.`+f+`$`), false, 1)) == 0 {
			out = append(out, core.Bad(id, "PROV", "PROV:"+pop+":"+f, w.Pos(fn.Pos()), "Status."+f+" is no longer taken from the instance the provider created"))
		}
	}
	if len(out) == 0 {
		out = append(out, core.OK(id, "PROV", "PROV:"+pop, 5, "NodeClaim labels win; status details from the created instance"))
	}
	return out
}

// c15InstanceTypeNotFound: an offering that is temporarily unavailable is still a permitted launch choice — the instance-type
// drift check must look at every offering the provider lists for the NodeClaim's instance type. Two facts carry that:
// the caller hands HasCompatible the unfiltered list, and HasCompatible (a lower-layer helper whose other callers filter
// availability themselves) skips nothing.
func c15InstanceTypeNotFound() []Rule {
	const (
		itnf = "controllers/nodeclaim/disruption.instanceTypeNotFound"
		isd  = "(*controllers/nodeclaim/disruption.Drift).isDrifted"
		find = `lo\.Find\[\*cloudprovider\.InstanceType\]\(\$0, [a-z]+:[^ ]*\)`
		hc   = `\(cloudprovider\.Offerings\)\.HasCompatible\(` + find + `#0\.Offerings, scheduling\.NewLabelRequirements\(\$1\.ObjectMeta\.Labels\)\)`
	)
	rules := []Rule{
		core.Custom{ID: "C15.PROV5", Kind: "PROV", Run: func(w *core.World, id string) []core.Result {
			call := `^call \(cloudprovider\.Offerings\)\.HasCompatible\(`
			rs := core.ArgProvenance(w, id, itnf, call, 0, `^`+find+`#0\.Offerings$`, "the offerings judged are ALL offerings of the instance type found for the NodeClaim (available or not)")
			rs = append(rs, core.ArgProvenance(w, id, itnf, call, 1, `^scheduling\.NewLabelRequirements\(\$1\.ObjectMeta\.Labels\)$`, "…against the requirements built from the NodeClaim's labels")...)
			rs = append(rs, core.InstrPresent(w, id, "PROV", "@arg:"+itnf+`|^call `+find+`$|1`, `^return \(\$0\.Name == \^\$1\.ObjectMeta\.Labels\["node\.kubernetes\.io/instance-type"\]\)$`, 1, "the instance type is looked up by the NodeClaim's instance-type label")...)
			rs = append(rs, core.ArgProvenance(w, id, isd, `^call controllers/nodeclaim/disruption\.instanceTypeNotFound\(`, 0, `^iface:\(cloudprovider\.CloudProvider\)\.GetInstanceTypes\(\$0\.cloudProvider, \$2\)#0$`, "the instance types searched are the provider's list for the NodeClaim's NodePool")...)
			rs = append(rs, core.ArgProvenance(w, id, isd, `^call controllers/nodeclaim/disruption\.instanceTypeNotFound\(`, 1, `^\$3$`, "…and the NodeClaim is the one being judged")...)
			return rs
		}},
		// drift is reported only for a missing instance type or when no offering at all is compatible
		MPT{ID: "C15.MPT2", Fn: itnf, Ret: core.RetSpec{Index: 0, Want: "nonzero"}, Min: 2, Gates: gates(
			G(`-^`+find+`#1$`, `-^`+hc+`$`),
		), Note: "InstanceTypeNotFound ⇒ instance type missing ∨ no compatible offering in the full list"},
	}
	return append(rules, offeringsHasCompatibleRules("C15")...)
}
