package props

// Lower-layer price contracts of pkg/cloudprovider/types.go (triage of the C06 sweep). Every property that compares
// "what a launch may cost" with something relies on them; they are stated once here and instantiated with the id prefix
// of the table that needs them.

import (
	"fmt"
	"regexp"

	"kverif/core"
)

const (
	tc06Opt = `&local<\[1\]opkg/option\.Function\[scheduling\.CompatibilityOptions\]>`
	// the precedence element the walk of WorstLaunchPrice is at
	tc06WlpX = `\(cloudprovider\.Offerings\)\.Compatible\(\(cloudprovider\.Offerings\)\.Compatible\(\$0, \$1\), &local<\[3\]scheduling\.Requirements>\[:\]\[.*\]\)`
)

// offeringViewRules: the three views of an offering list the worst-case launch price is built from.
//
//	OFV1  Offerings.Available()      keeps an offering iff its Available flag is set (lo.Filter, not Reject);
//	OFV2  Offerings.Compatible(reqs) keeps an offering iff reqs.IsCompatible(of.Requirements, AllowUndefinedWellKnownLabels);
//	OFV3  Offerings.MostExpensive()  is lo.MaxBy under "a is dearer than b" (a tie may go either way).
func offeringViewRules(p string) []Rule {
	const (
		av = "(cloudprovider.Offerings).Available"
		co = "(cloudprovider.Offerings).Compatible"
		me = "(cloudprovider.Offerings).MostExpensive"
	)
	filt := `lo\.Filter\[\*cloudprovider\.Offering, cloudprovider\.Offerings\]\(\$0, [a-z]+:[^ ]*\)`
	avPred := "@arg:" + av + `|^call ` + filt + `$|1`
	coPred := "@arg:" + co + `|^call ` + filt + `$|1`
	mePred := "@arg:" + me + `|^call lo\.MaxBy\[\*cloudprovider\.Offering\]\(\$0, |1`
	compat := `\(scheduling\.Requirements\)\.IsCompatible\(\^\$1, \$0\.Requirements, ` + tc06Opt + `\[:\]\)`
	return []Rule{
		core.Custom{ID: p + ".OFV1", Kind: "PROV", Run: func(w *core.World, id string) []core.Result {
			rs := tc06OnlyReturn(w, id, av, `^return `+filt+`$`, "Offerings.Available() is the receiver filtered (kept when the predicate holds) — nothing else")
			rs = append(rs, (MPT{ID: id, Fn: avPred, Ret: core.RetTrue, Gates: gates(G(`+^\$0\.Available$`)), Note: "kept ⇒ available"}).Check(w)...)
			rs = append(rs, (MPT{ID: id, Fn: avPred, Ret: core.RetFalse, Gates: gates(G(`-^\$0\.Available$`)), Note: "dropped ⇒ unavailable"}).Check(w)...)
			return tc06Explain(rs, "Offerings.Available() must return exactly the offerings whose Available flag is set: the worst-case launch price (and every fit / compatibility test) is taken over what can actually be launched")
		}},
		core.Custom{ID: p + ".OFV2", Kind: "PROV", Run: func(w *core.World, id string) []core.Result {
			rs := tc06OnlyReturn(w, id, co, `^return `+filt+`$`, "Offerings.Compatible(reqs) is the receiver filtered (kept when the predicate holds) — nothing else")
			rs = append(rs, (MPT{ID: id, Fn: coPred, Ret: core.RetTrue, Gates: gates(G(`+^` + compat + `$`)), Note: "kept ⇒ compatible"}).Check(w)...)
			rs = append(rs, (MPT{ID: id, Fn: coPred, Ret: core.RetFalse, Gates: gates(G(`-^` + compat + `$`)), Note: "dropped ⇒ incompatible"}).Check(w)...)
			rs = append(rs, core.InstrPresent(w, id, "PROV", coPred, `^store `+tc06Opt+`\[0\] = scheduling\.AllowUndefinedWellKnownLabels$`, 1, "offerings are compared with undefined well-known labels allowed")...)
			return tc06Explain(rs, "Offerings.Compatible(reqs) must return exactly the offerings reqs.IsCompatible(of.Requirements, AllowUndefinedWellKnownLabels) accepts: a launch price is only meaningful over the offerings the request can land on")
		}},
		core.Custom{ID: p + ".OFV3", Kind: "PROV", Run: func(w *core.World, id string) []core.Result {
			rs := tc06OnlyReturn(w, id, me, `^return lo\.MaxBy\[\*cloudprovider\.Offering\]\(\$0, [a-z]+:[^ ]*\)$`, "Offerings.MostExpensive() is lo.MaxBy over the receiver")
			// a > b, or a >= b: ties do not change the price
			rs = append(rs, (MPT{ID: id, Fn: mePred, Ret: core.RetTrue, Gates: gates(G(`+^\$1\.Price < \$0\.Price$`, `-^\$0\.Price < \$1\.Price$`)), Note: "a wins over b only if a is at least as dear"}).Check(w)...)
			rs = append(rs, (MPT{ID: id, Fn: mePred, Ret: core.RetFalse, Gates: gates(G(`-^\$1\.Price < \$0\.Price$`, `+^\$0\.Price < \$1\.Price$`)), Note: "a loses to b only if a is at most as dear"}).Check(w)...)
			return tc06Explain(rs, "Offerings.MostExpensive() must pick an offering of maximal Price (worst case of a launch)")
		}},
	}
}

// worstLaunchPriceRules: Offerings.WorstLaunchPrice(reqs) is the price of the dearest offering compatible with reqs of
// the FIRST capacity type, in the order reserved, spot, on-demand, that has such an offering; math.MaxFloat64 if none
// has. (A request that admits spot and on-demand is priced as spot: that is why consolidation pins it to spot.)
func worstLaunchPriceRules(p string) []Rule {
	const wlp = "(cloudprovider.Offerings).WorstLaunchPrice"
	return []Rule{core.Custom{ID: p + ".WLP1", Kind: "MPT", Run: func(w *core.World, id string) []core.Result {
		fn := w.Fn(wlp)
		if fn == nil {
			return []core.Result{core.Anchor(id, "MPT", wlp)}
		}
		construct := "MPT:" + wlp
		var out []core.Result
		priced := 0
		dear := regexp.MustCompile(`^return \(cloudprovider\.Offerings\)\.MostExpensive\(` + tc06WlpX + `\)\.Price$`)
		nonEmpty := G(`+^len\(` + tc06WlpX + `\)>=1$`)
		exhausted := G(`-^\(?phi\(.*\)( \+ 1\))? < len\(&local<\[3\]scheduling\.Requirements>\[:\]\)$`)
		for _, s := range w.ReturnSinks(fn, core.RetAny) {
			r := w.RenderD(s.Ret.Results[0], 9)
			switch {
			case dear.MatchString("return " + r):
				priced++
				if !w.RetGuarded(s, nonEmpty) {
					out = append(out, core.Bad(id, "MPT", construct+"⇐"+nonEmpty.Text, w.InstrPos(s.Ret), "WorstLaunchPrice prices a capacity type without having found a compatible offering of it (the dearest offering of an empty list)"))
				}
			case r == "1.79769e+308":
				if !w.RetGuarded(s, exhausted) {
					out = append(out, core.Bad(id, "MPT", construct+"⇐"+exhausted.Text, w.InstrPos(s.Ret), "WorstLaunchPrice gives up (MaxFloat64) before every capacity type of the precedence list was tried"))
				}
			default:
				out = append(out, core.Bad(id, "MPT", construct, w.InstrPos(s.Ret), "WorstLaunchPrice returns `"+clipStr(r, 120)+"`: neither the Price of the dearest offering compatible with the request and the capacity type at hand, nor MaxFloat64"))
			}
		}
		if priced == 0 {
			out = append(out, core.Bad(id, "MPT", construct, w.Pos(fn.Pos()), "vacuous: no return of the form MostExpensive(ofs.Compatible(reqs).Compatible(capacity type)).Price found (idiom not recognised)"))
		}
		// a capacity type is passed over only when it has no compatible offering
		it := ITER{ID: id, Fn: wlp, Loop: `+^\(?phi\(.*\)( \+ 1\))? < len\(&local<\[3\]scheduling\.Requirements>\[:\]\)$`, Gates: gates(G(`-^len\(` + tc06WlpX + `\)>=1$`)),
			Note: "the next capacity type is tried only when this one has no compatible offering"}
		for _, r := range it.Check(w) {
			if r.Status != core.Discharged {
				out = append(out, r)
			}
		}
		// the precedence order
		for i, v := range []string{"ReservedRequirement", "SpotRequirement", "OnDemandRequirement"} {
			for _, r := range core.InstrPresent(w, id, "MPT", wlp, fmt.Sprintf(`^store &local<\[3\]scheduling\.Requirements>\[%d\] = cloudprovider\.%s$`, i, v), 1, "capacity-type precedence reserved, spot, on-demand") {
				if r.Status != core.Discharged {
					out = append(out, r)
				}
			}
		}
		if len(out) == 0 {
			return []core.Result{core.OK(id, "MPT", construct, priced+1, "dearest compatible offering of the first capacity type (reserved, spot, on-demand) that has one; MaxFloat64 otherwise")}
		}
		return tc06Explain(out, "WorstLaunchPrice(reqs) must be the Price of the dearest offering compatible with reqs within the first capacity type — reserved, then spot, then on-demand — that has one, and MaxFloat64 when none has")
	}}}
}

// offeringPriceRules: InstanceType.OfferingPrice(zone, capacityType) reports (price, true) only for an offering of the
// instance type whose Zone() is zone AND whose CapacityType() is capacityType, and the price is that offering's.
func offeringPriceRules(p string) []Rule {
	const op = "(*cloudprovider.InstanceType).OfferingPrice"
	return []Rule{core.Custom{ID: p + ".OFP1", Kind: "MPT", Run: func(w *core.World, id string) []core.Result {
		fn := w.Fn(op)
		if fn == nil {
			return []core.Result{core.Anchor(id, "MPT", op)}
		}
		construct := "MPT:" + op + "⇒found"
		el := `\$0\.Offerings\[[^\]]*\]`
		zone := G(`+^\$1 == \(\*cloudprovider\.Offering\)\.Zone\(` + el + `\)$`)
		ct := G(`+^\$2 == \(\*cloudprovider\.Offering\)\.CapacityType\(` + el + `\)$`)
		val := regexp.MustCompile(`^` + el + `\.Price$`)
		var out []core.Result
		sinks := w.ReturnSinks(fn, core.RetSpec{Index: 1, Want: "true"})
		if len(sinks) == 0 {
			out = append(out, core.Bad(id, "MPT", construct, w.Pos(fn.Pos()), "vacuous: OfferingPrice has no `found` return (idiom not recognised)"))
		}
		for _, s := range sinks {
			for _, g := range []core.Gate{zone, ct} {
				if !w.RetGuarded(s, g) {
					out = append(out, core.Bad(id, "MPT", construct+"⇐"+g.Text, w.InstrPos(s.Ret), "OfferingPrice reports a price as found without {"+g.Text+"}: the price of an offering in another zone or of another capacity type is taken for the node's price"))
				}
			}
			if r := w.RenderD(s.Ret.Results[0], 9); !val.MatchString(r) {
				out = append(out, core.Bad(id, "MPT", construct, w.InstrPos(s.Ret), "OfferingPrice reports `"+clipStr(r, 100)+"` as found: not the Price of the matching offering"))
			}
		}
		if len(out) == 0 {
			return []core.Result{core.OK(id, "MPT", construct, len(sinks), "found ⇒ same zone ∧ same capacity type, price of that offering")}
		}
		return out
	}}}
}

// tc06OnlyReturn: fn has exactly one return and it renders as re.
func tc06OnlyReturn(w *core.World, id, fnName, re, what string) []core.Result {
	fn := w.Fn(fnName)
	if fn == nil {
		return []core.Result{core.Anchor(id, "PROV", fnName)}
	}
	construct := "PROV:" + fnName + ":return"
	rx := regexp.MustCompile(re)
	sinks := w.ReturnSinks(fn, core.RetAny)
	if len(sinks) == 1 && len(w.SitesOr(fn, rx, false, 1)) >= 1 {
		return []core.Result{core.OK(id, "PROV", construct, 1, what)}
	}
	pos := w.Pos(fn.Pos())
	got := fmt.Sprintf("%d returns", len(sinks))
	if len(sinks) == 1 {
		pos, got = w.InstrPos(sinks[0].Ret), "`"+clipStr(w.RenderInstr(sinks[0].Ret), 140)+"`"
	}
	return []core.Result{core.Bad(id, "PROV", construct, pos, what+": found "+got)}
}

// tc06Explain appends why to the message of every result that is not discharged.
func tc06Explain(rs []core.Result, why string) []core.Result {
	for i := range rs {
		if rs[i].Status != core.Discharged {
			rs[i].Msg += " — " + why
		}
	}
	return rs
}
