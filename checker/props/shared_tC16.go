package props

// Builders for lower-layer facts of the Node ↔ NodeClaim lookup (pkg/utils/nodeclaim) that reapers rely on when they
// read "no Node" as a fact about the cluster. Written for C16 (garbage collection deletes when the Node is absent "and
// not when that cannot be established"); any table whose decision hangs on NodeForNodeClaim's NotFound / Duplicate
// classes can adopt them with its own id prefix.

import (
	"fmt"
	"regexp"

	"kverif/core"
)

// errClassAt: the error classifier <pkg>.Is<typ>(err) answers true only for a non-nil error that wraps a *<typ>
// (errors.As into a **<typ>), and <pkg>.Ignore<typ> maps exactly the classified errors to nil and hands every other error
// back unchanged. (The cloudprovider classifiers have errClassifier in common.go; this is the same fact for a classifier of
// any package.) Callers read "Ignore…(err) == nil" as "the lookup worked, or its only complaint is <typ>": an Ignore helper
// that swallows another class turns a failed read into that fact.
func errClassAt(idPrefix, pkg, typ string) []Rule {
	is, ig := pkg+".Is"+typ, pkg+".Ignore"+typ
	q := regexp.QuoteMeta
	return []Rule{
		core.Custom{ID: idPrefix + "a", Kind: "TT", Run: func(w *core.World, id string) []core.Result {
			fn := w.Fn(is)
			if fn == nil {
				return []core.Result{core.Anchor(id, "TT", is)}
			}
			construct := "TT:" + is
			want := regexp.MustCompile(`^errors\.As\(\$0, <\*\*` + q(pkg+"."+typ) + `>[^,]*\)$`)
			var out []core.Result
			n := 0
			for _, s := range w.ReturnSinks(fn, core.RetTrue) {
				n++
				if s.Lit == nil || !s.Lit.Pol || !want.MatchString(s.Lit.Expr) {
					out = append(out, core.Bad(id, "TT", construct, w.InstrPos(s.Ret), is+" can answer true by `"+s.Desc+"`: only an error wrapping *"+typ+" may be classified"))
				}
				if !w.RetGuarded(s, G(`-^\$0 == nil$`)) {
					out = append(out, core.Bad(id, "TT", construct, w.InstrPos(s.Ret), is+" can answer true for a nil error"))
				}
			}
			if n == 0 {
				out = append(out, core.Bad(id, "TT", construct, w.Pos(fn.Pos()), "vacuous: "+is+" never answers true"))
			}
			if len(out) == 0 {
				out = append(out, core.OK(id, "TT", construct, n, "true ⇔ errors.As(err, **"+typ+") on a non-nil error"))
			}
			return out
		}},
		MPT{ID: idPrefix + "b", Fn: ig, Ret: core.RetNilConst, Gates: gates(G(`+^` + q(is) + `\(\$0\)$`))},
		core.Custom{ID: idPrefix + "c", Kind: "PROV", Run: func(w *core.World, id string) []core.Result {
			// every return of Ignore<typ> is the literal nil (decided by …b) or the error it was given
			fn := w.Fn(ig)
			if fn == nil {
				return []core.Result{core.Anchor(id, "PROV", ig)}
			}
			construct := "PROV:" + ig
			var out []core.Result
			same := 0
			for _, s := range w.ReturnSinks(fn, core.RetSpec{Index: -1, Want: "nonnil"}) {
				v := s.Val
				if v == nil {
					v = core.ResolveRet(s.Ret, -1)
				}
				if r := w.Render(v); r != "$0" {
					out = append(out, core.Bad(id, "PROV", construct, w.InstrPos(s.Ret), ig+" can hand back `"+r+"` instead of the error it was given"))
					continue
				}
				same++
			}
			if same == 0 && len(out) == 0 {
				out = append(out, core.Bad(id, "PROV", construct, w.Pos(fn.Pos()), "vacuous: "+ig+" never hands its argument back — every error is swallowed"))
			}
			if len(out) == 0 {
				out = append(out, core.OK(id, "PROV", construct, same, "any other error is passed on unchanged"))
			}
			return out
		}},
	}
}

// nodeLookupRules: what the answers of utils/nodeclaim.NodeForNodeClaim mean.
//
//	(…, *NodeNotFoundError)   ⇒ the Node list by provider id succeeded and is empty
//	(…, *DuplicateNodeError)  ⇒ the Node list succeeded and has ≥ 2 entries
//	(node, nil)               ⇒ the Node list succeeded and node is an entry of it
//	any other error           = the list's own error (possibly wrapped) — never one of the two classes above
//
// and, one layer down, AllNodesForNodeClaim answers (…, nil) only when the claim has no provider id or the List call
// succeeded, and that List is restricted to spec.providerID == the claim's Status.ProviderID (an unrestricted list makes
// every claim look duplicated, a list under another key makes every claim look node-less).
func nodeLookupRules(p string) []Rule {
	const (
		nfn  = "utils/nodeclaim.NodeForNodeClaim"
		all  = "utils/nodeclaim.AllNodesForNodeClaim"
		allR = `utils/nodeclaim\.AllNodesForNodeClaim\(\$1, \$2\)`
	)
	listed := G(`+^` + allR + `#1 == nil$`)
	rules := []Rule{
		core.Custom{ID: p + "NODE1", Kind: "MPT", Run: func(w *core.World, id string) []core.Result {
			fn := w.Fn(nfn)
			if fn == nil {
				return []core.Result{core.Anchor(id, "MPT", nfn)}
			}
			construct := "MPT:" + nfn + "⇒class"
			var out []core.Result
			bad := func(s core.RetSink, msg string) {
				out = append(out, core.Bad(id, "MPT", construct, w.InstrPos(s.Ret), msg, w.DominatingLits(s.Ret)...))
			}
			nNotFound, nFound, nOther := 0, 0, 0
			classRe := regexp.MustCompile(`^&local<utils/nodeclaim\.(NodeNotFoundError|DuplicateNodeError)>$`)
			passRe := regexp.MustCompile(`^(` + allR + `#1|fmt\.Errorf\(.*\))$`)
			for _, s := range w.ReturnSinks(fn, core.RetSpec{Index: 1, Want: "nonnil"}) {
				v := s.Val
				if v == nil {
					v = core.ResolveRet(s.Ret, 1)
				}
				r := w.Render(v)
				if m := classRe.FindStringSubmatch(r); m != nil {
					if !w.RetGuarded(s, listed) {
						bad(s, nfn+" can answer *"+m[1]+" although listing the Nodes failed: callers that ignore this class (garbage collection) then act on a Node they could not look up")
					}
					switch m[1] {
					case "NodeNotFoundError":
						nNotFound++
						if !w.RetGuarded(s, G(`-^len\(`+allR+`#0\)>=1$`)) {
							bad(s, nfn+" can answer *NodeNotFoundError while the list of matching Nodes is not empty")
						}
					case "DuplicateNodeError":
						// len ≥ 2, as one test or as "not empty" and "not exactly one" (a switch on the length)
						if !w.RetGuarded(s, G(`+^len\(`+allR+`#0\)>=2$`, `+^len\(`+allR+`#0\)>=1$`)) ||
							!w.RetGuarded(s, G(`+^len\(`+allR+`#0\)>=2$`, `-^len\(`+allR+`#0\) == 1$`)) {
							bad(s, nfn+" can answer *DuplicateNodeError with fewer than two matching Nodes")
						}
					}
					continue
				}
				nOther++
				if !passRe.MatchString(r) {
					bad(s, nfn+" returns the error `"+r+"`, which is neither the Node list's own error nor one of the two classified answers: its class cannot be told")
				} else if !w.RetGuarded(s, G(`-^`+allR+`#1 == nil$`)) {
					bad(s, nfn+" returns the Node list's error on a path where the list succeeded")
				}
			}
			for _, s := range w.ReturnSinks(fn, core.RetSpec{Index: 1, Want: "nil"}) {
				nFound++
				if !w.RetGuarded(s, listed) {
					bad(s, nfn+" can answer without error although listing the Nodes failed")
				}
				if r := w.Render(core.ResolveRet(s.Ret, 0)); !regexp.MustCompile(`^` + allR + `#0\[.*\]$`).MatchString(r) {
					bad(s, nfn+" answers (`"+r+"`, nil): the Node handed back is not an entry of the listed Nodes (a nil Node without an error reads as 'no Node')")
				}
			}
			if nNotFound < 1 || nFound < 1 || nOther < 1 {
				out = append(out, core.Bad(id, "MPT", construct, w.Pos(fn.Pos()), fmt.Sprintf("expected a not-found answer, a found answer and a pass-through of the list error; found %d, %d, %d", nNotFound, nFound, nOther)))
			}
			if len(out) == 0 {
				out = append(out, core.OK(id, "MPT", construct, nNotFound+nFound+nOther, "NotFound ⇒ listed ∧ empty; Duplicate ⇒ listed ∧ ≥2; found ⇒ listed ∧ entry of the list; list error passed on"))
			}
			return out
		}},
		// one layer down: "listed without error" really means the List call succeeded (or there is no provider id to look for)
		MPT{ID: p + "NODE2", Fn: all, Ret: core.RetSpec{Index: 1, Want: "nil"}, Min: 2, Gates: gates(
			G(`+^iface:\(cr/client\.Reader\)\.List\(\$1, <\*corev1\.NodeList>.* == nil$`, `+^\$2\.Status\.ProviderID == ""$`),
		)},
		// …and the List is restricted to the Nodes of the claim's own provider id
		core.Custom{ID: p + "NODE3", Kind: "PROV", Run: func(w *core.World, id string) []core.Result {
			return core.SelectorArg(w, id, all, `^call iface:\(cr/client\.Reader\)\.List\(\$1, <\*corev1\.NodeList>`, 3,
				`^"spec\.providerID"$`, `^\$2\.Status\.ProviderID$`, 1, "the Nodes of a NodeClaim are listed by spec.providerID == its Status.ProviderID")
		}},
	}
	rules = append(rules, errClassAt(p+"ERRC1", "utils/nodeclaim", "NodeNotFoundError")...)
	rules = append(rules, errClassAt(p+"ERRC2", "utils/nodeclaim", "DuplicateNodeError")...)
	return rules
}
