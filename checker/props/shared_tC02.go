package props

// Builders added while triaging the C02 mutation sweep. They state facts of the scheduling layer that the inter-pod
// constraints rely on; every builder takes the id prefix of the table that uses it.

import (
	"fmt"
	"regexp"

	"kverif/core"

	"golang.org/x/tools/go/ssa"
)

// phiEdgesUnder: in fn (closures included) every phi whose rendering matches phiRe receives the operands whose rendering
// matches edgeRe only on CFG edges that cannot be reached without passing gate g — "this value is chosen only where that
// test came out this way". Operands that do not match edgeRe are not constrained. A phi that matches but has no operand
// matching edgeRe is an idiom the rule does not recognise (violation, fail closed); fewer than min matching phis is vacuous.
func phiEdgesUnder(w *core.World, id, kind, fnName, phiRe, edgeRe string, g Gate, min int, what string) []core.Result {
	fn := w.Fn(fnName)
	if fn == nil {
		return []core.Result{core.Anchor(id, kind, fnName)}
	}
	construct := kind + ":" + fnName + "▸" + phiRe + "▸" + edgeRe + "⇐" + g.Text
	pre, ere := regexp.MustCompile(phiRe), regexp.MustCompile(edgeRe)
	var out []core.Result
	n := 0
	for _, f := range core.WithClosures(fn) {
		var cut *core.Cut
		for _, b := range f.Blocks {
			for _, in := range b.Instrs {
				phi, ok := in.(*ssa.Phi)
				if !ok {
					break // phis lead the block
				}
				if !pre.MatchString(w.RenderD(phi, 6)) {
					continue
				}
				n++
				if cut == nil {
					cut = w.GateCut(f, g)
				}
				matched := 0
				for i, e := range phi.Edges {
					if !ere.MatchString(w.RenderD(e, 6)) {
						continue
					}
					matched++
					if core.EdgeReachable(b.Preds[i], b, cut) {
						out = append(out, core.Bad(id, kind, construct, w.InstrPos(phi), fmt.Sprintf("%s: in %s the value `%s` is taken on a path that did not pass {%s}", what, core.FnName(f), clipStr(w.RenderD(e, 4), 80), g.Text)))
					}
				}
				if matched == 0 {
					out = append(out, core.Bad(id, kind, construct, w.InstrPos(phi), fmt.Sprintf("%s: `%s` in %s has no operand of the expected form (idiom not recognised)", what, clipStr(w.RenderD(phi, 4), 100), core.FnName(f))))
				}
			}
		}
	}
	if n < min {
		return []core.Result{core.Bad(id, kind, construct, w.Pos(fn.Pos()), fmt.Sprintf("vacuous: %d choice point(s) of the form `%s` found in %s, %d confirmed by hand — %s", n, phiRe, fnName, min, what))}
	}
	if len(out) == 0 {
		out = append(out, core.OK(id, kind, construct, n, fmt.Sprintf("%d choice point(s): %s", n, what)))
	}
	return out
}

// topologyAdmissionRules: what Topology.AddRequirements answers is binding for the placement. In both tryVolumeAlternative
// functions a success is returned only when AddRequirements succeeded AND the node's / claim's requirements are compatible
// with its answer (a group may answer with a domain the node is not in — the affinity bootstrap and the scans over
// Requirement.Values() do — and only this test rejects it); the answer is merged into the very requirement set that is
// returned; CanAdd hands that set on; NodeClaim.Add keeps it as the claim's requirements (so the claim is launched in the
// domain that Record counted); and the set the new-claim path records is the one CanAdd computed for the claim it adds to.
func topologyAdmissionRules(p string) []Rule {
	const (
		en    = "(*sched.ExistingNode)."
		nc    = "(*sched.NodeClaim)."
		base  = `scheduling\.NewRequirements\(\(scheduling\.Requirements\)\.Values\(\$3\)\)`
		nbase = `scheduling\.NewRequirements\(\(scheduling\.Requirements\)\.Values\(\$4\)\)`
		opt   = `&local<\[1\]opkg/option\.Function\[scheduling\.CompatibilityOptions\]>\[:\]`
		anyb  = `scheduling\.NewRequirements\(.*\)`
	)
	return []Rule{
		MPT{ID: p + ".ADM1", Fn: en + "tryVolumeAlternative", Ret: core.RetOK, Gates: gates(
			G(`+^\(\*sched\.Topology\)\.AddRequirements\(\$0\.topology, \$1, \$0\.cachedTaints, \$2\.StrictRequirements, `+anyb+`, nil\)#1 == nil$`),
			G(`+^\(scheduling\.Requirements\)\.Compatible\(`+anyb+`, \(\*sched\.Topology\)\.AddRequirements\(.*\)#0, nil\) == nil$`),
		), Note: "placement on a node ⇒ the topology admitted it and the node's requirements are compatible with the domains the topology answered"},
		MPT{ID: p + ".ADM2", Fn: nc + "tryVolumeAlternative", Ret: core.RetOK, Gates: gates(
			G(`+^\(\*sched\.Topology\)\.AddRequirements\(\$0\.topology, \$2, \$0\.NodeClaimTemplate\.NodeClaim\.Spec\.Taints, \$3\.StrictRequirements, `+anyb+`, `+opt+`\)#1 == nil$`),
			G(`+^\(scheduling\.Requirements\)\.Compatible\(`+anyb+`, \(\*sched\.Topology\)\.AddRequirements\(.*\)#0, `+opt+`\) == nil$`),
		), Note: "placement on a claim ⇒ the topology admitted it and the claim's requirements are compatible with the domains the topology answered"},
		core.Custom{ID: p + ".ADM3", Kind: "PROV", Run: func(w *core.World, id string) []core.Result {
			f, g := en+"tryVolumeAlternative", nc+"tryVolumeAlternative"
			rs := core.InstrPresent(w, id, "PROV", f, `^call \(\*sched\.Topology\)\.AddRequirements\(\$0\.topology, \$1, \$0\.cachedTaints, \$2\.StrictRequirements, `+base+`, nil\)$`, 1, "the topology is asked about the copy of the node's requirements that is returned")
			rs = append(rs, core.InstrPresent(w, id, "PROV", f, `^call \(scheduling\.Requirements\)\.Add\(`+base+`, \(scheduling\.Requirements\)\.Values\(\(\*sched\.Topology\)\.AddRequirements\(`, 1, "the topology's answer narrows the node requirements")...)
			rs = append(rs, core.InstrPresent(w, id, "PROV", f, `^return `+base+`, nil$`, 1, "the narrowed set is what is returned")...)
			rs = append(rs, core.InstrPresent(w, id, "PROV", g, `^call \(\*sched\.Topology\)\.AddRequirements\(\$0\.topology, \$2, \$0\.NodeClaimTemplate\.NodeClaim\.Spec\.Taints, \$3\.StrictRequirements, `+nbase+`, `+opt+`\)$`, 1, "the topology is asked about the copy of the claim's requirements that is returned")...)
			rs = append(rs, core.InstrPresent(w, id, "PROV", g, `^call \(scheduling\.Requirements\)\.Add\(`+nbase+`, \(scheduling\.Requirements\)\.Values\(\(\*sched\.Topology\)\.AddRequirements\(`, 1, "the topology's answer narrows the claim requirements")...)
			rs = append(rs, core.InstrPresent(w, id, "PROV", g, `^return `+nbase+`, `, 1, "the narrowed set is what is returned")...)
			rs = append(rs, core.InstrPresent(w, id, "PROV", en+"CanAdd", `^return \(\*sched\.ExistingNode\)\.tryVolumeAlternative\(.*\)#0, .*, nil$`, 2, "CanAdd answers with the requirements the accepted alternative computed")...)
			rs = append(rs, core.InstrPresent(w, id, "PROV", nc+"CanAdd", `^return \(\*sched\.NodeClaim\)\.tryVolumeAlternative\(.*\)#0, .*, nil$`, 1, "CanAdd answers with the requirements the accepted alternative computed")...)
			rs = append(rs, core.InstrPresent(w, id, "PROV", nc+"Add", `^store \$0\.NodeClaimTemplate\.Requirements = \$4$`, 1, "the claim keeps the narrowed requirements (it is launched in the domain that was counted)")...)
			return rs
		}},
		core.Custom{ID: p + ".ADM4", Kind: "PROV", Run: func(w *core.World, id string) []core.Result {
			return coStoredCallArgs(w, id, "(*sched.Scheduler).addToNewNodeClaim", `^call \(\*sched\.NodeClaim\)\.Add\(`, 0, 4,
				`^\(\*sched\.NodeClaim\)\.CanAdd\(`, 0, "the requirements recorded for a new claim are the ones CanAdd computed for that very claim")
		}},
	}
}

// unspill1: a load of a local that is assigned exactly once (a variable spilled because a closure captures it) reads as
// the value assigned.
func unspill1(v ssa.Value) ssa.Value {
	for i := 0; i < 4; i++ {
		u, isLoad := v.(*ssa.UnOp)
		if !isLoad {
			return v
		}
		a, isAlloc := u.X.(*ssa.Alloc)
		if !isAlloc {
			return v
		}
		st := c02StoresTo(a)
		if len(st) != 1 {
			return v
		}
		v = st[0].Val
	}
	return v
}

// coStoredCallArgs: at the one call matching callRe in fn, argument objIdx (the object acted on) and argument valIdx (what
// is committed to it) are read from variables that worker closures assign. Every assignment of the value variable is nil or
// result #resIdx of a call matching srcRe whose receiver is the very object assigned to the object variable in the same
// block; and every non-nil assignment of the object variable is accompanied by such an assignment of the value variable.
// When the arguments are not spilled variables, the plain provenance reading is used.
func coStoredCallArgs(w *core.World, id, fnName, callRe string, objIdx, valIdx int, srcRe string, resIdx int, what string) []core.Result {
	fn := w.Fn(fnName)
	if fn == nil {
		return []core.Result{core.Anchor(id, "PROV", fnName)}
	}
	construct := "PROV:" + fnName + "▸" + callRe + fmt.Sprintf("#arg%d~arg%d", objIdx, valIdx)
	sites := w.Sites(fn, regexp.MustCompile(callRe), true)
	if len(sites) != 1 {
		return []core.Result{core.Bad(id, "PROV", construct, w.Pos(fn.Pos()), fmt.Sprintf("%d call site(s) matching `%s` in %s, exactly 1 confirmed by hand", len(sites), callRe, fnName))}
	}
	ci, ok := sites[0].(ssa.CallInstruction)
	if !ok {
		return []core.Result{core.Bad(id, "PROV", construct, w.InstrPos(sites[0]), "not a call")}
	}
	args := core.CallArgs(ci.Common())
	if objIdx >= len(args) || valIdx >= len(args) {
		return []core.Result{core.Bad(id, "PROV", construct, w.InstrPos(sites[0]), fmt.Sprintf("call has %d args", len(args)))}
	}
	cell := func(v ssa.Value) *ssa.Alloc {
		u, isLoad := v.(*ssa.UnOp)
		if !isLoad {
			return nil
		}
		a, _ := u.X.(*ssa.Alloc)
		return a
	}
	objCell, valCell := cell(args[objIdx]), cell(args[valIdx])
	if objCell == nil || valCell == nil {
		// no worker closure in between: the argument itself renders as its source
		return core.ArgProvenance(w, id, fnName, callRe, valIdx, `^\^?`+srcRe[1:]+`.*\)#`+fmt.Sprint(resIdx)+`$`, what)
	}
	src := regexp.MustCompile(srcRe)
	isNil := func(v ssa.Value) bool { c, isC := v.(*ssa.Const); return isC && c.IsNil() }
	objStores, valStores := c02StoresTo(objCell), c02StoresTo(valCell)
	objIn := map[*ssa.BasicBlock]*ssa.Store{}
	for _, s := range objStores {
		if !isNil(s.Val) {
			objIn[s.Block()] = s
		}
	}
	var out []core.Result
	paired := map[*ssa.BasicBlock]bool{}
	good := 0
	for _, s := range valStores {
		if isNil(s.Val) {
			continue
		}
		ex, isEx := unspill1(s.Val).(*ssa.Extract)
		var call *ssa.Call
		if isEx && ex.Index == resIdx {
			call, _ = ex.Tuple.(*ssa.Call)
		}
		if call == nil || !src.MatchString(w.CalleeName(call.Common())+"(") {
			out = append(out, core.Bad(id, "PROV", construct, w.InstrPos(s), fmt.Sprintf("%s: `%s` is assigned `%s`, not result #%d of %s", what, clipStr(w.RenderInstr(s), 60), clipStr(w.RenderD(s.Val, 4), 80), resIdx, srcRe)))
			continue
		}
		os := objIn[s.Block()]
		cargs := core.CallArgs(call.Common())
		if os == nil || len(cargs) == 0 || !(unspill1(cargs[0]) == unspill1(os.Val) || w.Render(cargs[0]) == w.Render(os.Val)) {
			out = append(out, core.Bad(id, "PROV", construct, w.InstrPos(s), fmt.Sprintf("%s: the value assigned here was computed for `%s`, but the object chosen with it is not that one", what, clipStr(w.RenderD(cargs[0], 4), 60))))
			continue
		}
		paired[s.Block()] = true
		good++
	}
	for b, s := range objIn {
		if !paired[b] {
			out = append(out, core.Bad(id, "PROV", construct, w.InstrPos(s), fmt.Sprintf("%s: the object is chosen here without the value computed for it (a stale or nil value is committed)", what)))
		}
	}
	if good == 0 && len(out) == 0 {
		out = append(out, core.Bad(id, "PROV", construct, w.InstrPos(sites[0]), "vacuous: no assignment of the committed value found"))
	}
	if len(out) == 0 {
		out = append(out, core.OK(id, "PROV", construct, good, what))
	}
	return out
}
