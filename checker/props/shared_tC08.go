package props

// Builders for lower-layer facts the disruption queue relies on (triage of the C08 mutation sweep).
//
//   - the "parallel workers + error slice" idiom (workqueue.ParallelizeUntil over n pieces, each worker stores its failure
//     into errs[i], the function returns multierr.Combine(errs...)): callers read a nil result as "every piece worked";
//   - state.RequireNoScheduleTaint(…, false, nodes…) == nil  ⇒ no listed node (that has a Node and a NodeClaim and is not
//     already being deleted) carries the disruption taint on the API server any more;
//   - state.ClearNodeClaimsCondition(…, t, nodes…) == nil    ⇒ no listed (initialized) node's NodeClaim carries condition t.
//
// Written for C08 (rollback: "the disruption taint and the DisruptionReason condition are removed"); any table whose
// statement hangs on the taint / the condition being gone can adopt them with its own id prefix.

import (
	"fmt"
	"regexp"
	"strings"

	"golang.org/x/tools/go/ssa"

	"kverif/core"
)

const (
	parUntil   = `^call k8s\.io/client-go/util/workqueue\.ParallelizeUntil\(`
	retryOnErr = `k8s\.io/client-go/util/retry\.OnError\(.*\)`
	errSlot    = `^store \^makeslice<\[\]error>\[\$0\] = \S+\(` // the worker's own slot gets a call result (never the literal nil)
)

// workerRecordsFailure: inside fn's worker closure, the edge on which `failed` (a rendered call returning error) is
// non-nil stores into the worker's own slot of the error slice before the worker is left.
func workerRecordsFailure(id, fn, failed, note string) Rule {
	return POST{ID: id, Fn: fn, FromLit: `-^` + failed + ` == nil$`, Must: []string{errSlot}, Note: note}
}

// returnsCombinedErrors: every return of fn that can follow its ParallelizeUntil call hands back, as its error result,
// multierr.Combine over the workers' error slice (a literal nil or a single worker's error would report success for a batch
// in which some piece failed).
func returnsCombinedErrors(w *core.World, id, fnName string) []core.Result {
	fn := w.Fn(fnName)
	if fn == nil {
		return []core.Result{core.Anchor(id, "PROV", fnName)}
	}
	construct := "PROV:" + fnName + ":error=Combine(worker errors)"
	par := w.SitesOr(fn, regexp.MustCompile(parUntil), false, 1)
	if len(par) == 0 {
		return []core.Result{core.Bad(id, "PROV", construct, w.Pos(fn.Pos()), "vacuous: no workqueue.ParallelizeUntil in "+fnName+" (1 confirmed by hand) — the batch idiom changed and has to be re-confirmed")}
	}
	want := regexp.MustCompile(`^go\.uber\.org/multierr\.Combine\(makeslice<\[\]error>\)$`)
	var out []core.Result
	n := 0
	for _, p := range par {
		reach := core.Reach(p.Block().Succs, nil)
		for _, b := range fn.Blocks {
			if len(b.Instrs) == 0 {
				continue
			}
			ret, ok := b.Instrs[len(b.Instrs)-1].(*ssa.Return)
			if !ok || len(ret.Results) == 0 || !(b == p.Block() || reach[b]) {
				continue
			}
			n++
			v := core.ResolveRet(ret, -1)
			if v == nil {
				out = append(out, core.Bad(id, "PROV", construct, w.InstrPos(ret), "the error result of "+fnName+" cannot be resolved (idiom not recognised)"))
				continue
			}
			if got := w.Render(v); !want.MatchString(got) {
				out = append(out, core.Bad(id, "PROV", construct, w.InstrPos(ret), fnName+" returns `"+clipStr(got, 100)+"` as its error after the parallel batch; it must be multierr.Combine over the workers' error slice, otherwise a failed piece is reported as success"))
			}
		}
	}
	if n == 0 {
		out = append(out, core.Bad(id, "PROV", construct, w.Pos(fn.Pos()), "vacuous: no return after the parallel batch in "+fnName))
	}
	if len(out) == 0 {
		out = append(out, core.OK(id, "PROV", construct, n, "the batch's error result is the combination of every worker's error"))
	}
	return out
}

// workerPost evaluates a POST row from the entry of fn's ParallelizeUntil worker (the function literal handed over as
// DoWorkPieceFunc — a converted closure, which the "@arg:" locator does not see through).
func workerPost(w *core.World, id, fnName string, row POST) []core.Result {
	fn := w.Fn(fnName)
	if fn == nil {
		return []core.Result{core.Anchor(id, "POST", fnName)}
	}
	var worker *ssa.Function
	n := 0
	for _, s := range w.SitesOr(fn, regexp.MustCompile(parUntil), true, 1) {
		ci, ok := s.(ssa.CallInstruction)
		if !ok {
			continue
		}
		for _, a := range core.CallArgs(ci.Common()) {
			for {
				if c, ok := a.(*ssa.ChangeType); ok {
					a = c.X
					continue
				}
				break
			}
			switch x := a.(type) {
			case *ssa.MakeClosure:
				if f, ok := x.Fn.(*ssa.Function); ok {
					worker = f
					n++
				}
			case *ssa.Function:
				worker = x
				n++
			}
		}
	}
	if n != 1 {
		return []core.Result{core.Bad(id, "POST", "POST:"+fnName+":worker", w.Pos(fn.Pos()), fmt.Sprintf("the worker of the parallel batch in %s cannot be resolved (%d candidates; idiom not recognised)", fnName, n))}
	}
	row.Fn = core.FnName(worker)
	return row.Check(w)
}

// predicateIs: every site of callRe in fn (closures included) takes, as argument argIdx, a function all of whose returns
// render as retRe.
func predicateIs(w *core.World, id, fnName, callRe string, argIdx int, retRe, what string, min int) []core.Result {
	fn := w.Fn(fnName)
	if fn == nil {
		return []core.Result{core.Anchor(id, "PROV", fnName)}
	}
	construct := "PROV:" + fnName + "▸" + callRe + ":predicate"
	want := regexp.MustCompile(retRe)
	var out []core.Result
	n := 0
	w.WithHelpers(fn, func(f *ssa.Function, _ ssa.Instruction) {
		for _, s := range w.Sites(f, regexp.MustCompile(callRe), true) {
			ci, ok := s.(ssa.CallInstruction)
			if !ok {
				continue
			}
			n++
			args := core.CallArgs(ci.Common())
			var pred *ssa.Function
			if argIdx < len(args) {
				switch x := args[argIdx].(type) {
				case *ssa.MakeClosure:
					pred, _ = x.Fn.(*ssa.Function)
				case *ssa.Function:
					pred = x
				}
			}
			if pred == nil {
				out = append(out, core.Bad(id, "PROV", construct, w.InstrPos(s), what+": the predicate cannot be resolved (idiom not recognised)"))
				continue
			}
			rets := w.Sites(pred, regexp.MustCompile(`^return `), false)
			if len(rets) == 0 {
				out = append(out, core.Bad(id, "PROV", construct, w.Pos(pred.Pos()), what+": the predicate has no return (idiom not recognised)"))
			}
			for _, r := range rets {
				if got := strings.ReplaceAll(w.RenderInstr(r), "^", ""); !want.MatchString(got) {
					out = append(out, core.Bad(id, "PROV", construct, w.InstrPos(r), what+": the predicate answers `"+clipStr(strings.TrimPrefix(got, "return "), 120)+"`"))
				}
			}
		}
	})
	if n < min {
		out = append(out, core.Bad(id, "PROV", construct, w.Pos(fn.Pos()), fmt.Sprintf("vacuous: %d site(s) of `%s` in %s, %d confirmed by hand", n, callRe, fnName, min)))
	}
	if len(out) == 0 {
		out = append(out, core.OK(id, "PROV", construct, n, what))
	}
	return out
}

// untaintRules: what a nil result of state.RequireNoScheduleTaint(ctx, client, false, nodes…) means.
//
//	…1  every node that has a Node and a NodeClaim is put through the get-modify-patch body (one worker per node)
//	…2  a failed body is recorded in the worker's slot, …3 the function returns the combination of the slots
//	…4  the body answers nil only when the node equals the copy taken before the edit (nothing to patch), the node is being
//	    deleted, or the Patch of that node succeeded
//	…5  with addTaint == false the comparison is reached only after node.Spec.Taints = lo.Reject(node.Spec.Taints, matches)
//	…6  "matches" is Taint.MatchTaint(&DisruptedNoScheduleTaint) (key AND effect) in every filter of the body
//	…7  the copy (comparison baseline and patch base) is taken before the taint list is edited; the node read and the node
//	    patched are the listed node's
func untaintRules(p string) []Rule {
	const fn = "state.RequireNoScheduleTaint"
	body := "@arg:" + fn + `|^call k8s\.io/client-go/util/retry\.OnError\(|2`
	node := `\^&local<corev1\.Node>`
	cp := `<\*corev1\.Node>\(\*corev1\.Node\)\.DeepCopy\(` + node + `\)`
	same := `\(k8s\.io/apimachinery/third_party/forked/golang/reflect\.Equalities\)\.DeepEqual\(apim/api/equality\.Semantic\.Equalities, (` + cp + `, <\*corev1\.Node>` + node + `|<\*corev1\.Node>` + node + `, ` + cp + `)\)`
	rejectStore := `^store ` + node + `\.Spec\.Taints = lo\.Reject\[corev1\.Taint, \[\]corev1\.Taint\]\(` + node + `\.Spec\.Taints, `
	return []Rule{
		core.Custom{ID: p + "1", Kind: "POST", Run: func(w *core.World, id string) []core.Result {
			return workerPost(w, id, fn, POST{ID: id, Must: []string{`^call ` + retryOnErr + `$`},
				Excuse: []string{`+^\^\$3\[\$0\]\.Node == nil$`, `+^\^\$3\[\$0\]\.NodeClaim == nil$`},
				Note:   "only a state node without Node or without NodeClaim is skipped"})
		}},
		core.Custom{ID: p + "1b", Kind: "PROV", Run: func(w *core.World, id string) []core.Result {
			return core.InstrPresent(w, id, "PROV", fn, parUntil+`len\(\$3\), len\(\$3\), closure:`, 1, "one piece per listed node")
		}},
		workerRecordsFailure(p+"2", fn, retryOnErr, "a node whose taint could not be changed is reported"),
		core.Custom{ID: p + "3", Kind: "PROV", Run: func(w *core.World, id string) []core.Result { return returnsCombinedErrors(w, id, fn) }},
		MPT{ID: p + "4", Fn: body, Ret: core.RetOK, Gates: gates(
			G(`+^`+same+`$`, `-^\(\*metav1\.Time\)\.IsZero\(`+node+`\.ObjectMeta\.DeletionTimestamp\)$`,
				`+^iface:\(cr/client\.Writer\)\.Patch\(\^\^\$1, <\*corev1\.Node>`+node+`, .*\) == nil$`),
		), Note: "nil only when nothing changed, the node is going away, or the Patch of this node succeeded"},
		DOM{ID: p + "5", Fn: body, Sink: `^call \(k8s\.io/apimachinery/third_party/forked/golang/reflect\.Equalities\)\.DeepEqual\(`, Gates: gates(
			G(`+^\^\^\$2$`, `instr:`+rejectStore),
		), Note: "addTaint == false ⇒ the disruption taint has been filtered out of node.Spec.Taints before the node is compared / patched"},
		core.Custom{ID: p + "6", Kind: "PROV", Run: func(w *core.World, id string) []core.Result {
			return predicateIs(w, id, fn, `^call lo\.(Reject|Filter)\[corev1\.Taint, \[\]corev1\.Taint\]\(`, 1,
				`^return \(\*corev1\.Taint\)\.MatchTaint\(\$0, apis/v1\.DisruptedNoScheduleTaint\)$`,
				"the taints removed are exactly those matching DisruptedNoScheduleTaint (key and effect)", 2)
		}},
		DOM{ID: p + "7", Fn: body, Sink: `^store ` + node + `\.Spec\.Taints = `, Gates: gates(
			G(`instr:^call \(\*corev1\.Node\)\.DeepCopy\(`+node+`\)$`),
			G(`+^iface:\(cr/client\.Reader\)\.Get\(\^\^\$1, &local<cr/client\.ObjectKey>, <\*corev1\.Node>`+node+`, nil\) == nil$`),
		), Note: "the baseline copy precedes every edit of the taint list, and the node edited is the one just read"},
		core.Custom{ID: p + "7b", Kind: "PROV", Run: func(w *core.World, id string) []core.Result {
			rs := core.InstrPresent(w, id, "PROV", fn, `^store &local<cr/client\.ObjectKey>\.Name = \^\^\$3\[\^\$0\]\.Node\.ObjectMeta\.Name$`, 1, "the node read is the listed state node's Node")
			return append(rs, core.InstrPresent(w, id, "PROV", fn, `^call iface:\(cr/client\.Writer\)\.Patch\(\^\^\$1, <\*corev1\.Node>`+node+`, cr/client\.MergeFromWithOptions\(<\*corev1\.Node>\(\*corev1\.Node\)\.DeepCopy\(`, 1, "the patch is computed against the copy taken before the edit")...)
		}},
	}
}

// clearConditionRules: what a nil result of state.ClearNodeClaimsCondition(ctx, client, clk, t, nodes…) means (same shape).
func clearConditionRules(p string) []Rule {
	const fn = "state.ClearNodeClaimsCondition"
	body := "@arg:" + fn + `|^call k8s\.io/client-go/util/retry\.OnError\(|2`
	nc := `\^&local<apis/v1\.NodeClaim>`
	cp := `<\*apis/v1\.NodeClaim>\(\*apis/v1\.NodeClaim\)\.DeepCopy\(` + nc + `\)`
	same := `\(k8s\.io/apimachinery/third_party/forked/golang/reflect\.Equalities\)\.DeepEqual\(apim/api/equality\.Semantic\.Equalities, (` + cp + `, <\*apis/v1\.NodeClaim>` + nc + `|<\*apis/v1\.NodeClaim>` + nc + `, ` + cp + `)\)`
	clear := `^call \(opkg/status\.ConditionSet\)\.Clear\(\(\*apis/v1\.NodeClaim\)\.StatusConditions\(` + nc + `, .*\), \^\^\$3\)$`
	get := `iface:\(cr/client\.Reader\)\.Get\(\^\^\$1, cr/client\.ObjectKeyFromObject\(<\*apis/v1\.NodeClaim>\^\^\$4\[\^\$0\]\.NodeClaim\), <\*apis/v1\.NodeClaim>` + nc + `, nil\)`
	return []Rule{
		core.Custom{ID: p + "1", Kind: "POST", Run: func(w *core.World, id string) []core.Result {
			return workerPost(w, id, fn, POST{ID: id, Must: []string{`^call ` + retryOnErr + `$`},
				Excuse: []string{`-^\(\*state\.StateNode\)\.Initialized\(\^\$4\[\$0\]\)$`, `+^\^\$4\[\$0\]\.NodeClaim == nil$`},
				Note:   "only an uninitialized state node or one without NodeClaim is skipped"})
		}},
		core.Custom{ID: p + "1b", Kind: "PROV", Run: func(w *core.World, id string) []core.Result {
			return core.InstrPresent(w, id, "PROV", fn, parUntil+`len\(\$4\), len\(\$4\), closure:`, 1, "one piece per listed node")
		}},
		workerRecordsFailure(p+"2", fn, retryOnErr, "a NodeClaim whose condition could not be cleared is reported"),
		core.Custom{ID: p + "3", Kind: "PROV", Run: func(w *core.World, id string) []core.Result { return returnsCombinedErrors(w, id, fn) }},
		MPT{ID: p + "4", Fn: body, Ret: core.RetOK, Gates: gates(
			G(`+^`+same+`$`, `+^iface:\(cr/client\.SubResourceWriter\)\.Patch\(iface:\(cr/client\.StatusClient\)\.Status\(\^\^\$1\), <\*apis/v1\.NodeClaim>`+nc+`, .*\) == nil$`),
		), Note: "nil only when clearing changed nothing or the status Patch of this NodeClaim succeeded"},
		DOM{ID: p + "5", Fn: body, Sink: `^call \(k8s\.io/apimachinery/third_party/forked/golang/reflect\.Equalities\)\.DeepEqual\(`, Gates: gates(
			G(`instr:` + clear),
		), Note: "the requested condition type has been cleared on the NodeClaim before it is compared / patched"},
		DOM{ID: p + "6", Fn: body, Sink: clear, Gates: gates(
			G(`instr:^call \(\*apis/v1\.NodeClaim\)\.DeepCopy\(`+nc+`\)$`),
			G(`+^`+get+` == nil$`),
		), Note: "the baseline copy precedes the edit, and the NodeClaim edited is the listed node's, freshly read"},
		core.Custom{ID: p + "6b", Kind: "PROV", Run: func(w *core.World, id string) []core.Result {
			return core.InstrPresent(w, id, "PROV", fn, `^call iface:\(cr/client\.SubResourceWriter\)\.Patch\(iface:\(cr/client\.StatusClient\)\.Status\(\^\^\$1\), <\*apis/v1\.NodeClaim>`+nc+`, cr/client\.MergeFromWithOptions\(<\*apis/v1\.NodeClaim>\(\*apis/v1\.NodeClaim\)\.DeepCopy\(`, 1,
				"the status patch is computed against the copy taken before the edit")
		}},
	}
}
