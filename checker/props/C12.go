package props

import (
	"fmt"
	"go/constant"
	"go/types"
	"regexp"
	"sort"
	"strings"

	"kverif/core"

	"golang.org/x/tools/go/ssa"
)

func init() {
	core.Register(&core.Property{
		ID:    "C12",
		Title: "Label-requirement algebra agrees with set semantics",
		Explanation: "The admitted-set equalities themselves are value-level and are NOT decided. Decided are the structural conditions they rest on: " +
			"(1) the small predicates are exactly their specified truth tables: Has (complement ⇒ ¬member ∧ withinBounds, else member ∧ withinBounds), Len, Operator (NotIn only for an unbounded complement with exclusions; any bound means Exists), minIntPtr / maxIntPtr; " +
			"withinBounds says true only without bounds or for a value that strconv.Atoi parses and that violates neither bound, and false only when a bound exists and the value fails to parse or violates one; " +
			"(2) the constructor dispatches exactly the operators the validator accepts (Exists being the default), normalises the key first, Gt stores value+1 and Lt value-1, each guarded against the extreme that would wrap, Gte/Lte store the value; " +
			"(3) Intersection and HasIntersection both derive their bounds from maxIntPtr(gte,gte) / minIntPtr(lte,lte), both answer empty when gte>lte, Intersection keeps bounds only for complements and filters every concrete value by withinBounds; " +
			"(4) Requirements.Add stores Intersection(existing) whenever the key exists; intersectKeys ranges one operand and looks the key up in the other (never the same operand twice) and returns exactly the keys found; " +
			"nothing but Add stores into a Requirements — so every constructor (labels, node selector terms, pod affinity) and every merge intersects inputs that name one key, e.g. a label alias and the stable key it is normalised to — except a key-for-key copy of ONE Requirements into a map made on the spot (DeepCopyInto) and the two deliberate replacements of the capacity-type entry under its constant, non-alias key (NodeClaim.FinalizeScheduling, drift's instanceTypeNotFound); library generics instantiated with Requirements that store (maps.Copy, lo.Assign) and maps of another type converted to Requirements count as stores; " +
			"(5) Compatible succeeds only through Intersects, and passes an undefined key only if it is allowed-undefined, defined on the receiver, or the incoming operator is NotIn / DoesNotExist; " +
			"Intersects records an error for every shared key without intersection unless both sides are NotIn / DoesNotExist.",
		NotCovered: []string{
			"exactness of the admitted sets, commutativity, associativity and idempotence (value-level)",
			"HasIntersection ⇔ non-empty Intersection for complements with bounds (e.g. NotIn{5} ∧ ≥5 ∧ ≤5 answers true for an empty set)",
			"sets.Set operations of apimachinery",
			"removals from a Requirements (delete(r, key) widens the admitted set: FinalizeScheduling drops the hostname, instanceTypeNotFound the reserved-capacity labels) and whether the two capacity-type replacements store the intended values",
			"a Requirements reached through reflection / unsafe, or written by a dependency that is handed the map as an interface value",
		},
		Rules: c12Rules,
	})
}

func c12Rules(tier string) []Rule {
	const (
		nrf    = "scheduling.NewRequirementWithFlexibility"
		wb     = "scheduling.withinBounds"
		isec   = "(*scheduling.Requirement).Intersection"
		hisec  = "(*scheduling.Requirement).HasIntersection"
		compat = "(scheduling.Requirements).Compatible"
		inters = "(scheduling.Requirements).Intersects"
		ikeys  = "(scheduling.Requirements).intersectKeys"
		key    = `next\(range\(\$1\)\)#1`
		ikey   = `next\(range\(\(scheduling\.Requirements\)\.intersectKeys\(.*\)\)\)#1`
	)
	atoi := `strconv\.Atoi\(\$0\)`
	return []Rule{
		// ---- (1) predicates
		TABLE{ID: "C12.TT1", Fn: "(*scheduling.Requirement).Has", Rows: [][]string{
			{`+$0.complement`, `+(apim/util/sets.Set[string]).Has($0.values, $1)`, `=> false`},
			{`+$0.complement`, `-(apim/util/sets.Set[string]).Has($0.values, $1)`, `=> scheduling.withinBounds($1, $0.gte, $0.lte)`},
			{`-$0.complement`, `+(apim/util/sets.Set[string]).Has($0.values, $1)`, `=> scheduling.withinBounds($1, $0.gte, $0.lte)`},
			{`-$0.complement`, `-(apim/util/sets.Set[string]).Has($0.values, $1)`, `=> false`},
		}},
		TABLE{ID: "C12.TT2", Fn: "(*scheduling.Requirement).Len", Rows: [][]string{
			{`+$0.complement`, `=> (9223372036854775807 - (apim/util/sets.Set[string]).Len($0.values))`},
			{`-$0.complement`, `=> (apim/util/sets.Set[string]).Len($0.values)`},
		}},
		TABLE{ID: "C12.TT3", Fn: "(*scheduling.Requirement).Operator", Rows: [][]string{
			{`+$0.complement`, `+(*scheduling.Requirement).Len($0) < 9223372036854775807`, `+$0.gte == nil`, `+$0.lte == nil`, `=> "NotIn"`},
			{`+$0.complement`, `+(*scheduling.Requirement).Len($0) < 9223372036854775807`, `+$0.gte == nil`, `-$0.lte == nil`, `=> "Exists"`},
			{`+$0.complement`, `+(*scheduling.Requirement).Len($0) < 9223372036854775807`, `-$0.gte == nil`, `=> "Exists"`},
			{`+$0.complement`, `-(*scheduling.Requirement).Len($0) < 9223372036854775807`, `=> "Exists"`},
			{`-$0.complement`, `+0 < (*scheduling.Requirement).Len($0)`, `=> "In"`},
			{`-$0.complement`, `-0 < (*scheduling.Requirement).Len($0)`, `=> "DoesNotExist"`},
		}, Note: "a bounded complement is Exists-with-bounds, never NotIn (F11)"},
		TABLE{ID: "C12.TT4", Fn: "scheduling.maxIntPtr", Rows: [][]string{
			{`+$0 == nil`, `=> $1`},
			{`-$0 == nil`, `+$1 == nil`, `=> $0`},
			{`-$0 == nil`, `-$1 == nil`, `+$1 < $0`, `=> $0`},
			{`-$0 == nil`, `-$1 == nil`, `-$1 < $0`, `=> $1`},
		}},
		TABLE{ID: "C12.TT5", Fn: "scheduling.minIntPtr", Rows: [][]string{
			{`+$0 == nil`, `=> $1`},
			{`-$0 == nil`, `+$1 == nil`, `=> $0`},
			{`-$0 == nil`, `-$1 == nil`, `+$0 < $1`, `=> $0`},
			{`-$0 == nil`, `-$1 == nil`, `-$0 < $1`, `=> $1`},
		}},
		MPT{ID: "C12.MPT1", Fn: wb, Ret: core.RetTrue, Gates: gates(
			G(`+^\$2 == nil$`, `+^`+atoi+`#1 == nil$`),
			G(`+^\$1 == nil$`, `-^`+atoi+`#0 < \$1$`),
			G(`+^\$2 == nil$`, `-^\$2 < `+atoi+`#0$`),
		), Note: "admitted ⇒ no bounds, or an integer below neither bound"},
		MPT{ID: "C12.MPT2", Fn: wb, Ret: core.RetFalse, Gates: gates(
			G(`-^\$1 == nil$`, `-^\$2 == nil$`),
			G(`-^`+atoi+`#1 == nil$`, `+^`+atoi+`#0 < \$1$`, `+^\$2 < `+atoi+`#0$`),
		), Note: "rejected ⇒ a bound exists and the value is not an integer or violates a bound (nothing else rejects)"},

		// ---- (2) constructor
		core.Custom{ID: "C12.REG1", Kind: "REG", Run: c12Dispatch},
		core.Custom{ID: "C12.SYM1", Kind: "SYM", Run: c12OverflowGuards},
		core.Custom{ID: "C12.PROV1", Kind: "PROV", Run: func(w *core.World, id string) []core.Result {
			k := `phi\(\$0\|apis/v1\.NormalizedLabels\[\$0\]#0\)`
			rs := core.InstrPresent(w, id, "PROV", nrf, `^store &local<scheduling\.Requirement>\.Key = `+k+`$`, 2, "the requirement is keyed by the normalised label")
			rs = append(rs, core.InstrPresent(w, id, "PROV", nrf, `^store &local<scheduling\.Requirement>\.MinValues = \$2$`, 2, "MinValues is carried")...)
			rs = append(rs, core.InstrPresent(w, id, "PROV", nrf, `^store &local<scheduling\.Requirement>\.gte = strconv\.Atoi\(\$3\[0\]\)#0$`, 1, "Gte stores its operand")...)
			rs = append(rs, core.InstrPresent(w, id, "PROV", nrf, `^store &local<scheduling\.Requirement>\.lte = strconv\.Atoi\(\$3\[0\]\)#0$`, 1, "Lte stores its operand")...)
			return rs
		}},
		DOM{ID: "C12.DOM1", Fn: nrf, Sink: `^store &local<scheduling\.Requirement>\.complement = false$`, Gates: gates(G(`+^\$1 == "In"$`, `+^\$1 == "DoesNotExist"$`)), Note: "only In and DoesNotExist are non-complements"},
		DOM{ID: "C12.DOM2", Fn: nrf, Sink: `^call \(apim/util/sets\.Set\[string\]\)\.Insert\(&local<scheduling\.Requirement>\.values, \$3\)$`, Gates: gates(G(`+^\$1 == "In"$`, `+^\$1 == "NotIn"$`)), Note: "only In and NotIn carry values"},
		DOM{ID: "C12.DOM3", Fn: nrf, Sink: `^store &local<scheduling\.Requirement>\.gte = `, Gates: gates(G(`+^\$1 == "Gt"$`, `+^\$1 == "Gte"$`))},
		DOM{ID: "C12.DOM4", Fn: nrf, Sink: `^store &local<scheduling\.Requirement>\.lte = `, Gates: gates(G(`+^\$1 == "Lt"$`, `+^\$1 == "Lte"$`))},

		// ---- (3) the two intersections agree on bounds
		core.Custom{ID: "C12.SYM2", Kind: "SYM", Run: func(w *core.World, id string) []core.Result {
			var rs []core.Result
			for _, f := range []string{isec, hisec} {
				rs = append(rs, core.InstrPresent(w, id, "SYM", f, `^call scheduling\.maxIntPtr\(\$0\.gte, \$1\.gte\)$`, 1, "lower bound = max of the lower bounds")...)
				rs = append(rs, core.InstrPresent(w, id, "SYM", f, `^call scheduling\.minIntPtr\(\$0\.lte, \$1\.lte\)$`, 1, "upper bound = min of the upper bounds")...)
			}
			return rs
		}},
		IMPL{ID: "C12.IMPL1", Fn: hisec, Lit: `+^scheduling\.minIntPtr\(\$0\.lte, \$1\.lte\) < scheduling\.maxIntPtr\(\$0\.gte, \$1\.gte\)$`, Not: core.RetTrue, Note: "crossed bounds ⇒ no intersection"},
		POST{ID: "C12.POST1", Fn: isec, FromLit: `+^scheduling\.minIntPtr\(\$0\.lte, \$1\.lte\) < scheduling\.maxIntPtr\(\$0\.gte, \$1\.gte\)$`,
			Must: []string{`^return scheduling\.NewRequirementWithFlexibility\(\$0\.Key, "DoesNotExist", scheduling\.maxIntPtr\(\$0\.MinValues, \$1\.MinValues\), nil\)$`}, Note: "crossed bounds ⇒ the empty requirement"},
		core.Custom{ID: "C12.PROV2", Kind: "PROV", Run: func(w *core.World, id string) []core.Result {
			rs := core.InstrPresent(w, id, "PROV", isec, `^call \(apim/util/sets\.Set\[string\]\)\.Union\(\$0\.values, \$1\.values\)$`, 1, "complement ∧ complement: excluded sets are united")
			rs = append(rs, core.InstrPresent(w, id, "PROV", isec, `^call \(apim/util/sets\.Set\[string\]\)\.Difference\(\$1\.values, \$0\.values\)$`, 1, "complement ∧ concrete: other's values minus own exclusions")...)
			rs = append(rs, core.InstrPresent(w, id, "PROV", isec, `^call \(apim/util/sets\.Set\[string\]\)\.Difference\(\$0\.values, \$1\.values\)$`, 1, "concrete ∧ complement: own values minus other's exclusions")...)
			rs = append(rs, core.InstrPresent(w, id, "PROV", isec, `^call \(apim/util/sets\.Set\[string\]\)\.Intersection\(\$0\.values, \$1\.values\)$`, 1, "concrete ∧ concrete: set intersection")...)
			return rs
		}},
		DOM{ID: "C12.DOM5", Fn: isec, Stable: []string{`^\$0\.complement$`, `^\$1\.complement$`}, Sink: `^call \(apim/util/sets\.Set\[string\]\)\.Union\(`, Gates: gates(G(`+^\$0\.complement$`), G(`+^\$1\.complement$`))},
		DOM{ID: "C12.DOM6", Fn: isec, Stable: []string{`^\$0\.complement$`, `^\$1\.complement$`}, Sink: `^call \(apim/util/sets\.Set\[string\]\)\.Intersection\(`, Gates: gates(G(`-^\$0\.complement$`), G(`-^\$1\.complement$`))},
		DOM{ID: "C12.DOM7", Fn: isec, Stable: []string{`^\$0\.complement$`, `^\$1\.complement$`}, Sink: `^call \(apim/util/sets\.Set\[string\]\)\.Difference\(\$1\.values, \$0\.values\)$`, Gates: gates(G(`+^\$0\.complement$`), G(`-^\$1\.complement$`))},
		DOM{ID: "C12.DOM8", Fn: isec, Stable: []string{`^\$0\.complement$`, `^\$1\.complement$`}, Sink: `^call \(apim/util/sets\.Set\[string\]\)\.Difference\(\$0\.values, \$1\.values\)$`, Gates: gates(G(`-^\$0\.complement$`), G(`+^\$1\.complement$`))},
		MPT{ID: "C12.MPT3", Fn: hisec, Ret: core.RetTrue, Gates: gates(
			G(`+^\$0\.complement$`, `+^\$1\.complement$`, `instr:^call scheduling\.withinBounds\(`),
		), Note: "a concrete value only counts when it is within the combined bounds"},

		// ---- (4) sets of requirements
		core.Custom{ID: "C12.PROV3", Kind: "PROV", Run: c12AddIntersects},
		core.Custom{ID: "C12.SYM3", Kind: "SYM", Run: c12IntersectKeys},
		// Two inputs of a constructor can name one key (label aliases are normalised by NewRequirement, preferred and
		// required terms repeat keys), so "the set admits what every input admits" holds only if every entry of a
		// Requirements gets there through Add's intersecting store (PROV3) — or is copied key for key from another
		// Requirements into a new map. A raw `m[k] = v` anywhere else lets the later input overwrite the earlier one.
		core.Custom{ID: "C12.WMC1", Kind: "WMC", Run: c12OnlyAddStores},

		// ---- (5) Compatible / Intersects
		core.Custom{ID: "C12.PROV4", Kind: "PROV", Run: func(w *core.World, id string) []core.Result {
			rs := core.InstrPresent(w, id, "PROV", compat, `^return \(scheduling\.Requirements\)\.Intersects\(\$0, \$1\)$`, 1, "success is Intersects' answer")
			return rs
		}},
		MPT{ID: "C12.MPT4", Fn: compat, Ret: core.RetOK, Gates: gates(G(`-^next\(range\(\$1\)\)#0$`)), Note: "nil only after every incoming key was examined"},
		ITER{ID: "C12.ITER1", Fn: compat, Loop: `+^next\(range\(\$1\)\)#0$`, Gates: gates(
			G(`+^\(apim/util/sets\.Set\[string\]\)\.Has\(opkg/option\.Resolve\[scheduling\.CompatibilityOptions\]\(\$2\)\.AllowUndefined, `+key+`\)$`,
				`+^\(scheduling\.Requirements\)\.Has\(\$0, `+key+`\)$`,
				`+^\(\*scheduling\.Requirement\)\.Operator\(\(scheduling\.Requirements\)\.Get\(\$1, `+key+`\)\) == "NotIn"$`,
				`+^\(\*scheduling\.Requirement\)\.Operator\(\(scheduling\.Requirements\)\.Get\(\$1, `+key+`\)\) == "DoesNotExist"$`),
		), Note: "an incoming key passes only if allowed-undefined, defined on the receiver, or NotIn / DoesNotExist"},
		ITER{ID: "C12.ITER2", Fn: inters, Loop: `+^next\(range\(\(scheduling\.Requirements\)\.intersectKeys\(\$0, \$1\)\)\)#0$`, Gates: gates(
			G(`instr:^call go\.uber\.org/multierr\.Append\(`,
				`+^\(\*scheduling\.Requirement\)\.HasIntersection\(\(scheduling\.Requirements\)\.Get\(\$0, `+ikey+`\), \(scheduling\.Requirements\)\.Get\(\$1, `+ikey+`\)\)$`,
				`+^\(\*scheduling\.Requirement\)\.Operator\(\(scheduling\.Requirements\)\.Get\(\$0, `+ikey+`\)\) == "NotIn"$`,
				`+^\(\*scheduling\.Requirement\)\.Operator\(\(scheduling\.Requirements\)\.Get\(\$0, `+ikey+`\)\) == "DoesNotExist"$`),
			G(`instr:^call go\.uber\.org/multierr\.Append\(`,
				`+^\(\*scheduling\.Requirement\)\.HasIntersection\(\(scheduling\.Requirements\)\.Get\(\$0, `+ikey+`\), \(scheduling\.Requirements\)\.Get\(\$1, `+ikey+`\)\)$`,
				`+^\(\*scheduling\.Requirement\)\.Operator\(\(scheduling\.Requirements\)\.Get\(\$1, `+ikey+`\)\) == "NotIn"$`,
				`+^\(\*scheduling\.Requirement\)\.Operator\(\(scheduling\.Requirements\)\.Get\(\$1, `+ikey+`\)\) == "DoesNotExist"$`),
		), Note: "a shared key without intersection is an error unless BOTH sides are NotIn / DoesNotExist"},
		core.Custom{ID: "C12.PROV5", Kind: "PROV", Run: func(w *core.World, id string) []core.Result {
			rs := core.InstrPresent(w, id, "PROV", inters, `^return phi\(nil\|phi↺\|go\.uber\.org/multierr\.Append\(phi↺, <scheduling\.badKeyError>&local<scheduling\.badKeyError>\)\)$`, 1, "the accumulated errors are returned")
			rs = append(rs, core.InstrPresent(w, id, "PROV", inters, `^call \(scheduling\.Requirements\)\.intersectKeys\(\$0, \$1\)$`, 1, "shared keys of the two operands")...)
			return rs
		}},
	}
}

// C12.REG1: the operators the constructor dispatches on are exactly the operators the validator accepts, minus Exists
// (the constructor's default: complement without values or bounds).
func c12Dispatch(w *core.World, id string) []core.Result {
	const nrf = "scheduling.NewRequirementWithFlexibility"
	fn := w.Fn(nrf)
	if fn == nil {
		return []core.Result{core.Anchor(id, "REG", nrf)}
	}
	supported, ok := c13SupportedOps(w)
	if !ok {
		return []core.Result{core.Anchor(id, "REG", "apis/v1.SupportedNodeSelectorOps initialiser")}
	}
	construct := "REG:" + nrf + ":operators"
	re := regexp.MustCompile(`^\$1 == "(\w+)"$`)
	got := map[string]bool{}
	for _, b := range fn.Blocks {
		t, _, ok := w.BlockLits(b)
		if !ok {
			continue
		}
		if m := re.FindStringSubmatch(t.Expr); m != nil {
			got[m[1]] = true
		}
	}
	var out []core.Result
	for op := range supported {
		if op != "Exists" && !got[op] {
			out = append(out, core.Bad(id, "REG", construct, w.Pos(fn.Pos()), fmt.Sprintf("operator %s is accepted by validation but the constructor has no case for it: it is silently treated as Exists", op)))
		}
	}
	for op := range got {
		if !supported[op] {
			out = append(out, core.Bad(id, "REG", construct, w.Pos(fn.Pos()), fmt.Sprintf("the constructor dispatches on %s, which validation does not accept", op)))
		}
	}
	if len(out) == 0 {
		var ops []string
		for k := range got {
			ops = append(ops, k)
		}
		sort.Strings(ops)
		out = append(out, core.OK(id, "REG", construct, len(got), fmt.Sprintf("dispatched %v + default Exists = SupportedNodeSelectorOps", ops)))
	}
	return out
}

// C12.SYM1: Gt's value+1 is guarded against MaxInt and Lt's value-1 against MinInt (F6), each returning the empty requirement.
func c12OverflowGuards(w *core.World, id string) []core.Result {
	const nrf = "scheduling.NewRequirementWithFlexibility"
	fn := w.Fn(nrf)
	if fn == nil {
		return []core.Result{core.Anchor(id, "SYM", nrf)}
	}
	var out []core.Result
	for _, c := range []struct{ op, store, guard, extreme string }{
		{"Gt", `^store &local<int> = \(&local<int> \+ 1\)$`, `-&local<int> == 9223372036854775807`, "MaxInt"},
		{"Lt", `^store &local<int> = \(&local<int> - 1\)$`, `-&local<int> == -9223372036854775808`, "MinInt"},
	} {
		construct := "SYM:" + nrf + ":" + c.op
		sites := w.Sites(fn, regexp.MustCompile(c.store), false)
		if len(sites) != 1 {
			out = append(out, core.Bad(id, "SYM", construct, w.Pos(fn.Pos()), fmt.Sprintf("%s is no longer canonicalised by exactly one ±1 on its operand (%d sites)", c.op, len(sites))))
			continue
		}
		lits := w.DominatingLits(sites[0])
		hasOp, hasGuard := false, false
		for _, l := range lits {
			if l == `+$1 == "`+c.op+`"` {
				hasOp = true
			}
			if l == c.guard {
				hasGuard = true
			}
		}
		if !hasOp {
			out = append(out, core.Bad(id, "SYM", construct, w.InstrPos(sites[0]), "the ±1 canonicalisation is not under the "+c.op+" case"))
		}
		if !hasGuard {
			out = append(out, core.Bad(id, "SYM", construct, w.InstrPos(sites[0]), fmt.Sprintf("%s's ±1 is not guarded against %s: the bound wraps around and the requirement admits everything", c.op, c.extreme)))
		}
	}
	if len(out) == 0 {
		out = append(out, core.OK(id, "SYM", "SYM:"+nrf+":overflow", 2, "Gt guarded against MaxInt, Lt against MinInt"))
	}
	return out
}

// C12.PROV3: Requirements.Add stores, under the requirement's key, Intersection(existing) when the key exists and the
// requirement itself otherwise.
func c12AddIntersects(w *core.World, id string) []core.Result {
	const add = "(scheduling.Requirements).Add"
	fn := w.Fn(add)
	if fn == nil {
		return []core.Result{core.Anchor(id, "PROV", add)}
	}
	construct := "PROV:" + add
	var mu *ssa.MapUpdate
	n := 0
	for _, b := range fn.Blocks {
		for _, in := range b.Instrs {
			if m, ok := in.(*ssa.MapUpdate); ok {
				mu = m
				n++
			}
		}
	}
	if n != 1 {
		return []core.Result{core.Bad(id, "PROV", construct, w.Pos(fn.Pos()), fmt.Sprintf("expected one store into the requirement map, found %d", n))}
	}
	phi, ok := mu.Value.(*ssa.Phi)
	if !ok || len(phi.Edges) != 2 {
		return []core.Result{core.Bad(id, "PROV", construct, w.InstrPos(mu), "the stored requirement is no longer chosen between the incoming one and its intersection with the existing one: `"+clipStr(w.Render(mu.Value), 100)+"`")}
	}
	cut := w.GateCut(fn, G(`+^\$0\[\$1\[.*\]\.Key\]#1$`))
	var out []core.Result
	for i, e := range phi.Edges {
		pred := phi.Block().Preds[i]
		existsOnly := !core.EdgeReachable(pred, phi.Block(), cut)
		r := w.RenderD(e, 5)
		isInter := regexp.MustCompile(`^\(\*scheduling\.Requirement\)\.Intersection\(\$1\[.*\], \$0\[\$1\[.*\]\.Key\]#0\)$`).MatchString(r)
		if existsOnly && !isInter {
			out = append(out, core.Bad(id, "PROV", construct, w.InstrPos(mu), "when the key already exists the stored requirement is `"+clipStr(r, 80)+"`, not its Intersection with the existing one: the earlier constraint is overwritten"))
		}
		if !existsOnly && !regexp.MustCompile(`^\$1\[.*\]$`).MatchString(r) {
			out = append(out, core.Bad(id, "PROV", construct, w.InstrPos(mu), "for a new key the stored requirement is `"+clipStr(r, 80)+"`, not the incoming one"))
		}
	}
	if !strings.HasPrefix(w.Render(mu.Map), "$0") {
		out = append(out, core.Bad(id, "PROV", construct, w.InstrPos(mu), "the store does not go to the receiver"))
	}
	if len(out) == 0 {
		out = append(out, core.OK(id, "PROV", construct, 2, "existing key ⇒ Intersection(existing); new key ⇒ the requirement"))
	}
	return out
}

// C12.SYM3: intersectKeys ranges over one operand and looks each key up in the OTHER operand, on every way of choosing
// which is which; a key is inserted only when the lookup succeeded; the set returned is the one inserted into.
func c12IntersectKeys(w *core.World, id string) []core.Result {
	const ik = "(scheduling.Requirements).intersectKeys"
	fn := w.Fn(ik)
	if fn == nil {
		return []core.Result{core.Anchor(id, "SYM", ik)}
	}
	construct := "SYM:" + ik
	var ranged, looked ssa.Value
	for _, b := range fn.Blocks {
		for _, in := range b.Instrs {
			switch x := in.(type) {
			case *ssa.Range:
				ranged = x.X
			case *ssa.Lookup:
				if x.CommaOk {
					looked = x.X
				}
			}
		}
	}
	if ranged == nil || looked == nil {
		return []core.Result{core.Bad(id, "SYM", construct, w.Pos(fn.Pos()), "range over one operand + comma-ok lookup in the other not found (idiom not recognised)")}
	}
	operands := func(v ssa.Value) []ssa.Value {
		if p, ok := v.(*ssa.Phi); ok {
			return p.Edges
		}
		return []ssa.Value{v}
	}
	ro, lo := operands(ranged), operands(looked)
	var out []core.Result
	if len(ro) != len(lo) {
		out = append(out, core.Bad(id, "SYM", construct, w.Pos(fn.Pos()), "ranged and looked-up operands are chosen on different conditions"))
	} else {
		for i := range ro {
			_, p0 := ro[i].(*ssa.Parameter)
			_, p1 := lo[i].(*ssa.Parameter)
			if !p0 || !p1 {
				out = append(out, core.Bad(id, "SYM", construct, w.Pos(fn.Pos()), "operands are not the two parameters"))
			} else if ro[i] == lo[i] {
				out = append(out, core.Bad(id, "SYM", construct, w.Pos(fn.Pos()), fmt.Sprintf("on one choice of smallest/largest both are `%s`: every key of that operand is reported as shared, including keys the other side does not define", w.Render(ro[i]))))
			}
		}
	}
	out = append(out, dropOK(DOM{ID: id, Fn: ik, Sink: `^call \(apim/util/sets\.Set\[string\]\)\.Insert\(makemap<apim/util/sets\.Set\[string\]>, `, Gates: gates(G(`+^phi\(\$0\|\$1\)\[next\(range\(phi\(\$0\|\$1\)\)\)#1\]#1$`, `+^\$[01]\[next\(range\(\$[01]\)\)#1\]#1$`))}.Check(w))...)
	out = append(out, dropOK(core.InstrPresent(w, id, "SYM", ik, `^return makemap<apim/util/sets\.Set\[string\]>$`, 1, ""))...)
	out = append(out, dropOK(core.InstrPresent(w, id, "SYM", ik, `^store &local<\[1\]string>\[0\] = next\(range\(.*\)\)#1$`, 1, ""))...)
	if len(out) == 0 {
		out = append(out, core.OK(id, "SYM", construct, len(ro), "keys of one operand found in the other; inserted only when found"))
	}
	return out
}

func dropOK(rs []core.Result) []core.Result {
	var out []core.Result
	for _, r := range rs {
		if r.Status != core.Discharged {
			out = append(out, r)
		}
	}
	return out
}

// C12.WMC1: who may store into a scheduling.Requirements. Allowed are
//
//	(a) (Requirements).Add — the store PROV3 proves to be the intersection with the existing entry — and unexported
//	    helpers that only Add reaches;
//	(b) a key-for-key copy: the key is the range key of another Requirements (already normalised, pairwise distinct) and
//	    the destination was made in the same function, all such stores into one destination ranging over one source (the
//	    generated DeepCopyInto of cloudprovider.InstanceType / Offering);
//	(c) in the two functions that deliberately REPLACE the capacity-type entry (NodeClaim.FinalizeScheduling pins it to
//	    reserved, drift's instanceTypeNotFound widens it to reserved+on-demand): a store under a constant key K of
//	    NewRequirement(K, …) for the same K, K not being a label alias (so map key = Requirement.Key).
//
// Anything else — a direct `m[k] = v`, a library generic instantiated with Requirements that stores (maps.Copy,
// lo.Assign), a map of another type converted to Requirements — bypasses the intersection.
func c12OnlyAddStores(w *core.World, id string) []core.Result {
	const (
		typ = "scheduling.Requirements"
		add = "(scheduling.Requirements).Add"
		min = 5 // functions holding a classified store: Add, DeepCopyInto of InstanceType and of Offering, the two capacity-type replacers
	)
	replacers := []string{"(*sched.NodeClaim).FinalizeScheduling", "controllers/nodeclaim/disruption.instanceTypeNotFound"}
	T := w.NamedType(typ)
	if T == nil {
		return []core.Result{core.Anchor(id, "WMC", "type "+typ)}
	}
	if _, isMap := T.Underlying().(*types.Map); !isMap {
		return []core.Result{core.Bad(id, "WMC", "WMC:"+typ, "", typ+" is no longer a map type: the rule about who stores into it has to be restated")}
	}
	if w.Fn(add) == nil {
		return []core.Result{core.Anchor(id, "WMC", add)}
	}
	construct := "WMC:stores into " + typ
	var out []core.Result
	inAdd, copies, repl := 0, 0, 0
	holders := map[string]bool{}
	copySrc := map[string]map[string]bool{} // function + destination -> range sources
	var facts []string
	for _, s := range w.TypedMapStores(T) {
		if core.IsTestSupport(s.Fn) {
			continue
		}
		root := core.FnName(core.RootFn(s.Fn))
		if root == add || len(w.PrivateHelperOwners(s.Fn, []string{add})) > 0 {
			inAdd++
			holders[add] = true
			continue
		}
		if s.Via != "" {
			out = append(out, core.Bad(id, "WMC", construct+"@"+root, w.InstrPos(s.Instr),
				fmt.Sprintf("%s fills a %s through %s (`%s`), not through Add: two inputs that name one key (a label alias and its stable key, a repeated term) are not intersected — the later one wins", root, typ, s.Via, clipStr(w.RenderInstr(s.Instr), 120))))
			continue
		}
		if src, ok := core.RangeKeySource(s.Update.Key); ok && types.Identical(types.Unalias(src.Type()), T) && w.MapMadeHere(s.Update) {
			copies++
			holders[root] = true
			k := root + ": " + w.Render(s.Update.Map)
			if copySrc[k] == nil {
				copySrc[k] = map[string]bool{}
			}
			copySrc[k][w.Render(src)] = true
			if len(copySrc[k]) > 1 {
				out = append(out, core.Bad(id, "WMC", construct+"@"+root, w.InstrPos(s.Instr),
					fmt.Sprintf("%s copies the entries of several %s into one new map by raw stores (`%s`): a key defined by two of them keeps only the last, not the intersection", root, typ, clipStr(w.RenderInstr(s.Instr), 120))))
			}
			continue
		}
		owners := []string{root}
		if !c12Contains(replacers, root) {
			owners = w.PrivateHelperOwners(s.Fn, replacers)
		}
		if len(owners) > 0 {
			if why := c12ConstKeyReplacement(w, s.Update); why != "" {
				out = append(out, core.Bad(id, "WMC", construct+"@"+root, w.InstrPos(s.Instr),
					fmt.Sprintf("%s may replace one entry under a constant key by a requirement built for that key, but `%s` %s", root, clipStr(w.RenderInstr(s.Instr), 120), why)))
			} else {
				repl++
				for _, o := range owners {
					holders[o] = true
				}
				facts = append(facts, "replacement in "+root+" of "+w.Render(s.Update.Key))
			}
			continue
		}
		out = append(out, core.Bad(id, "WMC", construct+"@"+root, w.InstrPos(s.Instr),
			fmt.Sprintf("%s stores into a %s directly (`%s`) instead of through Add: an entry already present under the (normalised) key is overwritten, not intersected — only Add, and a key-for-key copy of another %s into a new map, may store", root, typ, clipStr(w.RenderInstr(s.Instr), 120), typ)))
	}
	if inAdd == 0 {
		out = append(out, core.Bad(id, "WMC", construct+"@"+add, "", "vacuous: Add (with its private helpers) contains no store into the receiver"))
	}
	if len(out) == 0 && len(holders) < min {
		out = append(out, core.Bad(id, "WMC", construct, "", fmt.Sprintf("vacuous: stores into a %s were found in %d function(s) %v, expected at least %d (Add, the two DeepCopyInto copies, the two capacity-type replacers)", typ, len(holders), core.SortedKeys(holders), min)))
	}
	if len(out) == 0 {
		for k := range copySrc {
			facts = append(facts, "copy in "+k)
		}
		sort.Strings(facts)
		out = append(out, core.OK(id, "WMC", construct, len(holders), fmt.Sprintf("%d store(s) in Add, %d key-for-key copy store(s) into new maps, %d constant-key replacement(s), nothing else", inAdd, copies, repl), facts...))
	}
	return out
}

func c12Contains(l []string, s string) bool {
	for _, x := range l {
		if x == s {
			return true
		}
	}
	return false
}

// c12ConstKeyReplacement: mu is `m[K] = NewRequirement(K, …)` (or NewRequirementWithFlexibility) for one string constant K
// that is not a key of apis/v1.NormalizedLabels, or `m[x.Key] = x` for such an x. Returns what is wrong, "" if nothing.
func c12ConstKeyReplacement(w *core.World, mu *ssa.MapUpdate) string {
	call, ok := mu.Value.(*ssa.Call)
	if !ok || len(call.Call.Args) == 0 || !regexp.MustCompile(`^scheduling\.NewRequirement(WithFlexibility)?$`).MatchString(w.CalleeName(call.Common())) {
		return "does not store the result of NewRequirement"
	}
	a0, ok := call.Call.Args[0].(*ssa.Const)
	if !ok || a0.Value == nil || a0.Value.Kind() != constant.String {
		return "builds the requirement for a key that is not a constant"
	}
	k := constant.StringVal(a0.Value)
	aliases, ok := c12AliasKeys(w)
	if !ok {
		return "cannot be checked: the initialiser of apis/v1.NormalizedLabels was not recognised"
	}
	if aliases[k] {
		return "uses the alias " + k + ", which NewRequirement renames: the entry would sit under a key different from its own"
	}
	switch key := mu.Key.(type) {
	case *ssa.Const:
		if key.Value == nil || key.Value.Kind() != constant.String || constant.StringVal(key.Value) != k {
			return "stores a requirement for " + k + " under another key"
		}
		return ""
	case *ssa.UnOp:
		if fa, ok := key.X.(*ssa.FieldAddr); ok && fa.X == mu.Value && core.FieldNameOf(fa) == "Key" {
			return ""
		}
	}
	return "stores a requirement for " + k + " under a key that is neither that constant nor the requirement's own Key"
}

// c12AliasKeys: the constant keys of the composite literal that initialises apis/v1.NormalizedLabels.
func c12AliasKeys(w *core.World) (map[string]bool, bool) {
	initFn := w.Fn("apis/v1.init")
	if initFn == nil {
		return nil, false
	}
	out := map[string]bool{}
	found := false
	for _, b := range initFn.Blocks {
		for _, in := range b.Instrs {
			st, ok := in.(*ssa.Store)
			if !ok {
				continue
			}
			if g, ok := st.Addr.(*ssa.Global); !ok || g.Name() != "NormalizedLabels" {
				continue
			}
			mm, ok := st.Val.(*ssa.MakeMap)
			if !ok {
				return nil, false
			}
			found = true
			for _, r := range *mm.Referrers() {
				if mu, ok := r.(*ssa.MapUpdate); ok && mu.Map == mm {
					c, ok := mu.Key.(*ssa.Const)
					if !ok || c.Value == nil || c.Value.Kind() != constant.String {
						return nil, false
					}
					out[constant.StringVal(c.Value)] = true
				}
			}
		}
	}
	return out, found && len(out) >= 1
}
