package props

import (
	"fmt"
	"regexp"
	"strings"

	"kverif/core"

	"golang.org/x/tools/go/ssa"
)

func init() {
	core.Register(&core.Property{
		ID:    "C06",
		Title: "Consolidation keeps pods schedulable and strictly lowers cost",
		Explanation: "Decides: (1) computeConsolidation returns a non-empty Command only after SimulateScheduling succeeded and AllNonPendingPodsScheduled; a delete-only command only when the simulation needs no new NodeClaim; a replace command only with exactly one new NodeClaim, a successful price/minValues filter against sumCandidatePrices(candidates) and a non-empty option list; " +
			"(2) the price filter keeps an instance type iff WorstLaunchPrice(available offerings, reqs) < maxPrice (strict) and is followed by SatisfiesMinValues; " +
			"(3) all-spot candidates whose replacement may be spot take the spot-to-spot path, which requires the feature gate, pins capacity-type=spot, and for a single node ≥15 cheaper options (then truncates to max(15, minValues need)); on the regular path a request admitting both spot and on-demand is pinned to spot; " +
			"(4) SimulateScheduling records a PodError for every pod placed on an uninitialized existing node unless the pod comes from a deleting node; " +
			"(5) validateCommand returns nil only after a successful re-simulation with all pods scheduled and a matching cardinality (0/0, or 1 with the command's options a subset of the simulated ones); " +
			"(6) multi-node search saves a replace decision only after filterOutSameInstanceType succeeded with options left; the reschedule cost adds max(0, EvictionCost) per pod; " +
			"(7) what the simulation is run on: the nodes it may place pods on are the active nodes that are NOT candidates (by name); the pods it places contain, for every candidate, its reschedulable pods (a pod is left out only if it is not currently reschedulable under the PDBs), the reschedulable pods of deleting nodes and the pending pods, and the same list goes to NewScheduler and to Solve; it reports success only if each of these listings (and building the scheduler) succeeded; " +
			"(8) the price ceiling: Candidate.Price is resolveNodePrice(node, the pool's instance type named by the node's instance-type label), which is 0 or OfferingPrice(zone label, capacity-type label)#0; OfferingPrice reports a price as found only for an offering of that zone AND that capacity type; Candidate.capacityType is the node's capacity-type label; " +
			"(9) WorstLaunchPrice = Price of the dearest offering compatible with the request in the first capacity type (reserved, spot, on-demand) that has one, else MaxFloat64; Offerings.Available / Compatible keep exactly the available / compatible offerings, MostExpensive is a maximum by Price; " +
			"(10) emptiness: a candidate enters the Emptiness command only under IsEmpty (RescheduleDisruptionCost ≤ 1), the command carries exactly that list, and the re-validated candidates that replace it come from GetCandidates filtered (kept ⇒ filter true) by Emptiness.ShouldDisrupt, which implies IsEmpty; " +
			"(11) validation is not bypassed: ConsolidationValidator.isValid returns nil only if validateCommand did (on the candidates validateCandidates just returned, which are the proposed ones by name, all of them), Validate succeeds only if isValid did, single-/multi-node ComputeCommands return a command only after Validate succeeded, and that command is the validated one (VALID1/2).",
		NotCovered: []string{"float arithmetic of prices and the contents of the provider's price table (overlays are applied before these functions see an offering)", "soundness of the simulation itself (C01/C02)", "balanced-scoring thresholds",
			"the same-instance-type price cap computed inside filterOutSameInstanceType (it can only remove options; the statement's price bound is already established by computeConsolidation)",
			"Command.Decision() classification (a misclassified command is skipped or crashes the search; what is launched is decided by Command.Replacements)"},
		Rules: c06Rules,
	})
}

const simSched = `disr\.SimulateScheduling\(\$0\.kubeClient, \$0\.cluster, \$0\.provisioner, \$0\.clock, \$0\.recorder, &local<\[1\]sched\.Options>\[:\], \$2\)`

func c06Rules(tier string) []Rule {
	rules := c06RulesBase(tier)
	rules = append(rules, nodePodsRules("C06")...)
	// the candidates are re-validated *after* the validation period: what validateCommand re-simulates is the snapshot
	// taken then, so nothing waits once the first validateCandidates has run
	rules = append(rules, NOREACH{ID: "C06.FRESH1", Fn: "(*disr.ConsolidationValidator).isValid", From: `^call \(\*disr\.ConsolidationValidator\)\.validateCandidates\(\$0, \$2\.Candidates\)$`,
		Sink: `^call iface:\(k8s\.io/utils/clock\.\w+\)\.(After|Sleep)\(|^call time\.(Sleep|After)\(`, Note: "no waiting after the candidates were validated"})
	// ---- triage of the mutation sweep (clauses 7-11 of the Explanation)
	rules = append(rules, c06SimulationInputs()...)
	rules = append(rules, c06PriceCeiling()...)
	rules = append(rules, offeringPriceRules("C06")...)
	rules = append(rules, worstLaunchPriceRules("C06")...)
	rules = append(rules, offeringViewRules("C06")...)
	rules = append(rules, c06Emptiness()...)
	rules = append(rules, c06ValidationChain()...)
	rules = append(rules, validatedCommandRules("C06")...)
	return rules
}

func c06RulesBase(tier string) []Rule {
	const (
		cc   = "(*disr.consolidation).computeConsolidation"
		s2s  = "(*disr.consolidation).computeSpotToSpotConsolidation"
		rm   = "(*sched.NodeClaim).RemoveInstanceTypeOptionsByPriceAndMinValues"
		sim  = "disr.SimulateScheduling"
		vcmd = "(*disr.validation).validateCommand"
		fn   = "(*disr.MultiNodeConsolidation).firstNConsolidationOption"
	)
	simv := `disr\.SimulateScheduling\(\$0\.kubeClient, \$0\.cluster, \$0\.provisioner, \$0\.clock, \$0\.recorder, &local<\[1\]sched\.Options>\[:\], \$3\)`
	return []Rule{
		core.Custom{ID: "C06.MPT1", Kind: "MPT", Run: c06Commands},
		// spot-to-spot routing flag: false as soon as one candidate is not spot
		FLAG{ID: "C06.FLAG1", Fn: cc, Sink: `^call \(\*disr\.consolidation\)\.computeSpotToSpotConsolidation\(`, Lit: `-^\$2\[.*\]\.capacityType == "spot"$`},
		DOM{ID: "C06.DOM0", Fn: cc, Sink: `^call \(\*disr\.consolidation\)\.computeSpotToSpotConsolidation\(\$0, \$2, ` + simSched + `#0, disr\.sumCandidatePrices\(\$2\)\)`, Gates: gates(
			G(`+^\(\*scheduling\.Requirement\)\.Has\(\(scheduling\.Requirements\)\.Get\(.*\.NewNodeClaims\[0\]\.NodeClaimTemplate\.Requirements, "karpenter\.sh/capacity-type"\), "spot"\)$`),
			G(`+^`+simSched+`#1 == nil$`),
			G(`+^\(sched\.Results\)\.AllNonPendingPodsScheduled\(`+simSched+`#0\)$`),
			G(`+^len\(`+simSched+`#0\.NewNodeClaims\) == 1$`),
		)},
		core.Custom{ID: "C06.PROV1", Kind: "PROV", Run: func(w *core.World, id string) []core.Result {
			rs := core.ArgProvenance(w, id, cc, `^call \(\*sched\.NodeClaim\)\.RemoveInstanceTypeOptionsByPriceAndMinValues\(`, 2, `^disr\.sumCandidatePrices\(\$2\)$`, "the price ceiling is the combined price of the candidates")
			rs = append(rs, core.ArgProvenance(w, id, s2s, `^call \(\*sched\.NodeClaim\)\.RemoveInstanceTypeOptionsByPriceAndMinValues\(`, 2, `^\$4$`, "spot-to-spot filters against the candidate price it was handed")...)
			rs = append(rs, core.InstrPresent(w, id, "PROV", "disr.sumCandidatePrices", `^return lo\.SumBy\[\*disr\.Candidate, float64\]\(\$0, fn:disr\.sumCandidatePrices\$1\)$`, 1, "sum over the candidates")...)
			rs = append(rs, core.InstrPresent(w, id, "PROV", "disr.sumCandidatePrices", `^return \$0\.Price$`, 1, "of each candidate's Price")...)
			// the requirements the filter is evaluated under are the replacement's own
			rs = append(rs, core.ArgProvenance(w, id, cc, `^call \(\*sched\.NodeClaim\)\.RemoveInstanceTypeOptionsByPriceAndMinValues\(`, 1, `\.NewNodeClaims\[0\]\.NodeClaimTemplate\.Requirements$`, "launch price is evaluated under the replacement's requirements")...)
			return rs
		}},
		// ---- the price filter itself
		MPT{ID: "C06.ORD1", Fn: "@arg:" + rm + `|^call lo\.Filter\[\*cloudprovider\.InstanceType, cloudprovider\.InstanceTypes\]\(|1`, Ret: core.RetTrue, Gates: gates(
			G(`+^\(cloudprovider\.Offerings\)\.WorstLaunchPrice\(\(cloudprovider\.Offerings\)\.Available\(\$0\.Offerings\), \^\$1\) < \^\$2$`),
		)},
		MPT{ID: "C06.ORD1b", Fn: "@arg:" + rm + `|^call lo\.Filter\[\*cloudprovider\.InstanceType, cloudprovider\.InstanceTypes\]\(|1`, Ret: core.RetFalse, Gates: gates(
			G(`-^\(cloudprovider\.Offerings\)\.WorstLaunchPrice\(\(cloudprovider\.Offerings\)\.Available\(\$0\.Offerings\), \^\$1\) < \^\$2$`),
		)},
		MPT{ID: "C06.POST1", Fn: rm, Ret: core.RetNilConst, Gates: gates(
			G(`instr:^store \$0\.NodeClaimTemplate\.InstanceTypeOptions = lo\.Filter\[\*cloudprovider\.InstanceType, cloudprovider\.InstanceTypes\]\(\$0\.NodeClaimTemplate\.InstanceTypeOptions, closure:`),
			G(`+^\(cloudprovider\.InstanceTypes\)\.SatisfiesMinValues\(\$0\.NodeClaimTemplate\.InstanceTypeOptions, \$1\)#2 == nil$`),
		)},

		// ---- spot to spot
		core.Custom{ID: "C06.DOM1", Kind: "DOM", Run: c06SpotToSpot},

		// ---- simulation guard for uninitialized nodes
		POST{ID: "C06.MPT3", Fn: sim, FromLit: `-^lo\.SliceToMap\[\*corev1\.Pod, cr/client\.ObjectKey, any\]\(.*\)\[cr/client\.ObjectKeyFromObject\(.*\)\]#1$`,
			Must: []string{`^mapupdate &local<sched\.Results>\.PodErrors\[.*\] = disr\.NewUninitializedNodeError\(`}},
		core.Custom{ID: "C06.MPT3b", Kind: "MPT", Run: func(w *core.World, id string) []core.Result {
			// every uninitialized existing node enters the pod loop: the `-Initialized` edge reaches the per-pod test
			d := DOM{ID: id, Fn: sim, Sink: `^mapupdate &local<sched\.Results>\.PodErrors\[`, Gates: gates(
				G(`-^\(\*state\.StateNode\)\.Initialized\(&local<sched\.Results>\.ExistingNodes\[.*\]\.StateNode\)$`),
			)}
			rs := d.Check(w)
			// the loop ranges over all existing nodes of the results that are returned
			rs = append(rs, (MPT{ID: id, Fn: sim, Ret: core.RetNilConst, Gates: gates(
				G(`-^\(phi\(-1\|\(phi↺ \+ 1\)\) \+ 1\) < len\(&local<sched\.Results>\.ExistingNodes\)$`),
				G(`+^\(\*sched\.Scheduler\)\.Solve\(.*\)#1 == nil$`),
			)}).Check(w)...)
			return rs
		}},
		// the deleting-node pod keys are those of the deleting nodes' reschedulable pods
		core.Custom{ID: "C06.PROV2", Kind: "PROV", Run: func(w *core.World, id string) []core.Result {
			return core.InstrPresent(w, id, "PROV", sim, `^call lo\.SliceToMap\[\*corev1\.Pod, cr/client\.ObjectKey, any\]\(\(state\.StateNodes\)\.CurrentlyReschedulablePods\(\(state\.StateNodes\)\.Deleting\(`, 1, "exemption set = pods of deleting nodes")
		}},

		// ---- validation
		MPT{ID: "C06.MPT4", Fn: vcmd, Ret: core.RetNilConst, Min: 2, Gates: gates(
			G(`+^len\(\$3\)>=1$`),
			G(`+^`+simv+`#1 == nil$`),
			G(`+^\(sched\.Results\)\.AllNonPendingPodsScheduled\(`+simv+`#0\)$`),
			G(`-^len\(`+simv+`#0\.NewNodeClaims\)>=1$`, `-^len\(`+simv+`#0\.NewNodeClaims\)>=2$`),
			G(`-^len\(`+simv+`#0\.NewNodeClaims\)>=1$`, `+^len\(\$2\.Replacements\)>=1$`),
			G(`+^len\(`+simv+`#0\.NewNodeClaims\)>=1$`, `-^len\(\$2\.Replacements\)>=1$`),
			G(`-^len\(`+simv+`#0\.NewNodeClaims\)>=1$`,
				`+^disr\.instanceTypesAreSubset\(\$2\.Replacements\[0\]\.NodeClaim\.NodeClaimTemplate\.InstanceTypeOptions, disr\.SimulateScheduling\(.*, \$3\)#0\.NewNodeClaims\[0\]\.NodeClaimTemplate\.InstanceTypeOptions\)$`),
		)},
		core.Custom{ID: "C06.MPT4b", Kind: "PROV", Run: func(w *core.World, id string) []core.Result {
			// instanceTypesAreSubset(lhs, rhs): |names(rhs) ∩ names(lhs)| == |names(lhs)|
			return core.InstrPresent(w, id, "PROV", "disr.instanceTypesAreSubset",
				`^return \(len\(\(apim/util/sets\.String\)\.Intersection\(apim/util/sets\.NewString\(…\), apim/util/sets\.NewString\(…\)\)\) == len\(apim/util/sets\.NewString\(lo\.Map\[\*cloudprovider\.InstanceType, string\]\(…\)\)\)\)$`, 1, "subset ⇔ |rhs ∩ lhs| = |lhs|")
		}},
		core.Custom{ID: "C06.MPT4c", Kind: "PROV", Run: c06Subset},

		// ---- multi node search
		core.Custom{ID: "C06.MPT5", Kind: "MPT", Run: c06FirstN},
		MPT{ID: "C06.MPT5b", Fn: "(*disr.Replacement).filterOutSameInstanceType", Ret: core.RetNilConst, Gates: gates(
			G(`+^\(\*sched\.NodeClaim\)\.RemoveInstanceTypeOptionsByPriceAndMinValues\(\$0\.NodeClaim, \$0\.NodeClaim\.NodeClaimTemplate\.Requirements, phi\(`),
		)},

		// ---- emptiness / cost
		core.Custom{ID: "C06.TT1", Kind: "PROV", Run: func(w *core.World, id string) []core.Result {
			rs := core.InstrPresent(w, id, "PROV", "disr.computeRescheduleDisruptionCost", `^call math\.Max\(0, utils/disruption\.EvictionCost\(\$1\[.*\]\)\)$`, 1, "per pod max(0, EvictionCost)")
			rs = append(rs, core.InstrPresent(w, id, "PROV", "disr.computeRescheduleDisruptionCost", `^return phi\(1\|\(phi↺ \+ math\.Max\(0, utils/disruption\.EvictionCost\(…\)\)\)\)$`, 1, "cost = base 1.0 + Σ max(0, cost)")...)
			rs = append(rs, core.InstrPresent(w, id, "PROV", "disr.NewCandidate", `^store &local<disr\.Candidate>\.RescheduleDisruptionCost = disr\.computeRescheduleDisruptionCost\(lo\.Filter\[\*corev1\.Pod, \[\]\*corev1\.Pod\]\(`, 1, "cost is computed over the reschedulable pods")...)
			return rs
		}},
		core.Custom{ID: "C06.TT1b", Kind: "PROV", Run: func(w *core.World, id string) []core.Result {
			f := w.Fn("@arg:disr.NewCandidate|" + `^call lo\.Filter\[\*corev1\.Pod, \[\]\*corev1\.Pod\]\(|1`)
			if f == nil {
				return []core.Result{core.Bad(id, "PROV", "PROV:disr.NewCandidate:reschedulable", "", "reschedulable-pod filter cannot be resolved")}
			}
			if len(w.SitesOr(f, regexp.MustCompile(`^return utils/pod\.IsReschedulable\(\$0\)$`), false, 1)) == 0 {
				return []core.Result{core.Bad(id, "PROV", "PROV:disr.NewCandidate:reschedulable", w.Pos(f.Pos()), "reschedulable pods are no longer exactly those with IsReschedulable")}
			}
			return []core.Result{core.OK(id, "PROV", "PROV:disr.NewCandidate:reschedulable", 1, "Filter(pods, IsReschedulable)")}
		}},
	}
}

// commandReturns classifies the `return <Command>, nil` sites of fn: hasRepl tells whether the returned Command
// literal stores Replacements.
type cmdRet struct {
	sink    core.RetSink
	hasRepl bool
}

func commandReturns(w *core.World, fn *ssa.Function) []cmdRet {
	var out []cmdRet
	for _, s := range w.ReturnSinks(fn, core.RetSpec{Index: -1, Want: "nilconst"}) {
		if len(s.Ret.Results) < 2 {
			continue
		}
		ld, ok := s.Ret.Results[0].(*ssa.UnOp)
		if !ok {
			continue // zero Command
		}
		a, ok := ld.X.(*ssa.Alloc)
		if !ok {
			continue
		}
		has := false
		for _, ref := range *a.Referrers() {
			if fa, ok := ref.(*ssa.FieldAddr); ok && strings.HasSuffix(w.Render(fa), ".Replacements") {
				for _, u := range *fa.Referrers() {
					if _, isStore := u.(*ssa.Store); isStore {
						has = true
					}
				}
			}
		}
		out = append(out, cmdRet{s, has})
	}
	return out
}

// C06.MPT1: command returns of computeConsolidation.
func c06Commands(w *core.World, id string) []core.Result {
	const cc = "(*disr.consolidation).computeConsolidation"
	fn := w.Fn(cc)
	if fn == nil {
		return []core.Result{core.Anchor(id, "MPT", cc)}
	}
	rets := commandReturns(w, fn)
	common := []core.Gate{
		G(`+^` + simSched + `#1 == nil$`),
		G(`+^\(sched\.Results\)\.AllNonPendingPodsScheduled\(` + simSched + `#0\)$`),
	}
	del := []core.Gate{G(`-^len\(` + simSched + `#0\.NewNodeClaims\)>=1$`)}
	opts := `disr\.SimulateScheduling\(.*\)#0\.NewNodeClaims\[0\]\.NodeClaimTemplate\.InstanceTypeOptions`
	hasSpot := `\(\*scheduling\.Requirement\)\.Has\(\(scheduling\.Requirements\)\.Get\(.*\.NewNodeClaims\[0\]\.NodeClaimTemplate\.Requirements, "karpenter\.sh/capacity-type"\), "spot"\)$`
	hasOD := `\(\*scheduling\.Requirement\)\.Has\(\(scheduling\.Requirements\)\.Get\(.*\.NewNodeClaims\[0\]\.NodeClaimTemplate\.Requirements, "karpenter\.sh/capacity-type"\), "on-demand"\)$`
	repl := []core.Gate{
		G(`+^len\(` + simSched + `#0\.NewNodeClaims\) == 1$`),
		G(`+^\(\*sched\.NodeClaim\)\.RemoveInstanceTypeOptionsByPriceAndMinValues\(.*, disr\.sumCandidatePrices\(\$2\)\)#1 == nil$`),
		G(`+^len\(` + opts + `\)>=1$`),
		// not a spot→spot move
		G(`-none:-^\$2\[.*\]\.capacityType == "spot"$`, `-^`+hasSpot),
		// OD → {spot, OD} is pinned to spot
		G(`-^`+hasSpot, `-^`+hasOD, `instr:^call \(scheduling\.Requirements\)\.Add\(.*\.NewNodeClaims\[0\]\.NodeClaimTemplate\.Requirements, &local<\[1\]\*scheduling\.Requirement>\[:\]\)$`),
		// options were price-ordered before filtering
		G(`instr:^store .*\.NewNodeClaims\[0\]\.NodeClaimTemplate\.InstanceTypeOptions = \(cloudprovider\.InstanceTypes\)\.OrderByPrice\(`),
	}
	construct := "MPT:" + cc + ":commands"
	var out []core.Result
	nd, nr := 0, 0
	for _, r := range rets {
		gs := append([]core.Gate{}, common...)
		kind := "delete-only"
		if r.hasRepl {
			gs = append(gs, repl...)
			kind = "replace"
			nr++
		} else {
			gs = append(gs, del...)
			nd++
		}
		for _, g := range gs {
			if !w.RetGuarded(r.sink, g) {
				out = append(out, core.Bad(id, "MPT", construct+"⇐"+g.Text, w.InstrPos(r.sink.Ret), fmt.Sprintf("a %s command is returned without passing {%s}", kind, g.Text)))
			}
		}
	}
	if nd != 1 || nr != 1 {
		out = append(out, core.Bad(id, "MPT", construct, w.Pos(fn.Pos()), fmt.Sprintf("expected one delete-only and one replace command return, found %d and %d (an unclassified way to produce a command)", nd, nr)))
	}
	// the pin is capacity-type In [spot]
	pin := regexp.MustCompile(`^store &local<\[1\]\*scheduling\.Requirement>\[0\] = scheduling\.NewRequirement\("karpenter\.sh/capacity-type", "In", &local<\[1\]string>\[:\]\)$`)
	if len(w.SitesOr(fn, pin, false, 1)) == 0 || len(w.SitesOr(fn, regexp.MustCompile(`^store &local<\[1\]string>\[0\] = "spot"$`), false, 1)) == 0 {
		out = append(out, core.Bad(id, "MPT", construct+":pin", w.Pos(fn.Pos()), "the requirement added for OD→{spot,OD} is no longer capacity-type In [spot]"))
	}
	// the candidates of the command are the ones simulated
	for _, s := range w.Sites(fn, regexp.MustCompile(`^store &local<disr\.Command>\.Candidates = `), false) {
		if w.RenderInstr(s) != "store &local<disr.Command>.Candidates = $2" {
			out = append(out, core.Bad(id, "MPT", construct+":candidates", w.InstrPos(s), "the command's candidates differ from the simulated ones"))
		}
	}
	if len(out) == 0 {
		out = append(out, core.OK(id, "MPT", construct, 2, "delete-only and replace returns guarded by their conditions"))
	}
	return out
}

// C06.DOM1: every command produced by the spot-to-spot path.
func c06SpotToSpot(w *core.World, id string) []core.Result {
	const s2s = "(*disr.consolidation).computeSpotToSpotConsolidation"
	fn := w.Fn(s2s)
	if fn == nil {
		return []core.Result{core.Anchor(id, "DOM", s2s)}
	}
	rets := commandReturns(w, fn)
	opts := `\$3\.NewNodeClaims\[0\]\.NodeClaimTemplate\.InstanceTypeOptions`
	gs := []core.Gate{
		G(`+^operator/options\.FromContext\(\)\.FeatureGates\.SpotToSpotConsolidation$`),
		G(`instr:^call \(scheduling\.Requirements\)\.Add\(\$3\.NewNodeClaims\[0\]\.NodeClaimTemplate\.Requirements, &local<\[1\]\*scheduling\.Requirement>\[:\]\)$`),
		G(`+^\(\*sched\.NodeClaim\)\.RemoveInstanceTypeOptionsByPriceAndMinValues\(\$3\.NewNodeClaims\[0\], \$3\.NewNodeClaims\[0\]\.NodeClaimTemplate\.Requirements, \$4\)#1 == nil$`),
		G(`+^len\(` + opts + `\)>=1$`),
		// single node: at least 15 cheaper options, and truncation
		G(`+^len\(\$2\)>=2$`, `+^len\(`+opts+`\)>=15$`),
		G(`+^len\(\$2\)>=2$`, `instr:^store `+opts+` = lo\.Slice\[\*cloudprovider\.InstanceType, cloudprovider\.InstanceTypes\]\(`+opts+`, 0, (15|lo\.Max\[int\]\(&local<\[2\]int>\[:\]\)|phi\(15\|lo\.Max\[int\]\(.*\)\))\)$`),
	}
	construct := "DOM:" + s2s
	var out []core.Result
	if len(rets) < 2 {
		out = append(out, core.Bad(id, "DOM", construct, w.Pos(fn.Pos()), fmt.Sprintf("vacuous: %d command returns, 2 confirmed by hand", len(rets))))
	}
	for _, r := range rets {
		if !r.hasRepl {
			out = append(out, core.Bad(id, "DOM", construct, w.InstrPos(r.sink.Ret), "spot-to-spot path returns a command without replacement"))
		}
		for _, g := range gs {
			if !w.RetGuarded(r.sink, g) {
				out = append(out, core.Bad(id, "DOM", construct+"⇐"+g.Text, w.InstrPos(r.sink.Ret), "a spot-to-spot command is returned without {"+g.Text+"}"))
			}
		}
	}
	// the pin
	if len(w.SitesOr(fn, regexp.MustCompile(`^store &local<\[1\]\*scheduling\.Requirement>\[0\] = scheduling\.NewRequirement\("karpenter\.sh/capacity-type", "In", &local<\[1\]string>\[:\]\)$`), false, 1)) == 0 ||
		len(w.SitesOr(fn, regexp.MustCompile(`^store &local<\[1\]string>\[0\] = "spot"$`), false, 1)) == 0 {
		out = append(out, core.Bad(id, "DOM", construct+":pin", w.Pos(fn.Pos()), "the spot-to-spot replacement is no longer pinned to capacity-type In [spot]"))
	}
	// the max operands: 15 and the minValues need
	if len(w.SitesOr(fn, regexp.MustCompile(`^store &local<\[2\]int>\[0\] = 15$`), false, 1)) == 0 {
		out = append(out, core.Bad(id, "DOM", construct+":cap", w.Pos(fn.Pos()), "the launch list cap is no longer max(15, minValues need)"))
	}
	if len(out) == 0 {
		out = append(out, core.OK(id, "DOM", construct, len(rets), "feature gate, spot pin, price filter, ≥15 options and truncation for single-node"))
	}
	return out
}

// C06.MPT4c: instanceTypesAreSubset is called as (command's options, simulated options) and maps both by Name.
func c06Subset(w *core.World, id string) []core.Result {
	fn := w.Fn("disr.instanceTypesAreSubset")
	if fn == nil {
		return []core.Result{core.Anchor(id, "PROV", "disr.instanceTypesAreSubset")}
	}
	// Intersection(names($1), names($0)) compared with len(names($0))
	inter := w.Sites(fn, regexp.MustCompile(`^call \(apim/util/sets\.String\)\.Intersection\(apim/util/sets\.NewString\(lo\.Map\[\*cloudprovider\.InstanceType, string\]\(\$1, .*\)\), apim/util/sets\.NewString\(lo\.Map\[\*cloudprovider\.InstanceType, string\]\(\$0, `), false)
	ln := w.Sites(fn, regexp.MustCompile(`^call len\(apim/util/sets\.NewString\(lo\.Map\[\*cloudprovider\.InstanceType, string\]\(\$0, `), false)
	if len(inter) == 0 || len(ln) == 0 {
		return []core.Result{core.Bad(id, "PROV", "PROV:disr.instanceTypesAreSubset", w.Pos(fn.Pos()), "the subset test no longer compares |names(rhs) ∩ names(lhs)| with |names(lhs)|")}
	}
	for _, f := range fn.AnonFuncs {
		if len(w.SitesOr(f, regexp.MustCompile(`^return \$0\.Name$`), false, 1)) == 0 {
			return []core.Result{core.Bad(id, "PROV", "PROV:disr.instanceTypesAreSubset", w.Pos(f.Pos()), "instance types are no longer compared by Name")}
		}
	}
	return []core.Result{core.OK(id, "PROV", "PROV:disr.instanceTypesAreSubset", 2, "subset by instance type name")}
}

// C06.MPT5: in the multi-node binary search a command is saved only when validDecision, and for a replace decision
// validDecision becomes true only after filterOutSameInstanceType returned no error and left options.
func c06FirstN(w *core.World, id string) []core.Result {
	const fname = "(*disr.MultiNodeConsolidation).firstNConsolidationOption"
	fn := w.Fn(fname)
	if fn == nil {
		return []core.Result{core.Anchor(id, "MPT", fname)}
	}
	construct := "MPT:" + fname
	var out []core.Result
	// the "true" constant edges of the validDecision phis
	n := 0
	g1 := G(`+^\(\*disr\.Replacement\)\.filterOutSameInstanceType\(.*\)#1 == nil$`)
	g2 := G(`+^len\(.*\.Replacements\[0\]\.NodeClaim\.NodeClaimTemplate\.InstanceTypeOptions\)>=1$`)
	g3 := G(`+^\(disr\.Command\)\.Decision\(.*\) == disr\.ReplaceDecision$`)
	for _, b := range fn.Blocks {
		for _, in := range b.Instrs {
			phi, ok := in.(*ssa.Phi)
			if !ok || phi.Type().String() != "bool" {
				continue
			}
			for i, e := range phi.Edges {
				if c, ok := e.(*ssa.Const); !ok || c.Value == nil || c.Value.String() != "true" {
					continue
				}
				n++
				pred := b.Preds[i]
				for _, g := range []core.Gate{g1, g2, g3} {
					if core.EdgeReachable(pred, b, w.GateCut(fn, g)) {
						out = append(out, core.Bad(id, "MPT", construct+"⇐"+g.Text, w.InstrPos(phi), "a decision is declared valid without {"+g.Text+"}"))
					}
				}
			}
		}
	}
	if n == 0 {
		out = append(out, core.Bad(id, "MPT", construct, w.Pos(fn.Pos()), "vacuous: the validDecision flag was not found (idiom not recognised)"))
	}
	// the save is guarded by the flag, whose only non-constant source is "the command is a delete decision" (nothing to launch):
	// a replace decision becomes valid through the `true` edges judged above only
	d := DOM{ID: id, Fn: fname, Sink: `^store &local<disr\.Command> = \(\*disr\.consolidation\)\.computeConsolidation\(.*\)#0$`, Shallow: true, Min: 1, Gates: gates(G(`+^phi\(false\|phi\(true\|\((\(disr\.Command\)\.Decision\(.*\) == disr\.DeleteDecision|disr\.DeleteDecision == \(disr\.Command\)\.Decision\(.*\))\)\)\)$`))}
	for _, r := range d.Check(w) {
		if r.Status != core.Discharged {
			out = append(out, r)
		}
	}
	// the command evaluated is computeConsolidation of the prefix [0:mid+1]
	rs := core.InstrPresent(w, id, "MPT", fname, `^call \(\*disr\.consolidation\)\.computeConsolidation\(\$0\.consolidation, \$2\[0:\(.* \+ 1\)\]\)$`, 1, "each probe evaluates a prefix of the budget-filtered candidates")
	for _, r := range rs {
		if r.Status != core.Discharged {
			out = append(out, r)
		}
	}
	if len(out) == 0 {
		out = append(out, core.OK(id, "MPT", construct, n, "replace decisions valid only after filterOutSameInstanceType ok ∧ options left; saved only when valid"))
	}
	return out
}

// ---------------------------------------------------------------------------------------------------------------------
// Triage of the mutation sweep: the facts clauses (7)-(11) of the Explanation rest on.

func tc06Bad(rs []core.Result) []core.Result {
	var out []core.Result
	for _, r := range rs {
		if r.Status != core.Discharged {
			out = append(out, r)
		}
	}
	return out
}

// c06SimulationInputs — what SimulateScheduling hands to the scheduler. "Every reschedulable pod of the removed nodes has
// a feasible home on the REMAINING nodes" is only what the simulation shows if (a) the removed nodes are not among the
// nodes it may use, (b) the pods of every removed node are among the pods it places, together with the pods that are
// already on their way to the same capacity (pods of deleting nodes, pending pods), and (c) a listing that failed is not
// read as "no such pods".
func c06SimulationInputs() []Rule {
	const sim = "disr.SimulateScheduling"
	const newSched = `^call \(\*prov\.Provisioner\)\.NewScheduler\(`
	const solve = `^call \(\*sched\.Scheduler\)\.Solve\(`
	nodeFilter := `^call lo\.Filter\[\*state\.StateNode, state\.StateNodes\]\(`
	return []Rule{
		// (a) usable nodes = active nodes whose name is not a candidate's
		core.Custom{ID: "C06.SIM1", Kind: "PROV", Run: func(w *core.World, id string) []core.Result {
			rs := core.ArgProvenance(w, id, sim, newSched, 3,
				`^lo\.Filter\[\*state\.StateNode, state\.StateNodes\]\(\(state\.StateNodes\)\.Active\(\(\*state\.Cluster\)\.DeepCopyNodes\(\$2\)\), [a-z]+:[^ ]*\)$`,
				"the nodes the simulation may use are the active nodes that pass the not-a-candidate filter (kept when the predicate holds)")
			fn := w.Fn(sim)
			if fn == nil {
				return append(rs, core.Anchor(id, "PROV", sim))
			}
			// the filter (and the name set it tests) may live in an extracted helper: judge it where it is, in SimulateScheduling's terms
			found := false
			closureOf := func(f *ssa.Function, callRe string) *ssa.Function {
				for _, s := range w.Sites(f, regexp.MustCompile(callRe), true) {
					if ci, ok := s.(ssa.CallInstruction); ok {
						if args := core.CallArgs(ci.Common()); len(args) >= 2 {
							switch x := args[1].(type) {
							case *ssa.MakeClosure:
								if g, ok := x.Fn.(*ssa.Function); ok {
									return g
								}
							case *ssa.Function:
								return x
							}
						}
					}
				}
				return nil
			}
			has := `\(apim/util/sets\.String\)\.Has\(.*, \(\*state\.StateNode\)\.Name\(\$0\)\)`
			w.WithHelpers(fn, func(f *ssa.Function, _ ssa.Instruction) {
				if found {
					return
				}
				p := closureOf(f, nodeFilter)
				if p == nil {
					return
				}
				found = true
				pred := core.FnName(p)
				rs = append(rs, (MPT{ID: id, Fn: pred, Ret: core.RetTrue, Gates: gates(G(`-^` + has + `$`)), Note: "a node is usable only if its name is not a candidate's"}).Check(w)...)
				rs = append(rs, core.ArgProvenance(w, id, pred, `^call \(apim/util/sets\.String\)\.Has\(`, 0,
					`^\^?apim/util/sets\.NewString\(lo\.Map\[\*disr\.Candidate, string\]\(\$7, [a-z]+:[^ ]*\)\)$`, "the excluded names are computed from the candidates handed in")...)
			})
			if !found {
				rs = append(rs, core.Bad(id, "PROV", "PROV:"+sim+":node-filter", w.Pos(fn.Pos()), "the predicate that keeps the candidates out of the usable nodes cannot be resolved"))
			}
			if m := closureOf(fn, `^call lo\.Map\[\*disr\.Candidate, string\]\(\$7, `); m != nil {
				rs = append(rs, core.InstrPresent(w, id, "PROV", core.FnName(m), `^return \(\*state\.StateNode\)\.Name\(\$0\.StateNode\)$`, 1, "…as the candidates' node names")...)
			} else {
				rs = append(rs, core.Bad(id, "PROV", "PROV:"+sim+":names", w.Pos(fn.Pos()), "the mapping of the candidates to their node names cannot be resolved"))
			}
			return tc06Explain(rs, "the simulation must not be allowed to place pods on the candidates themselves: they are the nodes being removed")
		}},
		// (b) the pods
		core.Custom{ID: "C06.SIM2", Kind: "PROV", Run: func(w *core.World, id string) []core.Result {
			return c06SimPods(w, id, sim, newSched, solve)
		}},
		// (c) failed listings
		MPT{ID: "C06.SIM3", Fn: sim, Ret: core.RetNilConst, Gates: gates(
			G(`+^\(\*prov\.Provisioner\)\.GetPendingPods\(\$3\)#1 == nil$`),
			G(`+^utils/pdb\.NewLimits\(\$1\)#1 == nil$`),
			G(`+^\(state\.StateNodes\)\.CurrentlyReschedulablePods\(\(state\.StateNodes\)\.Deleting\(.*\), .*\)#1 == nil$`),
			G(`+^\(\*prov\.Provisioner\)\.NewScheduler\(.*\)#1 == nil$`),
		), Note: "a failed listing of pending pods / PDBs / pods of deleting nodes is not 'none'"},
	}
}

func c06SimPods(w *core.World, id, sim, newSched, solve string) []core.Result {
	fn := w.Fn(sim)
	if fn == nil {
		return []core.Result{core.Anchor(id, "PROV", sim)}
	}
	construct := "PROV:" + sim + ":pods"
	type want struct {
		re   *regexp.Regexp
		what string
	}
	elem := `\$7\[\(phi\(-1\|\(phi↺ \+ 1\)\) \+ 1\)\]\.reschedulablePods`
	wants := []want{
		{regexp.MustCompile(`^(lo\.Filter\[\*corev1\.Pod, \[\]\*corev1\.Pod\]\(` + elem + `, [a-z]+:[^ ]*\)|` + elem + `)$`), "the reschedulable pods of each candidate (at most filtered, kept when the predicate holds)"},
		{regexp.MustCompile(`^\(state\.StateNodes\)\.CurrentlyReschedulablePods\(.*\)#0$`), "the reschedulable pods of the nodes that are already deleting"},
		{regexp.MustCompile(`^\(\*prov\.Provisioner\)\.GetPendingPods\(\$3\)#0$`), "the pending pods"},
	}
	var out []core.Result
	var candLeaf ssa.Value
	nsites := 0
	for _, callRe := range []string{newSched, solve} {
		sites := w.SitesOr(fn, regexp.MustCompile(callRe), true, 1)
		if len(sites) == 0 {
			out = append(out, core.Bad(id, "PROV", construct, w.Pos(fn.Pos()), "vacuous: no call matching `"+callRe+"` in "+sim))
			continue
		}
		for _, s := range sites {
			ci, ok := s.(ssa.CallInstruction)
			if !ok {
				continue
			}
			args := core.CallArgs(ci.Common())
			if len(args) < 3 {
				out = append(out, core.Bad(id, "PROV", construct, w.InstrPos(s), "the call has no pod list argument"))
				continue
			}
			nsites++
			leaves := w.SliceSources(s.Parent(), args[2])
			for _, wt := range wants {
				found := false
				for _, l := range leaves {
					if !l.Elem && core.MatchRe(wt.re, l.Text) {
						found = true
						if wt.re == wants[0].re {
							candLeaf = l.Val
						}
					}
				}
				if !found {
					var got []string
					for _, l := range leaves {
						got = append(got, clipStr(l.Text, 90))
					}
					out = append(out, core.Bad(id, "PROV", construct+"∌"+wt.what, w.InstrPos(s),
						fmt.Sprintf("the pod list handed to `%s` does not contain %s; it is made of {%s} — pods the simulation does not place are pods it promises nothing about, and pods already heading for the same capacity are not accounted for", clipStr(w.RenderInstr(s), 60), wt.what, strings.Join(got, " ; "))))
				}
			}
		}
	}
	// …"deleting" = the deleting nodes of the snapshot of this cluster
	out = append(out, tc06Bad(core.ArgProvenance(w, id, sim, `^call \(state\.StateNodes\)\.CurrentlyReschedulablePods\(`, 0, `^\(state\.StateNodes\)\.Deleting\(\(\*state\.Cluster\)\.DeepCopyNodes\(\$2\)\)$`, "the pods already on their way are those of the cluster's deleting nodes"))...)
	// every candidate contributes: an iteration of the loop over the candidates completes only after its pods were appended
	if candLeaf != nil {
		host := fn
		if in, ok := candLeaf.(ssa.Instruction); ok && in.Parent() != nil {
			host = core.RootFn(in.Parent())
		}
		it := ITER{ID: id, Fn: core.FnName(host), Loop: `+^\(phi\(-1\|\(phi↺ \+ 1\)\) \+ 1\) < len\(\$\d+\)$`,
			Gates: gates(G(`instr:^call append\(.*\.reschedulablePods`)), Note: "no candidate is passed over"}
		for _, r := range it.Check(w) {
			if r.Status != core.Discharged {
				r.Msg += " — the pods of EVERY candidate must enter the simulation"
				out = append(out, r)
			}
		}
		// …and the walk over the candidates is left only when it is exhausted (no `break` on the way)
		if host == core.RootFn(fn) {
			exh := G(`-^\(phi\(-1\|\(phi↺ \+ 1\)\) \+ 1\) < len\(\$7\)$`)
			for _, callRe := range []string{newSched, solve} {
				for _, s := range w.Sites(fn, regexp.MustCompile(callRe), true) {
					if !w.GuardedBy(s, exh) {
						out = append(out, core.Bad(id, "PROV", construct+"⇐"+exh.Text, w.InstrPos(s), "`"+clipStr(w.RenderInstr(s), 60)+"` is reachable before the walk over the candidates is exhausted — the pods of EVERY candidate must enter the simulation"))
					}
				}
			}
		} else {
			exh := G(`-^\(phi\(-1\|\(phi↺ \+ 1\)\) \+ 1\) < len\(\$\d+\)$`)
			for _, sk := range w.ReturnSinks(host, core.RetAny) {
				if !w.RetGuarded(sk, exh) {
					out = append(out, core.Bad(id, "PROV", construct+"⇐"+exh.Text, w.InstrPos(sk.Ret), core.FnName(host)+" can return before its walk over the candidates is exhausted — the pods of EVERY candidate must enter the simulation"))
				}
			}
		}
		// a pod of a candidate is left out only when it is not currently reschedulable (blocked by a PDB: it will not be evicted)
		if c, ok := candLeaf.(*ssa.Call); ok && len(c.Call.Args) == 2 {
			var pred *ssa.Function
			switch x := c.Call.Args[1].(type) {
			case *ssa.MakeClosure:
				pred, _ = x.Fn.(*ssa.Function)
			case *ssa.Function:
				pred = x
			}
			if pred == nil {
				out = append(out, core.Bad(id, "PROV", construct+":filter", w.InstrPos(c), "the predicate filtering a candidate's pods cannot be resolved"))
			} else {
				cur := G(`-^\(utils/pdb\.Limits\)\.IsCurrentlyReschedulable\(.*, \$0, .*\)$`)
				sinks := w.ReturnSinks(pred, core.RetFalse)
				for _, sk := range sinks {
					if !w.RetGuarded(sk, cur) {
						out = append(out, core.Bad(id, "PROV", construct+":filter", w.InstrPos(sk.Ret), "a reschedulable pod of a candidate can be left out of the simulation although pdbs.IsCurrentlyReschedulable holds for it"))
					}
				}
			}
		}
	}
	if len(out) == 0 {
		return []core.Result{core.OK(id, "PROV", construct, nsites, "NewScheduler and Solve get candidate pods ∪ pods of deleting nodes ∪ pending pods; every candidate contributes")}
	}
	return out
}

// c06PriceCeiling — where the number the replacement must undercut comes from.
func c06PriceCeiling() []Rule {
	const rnp = "disr.resolveNodePrice"
	label := func(k string) string { return `\(\*state\.StateNode\)\.Labels\(\$0\)\["` + k + `"\]` }
	return []Rule{
		core.Custom{ID: "C06.PRICE1", Kind: "PROV", Run: func(w *core.World, id string) []core.Result {
			fn := w.Fn(rnp)
			if fn == nil {
				return []core.Result{core.Anchor(id, "PROV", rnp)}
			}
			construct := "PROV:" + rnp
			var out []core.Result
			n := 0
			for _, s := range w.ReturnSinks(fn, core.RetAny) {
				r := w.RenderD(s.Ret.Results[0], 9)
				switch {
				case r == "0":
				case regexp.MustCompile(`^\(\*cloudprovider\.InstanceType\)\.OfferingPrice\(\$1, .*\)#0$`).MatchString(r):
					n++
					if !w.RetGuarded(s, G(`+^\(\*cloudprovider\.InstanceType\)\.OfferingPrice\(\$1, .*\)#1$`)) {
						out = append(out, core.Bad(id, "PROV", construct, w.InstrPos(s.Ret), "resolveNodePrice returns OfferingPrice's number without OfferingPrice having found the offering"))
					}
				default:
					out = append(out, core.Bad(id, "PROV", construct, w.InstrPos(s.Ret), "resolveNodePrice returns `"+clipStr(r, 120)+"`: neither 0 (unknown: nothing can undercut it) nor the price OfferingPrice found for the node's own offering"))
				}
			}
			if n == 0 {
				out = append(out, core.Bad(id, "PROV", construct, w.Pos(fn.Pos()), "vacuous: resolveNodePrice never returns OfferingPrice(...)#0"))
			}
			out = append(out, tc06Bad(core.ArgProvenance(w, id, rnp, `^call \(\*cloudprovider\.InstanceType\)\.OfferingPrice\(`, 1, `^`+label(`topology\.kubernetes\.io/zone`)+`$`, "the offering is looked up under the node's zone label"))...)
			out = append(out, tc06Bad(core.ArgProvenance(w, id, rnp, `^call \(\*cloudprovider\.InstanceType\)\.OfferingPrice\(`, 2, `^`+label(`karpenter\.sh/capacity-type`)+`$`, "…and the node's capacity-type label"))...)
			if len(out) == 0 {
				return []core.Result{core.OK(id, "PROV", construct, n, "0 or the price of the offering with the node's zone and capacity type")}
			}
			return tc06Explain(out, "the price of a candidate is the ceiling every replacement option must stay below: it has to be the price of the offering the node actually runs on (or 0)")
		}},
		core.Custom{ID: "C06.PRICE2", Kind: "PROV", Run: func(w *core.World, id string) []core.Result {
			it := `\$7\[\(\*state\.StateNode\)\.Labels\(.*\)\["karpenter\.sh/nodepool"\]\]\[\(\*state\.StateNode\)\.Labels\(.*\)\["node\.kubernetes\.io/instance-type"\]\]`
			rs := core.InstrPresent(w, id, "PROV", "disr.NewCandidate", `^store &local<disr\.Candidate>\.Price = disr\.resolveNodePrice\(\$4, `+it+`\)$`, 1, "Candidate.Price is the resolved price of the node on the instance type its label names in its own pool")
			rs = append(rs, core.InstrPresent(w, id, "PROV", "disr.NewCandidate", `^store &local<disr\.Candidate>\.capacityType = \(\*state\.StateNode\)\.Labels\(\$4\)\["karpenter\.sh/capacity-type"\]$`, 1, "Candidate.capacityType (spot-to-spot routing) is the node's capacity-type label")...)
			return rs
		}},
	}
}

// c06Emptiness — "deleted as empty only if no reschedulable pod has a positive eviction cost".
func c06Emptiness() []Rule {
	const (
		ecc = "(*disr.Emptiness).ComputeCommands"
		evc = "(*disr.EmptinessValidator).validateCandidates"
		gct = "disr.GetCandidatesWithTotals"
	)
	candFilter := `^call lo\.Filter\[\*disr\.Candidate, \[\]\*disr\.Candidate\]\(`
	return []Rule{
		DOM{ID: "C06.EMP1", Fn: ecc, Shallow: true, Sink: `^call append\(`, Gates: gates(G(`+^\(\*disr\.Candidate\)\.IsEmpty\(`)),
			Note: "a candidate is added to the emptiness command only if it IsEmpty"},
		core.Custom{ID: "C06.EMP1b", Kind: "PROV", Run: func(w *core.World, id string) []core.Result {
			return core.InstrPresent(w, id, "PROV", ecc, `^store &local<disr\.Command>\.Candidates = phi\(makeslice<\[\]\*disr\.Candidate>\|`, 1, "the emptiness command carries the list built under the IsEmpty test")
		}},
		// IsEmpty ⇔ RescheduleDisruptionCost ≤ base (1.0); the cost is 1 + Σ max(0, EvictionCost) (C06.TT1)
		MPT{ID: "C06.EMP2", Fn: "(*disr.Candidate).IsEmpty", Ret: core.RetTrue, Gates: gates(G(`-^1 < \$0\.RescheduleDisruptionCost$`)), Note: "empty ⇒ no positive eviction cost was added to the base"},
		// the re-validation replaces the candidates by fresh ones that passed Emptiness.ShouldDisrupt
		MPT{ID: "C06.EMP3", Fn: "(*disr.Emptiness).ShouldDisrupt", Ret: core.RetTrue, Gates: gates(G(`+^\(\*disr\.Candidate\)\.IsEmpty\(\$2\)$`)), Note: "the emptiness filter implies IsEmpty"},
		core.Custom{ID: "C06.EMP3b", Kind: "PROV", Run: func(w *core.World, id string) []core.Result {
			rs := core.InstrPresent(w, id, "PROV", "disr.NewEmptinessValidator", `^store &local<disr\.EmptinessValidator>\.filter = closure:\(\*disr\.Emptiness\)\.ShouldDisrupt\$bound$`, 1, "the emptiness validator filters with Emptiness.ShouldDisrupt")
			rs = append(rs, core.ArgProvenance(w, id, evc, `^call disr\.GetCandidates\(`, 6, `^\$0\.filter$`, "the validator's fresh candidates are filtered with its filter")...)
			rs = append(rs, core.ArgProvenance(w, id, "disr.GetCandidates", `^call disr\.GetCandidatesWithTotals\(`, 6, `^\$6$`, "GetCandidates hands the filter on")...)
			rs = append(rs, core.InstrPresent(w, id, "PROV", "disr.GetCandidates", `^return disr\.GetCandidatesWithTotals\(.*\)#0, disr\.GetCandidatesWithTotals\(.*\)#2$`, 1, "…and returns the filtered list")...)
			return rs
		}},
		// what the emptiness validator hands back are current representations (fresh GetCandidates), never the stale proposal
		core.Custom{ID: "C06.EMP5", Kind: "PROV", Run: func(w *core.World, id string) []core.Result {
			fn := w.Fn(evc)
			if fn == nil {
				return []core.Result{core.Anchor(id, "PROV", evc)}
			}
			construct := "PROV:" + evc + ":fresh"
			fresh := regexp.MustCompile(`^(lo\.Filter\[\*disr\.Candidate, \[\]\*disr\.Candidate\]\()?disr\.mapCandidates\(\$2, disr\.GetCandidates\(.*\)#0\)(, [a-z]+:[^ ]*\))?$`)
			var out []core.Result
			sinks := w.ReturnSinks(fn, core.RetNilConst)
			if len(sinks) == 0 {
				out = append(out, core.Bad(id, "PROV", construct, w.Pos(fn.Pos()), "vacuous: no success return"))
			}
			for _, s := range sinks {
				if r := w.RenderD(s.Ret.Results[0], 9); !fresh.MatchString(r) {
					out = append(out, core.Bad(id, "PROV", construct, w.InstrPos(s.Ret), "emptiness validation hands back `"+clipStr(r, 120)+"`: not (a filtered part of) mapCandidates(proposed, GetCandidates(...)) — a node that received a pod during the validation delay would still be deleted as empty"))
				}
				if !w.RetGuarded(s, G(`+^disr\.GetCandidates\(.*\)#1 == nil$`)) {
					out = append(out, core.Bad(id, "PROV", construct, w.InstrPos(s.Ret), "emptiness validation succeeds although listing the current candidates failed"))
				}
			}
			if len(out) == 0 {
				return []core.Result{core.OK(id, "PROV", construct, len(sinks), "validated ⊆ mapCandidates(proposed, fresh candidates)")}
			}
			return out
		}},
		core.Custom{ID: "C06.EMP4", Kind: "PROV", Run: func(w *core.World, id string) []core.Result {
			fn := w.Fn(gct)
			if fn == nil {
				return []core.Result{core.Anchor(id, "PROV", gct)}
			}
			construct := "PROV:" + gct + ":filtered"
			var out []core.Result
			sinks := w.ReturnSinks(fn, core.RetNilConst)
			if len(sinks) == 0 {
				out = append(out, core.Bad(id, "PROV", construct, w.Pos(fn.Pos()), "vacuous: no success return"))
			}
			for _, s := range sinks {
				if r := w.RenderD(s.Ret.Results[0], 9); !regexp.MustCompile(`^lo\.Filter\[\*disr\.Candidate, \[\]\*disr\.Candidate\]\(.*, [a-z]+:[^ ]*\)$`).MatchString(r) {
					out = append(out, core.Bad(id, "PROV", construct, w.InstrPos(s.Ret), "the candidates returned are `"+clipStr(r, 120)+"`: not the list filtered (kept when the predicate holds) by the method's ShouldDisrupt"))
				}
			}
			out = append(out, tc06Bad((MPT{ID: id, Fn: "@arg:" + gct + "|" + candFilter + "|1", Ret: core.RetTrue, Gates: gates(G(`+^dyn:\^?\$6\(\$0\)$`)), Note: "kept ⇒ shouldDisrupt(candidate)"}).Check(w))...)
			if len(out) == 0 {
				return []core.Result{core.OK(id, "PROV", construct, len(sinks), "candidates = Filter(all, shouldDisrupt)")}
			}
			return tc06Explain(out, "every candidate a method (or its validator) works on must have passed that method's ShouldDisrupt: for Emptiness this is the only place the re-validated nodes are tested for IsEmpty")
		}},
	}
}

// c06ValidationChain — the re-simulation decides: nothing between validateCommand and the command leaving ComputeCommands
// may turn a failed validation into a success.
func c06ValidationChain() []Rule {
	const (
		isv = "(*disr.ConsolidationValidator).isValid"
		cvc = "(*disr.ConsolidationValidator).validateCandidates"
	)
	vc := `\(\*disr\.ConsolidationValidator\)\.validateCandidates\(\$0, \$2\.Candidates\)`
	oneCmd := core.RetSpec{Index: -1, Want: "nilconst", Also: `^return &local<\[1\]disr\.Command>\[:\], nil$`}
	validated := gates(G(`+^iface:\(disr\.Validator\)\.Validate\(\$0\.validator, .*\)#1 == nil$`))
	return []Rule{
		MPT{ID: "C06.VAL1", Fn: isv, Ret: core.RetOK, Gates: gates(
			G(`+^`+vc+`#1 == nil$`),
			G(`+^\(\*disr\.validation\)\.validateCommand\(\$0\.validation, \$2, `+vc+`#0\) == nil$`),
		), Note: "valid ⇒ the command was re-simulated on its freshly validated candidates and passed"},
		MPT{ID: "C06.VAL2", Fn: "(*disr.ConsolidationValidator).Validate", Ret: core.RetNilConst, Gates: gates(
			G(`+^\(\*disr\.ConsolidationValidator\)\.isValid\(\$0, \$2, \$3\) == nil$`),
		)},
		MPT{ID: "C06.VAL3", Fn: "(*disr.SingleNodeConsolidation).ComputeCommands", Ret: oneCmd, Gates: validated, Note: "a single-node command leaves only after Validate succeeded"},
		MPT{ID: "C06.VAL3b", Fn: "(*disr.MultiNodeConsolidation).ComputeCommands", Ret: oneCmd, Gates: validated, Note: "a multi-node command leaves only after Validate succeeded"},
		// the candidates that are re-simulated are the proposed ones (by name), all of them
		core.Custom{ID: "C06.VAL4", Kind: "PROV", Run: func(w *core.World, id string) []core.Result {
			const mc = "disr.mapCandidates"
			rs := tc06OnlyReturn(w, id, mc, `^return lo\.Filter\[\*disr\.Candidate, \[\]\*disr\.Candidate\]\(\$1, [a-z]+:[^ ]*\)$`, "mapCandidates is the current candidates filtered (kept when the predicate holds)")
			pred := "@arg:" + mc + `|^call lo\.Filter\[\*disr\.Candidate, \[\]\*disr\.Candidate\]\(|1`
			has := `\(apim/util/sets\.String\)\.Has\(.*, \(\*state\.StateNode\)\.Name\(\$0\.StateNode\)\)`
			rs = append(rs, (MPT{ID: id, Fn: pred, Ret: core.RetTrue, Gates: gates(G(`+^` + has + `$`)), Note: "kept ⇒ proposed"}).Check(w)...)
			rs = append(rs, (MPT{ID: id, Fn: pred, Ret: core.RetFalse, Gates: gates(G(`-^` + has + `$`)), Note: "dropped ⇒ not proposed"}).Check(w)...)
			rs = append(rs, core.ArgProvenance(w, id, pred, `^call \(apim/util/sets\.String\)\.Has\(`, 0, `^\^?apim/util/sets\.NewString\(lo\.Map\[\*disr\.Candidate, string\]\(\$0, [a-z]+:[^ ]*\)\)$`, "the names are those of the proposed candidates")...)
			rs = append(rs, core.InstrPresent(w, id, "PROV", "@arg:"+mc+`|^call lo\.Map\[\*disr\.Candidate, string\]\(\$0, |1`, `^return \(\*state\.StateNode\)\.Name\(\$0\.StateNode\)$`, 1, "…their node names")...)
			return tc06Explain(rs, "validation re-simulates and returns the CURRENT representation of exactly the proposed candidates")
		}},
		core.Custom{ID: "C06.VAL5", Kind: "MPT", Run: func(w *core.World, id string) []core.Result {
			fn := w.Fn(cvc)
			if fn == nil {
				return []core.Result{core.Anchor(id, "MPT", cvc)}
			}
			construct := "MPT:" + cvc + "⇒nilconst"
			mapped := `disr\.mapCandidates\(\$2, disr\.GetCandidates\(.*\)#0\)`
			all := G(`+^len\(\$2\) == len\(` + mapped + `\)$`)
			var out []core.Result
			sinks := w.ReturnSinks(fn, core.RetNilConst)
			if len(sinks) == 0 {
				out = append(out, core.Bad(id, "MPT", construct, w.Pos(fn.Pos()), "vacuous: no success return"))
			}
			for _, s := range sinks {
				if !w.RetGuarded(s, all) {
					out = append(out, core.Bad(id, "MPT", construct+"⇐"+all.Text, w.InstrPos(s.Ret), "candidates validate although some proposed candidate has no current representation"))
				}
				if r := w.RenderD(s.Ret.Results[0], 9); !regexp.MustCompile(`^` + mapped + `$`).MatchString(r) {
					out = append(out, core.Bad(id, "MPT", construct, w.InstrPos(s.Ret), "the validated candidates are `"+clipStr(r, 120)+"`, not mapCandidates(proposed, GetCandidates(...))"))
				}
			}
			if len(out) == 0 {
				return []core.Result{core.OK(id, "MPT", construct, len(sinks), "validated = mapCandidates(proposed, fresh), none missing")}
			}
			return out
		}},
	}
}
