package props

import (
	"fmt"
	"regexp"
	"strings"

	"kverif/core"

	"golang.org/x/tools/go/ssa"
)

func init() {
	core.Register(&core.Property{
		ID:    "C06",
		Title: "Consolidation keeps pods schedulable and strictly lowers cost",
		Explanation: "Decides: (1) computeConsolidation returns a non-empty Command only after SimulateScheduling succeeded and AllNonPendingPodsScheduled; a delete-only command only when the simulation needs no new NodeClaim; a replace command only with exactly one new NodeClaim, a successful price/minValues filter against sumCandidatePrices(candidates) and a non-empty option list; " +
			"(2) the price filter keeps an instance type iff WorstLaunchPrice(available offerings, reqs) < maxPrice (strict) and is followed by SatisfiesMinValues; " +
			"(3) all-spot candidates whose replacement may be spot take the spot-to-spot path, which requires the feature gate, pins capacity-type=spot, and for a single node ≥15 cheaper options (then truncates to max(15, minValues need)); on the regular path a request admitting both spot and on-demand is pinned to spot; " +
			"(4) SimulateScheduling records a PodError for every pod placed on an uninitialized existing node unless the pod comes from a deleting node; " +
			"(5) validateCommand returns nil only after a successful re-simulation with all pods scheduled and a matching cardinality (0/0, or 1 with the command's options a subset of the simulated ones); " +
			"(6) multi-node search saves a replace decision only after filterOutSameInstanceType succeeded with options left; the reschedule cost adds max(0, EvictionCost) per pod.",
		NotCovered: []string{"that the replacement is cheaper for a given price table (WorstLaunchPrice semantics and float arithmetic)", "soundness of the simulation itself (C01/C02)", "balanced-scoring thresholds"},
		Rules:      c06Rules,
	})
}

const simSched = `disr\.SimulateScheduling\(\$0\.kubeClient, \$0\.cluster, \$0\.provisioner, \$0\.clock, \$0\.recorder, &local<\[1\]sched\.Options>\[:\], \$2\)`

func c06Rules(tier string) []Rule {
	rules := c06RulesBase(tier)
	rules = append(rules, nodePodsRules("C06")...)
	// the candidates are re-validated *after* the validation period: what validateCommand re-simulates is the snapshot
	// taken then, so nothing waits once the first validateCandidates has run
	rules = append(rules, NOREACH{ID: "C06.FRESH1", Fn: "(*disr.ConsolidationValidator).isValid", From: `^call \(\*disr\.ConsolidationValidator\)\.validateCandidates\(\$0, \$2\.Candidates\)$`,
		Sink: `^call iface:\(k8s\.io/utils/clock\.\w+\)\.(After|Sleep)\(|^call time\.(Sleep|After)\(`, Note: "no waiting after the candidates were validated"})
	return rules
}

func c06RulesBase(tier string) []Rule {
	const (
		cc   = "(*disr.consolidation).computeConsolidation"
		s2s  = "(*disr.consolidation).computeSpotToSpotConsolidation"
		rm   = "(*sched.NodeClaim).RemoveInstanceTypeOptionsByPriceAndMinValues"
		sim  = "disr.SimulateScheduling"
		vcmd = "(*disr.validation).validateCommand"
		fn   = "(*disr.MultiNodeConsolidation).firstNConsolidationOption"
	)
	simv := `disr\.SimulateScheduling\(\$0\.kubeClient, \$0\.cluster, \$0\.provisioner, \$0\.clock, \$0\.recorder, &local<\[1\]sched\.Options>\[:\], \$3\)`
	return []Rule{
		core.Custom{ID: "C06.MPT1", Kind: "MPT", Run: c06Commands},
		// spot-to-spot routing flag: false as soon as one candidate is not spot
		FLAG{ID: "C06.FLAG1", Fn: cc, Sink: `^call \(\*disr\.consolidation\)\.computeSpotToSpotConsolidation\(`, Lit: `-^\$2\[.*\]\.capacityType == "spot"$`},
		DOM{ID: "C06.DOM0", Fn: cc, Sink: `^call \(\*disr\.consolidation\)\.computeSpotToSpotConsolidation\(\$0, \$2, ` + simSched + `#0, disr\.sumCandidatePrices\(\$2\)\)`, Gates: gates(
			G(`+^\(\*scheduling\.Requirement\)\.Has\(\(scheduling\.Requirements\)\.Get\(.*\.NewNodeClaims\[0\]\.NodeClaimTemplate\.Requirements, "karpenter\.sh/capacity-type"\), "spot"\)$`),
			G(`+^`+simSched+`#1 == nil$`),
			G(`+^\(sched\.Results\)\.AllNonPendingPodsScheduled\(`+simSched+`#0\)$`),
			G(`+^len\(`+simSched+`#0\.NewNodeClaims\) == 1$`),
		)},
		core.Custom{ID: "C06.PROV1", Kind: "PROV", Run: func(w *core.World, id string) []core.Result {
			rs := core.ArgProvenance(w, id, cc, `^call \(\*sched\.NodeClaim\)\.RemoveInstanceTypeOptionsByPriceAndMinValues\(`, 2, `^disr\.sumCandidatePrices\(\$2\)$`, "the price ceiling is the combined price of the candidates")
			rs = append(rs, core.ArgProvenance(w, id, s2s, `^call \(\*sched\.NodeClaim\)\.RemoveInstanceTypeOptionsByPriceAndMinValues\(`, 2, `^\$4$`, "spot-to-spot filters against the candidate price it was handed")...)
			rs = append(rs, core.InstrPresent(w, id, "PROV", "disr.sumCandidatePrices", `^return lo\.SumBy\[\*disr\.Candidate, float64\]\(\$0, fn:disr\.sumCandidatePrices\$1\)$`, 1, "sum over the candidates")...)
			rs = append(rs, core.InstrPresent(w, id, "PROV", "disr.sumCandidatePrices", `^return \$0\.Price$`, 1, "of each candidate's Price")...)
			// the requirements the filter is evaluated under are the replacement's own
			rs = append(rs, core.ArgProvenance(w, id, cc, `^call \(\*sched\.NodeClaim\)\.RemoveInstanceTypeOptionsByPriceAndMinValues\(`, 1, `\.NewNodeClaims\[0\]\.NodeClaimTemplate\.Requirements$`, "launch price is evaluated under the replacement's requirements")...)
			return rs
		}},
		// ---- the price filter itself
		MPT{ID: "C06.ORD1", Fn: "@arg:" + rm + `|^call lo\.Filter\[\*cloudprovider\.InstanceType, cloudprovider\.InstanceTypes\]\(|1`, Ret: core.RetTrue, Gates: gates(
			G(`+^\(cloudprovider\.Offerings\)\.WorstLaunchPrice\(\(cloudprovider\.Offerings\)\.Available\(\$0\.Offerings\), \^\$1\) < \^\$2$`),
		)},
		MPT{ID: "C06.ORD1b", Fn: "@arg:" + rm + `|^call lo\.Filter\[\*cloudprovider\.InstanceType, cloudprovider\.InstanceTypes\]\(|1`, Ret: core.RetFalse, Gates: gates(
			G(`-^\(cloudprovider\.Offerings\)\.WorstLaunchPrice\(\(cloudprovider\.Offerings\)\.Available\(\$0\.Offerings\), \^\$1\) < \^\$2$`),
		)},
		MPT{ID: "C06.POST1", Fn: rm, Ret: core.RetNilConst, Gates: gates(
			G(`instr:^store \$0\.NodeClaimTemplate\.InstanceTypeOptions = lo\.Filter\[\*cloudprovider\.InstanceType, cloudprovider\.InstanceTypes\]\(\$0\.NodeClaimTemplate\.InstanceTypeOptions, closure:`),
			G(`+^\(cloudprovider\.InstanceTypes\)\.SatisfiesMinValues\(\$0\.NodeClaimTemplate\.InstanceTypeOptions, \$1\)#2 == nil$`),
		)},

		// ---- spot to spot
		core.Custom{ID: "C06.DOM1", Kind: "DOM", Run: c06SpotToSpot},

		// ---- simulation guard for uninitialized nodes
		POST{ID: "C06.MPT3", Fn: sim, FromLit: `-^lo\.SliceToMap\[\*corev1\.Pod, cr/client\.ObjectKey, any\]\(.*\)\[cr/client\.ObjectKeyFromObject\(.*\)\]#1$`,
			Must: []string{`^mapupdate &local<sched\.Results>\.PodErrors\[.*\] = disr\.NewUninitializedNodeError\(`}},
		core.Custom{ID: "C06.MPT3b", Kind: "MPT", Run: func(w *core.World, id string) []core.Result {
			// every uninitialized existing node enters the pod loop: the `-Initialized` edge reaches the per-pod test
			d := DOM{ID: id, Fn: sim, Sink: `^mapupdate &local<sched\.Results>\.PodErrors\[`, Gates: gates(
				G(`-^\(\*state\.StateNode\)\.Initialized\(&local<sched\.Results>\.ExistingNodes\[.*\]\.StateNode\)$`),
			)}
			rs := d.Check(w)
			// the loop ranges over all existing nodes of the results that are returned
			rs = append(rs, (MPT{ID: id, Fn: sim, Ret: core.RetNilConst, Gates: gates(
				G(`-^\(phi\(-1\|\(phi↺ \+ 1\)\) \+ 1\) < len\(&local<sched\.Results>\.ExistingNodes\)$`),
				G(`+^\(\*sched\.Scheduler\)\.Solve\(.*\)#1 == nil$`),
			)}).Check(w)...)
			return rs
		}},
		// the deleting-node pod keys are those of the deleting nodes' reschedulable pods
		core.Custom{ID: "C06.PROV2", Kind: "PROV", Run: func(w *core.World, id string) []core.Result {
			return core.InstrPresent(w, id, "PROV", sim, `^call lo\.SliceToMap\[\*corev1\.Pod, cr/client\.ObjectKey, any\]\(\(state\.StateNodes\)\.CurrentlyReschedulablePods\(\(state\.StateNodes\)\.Deleting\(`, 1, "exemption set = pods of deleting nodes")
		}},

		// ---- validation
		MPT{ID: "C06.MPT4", Fn: vcmd, Ret: core.RetNilConst, Min: 2, Gates: gates(
			G(`+^len\(\$3\)>=1$`),
			G(`+^`+simv+`#1 == nil$`),
			G(`+^\(sched\.Results\)\.AllNonPendingPodsScheduled\(`+simv+`#0\)$`),
			G(`-^len\(`+simv+`#0\.NewNodeClaims\)>=1$`, `-^len\(`+simv+`#0\.NewNodeClaims\)>=2$`),
			G(`-^len\(`+simv+`#0\.NewNodeClaims\)>=1$`, `+^len\(\$2\.Replacements\)>=1$`),
			G(`+^len\(`+simv+`#0\.NewNodeClaims\)>=1$`, `-^len\(\$2\.Replacements\)>=1$`),
			G(`-^len\(`+simv+`#0\.NewNodeClaims\)>=1$`,
				`+^disr\.instanceTypesAreSubset\(\$2\.Replacements\[0\]\.NodeClaim\.NodeClaimTemplate\.InstanceTypeOptions, disr\.SimulateScheduling\(.*, \$3\)#0\.NewNodeClaims\[0\]\.NodeClaimTemplate\.InstanceTypeOptions\)$`),
		)},
		core.Custom{ID: "C06.MPT4b", Kind: "PROV", Run: func(w *core.World, id string) []core.Result {
			// instanceTypesAreSubset(lhs, rhs): |names(rhs) ∩ names(lhs)| == |names(lhs)|
			return core.InstrPresent(w, id, "PROV", "disr.instanceTypesAreSubset",
				`^return \(len\(\(apim/util/sets\.String\)\.Intersection\(apim/util/sets\.NewString\(…\), apim/util/sets\.NewString\(…\)\)\) == len\(apim/util/sets\.NewString\(lo\.Map\[\*cloudprovider\.InstanceType, string\]\(…\)\)\)\)$`, 1, "subset ⇔ |rhs ∩ lhs| = |lhs|")
		}},
		core.Custom{ID: "C06.MPT4c", Kind: "PROV", Run: c06Subset},

		// ---- multi node search
		core.Custom{ID: "C06.MPT5", Kind: "MPT", Run: c06FirstN},
		MPT{ID: "C06.MPT5b", Fn: "(*disr.Replacement).filterOutSameInstanceType", Ret: core.RetNilConst, Gates: gates(
			G(`+^\(\*sched\.NodeClaim\)\.RemoveInstanceTypeOptionsByPriceAndMinValues\(\$0\.NodeClaim, \$0\.NodeClaim\.NodeClaimTemplate\.Requirements, phi\(`),
		)},

		// ---- emptiness / cost
		core.Custom{ID: "C06.TT1", Kind: "PROV", Run: func(w *core.World, id string) []core.Result {
			rs := core.InstrPresent(w, id, "PROV", "disr.computeRescheduleDisruptionCost", `^call math\.Max\(0, utils/disruption\.EvictionCost\(\$1\[.*\]\)\)$`, 1, "per pod max(0, EvictionCost)")
			rs = append(rs, core.InstrPresent(w, id, "PROV", "disr.computeRescheduleDisruptionCost", `^return phi\(1\|\(phi↺ \+ math\.Max\(0, utils/disruption\.EvictionCost\(…\)\)\)\)$`, 1, "cost = base 1.0 + Σ max(0, cost)")...)
			rs = append(rs, core.InstrPresent(w, id, "PROV", "disr.NewCandidate", `^store &local<disr\.Candidate>\.RescheduleDisruptionCost = disr\.computeRescheduleDisruptionCost\(lo\.Filter\[\*corev1\.Pod, \[\]\*corev1\.Pod\]\(`, 1, "cost is computed over the reschedulable pods")...)
			return rs
		}},
		core.Custom{ID: "C06.TT1b", Kind: "PROV", Run: func(w *core.World, id string) []core.Result {
			f := w.Fn("@arg:disr.NewCandidate|" + `^call lo\.Filter\[\*corev1\.Pod, \[\]\*corev1\.Pod\]\(|1`)
			if f == nil {
				return []core.Result{core.Bad(id, "PROV", "PROV:disr.NewCandidate:reschedulable", "", "reschedulable-pod filter cannot be resolved")}
			}
			if len(w.SitesOr(f, regexp.MustCompile(`^return utils/pod\.IsReschedulable\(\$0\)$`), false, 1)) == 0 {
				return []core.Result{core.Bad(id, "PROV", "PROV:disr.NewCandidate:reschedulable", w.Pos(f.Pos()), "reschedulable pods are no longer exactly those with IsReschedulable")}
			}
			return []core.Result{core.OK(id, "PROV", "PROV:disr.NewCandidate:reschedulable", 1, "Filter(pods, IsReschedulable)")}
		}},
	}
}

// commandReturns classifies the `return <Command>, nil` sites of fn: hasRepl tells whether the returned Command
// literal stores Replacements.
type cmdRet struct {
	sink    core.RetSink
	hasRepl bool
}

func commandReturns(w *core.World, fn *ssa.Function) []cmdRet {
	var out []cmdRet
	for _, s := range w.ReturnSinks(fn, core.RetSpec{Index: -1, Want: "nilconst"}) {
		if len(s.Ret.Results) < 2 {
			continue
		}
		ld, ok := s.Ret.Results[0].(*ssa.UnOp)
		if !ok {
			continue // zero Command
		}
		a, ok := ld.X.(*ssa.Alloc)
		if !ok {
			continue
		}
		has := false
		for _, ref := range *a.Referrers() {
			if fa, ok := ref.(*ssa.FieldAddr); ok && strings.HasSuffix(w.Render(fa), ".Replacements") {
				for _, u := range *fa.Referrers() {
					if _, isStore := u.(*ssa.Store); isStore {
						has = true
					}
				}
			}
		}
		out = append(out, cmdRet{s, has})
	}
	return out
}

// C06.MPT1: command returns of computeConsolidation.
func c06Commands(w *core.World, id string) []core.Result {
	const cc = "(*disr.consolidation).computeConsolidation"
	fn := w.Fn(cc)
	if fn == nil {
		return []core.Result{core.Anchor(id, "MPT", cc)}
	}
	rets := commandReturns(w, fn)
	common := []core.Gate{
		G(`+^` + simSched + `#1 == nil$`),
		G(`+^\(sched\.Results\)\.AllNonPendingPodsScheduled\(` + simSched + `#0\)$`),
	}
	del := []core.Gate{G(`-^len\(` + simSched + `#0\.NewNodeClaims\)>=1$`)}
	opts := `disr\.SimulateScheduling\(.*\)#0\.NewNodeClaims\[0\]\.NodeClaimTemplate\.InstanceTypeOptions`
	hasSpot := `\(\*scheduling\.Requirement\)\.Has\(\(scheduling\.Requirements\)\.Get\(.*\.NewNodeClaims\[0\]\.NodeClaimTemplate\.Requirements, "karpenter\.sh/capacity-type"\), "spot"\)$`
	hasOD := `\(\*scheduling\.Requirement\)\.Has\(\(scheduling\.Requirements\)\.Get\(.*\.NewNodeClaims\[0\]\.NodeClaimTemplate\.Requirements, "karpenter\.sh/capacity-type"\), "on-demand"\)$`
	repl := []core.Gate{
		G(`+^len\(` + simSched + `#0\.NewNodeClaims\) == 1$`),
		G(`+^\(\*sched\.NodeClaim\)\.RemoveInstanceTypeOptionsByPriceAndMinValues\(.*, disr\.sumCandidatePrices\(\$2\)\)#1 == nil$`),
		G(`+^len\(` + opts + `\)>=1$`),
		// not a spot→spot move
		G(`-none:-^\$2\[.*\]\.capacityType == "spot"$`, `-^`+hasSpot),
		// OD → {spot, OD} is pinned to spot
		G(`-^`+hasSpot, `-^`+hasOD, `instr:^call \(scheduling\.Requirements\)\.Add\(.*\.NewNodeClaims\[0\]\.NodeClaimTemplate\.Requirements, &local<\[1\]\*scheduling\.Requirement>\[:\]\)$`),
		// options were price-ordered before filtering
		G(`instr:^store .*\.NewNodeClaims\[0\]\.NodeClaimTemplate\.InstanceTypeOptions = \(cloudprovider\.InstanceTypes\)\.OrderByPrice\(`),
	}
	construct := "MPT:" + cc + ":commands"
	var out []core.Result
	nd, nr := 0, 0
	for _, r := range rets {
		gs := append([]core.Gate{}, common...)
		kind := "delete-only"
		if r.hasRepl {
			gs = append(gs, repl...)
			kind = "replace"
			nr++
		} else {
			gs = append(gs, del...)
			nd++
		}
		for _, g := range gs {
			if !w.RetGuarded(r.sink, g) {
				out = append(out, core.Bad(id, "MPT", construct+"⇐"+g.Text, w.InstrPos(r.sink.Ret), fmt.Sprintf("a %s command is returned without passing {%s}", kind, g.Text)))
			}
		}
	}
	if nd != 1 || nr != 1 {
		out = append(out, core.Bad(id, "MPT", construct, w.Pos(fn.Pos()), fmt.Sprintf("expected one delete-only and one replace command return, found %d and %d (an unclassified way to produce a command)", nd, nr)))
	}
	// the pin is capacity-type In [spot]
	pin := regexp.MustCompile(`^store &local<\[1\]\*scheduling\.Requirement>\[0\] = scheduling\.NewRequirement\("karpenter\.sh/capacity-type", "In", &local<\[1\]string>\[:\]\)$`)
	if len(w.SitesOr(fn, pin, false, 1)) == 0 || len(w.SitesOr(fn, regexp.MustCompile(`^store &local<\[1\]string>\[0\] = "spot"$`), false, 1)) == 0 {
		out = append(out, core.Bad(id, "MPT", construct+":pin", w.Pos(fn.Pos()), "the requirement added for OD→{spot,OD} is no longer capacity-type In [spot]"))
	}
	// the candidates of the command are the ones simulated
	for _, s := range w.Sites(fn, regexp.MustCompile(`^store &local<disr\.Command>\.Candidates = `), false) {
		if w.RenderInstr(s) != "store &local<disr.Command>.Candidates = $2" {
			out = append(out, core.Bad(id, "MPT", construct+":candidates", w.InstrPos(s), "the command's candidates differ from the simulated ones"))
		}
	}
	if len(out) == 0 {
		out = append(out, core.OK(id, "MPT", construct, 2, "delete-only and replace returns guarded by their conditions"))
	}
	return out
}

// C06.DOM1: every command produced by the spot-to-spot path.
func c06SpotToSpot(w *core.World, id string) []core.Result {
	const s2s = "(*disr.consolidation).computeSpotToSpotConsolidation"
	fn := w.Fn(s2s)
	if fn == nil {
		return []core.Result{core.Anchor(id, "DOM", s2s)}
	}
	rets := commandReturns(w, fn)
	opts := `\$3\.NewNodeClaims\[0\]\.NodeClaimTemplate\.InstanceTypeOptions`
	gs := []core.Gate{
		G(`+^operator/options\.FromContext\(\)\.FeatureGates\.SpotToSpotConsolidation$`),
		G(`instr:^call \(scheduling\.Requirements\)\.Add\(\$3\.NewNodeClaims\[0\]\.NodeClaimTemplate\.Requirements, &local<\[1\]\*scheduling\.Requirement>\[:\]\)$`),
		G(`+^\(\*sched\.NodeClaim\)\.RemoveInstanceTypeOptionsByPriceAndMinValues\(\$3\.NewNodeClaims\[0\], \$3\.NewNodeClaims\[0\]\.NodeClaimTemplate\.Requirements, \$4\)#1 == nil$`),
		G(`+^len\(` + opts + `\)>=1$`),
		// single node: at least 15 cheaper options, and truncation
		G(`+^len\(\$2\)>=2$`, `+^len\(`+opts+`\)>=15$`),
		G(`+^len\(\$2\)>=2$`, `instr:^store `+opts+` = lo\.Slice\[\*cloudprovider\.InstanceType, cloudprovider\.InstanceTypes\]\(`+opts+`, 0, (15|lo\.Max\[int\]\(&local<\[2\]int>\[:\]\)|phi\(15\|lo\.Max\[int\]\(.*\)\))\)$`),
	}
	construct := "DOM:" + s2s
	var out []core.Result
	if len(rets) < 2 {
		out = append(out, core.Bad(id, "DOM", construct, w.Pos(fn.Pos()), fmt.Sprintf("vacuous: %d command returns, 2 confirmed by hand", len(rets))))
	}
	for _, r := range rets {
		if !r.hasRepl {
			out = append(out, core.Bad(id, "DOM", construct, w.InstrPos(r.sink.Ret), "spot-to-spot path returns a command without replacement"))
		}
		for _, g := range gs {
			if !w.RetGuarded(r.sink, g) {
				out = append(out, core.Bad(id, "DOM", construct+"⇐"+g.Text, w.InstrPos(r.sink.Ret), "a spot-to-spot command is returned without {"+g.Text+"}"))
			}
		}
	}
	// the pin
	if len(w.SitesOr(fn, regexp.MustCompile(`^store &local<\[1\]\*scheduling\.Requirement>\[0\] = scheduling\.NewRequirement\("karpenter\.sh/capacity-type", "In", &local<\[1\]string>\[:\]\)$`), false, 1)) == 0 ||
		len(w.SitesOr(fn, regexp.MustCompile(`^store &local<\[1\]string>\[0\] = "spot"$`), false, 1)) == 0 {
		out = append(out, core.Bad(id, "DOM", construct+":pin", w.Pos(fn.Pos()), "the spot-to-spot replacement is no longer pinned to capacity-type In [spot]"))
	}
	// the max operands: 15 and the minValues need
	if len(w.SitesOr(fn, regexp.MustCompile(`^store &local<\[2\]int>\[0\] = 15$`), false, 1)) == 0 {
		out = append(out, core.Bad(id, "DOM", construct+":cap", w.Pos(fn.Pos()), "the launch list cap is no longer max(15, minValues need)"))
	}
	if len(out) == 0 {
		out = append(out, core.OK(id, "DOM", construct, len(rets), "feature gate, spot pin, price filter, ≥15 options and truncation for single-node"))
	}
	return out
}

// C06.MPT4c: instanceTypesAreSubset is called as (command's options, simulated options) and maps both by Name.
func c06Subset(w *core.World, id string) []core.Result {
	fn := w.Fn("disr.instanceTypesAreSubset")
	if fn == nil {
		return []core.Result{core.Anchor(id, "PROV", "disr.instanceTypesAreSubset")}
	}
	// Intersection(names($1), names($0)) compared with len(names($0))
	inter := w.Sites(fn, regexp.MustCompile(`^call \(apim/util/sets\.String\)\.Intersection\(apim/util/sets\.NewString\(lo\.Map\[\*cloudprovider\.InstanceType, string\]\(\$1, .*\)\), apim/util/sets\.NewString\(lo\.Map\[\*cloudprovider\.InstanceType, string\]\(\$0, `), false)
	ln := w.Sites(fn, regexp.MustCompile(`^call len\(apim/util/sets\.NewString\(lo\.Map\[\*cloudprovider\.InstanceType, string\]\(\$0, `), false)
	if len(inter) == 0 || len(ln) == 0 {
		return []core.Result{core.Bad(id, "PROV", "PROV:disr.instanceTypesAreSubset", w.Pos(fn.Pos()), "the subset test no longer compares |names(rhs) ∩ names(lhs)| with |names(lhs)|")}
	}
	for _, f := range fn.AnonFuncs {
		if len(w.SitesOr(f, regexp.MustCompile(`^return \$0\.Name$`), false, 1)) == 0 {
			return []core.Result{core.Bad(id, "PROV", "PROV:disr.instanceTypesAreSubset", w.Pos(f.Pos()), "instance types are no longer compared by Name")}
		}
	}
	return []core.Result{core.OK(id, "PROV", "PROV:disr.instanceTypesAreSubset", 2, "subset by instance type name")}
}

// C06.MPT5: in the multi-node binary search a command is saved only when validDecision, and for a replace decision
// validDecision becomes true only after filterOutSameInstanceType returned no error and left options.
func c06FirstN(w *core.World, id string) []core.Result {
	const fname = "(*disr.MultiNodeConsolidation).firstNConsolidationOption"
	fn := w.Fn(fname)
	if fn == nil {
		return []core.Result{core.Anchor(id, "MPT", fname)}
	}
	construct := "MPT:" + fname
	var out []core.Result
	// the "true" constant edges of the validDecision phis
	n := 0
	g1 := G(`+^\(\*disr\.Replacement\)\.filterOutSameInstanceType\(.*\)#1 == nil$`)
	g2 := G(`+^len\(.*\.Replacements\[0\]\.NodeClaim\.NodeClaimTemplate\.InstanceTypeOptions\)>=1$`)
	g3 := G(`+^\(disr\.Command\)\.Decision\(.*\) == disr\.ReplaceDecision$`)
	for _, b := range fn.Blocks {
		for _, in := range b.Instrs {
			phi, ok := in.(*ssa.Phi)
			if !ok || phi.Type().String() != "bool" {
				continue
			}
			for i, e := range phi.Edges {
				if c, ok := e.(*ssa.Const); !ok || c.Value == nil || c.Value.String() != "true" {
					continue
				}
				n++
				pred := b.Preds[i]
				for _, g := range []core.Gate{g1, g2, g3} {
					if core.EdgeReachable(pred, b, w.GateCut(fn, g)) {
						out = append(out, core.Bad(id, "MPT", construct+"⇐"+g.Text, w.InstrPos(phi), "a decision is declared valid without {"+g.Text+"}"))
					}
				}
			}
		}
	}
	if n == 0 {
		out = append(out, core.Bad(id, "MPT", construct, w.Pos(fn.Pos()), "vacuous: the validDecision flag was not found (idiom not recognised)"))
	}
	// the save is guarded by the flag
	d := DOM{ID: id, Fn: fname, Sink: `^store &local<disr\.Command> = \(\*disr\.consolidation\)\.computeConsolidation\(.*\)#0$`, Shallow: true, Min: 1, Gates: gates(G(`+^phi\(false\|phi\(true\|\(\(disr\.Command\)\.Decision\(`))}
	for _, r := range d.Check(w) {
		if r.Status != core.Discharged {
			out = append(out, r)
		}
	}
	// the command evaluated is computeConsolidation of the prefix [0:mid+1]
	rs := core.InstrPresent(w, id, "MPT", fname, `^call \(\*disr\.consolidation\)\.computeConsolidation\(\$0\.consolidation, \$2\[0:\(.* \+ 1\)\]\)$`, 1, "each probe evaluates a prefix of the budget-filtered candidates")
	for _, r := range rs {
		if r.Status != core.Discharged {
			out = append(out, r)
		}
	}
	if len(out) == 0 {
		out = append(out, core.OK(id, "MPT", construct, n, "replace decisions valid only after filterOutSameInstanceType ok ∧ options left; saved only when valid"))
	}
	return out
}
