package props

import (
	"kverif/core"
)

func init() {
	core.Register(&core.Property{
		ID:    "C04",
		Title: "New capacity is opened only when existing capacity cannot admit the pod",
		Explanation: "Decides the structural necessary conditions: (1) Scheduler.add reaches addToNewNodeClaim only on the failure edges of addToExistingNode and addToInflightNode for the same pod; " +
			"(2) those two return failure only when no candidate was chosen, a candidate is skipped without being evaluated only under the audited consolidate-after exemption (never for a pending pod), " +
			"every index is offered to the evaluation closure, and a worker stops only after a success; " +
			"(3) the scheduler's existing nodes are built from every state node handed in, and what is handed in is Active() of the cluster snapshot; Active keeps exactly the nodes not marked for deletion; " +
			"(4) the in-flight view: StateNode.Taints returns unfiltered taints only when Initialized or unmanaged, the filter drops known-ephemeral and startup taints; " +
			"Allocatable returns the raw Node allocatable only when Initialized or without NodeClaim, zero quantities are overridden from NodeClaim.Status; Labels returns Node labels only once registered; " +
			"NewExistingNode derives remainingResources from Available() minus remaining daemon overhead and requirements from Labels(); PopulateNodeClaimDetails copies ProviderID, Allocatable and Capacity from the provider's answer; " +
			"(5) a pass only runs after Cluster.Synced, Synced is false while a NodeClaim has no provider id, and Create registers the NodeClaim with cluster state before returning; " +
			"(6) what an informer event keeps: a StateNode rebuilt from a NodeClaim event takes Node, daemonSetRequests, podRequests, hostPortUsage, volumeUsage and markedForDeletion each from the field of the same name of the old StateNode, " +
			"one rebuilt from a Node event takes NodeClaim and markedForDeletion the same way; " +
			"(7) the labels a NodeClaim is created with: every requirement key that is not well-known, restricted or simulation-only becomes a label valued Requirement.Any() of that requirement unless Any() reports no value, " +
			"Any() reports no value only for an operator without values or an empty integer range, ToNodeClaim merges that map into the labels before copying them into the object it returns, and at launch the NodeClaim's own labels win over the provider's.",
		NotCovered: []string{
			"that CanAdd on the in-flight view admits whatever the creating NodeClaim admitted (value-dependent: allocatable of the launched type, daemon overhead equivalence, hostname labels)",
			"pods with inter-pod constraints or preferences (excluded by the property)",
			"timing between the API write and the informer event beyond the UpdateNodeClaim-in-Create ordering",
			"that the value Requirement.Any() picks is one the requirement (and the pod) admits, and that the Node's labels follow the NodeClaim's after registration (value-dependent / another controller)",
			"aggregates that scheduling does not read (daemonSetLimits, podLimits, podDisruptionCosts, nominatedUntil) in the carry-over rule: C11.COPY3 covers every field",
		},
		Rules: c04Rules,
	})
}

func c04Rules(tier string) []Rule {
	rules := append(c04RulesBase(tier), allocatableViewRules("C04")...)
	rules = append(rules, usageBookkeepingRules("C04")...)
	rules = append(rules, syncedFreshRules("C04")...)
	// (6) what the scheduler reads of an existing / in-flight node survives informer events field by field
	rules = append(rules, stateCarryOverRules("C04",
		[]string{"Node", "daemonSetRequests", "podRequests", "hostPortUsage", "volumeUsage", "markedForDeletion"},
		[]string{"NodeClaim", "markedForDeletion"})...)
	// (7) the NodeClaim that was opened for a pod carries, as labels, every custom key the pod was admitted on
	rules = append(rules, createdLabelsRules("C04")...)
	return rules
}

func c04RulesBase(tier string) []Rule {
	const (
		add    = "(*sched.Scheduler).add"
		exN    = "(*sched.Scheduler).addToExistingNode"
		inN    = "(*sched.Scheduler).addToInflightNode"
		exCl   = "@arg:(*sched.Scheduler).addToExistingNode|^call sched\\.parallelizeUntil\\(|2"
		inCl   = "@arg:(*sched.Scheduler).addToInflightNode|^call sched\\.parallelizeUntil\\(|2"
		par    = "sched.parallelizeUntil"
		parW   = "sched.parallelizeUntil$1"
		calc   = "(*sched.Scheduler).calculateExistingNodeClaims"
		sn     = "(*state.StateNode)."
		synced = `+^\(\*state\.Cluster\)\.Synced\(\$0\.cluster\)$`
	)
	exCan := `\(\*sched\.ExistingNode\)\.CanAdd\(\^\$0\.existingNodes\[\$0\], \^\$2, .*\)#2 == nil$`
	inCan := `\(\*sched\.NodeClaim\)\.CanAdd\(\^\$0\.newNodeClaims\[\$0\], \^\$2, .*\)#4 == nil$`
	return []Rule{
		// ---- (1) order of attempts
		DOM{ID: "C04.DOM1", Fn: add, Sink: `^call \(\*sched\.Scheduler\)\.addToNewNodeClaim\(\$0, \$2\)$`, Gates: gates(
			G(`-^\(\*sched\.Scheduler\)\.addToExistingNode\(\$0, \$2\) == nil$`),
			G(`-^\(\*sched\.Scheduler\)\.addToInflightNode\(\$0, \$2\) == nil$`),
		)},
		// ---- (2) failure of the two attempts means no candidate admitted the pod
		MPT{ID: "C04.MPT1", Fn: exN, Ret: core.RetSpec{Index: -1, Want: "nonnil"}, Gates: gates(
			G(`+^\^\$0\.existingNodes\[\$0\] == nil$`, `-^scheduling\.GetVolumes\(\$0\.kubeClient, \$2\)#1 == nil$`),
		), Note: "failure ⇒ no existing node was chosen (or volumes could not be resolved)"},
		MPT{ID: "C04.MPT2", Fn: inN, Ret: core.RetSpec{Index: -1, Want: "nonnil"}, Gates: gates(
			G(`+^\^\$0\.newNodeClaims\[\$0\] == nil$`),
		), Note: "failure ⇒ no in-flight NodeClaim was chosen"},
		// the closure moves on (returns true) only after CanAdd failed, or under the consolidate-after exemption
		MPT{ID: "C04.MPT3", Fn: exCl, Ret: core.RetTrue, Gates: gates(
			G(`-^`+exCan, `+^\^\$0\.existingNodes\[\$0\]\.isUnderConsolidateAfter$`),
			G(`-^`+exCan, `-^utils/pod\.IsPending\(\^\$2\)$`),
			G(`-^`+exCan, `-^\(apim/util/sets\.Set\[string\]\)\.Has\(\^\$0\.deletingNodeNames, \^\$2\.Spec\.NodeName\)$`),
		), Note: "an existing node is passed over only if CanAdd failed, or it is under consolidateAfter and the pod is neither pending nor from a deleting node"},
		MPT{ID: "C04.MPT4", Fn: inCl, Ret: core.RetTrue, Gates: gates(G(`-^` + inCan))},
		// a success is recorded: the closure's CanAdd-success path stores the candidate unless an earlier index won
		POST{ID: "C04.POST1", Fn: exCl, FromLit: `+^` + exCan, Must: []string{`^store \^\^\$0\.existingNodes\[\$0\] = \^\$0\.existingNodes\[\$0\]$`},
			Excuse: []string{`-^\$0 < \^&local<int>$`}},
		POST{ID: "C04.POST2", Fn: inCl, FromLit: `+^` + inCan, Must: []string{`^store \^\^\$0\.newNodeClaims\[\$0\] = \^\$0\.newNodeClaims\[\$0\]$`},
			Excuse: []string{`-^\$0 < \^&local<int>$`}},
		// every candidate is offered
		core.Custom{ID: "C04.PROV1", Kind: "PROV", Run: func(w *core.World, id string) []core.Result {
			rs := core.InstrPresent(w, id, "PROV", exN, `^call sched\.parallelizeUntil\(\$0\.numConcurrentReconciles, len\(\$0\.existingNodes\), closure:`, 1, "all existing nodes are candidates")
			rs = append(rs, core.InstrPresent(w, id, "PROV", inN, `^call sched\.parallelizeUntil\(\$0\.numConcurrentReconciles, len\(\$0\.newNodeClaims\), closure:`, 1, "all in-flight NodeClaims are candidates")...)
			rs = append(rs, core.InstrPresent(w, id, "PROV", par, `^send makechan <- phi\(0\|\(phi↺ \+ 1\)\)$`, 1, "every piece index is queued")...)
			rs = append(rs, core.InstrPresent(w, id, "PROV", parW, `^call dyn:\^\$2\(<-\^makechan#0\)$`, 1, "each dequeued index is evaluated")...)
			return rs
		}},
		DOM{ID: "C04.DOM2", Fn: parW, Sink: `^return`, Gates: gates(
			G(`-^<-\^makechan#1$`, `-^dyn:\^\$2\(<-\^makechan#0\)$`),
		), Note: "a worker stops only when the queue is drained or a piece reported success"},
		DOM{ID: "C04.DOM3", Fn: par, Sink: `^return`, Shallow: true, Gates: gates(G(`instr:^call \(\*sync\.WaitGroup\)\.Wait\(`))},
		DOM{ID: "C04.DOM4", Fn: par, Sink: `^call close\(makechan\)$`, Shallow: true, Gates: gates(
			G(`-^0 < \$1$`, `-^\(phi\(0\|\(phi↺ \+ 1\)\) \+ 1\) < \$1$`),
		), Note: "the queue is closed only after every index below pieces was sent"},

		// ---- (3) which nodes are capacity
		core.Custom{ID: "C04.PROV2", Kind: "PROV", Run: func(w *core.World, id string) []core.Result {
			rs := core.ArgProvenance(w, id, "(*prov.Provisioner).Schedule", `^call \(\*prov\.Provisioner\)\.NewScheduler\(`, 3,
				`^\(state\.StateNodes\)\.Active\(\(\*state\.Cluster\)\.DeepCopyNodes\(\$0\.cluster\)\)$`, "provisioning counts exactly the active nodes of the snapshot")
			rs = append(rs, core.ArgProvenance(w, id, "disr.SimulateScheduling", `^call \(\*prov\.Provisioner\)\.NewScheduler\(`, 3,
				`^lo\.Filter\[\*state\.StateNode, state\.StateNodes\]\(\(state\.StateNodes\)\.Active\(\(\*state\.Cluster\)\.DeepCopyNodes\(\$2\)\), closure:`, "the simulation counts the active nodes minus the candidates")...)
			rs = append(rs, core.ArgProvenance(w, id, "(*prov.Provisioner).NewScheduler", `^call sched\.NewScheduler\(`, 4, `^\$3$`, "the provisioner hands its state nodes to the scheduler unchanged")...)
			rs = append(rs, core.ArgProvenance(w, id, "sched.NewScheduler", `^call \(\*sched\.Scheduler\)\.calculateExistingNodeClaims\(`, 2, `^\$4$`, "existing nodes are built from the state nodes handed in")...)
			rs = append(rs, core.InstrPresent(w, id, "PROV", "(state.StateNodes).Active", `^return lo\.Filter\[\*state\.StateNode, state\.StateNodes\]\(\$0, fn:\(state\.StateNodes\)\.Active\$1\)$`, 1, "Active filters its receiver")...)
			rs = append(rs, core.InstrPresent(w, id, "PROV", "(state.StateNodes).Active$1", `^return !\(\*state\.StateNode\)\.MarkedForDeletion\(\$0\)$`, 1, "keeping exactly the nodes not marked for deletion")...)
			return rs
		}},
		POST{ID: "C04.POST3", Fn: calc, FromLit: `+^\(phi\(-1\|\(phi↺ \+ 1\)\) \+ 1\) < len\(\$2\)$`,
			Must: []string{`^store \$0\.existingNodes = append\(\$0\.existingNodes, &local<\[1\]\*sched\.ExistingNode>\[:\]\)$`},
			Note: "every state node handed in becomes an existing node (no skip)"},
		core.Custom{ID: "C04.PROV3", Kind: "PROV", Run: func(w *core.World, id string) []core.Result {
			rs := core.ArgProvenance(w, id, calc, `^call sched\.NewExistingNode\(`, 0, `^\$2\[\(phi\(-1\|\(phi↺ \+ 1\)\) \+ 1\)\]$`, "the existing node wraps the iterated state node")
			rs = append(rs, core.ArgProvenance(w, id, calc, `^call sched\.NewExistingNode\(`, 2, `^\(\*state\.StateNode\)\.Taints\(\$2\[`, "its taints are the state node's in-flight view")...)
			const nen = "sched.NewExistingNode"
			rs = append(rs, core.InstrPresent(w, id, "PROV", nen, `^store &local<sched\.ExistingNode>\.remainingResources = utils/resources\.Subtract\(\(\*state\.StateNode\)\.Available\(\$0\), \$3\)$`, 1, "remaining = available − remaining daemon overhead")...)
			rs = append(rs, core.InstrPresent(w, id, "PROV", nen, `^store &local<sched\.ExistingNode>\.requirements = scheduling\.NewLabelRequirements\(\(\*state\.StateNode\)\.Labels\(\$0\)\)$`, 1, "requirements from the state node's label view")...)
			rs = append(rs, core.InstrPresent(w, id, "PROV", nen, `^store &local<sched\.ExistingNode>\.cachedTaints = \$2$`, 1, "taints as handed in")...)
			rs = append(rs, core.InstrPresent(w, id, "PROV", sn+"Available", `^return utils/resources\.Subtract\(\(\*state\.StateNode\)\.Allocatable\(\$0\), \(\*state\.StateNode\)\.PodRequests\(\$0\)\)$`, 1, "available = allocatable − bound pod requests")...)
			return rs
		}},

		// daemon overhead still expected on an existing / in-flight node counts exactly the daemons the node admits under
		// strict semantics (an undefined custom label does not admit); a superset shrinks the node and opens new capacity
		MPT{ID: "C04.MPT5", Fn: "(*sched.Scheduler).isDaemonPodCompatibleWithNode", Ret: core.RetTrue, Gates: gates(
			G(`+^\(scheduling\.Taints\)\.ToleratesPod\(\$2, \$1\) == nil$`),
			G(`+^\(scheduling\.Requirements\)\.Compatible\(scheduling\.NewLabelRequirements\(\$3\), scheduling\.NewStrictPodRequirements\(\$1\), nil\) == nil$`),
		)},
		DOM{ID: "C04.DOM5", Fn: "(*sched.Scheduler).getCompatibleDaemonPods", Sink: `^call append\(phi\(.*\), &local<\[1\]\*corev1\.Pod>\[:\]\)$`, Gates: gates(
			G(`+^\(\*sched\.Scheduler\)\.isDaemonPodCompatibleWithNode\(\$0, \$4\[.*\], \$3, \(\*state\.StateNode\)\.Labels\(\$2\)\)$`),
			G(`-^\(\*sched\.Scheduler\)\.shouldSkipDaemonPod\(\$0, \$4\[.*\]\)$`),
		)},
		core.Custom{ID: "C04.PROV4", Kind: "PROV", Run: func(w *core.World, id string) []core.Result {
			rs := core.ArgProvenance(w, id, calc, `^call sched\.NewExistingNode\(`, 3, `^utils/resources\.RequestsForPods\(\(\*sched\.Scheduler\)\.getCompatibleDaemonPods\(\$0, \$2\[.*\], \(\*state\.StateNode\)\.Taints\(.*\), \$3\)\)$`, "expected daemon overhead = requests of the compatible daemons for this node's taints and labels")
			rs = append(rs, core.InstrPresent(w, id, "PROV", "sched.NewExistingNode", `^call utils/resources\.SubtractFrom\(\$3, \(\*state\.StateNode\)\.DaemonSetRequests\(\$0\)\)$`, 1, "minus the daemons already running there")...)
			return rs
		}},

		// ---- (4) the in-flight view
		core.Custom{ID: "C04.VIEW1", Kind: "RET", Run: func(w *core.World, id string) []core.Result {
			rs := core.RetLeavesGuarded(w, id, "RET", sn+"Taints", 0, `^lo\.Reject\[corev1\.Taint, \[\]corev1\.Taint\]\(.*, closure:\(\*state\.StateNode\)\.Taints\$1\)$`,
				G(`+^\(\*state\.StateNode\)\.Initialized\(\$0\)$`, `-^\(\*state\.StateNode\)\.Managed\(\$0\)$`), 2,
				"unfiltered taints are returned only for initialized or unmanaged nodes")
			rs = append(rs, core.RetLeavesGuarded(w, id, "RET", sn+"Taints", 0, `NodeClaim\.Spec\.Taints$|^lo\.Reject\[`,
				G(`+^\(\*state\.StateNode\)\.Registered\(\$0\)$`, `-^\(\*state\.StateNode\)\.Managed\(\$0\)$`), 1,
				"Node taints are only used once the node is registered (or unmanaged)")...)
			rs = append(rs, core.ArgProvenance(w, id, sn+"Taints", `^call lo\.Reject\[corev1\.Taint`, 0, `^phi\(\$0\.Node\.Spec\.Taints\|\$0\.NodeClaim\.Spec\.Taints\)$`, "the filter is applied to the selected taints")...)
			return rs
		}},
		MPT{ID: "C04.VIEW1b", Fn: sn + "Taints$1", Ret: core.RetFalse, Gates: gates(
			G(`-^scheduling\.IsKnownEphemeralTaint\(\$0\)$`),
			G(`-^lo\.Find\[corev1\.Taint\]\(\^\$0\.NodeClaim\.Spec\.StartupTaints, closure:\(\*state\.StateNode\)\.Taints\$1\$1\)#1$`),
		), Note: "a taint is kept only if it is neither known-ephemeral nor a startup taint"},
		core.Custom{ID: "C04.VIEW1c", Kind: "PROV", Run: func(w *core.World, id string) []core.Result {
			return core.InstrPresent(w, id, "PROV", sn+"Taints$1$1", `^return \(\*corev1\.Taint\)\.MatchTaint\(\$0, \^\$0\)$`, 1, "startup taints are matched by key and effect")
		}},
		core.Custom{ID: "C04.VIEW3", Kind: "RET", Run: func(w *core.World, id string) []core.Result {
			rs := core.RetLeavesGuarded(w, id, "RET", sn+"Labels", 0, `^\$0\.NodeClaim\.ObjectMeta\.Labels$`,
				G(`+^\$0\.NodeClaim == nil$`, `+^\(\*state\.StateNode\)\.Registered\(\$0\)$`), 2, "Node labels are used only once registered (or unmanaged)")
			return rs
		}},
		core.Custom{ID: "C04.COPY1", Kind: "COPY", Run: func(w *core.World, id string) []core.Result {
			const pop = "life.PopulateNodeClaimDetails"
			var rs []core.Result
			for _, f := range []string{"ProviderID", "Allocatable", "Capacity"} {
				rs = append(rs, core.InstrPresent(w, id, "COPY", pop, `^store \$0\.Status\.`+f+` = \$1\.Status\.`+f+`$`, 1, "Status."+f+" copied from the provider's answer")...)
			}
			rs = append(rs, core.ArgProvenance(w, id, "(*life.Launch).Reconcile", `^call life\.PopulateNodeClaimDetails\(`, 1,
				`^phi\(\(\*github\.com/patrickmn/go-cache\.cache\)\.Get\(\$0\.cache\.cache, \$2\.ObjectMeta\.UID\)#0\.\(\*apis/v1\.NodeClaim\)\|\(\*life\.Launch\)\.launchNodeClaim\(\$0, \$2\)#0\)$`,
				"the details come from this NodeClaim's launch (or its cached result)")...)
			return rs
		}},

		// ---- (5) no pass while a NodeClaim is unlaunched
		DOM{ID: "C04.SYNC1", Fn: "(*prov.Provisioner).Reconcile", Sink: `^call \(\*prov\.Provisioner\)\.Schedule\(`, Gates: gates(G(synced))},
		MPT{ID: "C04.SYNC2", Fn: "(*state.Cluster).Synced", Ret: core.RetTrue, Min: 2, Gates: gates(
			G(`-^next\(range\(\$0\.nodeClaimNameToProviderID\)\)#0$`),
		)},
		IMPL{ID: "C04.SYNC3", Fn: "(*state.Cluster).Synced", Lit: `+^next\(range\(\$0\.nodeClaimNameToProviderID\)\)#2 == ""$`, Not: core.RetTrue, Min: 2},
		POST{ID: "C04.SYNC4", Fn: "(*prov.Provisioner).Create", From: `^call iface:\(cr/client\.Writer\)\.Create\(.*<\*apis/v1\.NodeClaim>`,
			Must: []string{`^call \(\*state\.Cluster\)\.UpdateNodeClaim\(\$0\.cluster, .*ToNodeClaim`}, To: core.RetOK},
		core.Custom{ID: "C04.SYNC5", Kind: "PROV", Run: func(w *core.World, id string) []core.Result {
			return core.InstrPresent(w, id, "PROV", "(*state.Cluster).UpdateNodeClaim", `^mapupdate \$0\.nodeClaimNameToProviderID\[\$1\.ObjectMeta\.Name\] = \$1\.Status\.ProviderID$`, 1, "name→provider id is recorded also while the id is empty")
		}},
	}
}
