package props

import (
	"golang.org/x/tools/go/ssa"
	"fmt"
	"strings"
	"regexp"

	"kverif/core"
)

func init() {
	core.Register(&core.Property{
		ID:    "C08",
		Title: "Replacements are ready before removal; failed actions roll back",
		Explanation: "Decides: (1) the candidate Delete in Queue.waitOrTerminate is dominated by multierr.Combine(waitErrs)==nil, every not-yet-initialized replacement either records an error, returns, or is latched Initialized only under Initialized.IsTrue of the NodeClaim fetched by the replacement's name; the timeout wrapper is deferred at entry; " +
			"(2) StartCommand's order: ¬HasAny → markDisrupted → (mark error tolerated only for delete-only commands with ≥1 marked candidate) → candidates narrowed to the marked ones → createReplacementNodeClaims==nil → MarkForDeletion → enqueue under the queue lock; no MarkForDeletion on an error edge; " +
			"(3) Queue.Reconcile: an unrecoverable error untaints (RequireNoScheduleTaint(false)), clears DisruptionReason and completes the command, a recoverable one requeues without completing; Succeeded is set only when waitOrTerminate returned nil; CompleteCommand unmarks for deletion unless Succeeded and deletes every candidate key; " +
			"(4) the disruption controller clears stale taints/conditions of nodes that are neither queued nor marked for deletion before any method runs (restart/abort recovery); " +
			"(5) Queue.ProviderIDToCommand is written only by StartCommand/CompleteCommand under the RWMutex; MarkForDeletion/UnmarkForDeletion have exactly those callers; " +
			"(6) (sweep triage) the wait loop of waitOrTerminate is left towards the Delete only exhausted or with an error recorded (DOM1b); a failed candidate Delete is recorded on its failing edge (POST7); HasAny answers true only for a queued id (MPT4b); " +
			"markDisrupted records a failed taint call in the candidate's slot and returns the combination of all slots (POST8, PROV7); CreateNodeClaims records a failed Create, returns the combination, stores each created name at the index of its claim, and createReplacementNodeClaims gives Replacements[i] the i-th created name (POST9, PROV7, PROV8); " +
			"IsUnrecoverableError answers false only for nil or an error not wrapping *UnrecoverableError (MPT5); StateNode.MarkedForDeletion answers true only for the in-memory mark or a node really being deleted (MPT6); " +
			"(7) lower layer of the rollback and of the restart recovery: state.RequireNoScheduleTaint(…, false, nodes) == nil means every listed node with Node and NodeClaim went through get → filter out the taints matching DisruptedNoScheduleTaint → patch against the copy taken before the edit (nil without a patch only if nothing changed or the node is being deleted), failures recorded per node and returned combined (UNT1–7b); " +
			"state.ClearNodeClaimsCondition(…, t, nodes) == nil means the same for clearing condition t on each initialized node's freshly read NodeClaim with a status patch (CLR1–6b).",
		NotCovered: []string{"that a failed DisruptionReason patch in markDisrupted is recorded (no clause of the statement depends on the condition being set, only on its removal)", "Command.CreationTimestamp being set before StartCommand (a zero timestamp makes every command time out on its first reconcile: progress only)", "the deferred timeout wrapper also wraps a nil result: a command whose replacements all turn Initialized on the first reconcile after the deadline still deletes its candidates and is then rolled back as timed out (observed while reading, not decided by any row)","intermediate states between two API calls under a crash are repaired by row (4): that the repair exists and runs first is decided, not that every intermediate state is benign", "provider-side behaviour", "the HasAny check and the insertion are separate critical sections (serialised by the singleton controller, not by the lock)"},
		Rules:      c08Rules,
	})
}

func c08Rules(tier string) []Rule {
	rs := append(c08RulesBase(tier), c08SweepRules()...)
	rs = append(rs, untaintRules("C08.UNT")...)
	rs = append(rs, clearConditionRules("C08.CLR")...)
	return append(rs,
		// every command waits for its *own* replacements: the Replacement records handed to a Command are built in the
		// iteration that builds the Command (a record shared by several commands latches Name / Initialized for all)
		core.Custom{ID: "C08.PROV6", Kind: "PROV", Run: func(w *core.World, id string) []core.Result {
			re := regexp.MustCompile(`^store &local<disr\.Command>\.Replacements = `)
			var out []core.Result
			n := 0
			for _, fn := range w.Fns {
				if !strings.HasPrefix(core.FnName(fn), "(*disr.") || core.IsTestSupport(fn) {
					continue
				}
				for _, s := range w.Sites(fn, re, false) {
					st := s.(*ssa.Store)
					n++
					r := w.Render(st.Val)
					if !strings.HasPrefix(r, "disr.replacementsFromNodeClaims(") {
						out = append(out, core.Bad(id, "PROV", "PROV:"+core.FnName(fn)+":replacements", w.InstrPos(s), "a command's replacements are `"+clipStr(r, 80)+"`, expected replacementsFromNodeClaims(results.NewNodeClaims...)"))
						continue
					}
					if def, ok := st.Val.(ssa.Instruction); ok && !core.SameIteration(def, st) {
						out = append(out, core.Bad(id, "PROV", "PROV:"+core.FnName(fn)+":replacements", w.InstrPos(s), "the replacement records are built outside the loop that builds the commands: every command of the pass shares (and overwrites) the same records"))
					}
				}
			}
			if n < 5 {
				out = append(out, core.Bad(id, "PROV", "PROV:disr:replacements", "", fmt.Sprintf("vacuous: %d command literals with replacements found, 5 confirmed by hand", n)))
			}
			if len(out) == 0 {
				out = append(out, core.OK(id, "PROV", "PROV:disr:replacements", n, "each command gets its own replacement records"))
			}
			return out
		}})
}

func c08RulesBase(tier string) []Rule {
	const (
		wot   = "(*disr.Queue).waitOrTerminate"
		start = "(*disr.Queue).StartCommand"
		qrec  = "(*disr.Queue).Reconcile"
		comp  = "(*disr.Queue).CompleteCommand"
		ctrl  = "(*disr.Controller).Reconcile"
		mark  = "(*disr.Queue).markDisrupted"
		crepl = "(*disr.Queue).createReplacementNodeClaims"
	)
	cmdv := `\$0\.ProviderIDToCommand\[\$2\.Status\.ProviderID\]#0`
	getRepl := `iface:\(cr/client\.Reader\)\.Get\(\$0\.kubeClient, &local<apim/types\.NamespacedName>, <\*apis/v1\.NodeClaim>&local<apis/v1\.NodeClaim>, nil\)`
	initd := `\(\*opkg/status\.Condition\)\.IsTrue\(\(opkg/status\.ConditionSet\)\.Get\(\(\*apis/v1\.NodeClaim\)\.StatusConditions\(&local<apis/v1\.NodeClaim>, nil\), "Initialized"\)\)`
	outdated := `lo\.Reject\[\*state\.StateNode, state\.StateNodes\]\(\(\*state\.Cluster\)\.DeepCopyNodes\(.*\), closure:\(\*disr\.Controller\)\.Reconcile\$\d+\)`
	return []Rule{
		// ---- waitOrTerminate
		DOM{ID: "C08.DOM1", Fn: wot, Sink: ncDelete, Gates: gates(
			G(`+^go\.uber\.org/multierr\.Combine\(makeslice<\[\]error>\) == nil$`),
		)},
		core.Custom{ID: "C08.PROV1", Kind: "PROV", Run: func(w *core.World, id string) []core.Result {
			rs := core.ArgProvenance(w, id, wot, ncDelete, 2, `^\^\^\$2\.Candidates\[\^\$0\]\.StateNode\.NodeClaim$`, "the NodeClaims deleted are the command's candidates")
			// the slice combined is the one the wait loop writes into (same allocation)
			rs = append(rs, core.InstrPresent(w, id, "PROV", wot, `^store &local<apim/types\.NamespacedName>\.Name = \$2\.Replacements\[.*\]\.Name$`, 1, "the NodeClaim inspected is fetched by the replacement's name")...)
			return rs
		}},
		DOM{ID: "C08.DOM2", Fn: wot, Sink: `^store \$2\.Replacements\[.*\]\.Initialized = true$`, Gates: gates(
			G(`+^`+initd+`$`),
			G(`+^`+getRepl+` == nil$`),
		)},
		WMC{ID: "C08.WMC2", Sink: `^store .*\.Initialized = `, Allowed: []string{wot},
			Note: "Replacement.Initialized is latched only by waitOrTerminate"},
		POST{ID: "C08.MPT1a", Fn: wot, FromLit: `-^` + initd + `$`, Shallow: true,
			Must: []string{`^store makeslice<\[\]error>\[.*\] = (opkg/serrors\.Wrap|fmt\.Errorf)\(`}, Note: "a replacement that is not Initialized records an error"},
		POST{ID: "C08.MPT1b", Fn: wot, FromLit: `-^` + getRepl + ` == nil$`, Shallow: true,
			Must: []string{`^store makeslice<\[\]error>\[.*\] = fmt\.Errorf\(`, `^call disr\.NewUnrecoverableError\(`}, Note: "a replacement that cannot be read records an error or aborts the command"},
		DOM{ID: "C08.DOM3", Fn: wot, Sink: `^call disr\.NewUnrecoverableError\(fmt\.Errorf\("replacement was deleted`, Gates: gates(
			G(`+^apim/api/errors\.IsNotFound\(`+getRepl+`\)$`),
			G(`-^\(\*state\.Cluster\)\.NodeClaimExists\(\$0\.cluster, \$2\.Replacements\[.*\]\.Name\)$`),
		)},
		core.Custom{ID: "C08.POST1", Kind: "POST", Run: c08Timeout},
		// the delete workers record failures, and the function returns their combination
		core.Custom{ID: "C08.PROV2", Kind: "PROV", Run: func(w *core.World, id string) []core.Result {
			return core.InstrPresent(w, id, "PROV", wot, `^store \^makeslice<\[\]error>\[\$0\] = cr/client\.IgnoreNotFound\(k8s\.io/client-go/util/retry\.OnError\(`, 1, "a failed candidate Delete is recorded so the command is retried")
		}},

		// ---- StartCommand
		DOM{ID: "C08.DOM4", Fn: start, Sink: `^call \(\*state\.Cluster\)\.MarkForDeletion\(\$0\.cluster, lo\.Map\[\*disr\.Candidate, string\]\(\$2\.Candidates, `, Gates: gates(
			G(`-^\(\*disr\.Queue\)\.HasAny\(\$0, lo\.Map\[\*disr\.Candidate, string\]\(\$2\.Candidates, .*\)\)$`),
			G(`instr:^call \(\*disr\.Queue\)\.markDisrupted\(\$0, \$2\)$`),
			G(`+^\(\*disr\.Queue\)\.markDisrupted\(\$0, \$2\)#1 == nil$`, `-^len\(\$2\.Replacements\)>=1$`),
			G(`+^\(\*disr\.Queue\)\.markDisrupted\(\$0, \$2\)#1 == nil$`, `+^len\(\(\*disr\.Queue\)\.markDisrupted\(\$0, \$2\)#0\)>=1$`),
			G(`instr:^store \$2\.Candidates = \(\*disr\.Queue\)\.markDisrupted\(\$0, \$2\)#0$`),
			G(`+^\(\*disr\.Queue\)\.createReplacementNodeClaims\(\$0, \$2\) == nil$`),
		)},
		DOM{ID: "C08.DOM4b", Fn: start, Sink: `^call \(\*disr\.Queue\)\.createReplacementNodeClaims\(\$0, \$2\)`, Gates: gates(
			G(`-^\(\*disr\.Queue\)\.HasAny\(`),
			G(`instr:^call \(\*disr\.Queue\)\.markDisrupted\(\$0, \$2\)$`),
			G(`+^\(\*disr\.Queue\)\.markDisrupted\(\$0, \$2\)#1 == nil$`, `-^len\(\$2\.Replacements\)>=1$`),
			G(`instr:^store \$2\.Candidates = \(\*disr\.Queue\)\.markDisrupted\(\$0, \$2\)#0$`),
		)},
		DOM{ID: "C08.DOM4c", Fn: start, Sink: `^mapupdate \$0\.ProviderIDToCommand\[\(\*state\.StateNode\)\.ProviderID\(\$2\.Candidates\[.*\]\.StateNode\)\] = \$2$`, Gates: gates(
			G(`instr:^call \(\*state\.Cluster\)\.MarkForDeletion\(`),
			G(`+^\(\*disr\.Queue\)\.createReplacementNodeClaims\(\$0, \$2\) == nil$`),
		)},
		// success ⇒ queued: every nil return of StartCommand has passed the insertion and the wake-up send
		MPT{ID: "C08.MPT0", Fn: start, Ret: core.RetNilConst, Gates: gates(
			G(`instr:^call \(\*state\.Cluster\)\.MarkForDeletion\(`),
			G(`instr:^send \$0\.source <- `),
		)},
		MPT{ID: "C08.MPT0b", Fn: crepl, Ret: core.RetNilConst, Gates: gates(
			G(`+^\(\*prov\.Provisioner\)\.CreateNodeClaims\(\$0\.provisioner, lo\.Map\[\*disr\.Replacement, \*sched\.NodeClaim\]\(\$2\.Replacements, .*\)#1 == nil$`),
			G(`+^len\(\$2\.Replacements\) == len\(\(\*prov\.Provisioner\)\.CreateNodeClaims\(.*\)#0\)$`),
		)},
		// markDisrupted: tainting uses `true`, only successfully marked candidates are returned
		core.Custom{ID: "C08.PROV3", Kind: "PROV", Run: func(w *core.World, id string) []core.Result {
			return core.InstrPresent(w, id, "PROV", mark, `^call state\.RequireNoScheduleTaint\(\^\$0\.kubeClient, true, `, 1, "candidates are cordoned with the disruption taint")
		}},
		DOM{ID: "C08.DOM6", Fn: mark, Sink: `^call append\(phi\(nil\|`, Shallow: true, Gates: gates(
			G(`+^makeslice<\[\]error>\[.*\] == nil$`),
		)},

		// ---- Queue.Reconcile
		DOM{ID: "C08.MPT2a", Fn: qrec, Sink: `^store ` + cmdv + `\.Succeeded = true$`, Gates: gates(
			G(`+^\(\*disr\.Queue\)\.waitOrTerminate\(\$0, ` + cmdv + `\) == nil$`),
		)},
		WMC{ID: "C08.WMC3", Sink: `^store .*\.Succeeded = `, Allowed: []string{qrec}},
		DOM{ID: "C08.MPT2b", Fn: qrec, Sink: `^call \(\*disr\.Queue\)\.CompleteCommand\(\$0, ` + cmdv + `\)`, Gates: gates(
			G(`+^\(\*disr\.Queue\)\.waitOrTerminate\(\$0, `+cmdv+`\) == nil$`, `+^disr\.IsUnrecoverableError\(\(\*disr\.Queue\)\.waitOrTerminate\(\$0, `+cmdv+`\)\)$`),
			G(`+^\$0\.ProviderIDToCommand\[\$2\.Status\.ProviderID\]#1$`),
		)},
		POST{ID: "C08.MPT2c", Fn: qrec, FromLit: `+^disr\.IsUnrecoverableError\(`, Must: []string{`^call state\.RequireNoScheduleTaint\(\$0\.kubeClient, false, lo\.Map\[\*disr\.Candidate, \*state\.StateNode\]\(` + cmdv + `\.Candidates, `}},
		POST{ID: "C08.MPT2d", Fn: qrec, FromLit: `+^disr\.IsUnrecoverableError\(`, Must: []string{`^call state\.ClearNodeClaimsCondition\(\$0\.kubeClient, \$0\.clock, "DisruptionReason", lo\.Map\[\*disr\.Candidate, \*state\.StateNode\]\(` + cmdv + `\.Candidates, `}},
		POST{ID: "C08.MPT2e", Fn: qrec, FromLit: `+^disr\.IsUnrecoverableError\(`, Must: []string{`^call \(\*disr\.Queue\)\.CompleteCommand\(\$0, ` + cmdv + `\)`}},
		NOREACH{ID: "C08.NR1", Fn: qrec, FromLit: `-^disr\.IsUnrecoverableError\(`, Sink: `^call \(\*disr\.Queue\)\.CompleteCommand\(|^store .*\.Succeeded = `},
		// the mapping closure of the rollback hands over the candidates' state nodes
		core.Custom{ID: "C08.PROV4", Kind: "PROV", Run: func(w *core.World, id string) []core.Result {
			f := w.Fn("@arg:" + qrec + `|^call lo\.Map\[\*disr\.Candidate, \*state\.StateNode\]\(|1`)
			if f == nil {
				return []core.Result{core.Bad(id, "PROV", "PROV:"+qrec+":rollback-nodes", "", "the candidate→StateNode mapping of the rollback cannot be resolved")}
			}
			if len(w.SitesOr(f, regexp.MustCompile(`^return \$0\.StateNode$`), false, 1)) == 0 {
				return []core.Result{core.Bad(id, "PROV", "PROV:"+qrec+":rollback-nodes", w.Pos(f.Pos()), "the rollback no longer targets each candidate's own StateNode")}
			}
			return []core.Result{core.OK(id, "PROV", "PROV:"+qrec+":rollback-nodes", 1, "rollback targets the candidates' state nodes")}
		}},

		// ---- CompleteCommand
		DOM{ID: "C08.DOM5", Fn: comp, Sink: `^call \(\*state\.Cluster\)\.UnmarkForDeletion\(\$0\.cluster, lo\.Map\[\*disr\.Candidate, string\]\(\$1\.Candidates, `, Gates: gates(
			G(`-^\$1\.Succeeded$`),
		)},
		POST{ID: "C08.POST2", Fn: comp, FromLit: `-^\$1\.Succeeded$`, Must: []string{`^call \(\*state\.Cluster\)\.UnmarkForDeletion\(`}},
		core.Custom{ID: "C08.POST3", Kind: "POST", Run: func(w *core.World, id string) []core.Result {
			rs := core.InstrPresent(w, id, "POST", comp, `^call delete\(\$0\.ProviderIDToCommand, \(\*state\.StateNode\)\.ProviderID\(\$1\.Candidates\[.*\]\.StateNode\)\)$`, 1, "every candidate key is removed from the queue")
			d := DOM{ID: id, Fn: comp, Sink: `^call delete\(\$0\.ProviderIDToCommand, `, Gates: gates(G(`+^\(phi\(-1\|\(phi↺ \+ 1\)\) \+ 1\) < len\(\$1\.Candidates\)$`))}
			return append(rs, d.Check(w)...)
		}},

		// ---- who marks / unmarks, who writes the queue map
		// the mark / unmark helpers handle every id of the batch (no early exit on a missing node)
		DOM{ID: "C08.LOOP1", Fn: "(*state.Cluster).UnmarkForDeletion", Sink: `^return`, Shallow: true, Gates: gates(G(`-^\(phi\(.*\) \+ 1\) < len\(\$1\)$`)), Note: "returns only after the loop over all provider ids is exhausted"},
		DOM{ID: "C08.LOOP2", Fn: "(*state.Cluster).MarkForDeletion", Sink: `^return`, Shallow: true, Gates: gates(G(`-^\(phi\(.*\) \+ 1\) < len\(\$1\)$`))},
		POST{ID: "C08.POST4", Fn: "(*state.Cluster).UnmarkForDeletion", FromLit: `+^\$0\.nodes\[\$1\[.*\]\]#1$`, Must: []string{`^store \$0\.nodes\[\$1\[.*\]\]#0\.markedForDeletion = false$`}, Note: "every known id is unmarked"},
		POST{ID: "C08.POST5", Fn: "(*state.Cluster).MarkForDeletion", FromLit: `+^\$0\.nodes\[\$1\[.*\]\]#1$`, Must: []string{`^store \$0\.nodes\[\$1\[.*\]\]#0\.markedForDeletion = true$`}, Note: "every known id is marked"},
		POST{ID: "C08.POST6", Fn: "(*state.Cluster).UnmarkForDeletion", From: `^store \$0\.nodes\[\$1\[.*\]\]#0\.markedForDeletion = false$`,
			Must: []string{`^call \(\*state\.NodePoolState\)\.MarkNodeClaimActive\(\$0\.NodePoolState, `},
			Excuse: []string{`+^\$0\.nodes\[\$1\[.*\]\]#0\.NodeClaim == nil$`, `-^\(\*metav1\.Time\)\.IsZero\(\$0\.nodes\[\$1\[.*\]\]#0\.NodeClaim\.ObjectMeta\.DeletionTimestamp\)$`},
			Note: "an unmarked, not-deleting NodeClaim counts as active again in the NodePool state"},
		WMC{ID: "C08.WMC1a", Sink: `^(call|go|defer) \(\*state\.Cluster\)\.MarkForDeletion\(`, Allowed: []string{start}, Required: []string{start}},
		WMC{ID: "C08.WMC1b", Sink: `^(call|go|defer) \(\*state\.Cluster\)\.UnmarkForDeletion\(`, Allowed: []string{comp}, Required: []string{comp}},
		WMC{ID: "C08.WMC1c", Sink: `^mapupdate \S*\.ProviderIDToCommand\[|^call delete\(\S*\.ProviderIDToCommand, |^store \S*\.ProviderIDToCommand = `,
			Allowed: []string{start, comp, "disr.NewQueue"}, Required: []string{start, comp}},
		WMC{ID: "C08.WMC1d", Sink: `^(call|go|defer) \(\*disr\.Queue\)\.(StartCommand)\(`, Allowed: []string{"(*disr.Controller).disrupt"}, Required: []string{"(*disr.Controller).disrupt"}},
		WMC{ID: "C08.WMC1e", Sink: `^(call|go|defer) \(\*disr\.Queue\)\.(CompleteCommand|waitOrTerminate)\(`, Allowed: []string{qrec}, Required: []string{qrec}},
		core.Custom{ID: "C08.LOCK1", Kind: "LOCK", Run: func(w *core.World, id string) []core.Result {
			return core.LockDiscipline(w, id, core.LockSpec{Type: "disr.Queue", Mutex: "RWMutex", Fields: []string{"ProviderIDToCommand"}, Constructor: []string{"disr.NewQueue"}, MinAccesses: 6})
		}},

		// ---- restart / abort recovery in the controller
		DOM{ID: "C08.MPT3", Fn: ctrl, Sink: `^call \(\*disr\.Controller\)\.disrupt\(`, Gates: gates(
			G(`+^\(\*state\.Cluster\)\.Synced\(\$0\.cluster\)$`),
			G(`+^state\.RequireNoScheduleTaint\(\$0\.kubeClient, false, `+outdated+`\) == nil$`),
			G(`+^state\.ClearNodeClaimsCondition\(\$0\.kubeClient, \$0\.clock, "DisruptionReason", `+outdated+`\) == nil$`),
		)},
		MPT{ID: "C08.MPT3b", Fn: "@arg:" + ctrl + `|^call lo\.Reject\[\*state\.StateNode, state\.StateNodes\]\(|1`, Ret: core.RetFalse, Gates: gates(
			G(`-^\(\*disr\.Queue\)\.HasAny\(\^\$0\.queue, `),
			G(`-^\(\*state\.StateNode\)\.MarkedForDeletion\(\$0\)$`),
		), Note: "a node is treated as outdated (untainted) only if it is neither queued nor marked for deletion"},
		MPT{ID: "C08.MPT3c", Fn: "@arg:" + ctrl + `|^call lo\.Reject\[\*state\.StateNode, state\.StateNodes\]\(|1`, Ret: core.RetTrue, Gates: gates(
			G(`+^\(\*disr\.Queue\)\.HasAny\(\^\$0\.queue, `, `+^\(\*state\.StateNode\)\.MarkedForDeletion\(\$0\)$`),
		)},
		core.Custom{ID: "C08.PROV5", Kind: "PROV", Run: func(w *core.World, id string) []core.Result {
			f := w.Fn("@arg:" + ctrl + `|^call lo\.Reject\[\*state\.StateNode, state\.StateNodes\]\(|1`)
			if f == nil {
				return []core.Result{core.Bad(id, "PROV", "PROV:"+ctrl+":outdated", "", "the outdated-node predicate cannot be resolved")}
			}
			return core.InstrPresent(w, id, "PROV", "@arg:"+ctrl+`|^call lo\.Reject\[\*state\.StateNode, state\.StateNodes\]\(|1`,
				`^store &local<\[1\]string>\[0\] = \(\*state\.StateNode\)\.ProviderID\(\$0\)$`, 1, "queue membership is tested with the node's own provider id")
		}},
		// HasAny: true as soon as one id is present
		IMPL{ID: "C08.IMPL1", Fn: "(*disr.Queue).HasAny", Lit: `+^\$0\.ProviderIDToCommand\[\$1\[.*\]\]#1$`, Not: core.RetFalse},
		MPT{ID: "C08.MPT4", Fn: "(*disr.Queue).HasAny", Ret: core.RetFalse, Gates: gates(G(`-^\(phi\(-1\|\(phi↺ \+ 1\)\) \+ 1\) < len\(\$1\)$`))},
	}
}

// C08.POST1: the timeout wrapper is deferred at the entry of waitOrTerminate and turns the result into an
// unrecoverable error once the command is older than the retry duration.
func c08Timeout(w *core.World, id string) []core.Result {
	const wot = "(*disr.Queue).waitOrTerminate"
	fn := w.Fn(wot)
	if fn == nil {
		return []core.Result{core.Anchor(id, "POST", wot)}
	}
	construct := "POST:" + wot + ":timeout"
	defers := w.Sites(fn, regexp.MustCompile(`^defer \(\*disr\.Queue\)\.waitOrTerminate\$\d+\(`), false)
	if len(defers) == 0 || defers[0].Block() != fn.Blocks[0] {
		return []core.Result{core.Bad(id, "POST", construct, w.Pos(fn.Pos()), "the timeout wrapper is no longer deferred unconditionally at function entry: a command can wait for replacements forever and its candidates stay tainted")}
	}
	d := DOM{ID: id, Fn: wot, Sink: `^store \^&local<error> = <\*disr\.UnrecoverableError>disr\.NewUnrecoverableError\(|^store \^&local<error> = disr\.NewUnrecoverableError\(`, Gates: gates(
		G(`+^\^\(\*disr\.Queue\)\.GetMaxRetryDuration\(\$0\) < iface:\(k8s\.io/utils/clock\.PassiveClock\)\.Since\(\^\$0\.clock, \^\$2\.CreationTimestamp\)$`),
	)}
	rs := d.Check(w)
	// and conversely the timeout branch does set the error
	p := POST{ID: id, Fn: wot, FromLit: `+^\^\(\*disr\.Queue\)\.GetMaxRetryDuration\(\$0\) < iface:\(k8s\.io/utils/clock\.PassiveClock\)\.Since\(`, Must: []string{`^store \^&local<error> = `}}
	return append(rs, p.Check(w)...)
}

// c08SweepRules: facts the statement relies on that no row stated before the triage of the mutation sweep over the anchored
// files (variants and controls: selftest/mutants_extra/tC08.py).
func c08SweepRules() []Rule {
	const (
		wot    = "(*disr.Queue).waitOrTerminate"
		mark   = "(*disr.Queue).markDisrupted"
		crepl  = "(*disr.Queue).createReplacementNodeClaims"
		cncs   = "(*prov.Provisioner).CreateNodeClaims"
		hasAny = "(*disr.Queue).HasAny"
	)
	create := `\(\*prov\.Provisioner\)\.Create\(\^\$0, \^\$2\[\$0\], \^\$3\)`
	return []Rule{
		// DOM1 reads "Combine(waitErrs) == nil" as "every replacement is Initialized". That holds only if the wait loop looked at
		// every replacement: the Delete is reached either over the loop's exhausted edge or after an error was recorded (a
		// `break` out of the loop on an already-initialized replacement leaves the rest unexamined with nil slots).
		// an unrecoverable verdict makes Queue.Reconcile roll the command back (untaint, clear the condition, unmark). It may
		// therefore only be produced for a pass that FAILED: either the result is already an error when the timeout wrapper
		// runs, or a replacement has vanished (decided in the loop, before any candidate is deleted). A pass that deleted the
		// candidates and is then turned into a "timeout" both deletes and rolls back (F12)
		DOM{ID: "C08.DOM12", Fn: "(*disr.Queue).waitOrTerminate", Sink: `^store \^?&local<error> = disr\.NewUnrecoverableError\(`, Min: 2, Gates: gates(
			G(`-^\^?&local<error> == nil$`, `+^apim/api/errors\.IsNotFound\(iface:\(cr/client\.Reader\)\.Get\(`),
		), Note: "an unrecoverable (rollback) verdict only for a failed pass or a vanished replacement"},
		DOM{ID: "C08.DOM1b", Fn: wot, Sink: ncDelete, Gates: gates(
			G(`-^\(phi\(-1\|\(phi↺ \+ 1\)\) \+ 1\) < len\(\$2\.Replacements\)$`, `instr:^store makeslice<\[\]error>\[.*\] = \S+\(`),
		), Note: "the wait loop leaves early only with an error recorded"},
		// a failed candidate Delete is recorded on the failing edge (PROV2 only finds the store): otherwise the command is
		// completed as Succeeded with a candidate that was never deleted and stays tainted and marked for ever
		POST{ID: "C08.POST7", Fn: wot, FromLit: `-^` + retryOnErr + ` == nil$`, Must: []string{`^store \^makeslice<\[\]error>\[\$0\] = cr/client\.IgnoreNotFound\(`},
			Note: "the edge on which the candidate Delete failed stores the worker's error"},
		// HasAny answers true only for an id that is in the queue (MPT4/IMPL1 state the other direction): "always true" makes
		// every node look queued — nothing is ever disrupted and, worse, the restart recovery (MPT3b) never finds an outdated
		// node, so taints left by a crash stay
		MPT{ID: "C08.MPT4b", Fn: hasAny, Ret: core.RetTrue, Gates: gates(G(`+^\$0\.ProviderIDToCommand\[\$1\[.*\]\]#1$`))},
		// markDisrupted: a candidate whose taint call failed gets an error in its slot (DOM6 keeps exactly the candidates with a
		// nil slot; DOM4 lets StartCommand go on only for markDisrupted#1 == nil or a delete-only command), and the error handed
		// to StartCommand is the combination of all slots
		workerRecordsFailure("C08.POST8", mark, `state\.RequireNoScheduleTaint\(\^\$0\.kubeClient, true, .*\)`, "a candidate that could not be cordoned is not reported as marked"),
		core.Custom{ID: "C08.PROV7", Kind: "PROV", Run: func(w *core.World, id string) []core.Result {
			return append(returnsCombinedErrors(w, id, mark), returnsCombinedErrors(w, id, cncs)...)
		}},
		// CreateNodeClaims (what MPT0b's `#1 == nil` means): a failed Create is recorded in the worker's slot, the created name
		// goes into the slot of the claim it was created for
		workerRecordsFailure("C08.POST9", cncs, create+`#1`, "a replacement that could not be created fails the batch"),
		core.Custom{ID: "C08.PROV8", Kind: "PROV", Run: func(w *core.World, id string) []core.Result {
			rs := core.InstrPresent(w, id, "PROV", cncs, `^store \^makeslice<\[\]string>\[\$0\] = `+create+`#0$`, 1, "the name of a created NodeClaim is stored at the index of the claim it was created for")
			rs = append(rs, core.InstrPresent(w, id, "PROV", cncs, `^return makeslice<\[\]string>, `, 1, "the names handed back are the workers' slots")...)
			return append(rs, c08ReplacementNames(w, id, crepl)...)
		}},
		// IsUnrecoverableError answers false only for nil or for an error that does not wrap *UnrecoverableError: a classifier
		// that misses the class requeues a timed-out / orphaned command for ever (MPT2c–e never run, the candidates stay tainted)
		MPT{ID: "C08.MPT5", Fn: "disr.IsUnrecoverableError", Ret: core.RetFalse, Gates: gates(
			G(`+^\$0 == nil$`, `-^errors\.As\(\$0, <\*\*disr\.UnrecoverableError>.*\)$`),
		)},
		// after the rollback the node counts again: MarkedForDeletion answers true only for the in-memory mark (cleared by
		// UnmarkForDeletion, POST4) or a node that is really being deleted
		MPT{ID: "C08.MPT6", Fn: "(*state.StateNode).MarkedForDeletion", Ret: core.RetTrue, Gates: gates(
			G(`+^\$0\.markedForDeletion$`, `+^\(\*state\.StateNode\)\.Deleted\(\$0\)$`),
		)},
	}
}

// c08ReplacementNames (part of C08.PROV8): createReplacementNodeClaims stores, into Replacements[i].Name, the i-th name
// CreateNodeClaims returned — waitOrTerminate fetches each replacement by that name (PROV1), so a shifted or constant index
// makes the command wait for the wrong (or for one single) NodeClaim.
func c08ReplacementNames(w *core.World, id, fnName string) []core.Result {
	fn := w.Fn(fnName)
	if fn == nil {
		return []core.Result{core.Anchor(id, "PROV", fnName)}
	}
	construct := "PROV:" + fnName + ":Replacements[i].Name=names[i]"
	storeRe := regexp.MustCompile(`^store \$2\.Replacements\[.*\]\.Name = `)
	namesRe := regexp.MustCompile(`^\(\*prov\.Provisioner\)\.CreateNodeClaims\(.*\)#0$`)
	index := func(v ssa.Value) (base, idx ssa.Value) {
		for i := 0; i < 6 && v != nil; i++ {
			switch x := v.(type) {
			case *ssa.UnOp:
				v = x.X
			case *ssa.FieldAddr:
				v = x.X
			case *ssa.IndexAddr:
				return x.X, x.Index
			case *ssa.Index:
				return x.X, x.Index
			default:
				return nil, nil
			}
		}
		return nil, nil
	}
	var out []core.Result
	n := 0
	w.WithHelpers(fn, func(f *ssa.Function, _ ssa.Instruction) {
		for _, s := range w.Sites(f, storeRe, true) {
			st, ok := s.(*ssa.Store)
			if !ok {
				continue
			}
			n++
			_, di := index(st.Addr)
			sb, si := index(st.Val)
			switch {
			case di == nil || si == nil || sb == nil:
				out = append(out, core.Bad(id, "PROV", construct, w.InstrPos(s), "the replacement's name is `"+clipStr(w.Render(st.Val), 100)+"`: not an indexed element of the created names (idiom not recognised)"))
			case !namesRe.MatchString(w.Render(sb)):
				out = append(out, core.Bad(id, "PROV", construct, w.InstrPos(s), "the replacement's name is taken from `"+clipStr(w.Render(sb), 100)+"`, expected the names CreateNodeClaims returned"))
			case di != si && w.Render(di) != w.Render(si):
				out = append(out, core.Bad(id, "PROV", construct, w.InstrPos(s), "Replacements["+clipStr(w.Render(di), 40)+"].Name is set to names["+clipStr(w.Render(si), 40)+"]: the command would wait for another NodeClaim than the one created for this replacement"))
			}
		}
	})
	if n == 0 {
		out = append(out, core.Bad(id, "PROV", construct, w.Pos(fn.Pos()), "vacuous: no store to Replacements[i].Name in "+fnName+" (1 confirmed by hand)"))
	}
	if len(out) == 0 {
		out = append(out, core.OK(id, "PROV", construct, n, "each replacement is given the name created for it"))
	}
	return out
}
