package props

import (
	"fmt"
	"go/constant"
	"regexp"
	"strings"

	"kverif/core"

	"golang.org/x/tools/go/ssa"
)

func init() {
	core.Register(&core.Property{
		ID:    "C10",
		Title: "Drain honours PDBs, do-not-disrupt and ordering until the deadline",
		Explanation: "Decides: (1) pods are removed only through the eviction sub-resource (Queue.evict) or, as the single direct Delete of a Pod in the module, Queue.forceDelete; every client Delete site has a statically known object type; " +
			"(2) Queue.Reconcile reaches forceDelete only under needsForceDelete and evict only under ¬needsForceDelete ∧ IsActive ∧ IsEvictable, with the deadline read from the queue entry; " +
			"(3) needsForceDelete is true only with a node deadline and (terminating ∧ eligible, or a pod grace period and now after deadline − grace); the force-delete grace period is clamped by a constant ≥ 1 and carries a UID precondition; " +
			"(4) the queue's deadline map is written only in Add with earlier(existing, new) (min with nil = +∞) and deleted only in complete, always under the mutex; " +
			"(5) Drain enqueues the first non-empty priority group only, groups are ordered (non-critical non-daemon, non-critical daemon, critical non-daemon, critical daemon), only needsForceDelete pods bypass tiering, and Drain's cone contains no delete/evict call; " +
			"(6) the pod predicates IsEvictable / IsDrainable / IsWaitingEviction imply their documented literals; " +
			"(7) a queue entry (which carries the earliest deadline) is dropped by complete() only from Reconcile / evict / forceDelete and only when the eviction or delete call returned nil, the API server answered NotFound or Conflict, or the pod is no longer active — never after a refused eviction (429 / PDB) or another error; " +
			"(8) on every path of Drain after the waiting set is computed the tier-bypassing (needsForceDelete) batch is handed to Queue.Add unless it is empty, before any tier can return; " +
			"(9) Taints.Tolerates reports an error only for a taint that no toleration tolerated and returns nothing else, and ToleratesPod judges the pod's own tolerations (so a pod tolerating karpenter.sh/disrupted is recognised); " +
			"(10) IsOwnedBy answers true only for an owner reference equal in APIVersion and Kind to a wanted kind, true as soon as one is found, false only after all were tried; IsOwnedByNode asks for exactly {v1, Node} and IsOwnedByDaemonSet for exactly {apps, v1, DaemonSet}; IsDrainable is false only for tolerating / stuck-terminating / static pods and IsStuckTerminating presupposes IsTerminating; parseDoNotDisrupt rejects only unparsable or non-positive durations and returns the parsed one; " +
			"(11) the deadline: Drain is called only from awaitDrain with the time it was given, the termination steps receive nodeTerminationTime(node, NodeClaim), and that function returns either nil or the parsed karpenter.sh/nodeclaim-termination-timestamp annotation (non-nil only with a NodeClaim, the annotation present and a nil parse error).",
		NotCovered: []string{"PDB enforcement by the API server", "timing between drain passes and queue reconciles", "value of pod grace periods",
			"who writes the karpenter.sh/nodeclaim-termination-timestamp annotation and whether it matches spec.terminationGracePeriod (C16 decides that side); a deadline derived in another way than parsing that annotation is reported and has to be re-confirmed",
			"liveness of the queue (an entry that is never completed, a pod that is queued but whose event is never sent, a mutex that is not released): entries leak or pods stay, no pod is removed wrongly",
			"the one-minute threshold of IsStuckTerminating, IsTerminal / IsTerminating themselves (reading them wrongly stops evictions or crashes on a nil deletion timestamp; it does not evict a protected pod)",
			"corev1.Toleration.ToleratesTaint and schema.GroupVersion.String themselves; whether the two index expressions compared in IsOwnedBy belong to the same owner reference / wanted kind (the loops' index values render alike)",
			"which slice the emptiness test in front of the tier-bypassing Add looks at is decided on the rendering only (the two batches of Drain render alike; C09.MPT1b identifies the batch as an SSA value for the final test)"},
		Rules:      c10Rules,
	})
}

const (
	podDelete = `^call iface:\(cr/client\.Writer\)\.Delete\(.*<\*corev1\.Pod>`
	podEvict  = `^call iface:\(cr/client\.SubResourceWriter\)\.Create\(iface:\(cr/client\.SubResourceClientConstructor\)\.SubResource\(.*, "eviction"\)`
)

func c10Rules(tier string) []Rule {
	return append(c10RulesBase(tier), toleratesRules("C10")...)
}

func c10RulesBase(tier string) []Rule {
	const (
		qrec  = "(*tor.Queue).Reconcile"
		fdel  = "(*tor.Queue).forceDelete"
		evict = "(*tor.Queue).evict"
		drain = "(*tor.Terminator).Drain"
	)
	entry := `\$0\.items\[tor\.NewQueueKey\(\$2\)\]`
	rules := []Rule{
		WMC{ID: "C10.WMC1", Sink: podDelete, Allowed: []string{fdel}, Required: []string{fdel}},
		WMC{ID: "C10.WMC2", Sink: podEvict, Allowed: []string{evict}, Required: []string{evict}},
		core.Custom{ID: "C10.WMC0", Kind: "WMC", Run: c10TypedDeletes},
		WMC{ID: "C10.WMC4", Sink: `^(call|go|defer) \(\*tor\.Queue\)\.(forceDelete|evict)\(`, Allowed: []string{qrec}, Required: []string{qrec}},
		// any other sub-resource create (bindings, evictions through another name) is unclassified
		WMC{ID: "C10.WMC5", Sink: `^call iface:\(cr/client\.SubResourceWriter\)\.Create\(`, Allowed: []string{evict}},

		DOM{ID: "C10.DOM1", Fn: qrec, Sink: `^call \(\*tor\.Queue\)\.forceDelete\(\$0, \$2, ` + entry + `#0\)`, Gates: gates(
			G(`+^tor\.needsForceDelete\(\$2, `+entry+`#0, \$0\.clock\)$`),
			G(`+^`+entry+`#1$`),
		)},
		DOM{ID: "C10.DOM2", Fn: qrec, Sink: `^call \(\*tor\.Queue\)\.evict\(\$0, \$2\)`, Gates: gates(
			G(`-^tor\.needsForceDelete\(\$2, `+entry+`#0, \$0\.clock\)$`),
			G(`+^utils/pod\.IsActive\(\$2\)$`),
			G(`+^utils/pod\.IsEvictable\(\$2, \$0\.clock, \$0\.recorder\)$`),
			G(`+^`+entry+`#1$`),
		)},
		// a non-evictable active pod stays queued (requeue), it is not completed
		NOREACH{ID: "C10.NR1", Fn: qrec, FromLit: `-^utils/pod\.IsEvictable\(\$2, \$0\.clock, \$0\.recorder\)$`, Sink: `^call \(\*tor\.Queue\)\.(complete|evict|forceDelete)\(`},

		// needsForceDelete
		MPT{ID: "C10.TT1", Fn: "tor.needsForceDelete", Ret: core.RetTrue, Min: 2, Gates: gates(
			G(`-^\$1 == nil$`),
			G(`+^utils/pod\.IsTerminating\(\$0\)$`, `-^\$0\.Spec\.TerminationGracePeriodSeconds == nil$`),
			G(`+^utils/pod\.IsPodEligibleForForcedEviction\(\$0, \$1\)$`, `+^\(time\.Time\)\.After\(iface:\(k8s\.io/utils/clock\.PassiveClock\)\.Now\(\$2\), \(time\.Time\)\.Add\(\$1, `),
		)},
		core.Custom{ID: "C10.ORD0", Kind: "ORD", Run: c10DeleteTime},
		MPT{ID: "C10.TT1b", Fn: "utils/pod.IsPodEligibleForForcedEviction", Ret: core.RetTrue, Gates: gates(
			G(`-^\$1 == nil$`),
			G(`+^utils/pod\.IsTerminating\(\$0\)$`),
			G(`+^\(time\.Time\)\.After\(\$0\.ObjectMeta\.DeletionTimestamp\.Time, \$1\)$`, `+^\(\*metav1\.Time\)\.After\(\$0\.ObjectMeta\.DeletionTimestamp, .*\$1`),
		)},
		core.Custom{ID: "C10.ORD1", Kind: "ORD", Run: c10GraceClamp},

		// queue bookkeeping
		WMC{ID: "C10.WMC3a", Sink: `^mapupdate \$0\.items\[`, Allowed: []string{"(*tor.Queue).Add"}, Required: []string{"(*tor.Queue).Add"},
			Note: "restricted below to the eviction queue's map by type"},
		core.Custom{ID: "C10.WMC3", Kind: "WMC", Run: c10Items},
		MPT{ID: "C10.ORD2a", Fn: "tor.earlier", Ret: core.RetSpec{Index: 0, Want: "any", Also: `^return \$0$`}, Gates: gates(
			G(`-^\$0 == nil$`),
			G(`+^\$1 == nil$`, `+^\(time\.Time\)\.Before\(\$0, \$1\)$`, `-^\(time\.Time\)\.Before\(\$1, \$0\)$`, `+^\(time\.Time\)\.After\(\$1, \$0\)$`, `-^\(time\.Time\)\.After\(\$0, \$1\)$`),
		)},
		MPT{ID: "C10.ORD2b", Fn: "tor.earlier", Ret: core.RetSpec{Index: 0, Want: "any", Also: `^return \$1$`}, Gates: gates(
			G(`+^\$0 == nil$`, `-^\$1 == nil$`),
			G(`+^\$0 == nil$`, `-^\(time\.Time\)\.Before\(\$0, \$1\)$`, `+^\(time\.Time\)\.Before\(\$1, \$0\)$`, `-^\(time\.Time\)\.After\(\$1, \$0\)$`, `+^\(time\.Time\)\.After\(\$0, \$1\)$`),
		)},
		core.Custom{ID: "C10.ORD2c", Kind: "ORD", Run: func(w *core.World, id string) []core.Result {
			// earlier returns one of its arguments on every path
			fn := w.Fn("tor.earlier")
			if fn == nil {
				return []core.Result{core.Anchor(id, "ORD", "tor.earlier")}
			}
			for _, s := range w.ReturnSinks(fn, core.RetAny) {
				r := w.RenderInstr(s.Ret)
				if r != "return $0" && r != "return $1" {
					return []core.Result{core.Bad(id, "ORD", "ORD:tor.earlier:results", w.InstrPos(s.Ret), "earlier returns `"+r+"`, expected one of its two arguments on every path")}
				}
			}
			return []core.Result{core.OK(id, "ORD", "ORD:tor.earlier:results", 1, "every path returns one of the arguments")}
		}},
		core.Custom{ID: "C10.LOCK1", Kind: "LOCK", Run: func(w *core.World, id string) []core.Result {
			return core.LockDiscipline(w, id, core.LockSpec{Type: "tor.Queue", Mutex: "Mutex", Fields: []string{"items"}, Constructor: []string{"tor.NewQueue"}, MinAccesses: 4})
		}},

		// Drain
		CONE{ID: "C10.CONE1", Roots: []string{drain}, MinSize: 5,
			Forbidden: []string{`^call iface:\(cr/client\.Writer\)\.(Delete|DeleteAllOf)\(`, `^call iface:\(cr/client\.SubResourceWriter\)\.Create\(`, `^call \(\*tor\.Queue\)\.(forceDelete|evict)\(`}},
		NOREACH{ID: "C10.NR2", Fn: drain, From: `^call \(\*tor\.Queue\)\.Add\(\$0\.evictionQueue, \$3, \(\*tor\.Terminator\)\.groupPodsByPriority\(`, Sink: `^call \(\*tor\.Queue\)\.Add\(`,
			Note: "after the first non-empty tier is enqueued nothing else is enqueued in this pass"},
		core.Custom{ID: "C10.PROV1", Kind: "PROV", Run: func(w *core.World, id string) []core.Result {
			rs := core.ArgProvenanceN(w, id, drain, `^call \(\*tor\.Queue\)\.Add\(`, 1, `^\$3$`, "pods are queued under the node deadline handed to Drain", 2)
			return rs
		}},
		DOM{ID: "C10.DOM3", Fn: drain, Sink: `^call \(\*tor\.Queue\)\.Add\(\$0\.evictionQueue, \$3, \(\*tor\.Terminator\)\.groupPodsByPriority\(`, Gates: gates(
			G(`+^len\(\(\*tor\.Terminator\)\.groupPodsByPriority\(.*\)\[.*\]\)>=1$`),
		)},
		core.Custom{ID: "C10.DOM4", Kind: "DOM", Run: c10Bypass},
		// the tier gate judges EVERY waiting pod that is not force-delete eligible: a pod left out of both batches (or put into
		// a group that is not returned) is invisible to the ordering, so a later tier is released while it is still on the node
		// (the partition rows of C09, which needs them for "drained ⇒ nothing waiting")
		core.Custom{ID: "C10.PART1", Kind: "PROV", Run: c09DrainPartition},
		core.Custom{ID: "C10.PART2", Kind: "REG", Run: c09GroupsReturned},
		ITER{ID: "C10.PART3", Fn: "(*tor.Terminator).groupPodsByPriority", Loop: `+^\(phi\(-1\|\(phi↺ \+ 1\)\) \+ 1\) < len\(\$1\)$`, Gates: gates(
			G(`instr:^call append\(phi\(nil\|.*, &local<\[1\]\*corev1\.Pod>\[:\]\)$`),
		)},
		core.Custom{ID: "C10.REG1", Kind: "REG", Run: c10Groups},
	}
	rules = append(rules, podPredicateRules("C10")...)
	rules = append(rules, c10SweepRules()...)
	return rules
}

// c10SweepRules: the facts found unguarded by the C10 mutation sweep (sweep/C10.missed.txt and the pod predicates read
// by hand).
func c10SweepRules() []Rule {
	const (
		qrec  = "(*tor.Queue).Reconcile"
		fdel  = "(*tor.Queue).forceDelete"
		evict = "(*tor.Queue).evict"
		drain = "(*tor.Terminator).Drain"
		tol   = "(scheduling.Taints).Tolerates"
		pkgp  = "utils/pod."
	)
	complete := `^call \(\*tor\.Queue\)\.complete\(\$0, \$2\)`
	evErr := `iface:\(cr/client\.SubResourceWriter\)\.Create\(iface:\(cr/client\.SubResourceClientConstructor\)\.SubResource\(\$0\.kubeClient, "eviction"\), <\*corev1\.Pod>\$2, .*\)`
	delErr := `iface:\(cr/client\.Writer\)\.Delete\(\$0\.kubeClient, <\*corev1\.Pod>\$2, .*\)`
	// "this taint is not tolerated": the flag of the toleration loop is false (or its combinator form says no)
	notTolerated := G(`-^phi\(false\|phi\(true\|\(\*corev1\.Toleration\)\.ToleratesTaint\(`,
		`-^lo\.Find\[corev1\.Toleration\]\(\$1, closure:.*\)#1$`, `-^lo\.(ContainsBy|SomeBy)\[corev1\.Toleration\]\(\$1, closure:.*\)$`)
	owner := `\$0\.ObjectMeta\.OwnerReferences\[.*\]`
	gvString := `\(apim/runtime/schema\.GroupVersion\)\.String\(\(apim/runtime/schema\.GroupVersionKind\)\.GroupVersion\(\$1\[.*\]\)\)`
	sameAPIVersion := []string{`^` + owner + `\.APIVersion == ` + gvString + `$`, `^` + gvString + ` == ` + owner + `\.APIVersion$`}
	sameKind := []string{`^` + owner + `\.Kind == \$1\[.*\]\.Kind$`, `^\$1\[.*\]\.Kind == ` + owner + `\.Kind$`}
	plus := func(ps []string) []string {
		var out []string
		for _, p := range ps {
			out = append(out, "+"+p)
		}
		return out
	}
	annotation := `\$2\.ObjectMeta\.Annotations\["karpenter\.sh/nodeclaim-termination-timestamp"\]`
	return []Rule{
		// ---- the queue entry carries the earliest deadline a pod was queued under (WMC3/ORD2). It can only do so while it
		// exists: an entry dropped while the pod is still there and still to be removed is re-created by the next drain pass
		// under whatever deadline that pass was handed. So complete(pod) runs only when the API server accepted the removal
		// (nil error), when it says the pod is gone / is another pod (NotFound, Conflict), or when the pod is no longer active
		WMC{ID: "C10.WMC6", Sink: `^(call|go|defer) \(\*tor\.Queue\)\.complete\(`, Allowed: []string{qrec, evict, fdel}, Required: []string{qrec, evict, fdel}},
		DOM{ID: "C10.DOM5", Fn: evict, Sink: complete, Min: 2, Gates: gates(
			G(`+^`+evErr+` == nil$`, `+^apim/api/errors\.IsNotFound\(`+evErr+`\)$`, `+^apim/api/errors\.IsConflict\(`+evErr+`\)$`),
		), Note: "an eviction the API server refused (429: a PDB) leaves the entry, and with it the deadline, in place"},
		DOM{ID: "C10.DOM6", Fn: fdel, Sink: complete, Min: 2, Gates: gates(
			G(`+^`+delErr+` == nil$`, `+^apim/api/errors\.IsNotFound\(`+delErr+`\)$`, `+^apim/api/errors\.IsConflict\(`+delErr+`\)$`),
		), Note: "Conflict = the UID precondition failed: the pod under this name is another pod"},
		DOM{ID: "C10.DOM7", Fn: qrec, Sink: complete, Gates: gates(
			G(`-^utils/pod\.IsActive\(\$2\)$`),
		)},

		// ---- the pods that bypass the tiers are exempt from the ordering only because they are being removed now: on every
		// path of Drain after the waiting set is computed the bypass batch is handed to Queue.Add, unless it is empty
		// (a past-deadline non-critical pod that is neither tiered nor queued stays while critical pods are evicted)
		POST{ID: "C10.POST1", Fn: drain, From: `^call lo\.Filter\[\*corev1\.Pod, \[\]\*corev1\.Pod\]\(utils/node\.GetPods\(`,
			Must:   []string{`^call \(\*tor\.Queue\)\.Add\(\$0\.evictionQueue, \$3, phi\(nil\|.*\)$`, `^call \(\*tor\.Queue\)\.Add\(\$0\.evictionQueue, \$3, .*#\d+\)$`},
			Excuse: []string{`-^len\(phi\(nil\|.*\)>=[01]$`, `-^len\(.*#\d+\)>=[01]$`},
			Note:   "which batch this is (the needsForceDelete one) is decided by DOM4"},

		// ---- "tolerates the disruption taint": ToleratesDisruptedNoScheduleTaint is `ToleratesPod(...) == nil` (TTp7), so a pod
		// that does tolerate the taint is protected only if Tolerates reports an error for a taint solely when no toleration
		// tolerated it, and if the tolerations judged are the pod's
		DOM{ID: "C10.TOL2", Fn: tol, Sink: `^call go\.uber\.org/multierr\.Append\(`, Gates: gates(notTolerated)},
		core.Custom{ID: "C10.TOL3", Kind: "RET", Run: func(w *core.World, id string) []core.Result {
			return core.RetLeavesGuarded(w, id, "RET", tol, 0, `^nil$`, notTolerated, 1, "Tolerates returns a non-nil error only for a taint that no toleration tolerated")
		}},
		core.Custom{ID: "C10.TOL4", Kind: "PROV", Run: func(w *core.World, id string) []core.Result {
			return core.InstrPresent(w, id, "PROV", "(scheduling.Taints).ToleratesPod", `^return \(scheduling\.Taints\)\.Tolerates\(\$0, \$1\.Spec\.Tolerations\)$`, 1, "ToleratesPod judges the pod's own tolerations against the receiver's taints")
		}},

		// ---- owner tests: "static pod" (IsEvictable / IsDrainable) and "daemon pod" (the tiers) are IsOwnedBy over a fixed
		// kind. IsOwnedBy answers true only for an owner reference whose APIVersion and Kind both equal the wanted ones,
		// answers true once such a reference is found, and answers false only after all wanted kinds were tried
		MPT{ID: "C10.TTp8", Fn: pkgp + "IsOwnedBy", Ret: core.RetTrue, Gates: gates(G(plus(sameAPIVersion)...), G(plus(sameKind)...))},
		core.Custom{ID: "C10.TTp8b", Kind: "IMPL", Run: func(w *core.World, id string) []core.Result {
			// whichever of the two comparisons is made last decides: after it holds, false is out of reach
			var vacuous, violated []core.Result
			for _, l := range append(append([]string{}, sameKind...), sameAPIVersion...) {
				rs := IMPL{ID: id, Fn: pkgp + "IsOwnedBy", Lit: "+" + l, Not: core.RetFalse}.Check(w)
				switch {
				case len(rs) == 1 && rs[0].Status == core.Discharged:
					return rs
				case len(rs) > 0 && strings.HasPrefix(rs[0].Msg, "vacuous"):
					vacuous = rs
				case violated == nil:
					violated = rs // reported in terms of the Kind comparison when neither closes the question
				}
			}
			if violated != nil {
				return violated
			}
			return vacuous
		}},
		MPT{ID: "C10.TTp8c", Fn: pkgp + "IsOwnedBy", Ret: core.RetFalse, Gates: gates(G(`-^\(phi\(-1\|\(phi↺ \+ 1\)\) \+ 1\) < len\(\$1\)$`, `-^len\(\$1\)>=1$`))},
		core.Custom{ID: "C10.TTp9", Kind: "PROV", Run: func(w *core.World, id string) []core.Result {
			return c10OwnerKind(w, id, pkgp+"IsOwnedByNode", "", "v1", "Node", "a static (mirror) pod is a pod owned by its v1 Node")
		}},
		core.Custom{ID: "C10.TTp10", Kind: "PROV", Run: func(w *core.World, id string) []core.Result {
			return c10OwnerKind(w, id, pkgp+"IsOwnedByDaemonSet", "apps", "v1", "DaemonSet", "a daemon pod is a pod owned by an apps/v1 DaemonSet")
		}},
		// a pod is left out of the waiting set (and so of the tier gate) only for the documented reasons; "stuck terminating"
		// presupposes that the pod's removal has already been requested
		MPT{ID: "C10.TTp2b", Fn: pkgp + "IsDrainable", Ret: core.RetFalse, Gates: gates(
			G(`+^utils/pod\.ToleratesDisruptedNoScheduleTaint\(\$0\)$`, `+^utils/pod\.IsStuckTerminating\(\$0, \$1\)$`, `+^utils/pod\.IsOwnedByNode\(\$0\)$`),
		)},
		MPT{ID: "C10.TTp11", Fn: pkgp + "IsStuckTerminating", Ret: core.RetTrue, Gates: gates(G(`+^utils/pod\.IsTerminating\(\$0\)$`))},
		// a duration-valued do-not-disrupt annotation is rejected (and then treated as absent, TTp6) only when it does not
		// parse or is not positive; the duration handed back is the parsed one
		MPT{ID: "C10.TTp6d", Fn: pkgp + "parseDoNotDisrupt", Ret: core.RetSpec{Index: -1, Want: "nonnil"}, Min: 2, Gates: gates(
			G(`-^time\.ParseDuration\(\$0\)#1 == nil$`, `-^0 < time\.ParseDuration\(\$0\)#0$`, `+^time\.ParseDuration\(\$0\)#0 < 1$`),
		)},
		core.Custom{ID: "C10.TTp6e", Kind: "PROV", Run: func(w *core.World, id string) []core.Result {
			return core.InstrPresent(w, id, "PROV", pkgp+"parseDoNotDisrupt", `^return time\.ParseDuration\(\$0\)#0, nil$`, 1, "an accepted do-not-disrupt duration is the parsed annotation value")
		}},

		// ---- "only when the NodeClaim has a termination grace period": the deadline Drain works with (PROV1, TT1) is the
		// NodeClaim's karpenter.sh/nodeclaim-termination-timestamp annotation, or nil
		WMC{ID: "C10.WMC7", Sink: `^(call|go|defer) \(\*tor\.Terminator\)\.Drain\(`, Allowed: []string{"(*term.Controller).awaitDrain"}, Required: []string{"(*term.Controller).awaitDrain"}},
		core.Custom{ID: "C10.PROV2", Kind: "PROV", Run: func(w *core.World, id string) []core.Result {
			rs := core.ArgProvenance(w, id, "(*term.Controller).awaitDrain", `^call \(\*tor\.Terminator\)\.Drain\(`, 3, `^\$4$`, "awaitDrain hands Drain the node termination time it was given")
			return append(rs, core.ArgProvenance(w, id, "(*term.Controller).finalize", `^call dyn:&local<\[3\]term\.terminationFunc>`, 3,
				`^\(\*term\.Controller\)\.nodeTerminationTime\(\$0, \$2, utils/node\.NodeClaimForNode\(\$0\.kubeClient, \$2\)#0\)#0$`, "the termination steps receive nodeTerminationTime(node, its NodeClaim)")...)
		}},
		MPT{ID: "C10.MPT2", Fn: "(*term.Controller).nodeTerminationTime", Ret: core.RetSpec{Index: 0, Want: "nonnil"}, Gates: gates(
			G(`-^\$2 == nil$`),
			G(`+^`+annotation+`#1$`),
			G(`+^time\.Parse\(.*, `+annotation+`#0\)#1 == nil$`),
		)},
		core.Custom{ID: "C10.RET1", Kind: "RET", Run: func(w *core.World, id string) []core.Result {
			// no value other than nil and the parsed annotation is ever returned
			const ntt = "(*term.Controller).nodeTerminationTime"
			fn := w.Fn(ntt)
			if fn == nil {
				return []core.Result{core.Anchor(id, "RET", ntt)}
			}
			allowed := regexp.MustCompile(`^nil$|^time\.Parse\(.*, ` + annotation + `#0\)#0$`)
			n, parsed := 0, 0
			var out []core.Result
			for _, s := range w.ReturnSinks(fn, core.RetAny) {
				seen := map[ssa.Value]bool{}
				var visit func(v ssa.Value)
				visit = func(v ssa.Value) {
					if phi, ok := v.(*ssa.Phi); ok {
						if !seen[v] {
							seen[v] = true
							for _, e := range phi.Edges {
								visit(e)
							}
						}
						return
					}
					n++
					r := w.RenderD(v, 8)
					if !allowed.MatchString(r) {
						out = append(out, core.Bad(id, "RET", "RET:"+ntt+":deadline", w.InstrPos(s.Ret), "the node deadline handed to Drain can be `"+r+"`: expected nil or the parsed karpenter.sh/nodeclaim-termination-timestamp annotation of the NodeClaim (pods may be deleted directly only under that deadline)"))
					} else if r != "nil" {
						parsed++
					}
				}
				visit(core.ResolveRet(s.Ret, 0))
			}
			if parsed == 0 {
				out = append(out, core.Bad(id, "RET", "RET:"+ntt+":deadline", w.Pos(fn.Pos()), "vacuous: the parsed termination-timestamp annotation is never returned"))
			}
			if len(out) == 0 {
				out = append(out, core.OK(id, "RET", "RET:"+ntt+":deadline", n, "the node deadline is nil or the parsed termination-timestamp annotation of the NodeClaim"))
			}
			return out
		}},
	}
}

// c10OwnerKind: fn is `return IsOwnedBy(pod, []GroupVersionKind{{group, version, kind}})` with exactly that one kind.
func c10OwnerKind(w *core.World, id, fnName, group, version, kind, what string) []core.Result {
	fn := w.Fn(fnName)
	if fn == nil {
		return []core.Result{core.Anchor(id, "PROV", fnName)}
	}
	construct := "PROV:" + fnName + ":kind"
	bad := func(msg string) []core.Result {
		return []core.Result{core.Bad(id, "PROV", construct, w.Pos(fn.Pos()), what+": "+msg)}
	}
	if len(w.SitesOr(fn, regexp.MustCompile(`^return utils/pod\.IsOwnedBy\(\$0, &local<\[1\]apim/runtime/schema\.GroupVersionKind>\[:\]\)$`), false, 1)) == 0 {
		return bad("the answer is no longer IsOwnedBy(pod, <one GroupVersionKind>)")
	}
	re := regexp.MustCompile(`^store &local<apim/runtime/schema\.GroupVersionKind>\.(Group|Version|Kind) = (.*)$`)
	got := map[string]string{"Group": `""`, "Version": `""`, "Kind": `""`}
	n := 0
	for _, s := range w.SitesOr(fn, re, false, 1) {
		m := re.FindStringSubmatch(w.RenderInstr(s))
		got[m[1]] = m[2]
		n++
	}
	want := map[string]string{"Group": fmt.Sprintf("%q", group), "Version": fmt.Sprintf("%q", version), "Kind": fmt.Sprintf("%q", kind)}
	for _, f := range []string{"Group", "Version", "Kind"} {
		if got[f] != want[f] {
			return bad(fmt.Sprintf("the owner %s tested is %s, expected %s", f, got[f], want[f]))
		}
	}
	return []core.Result{core.OK(id, "PROV", construct, n, what)}
}

// podPredicateRules: implications of the pod predicates shared by C07 and C10.
func podPredicateRules(p string) []Rule {
	return []Rule{
		MPT{ID: p + ".TTp1", Fn: "utils/pod.IsEvictable", Ret: core.RetTrue, Gates: gates(
			G(`+^utils/pod\.IsActive\(\$0\)$`),
			G(`-^utils/pod\.ToleratesDisruptedNoScheduleTaint\(\$0\)$`),
			G(`-^utils/pod\.IsOwnedByNode\(\$0\)$`),
			G(`-^utils/pod\.IsDoNotDisruptActive\(\$0, \$1, \$2\)$`),
		)},
		MPT{ID: p + ".TTp2", Fn: "utils/pod.IsDrainable", Ret: core.RetTrue, Gates: gates(
			G(`-^utils/pod\.ToleratesDisruptedNoScheduleTaint\(\$0\)$`),
			G(`-^utils/pod\.IsStuckTerminating\(\$0, \$1\)$`),
			G(`-^utils/pod\.IsOwnedByNode\(\$0\)$`),
		)},
		MPT{ID: p + ".TTp3", Fn: "utils/pod.IsWaitingEviction", Ret: core.RetTrue, Gates: gates(
			G(`-^utils/pod\.IsTerminal\(\$0\)$`),
			G(`+^utils/pod\.IsDrainable\(\$0, \$1\)$`),
		)},
		// a drainable, non-terminal pod IS waiting (drain must not finish while it exists)
		MPT{ID: p + ".TTp3b", Fn: "utils/pod.IsWaitingEviction", Ret: core.RetFalse, Gates: gates(
			G(`+^utils/pod\.IsTerminal\(\$0\)$`, `-^utils/pod\.IsDrainable\(\$0, \$1\)$`),
		)},
		MPT{ID: p + ".TTp4", Fn: "utils/pod.IsActive", Ret: core.RetTrue, Gates: gates(
			G(`-^utils/pod\.IsTerminal\(\$0\)$`),
			G(`-^utils/pod\.IsTerminating\(\$0\)$`),
		)},
		MPT{ID: p + ".TTp5", Fn: "utils/pod.IsDisruptable", Ret: core.RetTrue, Gates: gates(
			G(`-^utils/pod\.IsActive\(\$0\)$`, `-^utils/pod\.IsDoNotDisruptActive\(\$0, \$1, \$2\)$`),
		)},
		// do-not-disrupt: "true" is active; a valid duration without start time is active; elapsed only by age ≥ duration
		MPT{ID: p + ".TTp6", Fn: "utils/pod.IsDoNotDisruptActive", Ret: core.RetFalse, Gates: gates(
			G(`+^\$0\.ObjectMeta\.Annotations == nil$`, `-^\$0\.ObjectMeta\.Annotations\["karpenter\.sh/do-not-disrupt"\]#1$`,
				`-^utils/pod\.parseDoNotDisrupt\(.*\)#1 == nil$`,
				`-^\(time\.Time\)\.Sub\(iface:\(k8s\.io/utils/clock\.PassiveClock\)\.Now\(\$1\), \$0\.Status\.StartTime\.Time\) < utils/pod\.parseDoNotDisrupt\(\$0\.ObjectMeta\.Annotations\["karpenter\.sh/do-not-disrupt"\]#0\)#0$`),
		)},
		IMPL{ID: p + ".TTp6b", Fn: "utils/pod.IsDoNotDisruptActive", Lit: `+^\$0\.ObjectMeta\.Annotations\["karpenter\.sh/do-not-disrupt"\]#0 == "true"$`, Not: core.RetFalse},
		IMPL{ID: p + ".TTp6c", Fn: "utils/pod.IsDoNotDisruptActive", Lit: `+^\$0\.Status\.StartTime == nil$`, Not: core.RetFalse},
		MPT{ID: p + ".TTp7", Fn: "utils/pod.ToleratesDisruptedNoScheduleTaint", Ret: core.RetTrue, Gates: gates(
			G(`+^\(scheduling\.Taints\)\.ToleratesPod\(.*, \$0\) == nil$`),
		)},
		core.Custom{ID: p + ".TTp7b", Kind: "PROV", Run: func(w *core.World, id string) []core.Result {
			return core.InstrPresent(w, id, "PROV", "utils/pod.ToleratesDisruptedNoScheduleTaint", `^store &local<\[1\]corev1\.Taint>\[0\] = apis/v1\.DisruptedNoScheduleTaint$`, 1, "the taint tested is karpenter.sh/disrupted:NoSchedule")
		}},
	}
}

// C10.WMC0: every client Delete/DeleteAllOf in non-test code names a concrete object type, and it is one of the classified ones.
func c10TypedDeletes(w *core.World, id string) []core.Result {
	re := regexp.MustCompile(`^(call|go|defer) iface:\(cr/client\.Writer\)\.(Delete|DeleteAllOf)\(`)
	typ := regexp.MustCompile(`<\*(apis/v1\.NodeClaim|corev1\.Node|corev1\.Pod)>`)
	var out []core.Result
	n := 0
	for _, fn := range w.Fns {
		if core.IsTestSupport(fn) {
			continue
		}
		for _, s := range w.Sites(fn, re, false) {
			n++
			ci := s.(ssa.CallInstruction)
			args := core.CallArgs(ci.Common())
			r := w.RenderInstr(s)
			if len(args) < 3 || !typ.MatchString(r) || strings.Contains(r, "DeleteAllOf") {
				out = append(out, core.Bad(id, "WMC", "WMC:typed-deletes@"+core.FnName(core.RootFn(fn)), w.InstrPos(s),
					"client Delete whose object type is not statically one of NodeClaim/Node/Pod (or a DeleteAllOf): `"+r+"` — it may remove pods outside the eviction path"))
			}
		}
	}
	if len(out) == 0 {
		out = append(out, core.OK(id, "WMC", "WMC:typed-deletes", n, fmt.Sprintf("%d Delete sites, all with a classified concrete object type", n)))
	}
	return out
}

// C10.ORD0: the force-delete threshold is nodeTerminationTime − pod grace period.
func c10DeleteTime(w *core.World, id string) []core.Result {
	fn := w.Fn("tor.needsForceDelete")
	if fn == nil {
		return []core.Result{core.Anchor(id, "ORD", "tor.needsForceDelete")}
	}
	re := regexp.MustCompile(`^\(time\.Time\)\.Add\(\$1, \(\(\$0\.Spec\.TerminationGracePeriodSeconds \* 1000000000\) \* -1\)\)$|^\(time\.Time\)\.Add\(\$1, \(-?\$0\.Spec\.TerminationGracePeriodSeconds \* -?1000000000\)\)$`)
	for _, b := range fn.Blocks {
		for _, in := range b.Instrs {
			if c, ok := in.(*ssa.Call); ok && w.CalleeName(c.Common()) == "(time.Time).Add" {
				r := w.RenderD(c, 12)
				if re.MatchString(r) {
					return []core.Result{core.OK(id, "ORD", "ORD:tor.needsForceDelete:deleteTime", 1, "deleteTime = deadline − grace·1s")}
				}
				return []core.Result{core.Bad(id, "ORD", "ORD:tor.needsForceDelete:deleteTime", w.InstrPos(in), "the force-delete threshold is `"+r+"`, expected nodeTerminationTime − pod.TerminationGracePeriodSeconds·1s")}
			}
		}
	}
	return []core.Result{core.Bad(id, "ORD", "ORD:tor.needsForceDelete:deleteTime", w.Pos(fn.Pos()), "no deadline − grace computation found")}
}

// C10.ORD1: DeleteOptions.GracePeriodSeconds of the force delete is max(x, c) with constant c ≥ 1 and a UID precondition is set.
func c10GraceClamp(w *core.World, id string) []core.Result {
	const fdel = "(*tor.Queue).forceDelete"
	fn := w.Fn(fdel)
	if fn == nil {
		return []core.Result{core.Anchor(id, "ORD", fdel)}
	}
	construct := "ORD:" + fdel + ":grace"
	var out []core.Result
	found := false
	for _, b := range fn.Blocks {
		for _, in := range b.Instrs {
			st, ok := in.(*ssa.Store)
			if !ok {
				continue
			}
			fa, ok := st.Addr.(*ssa.FieldAddr)
			if !ok || !strings.HasSuffix(w.Render(fa), ".GracePeriodSeconds") {
				continue
			}
			found = true
			// value: lo.ToPtr(max(_, c)) | &x where x = max(...)
			v := st.Val
			if c, ok := v.(*ssa.Call); ok && strings.HasPrefix(w.CalleeName(c.Common()), "lo.ToPtr[") && len(c.Call.Args) == 1 {
				v = c.Call.Args[0]
			}
			okClamp := false
			if c, ok := v.(*ssa.Call); ok {
				if bi, ok := c.Call.Value.(*ssa.Builtin); ok && bi.Name() == "max" {
					for _, a := range c.Call.Args {
						if k, ok := a.(*ssa.Const); ok && k.Value != nil && k.Value.Kind() == constant.Int {
							if i, _ := constant.Int64Val(k.Value); i >= 1 {
								okClamp = true
							}
						}
					}
				}
			}
			if !okClamp {
				out = append(out, core.Bad(id, "ORD", construct, w.InstrPos(in), "GracePeriodSeconds of the force delete is `"+w.RenderD(st.Val, 6)+"`: not clamped from below by a constant ≥ 1 (a zero grace period force-removes the pod from etcd)"))
			}
		}
	}
	if !found {
		out = append(out, core.Bad(id, "ORD", construct, w.Pos(fn.Pos()), "the force delete no longer sets DeleteOptions.GracePeriodSeconds"))
	}
	if len(w.SitesOr(fn, regexp.MustCompile(`^store &local<metav1\.Preconditions>\.UID = `), false, 1)) == 0 ||
		len(w.SitesOr(fn, regexp.MustCompile(`^store &local<cr/client\.DeleteOptions>\.Preconditions = &local<metav1\.Preconditions>$`), false, 1)) == 0 {
		out = append(out, core.Bad(id, "ORD", construct+":uid", w.Pos(fn.Pos()), "the force delete no longer carries a UID precondition (a same-named replacement pod could be deleted)"))
	}
	if len(out) == 0 {
		out = append(out, core.OK(id, "ORD", construct, 1, "grace = max(x, c≥1); UID precondition set"))
	}
	return out
}

// C10.WMC3: writes to the eviction queue's deadline map.
func c10Items(w *core.World, id string) []core.Result {
	var out []core.Result
	n := 0
	for _, fn := range w.Fns {
		if core.IsTestSupport(fn) || core.FnPkg(fn) != "controllers/node/termination/terminator" {
			continue
		}
		for _, b := range fn.Blocks {
			for _, in := range b.Instrs {
				r := ""
				switch x := in.(type) {
				case *ssa.MapUpdate:
					if !strings.HasSuffix(w.Render(x.Map), ".items") {
						continue
					}
					n++
					r = w.RenderInstr(in)
					if core.FnName(fn) != "(*tor.Queue).Add" || !regexp.MustCompile(`^mapupdate \$0\.items\[tor\.NewQueueKey\((.*)\)\] = tor\.earlier\(\$0\.items\[tor\.NewQueueKey\((.*)\)\]#0, \$1\)$`).MatchString(r) {
						out = append(out, core.Bad(id, "WMC", "WMC:tor.Queue.items@"+core.FnName(fn), w.InstrPos(in),
							"the deadline of a queued pod is written as `"+r+"`: only Add may write it, as earlier(existing, new), so a later drain pass can never push the deadline out"))
					}
				case *ssa.Call:
					if bi, ok := x.Call.Value.(*ssa.Builtin); ok && bi.Name() == "delete" && len(x.Call.Args) > 0 && strings.HasSuffix(w.Render(x.Call.Args[0]), ".items") {
						n++
						if core.FnName(fn) != "(*tor.Queue).complete" {
							out = append(out, core.Bad(id, "WMC", "WMC:tor.Queue.items@"+core.FnName(fn), w.InstrPos(in), "queue entries may only be removed by complete()"))
						}
					}
				case *ssa.Store:
					if strings.HasSuffix(w.Render(x.Addr), ".items") && core.FnName(fn) != "tor.NewQueue" {
						n++
						out = append(out, core.Bad(id, "WMC", "WMC:tor.Queue.items@"+core.FnName(fn), w.InstrPos(in), "the deadline map is replaced wholesale outside the constructor"))
					}
				}
			}
		}
	}
	if n < 2 {
		return []core.Result{core.Bad(id, "WMC", "WMC:tor.Queue.items", "", "vacuous: map update / delete of Queue.items not found")}
	}
	if len(out) == 0 {
		out = append(out, core.OK(id, "WMC", "WMC:tor.Queue.items", n, "written only in Add as earlier(existing, new); deleted only in complete"))
	}
	return out
}

// C10.DOM4: only pods for which needsForceDelete holds enter the batch that bypasses the priority tiers.
func c10Bypass(w *core.World, id string) []core.Result {
	const drain = "(*tor.Terminator).Drain"
	fn := w.Fn(drain)
	if fn == nil {
		return []core.Result{core.Anchor(id, "DOM", drain)}
	}
	construct := "DOM:" + drain + ":bypass"
	// the Add that is not fed by groupPodsByPriority
	var bypass ssa.Value
	for _, s := range w.Sites(fn, regexp.MustCompile(`^call \(\*tor\.Queue\)\.Add\(\$0\.evictionQueue, \$3, `), false) {
		if a := s.(*ssa.Call).Call.Args[2]; !strings.Contains(w.Render(a), "groupPodsByPriority(") {
			bypass = a
		}
	}
	if bypass == nil {
		return []core.Result{core.Bad(id, "DOM", construct, w.Pos(fn.Pos()), "vacuous: the tier-bypassing Add(deleteEligible) was not found")}
	}
	// the split may live in a private helper that returns the two batches
	if h, rv, leave, ok := w.EnterHelper(fn, bypass); ok {
		defer leave()
		fn, bypass = h, rv
	}
	g := G(`+^tor\.needsForceDelete\(lo\.Filter\[\*corev1\.Pod, \[\]\*corev1\.Pod\]\(utils/node\.GetPods\(.*\)\[.*\], \$3, \$0\.clock\)$`)
	n := 0
	for _, b := range fn.Blocks {
		for _, in := range b.Instrs {
			c, ok := in.(*ssa.Call)
			if !ok {
				continue
			}
			if bi, ok := c.Call.Value.(*ssa.Builtin); !ok || bi.Name() != "append" || c.Call.Args[0] != bypass {
				continue
			}
			n++
			if !w.GuardedBy(c, g) {
				return []core.Result{core.Bad(id, "DOM", construct, w.InstrPos(c), "a pod enters the tier-bypassing (force-delete) batch without needsForceDelete(pod, deadline) being true")}
			}
		}
	}
	if n == 0 {
		return []core.Result{core.Bad(id, "DOM", construct, w.Pos(fn.Pos()), "vacuous: no append into the bypass batch")}
	}
	// and the tiered batch is what groupPodsByPriority receives
	return []core.Result{core.OK(id, "DOM", construct, n, "bypass batch ⇐ needsForceDelete")}
}

// C10.REG1: groupPodsByPriority returns (nonCritical nonDaemon, nonCritical daemon, critical nonDaemon, critical daemon).
func c10Groups(w *core.World, id string) []core.Result {
	const fname = "(*tor.Terminator).groupPodsByPriority"
	fn := w.Fn(fname)
	if fn == nil {
		return []core.Result{core.Anchor(id, "REG", fname)}
	}
	construct := "REG:" + fname
	re := regexp.MustCompile(`^store &local<\[(\d+)\]\[\]\*corev1\.Pod>\[(\d+)\] = `)
	slots := map[string]ssa.Value{}
	size := ""
	for _, s := range w.Sites(fn, re, false) {
		m := re.FindStringSubmatch(w.RenderInstr(s))
		slots[m[2]] = s.(*ssa.Store).Val
		size = m[1]
	}
	if size != "4" || len(slots) != 4 {
		return []core.Result{core.Bad(id, "REG", construct, w.Pos(fn.Pos()), fmt.Sprintf("expected 4 priority groups, found %d (array size %s)", len(slots), size))}
	}
	crit := []string{`^\$1\[.*\]\.Spec\.PriorityClassName == "system-cluster-critical"$`, `^\$1\[.*\]\.Spec\.PriorityClassName == "system-node-critical"$`}
	daemon := `^utils/pod\.IsOwnedByDaemonSet\(\$1\[.*\]\)$`
	want := []struct{ critical, daemon bool }{{false, false}, {false, true}, {true, false}, {true, true}}
	for i, wnt := range want {
		v := slots[fmt.Sprint(i)]
		var gs []core.Gate
		if wnt.critical {
			gs = append(gs, G("+"+crit[0], "+"+crit[1]))
		} else {
			gs = append(gs, G("-"+crit[0]), G("-"+crit[1]))
		}
		if wnt.daemon {
			gs = append(gs, G("+"+daemon))
		} else {
			gs = append(gs, G("-"+daemon))
		}
		n := 0
		for _, b := range fn.Blocks {
			for _, in := range b.Instrs {
				c, ok := in.(*ssa.Call)
				if !ok {
					continue
				}
				if bi, ok := c.Call.Value.(*ssa.Builtin); !ok || bi.Name() != "append" || c.Call.Args[0] != v {
					continue
				}
				n++
				for _, g := range gs {
					if !w.GuardedBy(c, g) {
						return []core.Result{core.Bad(id, "REG", construct, w.InstrPos(c),
							fmt.Sprintf("priority group #%d (expected critical=%v daemon=%v) receives a pod without {%s}: the drain order non-critical/non-daemon → … → critical/daemon is broken", i, wnt.critical, wnt.daemon, g.Text))}
					}
				}
			}
		}
		if n == 0 {
			return []core.Result{core.Bad(id, "REG", construct, w.Pos(fn.Pos()), fmt.Sprintf("priority group #%d is never filled (idiom not recognised)", i))}
		}
	}
	return []core.Result{core.OK(id, "REG", construct, 4, "order: nonCritical/nonDaemon, nonCritical/daemon, critical/nonDaemon, critical/daemon")}
}
