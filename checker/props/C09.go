package props

import (
	"go/token"
	"fmt"
	"regexp"

	"golang.org/x/tools/go/ssa"

	"kverif/core"
)

func init() {
	core.Register(&core.Property{
		ID:    "C09",
		Title: "Nodes and instances are finalized in order and never leaked",
		Explanation: "Decides: (1) who may remove the karpenter.sh/termination finalizer (Node: termination.removeFinalizer called from termination.finalize only; NodeClaim: lifecycle.finalize only); " +
			"(2) termination.finalize removes it either on the fast path (node not Ready ∧ provider Get fails ∧ the error is NodeClaimNotFound) or after the cordon taint succeeded and the step loop ended with an empty result and nil error; " +
			"(3) the step list is exactly [awaitDrain, awaitVolumeDetachment, awaitInstanceTermination] in that order and a later step never runs after a non-empty result or an error; " +
			"(4) each step's 'proceed' return (empty result, nil error) is dominated by its documented condition: Drain returned nil (and min drain time), no pending attachments or grace period elapsed, NodeClaim nil or provider says NotFound; " +
			"(5) Terminator.Drain returns nil only when no pod is waiting for eviction in any group; " +
			"(6) lifecycle.finalize removes the NodeClaim finalizer only when (not Registered or no Nodes left) and (no provider id or provider Delete reports NotFound), with every other error edge failing closed.",
		NotCovered: []string{"truthfulness of the provider's NotFound answers", "volume-attachment filtering semantics (which pods are drainable)", "behaviour between two API calls under crash (only the guards re-evaluated on the next reconcile are decided)"},
		Rules:      c09Rules,
	})
}

func c09Rules(tier string) []Rule {
	rules := c09RulesBase(tier)
	rules = append(rules, errClassifier("C09.ERRC1", "NodeClaimNotFoundError", true)...)
	return rules
}

func c09RulesBase(tier string) []Rule {
	const (
		fin   = "(*term.Controller).finalize"
		rmf   = "(*term.Controller).removeFinalizer"
		lfin  = "(*life.Controller).finalize"
		drain = "(*tor.Terminator).Drain"
	)
	rmCall := `^call \(\*term\.Controller\)\.removeFinalizer\(\$0, \$2\)`
	stepRes := `dyn:&local<\[3\]term\.terminationFunc>\[:\]\[.*\]\(utils/node\.NodeClaimForNode\(\$0\.kubeClient, \$2\)#0, \$2, \(\*term\.Controller\)\.nodeTerminationTime\(.*\)#0\)`
	proceed := core.RetSpec{Index: -1, Want: "nilconst", Also: `^return zero, nil$`}
	cpDel := `iface:\(cloudprovider\.CloudProvider\)\.Delete\(\$0\.cloudProvider, \$2\)`
	return []Rule{
		// ---- who removes finalizers
		WMC{ID: "C09.WMC1", Sink: `^call cr/controller/controllerutil\.RemoveFinalizer\(.*"karpenter\.sh/termination"\)`,
			Allowed: []string{rmf, lfin}, Required: []string{rmf, lfin}},
		WMC{ID: "C09.WMC2", Sink: `^(call|go|defer) \(\*term\.Controller\)\.removeFinalizer\(`, Allowed: []string{fin}, Required: []string{fin}},
		core.Custom{ID: "C09.WMC3", Kind: "WMC", Run: func(w *core.World, id string) []core.Result {
			// finalizer slices are not rewritten by hand anywhere (SetFinalizers / direct store to ObjectMeta.Finalizers)
			r := WMC{ID: id, Sink: `^store .*\.ObjectMeta\.Finalizers = |^call .*\.SetFinalizers\(`, Allowed: []string{}}
			return r.Check(w)
		}},

		// ---- node termination: the two removal sites
		DOM{ID: "C09.DOM1", Fn: fin, Sink: rmCall, Min: 2, Max: 2, Gates: gates(
			// fast path | regular path
			G(`+^cloudprovider\.IsNodeClaimNotFoundError\(iface:\(cloudprovider\.CloudProvider\)\.Get\(\$0\.cloudProvider, \$2\.Spec\.ProviderID\)#1\)$`,
				`+^lo\.IsEmpty\[cr/reconcile\.Result\]\(phi\(`),
			G(`-^utils/node\.GetCondition\(\$2, "Ready"\)\.Status == "True"$`, `+^lo\.IsEmpty\[cr/reconcile\.Result\]\(phi\(`),
			G(`-^iface:\(cloudprovider\.CloudProvider\)\.Get\(\$0\.cloudProvider, \$2\.Spec\.ProviderID\)#1 == nil$`, `+^phi\(dyn:.*#1\|phi\(nil\|dyn:.*\) == nil$`),
			G(`-^iface:\(cloudprovider\.CloudProvider\)\.Get\(\$0\.cloudProvider, \$2\.Spec\.ProviderID\)#1 == nil$`, `+^\(\*tor\.Terminator\)\.Taint\(\$0\.terminator, \$2, apis/v1\.DisruptedNoScheduleTaint\) == nil$`),
			G(`+^cr/controller/controllerutil\.ContainsFinalizer\(<\*corev1\.Node>\$2, "karpenter\.sh/termination"\)$`),
			G(`+^utils/node\.IsManaged\(\$2, \$0\.cloudProvider\)$`),
			G(`+^utils/node\.IgnoreDuplicateNodeClaimError\(utils/node\.IgnoreNodeClaimNotFoundError\(utils/node\.NodeClaimForNode\(\$0\.kubeClient, \$2\)#1\)\) == nil$`),
		)},
		// the NodeClaim status patch (Drained/VolumesDetached/InstanceTerminating progress) precedes the regular removal unless nothing changed
		DOM{ID: "C09.DOM1b", Fn: fin, Sink: rmCall, Min: 2, Gates: gates(
			G(`+^cloudprovider\.IsNodeClaimNotFoundError\(iface:\(cloudprovider\.CloudProvider\)\.Get\(`,
				`+^phi\(nil\|\(\*apis/v1\.NodeClaim\)\.DeepCopy\(.*\) == nil$`,
				`+^\(k8s\.io/apimachinery/third_party/forked/golang/reflect\.Equalities\)\.DeepEqual\(apim/api/equality\.Semantic\.Equalities, <\*apis/v1\.NodeClaim>phi\(`,
				`+^cr/client\.IgnoreNotFound\(iface:\(cr/client\.SubResourceWriter\)\.Patch\(iface:\(cr/client\.StatusClient\)\.Status\(\$0\.kubeClient\), <\*apis/v1\.NodeClaim>`),
		)},
		core.Custom{ID: "C09.REG1", Kind: "REG", Run: c09Steps},
		// a later step never runs after a non-empty result or an error of the current one
		NOREACH{ID: "C09.NR1", Fn: fin, FromLit: `-^lo\.IsEmpty\[cr/reconcile\.Result\]\(` + stepRes + `#0\)$`, Sink: `^call dyn:&local<\[3\]term\.terminationFunc>`},
		NOREACH{ID: "C09.NR2", Fn: fin, FromLit: `-^` + stepRes + `#1 == nil$`, Sink: `^call dyn:&local<\[3\]term\.terminationFunc>`},
		// steps are only invoked from the loop (no direct call that would skip the order)
		WMC{ID: "C09.WMC4", Sink: `^(call|go|defer) \(\*term\.Controller\)\.(awaitDrain|awaitVolumeDetachment|awaitInstanceTermination)\(`,
			Allowed: []string{"(*term.Controller).awaitDrain$bound", "(*term.Controller).awaitVolumeDetachment$bound", "(*term.Controller).awaitInstanceTermination$bound"}},
		// the cordon taint is the disruption NoSchedule taint and the loop runs only after it succeeded
		DOM{ID: "C09.DOM2", Fn: fin, Sink: `^call dyn:&local<\[3\]term\.terminationFunc>`, Gates: gates(
			G(`+^\(\*tor\.Terminator\)\.Taint\(\$0\.terminator, \$2, apis/v1\.DisruptedNoScheduleTaint\) == nil$`),
			G(`+^\(\*term\.Controller\)\.nodeTerminationTime\(\$0, \$2, utils/node\.NodeClaimForNode\(\$0\.kubeClient, \$2\)#0\)#1 == nil$`),
		)},

		// ---- proceed returns of the three steps
		MPT{ID: "C09.DOM3", Fn: "(*term.Controller).awaitDrain", Ret: proceed, Gates: gates(
			G(`+^\(\*tor\.Terminator\)\.Drain\(\$0\.terminator, \$3, \$4\) == nil$`),
			G(`+^\$2 == nil$`, `-^\(opkg/status\.ConditionSet\)\.Get\(\(\*apis/v1\.NodeClaim\)\.StatusConditions\(\$2, nil\), "Drained"\) == nil$`),
			G(`+^\$2 == nil$`, `-^\(\*opkg/status\.Condition\)\.IsUnknown\(\(opkg/status\.ConditionSet\)\.Get\(.*, "Drained"\)\)$`,
				`-^iface:\(k8s\.io/utils/clock\.PassiveClock\)\.Since\(\$0\.clock, \(opkg/status\.ConditionSet\)\.Get\(.*, "Drained"\)\.LastTransitionTime\.Time\) < 5000000000$`),
		)},
		DOM{ID: "C09.DOM3b", Fn: "(*term.Controller).awaitDrain", Sink: `^call \(opkg/status\.ConditionSet\)\.SetTrue\(.*, "Drained"\)`, Gates: gates(
			G(`+^\(\*tor\.Terminator\)\.Drain\(\$0\.terminator, \$3, \$4\) == nil$`),
		)},
		MPT{ID: "C09.DOM4", Fn: "(*term.Controller).awaitVolumeDetachment", Ret: proceed, Min: 2, Gates: gates(
			G(`+^\(\*term\.Controller\)\.pendingVolumeAttachments\(\$0, \$3\)#1 == nil$`),
			G(`-^len\(\(\*term\.Controller\)\.pendingVolumeAttachments\(\$0, \$3\)#0\)>=1$`, `+^\(\*term\.Controller\)\.hasTerminationGracePeriodElapsed\(\$0, \$4\)$`),
		)},
		MPT{ID: "C09.DOM4b", Fn: "(*term.Controller).hasTerminationGracePeriodElapsed", Ret: core.RetTrue, Gates: gates(
			G(`-^\$1 == nil$`),
			G(`+^\(time\.Time\)\.After\(iface:\(k8s\.io/utils/clock\.PassiveClock\)\.Now\(\$0\.clock\), \$1\)$`),
		)},
		MPT{ID: "C09.DOM5", Fn: "(*term.Controller).awaitInstanceTermination", Ret: proceed, Min: 2, Gates: gates(
			G(`+^\$2 == nil$`, `+^cloudprovider\.IsNodeClaimNotFoundError\(`+cpDel+`\)$`),
			G(`+^\$2 == nil$`, `+^cloudprovider\.IgnoreNodeClaimNotFoundError\(`+cpDel+`\) == nil$`),
		)},
		core.Custom{ID: "C09.PROV1", Kind: "PROV", Run: func(w *core.World, id string) []core.Result {
			// pendingVolumeAttachments returns the *filtered* attachments of this node
			return core.InstrPresent(w, id, "PROV", "(*term.Controller).pendingVolumeAttachments",
				`^call term\.filterVolumeAttachments\(\$0\.kubeClient, \$2, utils/node\.GetVolumeAttachments\(\$0\.kubeClient, \$2\)#0, \$0\.clock\)$`, 1,
				"pending attachments = GetVolumeAttachments(node) filtered by drainable pods")
		}},

		// ---- Terminator.Drain
		MPT{ID: "C09.MPT1", Fn: drain, Ret: core.RetNilConst, Gates: gates(
			G(`+^utils/node\.GetPods\(\$0\.kubeClient, .*\)#1 == nil$`),
			G(`-^len\(phi\(nil\|phi↺\|append\(.*\)\)\)>=1$`),
			G(`-^\(phi\(-1\|\(phi↺ \+ 1\)\) \+ 1\) < len\(\(\*tor\.Terminator\)\.groupPodsByPriority\(`),
		)},
		// …and the batch whose emptiness ends the drain is the force-delete batch itself (the list handed to the
		// tier-bypassing Queue.Add), identified as an SSA value: the two batches render alike
		core.Custom{ID: "C09.MPT1b", Kind: "MPT", Run: c09BypassBatchEmpty},
		IMPL{ID: "C09.IMPL1", Fn: drain, Lit: `+^len\(\(\*tor\.Terminator\)\.groupPodsByPriority\(.*\)\[.*\]\)>=1$`, Not: core.RetOK},
		core.Custom{ID: "C09.PROV2", Kind: "PROV", Run: c09DrainPartition},

		// drain is complete only when no drainable pod is left: every pod handed to groupPodsByPriority lands in one of the
		// groups it returns (a pod in no group would never be queued, and Drain would report the node drained)
		ITER{ID: "C09.ITER1", Fn: "(*tor.Terminator).groupPodsByPriority", Loop: `+^\(phi\(-1\|\(phi↺ \+ 1\)\) \+ 1\) < len\(\$1\)$`, Gates: gates(
			G(`instr:^call append\(phi\(nil\|.*, &local<\[1\]\*corev1\.Pod>\[:\]\)$`),
		)},
		core.Custom{ID: "C09.REG2", Kind: "REG", Run: c09GroupsReturned},

		// ---- NodeClaim finalizer
		DOM{ID: "C09.DOM6", Fn: lfin, Sink: `^call cr/controller/controllerutil\.RemoveFinalizer\(<\*apis/v1\.NodeClaim>\$2, "karpenter\.sh/termination"\)`, Gates: gates(
			G(`-^\(\*opkg/status\.Condition\)\.IsTrue\(`+cond(`\$2`, "Registered")+`\)$`, `-^len\(utils/nodeclaim\.AllNodesForNodeClaim\(\$0\.kubeClient, \$2\)#0\)>=1$`),
			G(`-^\(\*opkg/status\.Condition\)\.IsTrue\(`+cond(`\$2`, "Registered")+`\)$`, `+^utils/nodeclaim\.AllNodesForNodeClaim\(\$0\.kubeClient, \$2\)#1 == nil$`),
			G(`+^\$2\.Status\.ProviderID == ""$`, `+^cloudprovider\.IsNodeClaimNotFoundError\(`+cpDel+`\)$`),
			G(`+^\$2\.Status\.ProviderID == ""$`, `+^cloudprovider\.IgnoreNodeClaimNotFoundError\(`+cpDel+`\) == nil$`),
			G(`+^cr/controller/controllerutil\.ContainsFinalizer\(<\*apis/v1\.NodeClaim>\$2, "karpenter\.sh/termination"\)$`),
			G(`+^\(\*life\.Controller\)\.ensureTerminationGracePeriodTerminationTimeAnnotation\(\$0, \$2\) == nil$`),
			// InstanceTerminating status patch ok, or nothing to patch, or never launched
			G(`+^\$2\.Status\.ProviderID == ""$`,
				`+^\(k8s\.io/apimachinery/third_party/forked/golang/reflect\.Equalities\)\.DeepEqual\(apim/api/equality\.Semantic\.Equalities, <\*apis/v1\.NodeClaim>\(\*apis/v1\.NodeClaim\)\.DeepCopy\(\$2\), <\*apis/v1\.NodeClaim>\$2\)$`,
				`+^iface:\(cr/client\.SubResourceWriter\)\.Patch\(iface:\(cr/client\.StatusClient\)\.Status\(\$0\.kubeClient\), <\*apis/v1\.NodeClaim>\$2, .* == nil$`),
		)},
		ERRFLOW{ID: "C09.ERR1", Fn: lfin, Sink: `^call cr/controller/controllerutil\.RemoveFinalizer\(`, Min: 4,
			Exempt: []string{`^cr/client\.IgnoreNotFound\(iface:\(cr/client\.Writer\)\.Delete\(\$0\.kubeClient, <\*corev1\.Node>`},
			Note:   "exempt: a failed Node delete returns in the same branch (its error edge is the `return`), the false edge continues the loop; the loop exit then requires len(nodes)==0"},
		// a failed node delete stops finalization
		IMPL{ID: "C09.IMPL2", Fn: lfin, Lit: `-^cr/client\.IgnoreNotFound\(iface:\(cr/client\.Writer\)\.Delete\(\$0\.kubeClient, <\*corev1\.Node>.* == nil$`, Not: core.RetOK},
		// provider Delete is the one for this NodeClaim and only happens after the nodes are gone
		DOM{ID: "C09.DOM7", Fn: lfin, Sink: `^call ` + cpDel, Gates: gates(
			G(`-^\(\*opkg/status\.Condition\)\.IsTrue\(`+cond(`\$2`, "Registered")+`\)$`, `-^len\(utils/nodeclaim\.AllNodesForNodeClaim\(\$0\.kubeClient, \$2\)#0\)>=1$`),
			G(`-^\$2\.Status\.ProviderID == ""$`),
		)},
		// lifecycle.finalize is entered only for deleting NodeClaims, from the controller
		WMC{ID: "C09.WMC5", Sink: `^(call|go|defer) \(\*life\.Controller\)\.finalize\(`, Allowed: []string{"(*life.Controller).Reconcile"}, Required: []string{"(*life.Controller).Reconcile"}},
		DOM{ID: "C09.DOM8", Fn: "(*life.Controller).Reconcile", Sink: `^call \(\*life\.Controller\)\.finalize\(\$0, \$2\)`, Gates: gates(
			G(`-^\(\*metav1\.Time\)\.IsZero\(\$2\.ObjectMeta\.DeletionTimestamp\)$`),
		)},
	}
}

// C09.REG1: the step slice is [awaitDrain, awaitVolumeDetachment, awaitInstanceTermination].
func c09Steps(w *core.World, id string) []core.Result {
	const fin = "(*term.Controller).finalize"
	fn := w.Fn(fin)
	if fn == nil {
		return []core.Result{core.Anchor(id, "REG", fin)}
	}
	want := []string{"awaitDrain", "awaitVolumeDetachment", "awaitInstanceTermination"}
	re := regexp.MustCompile(`^store &local<\[(\d+)\]term\.terminationFunc>\[(\d+)\] = closure:\(\*term\.Controller\)\.(\w+)\$bound$`)
	got := map[string]string{}
	size := ""
	for _, s := range w.Sites(fn, re, false) {
		m := re.FindStringSubmatch(w.RenderInstr(s))
		got[m[2]] = m[3]
		size = m[1]
	}
	construct := "REG:" + fin + ":steps"
	if size != fmt.Sprint(len(want)) || len(got) != len(want) {
		return []core.Result{core.Bad(id, "REG", construct, w.Pos(fn.Pos()), fmt.Sprintf("termination step list is %v (size %s), expected %v", got, size, want))}
	}
	for i, n := range want {
		if got[fmt.Sprint(i)] != n {
			return []core.Result{core.Bad(id, "REG", construct, w.Pos(fn.Pos()), fmt.Sprintf("termination step #%d is %q, expected %q (drain → volume detachment → instance termination)", i, got[fmt.Sprint(i)], n))}
		}
	}
	// the receiver bound is the controller itself
	return []core.Result{core.OK(id, "REG", construct, 3, "drain → volume detachment → instance termination")}
}

// C09.PROV2: Drain partitions *all* waiting pods: the waiting set is Filter(GetPods, IsWaitingEviction) and each
// waiting pod is appended to exactly one of the two batches.
func c09DrainPartition(w *core.World, id string) []core.Result {
	const drain = "(*tor.Terminator).Drain"
	pred := w.Fn("@arg:" + drain + `|^call lo\.Filter\[\*corev1\.Pod, \[\]\*corev1\.Pod\]\(utils/node\.GetPods\(|1`)
	if pred == nil {
		return []core.Result{core.Bad(id, "PROV", "PROV:"+drain+":waiting", "", "the waiting-pod filter of Drain cannot be resolved (must be lo.Filter(GetPods(node), …))")}
	}
	if len(w.SitesOr(pred, regexp.MustCompile(`^return utils/pod\.IsWaitingEviction\(\$0, \^\$0\.clock\)$`), false, 1)) == 0 {
		return []core.Result{core.Bad(id, "PROV", "PROV:"+drain+":waiting", w.Pos(pred.Pos()), "the waiting set is no longer exactly the pods for which IsWaitingEviction holds")}
	}
	fn := w.Fn(drain)
	// both branches of needsForceDelete append the pod (in Drain itself, or in the private helper the split was moved to)
	var rs []core.Result
	w.WithHelpers(fn, func(f *ssa.Function, _ ssa.Instruction) {
		if len(rs) > 0 && rs[0].Status == core.Discharged {
			return
		}
		p := POST{ID: id, Fn: core.FnName(f), FromLit: `?^tor\.needsForceDelete\(lo\.Filter\[`, Must: []string{`^call append\(phi\(nil\|`}}
		if r := p.Check(w); len(rs) == 0 || (len(r) > 0 && r[0].Status == core.Discharged) || f == fn {
			if len(rs) == 0 || r[0].Status == core.Discharged {
				rs = r
			}
		}
	})
	return rs
}

// c09GroupsReturned: every slice groupPodsByPriority appends a pod to is one of the slices it returns.
func c09GroupsReturned(w *core.World, id string) []core.Result {
	const fname = "(*tor.Terminator).groupPodsByPriority"
	fn := w.Fn(fname)
	if fn == nil {
		return []core.Result{core.Anchor(id, "REG", fname)}
	}
	construct := "REG:" + fname + ":returned"
	re := regexp.MustCompile(`^store &local<\[\d+\]\[\]\*corev1\.Pod>\[\d+\] = `)
	returned := map[ssa.Value]bool{}
	for _, s := range w.Sites(fn, re, false) {
		returned[s.(*ssa.Store).Val] = true
	}
	if len(w.Sites(fn, regexp.MustCompile(`^return &local<\[\d+\]\[\]\*corev1\.Pod>\[:\]$`), false)) == 0 || len(returned) == 0 {
		return []core.Result{core.Bad(id, "REG", construct, w.Pos(fn.Pos()), "the groups are no longer returned as a literal of the accumulated slices (idiom not recognised)")}
	}
	n := 0
	for _, b := range fn.Blocks {
		for _, in := range b.Instrs {
			c, ok := in.(*ssa.Call)
			if !ok {
				continue
			}
			if bi, ok := c.Call.Value.(*ssa.Builtin); !ok || bi.Name() != "append" {
				continue
			}
			n++
			if !returned[c.Call.Args[0]] {
				return []core.Result{core.Bad(id, "REG", construct, w.InstrPos(c), "a pod is appended to a slice that is not among the returned groups: it is never queued for eviction, yet Drain reports the node drained")}
			}
		}
	}
	if n == 0 {
		return []core.Result{core.Bad(id, "REG", construct, w.Pos(fn.Pos()), "no append found (idiom not recognised)")}
	}
	return []core.Result{core.OK(id, "REG", construct, n, "every accumulated slice is returned")}
}

// c09BypassBatchEmpty: Drain returns nil only across a false edge of `len(B) > 0` where B is the very value handed to the
// tier-bypassing Queue.Add (pods past their force-delete time), not merely a list that renders like it.
func c09BypassBatchEmpty(w *core.World, id string) []core.Result {
	const drain = "(*tor.Terminator).Drain"
	fn := w.Fn(drain)
	if fn == nil {
		return []core.Result{core.Anchor(id, "MPT", drain)}
	}
	construct := "MPT:" + drain + ":bypass-batch-empty"
	var bypass ssa.Value
	for _, s := range w.Sites(fn, regexp.MustCompile(`^call \(\*tor\.Queue\)\.Add\(\$0\.evictionQueue, \$3, `), false) {
		if a := s.(*ssa.Call).Call.Args[2]; !regexp.MustCompile(`groupPodsByPriority\(`).MatchString(w.Render(a)) {
			bypass = a
		}
	}
	if bypass == nil {
		return []core.Result{core.Bad(id, "MPT", construct, w.Pos(fn.Pos()), "vacuous: the tier-bypassing Add was not found")}
	}
	cut := core.NewCut()
	n := 0
	for _, b := range fn.Blocks {
		if len(b.Instrs) == 0 || len(b.Succs) != 2 {
			continue
		}
		ifi, ok := b.Instrs[len(b.Instrs)-1].(*ssa.If)
		if !ok {
			continue
		}
		// len(B) > 0, 0 < len(B), len(B) != 0, len(B) >= 1 and their negations: find the edge on which len(B) == 0
		cond, neg := ifi.Cond, false
		for {
			u, isNot := cond.(*ssa.UnOp)
			if !isNot || u.Op != token.NOT {
				break
			}
			neg = !neg
			cond = u.X
		}
		bo, ok := cond.(*ssa.BinOp)
		if !ok {
			continue
		}
		isLenB := func(v ssa.Value) bool {
			c, ok := v.(*ssa.Call)
			if !ok {
				return false
			}
			bi, ok := c.Call.Value.(*ssa.Builtin)
			return ok && bi.Name() == "len" && len(c.Call.Args) == 1 && c.Call.Args[0] == bypass
		}
		isK := func(v ssa.Value, k int64) bool {
			c, ok := v.(*ssa.Const)
			return ok && c.Value != nil && c.Int64() == k
		}
		emptyOnTrue, found := false, false
		switch {
		case isLenB(bo.X) && isK(bo.Y, 0) && (bo.Op == token.GTR || bo.Op == token.NEQ), isK(bo.X, 0) && isLenB(bo.Y) && (bo.Op == token.LSS || bo.Op == token.NEQ),
			isLenB(bo.X) && isK(bo.Y, 1) && bo.Op == token.GEQ:
			emptyOnTrue, found = false, true
		case isLenB(bo.X) && isK(bo.Y, 0) && (bo.Op == token.EQL || bo.Op == token.LEQ), isK(bo.X, 0) && isLenB(bo.Y) && bo.Op == token.EQL,
			isLenB(bo.X) && isK(bo.Y, 1) && bo.Op == token.LSS:
			emptyOnTrue, found = true, true
		}
		if !found {
			continue
		}
		n++
		e := 1
		if emptyOnTrue != neg {
			e = 0
		}
		cut.Edges[core.EdgeKey{From: b, Succ: e}] = true
	}
	if n == 0 {
		return []core.Result{core.Bad(id, "MPT", construct, w.Pos(fn.Pos()), "the force-delete batch is never tested for emptiness")}
	}
	var out []core.Result
	k := 0
	for _, s := range w.ReturnSinks(fn, core.RetNilConst) {
		k++
		if core.InstrReachable(s.Ret, cut) {
			out = append(out, core.Bad(id, "MPT", construct, w.InstrPos(s.Ret), "Drain reports the node drained on a path that never found the force-delete batch empty (pods past their deadline may still be on the node)"))
		}
	}
	if k == 0 {
		return []core.Result{core.Bad(id, "MPT", construct, w.Pos(fn.Pos()), "vacuous: no `return nil`")}
	}
	if len(out) == 0 {
		out = append(out, core.OK(id, "MPT", construct, n, "drained ⇒ the force-delete batch was empty"))
	}
	return out
}
