package props

import (
	"fmt"
	"go/constant"
	"go/token"
	"go/types"
	"regexp"
	"strings"

	"golang.org/x/tools/go/ssa"

	"kverif/core"
)

func init() {
	core.Register(&core.Property{
		ID:    "C09",
		Title: "Nodes and instances are finalized in order and never leaked",
		Explanation: "Decides: (1) who may remove the karpenter.sh/termination finalizer (Node: termination.removeFinalizer called from termination.finalize only; NodeClaim: lifecycle.finalize only); " +
			"(2) termination.finalize removes it either on the fast path (node not Ready ∧ provider Get fails ∧ the error is NodeClaimNotFound) or after the cordon taint succeeded and the step loop ended with an empty result and nil error; " +
			"(3) the step list is exactly [awaitDrain, awaitVolumeDetachment, awaitInstanceTermination] in that order and a later step never runs after a non-empty result or an error; " +
			"(4) each step's 'proceed' return (empty result, nil error) is dominated by its documented condition: Drain returned nil (and min drain time), no pending attachments or grace period elapsed, NodeClaim nil or provider says NotFound; " +
			"(5) Terminator.Drain returns nil only when no pod is waiting for eviction in any group; " +
			"(6) lifecycle.finalize removes the NodeClaim finalizer only when (not Registered or no Nodes left) and (no provider id or provider Delete reports NotFound), with every other error edge failing closed; " +
			"(7) the emptiness convention of (2)/(3) from the steps' side: every return of a step whose error may be nil either carries a Result that cannot be empty (Requeue = true, or a RequeueAfter that is provably > 0: a positive constant, max with a positive operand, min / lo.Clamp whose bounds are all positive, also through a temporary or a private helper) or is itself guarded by the step's condition of (4) — a 'not yet' answer whose requeue is computed and may be zero is a 'proceed'; " +
			"(8) the cordon: Terminator.Taint returns nil only when (the node already carried a taint for which Taint.MatchTaint(&taint) holds — same key and effect — or the requested taint was appended to node.Spec.Taints) and (the node equals the copy taken before the taint was added, or the patch succeeded); " +
			"(9) the volume wait's input: pendingVolumeAttachments returns a nil error only when both GetVolumeAttachments and filterVolumeAttachments returned a nil error, and the list it returns with it is the filtered listing (a failed List is never read as 'no attachments'); " +
			"(10) what filterVolumeAttachments may drop from the blocking list: with a nil error it returns its input or lo.Reject / lo.Filter over its input whose predicate drops an attachment only when it has no PersistentVolume name or its volume is in a string set; every string set of the function (private helpers included) starts empty and only receives GetPersistentVolumeClaim(pod, volume).Spec.VolumeName of pods selected from GetPods(node) by lo.Reject / lo.Filter such that a pod is kept only when pod.IsDrainable is false for it; " +
			"(11) 'if it was ever launched' (6) is read off Status.ProviderID, so the launch has to be on record: every return of lifecycle.Reconcile that is reachable after a sub-reconciler ran and whose error may be nil is guarded by (the NodeClaim equals the copy taken before the sub-reconcilers ran) or (the status patch relative to that copy returned nil) — a `return …, client.IgnoreNotFound(err)` on an error edge excepted; the copy is taken before the sub-reconcilers run; the object whose status is patched still carries their writes (the NodeClaim itself with no metadata Patch/Update of it in between, or a DeepCopy taken after the sub-reconcilers and before that write).",
		NotCovered: []string{"truthfulness of the provider's NotFound answers", "semantics of pod.IsDrainable, GetVolumeAttachments, GetPods and GetPersistentVolumeClaim themselves (which pods are drainable, which attachments belong to the node); an exclusion set built in another way than Insert of PVC volume names in a loop over lo.Reject / lo.Filter(GetPods(node), IsDrainable) — a hand-written pod loop, a set seeded at construction, Union/Delete — is reported (idiom has to be re-confirmed)", "behaviour between two API calls under crash (only the guards re-evaluated on the next reconcile are decided)",
			"a requeue interval read from a package variable or produced by arithmetic other than max/min/Clamp over constants is reported as 'not provably non-zero' and has to be re-confirmed by hand (fails closed)",
			"a crash or a failed status patch between the provider's Create and the status patch of lifecycle.Reconcile leaves an instance without a provider id on record (left to the garbage-collection controller; C09.MPT4 only decides that a Reconcile which reports success has persisted it); sub-reconcilers that persist their own status, or a persisting tail nested deeper than one private helper, are reported (shape has to be re-confirmed)",
			"semantics of k8s.io/api Taint.MatchTaint itself; an existing-taint test written as a hand loop or spelled key==key && effect==effect instead of lo.Find / lo.ContainsBy with MatchTaint is reported (idiom has to be re-confirmed)"},
		Rules: c09Rules,
	})
}

func c09Rules(tier string) []Rule {
	rules := c09RulesBase(tier)
	rules = append(rules, errClassifier("C09.ERRC1", "NodeClaimNotFoundError", true)...)
	return rules
}

func c09RulesBase(tier string) []Rule {
	const (
		fin   = "(*term.Controller).finalize"
		rmf   = "(*term.Controller).removeFinalizer"
		lfin  = "(*life.Controller).finalize"
		drain = "(*tor.Terminator).Drain"
	)
	rmCall := `^call \(\*term\.Controller\)\.removeFinalizer\(\$0, \$2\)`
	stepRes := `dyn:&local<\[3\]term\.terminationFunc>\[:\]\[.*\]\(utils/node\.NodeClaimForNode\(\$0\.kubeClient, \$2\)#0, \$2, \(\*term\.Controller\)\.nodeTerminationTime\(.*\)#0\)`
	proceed := core.RetSpec{Index: -1, Want: "nilconst", Also: `^return zero, nil$`}
	cpDel := `iface:\(cloudprovider\.CloudProvider\)\.Delete\(\$0\.cloudProvider, \$2\)`
	// the documented "step satisfied" conditions of the three steps (shared by the proceed rows DOM3/4/5 and by RET1)
	drainDone := gates(
		G(`+^\(\*tor\.Terminator\)\.Drain\(\$0\.terminator, \$3, \$4\) == nil$`),
		G(`+^\$2 == nil$`, `-^\(opkg/status\.ConditionSet\)\.Get\(\(\*apis/v1\.NodeClaim\)\.StatusConditions\(\$2, nil\), "Drained"\) == nil$`),
		G(`+^\$2 == nil$`, `-^\(\*opkg/status\.Condition\)\.IsUnknown\(\(opkg/status\.ConditionSet\)\.Get\(.*, "Drained"\)\)$`,
			`-^iface:\(k8s\.io/utils/clock\.PassiveClock\)\.Since\(\$0\.clock, \(opkg/status\.ConditionSet\)\.Get\(.*, "Drained"\)\.LastTransitionTime\.Time\) < 5000000000$`),
	)
	volumesDone := gates(
		G(`+^\(\*term\.Controller\)\.pendingVolumeAttachments\(\$0, \$3\)#1 == nil$`),
		G(`-^len\(\(\*term\.Controller\)\.pendingVolumeAttachments\(\$0, \$3\)#0\)>=1$`, `+^\(\*term\.Controller\)\.hasTerminationGracePeriodElapsed\(\$0, \$4\)$`),
	)
	instanceGone := gates(
		G(`+^\$2 == nil$`, `+^cloudprovider\.IsNodeClaimNotFoundError\(`+cpDel+`\)$`),
		G(`+^\$2 == nil$`, `+^cloudprovider\.IgnoreNodeClaimNotFoundError\(`+cpDel+`\) == nil$`),
	)
	const taint = "(*tor.Terminator).Taint"
	const pva = "(*term.Controller).pendingVolumeAttachments"
	getVA := `utils/node\.GetVolumeAttachments\(\$0\.kubeClient, \$2\)`
	filterVA := `term\.filterVolumeAttachments\(\$0\.kubeClient, \$2, ` + getVA + `#0, \$0\.clock\)`
	taintStore := `^store \$2\.Spec\.Taints = append\(.*, &local<\[1\]corev1\.Taint>\[:\]\)$`
	return []Rule{
		// ---- who removes finalizers
		WMC{ID: "C09.WMC1", Sink: `^call cr/controller/controllerutil\.RemoveFinalizer\(.*"karpenter\.sh/termination"\)`,
			Allowed: []string{rmf, lfin}, Required: []string{rmf, lfin}},
		WMC{ID: "C09.WMC2", Sink: `^(call|go|defer) \(\*term\.Controller\)\.removeFinalizer\(`, Allowed: []string{fin}, Required: []string{fin}},
		core.Custom{ID: "C09.WMC3", Kind: "WMC", Run: func(w *core.World, id string) []core.Result {
			// finalizer slices are not rewritten by hand anywhere (SetFinalizers / direct store to ObjectMeta.Finalizers)
			r := WMC{ID: id, Sink: `^store .*\.ObjectMeta\.Finalizers = |^call .*\.SetFinalizers\(`, Allowed: []string{}}
			return r.Check(w)
		}},

		// ---- node termination: the two removal sites
		DOM{ID: "C09.DOM1", Fn: fin, Sink: rmCall, Min: 2, Max: 2, Gates: gates(
			// fast path | regular path
			G(`+^cloudprovider\.IsNodeClaimNotFoundError\(iface:\(cloudprovider\.CloudProvider\)\.Get\(\$0\.cloudProvider, \$2\.Spec\.ProviderID\)#1\)$`,
				`+^lo\.IsEmpty\[cr/reconcile\.Result\]\(phi\(`),
			G(`-^utils/node\.GetCondition\(\$2, "Ready"\)\.Status == "True"$`, `+^lo\.IsEmpty\[cr/reconcile\.Result\]\(phi\(`),
			G(`-^iface:\(cloudprovider\.CloudProvider\)\.Get\(\$0\.cloudProvider, \$2\.Spec\.ProviderID\)#1 == nil$`, `+^phi\(dyn:.*#1\|phi\(nil\|dyn:.*\) == nil$`),
			G(`-^iface:\(cloudprovider\.CloudProvider\)\.Get\(\$0\.cloudProvider, \$2\.Spec\.ProviderID\)#1 == nil$`, `+^\(\*tor\.Terminator\)\.Taint\(\$0\.terminator, \$2, apis/v1\.DisruptedNoScheduleTaint\) == nil$`),
			G(`+^cr/controller/controllerutil\.ContainsFinalizer\(<\*corev1\.Node>\$2, "karpenter\.sh/termination"\)$`),
			G(`+^utils/node\.IsManaged\(\$2, \$0\.cloudProvider\)$`),
			G(`+^utils/node\.IgnoreDuplicateNodeClaimError\(utils/node\.IgnoreNodeClaimNotFoundError\(utils/node\.NodeClaimForNode\(\$0\.kubeClient, \$2\)#1\)\) == nil$`),
		)},
		// the NodeClaim status patch (Drained/VolumesDetached/InstanceTerminating progress) precedes the regular removal unless nothing changed
		DOM{ID: "C09.DOM1b", Fn: fin, Sink: rmCall, Min: 2, Gates: gates(
			G(`+^cloudprovider\.IsNodeClaimNotFoundError\(iface:\(cloudprovider\.CloudProvider\)\.Get\(`,
				`+^phi\(nil\|\(\*apis/v1\.NodeClaim\)\.DeepCopy\(.*\) == nil$`,
				`+^\(k8s\.io/apimachinery/third_party/forked/golang/reflect\.Equalities\)\.DeepEqual\(apim/api/equality\.Semantic\.Equalities, <\*apis/v1\.NodeClaim>phi\(`,
				`+^cr/client\.IgnoreNotFound\(iface:\(cr/client\.SubResourceWriter\)\.Patch\(iface:\(cr/client\.StatusClient\)\.Status\(\$0\.kubeClient\), <\*apis/v1\.NodeClaim>`),
		)},
		core.Custom{ID: "C09.REG1", Kind: "REG", Run: c09Steps},
		// a later step never runs after a non-empty result or an error of the current one
		NOREACH{ID: "C09.NR1", Fn: fin, FromLit: `-^lo\.IsEmpty\[cr/reconcile\.Result\]\(` + stepRes + `#0\)$`, Sink: `^call dyn:&local<\[3\]term\.terminationFunc>`},
		NOREACH{ID: "C09.NR2", Fn: fin, FromLit: `-^` + stepRes + `#1 == nil$`, Sink: `^call dyn:&local<\[3\]term\.terminationFunc>`},
		// steps are only invoked from the loop (no direct call that would skip the order)
		WMC{ID: "C09.WMC4", Sink: `^(call|go|defer) \(\*term\.Controller\)\.(awaitDrain|awaitVolumeDetachment|awaitInstanceTermination)\(`,
			Allowed: []string{"(*term.Controller).awaitDrain$bound", "(*term.Controller).awaitVolumeDetachment$bound", "(*term.Controller).awaitInstanceTermination$bound"}},
		// the cordon taint is the disruption NoSchedule taint and the loop runs only after it succeeded
		DOM{ID: "C09.DOM2", Fn: fin, Sink: `^call dyn:&local<\[3\]term\.terminationFunc>`, Gates: gates(
			G(`+^\(\*tor\.Terminator\)\.Taint\(\$0\.terminator, \$2, apis/v1\.DisruptedNoScheduleTaint\) == nil$`),
			G(`+^\(\*term\.Controller\)\.nodeTerminationTime\(\$0, \$2, utils/node\.NodeClaimForNode\(\$0\.kubeClient, \$2\)#0\)#1 == nil$`),
		)},

		// ---- proceed returns of the three steps
		MPT{ID: "C09.DOM3", Fn: "(*term.Controller).awaitDrain", Ret: proceed, Gates: drainDone},
		DOM{ID: "C09.DOM3b", Fn: "(*term.Controller).awaitDrain", Sink: `^call \(opkg/status\.ConditionSet\)\.SetTrue\(.*, "Drained"\)`, Gates: gates(
			G(`+^\(\*tor\.Terminator\)\.Drain\(\$0\.terminator, \$3, \$4\) == nil$`),
		)},
		MPT{ID: "C09.DOM4", Fn: "(*term.Controller).awaitVolumeDetachment", Ret: proceed, Min: 2, Gates: volumesDone},
		MPT{ID: "C09.DOM4b", Fn: "(*term.Controller).hasTerminationGracePeriodElapsed", Ret: core.RetTrue, Gates: gates(
			G(`-^\$1 == nil$`),
			G(`+^\(time\.Time\)\.After\(iface:\(k8s\.io/utils/clock\.PassiveClock\)\.Now\(\$0\.clock\), \$1\)$`),
		)},
		MPT{ID: "C09.DOM5", Fn: "(*term.Controller).awaitInstanceTermination", Ret: proceed, Min: 2, Gates: instanceGone},
		// finalize reads (empty Result, nil error) as "step satisfied" (lo.IsEmpty, DOM1/NR1). The proceed rows above select the
		// returns that are *spelled* `reconcile.Result{}, nil`; this row closes the convention from the other side: every
		// return of a step whose error may be nil either carries a Result that cannot be empty (Requeue = true or a
		// RequeueAfter that is provably > 0 — a constant, max(…, c), Clamp(…, c1, c2) with positive bounds) or is itself
		// guarded by the step's "satisfied" condition. A computed requeue (deadline − now, clamped at 0) is neither.
		core.Custom{ID: "C09.RET1", Kind: "MPT", Run: func(w *core.World, id string) []core.Result {
			return c09StepRequeues(w, id, []c09Step{
				{"(*term.Controller).awaitDrain", drainDone, 3},
				{"(*term.Controller).awaitVolumeDetachment", volumesDone, 3},
				{"(*term.Controller).awaitInstanceTermination", instanceGone, 3},
			})
		}},

		// ---- the cordon: finalize relies on Taint(node, DisruptedNoScheduleTaint) == nil meaning "the node carries that taint
		// (key AND effect) and the API server has it" (DOM1/DOM2 gate everything else on it)
		MPT{ID: "C09.MPT2", Fn: taint, Ret: core.RetOK, Gates: gates(
			// already there (the membership test over node.Spec.Taints; its predicate is decided by PROV3) | appended now
			G(`+^lo\.Find\[corev1\.Taint\]\(\$2\.Spec\.Taints, closure:.*\)#1$`, `instr:`+taintStore),
			// persisted, or nothing to persist (node unchanged relative to the copy taken on entry)
			G(`+^\(k8s\.io/apimachinery/third_party/forked/golang/reflect\.Equalities\)\.DeepEqual\(apim/api/equality\.Semantic\.Equalities, (<\*corev1\.Node>\$2, <\*corev1\.Node>\(\*corev1\.Node\)\.DeepCopy\(\$2\)|<\*corev1\.Node>\(\*corev1\.Node\)\.DeepCopy\(\$2\), <\*corev1\.Node>\$2)\)$`,
				`+^iface:\(cr/client\.Writer\)\.Patch\(\$0\.kubeClient, <\*corev1\.Node>\$2, .*\) == nil$`),
		)},
		// "already there" means a taint that matches the requested one by key and effect (Taint.MatchTaint), and the taint
		// that is appended is the requested one: a node that carries karpenter.sh/disrupted with another effect is not cordoned
		core.Custom{ID: "C09.PROV3", Kind: "PROV", Run: c09TaintMatch},
		// the copy the node is compared against (and patched from) is taken before the taint is added: taken after, the
		// node always equals it, nothing is patched and Taint still returns nil
		DOM{ID: "C09.DOM9", Fn: taint, Sink: taintStore, Gates: gates(
			G(`instr:^call \(\*corev1\.Node\)\.DeepCopy\(\$2\)$`),
		)},
		core.Custom{ID: "C09.PROV1", Kind: "PROV", Run: func(w *core.World, id string) []core.Result {
			// pendingVolumeAttachments returns the *filtered* attachments of this node
			return core.InstrPresent(w, id, "PROV", "(*term.Controller).pendingVolumeAttachments",
				`^call term\.filterVolumeAttachments\(\$0\.kubeClient, \$2, utils/node\.GetVolumeAttachments\(\$0\.kubeClient, \$2\)#0, \$0\.clock\)$`, 1,
				"pending attachments = GetVolumeAttachments(node) filtered by drainable pods")
		}},

		// ---- the volume wait: awaitVolumeDetachment reads "pendingVolumeAttachments returned an empty list and a nil error" as
		// "no blocking attachment is left" (DOM4). That reading is only right when a failed List is not turned into an empty
		// list: a nil error of pendingVolumeAttachments means that both the listing and the filtering succeeded …
		MPT{ID: "C09.MPT3", Fn: pva, Ret: core.RetOK, Gates: gates(
			G(`+^`+getVA+`#1 == nil$`),
			G(`+^`+filterVA+`#1 == nil$`),
		)},
		// … and the list handed back with it is the filtered listing itself (anything else only on the two error edges)
		core.Custom{ID: "C09.RET2", Kind: "RET", Run: func(w *core.World, id string) []core.Result {
			return core.RetLeavesGuarded(w, id, "RET", pva, 0, `^`+filterVA+`#0$`, G(`-^`+getVA+`#1 == nil$`, `-^`+filterVA+`#1 == nil$`), 1,
				"with a nil error pendingVolumeAttachments returns filterVolumeAttachments(GetVolumeAttachments(node))")
		}},
		// what the filter may drop: only attachments without a PersistentVolume name or whose volume belongs to a PVC of a
		// pod on the node that is NOT drainable (such a pod stays, its volume never detaches); everything else blocks
		core.Custom{ID: "C09.PROV4", Kind: "PROV", Run: c09VolumeFilter},

		// ---- Terminator.Drain
		MPT{ID: "C09.MPT1", Fn: drain, Ret: core.RetNilConst, Gates: gates(
			G(`+^utils/node\.GetPods\(\$0\.kubeClient, .*\)#1 == nil$`),
			G(`-^len\(phi\(nil\|phi↺\|append\(.*\)\)\)>=1$`),
			G(`-^\(phi\(-1\|\(phi↺ \+ 1\)\) \+ 1\) < len\(\(\*tor\.Terminator\)\.groupPodsByPriority\(`),
		)},
		// …and the batch whose emptiness ends the drain is the force-delete batch itself (the list handed to the
		// tier-bypassing Queue.Add), identified as an SSA value: the two batches render alike
		core.Custom{ID: "C09.MPT1b", Kind: "MPT", Run: c09BypassBatchEmpty},
		IMPL{ID: "C09.IMPL1", Fn: drain, Lit: `+^len\(\(\*tor\.Terminator\)\.groupPodsByPriority\(.*\)\[.*\]\)>=1$`, Not: core.RetOK},
		core.Custom{ID: "C09.PROV2", Kind: "PROV", Run: c09DrainPartition},

		// drain is complete only when no drainable pod is left: every pod handed to groupPodsByPriority lands in one of the
		// groups it returns (a pod in no group would never be queued, and Drain would report the node drained)
		ITER{ID: "C09.ITER1", Fn: "(*tor.Terminator).groupPodsByPriority", Loop: `+^\(phi\(-1\|\(phi↺ \+ 1\)\) \+ 1\) < len\(\$1\)$`, Gates: gates(
			G(`instr:^call append\(phi\(nil\|.*, &local<\[1\]\*corev1\.Pod>\[:\]\)$`),
		)},
		core.Custom{ID: "C09.REG2", Kind: "REG", Run: c09GroupsReturned},

		// ---- NodeClaim finalizer
		DOM{ID: "C09.DOM6", Fn: lfin, Sink: `^call cr/controller/controllerutil\.RemoveFinalizer\(<\*apis/v1\.NodeClaim>\$2, "karpenter\.sh/termination"\)`, Gates: gates(
			G(`-^\(\*opkg/status\.Condition\)\.IsTrue\(`+cond(`\$2`, "Registered")+`\)$`, `-^len\(utils/nodeclaim\.AllNodesForNodeClaim\(\$0\.kubeClient, \$2\)#0\)>=1$`),
			G(`-^\(\*opkg/status\.Condition\)\.IsTrue\(`+cond(`\$2`, "Registered")+`\)$`, `+^utils/nodeclaim\.AllNodesForNodeClaim\(\$0\.kubeClient, \$2\)#1 == nil$`),
			G(`+^\$2\.Status\.ProviderID == ""$`, `+^cloudprovider\.IsNodeClaimNotFoundError\(`+cpDel+`\)$`),
			G(`+^\$2\.Status\.ProviderID == ""$`, `+^cloudprovider\.IgnoreNodeClaimNotFoundError\(`+cpDel+`\) == nil$`),
			G(`+^cr/controller/controllerutil\.ContainsFinalizer\(<\*apis/v1\.NodeClaim>\$2, "karpenter\.sh/termination"\)$`),
			G(`+^\(\*life\.Controller\)\.ensureTerminationGracePeriodTerminationTimeAnnotation\(\$0, \$2\) == nil$`),
			// InstanceTerminating status patch ok, or nothing to patch, or never launched
			G(`+^\$2\.Status\.ProviderID == ""$`,
				`+^\(k8s\.io/apimachinery/third_party/forked/golang/reflect\.Equalities\)\.DeepEqual\(apim/api/equality\.Semantic\.Equalities, <\*apis/v1\.NodeClaim>\(\*apis/v1\.NodeClaim\)\.DeepCopy\(\$2\), <\*apis/v1\.NodeClaim>\$2\)$`,
				`+^iface:\(cr/client\.SubResourceWriter\)\.Patch\(iface:\(cr/client\.StatusClient\)\.Status\(\$0\.kubeClient\), <\*apis/v1\.NodeClaim>\$2, .* == nil$`),
		)},
		ERRFLOW{ID: "C09.ERR1", Fn: lfin, Sink: `^call cr/controller/controllerutil\.RemoveFinalizer\(`, Min: 4,
			Exempt: []string{`^cr/client\.IgnoreNotFound\(iface:\(cr/client\.Writer\)\.Delete\(\$0\.kubeClient, <\*corev1\.Node>`},
			Note:   "exempt: a failed Node delete returns in the same branch (its error edge is the `return`), the false edge continues the loop; the loop exit then requires len(nodes)==0"},
		// a failed node delete stops finalization
		IMPL{ID: "C09.IMPL2", Fn: lfin, Lit: `-^cr/client\.IgnoreNotFound\(iface:\(cr/client\.Writer\)\.Delete\(\$0\.kubeClient, <\*corev1\.Node>.* == nil$`, Not: core.RetOK},
		// provider Delete is the one for this NodeClaim and only happens after the nodes are gone
		DOM{ID: "C09.DOM7", Fn: lfin, Sink: `^call ` + cpDel, Gates: gates(
			G(`-^\(\*opkg/status\.Condition\)\.IsTrue\(`+cond(`\$2`, "Registered")+`\)$`, `-^len\(utils/nodeclaim\.AllNodesForNodeClaim\(\$0\.kubeClient, \$2\)#0\)>=1$`),
			G(`-^\$2\.Status\.ProviderID == ""$`),
		)},
		// lifecycle.finalize is entered only for deleting NodeClaims, from the controller
		WMC{ID: "C09.WMC5", Sink: `^(call|go|defer) \(\*life\.Controller\)\.finalize\(`, Allowed: []string{"(*life.Controller).Reconcile"}, Required: []string{"(*life.Controller).Reconcile"}},
		// "if it was ever launched" is read off Status.ProviderID (DOM6/DOM7): the launch has to be on record before
		// lifecycle.Reconcile reports success
		core.Custom{ID: "C09.MPT4", Kind: "MPT", Run: c09LaunchRecorded},
		DOM{ID: "C09.DOM8", Fn: "(*life.Controller).Reconcile", Sink: `^call \(\*life\.Controller\)\.finalize\(\$0, \$2\)`, Gates: gates(
			G(`-^\(\*metav1\.Time\)\.IsZero\(\$2\.ObjectMeta\.DeletionTimestamp\)$`),
		)},
	}
}

// C09.REG1: the step slice is [awaitDrain, awaitVolumeDetachment, awaitInstanceTermination].
func c09Steps(w *core.World, id string) []core.Result {
	const fin = "(*term.Controller).finalize"
	fn := w.Fn(fin)
	if fn == nil {
		return []core.Result{core.Anchor(id, "REG", fin)}
	}
	want := []string{"awaitDrain", "awaitVolumeDetachment", "awaitInstanceTermination"}
	re := regexp.MustCompile(`^store &local<\[(\d+)\]term\.terminationFunc>\[(\d+)\] = closure:\(\*term\.Controller\)\.(\w+)\$bound$`)
	got := map[string]string{}
	size := ""
	for _, s := range w.Sites(fn, re, false) {
		m := re.FindStringSubmatch(w.RenderInstr(s))
		got[m[2]] = m[3]
		size = m[1]
	}
	construct := "REG:" + fin + ":steps"
	if size != fmt.Sprint(len(want)) || len(got) != len(want) {
		return []core.Result{core.Bad(id, "REG", construct, w.Pos(fn.Pos()), fmt.Sprintf("termination step list is %v (size %s), expected %v", got, size, want))}
	}
	for i, n := range want {
		if got[fmt.Sprint(i)] != n {
			return []core.Result{core.Bad(id, "REG", construct, w.Pos(fn.Pos()), fmt.Sprintf("termination step #%d is %q, expected %q (drain → volume detachment → instance termination)", i, got[fmt.Sprint(i)], n))}
		}
	}
	// the receiver bound is the controller itself
	return []core.Result{core.OK(id, "REG", construct, 3, "drain → volume detachment → instance termination")}
}

// C09.PROV2: Drain partitions *all* waiting pods: the waiting set is Filter(GetPods, IsWaitingEviction) and each
// waiting pod is appended to exactly one of the two batches.
func c09DrainPartition(w *core.World, id string) []core.Result {
	const drain = "(*tor.Terminator).Drain"
	pred := w.Fn("@arg:" + drain + `|^call lo\.Filter\[\*corev1\.Pod, \[\]\*corev1\.Pod\]\(utils/node\.GetPods\(|1`)
	if pred == nil {
		return []core.Result{core.Bad(id, "PROV", "PROV:"+drain+":waiting", "", "the waiting-pod filter of Drain cannot be resolved (must be lo.Filter(GetPods(node), …))")}
	}
	if len(w.SitesOr(pred, regexp.MustCompile(`^return utils/pod\.IsWaitingEviction\(\$0, \^\$0\.clock\)$`), false, 1)) == 0 {
		return []core.Result{core.Bad(id, "PROV", "PROV:"+drain+":waiting", w.Pos(pred.Pos()), "the waiting set is no longer exactly the pods for which IsWaitingEviction holds")}
	}
	fn := w.Fn(drain)
	// both branches of needsForceDelete append the pod (in Drain itself, or in the private helper the split was moved to)
	var rs []core.Result
	w.WithHelpers(fn, func(f *ssa.Function, _ ssa.Instruction) {
		if len(rs) > 0 && rs[0].Status == core.Discharged {
			return
		}
		p := POST{ID: id, Fn: core.FnName(f), FromLit: `?^tor\.needsForceDelete\(lo\.Filter\[`, Must: []string{`^call append\(phi\(nil\|`}}
		if r := p.Check(w); len(rs) == 0 || (len(r) > 0 && r[0].Status == core.Discharged) || f == fn {
			if len(rs) == 0 || r[0].Status == core.Discharged {
				rs = r
			}
		}
	})
	return rs
}

// c09GroupsReturned: every slice groupPodsByPriority appends a pod to is one of the slices it returns.
func c09GroupsReturned(w *core.World, id string) []core.Result {
	const fname = "(*tor.Terminator).groupPodsByPriority"
	fn := w.Fn(fname)
	if fn == nil {
		return []core.Result{core.Anchor(id, "REG", fname)}
	}
	construct := "REG:" + fname + ":returned"
	re := regexp.MustCompile(`^store &local<\[\d+\]\[\]\*corev1\.Pod>\[\d+\] = `)
	returned := map[ssa.Value]bool{}
	for _, s := range w.Sites(fn, re, false) {
		returned[s.(*ssa.Store).Val] = true
	}
	if len(w.Sites(fn, regexp.MustCompile(`^return &local<\[\d+\]\[\]\*corev1\.Pod>\[:\]$`), false)) == 0 || len(returned) == 0 {
		return []core.Result{core.Bad(id, "REG", construct, w.Pos(fn.Pos()), "the groups are no longer returned as a literal of the accumulated slices (idiom not recognised)")}
	}
	n := 0
	for _, b := range fn.Blocks {
		for _, in := range b.Instrs {
			c, ok := in.(*ssa.Call)
			if !ok {
				continue
			}
			if bi, ok := c.Call.Value.(*ssa.Builtin); !ok || bi.Name() != "append" {
				continue
			}
			n++
			if !returned[c.Call.Args[0]] {
				return []core.Result{core.Bad(id, "REG", construct, w.InstrPos(c), "a pod is appended to a slice that is not among the returned groups: it is never queued for eviction, yet Drain reports the node drained")}
			}
		}
	}
	if n == 0 {
		return []core.Result{core.Bad(id, "REG", construct, w.Pos(fn.Pos()), "no append found (idiom not recognised)")}
	}
	return []core.Result{core.OK(id, "REG", construct, n, "every accumulated slice is returned")}
}

// c09BypassBatchEmpty: Drain returns nil only across a false edge of `len(B) > 0` where B is the very value handed to the
// tier-bypassing Queue.Add (pods past their force-delete time), not merely a list that renders like it.
func c09BypassBatchEmpty(w *core.World, id string) []core.Result {
	const drain = "(*tor.Terminator).Drain"
	fn := w.Fn(drain)
	if fn == nil {
		return []core.Result{core.Anchor(id, "MPT", drain)}
	}
	construct := "MPT:" + drain + ":bypass-batch-empty"
	var bypass ssa.Value
	for _, s := range w.Sites(fn, regexp.MustCompile(`^call \(\*tor\.Queue\)\.Add\(\$0\.evictionQueue, \$3, `), false) {
		if a := s.(*ssa.Call).Call.Args[2]; !regexp.MustCompile(`groupPodsByPriority\(`).MatchString(w.Render(a)) {
			bypass = a
		}
	}
	if bypass == nil {
		return []core.Result{core.Bad(id, "MPT", construct, w.Pos(fn.Pos()), "vacuous: the tier-bypassing Add was not found")}
	}
	cut := core.NewCut()
	n := 0
	for _, b := range fn.Blocks {
		if len(b.Instrs) == 0 || len(b.Succs) != 2 {
			continue
		}
		ifi, ok := b.Instrs[len(b.Instrs)-1].(*ssa.If)
		if !ok {
			continue
		}
		// len(B) > 0, 0 < len(B), len(B) != 0, len(B) >= 1 and their negations: find the edge on which len(B) == 0
		cond, neg := ifi.Cond, false
		for {
			u, isNot := cond.(*ssa.UnOp)
			if !isNot || u.Op != token.NOT {
				break
			}
			neg = !neg
			cond = u.X
		}
		bo, ok := cond.(*ssa.BinOp)
		if !ok {
			continue
		}
		isLenB := func(v ssa.Value) bool {
			c, ok := v.(*ssa.Call)
			if !ok {
				return false
			}
			bi, ok := c.Call.Value.(*ssa.Builtin)
			return ok && bi.Name() == "len" && len(c.Call.Args) == 1 && c.Call.Args[0] == bypass
		}
		isK := func(v ssa.Value, k int64) bool {
			c, ok := v.(*ssa.Const)
			return ok && c.Value != nil && c.Int64() == k
		}
		emptyOnTrue, found := false, false
		switch {
		case isLenB(bo.X) && isK(bo.Y, 0) && (bo.Op == token.GTR || bo.Op == token.NEQ), isK(bo.X, 0) && isLenB(bo.Y) && (bo.Op == token.LSS || bo.Op == token.NEQ),
			isLenB(bo.X) && isK(bo.Y, 1) && bo.Op == token.GEQ:
			emptyOnTrue, found = false, true
		case isLenB(bo.X) && isK(bo.Y, 0) && (bo.Op == token.EQL || bo.Op == token.LEQ), isK(bo.X, 0) && isLenB(bo.Y) && bo.Op == token.EQL,
			isLenB(bo.X) && isK(bo.Y, 1) && bo.Op == token.LSS:
			emptyOnTrue, found = true, true
		}
		if !found {
			continue
		}
		n++
		e := 1
		if emptyOnTrue != neg {
			e = 0
		}
		cut.Edges[core.EdgeKey{From: b, Succ: e}] = true
	}
	if n == 0 {
		return []core.Result{core.Bad(id, "MPT", construct, w.Pos(fn.Pos()), "the force-delete batch is never tested for emptiness")}
	}
	var out []core.Result
	k := 0
	for _, s := range w.ReturnSinks(fn, core.RetNilConst) {
		k++
		if core.InstrReachable(s.Ret, cut) {
			out = append(out, core.Bad(id, "MPT", construct, w.InstrPos(s.Ret), "Drain reports the node drained on a path that never found the force-delete batch empty (pods past their deadline may still be on the node)"))
		}
	}
	if k == 0 {
		return []core.Result{core.Bad(id, "MPT", construct, w.Pos(fn.Pos()), "vacuous: no `return nil`")}
	}
	if len(out) == 0 {
		out = append(out, core.OK(id, "MPT", construct, n, "drained ⇒ the force-delete batch was empty"))
	}
	return out
}

// ---------------------------------------------------------------------------
// C09.RET1 — no step hands finalize an (empty Result, nil error) outside its "satisfied" condition

type c09Step struct {
	fn    string
	gates []Gate // the step's documented "satisfied" condition
	min   int    // returns whose error may be nil, confirmed by reading the code
}

// c09Frame binds the parameters of a private helper to the values of the call being looked into.
type c09Frame struct {
	args   map[*ssa.Parameter]ssa.Value
	parent *c09Frame
}

func c09StepRequeues(w *core.World, id string, steps []c09Step) []core.Result {
	var out []core.Result
	for _, st := range steps {
		fn := w.Fn(st.fn)
		if fn == nil {
			out = append(out, core.Anchor(id, "MPT", st.fn))
			continue
		}
		construct := "MPT:" + st.fn + ":not-yet⇒requeue≠0"
		sinks := w.ReturnSinks(fn, core.RetOK) // every return whose error is not certainly non-nil
		if len(sinks) < st.min {
			out = append(out, core.Bad(id, "MPT", construct, w.Pos(fn.Pos()), fmt.Sprintf("vacuous: %d return(s) of %s with a possibly nil error, %d confirmed by hand", len(sinks), st.fn, st.min)))
			continue
		}
		requeues, proceeds, bad := 0, 0, 0
		for _, s := range sinks {
			v := c09SinkResult(s, 0)
			if v == nil {
				out = append(out, core.Bad(id, "MPT", construct, w.InstrPos(s.Ret), "return of "+st.fn+" has no reconcile.Result operand (idiom not recognised)"))
				bad++
				continue
			}
			ok, why := c09ResultNonEmpty(w, fn, v, nil, 0)
			if ok {
				requeues++
				continue
			}
			// possibly empty: this is a "step satisfied" answer, whatever it is spelled like
			var missing []string
			for _, g := range st.gates {
				if !w.RetGuarded(s, g) {
					missing = append(missing, "{"+g.Text+"}")
				}
			}
			if len(missing) == 0 {
				proceeds++
				continue
			}
			bad++
			out = append(out, core.Bad(id, "MPT", construct, w.InstrPos(s.Ret),
				fmt.Sprintf("%s can return a reconcile.Result that may be empty (%s) together with a nil error without having passed its 'step satisfied' condition %s: finalize reads (empty result, nil error) as 'step satisfied', runs the next step and removes the finalizer — a 'not yet' return must carry Requeue=true or a RequeueAfter that cannot be zero",
					st.fn, why, strings.Join(missing, " ∧ ")), w.DominatingLits(s.Ret)...))
		}
		if bad == 0 {
			out = append(out, core.OK(id, "MPT", construct, len(sinks), fmt.Sprintf("%d nil-error return(s): %d with a provably non-empty requeue, %d guarded by the step's condition", len(sinks), requeues, proceeds)))
		}
	}
	return out
}

// c09SinkResult: result #idx at this return sink (the operand arriving over the sink's predecessor when both are phis of
// the returning block).
func c09SinkResult(s core.RetSink, idx int) ssa.Value {
	v := core.ResolveRet(s.Ret, idx)
	if phi, ok := v.(*ssa.Phi); ok && s.Pred != nil && phi.Block() == s.Ret.Block() {
		for i, p := range phi.Block().Preds {
			if p == s.Pred && i < len(phi.Edges) {
				return phi.Edges[i]
			}
		}
	}
	return v
}

// c09ResultNonEmpty: the reconcile.Result value v certainly has Requeue == true or RequeueAfter > 0.
func c09ResultNonEmpty(w *core.World, owner *ssa.Function, v ssa.Value, fr *c09Frame, depth int) (bool, string) {
	if depth > 3 {
		return false, "helper nesting too deep"
	}
	switch x := v.(type) {
	case *ssa.Const:
		return false, "the literal empty Result"
	case *ssa.Parameter:
		for f := fr; f != nil; f = f.parent {
			if a, ok := f.args[x]; ok {
				return c09ResultNonEmpty(w, owner, a, f.parent, depth)
			}
		}
		return false, "a parameter"
	case *ssa.Phi:
		for _, e := range x.Edges {
			if e == v {
				continue
			}
			if ok, why := c09ResultNonEmpty(w, owner, e, fr, depth+1); !ok {
				return false, why
			}
		}
		return len(x.Edges) > 0, "empty phi"
	case *ssa.UnOp:
		if x.Op != token.MUL {
			break
		}
		a, ok := x.X.(*ssa.Alloc)
		if !ok {
			break
		}
		return c09LocalResultNonEmpty(w, a, x, fr)
	case *ssa.Call, *ssa.Extract:
		// the Result is produced by a private helper: every return of the helper whose error may be nil must be non-empty
		call, k := (*ssa.Call)(nil), 0
		if ex, isEx := x.(*ssa.Extract); isEx {
			call, _ = ex.Tuple.(*ssa.Call)
			k = ex.Index
		} else {
			call = x.(*ssa.Call)
		}
		if call == nil {
			break
		}
		h, args, ok := w.PrivateHelperCall(owner, call)
		if !ok {
			return false, "the result of `" + w.RenderD(call, 4) + "`, which is not a private helper that can be looked into"
		}
		nf := &c09Frame{args: map[*ssa.Parameter]ssa.Value{}, parent: fr}
		for i, p := range h.Params {
			nf.args[p] = args[i]
		}
		spec := core.RetAny
		res := h.Signature.Results()
		if res.Len() > 1 && res.At(res.Len()-1).Type().String() == "error" {
			spec = core.RetOK
		}
		sinks := w.ReturnSinks(h, spec)
		if len(sinks) == 0 {
			return false, "helper " + core.FnName(h) + " never returns with a nil error"
		}
		for _, s := range sinks {
			rv := c09SinkResult(s, k)
			if rv == nil {
				return false, "helper " + core.FnName(h) + ": return not recognised"
			}
			if ok, why := c09ResultNonEmpty(w, owner, rv, nf, depth+1); !ok {
				return false, "helper " + core.FnName(h) + " @" + w.InstrPos(s.Ret) + ": " + why
			}
		}
		return true, ""
	}
	return false, "`" + w.RenderD(v, 5) + "` is not a Result literal"
}

// c09LocalResultNonEmpty: `load` reads a local reconcile.Result that is only ever written field by field; one of
// Requeue / RequeueAfter is written on every path to the load (a store dominates it) and every value ever stored to that
// field is provably non-zero.
func c09LocalResultNonEmpty(w *core.World, a *ssa.Alloc, load *ssa.UnOp, fr *c09Frame) (bool, string) {
	stores := map[string][]*ssa.Store{}
	if a.Referrers() == nil {
		return false, "local Result without referrers"
	}
	for _, r := range *a.Referrers() {
		switch x := r.(type) {
		case *ssa.DebugRef:
		case *ssa.UnOp:
			if x.Op != token.MUL {
				return false, "the local Result is used in a way that is not recognised"
			}
		case *ssa.FieldAddr:
			name := core.FieldNameOf(x)
			if x.Referrers() == nil {
				continue
			}
			for _, fr2 := range *x.Referrers() {
				st, isStore := fr2.(*ssa.Store)
				if _, isDbg := fr2.(*ssa.DebugRef); isDbg {
					continue
				}
				if ld, isLoad := fr2.(*ssa.UnOp); isLoad && ld.Op == token.MUL {
					continue
				}
				if !isStore || st.Addr != ssa.Value(x) {
					return false, "the address of field " + name + " of the local Result escapes"
				}
				stores[name] = append(stores[name], st)
			}
		default:
			return false, "the local Result escapes or is overwritten as a whole (`" + clipStr(w.RenderInstr(r), 80) + "`)"
		}
	}
	why := "no store to Requeue / RequeueAfter"
	for _, f := range []string{"RequeueAfter", "Requeue"} {
		sts := stores[f]
		if len(sts) == 0 {
			continue
		}
		dominated, allPos := false, true
		for _, st := range sts {
			if c09InstrDominates(st, load) {
				dominated = true
			}
			if !c09Positive(w, st.Val, fr, 0) {
				allPos = false
				why = f + " = `" + w.RenderD(st.Val, 6) + "` is not provably non-zero"
			}
		}
		if !dominated && allPos {
			why = f + " is not set on every path to the return"
		}
		if dominated && allPos {
			return true, ""
		}
	}
	return false, why
}

func c09InstrDominates(a, b ssa.Instruction) bool {
	if a.Block() == b.Block() {
		for _, in := range a.Block().Instrs {
			if in == a {
				return true
			}
			if in == b {
				return false
			}
		}
		return false
	}
	return a.Block().Dominates(b.Block())
}

// c09Positive: the scalar v (bool or duration) is certainly true / > 0: a constant, a phi or conversion of such, a helper
// parameter bound to such, builtin max with one such operand, builtin min / lo.Clamp bounds that are all such.
func c09Positive(w *core.World, v ssa.Value, fr *c09Frame, depth int) bool {
	if depth > 6 {
		return false
	}
	switch x := v.(type) {
	case *ssa.Const:
		if x.Value == nil {
			return false
		}
		switch x.Value.Kind() {
		case constant.Bool:
			return constant.BoolVal(x.Value)
		case constant.Int, constant.Float:
			return constant.Sign(x.Value) > 0
		}
		return false
	case *ssa.Parameter:
		for f := fr; f != nil; f = f.parent {
			if a, ok := f.args[x]; ok {
				return c09Positive(w, a, f.parent, depth+1)
			}
		}
		return false
	case *ssa.Phi:
		for _, e := range x.Edges {
			if e == v {
				continue
			}
			if !c09Positive(w, e, fr, depth+1) {
				return false
			}
		}
		return len(x.Edges) > 0
	case *ssa.ChangeType:
		return c09Positive(w, x.X, fr, depth+1)
	case *ssa.Convert:
		// integer ↔ integer of the same size or wider (int64 → time.Duration): sign preserved
		bf, okf := x.X.Type().Underlying().(*types.Basic)
		bt, okt := x.Type().Underlying().(*types.Basic)
		if okf && okt && bf.Info()&types.IsInteger != 0 && bt.Kind() == types.Int64 && bf.Info()&types.IsUnsigned == 0 {
			return c09Positive(w, x.X, fr, depth+1)
		}
		return false
	case *ssa.UnOp:
		// a local that is stored exactly once (a temporary)
		if x.Op == token.MUL {
			if a, ok := x.X.(*ssa.Alloc); ok && a.Referrers() != nil {
				var only *ssa.Store
				for _, r := range *a.Referrers() {
					switch y := r.(type) {
					case *ssa.Store:
						if y.Addr != ssa.Value(a) || only != nil {
							return false
						}
						only = y
					case *ssa.UnOp, *ssa.DebugRef:
					default:
						return false
					}
				}
				return only != nil && c09InstrDominates(only, x) && c09Positive(w, only.Val, fr, depth+1)
			}
		}
		return false
	case *ssa.Call:
		args := x.Call.Args
		if bi, ok := x.Call.Value.(*ssa.Builtin); ok {
			switch bi.Name() {
			case "max":
				for _, a := range args {
					if c09Positive(w, a, fr, depth+1) {
						return true
					}
				}
				return false
			case "min":
				for _, a := range args {
					if !c09Positive(w, a, fr, depth+1) {
						return false
					}
				}
				return len(args) > 0
			}
			return false
		}
		if strings.HasPrefix(w.CalleeName(x.Common()), "lo.Clamp[") && len(args) == 3 {
			// Clamp(v, lo, hi) ∈ {lo, hi} ∪ [lo, hi]
			return c09Positive(w, args[1], fr, depth+1) && c09Positive(w, args[2], fr, depth+1)
		}
		return false
	}
	return false
}

// ---------------------------------------------------------------------------
// C09.PROV3 — what Terminator.Taint treats as "already tainted", and what it adds

func c09TaintMatch(w *core.World, id string) []core.Result {
	const fname = "(*tor.Terminator).Taint"
	fn := w.Fn(fname)
	if fn == nil {
		return []core.Result{core.Anchor(id, "PROV", fname)}
	}
	construct := "PROV:" + fname + ":present⇔MatchTaint"
	findRe := regexp.MustCompile(`^call lo\.Find\[corev1\.Taint\]\(\$2\.Spec\.Taints, `)
	predRe := regexp.MustCompile(`^return \(\*corev1\.Taint\)\.MatchTaint\((\$0, \^*\$3|\^*\$3, \$0)\)$`)
	storeRe := regexp.MustCompile(`^store \$2\.Spec\.Taints = append\(`)
	var out []core.Result
	tests, adds := 0, 0
	w.WithHelpers(fn, func(f *ssa.Function, _ ssa.Instruction) {
		// (a) every membership test over node.Spec.Taints (lo.Find's found flag / lo.ContainsBy / lo.SomeBy) asks for key AND effect
		for _, s := range w.Sites(f, findRe, true) {
			ci, ok := s.(ssa.CallInstruction)
			if !ok {
				continue
			}
			tests++
			args := core.CallArgs(ci.Common())
			var pred *ssa.Function
			if len(args) >= 2 {
				switch x := args[1].(type) {
				case *ssa.MakeClosure:
					pred, _ = x.Fn.(*ssa.Function)
				case *ssa.Function:
					pred = x
				}
			}
			if pred == nil {
				out = append(out, core.Bad(id, "PROV", construct, w.InstrPos(s), "the predicate of the existing-taint test in Taint cannot be resolved (idiom not recognised)"))
				continue
			}
			rets := w.Sites(pred, regexp.MustCompile(`^return `), false)
			if len(rets) == 0 {
				out = append(out, core.Bad(id, "PROV", construct, w.Pos(pred.Pos()), "the predicate of the existing-taint test has no return (idiom not recognised)"))
			}
			for _, r := range rets {
				if got := w.RenderInstr(r); !predRe.MatchString(got) {
					out = append(out, core.Bad(id, "PROV", construct, w.InstrPos(r),
						"Taint treats the node as already tainted when `"+clipStr(strings.TrimPrefix(got, "return "), 120)+"` holds for one of its taints; it must be Taint.MatchTaint(&taint) (same key AND effect): a taint with the same key but another effect does not cordon the node, yet Taint would return nil without adding NoSchedule"))
				}
			}
		}
		// (b) the taint appended to node.Spec.Taints is the requested one
		for _, s := range w.Sites(f, storeRe, true) {
			st, ok := s.(*ssa.Store)
			if !ok {
				continue
			}
			adds++
			if el, ok := c09AppendedElem(st.Val); !ok {
				out = append(out, core.Bad(id, "PROV", construct, w.InstrPos(s), "the value appended to node.Spec.Taints is not a single-element literal (idiom not recognised)"))
			} else if got := w.Render(el); !regexp.MustCompile(`^\^*\$3$`).MatchString(got) {
				out = append(out, core.Bad(id, "PROV", construct, w.InstrPos(s), "Taint appends `"+clipStr(got, 100)+"` to node.Spec.Taints instead of the taint it was asked to add"))
			}
		}
	})
	if tests < 1 {
		out = append(out, core.Bad(id, "PROV", construct, w.Pos(fn.Pos()), "vacuous: no lo.Find / lo.ContainsBy over node.Spec.Taints in Taint (1 confirmed by hand) — the existing-taint test changed shape and has to be re-confirmed"))
	}
	if adds < 1 {
		out = append(out, core.Bad(id, "PROV", construct, w.Pos(fn.Pos()), "vacuous: no `node.Spec.Taints = append(…, taint)` in Taint (1 confirmed by hand)"))
	}
	if len(out) == 0 {
		out = append(out, core.OK(id, "PROV", construct, tests+adds, "already tainted ⇔ some taint MatchTaint(&taint); the taint appended is the one requested"))
	}
	return out
}

// c09AppendedElem: v is append(xs, e) with a single variadic element; returns e.
func c09AppendedElem(v ssa.Value) (ssa.Value, bool) {
	c, ok := v.(*ssa.Call)
	if !ok || len(c.Call.Args) != 2 {
		return nil, false
	}
	if bi, ok := c.Call.Value.(*ssa.Builtin); !ok || bi.Name() != "append" {
		return nil, false
	}
	sl, ok := c.Call.Args[1].(*ssa.Slice)
	if !ok {
		return nil, false
	}
	a, ok := sl.X.(*ssa.Alloc)
	if !ok || a.Referrers() == nil {
		return nil, false
	}
	if arr, ok := a.Type().Underlying().(*types.Pointer).Elem().Underlying().(*types.Array); !ok || arr.Len() != 1 {
		return nil, false
	}
	var el ssa.Value
	for _, r := range *a.Referrers() {
		ia, ok := r.(*ssa.IndexAddr)
		if !ok || ia.Referrers() == nil {
			continue
		}
		for _, r2 := range *ia.Referrers() {
			if st, ok := r2.(*ssa.Store); ok && st.Addr == ssa.Value(ia) {
				if el != nil {
					return nil, false
				}
				el = st.Val
			}
		}
	}
	return el, el != nil
}

// ---------------------------------------------------------------------------
// C09.PROV4 — which volume attachments filterVolumeAttachments may drop from the blocking list

// c09VolumeFilter: awaitVolumeDetachment proceeds when the list filterVolumeAttachments returns is empty, so every
// attachment missing from that list is one the node's termination does not wait for. Decided here:
//
//	(a) with a nil error the function returns its input list or lo.Reject / lo.Filter over that input;
//	(b) the predicate drops an attachment only when it has no PersistentVolume name or its volume is in a string set;
//	(c) every string set in the function (and its private helpers) starts empty and only ever receives
//	    GetPersistentVolumeClaim(pod, volume).Spec.VolumeName of a pod taken from lo.Reject / lo.Filter over GetPods(node);
//	(d) that pod selection keeps a pod only when pod.IsDrainable is false for it.
func c09VolumeFilter(w *core.World, id string) []core.Result {
	const fname = "term.filterVolumeAttachments"
	fn := w.Fn(fname)
	if fn == nil {
		return []core.Result{core.Anchor(id, "PROV", fname)}
	}
	construct := "PROV:" + fname + ":dropped⊆{no PV name}∪{volumes of non-drainable pods}"
	var out []core.Result
	bad := func(pos, msg string) { out = append(out, core.Bad(id, "PROV", construct, pos, msg)) }
	const (
		podList = `lo\.(Reject|Filter)\[\*corev1\.Pod, \[\]\*corev1\.Pod\]\(utils/node\.GetPods\([^()]*(\[:\])?\)#0, [^ ]*\)`
		pvName  = `\$0\.Spec\.Source\.PersistentVolumeName`
	)
	dropGate := G(`+^`+pvName+` == nil$`, `+^\(apim/util/sets\.Set\[string\]\)\.Has\(.*, `+pvName+`\)$`)
	volRe := regexp.MustCompile(`^utils/volume\.GetPersistentVolumeClaim\(.*, ` + podList + `\[.*\], .*\)#0\.Spec\.VolumeName$`)

	// (a) + (b): what is returned with a nil error
	predicates := 0
	var check func(owner *ssa.Function, v ssa.Value, pos string, depth int)
	check = func(owner *ssa.Function, v ssa.Value, pos string, depth int) {
		switch x := v.(type) {
		case *ssa.Parameter:
			if w.Render(x) != "$3" {
				bad(pos, "filterVolumeAttachments returns `"+w.Render(x)+"` with a nil error: neither its input list nor a filtering of it")
			}
			return
		case *ssa.Phi:
			if depth < 4 {
				for _, e := range x.Edges {
					if e != v {
						check(owner, e, pos, depth+1)
					}
				}
				return
			}
		case *ssa.Call:
			name := w.CalleeName(x.Common())
			isReject, isFilter := strings.HasPrefix(name, "lo.Reject["), strings.HasPrefix(name, "lo.Filter[")
			if isReject || isFilter {
				args := core.CallArgs(x.Common())
				if len(args) != 2 || w.Render(args[0]) != "$3" {
					bad(pos, "the list filtered for the nil-error return of filterVolumeAttachments is not the input list (`"+clipStr(w.RenderD(x, 4), 120)+"`)")
					return
				}
				var pred *ssa.Function
				switch p := args[1].(type) {
				case *ssa.MakeClosure:
					pred, _ = p.Fn.(*ssa.Function)
				case *ssa.Function:
					pred = p
				}
				if pred == nil {
					bad(pos, "the predicate of the attachment filter cannot be resolved (idiom not recognised)")
					return
				}
				// lo.Reject drops where the predicate is true, lo.Filter where it is false
				spec, how := core.RetTrue, "lo.Reject drops an attachment for which its predicate answers true"
				if isFilter {
					spec, how = core.RetFalse, "lo.Filter drops an attachment for which its predicate answers false"
				}
				sinks := w.ReturnSinks(pred, spec)
				if len(sinks) == 0 {
					bad(w.Pos(pred.Pos()), "vacuous: the attachment predicate never answers "+spec.Want+" (idiom not recognised)")
					return
				}
				predicates++
				for _, s := range sinks {
					if !w.RetGuarded(s, dropGate) {
						out = append(out, core.Bad(id, "PROV", construct, w.InstrPos(s.Ret),
							how+"; here it can do so ("+s.Desc+") although the attachment has a PersistentVolume name that is not in the set of volumes of non-drainable pods {"+dropGate.Text+"}: the attachment of a drainable pod's volume no longer blocks termination, the instance is deleted with the volume attached",
							w.DominatingLits(s.Ret)...))
					}
				}
				return
			}
			if h, ret, leave, ok := w.EnterHelper(owner, x); ok && depth < 4 {
				check(h, ret, w.Pos(h.Pos()), depth+1)
				leave()
				return
			}
		}
		bad(pos, "with a nil error filterVolumeAttachments returns `"+clipStr(w.RenderD(v, 4), 120)+"`, which is neither its input list nor lo.Reject / lo.Filter over it (idiom not recognised): attachments missing from the result are not waited for")
	}
	sinks := w.ReturnSinks(fn, core.RetOK)
	for _, s := range sinks {
		v := c09SinkResult(s, 0)
		if v == nil {
			bad(w.InstrPos(s.Ret), "return of filterVolumeAttachments without a list operand (idiom not recognised)")
			continue
		}
		check(fn, v, w.InstrPos(s.Ret), 0)
	}
	if len(sinks) < 1 || predicates < 1 {
		bad(w.Pos(fn.Pos()), fmt.Sprintf("vacuous: %d nil-error return(s), %d filtering predicate(s) examined (1 confirmed by hand)", len(sinks), predicates))
	}

	// (c) + (d): what the exclusion set holds
	news, inserts, selections := 0, 0, 0
	newRe := regexp.MustCompile(`^call apim/util/sets\.New\[string\]\(`)
	setCall := regexp.MustCompile(`^call \(apim/util/sets\.Set\[string\]\)\.(\w+)\(`)
	selRe := regexp.MustCompile(`^call ` + podList + `$`)
	seenSel := map[ssa.Instruction]bool{}
	w.WithHelpers(fn, func(f *ssa.Function, _ ssa.Instruction) {
		for _, s := range w.Sites(f, newRe, true) {
			news++
			if got := w.RenderInstr(s); got != "call apim/util/sets.New[string](nil)" {
				bad(w.InstrPos(s), "a string set in filterVolumeAttachments does not start empty (`"+clipStr(got, 100)+"`): its members are dropped from the blocking attachments")
			}
		}
		for _, s := range w.Sites(f, setCall, true) {
			switch m := setCall.FindStringSubmatch(w.RenderInstr(s)); m[1] {
			case "Has", "Len":
			case "Insert":
				inserts++
				ci := s.(ssa.CallInstruction)
				args := core.CallArgs(ci.Common())
				els, ok := []ssa.Value(nil), false
				if len(args) == 2 {
					els, ok = c09SliceLitElems(args[1])
				}
				if !ok {
					bad(w.InstrPos(s), "the values inserted into the exclusion set are not a literal argument list (idiom not recognised)")
					continue
				}
				for _, el := range els {
					if got := w.RenderD(el, 14); !volRe.MatchString(got) {
						bad(w.InstrPos(s), "`"+clipStr(got, 200)+"` is put into the set of volumes whose attachments do not block termination; only the volume of a PersistentVolumeClaim of a pod selected as not drainable from GetPods(node) belongs there")
					}
				}
			default:
				bad(w.InstrPos(s), "string set operation `"+m[1]+"` in filterVolumeAttachments is not one of Insert / Has / Len (idiom has to be re-confirmed)")
			}
		}
		// (d) the pods whose volumes are excluded: kept ⇒ not drainable
		for _, s := range w.Sites(f, selRe, true) {
			if seenSel[s] {
				continue
			}
			seenSel[s] = true
			selections++
			ci := s.(ssa.CallInstruction)
			args := core.CallArgs(ci.Common())
			var pred *ssa.Function
			if len(args) == 2 {
				switch p := args[1].(type) {
				case *ssa.MakeClosure:
					pred, _ = p.Fn.(*ssa.Function)
				case *ssa.Function:
					pred = p
				}
			}
			if pred == nil {
				bad(w.InstrPos(s), "the predicate selecting the pods whose volumes do not block cannot be resolved (idiom not recognised)")
				continue
			}
			// lo.Reject keeps where the predicate is false, lo.Filter where it is true
			spec := core.RetFalse
			if strings.HasPrefix(w.CalleeName(ci.Common()), "lo.Filter[") {
				spec = core.RetTrue
			}
			ps := w.ReturnSinks(pred, spec)
			if len(ps) == 0 {
				bad(w.Pos(pred.Pos()), "vacuous: the pod selection keeps no pod (idiom not recognised)")
			}
			g := G(`-^utils/pod\.IsDrainable\(\$0, .*\)$`)
			for _, p := range ps {
				if !w.RetGuarded(p, g) {
					out = append(out, core.Bad(id, "PROV", construct, w.InstrPos(p.Ret),
						"the pods whose volumes are excluded from the blocking attachments must be the pods that are NOT drainable (they stay on the node, their volumes never detach); this selection keeps a pod ("+p.Desc+") without pod.IsDrainable being false for it — the attachments of drainable pods' volumes then stop blocking termination",
						w.DominatingLits(p.Ret)...))
				}
			}
		}
	})
	if news < 1 || inserts < 1 || selections < 1 {
		bad(w.Pos(fn.Pos()), fmt.Sprintf("vacuous: %d sets.New[string], %d Insert, %d pod selection(s) over GetPods found in filterVolumeAttachments (1 each confirmed by hand) — the exclusion set is built differently and has to be re-confirmed", news, inserts, selections))
	}
	if len(out) == 0 {
		out = append(out, core.OK(id, "PROV", construct, len(sinks)+predicates+inserts+selections,
			"returned = input ∖ {no PV name ∨ volume ∈ set}; set ⊆ PVC volumes of pods with ¬IsDrainable"))
	}
	return out
}

// c09SliceLitElems: v is `&local<[n]T>[:]` (the argument list of a variadic call); returns the n values stored into it.
func c09SliceLitElems(v ssa.Value) ([]ssa.Value, bool) {
	sl, ok := v.(*ssa.Slice)
	if !ok {
		return nil, false
	}
	a, ok := sl.X.(*ssa.Alloc)
	if !ok || a.Referrers() == nil {
		return nil, false
	}
	arr, ok := a.Type().Underlying().(*types.Pointer).Elem().Underlying().(*types.Array)
	if !ok {
		return nil, false
	}
	var els []ssa.Value
	for _, r := range *a.Referrers() {
		ia, ok := r.(*ssa.IndexAddr)
		if !ok || ia.Referrers() == nil {
			continue
		}
		for _, r2 := range *ia.Referrers() {
			if st, ok := r2.(*ssa.Store); ok && st.Addr == ssa.Value(ia) {
				els = append(els, st.Val)
			}
		}
	}
	return els, int64(len(els)) == arr.Len() && len(els) > 0
}

// ---------------------------------------------------------------------------
// C09.MPT4 — the launch is on record before lifecycle.Reconcile reports success

// c09LaunchRecorded: lifecycle.finalize decides "was an instance ever launched" from nodeClaim.Status.ProviderID of the
// object it reads from the API server (DOM6/DOM7: no provider id ⇒ the finalizer goes without a provider Delete). The
// provider id is written into the in-memory object by the launch sub-reconciler and reaches the API server only through
// the status patch at the end of lifecycle.Reconcile. Decided here, for every return of Reconcile that can be reached
// after a sub-reconciler ran and whose error may be nil:
//
//	(a) the NodeClaim equals the copy taken before the sub-reconcilers ran, or the status patch (relative to such a copy)
//	    returned nil — except `return …, client.IgnoreNotFound(err)` on the edge where a patch failed (object gone);
//	(b) that copy is taken before the sub-reconcilers run (taken after, nothing ever differs);
//	(c) the object whose status is patched still carries what the sub-reconcilers wrote: client.Patch overwrites its
//	    argument with the server's answer (which has the old status), so either no metadata patch / update of the
//	    NodeClaim lies between the sub-reconcilers and the status patch, or the status patch is given a copy taken after
//	    the sub-reconcilers and before that write.
func c09LaunchRecorded(w *core.World, id string) []core.Result {
	const fname = "(*life.Controller).Reconcile"
	fn := w.Fn(fname)
	if fn == nil {
		return []core.Result{core.Anchor(id, "MPT", fname)}
	}
	construct := "MPT:" + fname + ":sub-reconcilers ran ∧ ok ⇒ unchanged ∨ status patched"
	var out []core.Result
	bad := func(pos, msg string, facts ...string) {
		out = append(out, core.Bad(id, "MPT", construct, pos, msg, facts...))
	}
	const (
		nc     = `<\*apis/v1\.NodeClaim>`
		cp     = nc + `\(\*apis/v1\.NodeClaim\)\.DeepCopy\(\$2\)`
		deepEq = `\(k8s\.io/apimachinery/third_party/forked/golang/reflect\.Equalities\)\.DeepEqual\(apim/api/equality\.Semantic\.Equalities, (` + cp + `, ` + nc + `\$2|` + nc + `\$2, ` + cp + `)\)`
		stPat  = `iface:\(cr/client\.SubResourceWriter\)\.(Patch|Update)\(iface:\(cr/client\.StatusClient\)\.Status\(\$0\.kubeClient\), ` + nc + `(\$2|\(\*apis/v1\.NodeClaim\)\.DeepCopy\(\$2\))`
		stOK   = stPat + `, cr/client\.MergeFrom(WithOptions)?\(` + cp + `.*\)`
	)
	recRe := regexp.MustCompile(`^call iface:\(cr/reconcile\.TypedReconciler\[\*apis/v1\.NodeClaim\]\)\.Reconcile\(`)
	recs := w.SitesOr(fn, recRe, false, 1)
	if len(recs) == 0 {
		return []core.Result{core.Bad(id, "MPT", construct, w.Pos(fn.Pos()), "vacuous: no sub-reconciler call (TypedReconciler[*NodeClaim].Reconcile) in lifecycle.Reconcile or its private helpers (1 confirmed by hand)")}
	}
	// instructions of a private helper called directly from Reconcile are placed at their call site
	frameVia := map[*ssa.Function]ssa.Instruction{}
	top := func(in ssa.Instruction) ssa.Instruction {
		if in != nil && in.Parent() != fn {
			return frameVia[in.Parent()]
		}
		return in
	}
	after := func(a, b ssa.Instruction) bool {
		if a == nil || b == nil {
			return false
		}
		if a.Parent() == b.Parent() {
			return c09After(a, b)
		}
		ta, tb := top(a), top(b)
		return ta != tb && c09After(ta, tb)
	}
	afterRecs := func(in ssa.Instruction) bool {
		for _, r := range recs {
			if after(r, in) {
				return true
			}
		}
		return false
	}
	// (a)
	gate := G(`+^`+deepEq+`$`, `+^`+stOK+` == nil$`)
	gone := G(`-^.* == nil$`)
	n := 0
	for _, s := range w.ReturnSinks(fn, core.RetOK) {
		if !afterRecs(s.Ret) {
			continue
		}
		// `return …, client.IgnoreNotFound(err)` on an edge where an error was found non-nil: nil only when the object is gone
		if c, ok := s.Val.(*ssa.Call); ok && w.CalleeName(c.Common()) == "cr/client.IgnoreNotFound" && w.RetGuarded(s, gone) {
			continue
		}
		n++
		if !w.RetGuarded(s, gate) {
			bad(w.InstrPos(s.Ret), "lifecycle.Reconcile can return with a possibly nil error ("+s.Desc+") after the sub-reconcilers ran, although the NodeClaim differs from the copy taken before them and its status patch did not succeed {"+gate.Text+"}: the provider id written by launch is not on record, lifecycle.finalize of that NodeClaim sees an empty provider id and removes the finalizer without deleting the instance",
				w.DominatingLits(s.Ret)...)
		}
	}
	if n < 1 {
		bad(w.Pos(fn.Pos()), "vacuous: no return with a possibly nil error after the sub-reconcilers (1 confirmed by hand)")
	}
	// (b) + (c): collected in Reconcile and in the private helpers it calls directly (the persisting tail may have been extracted)
	strip := func(v ssa.Value) ssa.Value {
		for {
			switch x := v.(type) {
			case *ssa.MakeInterface:
				v = x.X
			case *ssa.ChangeType:
				v = x.X
			case *ssa.ChangeInterface:
				v = x.X
			default:
				return v
			}
		}
	}
	// resolve: a helper's parameter read as the argument Reconcile passes
	resolve := func(v ssa.Value, f *ssa.Function) ssa.Value {
		v = strip(v)
		if p, ok := v.(*ssa.Parameter); ok && f != fn {
			if ci, ok := frameVia[f].(ssa.CallInstruction); ok {
				for i, q := range f.Params {
					if q == p && i < len(ci.Common().Args) {
						return strip(ci.Common().Args[i])
					}
				}
			}
		}
		return v
	}
	asCopy := func(v ssa.Value) (*ssa.Call, bool) {
		c, ok := v.(*ssa.Call)
		return c, ok && w.CalleeName(c.Common()) == "(*apis/v1.NodeClaim).DeepCopy"
	}
	type cmpSite struct {
		at     ssa.Instruction
		copies []*ssa.Call
	}
	type patchSite struct {
		at   ssa.Instruction
		copy *ssa.Call
		self bool
	}
	var metas []ssa.Instruction
	var cmpSites []cmpSite
	var patchSites []patchSite
	cmpRe := regexp.MustCompile(`^call ` + deepEq + `$`)
	metaRe := regexp.MustCompile(`^call iface:\(cr/client\.Writer\)\.(Patch|Update)\(\$0\.kubeClient, ` + nc + `\$2, `)
	stRe := regexp.MustCompile(`^call ` + stPat + `, `)
	w.WithHelpers(fn, func(f *ssa.Function, via ssa.Instruction) {
		if f != fn {
			if via == nil || via.Parent() != fn {
				return
			}
			frameVia[f] = via
		}
		metas = append(metas, w.Sites(f, metaRe, false)...)
		for _, s := range w.Sites(f, cmpRe, false) {
			cs := cmpSite{at: s}
			for _, a := range s.(ssa.CallInstruction).Common().Args {
				if c, ok := asCopy(resolve(a, f)); ok {
					cs.copies = append(cs.copies, c)
				}
			}
			cmpSites = append(cmpSites, cs)
		}
		for _, s := range w.Sites(f, stRe, false) {
			ps := patchSite{at: s}
			for _, a := range s.(ssa.CallInstruction).Common().Args {
				if mi, ok := a.(*ssa.MakeInterface); ok && strings.HasSuffix(mi.X.Type().String(), "v1.NodeClaim") {
					obj := resolve(a, f)
					if c, ok := asCopy(obj); ok {
						ps.copy = c
					} else if prm, ok := obj.(*ssa.Parameter); ok && prm.Parent() == fn && len(fn.Params) > 2 && prm == fn.Params[2] {
						ps.self = true
					}
					break
				}
			}
			patchSites = append(patchSites, ps)
		}
	})
	cmps, patches := 0, 0
	for _, cs := range cmpSites {
		if !afterRecs(cs.at) {
			continue
		}
		cmps++
		if len(cs.copies) == 0 {
			bad(w.InstrPos(cs.at), "the reference copy of the changed-test at the end of lifecycle.Reconcile is not a plain nodeClaim.DeepCopy() value (idiom not recognised)")
		}
		for _, c := range cs.copies {
			if afterRecs(c) {
				bad(w.InstrPos(c), "the copy the NodeClaim is compared with (and patched from) at the end of lifecycle.Reconcile is taken after a sub-reconciler ran: the NodeClaim always equals it, nothing is patched and the provider id written by launch never reaches the API server")
			}
		}
	}
	lost := "client.Patch / Update overwrites the in-memory NodeClaim with the server's answer, which does not carry the status the sub-reconcilers just wrote (provider id): the status patch that follows has nothing left to send"
	for _, ps := range patchSites {
		if !afterRecs(ps.at) {
			continue
		}
		patches++
		switch {
		case ps.copy != nil:
			if !afterRecs(ps.copy) {
				bad(w.InstrPos(ps.copy), "the object whose status is patched at the end of lifecycle.Reconcile is a copy taken before the sub-reconcilers ran: it does not carry the provider id written by launch")
			}
			for _, m := range metas {
				if afterRecs(m) && after(m, ps.copy) {
					bad(w.InstrPos(ps.copy), "the copy whose status is patched is taken after the NodeClaim's metadata patch @"+w.InstrPos(m)+"; "+lost)
				}
			}
		case ps.self:
			for _, m := range metas {
				if afterRecs(m) && after(m, ps.at) {
					bad(w.InstrPos(ps.at), "the status patch is given the NodeClaim itself after its metadata patch @"+w.InstrPos(m)+"; "+lost)
				}
			}
		default:
			bad(w.InstrPos(ps.at), "the object of the status patch at the end of lifecycle.Reconcile is neither the NodeClaim nor a DeepCopy of it (idiom not recognised)")
		}
	}
	if cmps < 1 || patches < 1 {
		bad(w.Pos(fn.Pos()), fmt.Sprintf("vacuous: %d changed-test(s) against a pre-reconcile copy and %d status patch(es) found after the sub-reconcilers in lifecycle.Reconcile (1 each confirmed by hand) — persisting the sub-reconcilers' result changed shape and has to be re-confirmed", cmps, patches))
	}
	if len(out) == 0 {
		out = append(out, core.OK(id, "MPT", construct, n+cmps+patches, fmt.Sprintf("%d nil-error return(s) after the sub-reconcilers guarded; copy taken before them; status patched from an object that still carries their writes", n)))
	}
	return out
}

// c09After: instruction b can execute after instruction a of the same function (later in a's block, or in a block
// reachable from it).
func c09After(a, b ssa.Instruction) bool {
	if a == nil || b == nil || a.Parent() != b.Parent() {
		return false
	}
	if a.Block() == b.Block() {
		for _, in := range a.Block().Instrs {
			if in == b {
				break
			}
			if in == a {
				return true
			}
		}
	}
	return core.Reach(a.Block().Succs, core.NewCut())[b.Block()]
}
