package props

import (
	"fmt"
	"go/token"
	"os"
	"regexp"
	"strings"

	"kverif/core"

	"golang.org/x/tools/go/ssa"
)

// Lower-layer contracts of pkg/cloudprovider/types.go that callers in other packages silently rely on (group G, round 4).

// offeringsHasCompatibleRules: Offerings.HasCompatible(reqs) judges the list it is GIVEN, whole: it answers false only
// after every element was put to reqs.IsCompatible(of.Requirements, AllowUndefinedWellKnownLabels) and found
// incompatible, and true only for such an element. No other attribute of an offering (Available, Price, a reservation
// count …) can make it skip an element — availability is filtered by the callers that want it (Offerings.Available()
// first), and the drift controller deliberately does not.
func offeringsHasCompatibleRules(p string) []Rule {
	const hc = "(cloudprovider.Offerings).HasCompatible"
	const find = `lo\.Find\[\*cloudprovider\.Offering\]\(\$0, [a-z]+:[^ ]*\)#1`
	opt := `&local<\[1\]opkg/option\.Function\[scheduling\.CompatibilityOptions\]>`
	return []Rule{core.Custom{ID: p + ".OFF1", Kind: "ITER", Run: func(w *core.World, id string) []core.Result {
		rs := offeringsHasCompatible(w, id, hc, find, opt)
		for i := range rs {
			if rs[i].Status != core.Discharged {
				rs[i].Msg += " — Offerings.HasCompatible must judge EVERY offering of the list it is given by reqs.IsCompatible(of.Requirements, AllowUndefinedWellKnownLabels) alone: callers that want availability filter with Available() first, the instance-type drift check deliberately does not"
			}
		}
		return rs
	}}}
}

func offeringsHasCompatible(w *core.World, id, hc, find, opt string) []core.Result {
	{
		fn := w.Fn(hc)
		if fn == nil {
			return []core.Result{core.Anchor(id, "ITER", hc)}
		}
		// the compatibility test runs with undefined well-known labels allowed (an offering defines zone, capacity type
		// and reservation id; the labels it is compared with need not define the last one)
		rs := core.InstrPresent(w, id, "ITER", hc, `^store `+opt+`\[0\] = scheduling\.AllowUndefinedWellKnownLabels$`, 1, "offerings are compared with undefined well-known labels allowed")
		// combinator form: return lo.ContainsBy(ofs, func(of) bool { return reqs.IsCompatible(of.Requirements, …) })
		if len(w.Sites(fn, regexp.MustCompile(`^return `+find+`$`), false)) == 1 && len(w.ReturnSinks(fn, core.RetAny)) == 1 {
			pred := "@arg:" + hc + `|^call ` + find + `$|1`
			return append(rs, core.InstrPresent(w, id, "ITER", pred, `^return \(scheduling\.Requirements\)\.IsCompatible\(\^\$1, \$0\.Requirements, `+opt+`\[:\]\)$`, 1,
				"some offering of the given list is compatible — the predicate is the compatibility test alone")...)
		}
		// loop form
		loop := `+^\(?phi\(.*\)( \+ 1\))? < len\(\$0\)$`
		compat := `\(scheduling\.Requirements\)\.IsCompatible\(\$1, \$0\[.*\]\.Requirements, ` + opt + `\[:\]\)`
		it := ITER{ID: id, Fn: hc, Loop: loop, Gates: gates(G(`-^` + compat + `$`)),
			Note: "an offering is passed over only after it was found incompatible"}
		rs = append(rs, it.Check(w)...)
		no := MPT{ID: id, Fn: hc, Ret: core.RetFalse, Gates: gates(G(`-^\(?phi\(.*\)( \+ 1\))? < len\(\$0\)$`)), Note: "false only after the whole list was walked"}
		rs = append(rs, no.Check(w)...)
		yes := MPT{ID: id, Fn: hc, Ret: core.RetTrue, Gates: gates(G(`+^` + compat + `$`)), Note: "true only for a compatible offering"}
		return append(rs, yes.Check(w)...)
	}
}

// ---------------------------------------------------------------------------------------------------------------------

// minValuesCount describes what result #0 of InstanceTypes.SatisfiesMinValues means on its success returns, relative to
// the position of the instance type whose values were accumulated last.
type minValuesCount struct {
	inLoop   int // success inside the walk over $0: result = (index of the current element) + inLoop
	afterAll int // success after the walk: result = len($0) + afterAll
	nIn, nAf int
}

// minValuesCountOf reads the count contract off SatisfiesMinValues. A success return is one whose error operand is the
// nil constant; returns guarded by ¬HasMinValues (no floors at all: every prefix satisfies them) are not constrained.
// bad != "" when the idiom is not recognised.
func minValuesCountOf(w *core.World, fn *ssa.Function) (c minValuesCount, bad string, at ssa.Instruction) {
	// the index expression(s) under which elements of the receiver are read, and where
	forms := map[string]map[string]int{}
	var reads []ssa.Instruction
	for _, b := range fn.Blocks {
		for _, in := range b.Instrs {
			var x, idx ssa.Value
			switch v := in.(type) {
			case *ssa.IndexAddr:
				x, idx = v.X, v.Index
			case *ssa.Index:
				x, idx = v.X, v.Index
			default:
				continue
			}
			if w.Render(x) != "$0" {
				continue
			}
			lin := w.Linear(idx)
			forms[core.LinearString(lin)] = lin
			reads = append(reads, in)
		}
	}
	if len(forms) != 1 {
		return c, fmt.Sprintf("expected the instance types to be read as $0[i] under one index expression, found %d (idiom not recognised)", len(forms)), nil
	}
	var idxLin map[string]int
	for _, l := range forms {
		idxLin = l
	}
	inWalk := func(b *ssa.BasicBlock) bool { // the element read dominates b: b executes in an iteration of the walk
		for _, d := range reads {
			if d.Block().Dominates(b) {
				return true
			}
		}
		return false
	}
	haveIn, haveAf := false, false
	var leaf func(v ssa.Value, from *ssa.BasicBlock, ret *ssa.Return, depth int) string
	leaf = func(v ssa.Value, from *ssa.BasicBlock, ret *ssa.Return, depth int) string {
		if phi, ok := v.(*ssa.Phi); ok && depth < 4 && !inWalk(phi.Block()) {
			// a count carried out of the walk (`n = i + 1; break`): judge every operand where it was produced
			for i, e := range phi.Edges {
				if s := leaf(e, phi.Block().Preds[i], ret, depth+1); s != "" {
					return s
				}
			}
			return ""
		}
		lin := w.Linear(v)
		if inWalk(from) {
			d, ok := linDiffConst(lin, idxLin)
			if !ok {
				return "inside the walk a success return hands back `" + clipStr(w.RenderD(v, 5), 80) + "`, which is not the position of the current instance type plus a constant"
			}
			if haveIn && d != c.inLoop {
				return "the success returns inside the walk disagree on what the count means"
			}
			haveIn, c.inLoop = true, d
			c.nIn++
			return ""
		}
		d, ok := linDiffConst(lin, map[string]int{"len($0)": 1})
		if !ok {
			return "after the walk a success return hands back `" + clipStr(w.RenderD(v, 5), 80) + "`, which is not len(instance types) plus a constant"
		}
		if haveAf && d != c.afterAll {
			return "the success returns after the walk disagree on what the count means"
		}
		haveAf, c.afterAll = true, d
		c.nAf++
		return ""
	}
	for _, b := range fn.Blocks {
		if len(b.Instrs) == 0 || (len(b.Preds) == 0 && b.Index != 0) {
			continue
		}
		ret, ok := b.Instrs[len(b.Instrs)-1].(*ssa.Return)
		if !ok || len(ret.Results) != 3 {
			continue
		}
		if k, isConst := core.ResolveRet(ret, 2).(*ssa.Const); !isConst || !k.IsNil() {
			continue // failure: no caller may cut a list by the count of a failed check (C13.MPT1, C06 test the error)
		}
		if w.GuardedBy(ret, G(`-^\(scheduling\.Requirements\)\.HasMinValues\(\$1\)$`)) {
			continue
		}
		if s := leaf(core.ResolveRet(ret, 0), b, ret, 0); s != "" {
			return c, s, ret
		}
	}
	if c.nIn == 0 {
		return c, "no success return inside the walk over the instance types (idiom not recognised)", nil
	}
	return c, "", nil
}

// linDiffConst: a − b is a constant; returns it.
func linDiffConst(a, b map[string]int) (int, bool) {
	d := map[string]int{}
	for k, v := range a {
		d[k] += v
	}
	for k, v := range b {
		d[k] -= v
	}
	c := d["#const"]
	delete(d, "#const")
	for _, v := range d {
		if v != 0 {
			return 0, false
		}
	}
	return c, true
}

// capCheck judges what is stored into a NodeClaim's InstanceTypeOptions after its minValues were validated: either the
// requirements carry no minValues there, or the list is cut to a prefix at least as long as the count
// SatisfiesMinValues reports for the same list under the same requirements.
type capCheck struct {
	w          *core.World
	dst, owner string // renderings: <owner>.NodeClaimTemplate.InstanceTypeOptions, <owner>
	count      minValuesCount
	used       *int // how many times the count itself was found as the lower bound of a cap
}

const (
	g13Opts = ".NodeClaimTemplate.InstanceTypeOptions"
	g13Reqs = ".NodeClaimTemplate.Requirements"
)

func (x *capCheck) noFloors() Gate {
	return G(`-^\(scheduling\.Requirements\)\.HasMinValues\(` + regexp.QuoteMeta(x.owner+g13Reqs) + `\)$`)
}

// list: v is the new option list, produced at instruction `at` of function f. "" if fine.
func (x *capCheck) list(f *ssa.Function, v ssa.Value, at ssa.Instruction, depth int) string {
	w := x.w
	if w.GuardedBy(at, x.noFloors()) {
		return ""
	}
	if depth > 3 {
		return "too deeply nested to follow"
	}
	if phi, ok := v.(*ssa.Phi); ok {
		cut := w.GateCut(phi.Parent(), x.noFloors())
		for i, e := range phi.Edges {
			if !core.EdgeReachable(phi.Block().Preds[i], phi.Block(), cut) {
				continue
			}
			if s := x.list(f, e, phi, depth+1); s != "" {
				return s
			}
		}
		return ""
	}
	if x.w.RenderD(v, 9) == x.dst {
		return "" // unchanged
	}
	call, ok := v.(*ssa.Call)
	if !ok {
		return "the options become `" + clipStr(w.RenderD(v, 6), 90) + "` while the requirements carry minValues — not a recognised cap that keeps the floors"
	}
	if strings.HasPrefix(w.CalleeName(call.Common()), "lo.Slice[") && len(call.Call.Args) == 3 {
		if a0 := w.RenderD(call.Call.Args[0], 9); a0 != x.dst {
			return "the capped list `" + clipStr(a0, 80) + "` is not the claim's own option list"
		}
		if k, ok := call.Call.Args[1].(*ssa.Const); !ok || k.Value == nil || k.Value.ExactString() != "0" {
			return "the cap does not keep a prefix (offset `" + w.RenderD(call.Call.Args[1], 4) + "`): the count speaks about the leading instance types"
		}
		b, ok, why := x.bound(call.Parent(), call.Call.Args[2], 0)
		if !ok {
			return "with minValues the options are cut to `" + clipStr(w.RenderD(call.Call.Args[2], 6), 90) + "`: " + why +
				" (needed: at least the count SatisfiesMinValues reports for the same list under the same requirements)"
		}
		if x.count.inLoop+b < 1 || x.count.afterAll+b < 0 {
			return fmt.Sprintf("SatisfiesMinValues hands back (position of the last needed instance type)%+d inside its walk and len%+d after it, and the caller keeps the first (that value)%+d options: "+
				"the instance type that completes the minValues floors is cut off and the launch request no longer meets minValues", x.count.inLoop, x.count.afterAll, b)
		}
		return ""
	}
	// the cap extracted into a private helper that returns the new list
	if _, rets, leave, ok := w.EnterHelperAll(f, v); ok {
		defer leave()
		for _, r := range rets {
			if s := x.list(r.Ret.Parent(), r.Val, r.Ret, depth+1); s != "" {
				return s
			}
		}
		return ""
	}
	return "the options become `" + clipStr(w.RenderD(v, 6), 90) + "` while the requirements carry minValues — not a recognised cap that keeps the floors"
}

// bound: v ≥ count + b for a constant b, where count is SatisfiesMinValues(dst, reqs)#0 and v is built from it by ± constants,
// lo.Max / builtin max with other operands (which can only raise it), phis whose operands all qualify or arrive on an
// edge without minValues, or a private helper all of whose returns qualify. The smallest b counts.
func (x *capCheck) bound(f *ssa.Function, v ssa.Value, depth int) (int, bool, string) {
	w := x.w
	want := "(cloudprovider.InstanceTypes).SatisfiesMinValues(" + x.dst + ", " + x.owner + g13Reqs + ")#0"
	notDerived := "it is not derived from the count as a lower bound"
	if depth > 5 {
		return 0, false, notDerived
	}
	lin := w.Linear(v)
	if d, ok := linDiffConst(lin, map[string]int{want: 1}); ok && lin[want] == 1 {
		*x.used++
		return d, true, ""
	}
	for k := range lin {
		if strings.Contains(k, ").SatisfiesMinValues(") && strings.HasSuffix(k, ")#0") && k != want && !strings.Contains(k, "phi(") {
			return 0, false, "the count is taken from `" + clipStr(k, 120) + "`, not from the list that is cut under the claim's own requirements"
		}
	}
	switch t := v.(type) {
	case *ssa.Convert:
		return x.bound(f, t.X, depth+1)
	case *ssa.BinOp:
		if k, ok := t.Y.(*ssa.Const); ok && k.Value != nil && (t.Op == token.ADD || t.Op == token.SUB) {
			if b, ok2, why := x.bound(f, t.X, depth+1); ok2 {
				kk := 0
				fmt.Sscanf(k.Value.ExactString(), "%d", &kk)
				if t.Op == token.SUB {
					kk = -kk
				}
				return b + kk, true, ""
			} else {
				return 0, false, why
			}
		}
	case *ssa.Phi:
		cut := w.GateCut(t.Parent(), x.noFloors())
		best, have := 0, false
		for i, e := range t.Edges {
			if !core.EdgeReachable(t.Block().Preds[i], t.Block(), cut) {
				continue
			}
			b, ok, why := x.bound(f, e, depth+1)
			if !ok {
				return 0, false, why
			}
			if !have || b < best {
				best, have = b, true
			}
		}
		if have {
			return best, true, ""
		}
	case *ssa.Call:
		name := w.CalleeName(t.Common())
		var operands []ssa.Value
		switch {
		case name == "max":
			operands = t.Call.Args
		case strings.HasPrefix(name, "lo.Max[") && len(t.Call.Args) == 1:
			operands = sliceLiteralElems(t.Call.Args[0])
		case name == "min" || strings.HasPrefix(name, "lo.Min["):
			return 0, false, "the smaller of its operands is taken, so the count is not a lower bound of the cap"
		}
		why := notDerived
		for _, o := range operands {
			b, ok, y := x.bound(f, o, depth+1)
			if ok {
				return b, true, ""
			}
			if y != notDerived {
				why = y
			}
		}
		if len(operands) > 0 {
			return 0, false, why
		}
		if _, rets, leave, ok := w.EnterHelperAll(f, v); ok {
			defer leave()
			best, have := 0, false
			for _, r := range rets {
				if w.GuardedBy(r.Ret, x.noFloors()) {
					continue
				}
				b, ok, y := x.bound(r.Ret.Parent(), r.Val, depth+1)
				if !ok {
					return 0, false, y
				}
				if !have || b < best {
					best, have = b, true
				}
			}
			if have {
				return best, true, ""
			}
		}
	}
	return 0, false, notDerived
}

// sliceLiteralElems: the values stored into the backing array of a slice literal `[]T{a, b, …}`.
func sliceLiteralElems(v ssa.Value) []ssa.Value {
	sl, ok := v.(*ssa.Slice)
	if !ok {
		return nil
	}
	arr, ok := sl.X.(*ssa.Alloc)
	if !ok || arr.Referrers() == nil {
		return nil
	}
	var out []ssa.Value
	for _, r := range *arr.Referrers() {
		ia, ok := r.(*ssa.IndexAddr)
		if !ok || ia.Referrers() == nil {
			continue
		}
		for _, rr := range *ia.Referrers() {
			if s2, ok := rr.(*ssa.Store); ok && s2.Addr == ssa.Value(ia) {
				out = append(out, s2.Val)
			}
		}
	}
	return out
}

// minValuesCountRules: the first result of InstanceTypes.SatisfiesMinValues is a COUNT — the number of leading instance
// types needed to meet every minValues floor — and the caller that cuts a validated option list with it
// (spot-to-spot consolidation) keeps at least that many. Stated compositionally so that it holds for either spelling of
// the contract: with result = position + a (producer) and bound = result + b (consumer), the kept prefix has
// position + a + b elements and must contain the element at `position`: a + b ≥ 1 (and len + a' + b ≥ len after a
// complete walk).
func minValuesCountRules(p string) []Rule {
	const (
		smv = "(cloudprovider.InstanceTypes).SatisfiesMinValues"
		s2s = "(*disr.consolidation).computeSpotToSpotConsolidation"
	)
	return []Rule{
		core.Custom{ID: p + ".CNT1", Kind: "RET", Run: func(w *core.World, id string) []core.Result {
			fn, cfn := w.Fn(smv), w.Fn(s2s)
			if fn == nil {
				return []core.Result{core.Anchor(id, "RET", smv)}
			}
			if cfn == nil {
				return []core.Result{core.Anchor(id, "RET", s2s)}
			}
			construct := "RET:" + smv + "#0▸" + s2s
			c, bad, at := minValuesCountOf(w, fn)
			if bad != "" {
				pos := w.Pos(fn.Pos())
				if at != nil {
					pos = w.InstrPos(at)
				}
				return []core.Result{core.Bad(id, "RET", construct, pos, "the count returned by SatisfiesMinValues: "+bad)}
			}
			var out []core.Result
			n, used := 0, 0
			re := regexp.MustCompile(`^store .*` + regexp.QuoteMeta(g13Opts) + ` = `)
			validate := regexp.MustCompile(`^call \(\*sched\.NodeClaim\)\.RemoveInstanceTypeOptionsByPriceAndMinValues\(`)
			w.WithHelpers(cfn, func(f *ssa.Function, _ ssa.Instruction) {
				checks := w.Sites(f, validate, false)
				for _, s := range w.Sites(f, re, true) {
					st, ok := s.(*ssa.Store)
					if !ok {
						continue
					}
					// a store that the price / minValues validation still follows is judged by that validation (C06)
					pre := false
					for _, v := range checks {
						if s.Block() == v.Block() {
							pre = pre || instrBefore(s, v)
						} else if s.Block().Dominates(v.Block()) {
							pre = true
						}
					}
					if pre {
						continue
					}
					n++
					dst := w.RenderD(st.Addr, 9)
					x := &capCheck{w: w, dst: dst, owner: strings.TrimSuffix(dst, g13Opts), count: c, used: &used}
					if why := x.list(f, st.Val, s, 0); why != "" {
						out = append(out, core.Bad(id, "RET", construct, w.InstrPos(s), "spot-to-spot replacement: "+why))
					}
				}
			})
			if (n < 1 || used < 1) && len(out) == 0 {
				out = append(out, core.Bad(id, "RET", construct, w.Pos(cfn.Pos()), fmt.Sprintf("vacuous: %d cap(s) of the replacement's launch options found after validation, %d of them bounded below by the SatisfiesMinValues count (1 confirmed by hand): the minValues-aware cap is gone or not recognised", n, used)))
			}
			if os.Getenv("KVERIF_DEBUG") != "" {
				fmt.Fprintf(os.Stderr, "DEBUG %s: count=%+v caps=%d used=%d violations=%d\n", id, c, n, used, len(out))
			}
			if len(out) == 0 {
				out = append(out, core.OK(id, "RET", construct, c.nIn+c.nAf+n, fmt.Sprintf("count = position%+d inside the walk, len%+d after it; %d cap(s) run without minValues or keep at least the count (%d)", c.inLoop, c.afterAll, n, used)))
			}
			return out
		}},
		// …and success (with a count) is reported only when no floor is left unmet for the prefix walked so far
		core.Custom{ID: p + ".CNT2", Kind: "MPT", Run: func(w *core.World, id string) []core.Result {
			fn := w.Fn(smv)
			if fn == nil {
				return []core.Result{core.Anchor(id, "MPT", smv)}
			}
			construct := "MPT:" + smv + ":success"
			var out []core.Result
			n := 0
			for _, s := range w.ReturnSinks(fn, core.RetNilConst) {
				if w.GuardedBy(s.Ret, G(`-^\(scheduling\.Requirements\)\.HasMinValues\(\$1\)$`)) {
					continue
				}
				n++
				if !w.RetGuarded(s, G(`-^len\(makemap<map\[string\]int>\)>=1$`)) {
					out = append(out, core.Bad(id, "MPT", construct, w.InstrPos(s.Ret), "SatisfiesMinValues can report success (and a count) while the map of unmet minValues keys is not known to be empty"))
				}
			}
			if n < 2 {
				out = append(out, core.Bad(id, "MPT", construct, w.Pos(fn.Pos()), fmt.Sprintf("vacuous: %d success returns under minValues, 2 confirmed by hand", n)))
			}
			if len(out) == 0 {
				out = append(out, core.OK(id, "MPT", construct, n, "success ⇒ no unmet key"))
			}
			return out
		}},
	}
}

func instrBefore(a, b ssa.Instruction) bool {
	for _, in := range a.Block().Instrs {
		if in == a {
			return true
		}
		if in == b {
			return false
		}
	}
	return false
}
