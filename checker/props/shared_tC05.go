package props

// Builders written while triaging the C05 mutation sweep. They state facts about the disruption controller's bookkeeping of
// "nodes that already consume a budget" (marks in the cluster state, candidate name / provider-id mappings) that any table
// reasoning about commands in flight can adopt with its own id prefix.

import (
	"fmt"
	"regexp"
	"strings"

	"kverif/core"

	"golang.org/x/tools/go/ssa"
)

// fnValueOf resolves a function-typed operand (function literal with or without captures, named function) to its body.
func fnValueOf(v ssa.Value) *ssa.Function {
	switch x := v.(type) {
	case *ssa.MakeClosure:
		if f, ok := x.Fn.(*ssa.Function); ok {
			return f
		}
	case *ssa.Function:
		return x
	case *ssa.ChangeType:
		return fnValueOf(x.X)
	}
	return nil
}

// mappedCandidates: at every site of callRe in fn (its closures and the unexported helpers it calls included), argument
// argIdx is `lo.Map(<src>, f)` over candidates with <src> matching srcRe and f a function whose only result is wantRet
// (a rendering regexp over `return …`, the candidate being $0). At least min sites must exist.
func mappedCandidates(w *core.World, id, kind, fnName, callRe string, argIdx int, srcRe, wantRet, what string, min int) []core.Result {
	fn := w.Fn(fnName)
	if fn == nil {
		return []core.Result{core.Anchor(id, kind, fnName)}
	}
	construct := kind + ":" + fnName + "▸" + callRe + fmt.Sprintf("#arg%d", argIdx)
	re, src, ret := regexp.MustCompile(callRe), regexp.MustCompile(srcRe), regexp.MustCompile(wantRet)
	anyRet := regexp.MustCompile(`^return `)
	var out []core.Result
	n := 0
	w.WithHelpers(fn, func(f *ssa.Function, via ssa.Instruction) {
		for _, s := range w.Sites(f, re, true) {
			ci, ok := s.(ssa.CallInstruction)
			if !ok {
				continue
			}
			n++
			args := core.CallArgs(ci.Common())
			if argIdx >= len(args) {
				out = append(out, core.Bad(id, kind, construct, w.InstrPos(s), fmt.Sprintf("%s: the call has %d arguments, index %d expected", what, len(args), argIdx)))
				continue
			}
			mc, ok := args[argIdx].(*ssa.Call)
			if !ok || !strings.HasPrefix(w.CalleeName(mc.Common()), "lo.Map[*disr.Candidate, ") || len(mc.Call.Args) != 2 {
				out = append(out, core.Bad(id, kind, construct, w.InstrPos(s), what+": the argument is `"+clipStr(w.RenderD(args[argIdx], 6), 120)+"`, not lo.Map over the candidates (idiom not recognised)"))
				continue
			}
			if r := w.RenderD(mc.Call.Args[0], 6); !src.MatchString(r) {
				out = append(out, core.Bad(id, kind, construct, w.InstrPos(s), what+": the candidates mapped are `"+clipStr(r, 120)+"`, expected "+srcRe))
			}
			mf := fnValueOf(mc.Call.Args[1])
			if mf == nil {
				out = append(out, core.Bad(id, kind, construct, w.InstrPos(s), what+": the mapping function cannot be resolved"))
				continue
			}
			rets := w.Sites(mf, anyRet, false)
			for _, r := range rets {
				if !ret.MatchString(w.RenderInstr(r)) {
					out = append(out, core.Bad(id, kind, construct, w.InstrPos(r), what+": a candidate is mapped to `"+clipStr(strings.TrimPrefix(w.RenderInstr(r), "return "), 120)+"`, expected "+wantRet))
				}
			}
			if len(rets) == 0 {
				out = append(out, core.Bad(id, kind, construct, w.InstrPos(s), what+": the mapping function never returns"))
			}
		}
	})
	if n < min {
		return []core.Result{core.Bad(id, kind, construct, w.Pos(fn.Pos()), fmt.Sprintf("vacuous: %d call site(s) matching `%s` in %s or its helpers, %d confirmed by hand", n, callRe, fnName, min))}
	}
	if len(out) == 0 {
		out = append(out, core.OK(id, kind, construct, n, what))
	}
	return out
}

// disruptionMarkRules: the in-memory mark "this node is being disrupted by a command" (StateNode.markedForDeletion) is what
// makes the nodes of commands in flight count in the next round (budgets: they are subtracted; candidates: they are
// skipped). The mark is set for every candidate before StartCommand reports success, is only taken back by CompleteCommand
// from a command that did not succeed, and a command that ran to the end is completed as succeeded (its nodes are being
// deleted, which the cluster state may not have seen yet).
func disruptionMarkRules(p string) []Rule {
	const (
		start = "(*disr.Queue).StartCommand"
		comp  = "(*disr.Queue).CompleteCommand"
		qrec  = "(*disr.Queue).Reconcile"
		markC = `^call \(\*state\.Cluster\)\.MarkForDeletion\(`
		pid   = `^return \(\*state\.StateNode\)\.ProviderID\(\$0\.StateNode\)$`
	)
	return []Rule{
		core.Custom{ID: p + ".MPT2", Kind: "MPT", Run: func(w *core.World, id string) []core.Result {
			m := MPT{ID: id, Fn: start, Ret: core.RetNilConst, Gates: gates(
				G(`instr:^call \(\*state\.Cluster\)\.MarkForDeletion\(\$0\.cluster, lo\.Map\[\*disr\.Candidate, string\]\(\$2\.Candidates, [^,]*\)\)$`),
			), Note: "a started command's candidates are marked for deletion"}
			rs := m.Check(w)
			// what is marked: every candidate of the command, under its provider id (the key of Cluster.nodes)
			return append(rs, mappedCandidates(w, id, "MPT", start, markC, 1, `^\$2\.Candidates$`, pid,
				"StartCommand marks every candidate of the command under its provider id", 1)...)
		}},
		DOM{ID: p + ".DOM10", Fn: comp, Sink: `^call \(\*state\.Cluster\)\.UnmarkForDeletion\(`, Gates: gates(
			G(`-^\$1\.Succeeded$`),
		), Note: "the mark is only taken back from a command that did not succeed"},
		DOM{ID: p + ".DOM11", Fn: qrec, Sink: `^call \(\*disr\.Queue\)\.CompleteCommand\(`, Gates: gates(
			G(`+^disr\.IsUnrecoverableError\(\(\*disr\.Queue\)\.waitOrTerminate\(`, `instr:^store .*\.Succeeded = true$`),
		), Note: "a command is completed either as failed for good or with its success recorded"},
		WMC{ID: p + ".WMC3", Sink: `^(call|go|defer) \(\*state\.Cluster\)\.UnmarkForDeletion\(`, Allowed: []string{comp}, Required: []string{comp}},
		WMC{ID: p + ".WMC4", Sink: `^store .*\.markedForDeletion = false$`, Allowed: []string{"(*state.Cluster).UnmarkForDeletion"}, Required: []string{"(*state.Cluster).UnmarkForDeletion"}},
		// the helpers handle every id of the batch, and what the mapping asks (MarkedForDeletion) sees the mark and deletions
		DOM{ID: p + ".LOOP2", Fn: "(*state.Cluster).MarkForDeletion", Sink: `^return`, Shallow: true, Gates: gates(G(`-^\(phi\(.*\) \+ 1\) < len\(\$1\)$`)),
			Note: "MarkForDeletion returns only after the loop over all provider ids is exhausted"},
		POST{ID: p + ".POST3", Fn: "(*state.Cluster).MarkForDeletion", FromLit: `+^\$0\.nodes\[\$1\[.*\]\]#1$`, Must: []string{`^store \$0\.nodes\[\$1\[.*\]\]#0\.markedForDeletion = true$`}, Note: "every known id is marked"},
		MPT{ID: p + ".MPT3", Fn: "(*state.StateNode).MarkedForDeletion", Ret: core.RetFalse, Gates: gates(
			G(`-^\$0\.markedForDeletion$`),
			G(`-^\(\*state\.StateNode\)\.Deleted\(\$0\)$`),
		), Note: "a node is reported as not marked only if it carries no mark and is not being deleted"},
		MPT{ID: p + ".MPT3b", Fn: "(*state.StateNode).Deleted", Ret: core.RetFalse, Gates: gates(
			G(`+^\$0\.NodeClaim == nil$`, `+^\(\*metav1\.Time\)\.IsZero\(\$0\.NodeClaim\.ObjectMeta\.DeletionTimestamp\)$`),
			G(`-^\$0\.NodeClaim == nil$`, `+^\$0\.Node == nil$`, `+^\(\*metav1\.Time\)\.IsZero\(\$0\.Node\.ObjectMeta\.DeletionTimestamp\)$`),
		), Note: "a node whose NodeClaim (or, without one, whose Node) has a deletion timestamp is being deleted"},
	}
}
