package props

import (
	"fmt"
	"regexp"

	"kverif/core"
)

const ncDelete = `^call iface:\(cr/client\.Writer\)\.Delete\(.*<\*apis/v1\.NodeClaim>`

func init() {
	core.Register(&core.Property{
		ID:    "C16",
		Title: "Forceful reapers act only on their documented trigger",
		Explanation: "Decides: (1) the inventory of every client.Delete(*v1.NodeClaim) site in the module (a new reaper fails until classified); " +
			"(2) per reaper, the Delete is dominated by its documented trigger — expiration: expireAfter set, not deleting, and now ≥ creation+expireAfter with exactly those operands; " +
			"garbage collection: NodeClaim from the list filtered by Registered ∧ not deleting ∧ provider id absent from the provider's list, Node absent or not Ready, and no error edge of the Node lookup reaches Delete (fail closed); " +
			"liveness: not Registered, launch/registration timeout elapsed with the right condition's transition time and constant; " +
			"node repair: unhealthy condition found, toleration elapsed, pool/cluster healthy by the ≤ 20% (rounded up) rule, errors of either health lookup stop the action. " +
			"(3) Added by the triage of the mutation sweep: an instance the provider lists is left out of the provider-id set only when it is being deleted (MPT3); " +
			"a pool's circuit breaker counts exactly the Nodes labelled with the pool asked about — isNodePoolHealthy passes {karpenter.sh/nodepool: name} and areNodesHealthy lists with the options it is given (PROV6); " +
			"expiration, liveness and node repair delete the very object whose trigger they evaluated, through whatever private helper issues the Delete (PROV7); " +
			"'the Node is absent' is an established fact: NodeForNodeClaim answers NotFound only after a successful, empty Node list, Duplicate only after a successful list of ≥ 2, (node, nil) only with an entry of the list, and passes the list's error on otherwise (NODE1); " +
			"AllNodesForNodeClaim answers without error only when the List succeeded or there is no provider id (NODE2) and lists by spec.providerID == Status.ProviderID (NODE3); " +
			"Is/IgnoreNodeNotFoundError and Is/IgnoreDuplicateNodeError classify exactly their own error type and pass every other error on (ERRC1, ERRC2).",
		NotCovered: []string{"truthfulness/completeness of the provider's List", "clock skew between controller and API server", "values of provider repair policies",
			"which of several unhealthy conditions findUnhealthyConditions picks (each candidate is a matched condition with its own policy's toleration — the choice only moves the deletion later or earlier among legitimate triggers)",
			"the termination-timestamp annotation written before a repair deletion (annotateTerminationGracePeriod) and the NodePool registration-health bookkeeping of the liveness check (C20) — neither is part of a reaper's trigger",
			"garbage collection deletes when NodeForNodeClaim reports duplicate Nodes (today's documented behaviour: an invalid state, treated like an absent Node)",
			"NodeClaimForNode's own lookup (node repair): a wrong answer is an error or not-found and stops the repair; that it never hands back another Node's NodeClaim is not decided"},
		Rules: c16Rules,
	})
}

func c16Rules(tier string) []Rule {
	const (
		exp   = "(*controllers/nodeclaim/expiration.Controller).Reconcile"
		gc    = "(*controllers/nodeclaim/garbagecollection.Controller).Reconcile"
		live  = "(*life.Liveness).Reconcile"
		heal  = "(*controllers/node/health.Controller).Reconcile"
		healD = "(*controllers/node/health.Controller).deleteNodeClaim"
	)
	// (a.Before(b) is rendered as b.After(a))
	expTime := `\(time\.Time\)\.After\(\(time\.Time\)\.Add\(\$2\.ObjectMeta\.CreationTimestamp\.Time, \$2\.Spec\.ExpireAfter\.Duration\), iface:\(k8s\.io/utils/clock\.PassiveClock\)\.Now\(\$0\.clock\)\)$`
	rules := []Rule{
		WMC{ID: "C16.WMC1", Sink: ncDelete,
			Allowed: []string{
				exp, gc, "(*life.Liveness).deleteNodeClaimForTimeout", healD,
				"(*life.Launch).launchNodeClaim",
				"(*term.Controller).finalize",
				"(*controllers/static/deprovisioning.Controller).Reconcile",
				"(*disr.Queue).waitOrTerminate",
			},
			Required: []string{exp, gc, "(*life.Liveness).deleteNodeClaimForTimeout", healD}},
		// only Liveness.Reconcile calls deleteNodeClaimForTimeout, only health.Reconcile calls deleteNodeClaim
		WMC{ID: "C16.WMC2", Sink: `^call \(\*life\.Liveness\)\.deleteNodeClaimForTimeout\(`, Allowed: []string{live}, Required: []string{live}},
		WMC{ID: "C16.WMC3", Sink: `^call \(\*controllers/node/health\.Controller\)\.deleteNodeClaim\(`, Allowed: []string{heal}, Required: []string{heal}},

		// ---- expiration
		DOM{ID: "C16.DOM1", Fn: exp, Sink: ncDelete, Gates: gates(
			G(`-^\$2\.Spec\.ExpireAfter\.Duration == nil$`),
			G(`-^`+expTime),
			G(`+^\(\*metav1\.Time\)\.IsZero\(\$2\.ObjectMeta\.DeletionTimestamp\)$`),
			G(`+^utils/nodeclaim\.IsManaged\(\$2, \$0\.cloudProvider\)$`),
		)},

		// ---- garbage collection
		DOM{ID: "C16.DOM2", Fn: gc, Sink: ncDelete, Gates: gates(
			G(`+^utils/nodeclaim\.NodeForNodeClaim\(.*\)#0 == nil$`, `-^utils/node\.GetCondition\(utils/nodeclaim\.NodeForNodeClaim\(.*\)#0, "Ready"\)\.Status == "True"$`),
			G(`+^utils/nodeclaim\.IgnoreDuplicateNodeError\(utils/nodeclaim\.IgnoreNodeNotFoundError\(utils/nodeclaim\.NodeForNodeClaim\(.*\)#1\)\) == nil$`),
			G(`+^utils/nodeclaim\.ListManaged\(\$0\.kubeClient, \$0\.cloudProvider, nil\)#1 == nil$`),
			G(`+^iface:\(cloudprovider\.CloudProvider\)\.List\(\$0\.cloudProvider\)#1 == nil$`),
			// the candidate list was narrowed by the Registered/not-deleting/not-listed filter before the workers start
			G(`instr:^store &local<\[\]\*apis/v1\.NodeClaim> = lo\.Filter\[\*apis/v1\.NodeClaim, \[\]\*apis/v1\.NodeClaim\]\(&local<\[\]\*apis/v1\.NodeClaim>, closure:`),
		)},
		ERRFLOW{ID: "C16.ERR1", Fn: gc, Sink: ncDelete, Min: 3},
		// the filter predicate: true ⇒ Registered ∧ not deleting ∧ provider id not listed
		MPT{ID: "C16.MPT1", Fn: "@arg:" + gc + `|^call lo\.Filter\[\*apis/v1\.NodeClaim, \[\]\*apis/v1\.NodeClaim\]\(&local<|1`, Ret: core.RetTrue, Gates: gates(
			G(`+^\(\*opkg/status\.Condition\)\.IsTrue\(\(opkg/status\.ConditionSet\)\.Get\(\(\*apis/v1\.NodeClaim\)\.StatusConditions\(\$0, nil\), "Registered"\)\)$`),
			G(`+^\(\*metav1\.Time\)\.IsZero\(\$0\.ObjectMeta\.DeletionTimestamp\)$`),
			G(`-^\(apim/util/sets\.Set\[string\]\)\.Has\(.*\$0\.Status\.ProviderID\)$`),
		)},
		// the set consulted is built from the provider's List (not-deleting entries), keyed by provider id
		core.Custom{ID: "C16.PROV2", Kind: "PROV", Run: c16ProviderSet},
		// the object deleted is an element of the filtered list, and the node looked up belongs to the same element
		core.Custom{ID: "C16.PROV3", Kind: "PROV", Run: func(w *core.World, id string) []core.Result {
			rs := core.ArgProvenance(w, id, gc, ncDelete, 2, `^\^&local<\[\]\*apis/v1\.NodeClaim>\[\$0\]$`, "the NodeClaim deleted is the worker's element of the filtered list")
			return append(rs, core.ArgProvenance(w, id, gc, `^call utils/nodeclaim\.NodeForNodeClaim\(`, 2, `^\^&local<\[\]\*apis/v1\.NodeClaim>\[\$0\]$`, "the Node consulted belongs to the same NodeClaim")...)
		}},

		// ---- liveness
		DOM{ID: "C16.DOM3", Fn: live, Sink: `^call \(\*life\.Liveness\)\.deleteNodeClaimForTimeout\(\$0, life\.LaunchTimeout, "launch_timeout", \$2\)`, Gates: gates(
			G(`-^\(\*opkg/status\.Condition\)\.IsTrue\(\(opkg/status\.ConditionSet\)\.Get\(\(\*apis/v1\.NodeClaim\)\.StatusConditions\(\$2, nil\), "Registered"\)\)$`),
			G(`-^\(\*opkg/status\.Condition\)\.IsTrue\(\(opkg/status\.ConditionSet\)\.Get\(\(\*apis/v1\.NodeClaim\)\.StatusConditions\(\$2, nil\), "Launched"\)\)$`),
			G(`-^0 < \(life\.LaunchTimeout - iface:\(k8s\.io/utils/clock\.PassiveClock\)\.Since\(\$0\.clock, \(opkg/status\.ConditionSet\)\.Get\(.*, "Launched"\)\.LastTransitionTime\.Time\)\)$`),
			G(`+^cr/client\.IgnoreNotFound\(\(\*life\.Liveness\)\.updateNodePoolRegistrationHealth\(\$0, \$2\)\) == nil$`),
		)},
		DOM{ID: "C16.DOM3b", Fn: live, Sink: `^call \(\*life\.Liveness\)\.deleteNodeClaimForTimeout\(\$0, 900000000000, "registration_timeout", \$2\)`, Gates: gates(
			G(`-^\(\*opkg/status\.Condition\)\.IsTrue\(\(opkg/status\.ConditionSet\)\.Get\(\(\*apis/v1\.NodeClaim\)\.StatusConditions\(\$2, nil\), "Registered"\)\)$`),
			G(`-^\(opkg/status\.ConditionSet\)\.Get\(\(\*apis/v1\.NodeClaim\)\.StatusConditions\(\$2, nil\), "Registered"\) == nil$`),
			G(`-^0 < \(900000000000 - iface:\(k8s\.io/utils/clock\.PassiveClock\)\.Since\(\$0\.clock, \(opkg/status\.ConditionSet\)\.Get\(.*, "Registered"\)\.LastTransitionTime\.Time\)\)$`),
			G(`+^cr/client\.IgnoreNotFound\(\(\*life\.Liveness\)\.updateNodePoolRegistrationHealth\(\$0, \$2\)\) == nil$`),
		)},
		// exactly these two timeout deletions exist
		core.Custom{ID: "C16.REG1", Kind: "REG", Run: func(w *core.World, id string) []core.Result {
			fn := w.Fn(live)
			if fn == nil {
				return []core.Result{core.Anchor(id, "REG", live)}
			}
			all := w.Sites(fn, regexp.MustCompile(`^call \(\*life\.Liveness\)\.deleteNodeClaimForTimeout\(`), true)
			if len(all) != 2 {
				return []core.Result{core.Bad(id, "REG", "REG:"+live+":timeouts", w.Pos(fn.Pos()), "expected exactly two timeout deletions (launch, registration); an unclassified one was added or one was removed")}
			}
			return []core.Result{core.OK(id, "REG", "REG:"+live+":timeouts", 2, "two timeout deletions, both classified")}
		}},

		// ---- node repair
		DOM{ID: "C16.DOM4", Fn: heal, Sink: `^call \(\*controllers/node/health\.Controller\)\.deleteNodeClaim\(`, Gates: gates(
			G(`-^\(\*controllers/node/health\.Controller\)\.findUnhealthyConditions\(\$0, \$2\)#0 == nil$`),
			G(`-^\(time\.Time\)\.After\(\(time\.Time\)\.Add\(\(\*controllers/node/health\.Controller\)\.findUnhealthyConditions\(\$0, \$2\)#0\.LastTransitionTime\.Time, \(\*controllers/node/health\.Controller\)\.findUnhealthyConditions\(\$0, \$2\)#1\), iface:\(k8s\.io/utils/clock\.PassiveClock\)\.Now\(\$0\.clock\)\)$`),
			G(`+^\(\*controllers/node/health\.Controller\)\.isNodePoolHealthy\(\$0, .*\)#0$`, `+^\(\*controllers/node/health\.Controller\)\.isClusterHealthy\(\$0\)#0$`),
			G(`+^\(\*controllers/node/health\.Controller\)\.isNodePoolHealthy\(\$0, .*\)#1 == nil$`, `+^\(\*controllers/node/health\.Controller\)\.isClusterHealthy\(\$0\)#1 == nil$`),
			G(`+^utils/node\.NodeClaimForNode\(\$0\.kubeClient, \$2\)#1 == nil$`),
			G(`+^\(\*controllers/node/health\.Controller\)\.annotateTerminationGracePeriod\(\$0, utils/node\.NodeClaimForNode\(\$0\.kubeClient, \$2\)#0\) == nil$`),
		)},
		ERRFLOW{ID: "C16.ERR2", Fn: heal, Sink: `^call \(\*controllers/node/health\.Controller\)\.deleteNodeClaim\(`, Min: 4},
		// the pool consulted is the NodeClaim's own pool; no pool label -> cluster-wide rule
		DOM{ID: "C16.DOM4b", Fn: heal, Sink: `^call \(\*controllers/node/health\.Controller\)\.isNodePoolHealthy\(\$0, utils/node\.NodeClaimForNode\(\$0\.kubeClient, \$2\)#0\.ObjectMeta\.Labels\["karpenter\.sh/nodepool"\]#0\)`, Gates: gates(
			G(`+^utils/node\.NodeClaimForNode\(\$0\.kubeClient, \$2\)#0\.ObjectMeta\.Labels\["karpenter\.sh/nodepool"\]#1$`),
		)},
		DOM{ID: "C16.DOM4c", Fn: healD, Sink: ncDelete, Gates: gates(
			G(`+^\(\*metav1\.Time\)\.IsZero\(\$2\.ObjectMeta\.DeletionTimestamp\)$`),
		)},
		core.Custom{ID: "C16.PROV1", Kind: "PROV", Run: c16Threshold},
		MPT{ID: "C16.MPT2", Fn: "(*controllers/node/health.Controller).areNodesHealthy", Ret: core.RetSpec{Index: 0, Want: "true"}, Gates: gates(
			G(`+^iface:\(cr/client\.Reader\)\.List\(\$0\.kubeClient, <\*corev1\.NodeList>.* == nil$`),
			G(`-^lo\.Must\[int\]\(apim/util/intstr\.GetScaledValueFromIntOrPercent\(controllers/node/health\.allowedUnhealthyPercent, len\(&local<corev1\.NodeList>\.Items\), true\)#0, .*\) < lo\.CountBy\[corev1\.Node\]\(&local<corev1\.NodeList>\.Items, `),
		)},
		// what is counted: a node is unhealthy when *some* repair policy (every policy is consulted) matches its condition
		core.Custom{ID: "C16.PROV4", Kind: "PROV", Run: func(w *core.World, id string) []core.Result {
			const anh = "(*controllers/node/health.Controller).areNodesHealthy"
			cnt := "@arg:" + anh + `|^call lo\.CountBy\[corev1\.Node\]\(&local<corev1\.NodeList>\.Items, |1`
			rs := core.InstrPresent(w, id, "PROV", cnt, `^return lo\.Find\[cloudprovider\.RepairPolicy\]\(iface:\(cloudprovider\.CloudProvider\)\.RepairPolicies\(\^\$0\.cloudProvider\), closure:.*\)#1$`, 1,
				"the counting predicate searches the provider's full list of repair policies")
			inner := "@arg:" + anh + `|^call lo\.Find\[cloudprovider\.RepairPolicy\]\(iface:\(cloudprovider\.CloudProvider\)\.RepairPolicies\(|1`
			return append(rs, core.InstrPresent(w, id, "PROV", inner, `^return \(utils/node\.GetCondition\(.*, \$0\.ConditionType\)\.Status == \$0\.ConditionStatus\)$`, 1,
				"a policy matches when the node's condition of the policy's type has the policy's status")...)
		}},
		// a condition the node does not report is the empty condition (status "", never equal to a policy's status) —
		// only a reported condition of the requested type is ever handed back
		core.Custom{ID: "C16.PROV5", Kind: "PROV", Run: func(w *core.World, id string) []core.Result {
			const gc = "utils/node.GetCondition"
			fn := w.Fn(gc)
			if fn == nil {
				return []core.Result{core.Anchor(id, "PROV", gc)}
			}
			var out []core.Result
			nz, nc := 0, 0
			for _, s := range w.ReturnSinks(fn, core.RetAny) {
				r := w.RenderInstr(s.Ret)
				switch {
				case r == "return zero":
					nz++
				case regexp.MustCompile(`^return \$0\.Status\.Conditions\[.*\]$`).MatchString(r):
					nc++
					if !w.RetGuarded(s, G(`+^\$0\.Status\.Conditions\[.*\]\.Type == \$1$`, `+^\$1 == \$0\.Status\.Conditions\[.*\]\.Type$`)) {
						out = append(out, core.Bad(id, "PROV", "PROV:"+gc, w.InstrPos(s.Ret), "a condition of another type can be returned"))
					}
				default:
					out = append(out, core.Bad(id, "PROV", "PROV:"+gc, w.InstrPos(s.Ret), "GetCondition returns `"+r+"`: a synthesised condition can match a repair policy although the node never reported it"))
				}
			}
			if nz != 1 || nc < 1 {
				out = append(out, core.Bad(id, "PROV", "PROV:"+gc, w.Pos(fn.Pos()), fmt.Sprintf("expected one empty-condition return and at least one reported-condition return, found %d and %d", nz, nc)))
			}
			if len(out) == 0 {
				out = append(out, core.OK(id, "PROV", "PROV:"+gc, nz+nc, "reported condition of the type, else the empty condition"))
			}
			return out
		}},
		// garbage collection compares the NodeClaims it listed with a provider snapshot taken *afterwards*: an instance
		// launched in between is in the snapshot, never the other way round
		NOREACH{ID: "C16.NR2", Fn: "(*controllers/nodeclaim/garbagecollection.Controller).Reconcile", From: `^call iface:\(cloudprovider\.CloudProvider\)\.List\(\$0\.cloudProvider\)$`,
			Sink: `^call utils/nodeclaim\.ListManaged\(`, Note: "no NodeClaim listing after the provider snapshot"},
		// ---- triage of the mutation sweep (tC16): facts the statement relies on that no operator of the sweep could reach
		// garbage collection, "the provider no longer lists its instance": an entry of the provider's List is left out of the
		// provider-id set only when that instance is being deleted — a predicate that drops live instances makes every
		// registered NodeClaim look orphaned
		core.Custom{ID: "C16.MPT3", Kind: "MPT", Run: c16ProviderFilter},
		// node repair, "of the pool's nodes": the circuit breaker of a pool counts exactly the Nodes carrying that pool's
		// label — isNodePoolHealthy hands its pool name on as a label selector and areNodesHealthy lists with the options
		// it was given (a cluster-wide count lets a fully broken small pool be repaired node by node)
		core.Custom{ID: "C16.PROV6", Kind: "PROV", Run: func(w *core.World, id string) []core.Result {
			rs := core.SelectorArg(w, id, "(*controllers/node/health.Controller).isNodePoolHealthy", `^call \(\*controllers/node/health\.Controller\)\.areNodesHealthy\(`, 2,
				`^"karpenter\.sh/nodepool"$`, `^\$\d+$`, 1, "the pool's health is judged on the Nodes labelled karpenter.sh/nodepool=<the pool asked about>")
			return append(rs, core.ArgProvenance(w, id, "(*controllers/node/health.Controller).areNodesHealthy", `^call iface:\(cr/client\.Reader\)\.List\(\$0\.kubeClient, <\*corev1\.NodeList>`, 3,
				`^(\$\d+|append\((.*, )?\$\d+(, .*)?\))$`, "the Node list that is counted is taken with the caller's list options (the pool selector)")...)
		}},
		// every reaper deletes the very object whose trigger it evaluated (garbage collection: C16.PROV3): expiration and
		// liveness their reconciled NodeClaim, node repair the NodeClaim looked up for the unhealthy Node — through
		// whatever private helper issues the Delete
		core.Custom{ID: "C16.PROV7", Kind: "PROV", Run: func(w *core.World, id string) []core.Result {
			rs := core.ArgProvenance(w, id, exp, ncDelete, 2, `^\$2$`, "expiration deletes the NodeClaim whose age it checked")
			rs = append(rs, core.ArgProvenanceN(w, id, live, ncDelete, 2, `^\$2$`, "the liveness check deletes the NodeClaim whose conditions it checked", 2)...)
			return append(rs, core.ArgProvenance(w, id, heal, ncDelete, 2, `^utils/node\.NodeClaimForNode\(\$0\.kubeClient, \$2\)#0$`, "node repair deletes the NodeClaim of the Node whose condition it checked")...)
		}},
		// findUnhealthyConditions: a condition is returned only when its status equals the policy's status
		core.Custom{ID: "C16.DOM5", Kind: "DOM", Run: c16FindUnhealthy},
		// …and the toleration returned with it is that condition's own policy's: the pair is replaced as a whole
		core.Custom{ID: "C16.PHI1", Kind: "PROV", Run: func(w *core.World, id string) []core.Result {
			return core.PhiCoUpdate(w, id, "PROV", "(*controllers/node/health.Controller).findUnhealthyConditions", []int{0, 1}, "the unhealthy condition and the toleration duration returned belong to the same repair policy")
		}},
	}
	// garbage collection, "its Node is absent … and not when that cannot be established": what NodeForNodeClaim's answers
	// and the two Ignore helpers applied to them mean (shared_tC16.go)
	return append(rules, nodeLookupRules("C16.")...)
}

func c16ProviderSet(w *core.World, id string) []core.Result {
	const gc = "(*controllers/nodeclaim/garbagecollection.Controller).Reconcile"
	rs := core.InstrPresent(w, id, "PROV", gc,
		`^call apim/util/sets\.New\[string\]\(lo\.Map\[\*apis/v1\.NodeClaim, string\]\(lo\.Filter\[\*apis/v1\.NodeClaim, \[\]\*apis/v1\.NodeClaim\]\(iface:\(cloudprovider\.CloudProvider\)\.List\(.*\)#0, `, 1,
		"the provider-id set is built from the provider's List result")
	if rs[0].Status != core.Discharged {
		return rs
	}
	mapFn := w.Fn("@arg:" + gc + `|^call lo\.Map\[\*apis/v1\.NodeClaim, string\]\(|1`)
	if mapFn == nil {
		return []core.Result{core.Bad(id, "PROV", "PROV:"+gc+":provider-set", "", "the mapping function of the provider-id set cannot be resolved")}
	}
	if len(w.SitesOr(mapFn, regexp.MustCompile(`^return \$0\.Status\.ProviderID$`), false, 1)) == 0 {
		return []core.Result{core.Bad(id, "PROV", "PROV:"+gc+":provider-set", w.Pos(mapFn.Pos()), "the provider's NodeClaims are not keyed by Status.ProviderID")}
	}
	// the closure that tests membership captures that very set
	pred := w.Fn("@arg:" + gc + `|^call lo\.Filter\[\*apis/v1\.NodeClaim, \[\]\*apis/v1\.NodeClaim\]\(&local<|1`)
	if pred == nil {
		return []core.Result{core.Bad(id, "PROV", "PROV:"+gc+":filter", "", "filter predicate cannot be resolved")}
	}
	if len(w.SitesOr(pred, regexp.MustCompile(`^call \(apim/util/sets\.Set\[string\]\)\.Has\(\^apim/util/sets\.New\[string\]\(lo\.Map\[`), false, 1)) == 0 {
		return []core.Result{core.Bad(id, "PROV", "PROV:"+gc+":filter", w.Pos(pred.Pos()), "the membership test does not consult the set built from the provider's List")}
	}
	return rs
}

// C16.MPT3: the predicate that narrows the provider's List before the provider-id set is built answers false (entry left
// out) only for an instance that is being deleted.
func c16ProviderFilter(w *core.World, id string) []core.Result {
	const gc = "(*controllers/nodeclaim/garbagecollection.Controller).Reconcile"
	construct := "MPT:" + gc + ":provider-list-filter⇒false"
	if w.Fn(gc) == nil {
		return []core.Result{core.Anchor(id, "MPT", gc)}
	}
	pred := w.FnArgOf(gc, `^call lo\.Filter\[\*apis/v1\.NodeClaim, \[\]\*apis/v1\.NodeClaim\]\(iface:\(cloudprovider\.CloudProvider\)\.List\(`, 1)
	if pred == nil {
		return []core.Result{core.Bad(id, "MPT", construct, w.Pos(w.Fn(gc).Pos()), "the predicate that narrows the provider's List (lo.Filter over CloudProvider.List's result) cannot be resolved: which instances count as listed is not decided")}
	}
	g := G(`-^\(\*metav1\.Time\)\.IsZero\(\$0\.ObjectMeta\.DeletionTimestamp\)$`)
	var out []core.Result
	sinks := w.ReturnSinks(pred, core.RetFalse)
	for _, s := range sinks {
		if !w.RetGuarded(s, g) {
			out = append(out, core.Bad(id, "MPT", construct, w.InstrPos(s.Ret),
				"an instance the provider lists can be left out of the provider-id set ("+s.Desc+") although it is not being deleted: its registered NodeClaim is then garbage collected while the instance exists", w.DominatingLits(s.Ret)...))
		}
	}
	if len(sinks) == 0 {
		// a predicate that never drops anything keeps every listed instance: stronger than required
		return []core.Result{core.OK(id, "MPT", construct, 1, "the predicate never leaves a listed instance out")}
	}
	if len(out) == 0 {
		out = append(out, core.OK(id, "MPT", construct, len(sinks), "a listed instance is left out of the set only when its DeletionTimestamp is set"))
	}
	return out
}

// C16.PROV1: threshold is 20% of the listed nodes, rounded up.
func c16Threshold(w *core.World, id string) []core.Result {
	rs := core.InstrPresent(w, id, "PROV", "(*controllers/node/health.Controller).areNodesHealthy",
		`^call apim/util/intstr\.GetScaledValueFromIntOrPercent\(controllers/node/health\.allowedUnhealthyPercent, len\(&local<corev1\.NodeList>\.Items\), true\)$`, 1,
		"threshold = scaled(allowedUnhealthyPercent, len(nodes), roundUp=true)")
	// the package-level percentage is "20%"
	initFn := w.Fn("controllers/node/health.init")
	if initFn == nil {
		return append(rs, core.Anchor(id, "PROV", "controllers/node/health.init"))
	}
	if len(w.SitesOr(initFn, regexp.MustCompile(`^store controllers/node/health\.allowedUnhealthyPercent = apim/util/intstr\.FromString\("20%"\)$`), true, 1)) == 0 {
		rs = append(rs, core.Bad(id, "PROV", "PROV:allowedUnhealthyPercent", w.Pos(initFn.Pos()), `allowedUnhealthyPercent is no longer intstr.FromString("20%")`))
	}
	return rs
}

// C16.DOM5: findUnhealthyConditions only yields a condition whose status equals the repair policy's status.
func c16FindUnhealthy(w *core.World, id string) []core.Result {
	return core.RetSourceGuarded(w, id, "DOM", "(*controllers/node/health.Controller).findUnhealthyConditions", 0,
		G(`+^.*\.ConditionStatus == utils/node\.GetCondition\(\$1, .*\.ConditionType\)\.Status$`, `+^utils/node\.GetCondition\(\$1, .*\.ConditionType\)\.Status == .*\.ConditionStatus$`),
		"a node condition is reported unhealthy only when its status equals the repair policy's status")
}
