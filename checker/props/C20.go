package props

import (
	"fmt"
	"strings"

	"kverif/core"

	"golang.org/x/tools/go/ssa"
)

func init() {
	core.Register(&core.Property{
		ID:    "C20",
		Title: "NodePool registration health reflects the recent launch window",
		Explanation: "Decides: (1) the what-if copy made by State.DryRun reads every RingBuffer field that Insert reads (values and head) and RingBuffer.Copy carries contents, capacity and insertion position; DryRun applies the same Tracker.Update to the copy and never mutates the original — so by determinism of Insert the what-if equals the state after recording; " +
			"(2) Registration pairs DryRun(uid,true)/Update(uid,true) and Liveness DryRun(uid,false)/Update(uid,false) on the same UID, sets the condition True only under dry-run Healthy and False only under dry-run Unhealthy, and records the outcome on every successful path after the (optional) patch succeeded; " +
			"(3) Tracker.Status is Unknown iff the buffer is empty, counts false entries, and is Unhealthy iff count/4 ≥ 0.5; " +
			"(4) Tracker.buffer and State.trackers are accessed under their mutexes.",
		NotCovered: []string{"sequences of arbitrary length are covered only through the copy-coverage + determinism argument", "SetStatus hydration arithmetic after restarts"},
		Rules:      c20Rules,
	})
}

func c20Rules(tier string) []Rule {
	const (
		regU = "(*life.Registration).updateNodePoolRegistrationHealth"
		livU = "(*life.Liveness).updateNodePoolRegistrationHealth"
		dry  = "(*state/nodepoolhealth.State).DryRun"
		stat = "(*state/nodepoolhealth.Tracker).Status"
	)
	uid := `&local<apis/v1\.NodePool>\.ObjectMeta\.UID`
	dryR := func(b string) string {
		return `\(\*state/nodepoolhealth\.Tracker\)\.Status\(\(\*state/nodepoolhealth\.State\)\.DryRun\(\$0\.npState, ` + uid + `, ` + b + `\)\)`
	}
	patchOK := `+^cr/client\.IgnoreNotFound\(iface:\(cr/client\.SubResourceWriter\)\.Patch\(iface:\(cr/client\.StatusClient\)\.Status\(\$0\.kubeClient\), <\*apis/v1\.NodePool>&local<apis/v1\.NodePool>, .* == nil$`
	return []Rule{
		core.Custom{ID: "C20.COPY1", Kind: "COPY", Run: c20DryRunCopy},
		core.Custom{ID: "C20.COPY1b", Kind: "COPY", Run: c20RingCopy},
		core.Custom{ID: "C20.PROV0", Kind: "PROV", Run: func(w *core.World, id string) []core.Result {
			rs := core.InstrPresent(w, id, "PROV", dry, `^call \(\*state/nodepoolhealth\.Tracker\)\.Update\(&local<state/nodepoolhealth\.Tracker>, \$2\)$`, 1, "the prospective outcome is applied to the copy with the same Update as the real recording")
			rs = append(rs, core.InstrPresent(w, id, "PROV", dry, `^return &local<state/nodepoolhealth\.Tracker>$`, 1, "the copy is what is evaluated")...)
			rs = append(rs, core.InstrAbsent(w, id, "PROV", dry, `^call \(\*state/nodepoolhealth\.Tracker\)\.(Update|Reset|SetStatus)\(\(\*state/nodepoolhealth\.State\)\.nodePoolNodeRegistration\(|^call \(\*utils/ringbuffer\.RingBuffer\[bool\]\)\.(Insert|Reset)\(\(\*state/nodepoolhealth\.State\)\.nodePoolNodeRegistration\(`, "the what-if must not touch the real tracker")...)
			rs = append(rs, core.InstrPresent(w, id, "PROV", "(*state/nodepoolhealth.State).Update", `^call \(\*state/nodepoolhealth\.Tracker\)\.Update\(\(\*state/nodepoolhealth\.State\)\.nodePoolNodeRegistration\(\$0, \$1\), \$2\)$`, 1, "recording uses Tracker.Update on the pool's tracker")...)
			rs = append(rs, core.InstrPresent(w, id, "PROV", "(*state/nodepoolhealth.Tracker).Update", `^call \(\*utils/ringbuffer\.RingBuffer\[bool\]\)\.Insert\(\$0\.buffer, \$1\)$`, 1, "Update inserts the outcome")...)
			return rs
		}},

		// ---- registration (success)
		DOM{ID: "C20.PROV1a", Fn: regU, Sink: `^call \(opkg/status\.ConditionSet\)\.SetTrue\(\(\*apis/v1\.NodePool\)\.StatusConditions\(&local<apis/v1\.NodePool>, .*\), "NodeRegistrationHealthy"\)`, Gates: gates(
			G(`+^`+dryR("true")+` == 1$`),
			G(`+^lo\.Find\[metav1\.OwnerReference\]\(.*\)#1$`),
		)},
		DOM{ID: "C20.PROV1b", Fn: regU, Sink: `^call \(\*state/nodepoolhealth\.State\)\.Update\(\$0\.npState, ` + uid + `, true\)`, Gates: gates(
			G(`-^`+dryR("true")+` == 1$`, `-^\(opkg/status\.ConditionSet\)\.SetTrue\(`, patchOK),
		)},
		POST{ID: "C20.PROV1c", Fn: regU, From: `^call \(\*state/nodepoolhealth\.State\)\.DryRun\(`, Must: []string{`^call \(\*state/nodepoolhealth\.State\)\.Update\(\$0\.npState, ` + uid + `, true\)`}, To: core.RetNilConst},
		WMC{ID: "C20.WMC1", Sink: `^call \(opkg/status\.ConditionSet\)\.Set(True|TrueWithReason)\(.*, "NodeRegistrationHealthy"`, Allowed: []string{regU, "(*controllers/nodepool/registrationhealth.Controller).Reconcile"}, Required: []string{regU}},

		// ---- liveness (failure)
		DOM{ID: "C20.PROV2a", Fn: livU, Sink: `^call \(opkg/status\.ConditionSet\)\.SetFalse\(\(\*apis/v1\.NodePool\)\.StatusConditions\(&local<apis/v1\.NodePool>, .*\), "NodeRegistrationHealthy"`, Min: 2, Gates: gates(
			G(`+^`+dryR("false")+` == 2$`),
			G(`+^lo\.Find\[metav1\.OwnerReference\]\(.*\)#1$`),
		)},
		DOM{ID: "C20.PROV2b", Fn: livU, Sink: `^call \(\*state/nodepoolhealth\.State\)\.Update\(\$0\.npState, ` + uid + `, false\)`, Gates: gates(
			G(`-^`+dryR("false")+` == 2$`, `+^\(\*opkg/status\.Condition\)\.IsFalse\(`, patchOK),
		)},
		POST{ID: "C20.PROV2c", Fn: livU, From: `^call \(\*state/nodepoolhealth\.State\)\.DryRun\(`, Must: []string{`^call \(\*state/nodepoolhealth\.State\)\.Update\(\$0\.npState, ` + uid + `, false\)`}, To: core.RetNilConst},
		// an unhealthy what-if does set the condition False unless it already is
		POST{ID: "C20.PROV2d", Fn: livU, FromLit: `-^\(\*opkg/status\.Condition\)\.IsFalse\(\(opkg/status\.ConditionSet\)\.Get\(\(\*apis/v1\.NodePool\)\.StatusConditions\(.*\), "NodeRegistrationHealthy"\)\)$`,
			Must: []string{`^call \(opkg/status\.ConditionSet\)\.SetFalse\(.*"NodeRegistrationHealthy"`}},
		// a reset of the condition (NodeClass / NodePool generation change) empties the window in the same step: the
		// tracker never keeps outcomes from before a reset
		POST{ID: "C20.POST3", Fn: "(*controllers/nodepool/registrationhealth.Controller).Reconcile", From: `^call \(opkg/status\.ConditionSet\)\.SetUnknown\(.*, "NodeRegistrationHealthy"\)$`,
			Must: []string{`^call \(\*state/nodepoolhealth\.State\)\.SetStatus\(\$0\.npState, \$2\.ObjectMeta\.UID, 0\)$`}, Note: "SetUnknown is always followed by SetStatus(uid, StatusUnknown)"},
		WMC{ID: "C20.WMC2", Sink: `^call \(opkg/status\.ConditionSet\)\.SetFalse\(.*, "NodeRegistrationHealthy"`, Allowed: []string{livU, "(*controllers/nodepool/registrationhealth.Controller).Reconcile"}, Required: []string{livU}},
		// ---- one outcome per launch attempt: a success is recorded only in the pass that completes registration (hooks ready,
		// Registered set True in the same pass — the entry test keeps later passes away), a failure only in the pass that
		// gives the NodeClaim up (timeout elapsed, deletion follows); nobody else records
		DOM{ID: "C20.ONCE1", Fn: "(*life.Registration).Reconcile", Sink: `^call \(\*life\.Registration\)\.updateNodePoolRegistrationHealth\(\$0, \$2\)$`, Max: 1, Gates: gates(
			G(`+^\(\*opkg/status\.Condition\)\.IsUnknown\(\(opkg/status\.ConditionSet\)\.Get\(\(\*apis/v1\.NodeClaim\)\.StatusConditions\(\$2, nil\), "Registered"\)\)$`),
			G(`+^lo\.IsEmpty\[cr/reconcile\.Result\]\(\(\*life\.Registration\)\.checkRegistrationHooks\(\$0, \$2\)#0\)$`),
			G(`+^\(\*life\.Registration\)\.checkRegistrationHooks\(\$0, \$2\)#1 == nil$`),
			G(`instr:^call \(opkg/status\.ConditionSet\)\.SetTrue\(\(\*apis/v1\.NodeClaim\)\.StatusConditions\(\$2, .*\), "Registered"\)$`),
		), Note: "registration success is recorded once: with the hooks ready and Registered=True set in this pass"},
		DOM{ID: "C20.ONCE2", Fn: "(*life.Liveness).Reconcile", Sink: `^call \(\*life\.Liveness\)\.updateNodePoolRegistrationHealth\(\$0, \$2\)$`, Min: 2, Max: 2, Gates: gates(
			G(`-^\(\*opkg/status\.Condition\)\.IsTrue\(\(opkg/status\.ConditionSet\)\.Get\(\(\*apis/v1\.NodeClaim\)\.StatusConditions\(\$2, nil\), "Registered"\)\)$`),
			G(`-^0 < \(life\.LaunchTimeout - iface:\(k8s\.io/utils/clock\.PassiveClock\)\.Since\(\$0\.clock, .*"Launched"\)\.LastTransitionTime\.Time\)\)$`,
				`-^0 < \(900000000000 - iface:\(k8s\.io/utils/clock\.PassiveClock\)\.Since\(\$0\.clock, .*"Registered"\)\.LastTransitionTime\.Time\)\)$`),
		), Note: "a failure is recorded only once a timeout elapsed for a NodeClaim that is not registered"},
		POST{ID: "C20.ONCE3", Fn: "(*life.Liveness).Reconcile", From: `^call \(\*life\.Liveness\)\.updateNodePoolRegistrationHealth\(\$0, \$2\)$`, Min: 2,
			Must:   []string{`^call \(\*life\.Liveness\)\.deleteNodeClaimForTimeout\(\$0, `},
			Excuse: []string{`-^cr/client\.IgnoreNotFound\(\(\*life\.Liveness\)\.updateNodePoolRegistrationHealth\(\$0, \$2\)\) == nil$`},
			Note:   "a recorded failure is followed by the deletion of the NodeClaim (it cannot time out again)"},
		WMC{ID: "C20.WMC5", Sink: `^(call|go|defer) \(\*life\.(Registration|Liveness)\)\.updateNodePoolRegistrationHealth\(`,
			Allowed: []string{"(*life.Registration).Reconcile", "(*life.Liveness).Reconcile"}, Required: []string{"(*life.Registration).Reconcile", "(*life.Liveness).Reconcile"}},
		WMC{ID: "C20.WMC3", Sink: `^(call|go|defer) \(\*state/nodepoolhealth\.State\)\.Update\(`, Allowed: []string{regU, livU}, Required: []string{regU, livU}},
		WMC{ID: "C20.WMC4", Sink: `^(call|go|defer) \(\*state/nodepoolhealth\.State\)\.DryRun\(`, Allowed: []string{regU, livU}, Required: []string{regU, livU}},
		// the tracker consulted belongs to the NodePool that owns the NodeClaim
		core.Custom{ID: "C20.PROV3", Kind: "PROV", Run: func(w *core.World, id string) []core.Result {
			var rs []core.Result
			for _, f := range []string{regU, livU} {
				rs = append(rs, core.InstrPresent(w, id, "PROV", f, `^store &local<apim/types\.NamespacedName>\.Name = \$2\.ObjectMeta\.Labels\["karpenter\.sh/nodepool"\]$`, 1, "the NodePool is the one named by the NodeClaim's label")...)
				rs = append(rs, core.InstrPresent(w, id, "PROV", f, `^return phi\(false\|\(\$0\.UID == \^&local<apis/v1\.NodePool>\.ObjectMeta\.UID\)\)$`, 1, "and owns the NodeClaim by UID")...)
			}
			return rs
		}},

		core.Custom{ID: "C20.REG1", Kind: "REG", Run: c20Status},
		// a reset empties the window *and* rewinds the insertion position (a stale head overwrites the wrong slot once the
		// buffer is full again)
		core.Custom{ID: "C20.PROV5", Kind: "PROV", Run: func(w *core.World, id string) []core.Result {
			const rst = "(*utils/ringbuffer.RingBuffer[bool]).Reset"
			rs := core.InstrPresent(w, id, "PROV", rst, `^store \$0\.head = 0$`, 1, "Reset rewinds head")
			return append(rs, core.InstrPresent(w, id, "PROV", rst, `^store \$0\.values = \$0\.values\[:0\]$`, 1, "Reset empties the window keeping its capacity")...)
		}},
		core.Custom{ID: "C20.LOCK1", Kind: "LOCK", Run: func(w *core.World, id string) []core.Result {
			rs := core.LockDiscipline(w, id, core.LockSpec{Type: "state/nodepoolhealth.Tracker", Mutex: "RWMutex", Fields: []string{"buffer"},
				Constructor: []string{"state/nodepoolhealth.NewTracker"}, MinAccesses: 6,
				ExemptFn: map[string]string{"(*state/nodepoolhealth.State).DryRun": "writes the buffer of the freshly allocated copy; the read of the original is under RLock (checked by C20.LOCK2)"}})
			rs = append(rs, core.LockDiscipline(w, id, core.LockSpec{Type: "state/nodepoolhealth.State", Mutex: "RWMutex", Fields: []string{"trackers"},
				Constructor: []string{"state/nodepoolhealth.NewState"}, MinAccesses: 3})...)
			return rs
		}},
		// the read of the original buffer in DryRun happens between RLock and RUnlock of the original tracker
		DOM{ID: "C20.LOCK2", Fn: dry, Sink: `^call \(\*utils/ringbuffer\.RingBuffer\[bool\]\)\.Copy\(`, Gates: gates(
			G(`instr:^call \(\*sync\.RWMutex\)\.RLock\(\(\*state/nodepoolhealth\.State\)\.nodePoolNodeRegistration\(\$0, \$1\)\.RWMutex\)$`),
		)},
		NOREACH{ID: "C20.LOCK2b", Fn: dry, From: `^call \(\*sync\.RWMutex\)\.RUnlock\(`, Sink: `^call \(\*utils/ringbuffer\.RingBuffer\[bool\]\)\.(Copy|Items|Len)\(\(\*state/nodepoolhealth\.State\)\.nodePoolNodeRegistration\(`},
	}
}

// C20.COPY1: DryRun reads from the original buffer every field that Insert's behaviour depends on.
func c20DryRunCopy(w *core.World, id string) []core.Result {
	const dry = "(*state/nodepoolhealth.State).DryRun"
	const typ = "utils/ringbuffer.RingBuffer"
	ins := w.Fn("(*utils/ringbuffer.RingBuffer[bool]).Insert")
	fn := w.Fn(dry)
	if ins == nil || fn == nil {
		return []core.Result{core.Anchor(id, "COPY", dry+" / RingBuffer[bool].Insert")}
	}
	need, _ := w.FieldsReadVia(ins, ins.Params[0], typ, 2)
	if len(need) == 0 {
		return []core.Result{core.Bad(id, "COPY", "COPY:"+dry, w.Pos(ins.Pos()), "vacuous: Insert reads no RingBuffer field")}
	}
	// root: the address of the original tracker's buffer
	var root ssa.Value
	for _, b := range fn.Blocks {
		for _, in := range b.Instrs {
			if fa, ok := in.(*ssa.FieldAddr); ok && strings.HasSuffix(w.Render(fa), ".buffer") && strings.Contains(w.Render(fa), "nodePoolNodeRegistration") {
				root = fa
			}
		}
	}
	if root == nil {
		return []core.Result{core.Bad(id, "COPY", "COPY:"+dry, w.Pos(fn.Pos()), "DryRun no longer reads the buffer of the pool's tracker (idiom not recognised)")}
	}
	got, whole := w.FieldsReadVia(fn, root, typ, 3)
	var missing []string
	for f := range need {
		if !got[f] && !whole {
			missing = append(missing, f)
		}
	}
	if len(missing) > 0 {
		return []core.Result{core.Bad(id, "COPY", "COPY:"+dry, w.InstrPos(root.(ssa.Instruction)),
			fmt.Sprintf("the what-if copy never reads RingBuffer.%s of the original, but Insert's behaviour depends on it (fields Insert reads: %v; fields the copy reads: %v) — what-if and recorded state diverge", strings.Join(missing, ","), core.SortedKeys(need), core.SortedKeys(got)))}
	}
	return []core.Result{core.OK(id, "COPY", "COPY:"+dry, len(need), fmt.Sprintf("copy reads %v ⊇ Insert reads %v", core.SortedKeys(got), core.SortedKeys(need)))}
}

// C20.COPY1b: RingBuffer.Copy carries contents, capacity and head.
func c20RingCopy(w *core.World, id string) []core.Result {
	const cp = "(*utils/ringbuffer.RingBuffer[bool]).Copy"
	rs := core.CopyCoverage(w, id, core.CopySpec{Fn: cp, Type: "utils/ringbuffer.RingBuffer", Source: `\$0`,
		Rebuilt: map[string]string{"values": `^call copy\(makeslice<\[\]bool>, \$0\.values\)$`}})
	fn := w.Fn(cp)
	if fn == nil {
		return rs
	}
	okCap := false
	for _, b := range fn.Blocks {
		for _, in := range b.Instrs {
			if ms, ok := in.(*ssa.MakeSlice); ok {
				if w.Render(ms.Len) == "len($0.values)" && w.Render(ms.Cap) == "cap($0.values)" {
					okCap = true
				}
			}
		}
	}
	if !okCap {
		rs = append(rs, core.Bad(id, "COPY", "COPY:"+cp+":cap", w.Pos(fn.Pos()), "the copied buffer does not keep the original's length and capacity (Insert switches from append to overwrite at capacity)"))
	}
	return rs
}

// C20.REG1: Tracker.Status.
func c20Status(w *core.World, id string) []core.Result {
	const stat = "(*state/nodepoolhealth.Tracker).Status"
	fn := w.Fn(stat)
	if fn == nil {
		return []core.Result{core.Anchor(id, "REG", stat)}
	}
	construct := "REG:" + stat
	var out []core.Result
	want := map[string][]core.Gate{
		"0": {G(`+^\(\*utils/ringbuffer\.RingBuffer\[bool\]\)\.Len\(\$0\.buffer\) == 0$`)},
		"1": {G(`-^\(\*utils/ringbuffer\.RingBuffer\[bool\]\)\.Len\(\$0\.buffer\) == 0$`), G(`+^\(phi\(0\|phi↺\|\(phi↺ \+ 1\)\) / 4\) < 0\.5$`)},
		"2": {G(`-^\(\*utils/ringbuffer\.RingBuffer\[bool\]\)\.Len\(\$0\.buffer\) == 0$`), G(`-^\(phi\(0\|phi↺\|\(phi↺ \+ 1\)\) / 4\) < 0\.5$`)},
	}
	seen := map[string]bool{}
	for _, s := range w.ReturnSinks(fn, core.RetAny) {
		rv := core.ResolveRet(s.Ret, 0)
		if rv == nil {
			continue
		}
		v := w.Render(rv)
		if _, ok := want[v]; !ok {
			if _, isConst := rv.(*ssa.Const); isConst || !strings.HasPrefix(v, "&local") {
				out = append(out, core.Bad(id, "REG", construct+":"+v, w.InstrPos(s.Ret), "unclassified status value `"+v+"`"))
			}
			continue // the recover block of a function with defers returns the zero slot
		}
		seen[v] = true
		for _, g := range want[v] {
			if !w.RetGuarded(s, g) {
				out = append(out, core.Bad(id, "REG", construct+":"+v, w.InstrPos(s.Ret), "status "+v+" is returned without {"+g.Text+"} (Unknown ⇔ empty; Unhealthy ⇔ false count / 4 ≥ 0.5)"))
			}
		}
	}
	for v := range want {
		if !seen[v] {
			out = append(out, core.Bad(id, "REG", construct+":"+v, w.Pos(fn.Pos()), "status "+v+" is never returned (idiom not recognised)"))
		}
	}
	// the counter counts false entries of the buffer's items
	cnt := 0
	w.WithHelpers(fn, func(f *ssa.Function, _ ssa.Instruction) {
		for _, b := range f.Blocks {
			for _, in := range b.Instrs {
				bo, ok := in.(*ssa.BinOp)
				if !ok || w.Render(bo) != "(phi(0|phi↺|(phi↺ + 1)) + 1)" {
					continue
				}
				if _, isPhi := bo.X.(*ssa.Phi); !isPhi || bo.X.Type().String() != "int" {
					continue
				}
				// distinguish from the loop index by its guard
				if w.GuardedBy(bo, G(`-^\(\*utils/ringbuffer\.RingBuffer\[bool\]\)\.Items\(\$0\.buffer\)\[.*\]$`)) {
					cnt++
				}
			}
		}
	})
	if cnt != 1 {
		out = append(out, core.Bad(id, "REG", construct+":count", w.Pos(fn.Pos()), fmt.Sprintf("the unhealthy counter is not incremented exactly for the false entries of the buffer (found %d matching increments)", cnt)))
	}
	if len(out) == 0 {
		out = append(out, core.OK(id, "REG", construct, 4, "Unknown ⇔ Len()==0; Unhealthy ⇔ falses/4 ≥ 0.5"))
	}
	return out
}
