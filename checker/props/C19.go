package props

import (
	"fmt"
	"go/token"
	"regexp"
	"strings"

	"kverif/core"

	"golang.org/x/tools/go/ssa"
)

func init() {
	core.Register(&core.Property{
		ID:    "C19",
		Title: "NodePool weight and price ordering are honoured",
		Explanation: "Decides: (1) OrderByWeight's comparator: less(a,b) ⇔ weight(a) > weight(b), or equal weights and name(a) > name(b); " +
			"(2) Provisioner.NewScheduler sorts the very slice it then hands to NewTopology and scheduler.NewScheduler (only an order-preserving filter before, nothing after), and the scheduler builds its templates with an order-preserving FilterMap over that slice; " +
			"(3) first-success-wins in the three parallel candidate evaluations: every write to a captured 'chosen' variable happens with the mutex held, only when i < idx, and is followed by idx = i; " +
			"(4) the instance types sent to the provider are lo.Slice of the direct result of OrderByPrice (Truncate and ToNodeClaim), and OrderByPrice's comparator is min-over-offerings(Available ∧ IsCompatible) on each side compared with <; " +
			"(5) the parallel primitive: parallelizeUntil queues the pieces in ascending index order with its only send, returns only after WaitGroup.Wait, and a worker reports Done only when it leaves (so a success at index i implies every heavier template was evaluated to the end before the winner is read); piece i is evaluated against nodeClaimTemplates[i]; " +
			"(6) a template is passed over (closure continues with nothing recorded) only if CanAdd failed, no instance type fits the pool's headroom, or the pool's node-count limit is present and used up; filterByRemainingResources keeps a type iff no resource of its capacity exceeds the headroom; a NodePool is left out of the templates only if it has no compatible instance type; " +
			"(7) whenever a candidate wins (new or in-flight NodeClaim) the requirements and instance-type options recorded with it are the ones its own CanAdd returned, and the winning new NodeClaim is appended to the scheduler's new NodeClaims; " +
			"(8) ToNodeClaim of a dynamic pool always builds the instance-type requirement from the price-ordered truncated list, adds it to the template's requirements before they are serialized, and the serialization filter drops only simulation-only keys.",
		NotCovered: []string{"sort.Slice's own correctness and stability", "fairness under price ties", "floating point prices (NaN)",
			"whether a template's requirements describe its NodePool correctly (NewNodeClaimTemplate: pool requirements / labels) — compatibility is C01/C13's subject",
			"availability / compatibility helpers of Offerings (Available, Compatible, HasCompatible) that decide which types are options at all, and price overlays that set Offering.Price: C19 ranks the options it is given by the prices it is given",
			"progress only: a worker that stops after a failed piece, fewer workers or pieces than requested, lost error messages",
			"a deferred WaitGroup.Wait in parallelizeUntil would be reported by C19.PAR2 although equivalent"},
		Rules: c19Rules,
	})
}

func c19Rules(tier string) []Rule {
	rules := c19RulesBase(tier)
	// instance types are ranked / truncated under the NodeClaim's own (pod-narrowed) requirements
	rules = append(rules, core.Custom{ID: "C19.PROV5", Kind: "PROV", Run: func(w *core.World, id string) []core.Result {
		const f = "(sched.Results).TruncateInstanceTypes"
		fn := w.Fn(f)
		if fn == nil {
			return []core.Result{core.Anchor(id, "PROV", f)}
		}
		n := 0
		for _, s := range w.SitesOr(fn, regexp.MustCompile(`^call \(cloudprovider\.InstanceTypes\)\.Truncate\(`), true, 1) {
			c, ok := s.(*ssa.Call)
			if !ok || len(c.Call.Args) < 3 {
				continue
			}
			n++
			a0, a1 := w.RenderD(c.Call.Args[0], 9), w.RenderD(c.Call.Args[len(c.Call.Args)-2], 9)
			const suf = ".NodeClaimTemplate.InstanceTypeOptions"
			if !strings.HasSuffix(a0, suf) || a1 != strings.TrimSuffix(a0, suf)+".NodeClaimTemplate.Requirements" {
				return []core.Result{core.Bad(id, "PROV", "PROV:"+f+":truncate-requirements", w.InstrPos(s), "the options `"+clipStr(a0, 70)+"` are truncated under `"+clipStr(a1, 70)+"`, not under the same NodeClaim's requirements")}
			}
		}
		if n == 0 {
			return []core.Result{core.Bad(id, "PROV", "PROV:"+f+":truncate-requirements", w.Pos(fn.Pos()), "vacuous: no Truncate call")}
		}
		return []core.Result{core.OK(id, "PROV", "PROV:"+f+":truncate-requirements", n, "Truncate(nc.InstanceTypeOptions, nc.Requirements, max)")}
	}})
	// the pool's headroom is charged with what is left after the pod was added (a later pod of the same pass must not be
	// pushed to a lighter pool by options the first pod already excluded)
	rules = append(rules, POST{ID: "C19.POST4", Fn: "(*sched.Scheduler).addToNewNodeClaim", From: `^call \(\*sched\.NodeClaim\)\.Add\(`, Shallow: true,
		Must: []string{`^mapupdate \$0\.remainingResources\[.*NodePoolName\] = sched\.subtractMax\(\$0\.remainingResources\[.*NodePoolName\], .*InstanceTypeOptions\)`}},
		core.Custom{ID: "C19.PROV6", Kind: "PROV", Run: subtractMaxRows},
		NOREACH{ID: "C19.NR1", Fn: "(*sched.Scheduler).addToNewNodeClaim", From: `^mapupdate \$0\.remainingResources\[.*NodePoolName\] = sched\.subtractMax\(`, Sink: `^call \(\*sched\.NodeClaim\)\.Add\(`})
	rules = append(rules, c19SweepRules()...)
	return rules
}

// c19SweepRules: facts found missing by the mutation sweep of the anchored files (triage of sweep/C19.missed.txt).
func c19SweepRules() []Rule {
	const (
		par   = "sched.parallelizeUntil"
		newCl = "@arg:(*sched.Scheduler).addToNewNodeClaim|^call sched\\.parallelizeUntil\\(|2"
		inCl  = "@arg:(*sched.Scheduler).addToInflightNode|^call sched\\.parallelizeUntil\\(|2"
		tplCl = "@arg:sched.NewScheduler|^call lo\\.FilterMap\\[\\*apis/v1\\.NodePool, \\*sched\\.NodeClaimTemplate\\]\\(|1"
		tnc   = "(*sched.NodeClaimTemplate).ToNodeClaim"

		newCan = `\(\*sched\.NodeClaim\)\.CanAdd\(sched\.NewNodeClaim\(.*\)#4 == nil$`
		inCan  = `\(\*sched\.NodeClaim\)\.CanAdd\(\^\$0\.newNodeClaims\[\$0\], .*\)#4 == nil$`
		lost   = `-^\$0 < \^&local<int>$`
		head   = `\^\$0\.remainingResources\[.*NodePoolName\]#0`
		itReq  = `scheduling\.NewRequirementWithFlexibility\("node\.kubernetes\.io/instance-type", "In", \(scheduling\.Requirements\)\.Get\(\$0\.Requirements, "node\.kubernetes\.io/instance-type"\)\.MinValues, lo\.Map\[\*cloudprovider\.InstanceType, string\]\(lo\.Slice\[\*cloudprovider\.InstanceType, cloudprovider\.InstanceTypes\]\(`
		addReq = `^call \(scheduling\.Requirements\)\.Add\(\$0\.Requirements, `
		itCap  = `\$0\[.*\]\.Capacity\[next\(range\(\$1\)\)#1\]`
		itRem  = `next\(range\(\$1\)\)#2`
		newFn  = "(*sched.Scheduler).addToNewNodeClaim"
	)
	// a captured result variable renders as `&local<T>` when it has several stores and as the stored value when it has one
	won := func(typ, res string) string {
		return `^store \^(&local<` + typ + `>|\(\*sched\.NodeClaim\)\.CanAdd\(.*\)#` + res + `) = \(\*sched\.NodeClaim\)\.CanAdd\(.*\)#` + res + `$`
	}
	return []Rule{
		// ---- (5) the parallel evaluation itself: "success at index i ⇒ every index below i was evaluated to the end"
		// rests on the pieces being queued in ascending index order and on parallelizeUntil returning only after every
		// worker has left (the winner is read right after it returns)
		core.Custom{ID: "C19.PAR1", Kind: "PROV", Run: c19QueueOrder},
		DOM{ID: "C19.PAR2", Fn: par, Sink: `^return`, Shallow: true, Gates: gates(G(`instr:^call \(\*sync\.WaitGroup\)\.Wait\(`)),
			Note: "the candidate evaluation is over when parallelizeUntil returns: the winner is not read while a heavier template is still being evaluated"},
		core.Custom{ID: "C19.PAR3", Kind: "POST", Run: c19WorkerDone},

		// ---- (6) a template is passed over only for a reason that makes its pool infeasible for the pod
		MPT{ID: "C19.MPT1", Fn: newCl, Ret: core.RetTrue, Min: 3, Gates: gates(
			G(`-^`+newCan, `-^len\(sched\.filterByRemainingResources\(.*\.InstanceTypeOptions, `+head+`\)\)>=1$`, `+^\(\*apim/api/resource\.Quantity\)\.IsZero\(`+head+`\[utils/resources\.Node\]#0\)$`),
			G(`-^`+newCan, `-^len\(sched\.filterByRemainingResources\(.*\.InstanceTypeOptions, `+head+`\)\)>=1$`, `+^`+head+`\[utils/resources\.Node\]#1$`),
		), Note: "evaluation moves on to lighter pools (nothing recorded for this one) only if CanAdd failed, no instance type fits the pool's headroom, or the pool has a node-count limit that is used up"},
		// the same fact as C03.CMP1 (an instance type is kept iff no resource of its capacity exceeds the headroom), with the
		// comparison accepted from either operand: dropping a type that fits makes a feasible pool look infeasible
		FLAG{ID: "C19.CMP1", Fn: "sched.filterByRemainingResources", Sink: `^call append\(`,
			Lit: `+^(0 < utils/resources\.Cmp\(` + itCap + `, ` + itRem + `\)|utils/resources\.Cmp\(` + itRem + `, ` + itCap + `\) < 0)$`},
		MPT{ID: "C19.MPT2", Fn: tplCl, Ret: core.RetFalse, Gates: gates(
			G(`-^len\(sched\.NewNodeClaimTemplate\(\$0\)\.InstanceTypeOptions\)>=1$`),
		), Note: "a NodePool is left out of the weight-ordered templates only if no instance type is compatible with it"},

		// ---- (7) what is handed to the winner's Add is the winner's own evaluation (not a lighter template's that
		// finished earlier): requirements and instance-type options are overwritten whenever the winner is
		POST{ID: "C19.POST5", Fn: newCl, FromLit: `+^` + newCan, Must: []string{won(`\[\]\*cloudprovider\.InstanceType`, "1")}, Excuse: []string{lost},
			Note: "the instance-type options recorded with a winning template are the ones its own CanAdd returned"},
		POST{ID: "C19.POST6", Fn: newCl, FromLit: `+^` + newCan, Must: []string{won(`scheduling\.Requirements`, "0")}, Excuse: []string{lost},
			Note: "the requirements recorded with a winning template are the ones its own CanAdd returned"},
		POST{ID: "C19.POST7", Fn: inCl, FromLit: `+^` + inCan, Must: []string{won(`\[\]\*cloudprovider\.InstanceType`, "1")}, Excuse: []string{lost}},
		POST{ID: "C19.POST8", Fn: inCl, FromLit: `+^` + inCan, Must: []string{won(`scheduling\.Requirements`, "0")}, Excuse: []string{lost}},

		// the candidate NodeClaim of piece i is built from template i (the index that is compared with the winning index is
		// the template's position in the weight order)
		core.Custom{ID: "C19.PROV8", Kind: "PROV", Run: func(w *core.World, id string) []core.Result {
			return core.ArgProvenance(w, id, newFn, `^call sched\.NewNodeClaim\(`, 0, `^\^\$0\.nodeClaimTemplates\[\$0\]$`, "the candidate of work piece i is built from nodeClaimTemplates[i]")
		}},
		// the winner becomes one of the scheduler's new NodeClaims: the charge on its pool's headroom stands for a claim that
		// is created, and later pods of the pass can join it instead of opening further claims against a shrinking headroom
		POST{ID: "C19.POST11", Fn: newFn, From: `^call \(\*sched\.NodeClaim\)\.Add\(`, Shallow: true,
			Must: []string{`^store \$0\.newNodeClaims = append\(\$0\.newNodeClaims, &local<\[1\]\*sched\.NodeClaim>\[:\]\)$`}},

		// ---- (8) the price-ordered, truncated list is what the NodeClaim of a dynamic pool carries to the provider
		POST{ID: "C19.POST9", Fn: tnc, FromLit: `-^\$0\.IsStaticNodeClaim$`, Must: []string{`^call ` + itReq},
			Note: "for a dynamic NodePool the instance-type requirement is always rebuilt from the price-ordered, truncated options"},
		POST{ID: "C19.POST10", Fn: tnc, From: `^call ` + itReq, Must: []string{addReq},
			Note: "…and intersected into the template's requirements"},
		DOM{ID: "C19.DOM4", Fn: tnc, Sink: `^call \(scheduling\.Requirements\)\.Values\(\$0\.Requirements\)$`, Gates: gates(
			G(`+^\$0\.IsStaticNodeClaim$`, `instr:`+addReq),
		), Note: "the requirements are serialized after the instance-type requirement was added"},
		core.Custom{ID: "C19.PROV7", Kind: "PROV", Run: func(w *core.World, id string) []core.Result {
			rs := core.InstrPresent(w, id, "PROV", tnc, `^store &local<apis/v1\.NodeClaim>\.Spec\.Requirements = \(scheduling\.Requirements\)\.NodeSelectorRequirements\(scheduling\.NewRequirements\(lo\.Filter\[\*scheduling\.Requirement, \[\]\*scheduling\.Requirement\]\(…, …\)\)\)$`, 1,
				"Spec.Requirements = serialization of the kept requirements")
			rs = append(rs, core.InstrPresent(w, id, "PROV", tnc, `^call lo\.Filter\[\*scheduling\.Requirement, \[\]\*scheduling\.Requirement\]\(\(scheduling\.Requirements\)\.Values\(\$0\.Requirements\), fn:`, 1, "kept from all of the template's requirements")...)
			const flt = "@arg:" + tnc + `|^call lo\.Filter\[\*scheduling\.Requirement, \[\]\*scheduling\.Requirement\]\(|1`
			rs = append(rs, core.InstrPresent(w, id, "PROV", flt, `^return !\(apim/util/sets\.Set\[string\]\)\.Has\(sched\.schedulingSimulationKeys, \$0\.Key\)$`, 1,
				"only simulation-only keys are dropped: the instance-type requirement reaches the NodeClaim")...)
			return rs
		}},
	}
}

// C19.PAR1: the work pieces are queued in ascending index order (0, 1, 2, …) by the only send of parallelizeUntil.
// Workers take pieces in queue order and finish every piece they took, so when a worker stops on a success at index i
// every index below i has been taken and is evaluated to the end before parallelizeUntil returns; any other order lets
// a lighter template win without the heavier ones having been tried.
func c19QueueOrder(w *core.World, id string) []core.Result {
	const par = "sched.parallelizeUntil"
	fn := w.Fn(par)
	if fn == nil {
		return []core.Result{core.Anchor(id, "PROV", par)}
	}
	construct := "PROV:" + par + ":queue-order"
	asc := regexp.MustCompile(`^send \S+ <- phi\(0\|\(phi↺ \+ 1\)\)$`)
	sends := w.SitesOr(fn, regexp.MustCompile(`^send `), true, 1)
	if len(sends) == 0 {
		return []core.Result{core.Bad(id, "PROV", construct, w.Pos(fn.Pos()), "vacuous: no channel send found in parallelizeUntil (the work queue idiom was not recognised)")}
	}
	good := map[ssa.Instruction]bool{}
	for _, s := range w.SitesOr(fn, asc, true, 1) {
		good[s] = true
	}
	var out []core.Result
	for _, s := range sends {
		if !good[s] {
			out = append(out, core.Bad(id, "PROV", construct, w.InstrPos(s), "work pieces are queued by `"+clipStr(w.RenderInstr(s), 100)+"`, not as the ascending loop index 0,1,2,…: a lighter template can be evaluated (and win) before a heavier one was taken"))
		}
	}
	if len(out) == 0 {
		out = append(out, core.OK(id, "PROV", construct, len(sends), "pieces are queued in ascending index order"))
	}
	return out
}

// C19.PAR3: a worker of parallelizeUntil reports completion (WaitGroup.Done) only when it leaves: deferred, or not
// followed by another call of the work function. Otherwise Wait returns while a piece is still being evaluated.
func c19WorkerDone(w *core.World, id string) []core.Result {
	const par = "sched.parallelizeUntil"
	fn := w.Fn(par)
	if fn == nil {
		return []core.Result{core.Anchor(id, "POST", par)}
	}
	construct := "POST:" + par + ":worker-done"
	var out []core.Result
	n := 0
	work := regexp.MustCompile(`^call dyn:`)
	for _, f := range core.WithClosures(fn) {
		if f == fn {
			continue
		}
		n += len(w.Sites(f, regexp.MustCompile(`^defer \(\*sync\.WaitGroup\)\.Done\(`), false))
		for _, d := range w.Sites(f, regexp.MustCompile(`^call \(\*sync\.WaitGroup\)\.Done\(`), false) {
			n++
			reach := core.Reach(d.Block().Succs, nil)
			for _, c := range w.Sites(f, work, false) {
				if reach[c.Block()] || c.Block() == d.Block() && c19After(d, c) {
					out = append(out, core.Bad(id, "POST", construct, w.InstrPos(d), "a worker signals WaitGroup.Done and can still evaluate a piece afterwards: parallelizeUntil may return (and the winner be read) while a heavier template is being evaluated"))
				}
			}
		}
	}
	n += len(w.Sites(fn, regexp.MustCompile(`^call \(\*sync\.WaitGroup\)\.Go\(`), true))
	if n == 0 {
		out = append(out, core.Bad(id, "POST", construct, w.Pos(fn.Pos()), "vacuous: no WaitGroup.Done / WaitGroup.Go in the workers of parallelizeUntil (completion idiom not recognised)"))
	}
	if len(out) == 0 {
		out = append(out, core.OK(id, "POST", construct, n, "workers report completion only when leaving"))
	}
	return out
}

func c19After(a, b ssa.Instruction) bool {
	for _, in := range a.Block().Instrs {
		if in == a {
			return true
		}
		if in == b {
			return false
		}
	}
	return false
}

func c19RulesBase(tier string) []Rule {
	const (
		cmpW = "@arg:utils/nodepool.OrderByWeight|^call sort\\.Slice\\(|1"
		pns  = "(*prov.Provisioner).NewScheduler"
	)
	wa := `lo\.FromPtr\[int32\]\(\^\$0\[\$0\]\.Spec\.Weight\)`
	wb := `lo\.FromPtr\[int32\]\(\^\$0\[\$1\]\.Spec\.Weight\)`
	na := `\^\$0\[\$0\]\.ObjectMeta\.Name`
	nb := `\^\$0\[\$1\]\.ObjectMeta\.Name`
	eq := `^` + wa + ` == ` + wb + `$`
	pools := `lo\.Filter\[\*apis/v1\.NodePool, \[\]\*apis/v1\.NodePool\]\(utils/nodepool\.ListManaged\(\$0\.kubeClient, \$0\.cloudProvider, nil\)#0, closure:\(\*prov\.Provisioner\)\.NewScheduler\$\d+\)`
	return []Rule{
		MPT{ID: "C19.ORD1a", Fn: cmpW, Ret: core.RetTrue, Gates: gates(
			G(`+`+eq, `+^`+wb+` < `+wa+`$`),
			G(`-`+eq, `+^`+nb+` < `+na+`$`),
		), Note: "less ⇒ (weights equal ∨ wa > wb) ∧ (weights differ ∨ name a > name b)"},
		MPT{ID: "C19.ORD1b", Fn: cmpW, Ret: core.RetFalse, Gates: gates(
			G(`+`+eq, `-^`+wb+` < `+wa+`$`),
			G(`-`+eq, `-^`+nb+` < `+na+`$`),
		)},
		core.Custom{ID: "C19.ORD1c", Kind: "PROV", Run: func(w *core.World, id string) []core.Result {
			return core.InstrPresent(w, id, "PROV", "utils/nodepool.OrderByWeight", `^call sort\.Slice\(<\[\]\*apis/v1\.NodePool>\$0, closure:utils/nodepool\.OrderByWeight\$1\)$`, 1, "the comparator indexes the slice being sorted")
		}},
		// ---- provisioner: same slice sorted and passed on
		core.Custom{ID: "C19.PROV1", Kind: "PROV", Run: func(w *core.World, id string) []core.Result {
			rs := core.ArgProvenance(w, id, pns, `^call utils/nodepool\.OrderByWeight\(`, 0, `^`+pools+`$`, "the NodePool slice sorted by weight is the filtered list")
			rs = append(rs, core.ArgProvenance(w, id, pns, `^call sched\.NewScheduler\(`, 2, `^`+pools+`$`, "scheduler.NewScheduler receives the sorted slice (same value)")...)
			rs = append(rs, core.ArgProvenance(w, id, pns, `^call sched\.NewTopology\(`, 4, `^`+pools+`$`, "NewTopology receives the sorted slice")...)
			// identity, not just equal rendering
			fn := w.Fn(pns)
			if fn != nil {
				var sorted, passed ssa.Value
				for _, s := range w.Sites(fn, regexp.MustCompile(`^call utils/nodepool\.OrderByWeight\(`), false) {
					sorted = s.(*ssa.Call).Call.Args[0]
				}
				for _, s := range w.Sites(fn, regexp.MustCompile(`^call sched\.NewScheduler\(`), false) {
					passed = s.(*ssa.Call).Call.Args[2]
				}
				if sorted == nil || passed == nil || sorted != passed {
					rs = append(rs, core.Bad(id, "PROV", "PROV:"+pns+":identity", w.Pos(fn.Pos()), "the slice sorted by OrderByWeight is not the same value as the one given to scheduler.NewScheduler (a copy is sorted or the list is rebuilt afterwards)"))
				}
			}
			return rs
		}},
		DOM{ID: "C19.PROV1b", Fn: pns, Sink: `^call sched\.NewScheduler\(`, Gates: gates(
			G(`instr:^call utils/nodepool\.OrderByWeight\(`),
		)},
		core.Custom{ID: "C19.PROV1c", Kind: "PROV", Run: func(w *core.World, id string) []core.Result {
			rs := core.InstrPresent(w, id, "PROV", "sched.NewScheduler", `^store &local<sched\.Scheduler>\.nodeClaimTemplates = lo\.FilterMap\[\*apis/v1\.NodePool, \*sched\.NodeClaimTemplate\]\(\$2, closure:sched\.NewScheduler\$\d+\)$`, 1, "templates are an order-preserving FilterMap over the NodePools handed in")
			// nothing reorders the templates afterwards
			rs = append(rs, noSortOf(w, id, "sched.NewScheduler", `nodeClaimTemplates|lo\.FilterMap\[\*apis/v1\.NodePool`)...)
			return rs
		}},
		WMC{ID: "C19.WMC1", Sink: `^store .*\.nodeClaimTemplates = `, Allowed: []string{"sched.NewScheduler"}, Required: []string{"sched.NewScheduler"}},

		// ---- first success wins
		core.Custom{ID: "C19.DOM1", Kind: "DOM", Run: func(w *core.World, id string) []core.Result {
			return c19FirstWins(w, id, "(*sched.Scheduler).addToExistingNode")
		}},
		core.Custom{ID: "C19.DOM2", Kind: "DOM", Run: func(w *core.World, id string) []core.Result {
			return c19FirstWins(w, id, "(*sched.Scheduler).addToInflightNode")
		}},
		core.Custom{ID: "C19.DOM3", Kind: "DOM", Run: func(w *core.World, id string) []core.Result {
			return c19FirstWins(w, id, "(*sched.Scheduler).addToNewNodeClaim")
		}},

		POST{ID: "C19.POST1", Fn: "@arg:(*sched.Scheduler).addToNewNodeClaim|^call sched\\.parallelizeUntil\\(|2", FromLit: `+^\(\*sched\.NodeClaim\)\.CanAdd\(sched\.NewNodeClaim\(.*\)#4 == nil$`,
			Must: []string{`^store \^&local<\*sched\.NodeClaim> = sched\.NewNodeClaim\(`}, Excuse: []string{`-^\$0 < \^&local<int>$`},
			Note: "a successful template evaluation is recorded unless a lower index (higher weight) already won: the first finisher does not shadow a heavier pool"},
		POST{ID: "C19.POST2", Fn: "@arg:(*sched.Scheduler).addToInflightNode|^call sched\\.parallelizeUntil\\(|2", FromLit: `+^\(\*sched\.NodeClaim\)\.CanAdd\(\^\$0\.newNodeClaims\[\$0\], .*\)#4 == nil$`,
			Must: []string{`^store \^\^\$0\.newNodeClaims\[\$0\] = \^\$0\.newNodeClaims\[\$0\]$`}, Excuse: []string{`-^\$0 < \^&local<int>$`}},
		POST{ID: "C19.POST3", Fn: "@arg:(*sched.Scheduler).addToExistingNode|^call sched\\.parallelizeUntil\\(|2", FromLit: `+^\(\*sched\.ExistingNode\)\.CanAdd\(\^\$0\.existingNodes\[\$0\], .*\)#2 == nil$`,
			Must: []string{`^store \^\^\$0\.existingNodes\[\$0\] = \^\$0\.existingNodes\[\$0\]$`}, Excuse: []string{`-^\$0 < \^&local<int>$`}},

		// ---- price order
		core.Custom{ID: "C19.PROV2", Kind: "PROV", Run: func(w *core.World, id string) []core.Result {
			rs := core.InstrPresent(w, id, "PROV", "(cloudprovider.InstanceTypes).Truncate", `^return lo\.Slice\[\*cloudprovider\.InstanceType, cloudprovider\.InstanceTypes\]\(\(cloudprovider\.InstanceTypes\)\.OrderByPrice\(\$0, \$2\), 0, \$3\), nil$`, 1,
				"Truncate returns the first maxItems of the price-ordered list")
			rs = append(rs, core.InstrPresent(w, id, "PROV", "(*sched.NodeClaimTemplate).ToNodeClaim",
				`^call lo\.Map\[\*cloudprovider\.InstanceType, string\]\(lo\.Slice\[\*cloudprovider\.InstanceType, cloudprovider\.InstanceTypes\]\(\(cloudprovider\.InstanceTypes\)\.OrderByPrice\(.*\.InstanceTypeOptions, .*\.Requirements\), 0, sched\.MaxInstanceTypes\), `, 1,
				"the instance-type requirement lists the first MaxInstanceTypes of the price-ordered options")...)
			rs = append(rs, core.InstrPresent(w, id, "PROV", "(cloudprovider.InstanceTypes).OrderByPrice", `^call sort\.Slice\(<cloudprovider\.InstanceTypes>\$0, closure:\(cloudprovider\.InstanceTypes\)\.OrderByPrice\$1\)$`, 1, "OrderByPrice sorts its receiver with its comparator")...)
			rs = append(rs, core.InstrPresent(w, id, "PROV", "(cloudprovider.InstanceTypes).OrderByPrice", `^return \$0$`, 1, "and returns it")...)
			return rs
		}},
		core.Custom{ID: "C19.ORD2", Kind: "ORD", Run: c19PriceCmp},
	}
}

// noSortOf: no in-place sorter is applied in fn to a value whose rendering matches what.
func noSortOf(w *core.World, id, fnName, what string) []core.Result {
	fn := w.Fn(fnName)
	if fn == nil {
		return []core.Result{core.Anchor(id, "PROV", fnName)}
	}
	re := regexp.MustCompile(`^call (sort\.(Slice|SliceStable|Sort|Stable)|slices\.(Sort|SortFunc|SortStableFunc|Reverse)\S*|lo\.(Shuffle|Reverse)\S*|math/rand\.Shuffle)\(.*(` + what + `)`)
	var out []core.Result
	for _, s := range w.Sites(fn, re, true) {
		out = append(out, core.Bad(id, "PROV", "PROV:"+fnName+":reorder", w.InstrPos(s), "the weight-ordered list is reordered: `"+clipStr(w.RenderInstr(s), 120)+"`"))
	}
	if len(out) == 0 {
		out = append(out, core.OK(id, "PROV", "PROV:"+fnName+":reorder", 1, "no reordering of the weight-ordered list"))
	}
	return out
}

// c19FirstWins: in the parallel closure of fnName every store to a captured variable is made with the local mutex held,
// under i < idx, and followed by idx = i.
func c19FirstWins(w *core.World, id, fnName string) []core.Result {
	fn := w.Fn(fnName)
	if fn == nil {
		return []core.Result{core.Anchor(id, "DOM", fnName)}
	}
	construct := "DOM:" + fnName + ":first-success-wins"
	var cl *ssa.Function
	for _, s := range w.Sites(fn, regexp.MustCompile(`^call sched\.parallelizeUntil\(`), false) {
		if mc, ok := s.(*ssa.Call).Call.Args[2].(*ssa.MakeClosure); ok {
			cl = mc.Fn.(*ssa.Function)
		}
	}
	if cl == nil {
		return []core.Result{core.Bad(id, "DOM", construct, w.Pos(fn.Pos()), "the parallel candidate evaluation (parallelizeUntil(..., closure)) was not found")}
	}
	lock := G(`instr:^call \(\*sync\.Mutex\)\.Lock\(\^&local<sync\.Mutex>\)$`)
	idx := G(`+^\$0 < \^&local<int>$`)
	var out []core.Result
	n := 0
	idxStores := 0
	for _, b := range cl.Blocks {
		for _, in := range b.Instrs {
			st, ok := in.(*ssa.Store)
			if !ok {
				continue
			}
			fv, ok := st.Addr.(*ssa.FreeVar)
			if !ok {
				continue
			}
			// only variables declared in the enclosing function (allocs), not the receiver/params spill slots
			bind := w.FreeVarBinding(fv)
			if a, ok := bind.(*ssa.Alloc); !ok || len(a.Comment) == 0 {
				continue
			}
			n++
			isIdx := strings.HasSuffix(w.Render(st.Addr), "&local<int>")
			if isIdx {
				idxStores++
				if w.Render(st.Val) != "$0" {
					out = append(out, core.Bad(id, "DOM", construct, w.InstrPos(st), "the winning index is set to `"+w.Render(st.Val)+"`, not to the candidate's own index"))
				}
			}
			for _, g := range []core.Gate{lock, idx} {
				if !w.GuardedBy(st, g) {
					out = append(out, core.Bad(id, "DOM", construct+"⇐"+g.Text, w.InstrPos(st),
						fmt.Sprintf("a shared result variable is written in %s without {%s}: a later (lower-priority) candidate can overwrite an earlier success, or two workers race", core.FnName(cl), g.Text)))
				}
			}
			if !isIdx {
				p := POST{ID: id, Fn: fnName, From: regexp.QuoteMeta(w.RenderInstr(st)), Must: []string{`^store \^&local<int> = \$0$`}}
				_ = p
				if bad, why := postAfter(w, cl, st, `^store \^&local<int> = \$0$`); bad {
					out = append(out, core.Bad(id, "DOM", construct+":idx", w.InstrPos(st), "a shared result variable is written without recording the winning index afterwards ("+why+")"))
				}
			}
		}
	}
	// the comparison with the winning index is itself made under the mutex (no check-then-act window)
	for _, b := range cl.Blocks {
		t, _, ok := w.BlockLits(b)
		if !ok || !strings.Contains(t.Expr, "^&local<int>") {
			continue
		}
		if !w.GuardedBy(b.Instrs[len(b.Instrs)-1], lock) {
			out = append(out, core.Bad(id, "DOM", construct+":check-then-act", w.InstrPos(b.Instrs[len(b.Instrs)-1]),
				"the winning index is compared outside the mutex in "+core.FnName(cl)+": two workers can both pass `i < idx` and the later one overwrites the earlier success"))
		}
	}
	if n < 2 || idxStores == 0 {
		out = append(out, core.Bad(id, "DOM", construct, w.Pos(cl.Pos()), fmt.Sprintf("vacuous: %d shared writes, %d index writes (idiom not recognised)", n, idxStores)))
	}
	// the defer of Unlock follows the Lock (no early unlock before the writes)
	if len(w.Sites(cl, regexp.MustCompile(`^call \(\*sync\.Mutex\)\.Unlock\(`), false)) > 0 {
		out = append(out, core.Bad(id, "DOM", construct+":unlock", w.Pos(cl.Pos()), "the mutex is released explicitly inside the closure; writes after it would be unprotected (expected `defer mu.Unlock()`)"))
	}
	if len(out) == 0 {
		out = append(out, core.OK(id, "DOM", construct, n, fmt.Sprintf("%d shared writes, all under the mutex, i < idx, followed by idx = i", n)))
	}
	return out
}

// postAfter: from instruction `from` every path to a return in fn executes an instruction matching re.
func postAfter(w *core.World, fn *ssa.Function, from ssa.Instruction, re string) (bool, string) {
	rx := regexp.MustCompile(re)
	b := from.Block()
	started := false
	for _, in := range b.Instrs {
		if in == from {
			started = true
			continue
		}
		if started {
			if _, ok := in.(*ssa.Store); ok && rx.MatchString(w.RenderInstr(in)) {
				return false, ""
			}
		}
	}
	seen := map[*ssa.BasicBlock]bool{}
	stack := append([]*ssa.BasicBlock{}, b.Succs...)
	if len(b.Succs) == 0 {
		return true, "function returns in the same block"
	}
	for len(stack) > 0 {
		x := stack[len(stack)-1]
		stack = stack[:len(stack)-1]
		if seen[x] {
			continue
		}
		seen[x] = true
		hit := false
		for _, in := range x.Instrs {
			if _, ok := in.(*ssa.Store); ok && rx.MatchString(w.RenderInstr(in)) {
				hit = true
				break
			}
		}
		if hit {
			continue
		}
		if len(x.Succs) == 0 {
			if _, isRet := x.Instrs[len(x.Instrs)-1].(*ssa.Return); isRet {
				return true, "return @" + w.InstrPos(x.Instrs[len(x.Instrs)-1])
			}
		}
		stack = append(stack, x.Succs...)
	}
	return false, ""
}

// C19.ORD2: OrderByPrice's comparator.
func c19PriceCmp(w *core.World, id string) []core.Result {
	const loc = "@arg:(cloudprovider.InstanceTypes).OrderByPrice|^call sort\\.Slice\\(|1"
	fn := w.Fn(loc)
	if fn == nil {
		return []core.Result{core.Anchor(id, "ORD", "comparator of OrderByPrice")}
	}
	construct := "ORD:(cloudprovider.InstanceTypes).OrderByPrice$cmp"
	var out []core.Result
	var cmp *ssa.BinOp
	for _, s := range w.ReturnSinks(fn, core.RetAny) {
		if bo, ok := s.Ret.Results[0].(*ssa.BinOp); ok {
			cmp = bo
		}
	}
	if cmp == nil {
		return []core.Result{core.Bad(id, "ORD", construct, w.Pos(fn.Pos()), "the comparator no longer returns a single comparison of two accumulated prices")}
	}
	x, y := cmp.X, cmp.Y
	switch cmp.Op {
	case token.LSS:
	case token.GTR:
		x, y = y, x
	default:
		return []core.Result{core.Bad(id, "ORD", construct, w.InstrPos(cmp), "the final comparison is `"+cmp.Op.String()+"`, expected iPrice < jPrice (cheapest first)")}
	}
	checkSide := func(side string, v ssa.Value) {
		fn := fn
		// the accumulation may have been extracted into a private helper (one per side, or one shared by both)
		if h, rv, leave, ok := w.EnterHelper(fn, v); ok {
			defer leave()
			fn, v = h, rv
		}
		phi, ok := v.(*ssa.Phi)
		if !ok {
			out = append(out, core.Bad(id, "ORD", construct, w.InstrPos(cmp), "price operand "+side+" is not a loop-accumulated minimum"))
			return
		}
		of := `\^\$0\[\$` + side + `\]\.Offerings\[.*\]`
		gs := []core.Gate{
			G(`+^` + of + `\.Available$`),
			G(`+^\(scheduling\.Requirements\)\.IsCompatible\(\^\$1, ` + of + `\.Requirements, `),
			G(`+^` + of + `\.Price < phi\(`),
		}
		nsrc := 0
		hasInit := false
		for i, e := range phi.Edges {
			r := w.Render(e)
			switch {
			case r == "1.79769e+308":
				hasInit = true
			case e == ssa.Value(phi) || strings.HasPrefix(r, "phi"):
			case regexp.MustCompile(`^` + of + `\.Price$`).MatchString(r):
				nsrc++
				pred := phi.Block().Preds[i]
				for _, g := range gs {
					if core.EdgeReachable(pred, phi.Block(), w.GateCut(fn, g)) {
						out = append(out, core.Bad(id, "ORD", construct+"⇐"+g.Text, w.InstrPos(phi), "the price of instance type $"+side+" takes an offering's price without {"+g.Text+"} (unavailable or incompatible offerings must not rank a type as cheap)"))
					}
				}
			default:
				out = append(out, core.Bad(id, "ORD", construct, w.InstrPos(phi), "unexpected price source `"+r+"` for side $"+side))
			}
		}
		if !hasInit || nsrc != 1 {
			out = append(out, core.Bad(id, "ORD", construct, w.InstrPos(phi), fmt.Sprintf("side $%s: expected MaxFloat64 start and one offering-price source, found init=%v sources=%d", side, hasInit, nsrc)))
		}
	}
	checkSide("0", x)
	checkSide("1", y)
	nOpt, nCompat := 0, 0
	w.WithHelpers(fn, func(f *ssa.Function, _ ssa.Instruction) {
		nOpt += len(w.Sites(f, regexp.MustCompile(`^store &local<\[1\]opkg/option\.Function\[scheduling\.CompatibilityOptions\]>\[0\] = scheduling\.AllowUndefinedWellKnownLabels$`), false))
		nCompat += len(w.Sites(f, regexp.MustCompile(`^call \(scheduling\.Requirements\)\.IsCompatible\(`), false))
	})
	if nCompat == 0 || nOpt != nCompat {
		out = append(out, core.Bad(id, "ORD", construct+":opts", w.Pos(fn.Pos()), "offering compatibility is no longer tested with AllowUndefinedWellKnownLabels on both sides"))
	}
	if len(out) == 0 {
		out = append(out, core.OK(id, "ORD", construct, 2, "min over available ∧ compatible offerings on each side, compared with <"))
	}
	return out
}
