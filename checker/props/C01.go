package props

import (
	"fmt"
	"regexp"
	"sort"
	"strings"

	"kverif/core"

	"golang.org/x/tools/go/ssa"
)

func init() {
	core.Register(&core.Property{
		ID:    "C01",
		Title: "Simulated placements are feasible on every launch option",
		Explanation: "Decides that the admission functions consult every constraint class on every success path and fail closed, and that relaxation only touches soft fields: " +
			"(1) ExistingNode.CanAdd succeeds only after taints tolerate, volume limits hold, host ports do not conflict, requests fit the remaining resources, the node's requirements are Compatible with the pod's under STRICT undefined-key semantics (no AllowUndefined option), " +
			"and tryVolumeAlternative succeeded (volume requirements compatible, topology.AddRequirements succeeded with the pod's strict requirements and the node's taints, topology requirements compatible); " +
			"(2) NodeClaim.CanAdd / tryVolumeAlternative succeed only after taints, pod requirements, volume requirements, topology, the instance-type filter and the reservation step all succeeded; " +
			"(3) filterInstanceTypesByRequirements keeps an instance type only if it is among the claim's options, its requirements intersect the claim's, fits() reports both 'fits' and 'has offering' for the total requests INCLUDING the group's daemon overhead, and the group's daemon host ports do not conflict; " +
			"fits() answers (true,true) only for an allocatable group that both fits the requests and has an offering compatible with the requirements; the offerings iterated are available ones; strict minValues empties the result; " +
			"(4) bookkeeping: both Add functions account the pod (requests merged / subtracted, requirements replaced by what CanAdd computed, host ports and volumes recorded); " +
			"(5) daemon overhead groups are built from isDaemonPodCompatible on a private copy of the daemonset pod (F8) and RequestsForPods of the compatible ones; " +
			"(6) relaxation: the only stores into a pod from the cone of Preferences.Relax are the audited soft-field writes; a required node-affinity term is dropped only when at least two remain; Solve hands trySchedule a DeepCopy; " +
			"(7) the two CanAdd cones contain no writer of scheduler, topology, node or usage state (they run in parallel and most results are discarded).",
		NotCovered: []string{
			"numeric correctness of resources.Fits / Merge / Subtract and of Compatible (C12 decides its structure)",
			"that the catalogue's allocatable and the state nodes' available resources are truthful",
			"node-side daemon compatibility uses the first required term only while the claim side relaxes OR-terms",
			"volume zone resolution (VolumeTopology) beyond the requirement being checked for compatibility",
		},
		Rules: c01Rules,
	})
}

func c01Rules(tier string) []Rule {
	// resource fit on an in-flight node is judged against StateNode.Allocatable()
	rules := append(c01RulesBase(tier), allocatableViewRules("C01")...)
	rules = append(rules, toleratesRules("C01")...)
	rules = append(rules, reservationCommitRules("C01")...)
	return append(rules, hostPortRules("C01")...)
}

func c01RulesBase(tier string) []Rule {
	const (
		en    = "(*sched.ExistingNode)."
		nc    = "(*sched.NodeClaim)."
		filt  = "sched.filterInstanceTypesByRequirements"
		fits  = "sched.fits"
		base  = `scheduling\.NewRequirements\(\(scheduling\.Requirements\)\.Values\(\$3\)\)`
		nbase = `scheduling\.NewRequirements\(\(scheduling\.Requirements\)\.Values\(\$4\)\)`
		it    = `\$4\[.*\]\.InstanceTypes\[.*\]`
	)
	strictOpt := `&local<\[1\]opkg/option\.Function\[scheduling\.CompatibilityOptions\]>\[:\]`
	return []Rule{
		// ---- (1) existing / in-flight nodes
		MPT{ID: "C01.MPT1", Fn: en + "CanAdd", Ret: core.RetNilConst, Min: 2, Gates: gates(
			G(`+^\(scheduling\.Taints\)\.ToleratesPod\(\$0\.cachedTaints, \$2\) == nil$`),
			G(`+^\(\*scheduling\.VolumeUsage\)\.ExceedsLimits\(\(\*state\.StateNode\)\.VolumeUsage\(\$0\.StateNode\), \$4\) == nil$`),
			G(`+^\(\*scheduling\.HostPortUsage\)\.Conflicts\(\(\*state\.StateNode\)\.HostPortUsage\(\$0\.StateNode\), \$2, scheduling\.GetHostPorts\(\$2\)\) == nil$`),
			G(`+^utils/resources\.Fits\(\$3\.Requests, \$0\.remainingResources\)$`),
			G(`+^\(scheduling\.Requirements\)\.Compatible\(\$0\.requirements, \$3\.Requirements, nil\) == nil$`),
			G(`+^\(\*sched\.ExistingNode\)\.tryVolumeAlternative\(\$0, \$2, \$3, scheduling\.NewRequirements\(\(scheduling\.Requirements\)\.Values\(\$0\.requirements\)\), .*\)#1 == nil$`),
			G(`-^\$3\.HasResourceClaimRequests$`, `+^\$5 == nil$`, `+^\(\*scheduling/dynamicresources\.Allocator\)\.Allocate\(\$5, .*, \$3\.ResourceClaims\)#1 == nil$`),
		), Note: "placement on a real node ⇒ taints, volume limits, host ports, resources, node selector/affinity (strict on undefined labels), volume zones and topology all passed"},
		MPT{ID: "C01.MPT2", Fn: en + "tryVolumeAlternative", Ret: core.RetOK, Gates: gates(
			G(`+^\$4 == nil$`, `+^\(scheduling\.Requirements\)\.Compatible\(`+base+`, \$4, nil\) == nil$`),
			G(`+^\(\*sched\.Topology\)\.AddRequirements\(\$0\.topology, \$1, \$0\.cachedTaints, \$2\.StrictRequirements, `+base+`, nil\)#1 == nil$`),
			G(`+^\(scheduling\.Requirements\)\.Compatible\(`+base+`, \(\*sched\.Topology\)\.AddRequirements\(.*\)#0, nil\) == nil$`),
		)},
		core.Custom{ID: "C01.PROV1", Kind: "PROV", Run: func(w *core.World, id string) []core.Result {
			f := en + "tryVolumeAlternative"
			rs := core.InstrPresent(w, id, "PROV", f, `^call \(scheduling\.Requirements\)\.Add\(`+base+`, \(scheduling\.Requirements\)\.Values\(\$4\)\)$`, 1, "the volume requirements narrow the node requirements")
			rs = append(rs, core.InstrPresent(w, id, "PROV", f, `^call \(scheduling\.Requirements\)\.Add\(`+base+`, \(scheduling\.Requirements\)\.Values\(\(\*sched\.Topology\)\.AddRequirements\(`, 1, "the topology requirements narrow the node requirements")...)
			rs = append(rs, core.InstrPresent(w, id, "PROV", f, `^return `+base+`, nil$`, 1, "the narrowed set is what is returned")...)
			rs = append(rs, core.InstrPresent(w, id, "PROV", en+"CanAdd", `^call \(scheduling\.Requirements\)\.Add\(scheduling\.NewRequirements\(\(scheduling\.Requirements\)\.Values\(\$0\.requirements\)\), \(scheduling\.Requirements\)\.Values\(\$3\.Requirements\)\)$`, 1, "the pod's requirements narrow a copy of the node's requirements")...)
			return rs
		}},

		// ---- (2) new NodeClaims
		MPT{ID: "C01.MPT3", Fn: nc + "CanAdd", Ret: core.RetNilConst, Gates: gates(
			G(`+^\(scheduling\.Taints\)\.ToleratesPod\(\$0\.NodeClaimTemplate\.NodeClaim\.Spec\.Taints, \$2\) == nil$`),
			G(`+^\(scheduling\.Requirements\)\.Compatible\(scheduling\.NewRequirements\(\(scheduling\.Requirements\)\.Values\(\$0\.NodeClaimTemplate\.Requirements\)\), \$3\.Requirements, `+strictOpt+`\) == nil$`),
			G(`+^\(\*sched\.NodeClaim\)\.tryVolumeAlternative\(\$0, \$2, \$3, scheduling\.NewRequirements\(\(scheduling\.Requirements\)\.Values\(\$0\.NodeClaimTemplate\.Requirements\)\), .*, \$4, \$5\)#4 == nil$`),
		)},
		MPT{ID: "C01.MPT4", Fn: nc + "tryVolumeAlternative", Ret: core.RetOK, Gates: gates(
			G(`+^\$5 == nil$`, `+^\(scheduling\.Requirements\)\.Compatible\(`+nbase+`, \$5, `+strictOpt+`\) == nil$`),
			G(`-^\$3\.HasResourceClaimRequests$`, `+^\$7 == nil$`, `+^\(\*scheduling/dynamicresources\.Allocator\)\.Allocate\(\$7, .*, \$3\.ResourceClaims\)#1 == nil$`),
			G(`-^\$3\.HasResourceClaimRequests$`, `+^\$7 == nil$`, `+^\(scheduling\.Requirements\)\.Compatible\(`+nbase+`, \(\*scheduling/dynamicresources\.Allocator\)\.Allocate\(.*\)#0\.Requirements, `+strictOpt+`\) == nil$`),
			G(`+^\(\*sched\.Topology\)\.AddRequirements\(\$0\.topology, \$2, \$0\.NodeClaimTemplate\.NodeClaim\.Spec\.Taints, \$3\.StrictRequirements, `+nbase+`, `+strictOpt+`\)#1 == nil$`),
			G(`+^\(scheduling\.Requirements\)\.Compatible\(`+nbase+`, \(\*sched\.Topology\)\.AddRequirements\(.*\)#0, `+strictOpt+`\) == nil$`),
			G(`+^sched\.filterInstanceTypesByRequirements\(\$0\.NodeClaimTemplate\.InstanceTypeOptions, `+nbase+`, \$2, \$3\.Requests, \$0\.daemonOverheadGroups, utils/resources\.Merge\(&local<\[2\]corev1\.ResourceList>\[:\]\), \$6\)#2 == nil$`),
			G(`+^\(\*sched\.NodeClaim\)\.offeringsToReserve\(\$0, .*\)#1 == nil$`),
		)},
		core.Custom{ID: "C01.PROV2", Kind: "PROV", Run: func(w *core.World, id string) []core.Result {
			f := nc + "tryVolumeAlternative"
			rs := core.InstrPresent(w, id, "PROV", f, `^store &local<\[2\]corev1\.ResourceList>\[0\] = \$0\.NodeClaimTemplate\.NodeClaim\.Spec\.Resources\.Requests$`, 1, "the requests tested = what is already on the claim…")
			rs = append(rs, core.InstrPresent(w, id, "PROV", f, `^store &local<\[2\]corev1\.ResourceList>\[1\] = \$3\.Requests$`, 1, "…plus this pod's")...)
			rs = append(rs, core.InstrPresent(w, id, "PROV", f, `^call \(scheduling\.Requirements\)\.Add\(`+nbase+`, \(scheduling\.Requirements\)\.Values\(\$5\)\)$`, 1, "volume requirements narrow the claim")...)
			rs = append(rs, core.InstrPresent(w, id, "PROV", f, `^call \(scheduling\.Requirements\)\.Add\(`+nbase+`, \(scheduling\.Requirements\)\.Values\(\(\*sched\.Topology\)\.AddRequirements\(`, 1, "topology requirements narrow the claim")...)
			rs = append(rs, core.InstrPresent(w, id, "PROV", f, `^return `+nbase+`, phi\(lo\.Filter\[\*cloudprovider\.InstanceType, cloudprovider\.InstanceTypes\]\(sched\.filterInstanceTypesByRequirements\(`, 1, "the narrowed requirements and the surviving instance types are returned")...)
			rs = append(rs, core.InstrPresent(w, id, "PROV", nc+"CanAdd", `^call \(scheduling\.Requirements\)\.Add\(scheduling\.NewRequirements\(\(scheduling\.Requirements\)\.Values\(\$0\.NodeClaimTemplate\.Requirements\)\), \(scheduling\.Requirements\)\.Values\(\$3\.Requirements\)\)$`, 1, "the pod's requirements narrow a copy of the claim's requirements")...)
			return rs
		}},

		// ---- (3) the instance-type filter
		DOM{ID: "C01.DOM1", Fn: filt, Sink: `^call append\(phi\(.*\), &local<\[1\]\*cloudprovider\.InstanceType>\[:\]\)$`, Gates: gates(
			G(`+^sched\.compatible\(`+it+`, \$1\)$`),
			G(`+^sched\.fits\(`+it+`, phi\(\$5\|utils/resources\.MergeInto\(utils/resources\.MergeInto\(…\), ….DaemonOverhead\)\), \$1\)#0$`),
			G(`+^sched\.fits\(`+it+`, phi\(\$5\|utils/resources\.MergeInto\(utils/resources\.MergeInto\(…\), ….DaemonOverhead\)\), \$1\)#1$`),
			G(`+^\(apim/util/sets\.Set\[\*cloudprovider\.InstanceType\]\)\.Has\(apim/util/sets\.New\[\*cloudprovider\.InstanceType\]\(\$0\), `+it+`\)$`),
			G(`+^\(\*scheduling\.HostPortUsage\)\.Conflicts\(\$4\[.*\]\.HostPortUsage, \$2, scheduling\.GetHostPorts\(\$2\)\) == nil$`),
		), Note: "an instance type survives only if eligible, compatible, fitting WITH daemon overhead, offered, and free of daemon host-port conflicts"},
		core.Custom{ID: "C01.PROV3", Kind: "PROV", Run: func(w *core.World, id string) []core.Result {
			rs := core.InstrPresent(w, id, "PROV", filt, `^call utils/resources\.MergeInto\(utils/resources\.MergeInto\(nil, \$5\), \$4\[.*\]\.DaemonOverhead\)$`, 1, "requests tested = total requests + the group's daemon overhead")
			rs = append(rs, core.InstrPresent(w, id, "PROV", filt, `^store &local<\[1\]\*cloudprovider\.InstanceType>\[0\] = `+it+`$`, 1, "the instance type kept is the one tested")...)
			rs = append(rs, core.InstrPresent(w, id, "PROV", "sched.compatible", `^return \(\(scheduling\.Requirements\)\.Intersects\(\$0\.Requirements, \$1\) == nil\)$`, 1, "compatible ⇔ the instance type's requirements intersect the claim's")...)
			return rs
		}},
		MPT{ID: "C01.MPT5", Fn: filt, Ret: core.RetOK, Gates: gates(
			G(`+^len\(phi\(.*\)\)>=1$`),
		), Note: "success ⇒ something survived"},
		core.Custom{ID: "C01.PHI1", Kind: "PROV", Run: c01StrictMinValues},
		MPT{ID: "C01.MPT6", Fn: fits, Ret: core.RetSpec{Index: 0, Want: "true"}, Gates: gates(
			G(`+^utils/resources\.Fits\(\$1, \(\*cloudprovider\.InstanceType\)\.AllocatableOfferingsList\(\$0\)\[.*\]\.Allocatable\)$`),
			G(`+^\(scheduling\.Requirements\)\.IsCompatible\(\$2, \(\*cloudprovider\.InstanceType\)\.AllocatableOfferingsList\(.*\)\[.*\]\.Offerings\[.*\]\.Requirements, `+strictOpt+`\)$`),
		), Note: "fits ⇒ one allocatable group both holds the requests and has a compatible offering"},
		core.Custom{ID: "C01.PROV4", Kind: "PROV", Run: c01FitsShape},
		DOM{ID: "C01.DOM2", Fn: "(*cloudprovider.InstanceType).groupOfferingsByOverride", Sink: `^call append\(makemap<map\[cloudprovider\.overrideKey\]\*cloudprovider\.AllocatableOfferings>\[.*\]\.Offerings, `, Min: 2, Gates: gates(G(`+^\$0\.Offerings\[.*\]\.Available$`)), Note: "override groups only hold available offerings"},
		core.Custom{ID: "C01.PROV5", Kind: "PROV", Run: func(w *core.World, id string) []core.Result {
			rs := core.InstrPresent(w, id, "PROV", "(*cloudprovider.InstanceType).precompute", `^store &local<cloudprovider\.AllocatableOfferings>\.Offerings = \(cloudprovider\.Offerings\)\.Available\(\$0\.Offerings\)$|^store \S+\.Offerings = \(cloudprovider\.Offerings\)\.Available\(\$0\.Offerings\)$`, 1, "the base group holds the available offerings")
			rs = append(rs, core.InstrPresent(w, id, "PROV", "(*cloudprovider.InstanceType).AllocatableOfferingsList", `^return \$0\.allocatableOfferings$`, 1, "…and is what fits() iterates")...)
			return rs
		}},

		// volume topology: the requirements of several volumes narrow each other (intersection), never overwrite
		core.Custom{ID: "C01.PROV9", Kind: "PROV", Run: func(w *core.World, id string) []core.Result {
			const m = "sched.mergeVolumeRequirements"
			rs := core.InstrPresent(w, id, "PROV", m, `^call \(scheduling\.Requirements\)\.Add\(scheduling\.NewRequirements\(nil\), \(scheduling\.Requirements\)\.Values\(\$0\)\)$`, 1, "the requirements accumulated so far are added (Requirements.Add intersects per key)")
			rs = append(rs, core.InstrPresent(w, id, "PROV", m, `^call \(scheduling\.Requirements\)\.Add\(scheduling\.NewRequirements\(nil\), \(scheduling\.Requirements\)\.Values\(\$1\)\)$`, 1, "…and the next volume's requirements are added to the same fresh set")...)
			rs = append(rs, core.InstrPresent(w, id, "PROV", m, `^return scheduling\.NewRequirements\(nil\)$`, 1, "the fresh, narrowed set is returned")...)
			return rs
		}},
		DOM{ID: "C01.DOM5", Fn: "sched.mergeVolumeRequirements", Sink: `^return`, Gates: gates(
			G(`instr:^call \(scheduling\.Requirements\)\.Add\(scheduling\.NewRequirements\(nil\), \(scheduling\.Requirements\)\.Values\(\$1\)\)$`),
			G(`+^\$0 == nil$`, `instr:^call \(scheduling\.Requirements\)\.Add\(scheduling\.NewRequirements\(nil\), \(scheduling\.Requirements\)\.Values\(\$0\)\)$`),
		)},

		// ---- (4) bookkeeping on commit
		core.Custom{ID: "C01.PROV6", Kind: "PROV", Run: func(w *core.World, id string) []core.Result {
			add := en + "Add"
			rs := core.InstrPresent(w, id, "PROV", add, `^call utils/resources\.SubtractFrom\(\$0\.remainingResources, \$3\.Requests\)$`, 1, "the pod's requests leave the node's remaining resources")
			rs = append(rs, core.InstrPresent(w, id, "PROV", add, `^store \$0\.requirements = \$4$`, 1, "the node's requirements become what CanAdd computed")...)
			rs = append(rs, core.InstrPresent(w, id, "PROV", add, `^call \(\*scheduling\.HostPortUsage\)\.Add\(\(\*state\.StateNode\)\.HostPortUsage\(\$0\.StateNode\), \$2, scheduling\.GetHostPorts\(\$2\)\)$`, 1, "host ports are recorded")...)
			rs = append(rs, core.InstrPresent(w, id, "PROV", add, `^call \(\*scheduling\.VolumeUsage\)\.Add\(\(\*state\.StateNode\)\.VolumeUsage\(\$0\.StateNode\), \$2, \$5\)$`, 1, "volumes are recorded")...)
			rs = append(rs, core.InstrPresent(w, id, "PROV", add, `^store \$0\.Pods = append\(\$0\.Pods, &local<\[1\]\*corev1\.Pod>\[:\]\)$`, 1, "the pod is listed")...)
			return rs
		}},

		// ---- (5) daemon overhead
		core.Custom{ID: "C01.WSET1", Kind: "WSET", Run: c01DaemonPodUntouched},
		MPT{ID: "C01.MPT7", Fn: "(*sched.NodeClaimTemplate).isDaemonPodCompatible", Ret: core.RetTrue, Gates: gates(
			G(`+^\(scheduling\.Taints\)\.ToleratesPod\(\$0\.NodeClaim\.Spec\.Taints, \(\*corev1\.Pod\)\.DeepCopy\(\$2\)\) == nil$`),
			G(`+^\(scheduling\.Requirements\)\.IsCompatible\(\$0\.Requirements, scheduling\.NewStrictPodRequirements\(\(\*corev1\.Pod\)\.DeepCopy\(\$2\)\), `+strictOpt+`\)$`),
			G(`+^\(scheduling\.Requirements\)\.Intersects\(\$1\.Requirements, scheduling\.NewStrictPodRequirements\(\(\*corev1\.Pod\)\.DeepCopy\(\$2\)\)\) == nil$`),
		), Note: "a daemon counts for an instance type only if it tolerates the template and is compatible with template and instance type"},
		core.Custom{ID: "C01.PROV7", Kind: "PROV", Run: func(w *core.World, id string) []core.Result {
			b := "sched.buildDaemonOverheadGroups"
			rs := core.InstrPresent(w, id, "PROV", b, `^call utils/resources\.RequestsForPods\(lo\.Filter\[\*corev1\.Pod, \[\]\*corev1\.Pod\]\(\^\$2, closure:`, 1, "a group's overhead = requests of its compatible daemon pods")
			rs = append(rs, core.InstrPresent(w, id, "PROV", b, `^call \(\*sched\.NodeClaimTemplate\)\.isDaemonPodCompatible\(\^\$0, \^\$0\.InstanceTypeOptions\[.*\], \$0\)$`, 1, "compatibility is evaluated per template, instance type and daemon pod")...)
			return rs
		}},

		// ---- (6) relaxation
		core.Custom{ID: "C01.WSET2", Kind: "WSET", Run: c01RelaxWrites},
		DOM{ID: "C01.DOM3", Fn: "(*sched.Preferences).removeRequiredNodeAffinityTerm", Sink: `^store \$1\.Spec\.Affinity\.NodeAffinity\.RequiredDuringSchedulingIgnoredDuringExecution\.NodeSelectorTerms = `, Gates: gates(
			G(`+^len\(\$1\.Spec\.Affinity\.NodeAffinity\.RequiredDuringSchedulingIgnoredDuringExecution\.NodeSelectorTerms\)>=2$`),
		), Note: "the last required term is never dropped"},
		DOM{ID: "C01.DOM4", Fn: "(*sched.Preferences).removeTopologySpreadScheduleAnyway", Sink: `^store \$1\.Spec\.TopologySpreadConstraints(\[.*\])? = \$1\.Spec\.TopologySpreadConstraints\[:?\(len\(`, Min: 2, Gates: gates(
			G(`+^\$1\.Spec\.TopologySpreadConstraints\[.*\]\.WhenUnsatisfiable == "ScheduleAnyway"$`),
		), Note: "only ScheduleAnyway spread constraints are dropped"},
		core.Custom{ID: "C01.PROV8", Kind: "PROV", Run: func(w *core.World, id string) []core.Result {
			rs := core.ArgProvenance(w, id, "(*sched.Scheduler).Solve", `^call \(\*sched\.Scheduler\)\.trySchedule\(`, 2, `^\(\*corev1\.Pod\)\.DeepCopy\(`, "relaxation works on a copy; the queued pod keeps its constraints")
			rs = append(rs, core.InstrPresent(w, id, "PROV", "(*sched.Preferences).toleratePreferNoScheduleTaints", `^store &local<corev1\.Toleration>\.Effect = "PreferNoSchedule"$`, 1, "the only toleration ever added is for PreferNoSchedule")...)
			rs = append(rs, core.InstrPresent(w, id, "PROV", "(*sched.Preferences).toleratePreferNoScheduleTaints", `^store &local<corev1\.Toleration>\.Operator = "Exists"$`, 1, "")...)
			return rs
		}},

		// ---- (7) parallel evaluation is read-only
		core.Custom{ID: "C01.CONE1", Kind: "CONE", Run: c01ReadOnlyCanAdd},
	}
}

// C01.PROV4: fits() — the offerings tested are those of the same allocatable group whose Allocatable was tested, and the
// only way to answer "fits" is the (true,true) return.
func c01FitsShape(w *core.World, id string) []core.Result {
	const fnName = "sched.fits"
	fn := w.Fn(fnName)
	if fn == nil {
		return []core.Result{core.Anchor(id, "PROV", fnName)}
	}
	construct := "PROV:" + fnName
	var out []core.Result
	n := 0
	for _, b := range fn.Blocks {
		if len(b.Instrs) == 0 || (len(b.Preds) == 0 && b.Index != 0) {
			continue
		}
		ret, ok := b.Instrs[len(b.Instrs)-1].(*ssa.Return)
		if !ok {
			continue
		}
		n++
		r := w.RenderInstr(ret)
		switch {
		case r == "return true, true":
		case strings.HasPrefix(r, "return false, "):
		default:
			out = append(out, core.Bad(id, "PROV", construct, w.InstrPos(ret), "fits() has a return that is neither `true, true` (same group fits and is offered) nor `false, …`: `"+clipStr(r, 80)+"` — 'fits' may now be concluded from different groups"))
		}
	}
	// group identity: the index used for .Allocatable and for .Offerings is the same SSA value
	var allocIdx, offIdx []ssa.Value
	for _, b := range fn.Blocks {
		for _, in := range b.Instrs {
			fa, ok := in.(*ssa.FieldAddr)
			if !ok {
				continue
			}
			ia, ok := fa.X.(*ssa.IndexAddr)
			if !ok {
				// the group may be spilled to a local first
				continue
			}
			name := fieldName(fa)
			if name == "Allocatable" {
				allocIdx = append(allocIdx, ia.Index)
			}
			if name == "Offerings" {
				offIdx = append(offIdx, ia.Index)
			}
		}
	}
	if n < 2 {
		out = append(out, core.Bad(id, "PROV", construct, w.Pos(fn.Pos()), "vacuous: returns not found"))
	}
	for _, a := range allocIdx {
		for _, o := range offIdx {
			if a != o {
				out = append(out, core.Bad(id, "PROV", construct, w.Pos(fn.Pos()), "Allocatable and Offerings are read from different allocatable groups"))
			}
		}
	}
	if len(out) == 0 {
		out = append(out, core.OK(id, "PROV", construct, n, "returns are (true,true) | (false,·); allocatable and offerings come from the same group"))
	}
	return out
}

func fieldName(fa *ssa.FieldAddr) string { return core.FieldNameOf(fa) }

// C01.WSET1 (F8): nothing reachable from buildDaemonOverheadGroups writes through the shared daemonset pods: the pod
// mutators of Preferences are only applied to a DeepCopy made in isDaemonPodCompatible.
func c01DaemonPodUntouched(w *core.World, id string) []core.Result {
	const fnName = "(*sched.NodeClaimTemplate).isDaemonPodCompatible" // a plain function whose first parameter is the template: canonical method-style name
	fn := w.Fn(fnName)
	if fn == nil {
		return []core.Result{core.Anchor(id, "WSET", fnName)}
	}
	construct := "WSET:" + fnName + ":daemon-pod"
	re := regexp.MustCompile(`^call \(\*sched\.Preferences\)\.(\w+)\(`)
	var out []core.Result
	n := 0
	for _, s := range w.Sites(fn, re, true) {
		n++
		call := s.(*ssa.Call)
		arg := call.Call.Args[len(call.Call.Args)-1]
		if !regexp.MustCompile(`^\(\*corev1\.Pod\)\.DeepCopy\(\$2\)$`).MatchString(w.Render(arg)) {
			out = append(out, core.Bad(id, "WSET", construct, w.InstrPos(s), "a relaxation mutator is applied to the shared daemonset pod (`"+clipStr(w.Render(arg), 60)+"`), not to a copy: terms consumed for one instance type are gone for the next (F8)"))
		}
	}
	// and the function itself never stores through its pod parameter
	for _, in := range w.StructFieldStores(core.WithClosures(fn), c01PodTypes) {
		if root, _ := w.AddrRoot(c01Addr(in)); root != nil {
			if p, ok := root.(*ssa.Parameter); ok && p.Name() != "" && w.Render(p) == "$2" {
				out = append(out, core.Bad(id, "WSET", construct, w.InstrPos(in), "isDaemonPodCompatible writes into the daemonset pod it was handed"))
			}
		}
	}
	if n < 2 {
		return []core.Result{core.Bad(id, "WSET", construct, w.Pos(fn.Pos()), fmt.Sprintf("vacuous: %d mutator calls found, 2 confirmed by hand", n))}
	}
	if len(out) == 0 {
		out = append(out, core.OK(id, "WSET", construct, n, "mutators run on (*Pod).DeepCopy($2) only"))
	}
	return out
}

var c01PodTypes = map[string]bool{"corev1.Pod": true, "corev1.PodSpec": true, "corev1.Affinity": true, "corev1.NodeAffinity": true, "corev1.PodAffinity": true,
	"corev1.PodAntiAffinity": true, "corev1.NodeSelector": true, "corev1.NodeSelectorTerm": true, "corev1.TopologySpreadConstraint": true, "corev1.ResourceRequirements": true,
	"corev1.Container": true, "metav1.ObjectMeta": true, "corev1.Toleration": true, "corev1.PodStatus": true}

func c01Addr(in ssa.Instruction) ssa.Value {
	switch x := in.(type) {
	case *ssa.Store:
		return x.Addr
	case *ssa.MapUpdate:
		return x.Map
	case ssa.CallInstruction:
		if len(x.Common().Args) > 0 {
			return x.Common().Args[0]
		}
	}
	return nil
}

// C01.WSET2: every store into a pod made from the cone of Preferences.Relax is one of the audited soft-field writes.
func c01RelaxWrites(w *core.World, id string) []core.Result {
	root := w.Fn("(*sched.Preferences).Relax")
	if root == nil {
		return []core.Result{core.Anchor(id, "WSET", "(*sched.Preferences).Relax")}
	}
	_, order := w.Cone([]*ssa.Function{root}, nil)
	allowed := []struct{ re, why string }{
		{`^store \$1\.Spec\.Affinity\.NodeAffinity\.PreferredDuringSchedulingIgnoredDuringExecution = \$1\.Spec\.Affinity\.NodeAffinity\.PreferredDuringSchedulingIgnoredDuringExecution\[1:\]$`, "drop one preferred node-affinity term"},
		{`^store \$1\.Spec\.Affinity\.PodAffinity\.PreferredDuringSchedulingIgnoredDuringExecution = \$1\.Spec\.Affinity\.PodAffinity\.PreferredDuringSchedulingIgnoredDuringExecution\[1:\]$`, "drop one preferred pod-affinity term"},
		{`^store \$1\.Spec\.Affinity\.PodAntiAffinity\.PreferredDuringSchedulingIgnoredDuringExecution = \$1\.Spec\.Affinity\.PodAntiAffinity\.PreferredDuringSchedulingIgnoredDuringExecution\[1:\]$`, "drop one preferred pod-anti-affinity term"},
		{`^store \$1\.Spec\.Affinity\.NodeAffinity\.RequiredDuringSchedulingIgnoredDuringExecution\.NodeSelectorTerms = \$1\.Spec\.Affinity\.NodeAffinity\.RequiredDuringSchedulingIgnoredDuringExecution\.NodeSelectorTerms\[1:\]$`, "drop one OR-ed required term (C01.DOM3: only when ≥2)"},
		{`^store \$1\.Spec\.TopologySpreadConstraints\[.*\] = \$1\.Spec\.TopologySpreadConstraints\[\(len\(\$1\.Spec\.TopologySpreadConstraints\) - 1\)\]$`, "swap-remove a ScheduleAnyway spread constraint (C01.DOM4)"},
		{`^store \$1\.Spec\.TopologySpreadConstraints = \$1\.Spec\.TopologySpreadConstraints\[:\(len\(\$1\.Spec\.TopologySpreadConstraints\) - 1\)\]$`, "…and shrink the slice"},
		{`^store \$1\.Spec\.Tolerations = append\(\$1\.Spec\.Tolerations, &local<\[1\]corev1\.Toleration>\[:\]\)$`, "append the PreferNoSchedule toleration"},
	}
	var res []*regexp.Regexp
	for _, a := range allowed {
		res = append(res, regexp.MustCompile(a.re))
	}
	seen := map[int]bool{}
	var out []core.Result
	n := 0
	for _, in := range w.StructFieldStores(order, c01PodTypes) {
		n++
		r := w.RenderInstr(in)
		ok := false
		for i, re := range res {
			if re.MatchString(r) {
				ok = true
				seen[i] = true
			}
		}
		if !ok {
			out = append(out, core.Bad(id, "WSET", "WSET:Relax:"+core.FnName(core.RootFn(in.Parent())), w.InstrPos(in), "relaxation writes a pod field outside the audited soft-constraint set: `"+clipStr(r, 140)+"`"))
		}
	}
	var missing []string
	for i, a := range allowed {
		if !seen[i] {
			missing = append(missing, a.why)
		}
	}
	if len(missing) > 0 {
		sort.Strings(missing)
		out = append(out, core.Bad(id, "WSET", "WSET:Relax:inventory", w.Pos(root.Pos()), fmt.Sprintf("audited relaxation writes no longer found (idiom changed, re-audit): %v", missing)))
	}
	if len(out) == 0 {
		out = append(out, core.OK(id, "WSET", "WSET:Relax", n, fmt.Sprintf("%d stores into the pod in a cone of %d functions, all audited", n, len(order))))
	}
	return out
}

// C01.CONE1: both CanAdd cones are free of writers of scheduler / topology / node / usage state.
func c01ReadOnlyCanAdd(w *core.World, id string) []core.Result {
	writers := w.ReceiverWriters("sched.Scheduler", "sched.Topology", "sched.TopologyGroup", "sched.TopologyDomainGroup", "sched.ExistingNode", "sched.NodeClaim", "sched.NodeClaimTemplate",
		"scheduling.HostPortUsage", "scheduling.VolumeUsage", "state.StateNode", "sched.ReservationManager")
	if len(writers) < 20 {
		return []core.Result{core.Bad(id, "CONE", "CONE:scheduler-state-writers", "", fmt.Sprintf("vacuous: only %d writer methods derived", len(writers)))}
	}
	var out []core.Result
	for _, rootName := range []string{"(*sched.NodeClaim).CanAdd", "(*sched.ExistingNode).CanAdd"} {
		root := w.Fn(rootName)
		if root == nil {
			out = append(out, core.Anchor(id, "CONE", rootName))
			continue
		}
		construct := "CONE:" + rootName + "↛scheduler-state-writers"
		parent, order := w.Cone([]*ssa.Function{root}, nil)
		bad := 0
		for _, f := range order {
			if why, ok := writers[f]; ok {
				bad++
				out = append(out, core.Bad(id, "CONE", construct+":"+core.FnName(f), w.Pos(f.Pos()),
					fmt.Sprintf("%s runs concurrently for many candidates and most results are discarded, but it reaches %s which writes shared scheduling state (%s); path: %s", rootName, core.FnName(f), clipStr(why, 90), core.PathTo(parent, f))))
			}
		}
		if len(order) < 20 {
			out = append(out, core.Bad(id, "CONE", construct, w.Pos(root.Pos()), fmt.Sprintf("vacuous: cone has only %d functions", len(order))))
		} else if bad == 0 {
			out = append(out, core.OK(id, "CONE", construct, len(order), fmt.Sprintf("%d functions in the cone, none of the %d derived writers", len(order), len(writers))))
		}
	}
	return out
}

// C01.PHI1: when minValues cannot be met and the policy is strict (the edge on which relaxMinValues is false), the
// surviving list that the final emptiness test and the return use is nil.
func c01StrictMinValues(w *core.World, id string) []core.Result {
	const fnName = "sched.filterInstanceTypesByRequirements"
	fn := w.Fn(fnName)
	if fn == nil {
		return []core.Result{core.Anchor(id, "PROV", fnName)}
	}
	construct := "PROV:" + fnName + ":strict-minValues"
	pat := core.MustLitPat(`-^\$6$`)
	n := 0
	var out []core.Result
	for _, b := range fn.Blocks {
		t, f, ok := w.BlockLits(b)
		if !ok || len(b.Succs) != 2 {
			continue
		}
		for i, l := range []core.Lit{t, f} {
			if !pat.Match(l) {
				continue
			}
			// the strict edge must be dominated by "minValues not satisfiable"
			cut := w.GateCut(fn, G(`-^&local<sched\.InstanceTypeFilterError>\.minValuesIncompatibleErr == nil$`))
			if core.EdgeReachable(b, b.Succs[i], cut) {
				continue // not the edge of interest
			}
			n++
			mid := b.Succs[i]
			if len(mid.Succs) != 1 {
				out = append(out, core.Result{ID: id, Kind: "PROV", Construct: construct, Status: core.Undecided, Pos: w.Pos(fn.Pos()), Msg: "strict-policy branch is not a simple assignment (idiom not recognised)"})
				continue
			}
			join := mid.Succs[0]
			idx := -1
			for k, p := range join.Preds {
				if p == mid {
					idx = k
				}
			}
			found := false
			for _, in := range join.Instrs {
				phi, ok := in.(*ssa.Phi)
				if !ok {
					break
				}
				if !strings.Contains(phi.Type().String(), "InstanceType") {
					continue
				}
				found = true
				if c, ok := phi.Edges[idx].(*ssa.Const); !ok || !c.IsNil() {
					out = append(out, core.Bad(id, "PROV", construct, w.InstrPos(mid.Instrs[len(mid.Instrs)-1]), "under the strict minValues policy the instance types that violate minValues are kept (`"+clipStr(w.RenderD(phi.Edges[idx], 3), 60)+"`) instead of being dropped"))
				}
			}
			if !found {
				out = append(out, core.Bad(id, "PROV", construct, w.Pos(fn.Pos()), "under the strict minValues policy the surviving list is not reset"))
			}
		}
	}
	if n != 1 {
		return []core.Result{core.Bad(id, "PROV", construct, w.Pos(fn.Pos()), fmt.Sprintf("expected one strict-policy edge under 'minValues incompatible', found %d", n))}
	}
	if len(out) == 0 {
		out = append(out, core.OK(id, "PROV", construct, 1, "strict ∧ incompatible ⇒ remaining = nil"))
	}
	return out
}
