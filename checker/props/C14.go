package props

import (
	"golang.org/x/tools/go/ssa"
	"fmt"
	"regexp"
	"strings"

	"kverif/core"
)

func init() {
	core.Register(&core.Property{
		ID:    "C14",
		Title: "A NodeClaim launches one instance and its lifecycle moves forward",
		Explanation: "Decides: (1) who may call CloudProvider.Create (Launch.launchNodeClaim plus forwarding decorators) and who may call launchNodeClaim (Launch.Reconcile only); " +
			"(2) that call is dominated by Launched=Unknown and a miss in the launch cache, every successful create is stored in the cache before any return and before Launched is set; " +
			"(3) the sub-reconcilers run only after AddFinalizer and (if it changed the object) a successful Patch, in the order launch, registration, initialization, liveness; " +
			"(4) each of Launched/Registered/Initialized is set true at exactly one site, dominated by its observable preconditions (all literals listed in the rows); " +
			"(5) capacity errors lead to Delete of the NodeClaim on every path and never to a returned instance; the error of Create is put to both capacity classifiers on every path before launchNodeClaim is left " +
			"(a capacity error wrapped in a CreateError or any other error is still recognised: no case that matches a wrapper comes first), and a nil error is answered only after a successful create or such a classification; " +
			"(6) Registration / Initialization stay behind Launch through the node lookup: utils/nodeclaim.NodeForNodeClaim hands back a Node only for a NodeClaim whose Status.ProviderID is non-empty " +
			"(tested in the function, in a private helper, or in AllNodesForNodeClaim whose list it takes the Node from); " +
			"(7) what the sub-reconcilers decided is persisted: after them Controller.Reconcile answers 'no error' only if the NodeClaim equals the deep copy taken before them, a write failed, " +
			"or the status patch succeeded (MPT9), and that patch sends a deep copy taken after the sub-reconcilers and before the metadata patch, diffed against the very copy compared with, taken before them (PROV5, by SSA identity); " +
			"(8) Launched=True is set only after Status.ProviderID was taken from the created instance (DOM1d); " +
			"(9) registration hooks: every hook is asked about this NodeClaim and both answers are kept (PROV3); a hook that failed or answered non-empty is counted pending, and a pending hook that did not fail " +
			"leaves a non-empty merged Result (its Requeue or-ed in, its RequeueAfter taken when none was taken yet) - Registration.Reconcile recognises 'not ready' by nothing else (ITER2); " +
			"(10) 'synced': when the hooks are ready the Node is synced again from the NodeClaim before it is marked (POST4); syncNode merges the NodeClaim's taints and startup taints into the Node's unless the Node carries " +
			"karpenter.sh/do-not-sync-taints=true (POST5a/b) and lays the NodeClaim's labels and annotations over the Node's (PROV4); " +
			"(11) Initialization writes to the Node only under the preconditions of Initialized (DOM4b); Initialized=True is set only after the initialized label was put on the Node found and that Node " +
			"either equals the deep copy taken before or was patched successfully (DOM4c); " +
			"(12) the DRA precondition: draDriverPoolsPublished answers true only if DRA is ignored, nothing is requested, or DRADriversPublished(nodeClaim, slices of this node) does (MPT10); DRADriversPublished never answers true after a " +
			"requested driver was found without complete pool and only after all were looked at (IMPL7, MPT11); a driver has a complete pool only if observed == declared slice count (DOM7); only slices for which " +
			"sliceBelongsToNode(slice, node.Name) holds are counted, and that holds only by spec.nodeName or an owner reference of kind Node and that name (DOM8, MPT12).",
		NotCovered: []string{"whether a cloud provider wraps its capacity errors such that errors.As finds them (the classifiers' contract, C14.ERRC1/2, is what is decided)", "that a Node with a non-empty provider id equal to the NodeClaim's belongs to the instance that was launched (the provider's uniqueness of ids)",
			"duplicate launches across controller restarts (the cache is in memory; the property says 'while the controller keeps running')", "idempotence of the provider", "freshness of the informer cache beyond the launch cache bridge",
			"the arithmetic of completePoolDrivers (which generation a slice is counted for, resetting the count on a newer generation): only the final comparison observed == declared is decided",
			"that the merged hook Result is the *shortest* interval (requeue timing); that an error of kubeClient.Delete after a capacity error is returned (progress: liveness deletes the NodeClaim)",
			"the order of the deep copies relative to statements other than the sub-reconciler calls and the metadata patch; owner references and the termination finalizer put on the Node by syncNode (C09)",
			"Liveness (C16), NodePool registration health (C20), finalize (C09), PopulateNodeClaimDetails' field list (C15.PROV2)"},
		Rules: c14Rules,
	})
}

func cond(obj, typ string) string {
	return `\(opkg/status\.ConditionSet\)\.Get\(\(\*apis/v1\.NodeClaim\)\.StatusConditions\(` + obj + `, nil\), "` + typ + `"\)`
}

func c14Rules(tier string) []Rule {
	rules := c14RulesBase(tier)
	rules = append(rules, errClassifier("C14.ERRC1", "InsufficientCapacityError", false)...)
	rules = append(rules, errClassifier("C14.ERRC2", "NodeClassNotReadyError", false)...)
	// the labels / annotations resolved at launch are persisted before Launched=True is: a requeue that already sees
	// Launched skips Launch and would never write them again (the NodeClaim then looks drifted from its NodePool)
	rules = append(rules, c14ClassifiedFirst("C14.MPT7"), c14NodeLookup("C14.RET1"))
	rules = append(rules, c14TriageRules()...)
	rules = append(rules, core.Custom{ID: "C14.NR1", Kind: "NOREACH", Run: func(w *core.World, id string) []core.Result {
		// evaluated where the status patch lives: Controller.Reconcile or the private helper the persisting was extracted into
		const ctrl = "(*life.Controller).Reconcile"
		mk := func(fnName string) NOREACH {
			return NOREACH{ID: id, Fn: fnName, From: `^call iface:\(cr/client\.SubResourceWriter\)\.Patch\(iface:\(cr/client\.StatusClient\)\.Status\(\$0\.kubeClient\), `,
				Sink: `^call iface:\(cr/client\.Writer\)\.Patch\(\$0\.kubeClient, `, Note: "no metadata patch after the status patch"}
		}
		fn := w.Fn(ctrl)
		if fn == nil {
			return mk(ctrl).Check(w)
		}
		var first, good []core.Result
		after := c14AfterSubReconcilers(w, fn)
		w.WithHelpers(fn, func(f *ssa.Function, via ssa.Instruction) {
			if !after(f, via) {
				return
			}
			r := mk(core.FnName(f)).Check(w)
			if first == nil {
				first = r
			}
			if !(len(r) == 1 && r[0].Status != core.Discharged && strings.HasPrefix(r[0].Msg, "vacuous")) {
				good = append(good, r...)
			}
		})
		if good != nil {
			return good
		}
		return first
	}})
	rules = append(rules, c14StatusPatchOperands("C14.PROV5"))
	return rules
}

func c14RulesBase(tier string) []Rule {
	const (
		ctrl   = "(*life.Controller).Reconcile"
		launch = "(*life.Launch).Reconcile"
		lnc    = "(*life.Launch).launchNodeClaim"
		reg    = "(*life.Registration).Reconcile"
		ini    = "(*life.Initialization).Reconcile"
	)
	cpCreate := `^call iface:\(cloudprovider\.CloudProvider\)\.Create\(`
	setTrue := func(t string) string {
		return `^call \(opkg/status\.ConditionSet\)\.SetTrue\(\(\*apis/v1\.NodeClaim\)\.StatusConditions\(.*\), "` + t + `"\)`
	}
	created := `phi\(\(\*github\.com/patrickmn/go-cache\.cache\)\.Get\(\$0\.cache\.cache, \$2\.ObjectMeta\.UID\)#0\.\(\*apis/v1\.NodeClaim\)\|\(\*life\.Launch\)\.launchNodeClaim\(\$0, \$2\)#0\)`
	lerr := `phi\(nil\|\(\*life\.Launch\)\.launchNodeClaim\(\$0, \$2\)#1\)`
	nodeFor := func(recv string) string {
		return `utils/nodeclaim\.NodeForNodeClaim\(\$0\.kubeClient, \$2\)`
	}
	_ = nodeFor
	return []Rule{
		WMC{ID: "C14.WMC1", Sink: cpCreate,
			Allowed:  []string{lnc, "(*cloudprovider/metrics.decorator).Create", "(*cloudprovider/overlay.decorator).Create"},
			Required: []string{lnc}},
		WMC{ID: "C14.WMC1b", Sink: `^(call|go|defer) \(\*life\.Launch\)\.launchNodeClaim\(`, Allowed: []string{launch}, Required: []string{launch}},
		DOM{ID: "C14.DOM1", Fn: launch, Sink: `^call \(\*life\.Launch\)\.launchNodeClaim\(`, Gates: gates(
			G(`+^\(\*opkg/status\.Condition\)\.IsUnknown\(`+cond(`\$2`, "Launched")+`\)$`),
			G(`-^\(\*github\.com/patrickmn/go-cache\.cache\)\.Get\(\$0\.cache\.cache, \$2\.ObjectMeta\.UID\)#1$`),
		)},
		// created != nil ▸ cache.SetDefault(UID, created) on every path to a return
		POST{ID: "C14.POST1", Fn: launch, From: `^call \(\*life\.Launch\)\.launchNodeClaim\(`,
			Must:   []string{`^call \(\*github\.com/patrickmn/go-cache\.cache\)\.SetDefault\(\$0\.cache\.cache, \$2\.ObjectMeta\.UID, <\*apis/v1\.NodeClaim>` + created + `\)`},
			Excuse: []string{`-^` + lerr + ` == nil$`, `+^` + created + ` == nil$`}},
		DOM{ID: "C14.DOM1b", Fn: launch, Sink: setTrue("Launched"), Gates: gates(
			G(`-^`+created+` == nil$`),
			G(`+^`+lerr+` == nil$`),
			G(`instr:^call \(\*github\.com/patrickmn/go-cache\.cache\)\.SetDefault\(\$0\.cache\.cache, \$2\.ObjectMeta\.UID, `),
			G(`+^\(\*opkg/status\.Condition\)\.IsUnknown\(`+cond(`\$2`, "Launched")+`\)$`),
		)},
		// the cache entry is dropped only once Launched is true (persisted)
		DOM{ID: "C14.DOM1c", Fn: launch, Sink: `^call \(\*github\.com/patrickmn/go-cache\.cache\)\.Delete\(`, Gates: gates(
			G(`+^\(\*opkg/status\.Condition\)\.IsTrue\(` + cond(`\$2`, "Launched") + `\)$`),
		)},
		WMC{ID: "C14.WMC3", Sink: `^call \(\*github\.com/patrickmn/go-cache\.cache\)\.(Delete|Flush|DeleteExpired)\(\$0\.cache\.cache`, Allowed: []string{launch}, Note: "only Launch.Reconcile evicts launch-cache entries"},
		// launchNodeClaim returns an instance only when Create succeeded
		MPT{ID: "C14.MPT1", Fn: lnc, Ret: core.RetSpec{Index: 0, Want: "nonnil"}, Gates: gates(
			G(`+^iface:\(cloudprovider\.CloudProvider\)\.Create\(\$0\.cloudProvider, \$2\)#1 == nil$`),
		)},
		core.Custom{ID: "C14.PROV1", Kind: "PROV", Run: func(w *core.World, id string) []core.Result {
			return core.InstrPresent(w, id, "PROV", lnc, `^return iface:\(cloudprovider\.CloudProvider\)\.Create\(\$0\.cloudProvider, \$2\)#0, nil$`, 1, "the instance returned is the one the provider created")
		}},
		// capacity errors: Delete on every path, gated by the classification
		DOM{ID: "C14.DOM5", Fn: lnc, Sink: ncDelete, Min: 2, Max: 2, Gates: gates(
			G(`+^cloudprovider\.IsInsufficientCapacityError\(iface:\(cloudprovider\.CloudProvider\)\.Create\(\$0\.cloudProvider, \$2\)#1\)$`, `+^cloudprovider\.IsNodeClassNotReadyError\(iface:\(cloudprovider\.CloudProvider\)\.Create\(\$0\.cloudProvider, \$2\)#1\)$`),
			G(`-^iface:\(cloudprovider\.CloudProvider\)\.Create\(\$0\.cloudProvider, \$2\)#1 == nil$`),
		)},
		POST{ID: "C14.POST2", Fn: lnc, FromLit: `+^cloudprovider\.IsInsufficientCapacityError\(iface:\(cloudprovider\.CloudProvider\)\.Create\(`, Must: []string{ncDelete}},
		POST{ID: "C14.POST3", Fn: lnc, FromLit: `+^cloudprovider\.IsNodeClassNotReadyError\(iface:\(cloudprovider\.CloudProvider\)\.Create\(`, Must: []string{ncDelete}},
		// any other create error is returned (not swallowed): launchNodeClaim answers with a nil error only when Create
		// succeeded or its error was classified as a capacity error (then the NodeClaim is deleted, DOM5/POST2/POST3).
		// (Restates the former C14.IMPL1 — "after IsNodeClassNotReadyError⁻ no success return" — without assuming which
		// of the two capacity cases is asked last: swapping them is behaviour-preserving.)
		MPT{ID: "C14.MPT8", Fn: lnc, Ret: core.RetOK, Min: 2, Gates: gates(
			G(`+^iface:\(cloudprovider\.CloudProvider\)\.Create\(\$0\.cloudProvider, \$2\)#1 == nil$`,
				`+^cloudprovider\.IsInsufficientCapacityError\(iface:\(cloudprovider\.CloudProvider\)\.Create\(\$0\.cloudProvider, \$2\)#1\)$`,
				`+^cloudprovider\.IsNodeClassNotReadyError\(iface:\(cloudprovider\.CloudProvider\)\.Create\(\$0\.cloudProvider, \$2\)#1\)$`),
		)},

		// ---- controller: finalizer before sub-reconcilers
		DOM{ID: "C14.DOM2", Fn: ctrl, Sink: `^call iface:\(cr/reconcile\.TypedReconciler\[\*apis/v1\.NodeClaim\]\)\.Reconcile\(`, Gates: gates(
			G(`instr:^call cr/controller/controllerutil\.AddFinalizer\(<\*apis/v1\.NodeClaim>\$2, "karpenter\.sh/termination"\)$`),
			G(`+^\(k8s\.io/apimachinery/third_party/forked/golang/reflect\.Equalities\)\.DeepEqual\(apim/api/equality\.Semantic\.Equalities, <\*apis/v1\.NodeClaim>\$2, <\*apis/v1\.NodeClaim>\(\*apis/v1\.NodeClaim\)\.DeepCopy\(\$2\)\)$`,
				`+^iface:\(cr/client\.Writer\)\.Patch\(\$0\.kubeClient, <\*apis/v1\.NodeClaim>\$2, cr/client\.MergeFromWithOptions\(`),
			G(`+^utils/nodeclaim\.IsManaged\(\$2, \$0\.cloudProvider\)$`),
			G(`+^\(\*metav1\.Time\)\.IsZero\(\$2\.ObjectMeta\.DeletionTimestamp\)$`),
		)},
		core.Custom{ID: "C14.REG1", Kind: "REG", Run: c14Order},
		// sub-reconcilers are invoked only from the controller loop (no other entry that skips the finalizer)
		WMC{ID: "C14.WMC4", Sink: `^(call|go|defer) \(\*life\.(Launch|Registration|Initialization)\)\.Reconcile\(`, Allowed: []string{}},

		// ---- one site per condition
		WMC{ID: "C14.WMC2a", Sink: setTrue("Launched"), Allowed: []string{launch}, Required: []string{launch}},
		WMC{ID: "C14.WMC2b", Sink: setTrue("Registered"), Allowed: []string{reg}, Required: []string{reg}},
		WMC{ID: "C14.WMC2c", Sink: setTrue("Initialized"), Allowed: []string{ini}, Required: []string{ini}},
		// Set(cond) on a NodeClaim is only used to refresh an already decided condition
		WMC{ID: "C14.WMC2d", Sink: `^call \(opkg/status\.ConditionSet\)\.Set\(\(\*apis/v1\.NodeClaim\)\.StatusConditions\(`,
			Allowed: []string{launch, reg, ini}},
		DOM{ID: "C14.DOM6a", Fn: launch, Sink: `^call \(opkg/status\.ConditionSet\)\.Set\(\(\*apis/v1\.NodeClaim\)\.StatusConditions\(.*\), ` + cond(`\$2`, "Launched") + `\)$`, Gates: gates(
			G(`-^\(\*opkg/status\.Condition\)\.IsUnknown\(` + cond(`\$2`, "Launched") + `\)$`))},
		DOM{ID: "C14.DOM6b", Fn: reg, Sink: `^call \(opkg/status\.ConditionSet\)\.Set\(\(\*apis/v1\.NodeClaim\)\.StatusConditions\(.*\), ` + cond(`\$2`, "Registered") + `\)$`, Gates: gates(
			G(`-^\(\*opkg/status\.Condition\)\.IsUnknown\(` + cond(`\$2`, "Registered") + `\)$`))},
		DOM{ID: "C14.DOM6c", Fn: ini, Sink: `^call \(opkg/status\.ConditionSet\)\.Set\(\(\*apis/v1\.NodeClaim\)\.StatusConditions\(.*\), ` + cond(`\$2`, "Initialized") + `\)$`, Gates: gates(
			G(`-^\(\*opkg/status\.Condition\)\.IsUnknown\(` + cond(`\$2`, "Initialized") + `\)$`))},

		// ---- Registered
		DOM{ID: "C14.DOM3", Fn: reg, Sink: setTrue("Registered"),
			Stable: []string{`^lo\.IsEmpty\[cr/reconcile\.Result\]\(\(\*life\.Registration\)\.checkRegistrationHooks\(\$0, \$2\)#0\)$`, `^\(\*life\.Registration\)\.checkRegistrationHooks\(\$0, \$2\)#1 == nil$`},
			Gates: gates(
				G(`+^\(\*opkg/status\.Condition\)\.IsUnknown\(`+cond(`\$2`, "Registered")+`\)$`),
				G(`+^utils/nodeclaim\.NodeForNodeClaim\(\$0\.kubeClient, \$2\)#1 == nil$`),
				G(`+^lo\.IsEmpty\[cr/reconcile\.Result\]\(\(\*life\.Registration\)\.checkRegistrationHooks\(\$0, \$2\)#0\)$`),
				G(`+^\(\*life\.Registration\)\.checkRegistrationHooks\(\$0, \$2\)#1 == nil$`),
				G(`+^\(k8s\.io/apimachinery/third_party/forked/golang/reflect\.Equalities\)\.DeepEqual\(apim/api/equality\.Semantic\.Equalities, <\*corev1\.Node>\(\*corev1\.Node\)\.DeepCopy\(utils/nodeclaim\.NodeForNodeClaim\(\$0\.kubeClient, \$2\)#0\), <\*corev1\.Node>utils/nodeclaim\.NodeForNodeClaim\(\$0\.kubeClient, \$2\)#0\)$`,
					`+^iface:\(cr/client\.Writer\)\.Patch\(\$0\.kubeClient, <\*corev1\.Node>utils/nodeclaim\.NodeForNodeClaim\(\$0\.kubeClient, \$2\)#0, cr/client\.MergeFromWithOptions\(.* == nil$`),
				// the registered label was written and the unregistered taint rejected on the node object that is patched
				G(`instr:^mapupdate utils/nodeclaim\.NodeForNodeClaim\(\$0\.kubeClient, \$2\)#0\.ObjectMeta\.Labels\["karpenter\.sh/registered"\] = "true"$`),
				G(`instr:^store utils/nodeclaim\.NodeForNodeClaim\(\$0\.kubeClient, \$2\)#0\.Spec\.Taints = lo\.Reject\[corev1\.Taint, \[\]corev1\.Taint\]\(utils/nodeclaim\.NodeForNodeClaim\(\$0\.kubeClient, \$2\)#0\.Spec\.Taints, `),
			)},
		DOM{ID: "C14.DOM3b", Fn: reg, Sink: `^mapupdate .*\.ObjectMeta\.Labels\["karpenter\.sh/registered"\] = "true"$`, Gates: gates(
			G(`+^lo\.IsEmpty\[cr/reconcile\.Result\]\(\(\*life\.Registration\)\.checkRegistrationHooks\(\$0, \$2\)#0\)$`),
			G(`+^\(\*life\.Registration\)\.checkRegistrationHooks\(\$0, \$2\)#1 == nil$`),
		)},
		DOM{ID: "C14.DOM3c", Fn: reg, Sink: `^store .*\.Spec\.Taints = lo\.Reject\[corev1\.Taint`, Gates: gates(
			G(`+^lo\.IsEmpty\[cr/reconcile\.Result\]\(\(\*life\.Registration\)\.checkRegistrationHooks\(\$0, \$2\)#0\)$`),
			G(`+^\(\*life\.Registration\)\.checkRegistrationHooks\(\$0, \$2\)#1 == nil$`),
		)},
		core.Custom{ID: "C14.PROV2", Kind: "PROV", Run: func(w *core.World, id string) []core.Result {
			f := w.Fn("@arg:" + reg + `|^call lo\.Reject\[corev1\.Taint, \[\]corev1\.Taint\]\(|1`)
			if f == nil {
				return []core.Result{core.Bad(id, "PROV", "PROV:"+reg+":reject-pred", "", "the taint-rejecting predicate of Registration.Reconcile cannot be resolved")}
			}
			if len(w.SitesOr(f, regexp.MustCompile(`^return \(\*corev1\.Taint\)\.MatchTaint\(.*, apis/v1\.UnregisteredNoExecuteTaint\)$`), false, 1)) == 0 {
				return []core.Result{core.Bad(id, "PROV", "PROV:"+reg+":reject-pred", w.Pos(f.Pos()), "the predicate no longer rejects exactly the karpenter.sh/unregistered taint")}
			}
			rs := core.InstrPresent(w, id, "PROV", reg, `^store \$2\.Status\.NodeName = utils/nodeclaim\.NodeForNodeClaim\(\$0\.kubeClient, \$2\)#0\.ObjectMeta\.Name$`, 1, "Status.NodeName is the name of the node found")
			return rs
		}},
		// hooks: an erroring or pending hook makes checkRegistrationHooks return non-empty/err
		MPT{ID: "C14.MPT2", Fn: "(*life.Registration).checkRegistrationHooks", Ret: core.RetNilConst, Gates: gates(
			G(`-^len\(\$0\.registrationHooks\)>=1$`, `-^len\(phi\(nil\|.*\)\)>=1$`),
		)},

		// ---- Initialized
		DOM{ID: "C14.DOM4", Fn: ini, Sink: setTrue("Initialized"), Gates: append(c14InitializedPreconditions(),
			G(`+^\(k8s\.io/apimachinery/third_party/forked/golang/reflect\.Equalities\)\.DeepEqual\(.*<\*corev1\.Node>`, `+^iface:\(cr/client\.Writer\)\.Patch\(\$0\.kubeClient, <\*corev1\.Node>utils/nodeclaim\.NodeForNodeClaim\(\$0\.kubeClient, \$2\)#0, .* == nil$`),
		)},
		// the helper predicates
		IMPL{ID: "C14.IMPL2", Fn: "life.StartupTaintsRemoved", Lit: `+^\(\*corev1\.Taint\)\.MatchTaint\(`, Not: core.RetTrue},
		MPT{ID: "C14.MPT3", Fn: "life.StartupTaintsRemoved", Ret: core.RetTrue, Gates: gates(
			G(`+^\$1 == nil$`, `-^\(phi\(.*\) \+ 1\) < len\(\$1\.Spec\.StartupTaints\)$`))},
		IMPL{ID: "C14.IMPL3", Fn: "life.KnownEphemeralTaintsRemoved", Lit: `+^scheduling\.IsKnownEphemeralTaint\(`, Not: core.RetTrue},
		MPT{ID: "C14.MPT4", Fn: "life.KnownEphemeralTaintsRemoved", Ret: core.RetTrue, Gates: gates(
			G(`-^\(phi\(.*\) \+ 1\) < len\(\$0\.Spec\.Taints\)$`))},
		// what "ephemeral taint" means: a taint that matches a known one by key and effect (MatchTaint — the node
		// lifecycle controller stamps TimeAdded, values differ) or carries a known key prefix
		IMPL{ID: "C14.IMPL5", Fn: "scheduling.IsKnownEphemeralTaint", Lit: `+^\(\*corev1\.Taint\)\.MatchTaint\(scheduling\.KnownEphemeralTaints\[.*\], \$0\)$`, Not: core.RetFalse},
		IMPL{ID: "C14.IMPL6", Fn: "scheduling.IsKnownEphemeralTaint", Lit: `+^strings\.HasPrefix\(\$0\.Key, scheduling\.KnownEphemeralTaintKeyPrefixes\[.*\]\)$`, Not: core.RetFalse},
		ITER{ID: "C14.ITER1", Fn: "scheduling.IsKnownEphemeralTaint", Loop: `+^\(phi\(-1\|\(phi↺ \+ 1\)\) \+ 1\) < len\(scheduling\.KnownEphemeralTaints\)$`, Gates: gates(
			G(`-^\(\*corev1\.Taint\)\.MatchTaint\(scheduling\.KnownEphemeralTaints\[.*\], \$0\)$`))},
		MPT{ID: "C14.MPT6", Fn: "scheduling.IsKnownEphemeralTaint", Ret: core.RetFalse, Gates: gates(
			G(`+^\$0 == nil$`, `-^\(phi\(-1\|\(phi↺ \+ 1\)\) \+ 1\) < len\(scheduling\.KnownEphemeralTaints\)$`),
			G(`+^\$0 == nil$`, `-^\(phi\(-1\|\(phi↺ \+ 1\)\) \+ 1\) < len\(scheduling\.KnownEphemeralTaintKeyPrefixes\)$`))},
		IMPL{ID: "C14.IMPL4", Fn: "life.RequestedResourcesRegistered", Lit: `+^utils/resources\.IsZero\(\$0\.Status\.Allocatable\[next\(range\(\$1\.Spec\.Resources\.Requests\)\)#1\]\)$`, Not: core.RetTrue},
		MPT{ID: "C14.MPT5", Fn: "life.RequestedResourcesRegistered", Ret: core.RetTrue, Gates: gates(
			G(`-^next\(range\(\$1\.Spec\.Resources\.Requests\)\)#0$`))},
	}
}

// C14.REG1: the sub-reconciler slice is [launch, registration, initialization, liveness] in this order.
func c14Order(w *core.World, id string) []core.Result {
	const ctrl = "(*life.Controller).Reconcile"
	fn := w.Fn(ctrl)
	if fn == nil {
		return []core.Result{core.Anchor(id, "REG", ctrl)}
	}
	want := []string{"launch", "registration", "initialization", "liveness"}
	arr := regexp.MustCompile(`^store &local<\[(\d+)\]cr/reconcile\.TypedReconciler\[\*apis/v1\.NodeClaim\]>\[(\d+)\] = \$0\.(\w+)$`)
	got := map[string]string{}
	size := ""
	w.WithHelpers(fn, func(f *ssa.Function, _ ssa.Instruction) {
		for _, s := range w.Sites(f, arr, false) {
			m := arr.FindStringSubmatch(w.RenderInstr(s))
			got[m[2]] = m[3]
			size = m[1]
		}
	})
	construct := "REG:" + ctrl + ":order"
	if size != fmt.Sprint(len(want)) || len(got) != len(want) {
		return []core.Result{core.Bad(id, "REG", construct, w.Pos(fn.Pos()), fmt.Sprintf("sub-reconciler list has %s entries %v, expected %v", size, got, want))}
	}
	for i, n := range want {
		if got[fmt.Sprint(i)] != n {
			return []core.Result{core.Bad(id, "REG", construct, w.Pos(fn.Pos()), fmt.Sprintf("sub-reconciler #%d is %q, expected %q (order launch → registration → initialization → liveness)", i, got[fmt.Sprint(i)], n))}
		}
	}
	return []core.Result{core.OK(id, "REG", construct, 4, "order launch, registration, initialization, liveness")}
}

// C14.MPT7: the create error is classified before anything else is done with it. launchNodeClaim may only be left
//   - with Create's error nil, or
//   - after that very error was put to cloudprovider.IsInsufficientCapacityError AND to IsNodeClassNotReadyError (an
//     exit on the positive edge of either one is the Delete reaction, see POST2/POST3/DOM5, and need not ask the other).
//
// POST2/POST3 say "classified ⇒ Delete"; they are vacuous for an error that never reaches the classifier. The classifiers
// use errors.As, i.e. they recognise a capacity error wrapped in any other error (a CreateError carrying a condition
// reason, a context error, …); a branch that handles such a wrapper and returns before the classification turns
// "capacity error ⇒ delete" into "retry forever". The order of the two capacity cases among themselves is free.
func c14ClassifiedFirst(id string) Rule {
	const lnc = "(*life.Launch).launchNodeClaim"
	cerr := `iface:\(cloudprovider\.CloudProvider\)\.Create\(\$0\.cloudProvider, \$2\)#1`
	created := `+^` + cerr + ` == nil$`
	ice := `^cloudprovider\.IsInsufficientCapacityError\(` + cerr + `\)$`
	ncnr := `^cloudprovider\.IsNodeClassNotReadyError\(` + cerr + `\)$`
	return core.Custom{ID: id, Kind: "MPT", Run: func(w *core.World, id string) []core.Result {
		// "every return" is decided as "every return with a nil error" (5 today: created, deleted ×2, delete failed with an
		// ignorable error ×2) plus "every return with a non-nil error" (3 today: the retry, delete failed ×2): unlike the
		// outcome "any", these two are also followed into a private helper whose result is handed back
		// (`return l.createFailed(ctx, nodeClaim, err)`).
		g := gates(
			G(created, `?`+ice, `+`+ncnr),
			G(created, `?`+ncnr, `+`+ice),
		)
		rs := MPT{ID: id, Fn: lnc, Ret: core.RetSpec{Index: -1, Want: "nil"}, Min: 2, Gates: g}.Check(w)
		rs = append(rs, MPT{ID: id, Fn: lnc, Ret: core.RetSpec{Index: -1, Want: "nonnil"}, Gates: g}.Check(w)...)
		for i := range rs {
			if rs[i].Status != core.Discharged {
				rs[i].Msg = "the error of CloudProvider.Create is not put to IsInsufficientCapacityError / IsNodeClassNotReadyError on every path before launchNodeClaim is left (a capacity error wrapped in another error is then retried forever instead of deleting the NodeClaim): " + rs[i].Msg
			}
		}
		return rs
	}}
}

// C14.RET1: a NodeClaim whose Status.ProviderID is empty resolves to no Node. Registration has no test of Launched of its
// own: it stays behind Launch only because utils/nodeclaim.NodeForNodeClaim finds nothing for a NodeClaim that has no
// provider id yet (the field index would otherwise answer the lookup for "" with any Node that has not been given its
// provider id). Every value that NodeForNodeClaim can return as a (non-nil) Node therefore
//   - is returned under `Status.ProviderID != ""` of the NodeClaim passed in — tested in NodeForNodeClaim itself or in a
//     private helper it returns through —, or
//   - is an element of AllNodesForNodeClaim(·, the same NodeClaim)#0, and AllNodesForNodeClaim returns a non-nil list
//     only under that test.
func c14NodeLookup(id string) Rule {
	const (
		one = "utils/nodeclaim.NodeForNodeClaim"
		all = "utils/nodeclaim.AllNodesForNodeClaim"
	)
	return core.Custom{ID: id, Kind: "RET", Run: func(w *core.World, id string) []core.Result {
		construct := "RET:" + one + "#ret0⇐Status.ProviderID≠\"\""
		fn := w.Fn(one)
		if fn == nil {
			return []core.Result{core.Anchor(id, "RET", one)}
		}
		resolved := G(`-^\$2\.Status\.ProviderID == ""$`, `+^len\(\$2\.Status\.ProviderID\)>=1$`)
		elem := regexp.MustCompile(`^utils/nodeclaim\.AllNodesForNodeClaim\([^(),]*, \$2\)#0\[.*\]$`)
		nonnil := func(idx int) core.RetSpec { return core.RetSpec{Index: idx, Want: "nonnil"} }
		var out []core.Result
		n, viaAll := 0, false
		pending := map[ssa.Instruction]int{} // call of a helper whose result #k is handed back as the Node
		w.WithHelpers(fn, func(f *ssa.Function, via ssa.Instruction) {
			idx := 0
			if via != nil {
				k, ok := pending[via]
				if !ok {
					return
				}
				delete(pending, via)
				idx = k
			}
			for _, s := range w.ReturnSinks(f, nonnil(idx)) {
				n++
				if w.RetGuarded(s, resolved) {
					continue
				}
				if s.Val != nil && core.MatchRe(elem, w.Render(s.Val)) {
					viaAll = true
					continue
				}
				// handed back from a helper: decided when the helper is visited (private helpers only)
				var call *ssa.Call
				k := 0
				switch x := s.Val.(type) {
				case *ssa.Call:
					call = x
				case *ssa.Extract:
					call, _ = x.Tuple.(*ssa.Call)
					k = x.Index
				}
				if call != nil && call.Common().StaticCallee() != nil && core.IsKarpenterFn(call.Common().StaticCallee()) && core.FnName(call.Common().StaticCallee()) != all {
					if _, dup := pending[call]; !dup {
						pending[call] = k
						continue
					}
				}
				out = append(out, core.Bad(id, "RET", construct, w.InstrPos(s.Ret),
					fmt.Sprintf("%s can hand back a Node (%s) for a NodeClaim whose Status.ProviderID is empty: the value is neither returned under `Status.ProviderID != \"\"` nor an element of %s(…, nodeClaim)#0 — Registration would adopt any Node without provider id before the NodeClaim is launched", core.FnName(f), s.Desc, all)))
			}
		})
		for call := range pending {
			out = append(out, core.Bad(id, "RET", construct, w.InstrPos(call),
				fmt.Sprintf("%s hands back the result of `%s`, which cannot be looked into (not a private helper): not known to be nil for a NodeClaim whose Status.ProviderID is empty", one, clipStr(w.RenderInstr(call), 120))))
		}
		if n == 0 {
			out = append(out, core.Bad(id, "RET", construct, w.Pos(fn.Pos()), "vacuous: "+one+" never returns a Node (idiom not recognised)"))
		}
		m := 0
		if viaAll {
			af := w.Fn(all)
			if af == nil {
				return append(out, core.Anchor(id, "RET", all))
			}
			for _, s := range w.ReturnSinks(af, nonnil(0)) {
				m++
				if !w.RetGuarded(s, resolved) {
					out = append(out, core.Bad(id, "RET", "RET:"+all+"#ret0⇐Status.ProviderID≠\"\"", w.InstrPos(s.Ret),
						fmt.Sprintf("%s can return a list of Nodes (%s) for a NodeClaim whose Status.ProviderID is empty (the lookup by spec.providerID=\"\" matches every Node that has no provider id yet); %s takes its Node from this list", all, s.Desc, one)))
				}
			}
			if m == 0 {
				out = append(out, core.Bad(id, "RET", "RET:"+all+"#ret0⇐Status.ProviderID≠\"\"", w.Pos(af.Pos()), "vacuous: "+all+" never returns a list (idiom not recognised)"))
			}
		}
		if len(out) == 0 {
			out = append(out, core.OK(id, "RET", construct, n+m, fmt.Sprintf("%d Node return(s) of %s, %d list return(s) of %s: only for a NodeClaim with a provider id", n, one, m, all)))
		}
		return out
	}}
}

// ---------------------------------------------------------------------------
// Rules added by the triage of the mutation sweep (sweep/C14.missed.txt). Each states a fact the statement of C14 relies on
// and that no earlier row decided.
func c14TriageRules() []Rule {
	const (
		ctrl   = "(*life.Controller).Reconcile"
		launch = "(*life.Launch).Reconcile"
		reg    = "(*life.Registration).Reconcile"
		hooksF = "(*life.Registration).checkRegistrationHooks"
		syncF  = "(*life.Registration).syncNode"
		ini    = "(*life.Initialization).Reconcile"
		dra    = "(*life.Initialization).draDriverPoolsPublished"
		slices = "(*life.Initialization).resourceSlicesForNode"
		drv    = "life.DRADriversPublished"
		pools  = "life.completePoolDrivers"
		belong = "life.sliceBelongsToNode"
	)
	eq := `\(k8s\.io/apimachinery/third_party/forked/golang/reflect\.Equalities\)\.DeepEqual\(apim/api/equality\.Semantic\.Equalities, `
	setTrue := func(t string) string {
		return `^call \(opkg/status\.ConditionSet\)\.SetTrue\(\(\*apis/v1\.NodeClaim\)\.StatusConditions\(.*\), "` + t + `"\)`
	}

	// ---- (7) what the sub-reconcilers decided is persisted.
	// Launched=True (with the provider id) has to reach the API server: the launch cache only bridges the time until it does
	// (entries expire; Launch.Reconcile drops its entry once it *sees* Launched). After the sub-reconcilers ran, Reconcile
	// answers "no error" only if the NodeClaim equals the deep copy taken before them, or the status patch — of a deep copy
	// of the NodeClaim (the metadata patch overwrites the object it is given with the server's answer, status included),
	// against that earlier deep copy — succeeded, or a write failed with an error the caller chose to ignore (NotFound).
	nc := `<\*apis/v1\.NodeClaim>`
	ncCopy := nc + `\(\*apis/v1\.NodeClaim\)\.DeepCopy\(\$2\)`
	persisted := MPT{ID: "C14.MPT9", Fn: ctrl, Ret: core.RetOK, Min: 3, Gates: gates(G(
		// not ours / terminating: nothing is reconciled
		`-^utils/nodeclaim\.IsManaged\(\$2, \$0\.cloudProvider\)$`,
		`-^\(\*metav1\.Time\)\.IsZero\(\$2\.ObjectMeta\.DeletionTimestamp\)$`,
		// a write failed (finalizer patch, metadata patch, status patch)
		`-^iface:\(cr/client\.Writer\)\.Patch\(\$0\.kubeClient, `+nc+`\$2, .* == nil$`,
		`-^iface:\(cr/client\.SubResourceWriter\)\.Patch\(iface:\(cr/client\.StatusClient\)\.Status\(\$0\.kubeClient\), .* == nil$`,
		// nothing changed
		`+^`+eq+ncCopy+`, `+nc+`\$2\)$`, `+^`+eq+nc+`\$2, `+ncCopy+`\)$`,
		// the status patch went through
		`+^iface:\(cr/client\.SubResourceWriter\)\.Patch\(iface:\(cr/client\.StatusClient\)\.Status\(\$0\.kubeClient\), `+ncCopy+`, cr/client\.MergeFrom(WithOptions)?\(`+ncCopy+`[,)].* == nil$`,
	)), Note: "after the sub-reconcilers: unchanged, or status patch of a deep copy against the earlier deep copy succeeded"}

	// ---- (8) Launched=True is recorded together with the provider id of the created instance: that id is the only
	// observable link between the NodeClaim and its instance (Registration finds the Node by it, RET1; finalization
	// deletes the instance only for a NodeClaim that has one).
	launchedWithID := DOM{ID: "C14.DOM1d", Fn: launch, Sink: setTrue("Launched"), Gates: gates(
		G(`instr:^store \$2\.Status\.ProviderID = [^$].*\.Status\.ProviderID$`),
	), Note: "Status.ProviderID is taken from the created instance before Launched is set"}

	// ---- (9) registration hooks (cloudprovider.NodeLifecycleHook: "all registered hooks must return an empty result before
	// node registration completes"). Registration.Reconcile recognises "a hook is not ready" only by a non-empty Result or
	// an error coming back from checkRegistrationHooks (DOM3/DOM3b/DOM3c), so inside it
	//   - every hook is asked, with this NodeClaim, and both answers are kept;
	//   - a hook that failed or answered non-empty is counted as pending (then the function cannot return (zero, nil), MPT2);
	//   - a pending hook that did not fail leaves a non-empty merged Result: its Requeue is or-ed in, and its RequeueAfter is
	//     taken whenever none was taken so far.
	hookRes := `makeslice<\[\]cloudprovider\.NodeLifecycleHookResult>\[.+\]`
	hookErr := `\^?makeslice<\[\]error>\[.+\] == nil`
	hookEmpty := `lo\.IsEmpty\[cloudprovider\.NodeLifecycleHookResult\]\(` + hookRes + `\)`
	pending := `instr:^call append\(phi\(nil\|.*, &local<\[1\]string>\[:\]\)$`
	asked := `iface:\(cloudprovider\.NodeLifecycleHook\)\.Registered\(\^?\$0\.registrationHooks\[.+\], \^?\$2\)`
	hookAsked := core.Custom{ID: "C14.PROV3", Kind: "PROV", Run: func(w *core.World, id string) []core.Result {
		rs := core.InstrPresent(w, id, "PROV", hooksF, `^store \^?makeslice<\[\]cloudprovider\.NodeLifecycleHookResult>\[.+\] = `+asked+`#0$`, 1, "every registration hook is asked about this NodeClaim and its result is kept")
		return append(rs, core.InstrPresent(w, id, "PROV", hooksF, `^store \^?makeslice<\[\]error>\[.+\] = `+asked+`#1$`, 1, "the error of every registration hook is kept")...)
	}}
	hookLoop := ITER{ID: "C14.ITER2", Fn: hooksF, Loop: `+^\(phi\(-1\|\(phi↺ \+ 1\)\) \+ 1\) < len\(makeslice<\[\](cloudprovider\.NodeLifecycleHookResult|error)>\)$`, Gates: gates(
		G(`+^`+hookErr+`$`, pending),
		G(`+^`+hookEmpty+`$`, pending),
		G(`+^`+hookEmpty+`$`, `-^`+hookErr+`$`, `-^`+hookRes+`\.Requeue$`,
			`instr:^store \S+\.Requeue = (true|phi\(true\|`+hookRes+`\.Requeue\))$`),
		G(`+^`+hookEmpty+`$`, `-^`+hookErr+`$`, `-^\S+\.RequeueAfter == 0$`, `-^0 < `+hookRes+`\.RequeueAfter$`, `+^`+hookRes+`\.RequeueAfter == 0$`,
			`instr:^store \S+\.RequeueAfter = `+hookRes+`\.RequeueAfter$`),
	), Note: "failed / non-empty hook ⇒ pending; pending without error ⇒ merged result non-empty"}

	// ---- (10) "synced": Registered=True is set only after the Node was synced from the NodeClaim as the hooks left it
	// (they may mutate it), and the sync carries labels, annotations, taints and startup taints (the taints unless the
	// Node says karpenter.sh/do-not-sync-taints=true). Once Registered is true Registration never looks at the Node again.
	node := `utils/nodeclaim\.NodeForNodeClaim\(\$0\.kubeClient, \$2\)#0`
	hooksCall := `\(\*life\.Registration\)\.checkRegistrationHooks\(\$0, \$2\)`
	resync := POST{ID: "C14.POST4", Fn: reg, From: `^call ` + hooksCall + `$`,
		Must:   []string{`^call \(\*life\.Registration\)\.syncNode\(\$0, \$2, ` + node + `\)$`},
		Excuse: []string{`-^lo\.IsEmpty\[cr/reconcile\.Result\]\(` + hooksCall + `#0\)$`, `-^` + hooksCall + `#1 == nil$`},
		Note:   "hooks ready ⇒ the Node is synced again from the NodeClaim before it is marked registered"}
	noSync := `+^\$2\.ObjectMeta\.Labels\["karpenter\.sh/do-not-sync-taints"\](#0)? == "true"$`
	syncTaints := POST{ID: "C14.POST5a", Fn: syncF, Must: []string{`^store \$2\.Spec\.Taints = \(scheduling\.Taints\)\.Merge\(\$2\.Spec\.Taints, \$1\.Spec\.Taints\)$`}, Excuse: []string{noSync},
		Note: "the NodeClaim's taints are merged into the Node's unless the Node opts out"}
	syncStartup := POST{ID: "C14.POST5b", Fn: syncF, Must: []string{`^store \$2\.Spec\.Taints = \(scheduling\.Taints\)\.Merge\(\$2\.Spec\.Taints, \$1\.Spec\.StartupTaints\)$`}, Excuse: []string{noSync},
		Note: "the NodeClaim's startup taints are merged into the Node's unless the Node opts out (Initialization waits for them to go)"}
	syncMeta := core.Custom{ID: "C14.PROV4", Kind: "PROV", Run: func(w *core.World, id string) []core.Result {
		var rs []core.Result
		for _, f := range []string{"Labels", "Annotations"} {
			rs = append(rs, POST{ID: id, Fn: syncF, Must: []string{`^store \$2\.ObjectMeta\.` + f + ` = lo\.Assign\[string, string, map\[string\]string\]\(&local<\[\d+\]map\[string\]string>\[:\]\)$`},
				Note: "the Node's " + f + " are rewritten on every sync"}.Check(w)...)
			rs = append(rs, core.InstrPresent(w, id, "PROV", syncF, `^store &local<\[\d+\]map\[string\]string>\[[1-9]\d*\] = \$1\.ObjectMeta\.`+f+`$`, 1, "the NodeClaim's "+f+" are laid over the Node's")...)
		}
		return rs
	}}

	// ---- (11) Initialization writes to the Node (the karpenter.sh/initialized label) only under the preconditions of
	// Initialized=True, and Initialized=True is set only once that label is on the Node object and persisted.
	iniPre := c14InitializedPreconditions()
	iniWrite := DOM{ID: "C14.DOM4b", Fn: ini, Sink: `^call iface:\(cr/client\.(Writer|SubResourceWriter)\)\.(Patch|Update)\(.*<\*corev1\.Node>`, Gates: iniPre,
		Note: "the Node is patched (initialized label) only when the preconditions of Initialized hold"}
	nodeTyped := `<\*corev1\.Node>` + node
	nodeCopy := `<\*corev1\.Node>\(\*corev1\.Node\)\.DeepCopy\(` + node + `\)`
	iniLabel := DOM{ID: "C14.DOM4c", Fn: ini, Sink: setTrue("Initialized"), Gates: gates(
		G(`instr:^mapupdate .*\["karpenter\.sh/initialized"\] = "true"$`),
		G(`instr:^mapupdate `+node+`\.ObjectMeta\.Labels\["karpenter\.sh/initialized"\] = "true"$`, `instr:^store `+node+`\.ObjectMeta\.Labels = lo\.Assign\[`),
		G(`+^`+eq+nodeCopy+`, `+nodeTyped+`\)$`, `+^`+eq+nodeTyped+`, `+nodeCopy+`\)$`,
			`+^iface:\(cr/client\.Writer\)\.Patch\(\$0\.kubeClient, `+nodeTyped+`, cr/client\.MergeFrom(WithOptions)?\(<\*corev1\.Node>\(\*corev1\.Node\)\.DeepCopy\(.* == nil$`),
	), Note: "initialized label written to the Node found, and either already there (equal to the deep copy taken before) or patched"}

	// ---- (12) precondition (d) of Initialized, DRA: every driver the NodeClaim expects has published a complete pool on
	// this Node. The chain is draDriverPoolsPublished ⇒ DRADriversPublished(slices of this node) ⇒ per driver
	// completePoolDrivers(slices).Has(driver) ⇒ observed == declared slice count; slices of this node = sliceBelongsToNode.
	ann := `\.ObjectMeta\.Annotations\["karpenter\.sh/requested-dra-drivers"\]`
	loopExit := `-^\(phi\(-1\|\(phi↺ \+ 1\)\) \+ 1\) < len\(`
	obs := `next\(range\(.*\)\)#2\.`
	draRules := []Rule{
		MPT{ID: "C14.MPT10", Fn: dra, Ret: core.RetSpec{Index: 1, Want: "true"}, Gates: gates(G(
			`+^operator/options\.FromContext\(\)\.IgnoreDRARequests$`,
			`-^\$3`+ann+`#1$`,
			`-^\(\*life\.Initialization\)\.resourceSlicesForNode\(\$0, \$2\)#1 == nil$`, // answered together with the error, which the caller looks at first
			`+^life\.DRADriversPublished\(\$3, \(\*life\.Initialization\)\.resourceSlicesForNode\(\$0, \$2\)#0\)#1$`,
		)), Note: "published ⇒ DRA ignored ∨ nothing requested ∨ DRADriversPublished(nodeClaim, slices of this node)"},
		IMPL{ID: "C14.IMPL7", Fn: drv, Lit: `-^\(apim/util/sets\.Set\[string\]\)\.Has\(life\.completePoolDrivers\(\$1\), `, Not: core.RetTrue,
			Note: "a requested driver without a complete pool ⇒ not published"},
		MPT{ID: "C14.MPT11", Fn: drv, Ret: core.RetTrue, Gates: gates(G(
			`+^strings\.TrimSpace\(\$0`+ann+`\) == ""$`, `+^\$0`+ann+` == ""$`, `-^\$0`+ann+`#1$`,
			loopExit+`strings\.Split\(`,
		)), Note: "published only after every requested driver was looked at"},
		DOM{ID: "C14.DOM7", Fn: pools, Sink: `^call \(apim/util/sets\.Set\[string\]\)\.Insert\(`, Gates: gates(
			G(`+^`+obs+`observed == `+obs+`resourceSliceCount$`, `+^`+obs+`resourceSliceCount == `+obs+`observed$`),
		), Note: "a driver has a complete pool only if as many slices were observed as the pool declares"},
		DOM{ID: "C14.DOM8", Fn: slices, Sink: `^call append\(`, Gates: gates(
			G(`+^life\.sliceBelongsToNode\(.*, \$2\.ObjectMeta\.Name\)$`),
		), Note: "only slices of this node are counted"},
		MPT{ID: "C14.MPT12", Fn: belong, Ret: core.RetTrue, Min: 2, Gates: gates(
			G(`+^(\$1 == lo\.FromPtr\[string\]\(\$0\.Spec\.NodeName\)|lo\.FromPtr\[string\]\(\$0\.Spec\.NodeName\) == \$1)$`,
				`+^(\$0\.ObjectMeta\.OwnerReferences\[.+\]\.Name == \$1|\$1 == \$0\.ObjectMeta\.OwnerReferences\[.+\]\.Name)$`),
			G(`+^(\$1 == lo\.FromPtr\[string\]\(\$0\.Spec\.NodeName\)|lo\.FromPtr\[string\]\(\$0\.Spec\.NodeName\) == \$1)$`,
				`+^(\$0\.ObjectMeta\.OwnerReferences\[.+\]\.Kind == "Node"|"Node" == \$0\.ObjectMeta\.OwnerReferences\[.+\]\.Kind)$`),
		), Note: "a slice is the node's by spec.nodeName or by an owner reference of kind Node with the node's name"},
	}

	rules := []Rule{persisted, launchedWithID, hookAsked, hookLoop, resync, syncTaints, syncStartup, syncMeta, iniWrite, iniLabel}
	return append(rules, draRules...)
}

// c14InitializedPreconditions: the observable preconditions of Initialized (and of the initialized label on the Node), as
// literals of Initialization.Reconcile.
func c14InitializedPreconditions() []Gate {
	return gates(
		G(`+^\(\*opkg/status\.Condition\)\.IsUnknown\(`+cond(`\$2`, "Initialized")+`\)$`),
		G(`+^\(\*opkg/status\.Condition\)\.IsTrue\(`+cond(`\$2`, "Registered")+`\)$`),
		G(`+^utils/nodeclaim\.NodeForNodeClaim\(\$0\.kubeClient, \$2\)#1 == nil$`),
		G(`+^utils/node\.GetCondition\(utils/nodeclaim\.NodeForNodeClaim\(\$0\.kubeClient, \$2\)#0, "Ready"\)\.Status == "True"$`),
		G(`+^life\.StartupTaintsRemoved\(utils/nodeclaim\.NodeForNodeClaim\(\$0\.kubeClient, \$2\)#0, \$2\)#1$`),
		G(`+^life\.KnownEphemeralTaintsRemoved\(utils/nodeclaim\.NodeForNodeClaim\(\$0\.kubeClient, \$2\)#0\)#1$`),
		G(`+^life\.RequestedResourcesRegistered\(utils/nodeclaim\.NodeForNodeClaim\(\$0\.kubeClient, \$2\)#0, \$2\)#1$`),
		G(`+^\(\*life\.Initialization\)\.draDriverPoolsPublished\(\$0, utils/nodeclaim\.NodeForNodeClaim\(\$0\.kubeClient, \$2\)#0, \$2\)#1$`),
		G(`+^\(\*life\.Initialization\)\.draDriverPoolsPublished\(\$0, utils/nodeclaim\.NodeForNodeClaim\(\$0\.kubeClient, \$2\)#0, \$2\)#2 == nil$`),
	)
}

func c14Strip(v ssa.Value) ssa.Value {
	for {
		switch x := v.(type) {
		case *ssa.MakeInterface:
			v = x.X
		case *ssa.ChangeInterface:
			v = x.X
		case *ssa.ChangeType:
			v = x.X
		default:
			return v
		}
	}
}

// c14After: instruction b can execute after instruction a (same function).
func c14After(a, b ssa.Instruction) bool {
	if a.Parent() != b.Parent() {
		return false
	}
	if a.Block() == b.Block() {
		ia, ib := -1, -1
		for i, x := range a.Block().Instrs {
			if x == a {
				ia = i
			}
			if x == b {
				ib = i
			}
		}
		if ia < ib {
			return true
		}
	}
	return core.Reach(a.Block().Succs, nil)[b.Block()]
}

// c14AfterSubReconcilers returns the filter for World.WithHelpers(Controller.Reconcile, …) that keeps Reconcile itself and the
// private helpers it calls where a sub-reconciler may already have run (the persisting part, if it was extracted) — not
// the helpers of the other branches (finalize).
func c14AfterSubReconcilers(w *core.World, root *ssa.Function) func(f *ssa.Function, via ssa.Instruction) bool {
	// (the loop over the sub-reconcilers may itself sit in a private helper: then the call of that helper stands for it)
	subs := w.SitesOr(root, regexp.MustCompile(`^call iface:\(cr/reconcile\.TypedReconciler\[\*apis/v1\.NodeClaim\]\)\.Reconcile\(`), false, 1)
	ok := map[*ssa.Function]bool{root: true}
	return func(f *ssa.Function, via ssa.Instruction) bool {
		if via == nil {
			return true
		}
		if via.Parent() == root {
			for _, s := range subs {
				if c14After(s, via) {
					ok[f] = true
				}
			}
		} else if ok[core.RootFn(via.Parent())] {
			ok[f] = true
		}
		return ok[f]
	}
}

// C14.PROV5: the operands of the status patch in Controller.Reconcile, by SSA identity (all deep copies of the NodeClaim
// render alike, so MPT9 cannot tell them apart). The status patch persists what the sub-reconcilers decided only if
//   - the object patched and the base of the merge patch are different values (a copy diffed against itself is empty);
//   - the base is the very copy the NodeClaim was compared with, a DeepCopy taken where no sub-reconciler has run yet;
//   - the object is a DeepCopy taken after the sub-reconcilers and not after the metadata patch (which overwrites the object it
//     is given, status included, with the server's answer).
// The patch may live in a private helper; its parameters are then read as the arguments of the call.
func c14StatusPatchOperands(id string) Rule {
	const ctrl = "(*life.Controller).Reconcile"
	return core.Custom{ID: id, Kind: "PROV", Run: func(w *core.World, id string) []core.Result {
		fn := w.Fn(ctrl)
		if fn == nil {
			return []core.Result{core.Anchor(id, "PROV", ctrl)}
		}
		construct := "PROV:" + ctrl + ":status-patch(object, base)"
		statusRe := regexp.MustCompile(`^call iface:\(cr/client\.SubResourceWriter\)\.Patch\(iface:\(cr/client\.StatusClient\)\.Status\(`)
		metaRe := regexp.MustCompile(`^call iface:\(cr/client\.Writer\)\.Patch\(.*, cr/client\.MergeFrom\(`)
		subRe := regexp.MustCompile(`^call iface:\(cr/reconcile\.TypedReconciler\[\*apis/v1\.NodeClaim\]\)\.Reconcile\(`)
		eqRe := regexp.MustCompile(`^call \(k8s\.io/apimachinery/third_party/forked/golang/reflect\.Equalities\)\.DeepEqual\(`)
		var out []core.Result
		bad := func(in ssa.Instruction, msg string) {
			out = append(out, core.Bad(id, "PROV", construct, w.InstrPos(in), msg))
		}
		n := 0
		after := c14AfterSubReconcilers(w, fn)
		w.WithHelpers(fn, func(f *ssa.Function, via ssa.Instruction) {
			if !after(f, via) {
				return
			}
			resolve := func(v ssa.Value) (ssa.Value, *ssa.Function) {
				v = c14Strip(v)
				if p, ok := v.(*ssa.Parameter); ok && via != nil {
					if ci, ok := via.(ssa.CallInstruction); ok {
						for j, q := range f.Params {
							if q == p && j < len(ci.Common().Args) {
								return c14Strip(ci.Common().Args[j]), via.Parent()
							}
						}
					}
				}
				return v, f
			}
			deepCopy := func(v ssa.Value) *ssa.Call {
				c, ok := v.(*ssa.Call)
				if !ok || w.CalleeName(c.Common()) != "(*apis/v1.NodeClaim).DeepCopy" {
					return nil
				}
				return c
			}
			for _, site := range w.Sites(f, statusRe, false) {
				ci, ok := site.(ssa.CallInstruction)
				if !ok {
					continue
				}
				n++
				var obj, base ssa.Value
				args := core.CallArgs(ci.Common())
				for i, a := range args {
					if c, ok := c14Strip(a).(*ssa.Call); ok && i > 0 && len(c.Call.Args) > 0 && strings.HasPrefix(w.CalleeName(c.Common()), "cr/client.MergeFrom") {
						obj, base = c14Strip(args[i-1]), c14Strip(c.Call.Args[0])
					}
				}
				if obj == nil {
					bad(site, "the status patch of the NodeClaim is not a client.MergeFrom(…) patch (idiom not recognised)")
					continue
				}
				if obj == base {
					bad(site, "the status patch diffs an object against itself: nothing the sub-reconcilers decided is persisted")
					continue
				}
				cmp := false
				for _, e := range w.Sites(f, eqRe, false) {
					for _, a := range e.(ssa.CallInstruction).Common().Args {
						if c14Strip(a) == base {
							cmp = true
						}
					}
				}
				if !cmp {
					bad(site, "the base of the status patch is not the copy the NodeClaim was compared with (DeepEqual): the patch can be empty although the status changed")
				}
				bv, bf := resolve(base)
				if bc := deepCopy(bv); bc == nil {
					bad(site, "the base of the status patch is `"+w.Render(bv)+"`, not a DeepCopy of the NodeClaim taken before the sub-reconcilers ran")
				} else {
					subs := w.SitesOr(bf, subRe, true, 1)
					if len(subs) == 0 {
						bad(site, "the base of the status patch is copied in "+core.FnName(bf)+", which does not run the sub-reconcilers: not known to be taken before them")
					}
					for _, s := range subs {
						if c14After(s, bc) {
							bad(bc, "the base of the status patch is copied where a sub-reconciler may already have run: its changes are not part of the patch")
							break
						}
					}
				}
				ov, of := resolve(obj)
				if oc := deepCopy(ov); oc == nil {
					bad(site, "the object of the status patch is `"+w.Render(ov)+"`, not a DeepCopy of the NodeClaim (the metadata patch overwrites the NodeClaim it is given with the server's answer, status included)")
				} else {
					for _, m := range w.Sites(of, metaRe, false) {
						if c14After(m, oc) {
							bad(oc, "the object of the status patch is copied after the metadata patch, which has overwritten the status with the server's")
							break
						}
					}
					if subs := w.SitesOr(of, subRe, true, 1); len(subs) > 0 {
						after := false
						for _, s := range subs {
							after = after || c14After(s, oc)
						}
						if !after {
							bad(oc, "the object of the status patch is copied before the sub-reconcilers ran")
						}
					}
				}
			}
		})
		if n == 0 {
			bad(fn.Blocks[0].Instrs[0], "vacuous: no status patch of the NodeClaim in "+ctrl+" or its private helpers")
		}
		if len(out) == 0 {
			out = append(out, core.OK(id, "PROV", construct, n, "object: a copy taken after the sub-reconcilers and before the metadata patch; base: the copy compared with, taken before them"))
		}
		return out
	}}
}
