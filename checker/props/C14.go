package props

import (
	"golang.org/x/tools/go/ssa"
	"fmt"
	"regexp"

	"kverif/core"
)

func init() {
	core.Register(&core.Property{
		ID:    "C14",
		Title: "A NodeClaim launches one instance and its lifecycle moves forward",
		Explanation: "Decides: (1) who may call CloudProvider.Create (Launch.launchNodeClaim plus forwarding decorators) and who may call launchNodeClaim (Launch.Reconcile only); " +
			"(2) that call is dominated by Launched=Unknown and a miss in the launch cache, every successful create is stored in the cache before any return and before Launched is set; " +
			"(3) the sub-reconcilers run only after AddFinalizer and (if it changed the object) a successful Patch, in the order launch, registration, initialization, liveness; " +
			"(4) each of Launched/Registered/Initialized is set true at exactly one site, dominated by its observable preconditions (all literals listed in the rows); " +
			"(5) capacity errors lead to Delete of the NodeClaim on every path and never to a returned instance; the error of Create is put to both capacity classifiers on every path before launchNodeClaim is left " +
			"(a capacity error wrapped in a CreateError or any other error is still recognised: no case that matches a wrapper comes first), and a nil error is answered only after a successful create or such a classification; " +
			"(6) Registration / Initialization stay behind Launch through the node lookup: utils/nodeclaim.NodeForNodeClaim hands back a Node only for a NodeClaim whose Status.ProviderID is non-empty " +
			"(tested in the function, in a private helper, or in AllNodesForNodeClaim whose list it takes the Node from).",
		NotCovered: []string{"whether a cloud provider wraps its capacity errors such that errors.As finds them (the classifiers' contract, C14.ERRC1/2, is what is decided)", "that a Node with a non-empty provider id equal to the NodeClaim's belongs to the instance that was launched (the provider's uniqueness of ids)",
			"duplicate launches across controller restarts (the cache is in memory; the property says 'while the controller keeps running')", "idempotence of the provider", "freshness of the informer cache beyond the launch cache bridge"},
		Rules: c14Rules,
	})
}

func cond(obj, typ string) string {
	return `\(opkg/status\.ConditionSet\)\.Get\(\(\*apis/v1\.NodeClaim\)\.StatusConditions\(` + obj + `, nil\), "` + typ + `"\)`
}

func c14Rules(tier string) []Rule {
	rules := c14RulesBase(tier)
	rules = append(rules, errClassifier("C14.ERRC1", "InsufficientCapacityError", false)...)
	rules = append(rules, errClassifier("C14.ERRC2", "NodeClassNotReadyError", false)...)
	// the labels / annotations resolved at launch are persisted before Launched=True is: a requeue that already sees
	// Launched skips Launch and would never write them again (the NodeClaim then looks drifted from its NodePool)
	rules = append(rules, c14ClassifiedFirst("C14.MPT7"), c14NodeLookup("C14.RET1"))
	rules = append(rules, NOREACH{ID: "C14.NR1", Fn: "(*life.Controller).Reconcile", From: `^call iface:\(cr/client\.SubResourceWriter\)\.Patch\(iface:\(cr/client\.StatusClient\)\.Status\(\$0\.kubeClient\), `,
		Sink: `^call iface:\(cr/client\.Writer\)\.Patch\(\$0\.kubeClient, `, Note: "no metadata patch after the status patch"})
	return rules
}

func c14RulesBase(tier string) []Rule {
	const (
		ctrl   = "(*life.Controller).Reconcile"
		launch = "(*life.Launch).Reconcile"
		lnc    = "(*life.Launch).launchNodeClaim"
		reg    = "(*life.Registration).Reconcile"
		ini    = "(*life.Initialization).Reconcile"
	)
	cpCreate := `^call iface:\(cloudprovider\.CloudProvider\)\.Create\(`
	setTrue := func(t string) string {
		return `^call \(opkg/status\.ConditionSet\)\.SetTrue\(\(\*apis/v1\.NodeClaim\)\.StatusConditions\(.*\), "` + t + `"\)`
	}
	created := `phi\(\(\*github\.com/patrickmn/go-cache\.cache\)\.Get\(\$0\.cache\.cache, \$2\.ObjectMeta\.UID\)#0\.\(\*apis/v1\.NodeClaim\)\|\(\*life\.Launch\)\.launchNodeClaim\(\$0, \$2\)#0\)`
	lerr := `phi\(nil\|\(\*life\.Launch\)\.launchNodeClaim\(\$0, \$2\)#1\)`
	nodeFor := func(recv string) string {
		return `utils/nodeclaim\.NodeForNodeClaim\(\$0\.kubeClient, \$2\)`
	}
	_ = nodeFor
	return []Rule{
		WMC{ID: "C14.WMC1", Sink: cpCreate,
			Allowed:  []string{lnc, "(*cloudprovider/metrics.decorator).Create", "(*cloudprovider/overlay.decorator).Create"},
			Required: []string{lnc}},
		WMC{ID: "C14.WMC1b", Sink: `^(call|go|defer) \(\*life\.Launch\)\.launchNodeClaim\(`, Allowed: []string{launch}, Required: []string{launch}},
		DOM{ID: "C14.DOM1", Fn: launch, Sink: `^call \(\*life\.Launch\)\.launchNodeClaim\(`, Gates: gates(
			G(`+^\(\*opkg/status\.Condition\)\.IsUnknown\(`+cond(`\$2`, "Launched")+`\)$`),
			G(`-^\(\*github\.com/patrickmn/go-cache\.cache\)\.Get\(\$0\.cache\.cache, \$2\.ObjectMeta\.UID\)#1$`),
		)},
		// created != nil ▸ cache.SetDefault(UID, created) on every path to a return
		POST{ID: "C14.POST1", Fn: launch, From: `^call \(\*life\.Launch\)\.launchNodeClaim\(`,
			Must:   []string{`^call \(\*github\.com/patrickmn/go-cache\.cache\)\.SetDefault\(\$0\.cache\.cache, \$2\.ObjectMeta\.UID, <\*apis/v1\.NodeClaim>` + created + `\)`},
			Excuse: []string{`-^` + lerr + ` == nil$`, `+^` + created + ` == nil$`}},
		DOM{ID: "C14.DOM1b", Fn: launch, Sink: setTrue("Launched"), Gates: gates(
			G(`-^`+created+` == nil$`),
			G(`+^`+lerr+` == nil$`),
			G(`instr:^call \(\*github\.com/patrickmn/go-cache\.cache\)\.SetDefault\(\$0\.cache\.cache, \$2\.ObjectMeta\.UID, `),
			G(`+^\(\*opkg/status\.Condition\)\.IsUnknown\(`+cond(`\$2`, "Launched")+`\)$`),
		)},
		// the cache entry is dropped only once Launched is true (persisted)
		DOM{ID: "C14.DOM1c", Fn: launch, Sink: `^call \(\*github\.com/patrickmn/go-cache\.cache\)\.Delete\(`, Gates: gates(
			G(`+^\(\*opkg/status\.Condition\)\.IsTrue\(` + cond(`\$2`, "Launched") + `\)$`),
		)},
		WMC{ID: "C14.WMC3", Sink: `^call \(\*github\.com/patrickmn/go-cache\.cache\)\.(Delete|Flush|DeleteExpired)\(\$0\.cache\.cache`, Allowed: []string{launch}, Note: "only Launch.Reconcile evicts launch-cache entries"},
		// launchNodeClaim returns an instance only when Create succeeded
		MPT{ID: "C14.MPT1", Fn: lnc, Ret: core.RetSpec{Index: 0, Want: "nonnil"}, Gates: gates(
			G(`+^iface:\(cloudprovider\.CloudProvider\)\.Create\(\$0\.cloudProvider, \$2\)#1 == nil$`),
		)},
		core.Custom{ID: "C14.PROV1", Kind: "PROV", Run: func(w *core.World, id string) []core.Result {
			return core.InstrPresent(w, id, "PROV", lnc, `^return iface:\(cloudprovider\.CloudProvider\)\.Create\(\$0\.cloudProvider, \$2\)#0, nil$`, 1, "the instance returned is the one the provider created")
		}},
		// capacity errors: Delete on every path, gated by the classification
		DOM{ID: "C14.DOM5", Fn: lnc, Sink: ncDelete, Min: 2, Max: 2, Gates: gates(
			G(`+^cloudprovider\.IsInsufficientCapacityError\(iface:\(cloudprovider\.CloudProvider\)\.Create\(\$0\.cloudProvider, \$2\)#1\)$`, `+^cloudprovider\.IsNodeClassNotReadyError\(iface:\(cloudprovider\.CloudProvider\)\.Create\(\$0\.cloudProvider, \$2\)#1\)$`),
			G(`-^iface:\(cloudprovider\.CloudProvider\)\.Create\(\$0\.cloudProvider, \$2\)#1 == nil$`),
		)},
		POST{ID: "C14.POST2", Fn: lnc, FromLit: `+^cloudprovider\.IsInsufficientCapacityError\(iface:\(cloudprovider\.CloudProvider\)\.Create\(`, Must: []string{ncDelete}},
		POST{ID: "C14.POST3", Fn: lnc, FromLit: `+^cloudprovider\.IsNodeClassNotReadyError\(iface:\(cloudprovider\.CloudProvider\)\.Create\(`, Must: []string{ncDelete}},
		// any other create error is returned (not swallowed): launchNodeClaim answers with a nil error only when Create
		// succeeded or its error was classified as a capacity error (then the NodeClaim is deleted, DOM5/POST2/POST3).
		// (Restates the former C14.IMPL1 — "after IsNodeClassNotReadyError⁻ no success return" — without assuming which
		// of the two capacity cases is asked last: swapping them is behaviour-preserving.)
		MPT{ID: "C14.MPT8", Fn: lnc, Ret: core.RetOK, Min: 2, Gates: gates(
			G(`+^iface:\(cloudprovider\.CloudProvider\)\.Create\(\$0\.cloudProvider, \$2\)#1 == nil$`,
				`+^cloudprovider\.IsInsufficientCapacityError\(iface:\(cloudprovider\.CloudProvider\)\.Create\(\$0\.cloudProvider, \$2\)#1\)$`,
				`+^cloudprovider\.IsNodeClassNotReadyError\(iface:\(cloudprovider\.CloudProvider\)\.Create\(\$0\.cloudProvider, \$2\)#1\)$`),
		)},

		// ---- controller: finalizer before sub-reconcilers
		DOM{ID: "C14.DOM2", Fn: ctrl, Sink: `^call iface:\(cr/reconcile\.TypedReconciler\[\*apis/v1\.NodeClaim\]\)\.Reconcile\(`, Gates: gates(
			G(`instr:^call cr/controller/controllerutil\.AddFinalizer\(<\*apis/v1\.NodeClaim>\$2, "karpenter\.sh/termination"\)$`),
			G(`+^\(k8s\.io/apimachinery/third_party/forked/golang/reflect\.Equalities\)\.DeepEqual\(apim/api/equality\.Semantic\.Equalities, <\*apis/v1\.NodeClaim>\$2, <\*apis/v1\.NodeClaim>\(\*apis/v1\.NodeClaim\)\.DeepCopy\(\$2\)\)$`,
				`+^iface:\(cr/client\.Writer\)\.Patch\(\$0\.kubeClient, <\*apis/v1\.NodeClaim>\$2, cr/client\.MergeFromWithOptions\(`),
			G(`+^utils/nodeclaim\.IsManaged\(\$2, \$0\.cloudProvider\)$`),
			G(`+^\(\*metav1\.Time\)\.IsZero\(\$2\.ObjectMeta\.DeletionTimestamp\)$`),
		)},
		core.Custom{ID: "C14.REG1", Kind: "REG", Run: c14Order},
		// sub-reconcilers are invoked only from the controller loop (no other entry that skips the finalizer)
		WMC{ID: "C14.WMC4", Sink: `^(call|go|defer) \(\*life\.(Launch|Registration|Initialization)\)\.Reconcile\(`, Allowed: []string{}},

		// ---- one site per condition
		WMC{ID: "C14.WMC2a", Sink: setTrue("Launched"), Allowed: []string{launch}, Required: []string{launch}},
		WMC{ID: "C14.WMC2b", Sink: setTrue("Registered"), Allowed: []string{reg}, Required: []string{reg}},
		WMC{ID: "C14.WMC2c", Sink: setTrue("Initialized"), Allowed: []string{ini}, Required: []string{ini}},
		// Set(cond) on a NodeClaim is only used to refresh an already decided condition
		WMC{ID: "C14.WMC2d", Sink: `^call \(opkg/status\.ConditionSet\)\.Set\(\(\*apis/v1\.NodeClaim\)\.StatusConditions\(`,
			Allowed: []string{launch, reg, ini}},
		DOM{ID: "C14.DOM6a", Fn: launch, Sink: `^call \(opkg/status\.ConditionSet\)\.Set\(\(\*apis/v1\.NodeClaim\)\.StatusConditions\(.*\), ` + cond(`\$2`, "Launched") + `\)$`, Gates: gates(
			G(`-^\(\*opkg/status\.Condition\)\.IsUnknown\(` + cond(`\$2`, "Launched") + `\)$`))},
		DOM{ID: "C14.DOM6b", Fn: reg, Sink: `^call \(opkg/status\.ConditionSet\)\.Set\(\(\*apis/v1\.NodeClaim\)\.StatusConditions\(.*\), ` + cond(`\$2`, "Registered") + `\)$`, Gates: gates(
			G(`-^\(\*opkg/status\.Condition\)\.IsUnknown\(` + cond(`\$2`, "Registered") + `\)$`))},
		DOM{ID: "C14.DOM6c", Fn: ini, Sink: `^call \(opkg/status\.ConditionSet\)\.Set\(\(\*apis/v1\.NodeClaim\)\.StatusConditions\(.*\), ` + cond(`\$2`, "Initialized") + `\)$`, Gates: gates(
			G(`-^\(\*opkg/status\.Condition\)\.IsUnknown\(` + cond(`\$2`, "Initialized") + `\)$`))},

		// ---- Registered
		DOM{ID: "C14.DOM3", Fn: reg, Sink: setTrue("Registered"),
			Stable: []string{`^lo\.IsEmpty\[cr/reconcile\.Result\]\(\(\*life\.Registration\)\.checkRegistrationHooks\(\$0, \$2\)#0\)$`, `^\(\*life\.Registration\)\.checkRegistrationHooks\(\$0, \$2\)#1 == nil$`},
			Gates: gates(
				G(`+^\(\*opkg/status\.Condition\)\.IsUnknown\(`+cond(`\$2`, "Registered")+`\)$`),
				G(`+^utils/nodeclaim\.NodeForNodeClaim\(\$0\.kubeClient, \$2\)#1 == nil$`),
				G(`+^lo\.IsEmpty\[cr/reconcile\.Result\]\(\(\*life\.Registration\)\.checkRegistrationHooks\(\$0, \$2\)#0\)$`),
				G(`+^\(\*life\.Registration\)\.checkRegistrationHooks\(\$0, \$2\)#1 == nil$`),
				G(`+^\(k8s\.io/apimachinery/third_party/forked/golang/reflect\.Equalities\)\.DeepEqual\(apim/api/equality\.Semantic\.Equalities, <\*corev1\.Node>\(\*corev1\.Node\)\.DeepCopy\(utils/nodeclaim\.NodeForNodeClaim\(\$0\.kubeClient, \$2\)#0\), <\*corev1\.Node>utils/nodeclaim\.NodeForNodeClaim\(\$0\.kubeClient, \$2\)#0\)$`,
					`+^iface:\(cr/client\.Writer\)\.Patch\(\$0\.kubeClient, <\*corev1\.Node>utils/nodeclaim\.NodeForNodeClaim\(\$0\.kubeClient, \$2\)#0, cr/client\.MergeFromWithOptions\(.* == nil$`),
				// the registered label was written and the unregistered taint rejected on the node object that is patched
				G(`instr:^mapupdate utils/nodeclaim\.NodeForNodeClaim\(\$0\.kubeClient, \$2\)#0\.ObjectMeta\.Labels\["karpenter\.sh/registered"\] = "true"$`),
				G(`instr:^store utils/nodeclaim\.NodeForNodeClaim\(\$0\.kubeClient, \$2\)#0\.Spec\.Taints = lo\.Reject\[corev1\.Taint, \[\]corev1\.Taint\]\(utils/nodeclaim\.NodeForNodeClaim\(\$0\.kubeClient, \$2\)#0\.Spec\.Taints, `),
			)},
		DOM{ID: "C14.DOM3b", Fn: reg, Sink: `^mapupdate .*\.ObjectMeta\.Labels\["karpenter\.sh/registered"\] = "true"$`, Gates: gates(
			G(`+^lo\.IsEmpty\[cr/reconcile\.Result\]\(\(\*life\.Registration\)\.checkRegistrationHooks\(\$0, \$2\)#0\)$`),
			G(`+^\(\*life\.Registration\)\.checkRegistrationHooks\(\$0, \$2\)#1 == nil$`),
		)},
		DOM{ID: "C14.DOM3c", Fn: reg, Sink: `^store .*\.Spec\.Taints = lo\.Reject\[corev1\.Taint`, Gates: gates(
			G(`+^lo\.IsEmpty\[cr/reconcile\.Result\]\(\(\*life\.Registration\)\.checkRegistrationHooks\(\$0, \$2\)#0\)$`),
			G(`+^\(\*life\.Registration\)\.checkRegistrationHooks\(\$0, \$2\)#1 == nil$`),
		)},
		core.Custom{ID: "C14.PROV2", Kind: "PROV", Run: func(w *core.World, id string) []core.Result {
			f := w.Fn("@arg:" + reg + `|^call lo\.Reject\[corev1\.Taint, \[\]corev1\.Taint\]\(|1`)
			if f == nil {
				return []core.Result{core.Bad(id, "PROV", "PROV:"+reg+":reject-pred", "", "the taint-rejecting predicate of Registration.Reconcile cannot be resolved")}
			}
			if len(w.SitesOr(f, regexp.MustCompile(`^return \(\*corev1\.Taint\)\.MatchTaint\(.*, apis/v1\.UnregisteredNoExecuteTaint\)$`), false, 1)) == 0 {
				return []core.Result{core.Bad(id, "PROV", "PROV:"+reg+":reject-pred", w.Pos(f.Pos()), "the predicate no longer rejects exactly the karpenter.sh/unregistered taint")}
			}
			rs := core.InstrPresent(w, id, "PROV", reg, `^store \$2\.Status\.NodeName = utils/nodeclaim\.NodeForNodeClaim\(\$0\.kubeClient, \$2\)#0\.ObjectMeta\.Name$`, 1, "Status.NodeName is the name of the node found")
			return rs
		}},
		// hooks: an erroring or pending hook makes checkRegistrationHooks return non-empty/err
		MPT{ID: "C14.MPT2", Fn: "(*life.Registration).checkRegistrationHooks", Ret: core.RetNilConst, Gates: gates(
			G(`-^len\(\$0\.registrationHooks\)>=1$`, `-^len\(phi\(nil\|.*\)\)>=1$`),
		)},

		// ---- Initialized
		DOM{ID: "C14.DOM4", Fn: ini, Sink: setTrue("Initialized"), Gates: gates(
			G(`+^\(\*opkg/status\.Condition\)\.IsUnknown\(`+cond(`\$2`, "Initialized")+`\)$`),
			G(`+^\(\*opkg/status\.Condition\)\.IsTrue\(`+cond(`\$2`, "Registered")+`\)$`),
			G(`+^utils/nodeclaim\.NodeForNodeClaim\(\$0\.kubeClient, \$2\)#1 == nil$`),
			G(`+^utils/node\.GetCondition\(utils/nodeclaim\.NodeForNodeClaim\(\$0\.kubeClient, \$2\)#0, "Ready"\)\.Status == "True"$`),
			G(`+^life\.StartupTaintsRemoved\(utils/nodeclaim\.NodeForNodeClaim\(\$0\.kubeClient, \$2\)#0, \$2\)#1$`),
			G(`+^life\.KnownEphemeralTaintsRemoved\(utils/nodeclaim\.NodeForNodeClaim\(\$0\.kubeClient, \$2\)#0\)#1$`),
			G(`+^life\.RequestedResourcesRegistered\(utils/nodeclaim\.NodeForNodeClaim\(\$0\.kubeClient, \$2\)#0, \$2\)#1$`),
			G(`+^\(\*life\.Initialization\)\.draDriverPoolsPublished\(\$0, utils/nodeclaim\.NodeForNodeClaim\(\$0\.kubeClient, \$2\)#0, \$2\)#1$`),
			G(`+^\(\*life\.Initialization\)\.draDriverPoolsPublished\(\$0, utils/nodeclaim\.NodeForNodeClaim\(\$0\.kubeClient, \$2\)#0, \$2\)#2 == nil$`),
			G(`+^\(k8s\.io/apimachinery/third_party/forked/golang/reflect\.Equalities\)\.DeepEqual\(.*<\*corev1\.Node>`, `+^iface:\(cr/client\.Writer\)\.Patch\(\$0\.kubeClient, <\*corev1\.Node>utils/nodeclaim\.NodeForNodeClaim\(\$0\.kubeClient, \$2\)#0, .* == nil$`),
		)},
		// the helper predicates
		IMPL{ID: "C14.IMPL2", Fn: "life.StartupTaintsRemoved", Lit: `+^\(\*corev1\.Taint\)\.MatchTaint\(`, Not: core.RetTrue},
		MPT{ID: "C14.MPT3", Fn: "life.StartupTaintsRemoved", Ret: core.RetTrue, Gates: gates(
			G(`+^\$1 == nil$`, `-^\(phi\(.*\) \+ 1\) < len\(\$1\.Spec\.StartupTaints\)$`))},
		IMPL{ID: "C14.IMPL3", Fn: "life.KnownEphemeralTaintsRemoved", Lit: `+^scheduling\.IsKnownEphemeralTaint\(`, Not: core.RetTrue},
		MPT{ID: "C14.MPT4", Fn: "life.KnownEphemeralTaintsRemoved", Ret: core.RetTrue, Gates: gates(
			G(`-^\(phi\(.*\) \+ 1\) < len\(\$0\.Spec\.Taints\)$`))},
		// what "ephemeral taint" means: a taint that matches a known one by key and effect (MatchTaint — the node
		// lifecycle controller stamps TimeAdded, values differ) or carries a known key prefix
		IMPL{ID: "C14.IMPL5", Fn: "scheduling.IsKnownEphemeralTaint", Lit: `+^\(\*corev1\.Taint\)\.MatchTaint\(scheduling\.KnownEphemeralTaints\[.*\], \$0\)$`, Not: core.RetFalse},
		IMPL{ID: "C14.IMPL6", Fn: "scheduling.IsKnownEphemeralTaint", Lit: `+^strings\.HasPrefix\(\$0\.Key, scheduling\.KnownEphemeralTaintKeyPrefixes\[.*\]\)$`, Not: core.RetFalse},
		ITER{ID: "C14.ITER1", Fn: "scheduling.IsKnownEphemeralTaint", Loop: `+^\(phi\(-1\|\(phi↺ \+ 1\)\) \+ 1\) < len\(scheduling\.KnownEphemeralTaints\)$`, Gates: gates(
			G(`-^\(\*corev1\.Taint\)\.MatchTaint\(scheduling\.KnownEphemeralTaints\[.*\], \$0\)$`))},
		MPT{ID: "C14.MPT6", Fn: "scheduling.IsKnownEphemeralTaint", Ret: core.RetFalse, Gates: gates(
			G(`+^\$0 == nil$`, `-^\(phi\(-1\|\(phi↺ \+ 1\)\) \+ 1\) < len\(scheduling\.KnownEphemeralTaints\)$`),
			G(`+^\$0 == nil$`, `-^\(phi\(-1\|\(phi↺ \+ 1\)\) \+ 1\) < len\(scheduling\.KnownEphemeralTaintKeyPrefixes\)$`))},
		IMPL{ID: "C14.IMPL4", Fn: "life.RequestedResourcesRegistered", Lit: `+^utils/resources\.IsZero\(\$0\.Status\.Allocatable\[next\(range\(\$1\.Spec\.Resources\.Requests\)\)#1\]\)$`, Not: core.RetTrue},
		MPT{ID: "C14.MPT5", Fn: "life.RequestedResourcesRegistered", Ret: core.RetTrue, Gates: gates(
			G(`-^next\(range\(\$1\.Spec\.Resources\.Requests\)\)#0$`))},
	}
}

// C14.REG1: the sub-reconciler slice is [launch, registration, initialization, liveness] in this order.
func c14Order(w *core.World, id string) []core.Result {
	const ctrl = "(*life.Controller).Reconcile"
	fn := w.Fn(ctrl)
	if fn == nil {
		return []core.Result{core.Anchor(id, "REG", ctrl)}
	}
	want := []string{"launch", "registration", "initialization", "liveness"}
	arr := regexp.MustCompile(`^store &local<\[(\d+)\]cr/reconcile\.TypedReconciler\[\*apis/v1\.NodeClaim\]>\[(\d+)\] = \$0\.(\w+)$`)
	got := map[string]string{}
	size := ""
	w.WithHelpers(fn, func(f *ssa.Function, _ ssa.Instruction) {
		for _, s := range w.Sites(f, arr, false) {
			m := arr.FindStringSubmatch(w.RenderInstr(s))
			got[m[2]] = m[3]
			size = m[1]
		}
	})
	construct := "REG:" + ctrl + ":order"
	if size != fmt.Sprint(len(want)) || len(got) != len(want) {
		return []core.Result{core.Bad(id, "REG", construct, w.Pos(fn.Pos()), fmt.Sprintf("sub-reconciler list has %s entries %v, expected %v", size, got, want))}
	}
	for i, n := range want {
		if got[fmt.Sprint(i)] != n {
			return []core.Result{core.Bad(id, "REG", construct, w.Pos(fn.Pos()), fmt.Sprintf("sub-reconciler #%d is %q, expected %q (order launch → registration → initialization → liveness)", i, got[fmt.Sprint(i)], n))}
		}
	}
	return []core.Result{core.OK(id, "REG", construct, 4, "order launch, registration, initialization, liveness")}
}

// C14.MPT7: the create error is classified before anything else is done with it. launchNodeClaim may only be left
//   - with Create's error nil, or
//   - after that very error was put to cloudprovider.IsInsufficientCapacityError AND to IsNodeClassNotReadyError (an
//     exit on the positive edge of either one is the Delete reaction, see POST2/POST3/DOM5, and need not ask the other).
//
// POST2/POST3 say "classified ⇒ Delete"; they are vacuous for an error that never reaches the classifier. The classifiers
// use errors.As, i.e. they recognise a capacity error wrapped in any other error (a CreateError carrying a condition
// reason, a context error, …); a branch that handles such a wrapper and returns before the classification turns
// "capacity error ⇒ delete" into "retry forever". The order of the two capacity cases among themselves is free.
func c14ClassifiedFirst(id string) Rule {
	const lnc = "(*life.Launch).launchNodeClaim"
	cerr := `iface:\(cloudprovider\.CloudProvider\)\.Create\(\$0\.cloudProvider, \$2\)#1`
	created := `+^` + cerr + ` == nil$`
	ice := `^cloudprovider\.IsInsufficientCapacityError\(` + cerr + `\)$`
	ncnr := `^cloudprovider\.IsNodeClassNotReadyError\(` + cerr + `\)$`
	return core.Custom{ID: id, Kind: "MPT", Run: func(w *core.World, id string) []core.Result {
		// "every return" is decided as "every return with a nil error" (5 today: created, deleted ×2, delete failed with an
		// ignorable error ×2) plus "every return with a non-nil error" (3 today: the retry, delete failed ×2): unlike the
		// outcome "any", these two are also followed into a private helper whose result is handed back
		// (`return l.createFailed(ctx, nodeClaim, err)`).
		g := gates(
			G(created, `?`+ice, `+`+ncnr),
			G(created, `?`+ncnr, `+`+ice),
		)
		rs := MPT{ID: id, Fn: lnc, Ret: core.RetSpec{Index: -1, Want: "nil"}, Min: 2, Gates: g}.Check(w)
		rs = append(rs, MPT{ID: id, Fn: lnc, Ret: core.RetSpec{Index: -1, Want: "nonnil"}, Gates: g}.Check(w)...)
		for i := range rs {
			if rs[i].Status != core.Discharged {
				rs[i].Msg = "the error of CloudProvider.Create is not put to IsInsufficientCapacityError / IsNodeClassNotReadyError on every path before launchNodeClaim is left (a capacity error wrapped in another error is then retried forever instead of deleting the NodeClaim): " + rs[i].Msg
			}
		}
		return rs
	}}
}

// C14.RET1: a NodeClaim whose Status.ProviderID is empty resolves to no Node. Registration has no test of Launched of its
// own: it stays behind Launch only because utils/nodeclaim.NodeForNodeClaim finds nothing for a NodeClaim that has no
// provider id yet (the field index would otherwise answer the lookup for "" with any Node that has not been given its
// provider id). Every value that NodeForNodeClaim can return as a (non-nil) Node therefore
//   - is returned under `Status.ProviderID != ""` of the NodeClaim passed in — tested in NodeForNodeClaim itself or in a
//     private helper it returns through —, or
//   - is an element of AllNodesForNodeClaim(·, the same NodeClaim)#0, and AllNodesForNodeClaim returns a non-nil list
//     only under that test.
func c14NodeLookup(id string) Rule {
	const (
		one = "utils/nodeclaim.NodeForNodeClaim"
		all = "utils/nodeclaim.AllNodesForNodeClaim"
	)
	return core.Custom{ID: id, Kind: "RET", Run: func(w *core.World, id string) []core.Result {
		construct := "RET:" + one + "#ret0⇐Status.ProviderID≠\"\""
		fn := w.Fn(one)
		if fn == nil {
			return []core.Result{core.Anchor(id, "RET", one)}
		}
		resolved := G(`-^\$2\.Status\.ProviderID == ""$`, `+^len\(\$2\.Status\.ProviderID\)>=1$`)
		elem := regexp.MustCompile(`^utils/nodeclaim\.AllNodesForNodeClaim\([^(),]*, \$2\)#0\[.*\]$`)
		nonnil := func(idx int) core.RetSpec { return core.RetSpec{Index: idx, Want: "nonnil"} }
		var out []core.Result
		n, viaAll := 0, false
		pending := map[ssa.Instruction]int{} // call of a helper whose result #k is handed back as the Node
		w.WithHelpers(fn, func(f *ssa.Function, via ssa.Instruction) {
			idx := 0
			if via != nil {
				k, ok := pending[via]
				if !ok {
					return
				}
				delete(pending, via)
				idx = k
			}
			for _, s := range w.ReturnSinks(f, nonnil(idx)) {
				n++
				if w.RetGuarded(s, resolved) {
					continue
				}
				if s.Val != nil && core.MatchRe(elem, w.Render(s.Val)) {
					viaAll = true
					continue
				}
				// handed back from a helper: decided when the helper is visited (private helpers only)
				var call *ssa.Call
				k := 0
				switch x := s.Val.(type) {
				case *ssa.Call:
					call = x
				case *ssa.Extract:
					call, _ = x.Tuple.(*ssa.Call)
					k = x.Index
				}
				if call != nil && call.Common().StaticCallee() != nil && core.IsKarpenterFn(call.Common().StaticCallee()) && core.FnName(call.Common().StaticCallee()) != all {
					if _, dup := pending[call]; !dup {
						pending[call] = k
						continue
					}
				}
				out = append(out, core.Bad(id, "RET", construct, w.InstrPos(s.Ret),
					fmt.Sprintf("%s can hand back a Node (%s) for a NodeClaim whose Status.ProviderID is empty: the value is neither returned under `Status.ProviderID != \"\"` nor an element of %s(…, nodeClaim)#0 — Registration would adopt any Node without provider id before the NodeClaim is launched", core.FnName(f), s.Desc, all)))
			}
		})
		for call := range pending {
			out = append(out, core.Bad(id, "RET", construct, w.InstrPos(call),
				fmt.Sprintf("%s hands back the result of `%s`, which cannot be looked into (not a private helper): not known to be nil for a NodeClaim whose Status.ProviderID is empty", one, clipStr(w.RenderInstr(call), 120))))
		}
		if n == 0 {
			out = append(out, core.Bad(id, "RET", construct, w.Pos(fn.Pos()), "vacuous: "+one+" never returns a Node (idiom not recognised)"))
		}
		m := 0
		if viaAll {
			af := w.Fn(all)
			if af == nil {
				return append(out, core.Anchor(id, "RET", all))
			}
			for _, s := range w.ReturnSinks(af, nonnil(0)) {
				m++
				if !w.RetGuarded(s, resolved) {
					out = append(out, core.Bad(id, "RET", "RET:"+all+"#ret0⇐Status.ProviderID≠\"\"", w.InstrPos(s.Ret),
						fmt.Sprintf("%s can return a list of Nodes (%s) for a NodeClaim whose Status.ProviderID is empty (the lookup by spec.providerID=\"\" matches every Node that has no provider id yet); %s takes its Node from this list", all, s.Desc, one)))
				}
			}
			if m == 0 {
				out = append(out, core.Bad(id, "RET", "RET:"+all+"#ret0⇐Status.ProviderID≠\"\"", w.Pos(af.Pos()), "vacuous: "+all+" never returns a list (idiom not recognised)"))
			}
		}
		if len(out) == 0 {
			out = append(out, core.OK(id, "RET", construct, n+m, fmt.Sprintf("%d Node return(s) of %s, %d list return(s) of %s: only for a NodeClaim with a provider id", n, one, m, all)))
		}
		return out
	}}
}
